// Package semorrs: harness command `sem-or-rs`.
//
// The `or` rule with inline members, compared with the Lean model of the LOADER step (ORS.loadAll: every member that is
// a type string or a rule-set becomes an anonymous type under a unique name, the node becomes a reference listing the
// names; driver word `semor`) followed by VK.validateT. The generator is the one of sem-or (scalar rules with odd number
// spellings, references to four named types, additionalProperties, nullable) with every member form the loader
// distinguishes: "@t" / {type: "@t"} (no type is created) / {type: "@t", nullable: true} / shorthand type string
// "integer" / rule-set {type: "integer", min: 0, exclusiveMinimum: true, nullable: true} / the type strings "object",
// "array", "any"; the same member twice; `nullable: true` on the or node itself. The request carries the members AS
// WRITTEN (`(or nul (N t1) (TR t1) (T rs) (RS rs))`): the anonymous types are created by the Lean model, not by the
// harness (that is the difference to sem-or, where the harness does the loader's work).
// Compared verdict: real Validate(document) == nil  <=>  model reply ACC.
package semorrs

import (
	stderrors "errors"
	"fmt"
	"math/rand"
	"regexp"
	"runtime"
	"strconv"
	"strings"
	"sync"

	jlib "github.com/jsightapi/jsight-schema-go-library"
	jdoc "github.com/jsightapi/jsight-schema-go-library/formats/json"
	"github.com/jsightapi/jsight-schema-go-library/notations/jschema"

	"verifharness/vh"
)

const (
	command = "sem-or-rs"
	prefix  = "semor" // driver command word (Driver/SemOR.lean)
	salt    = 3205
)

type Node struct {
	Kind     string // lit any arr obj ref or
	Lit      string // i f s b n
	Nullable bool
	Items    []*Node
	Props    []*Prop
	Names    []string
	Or       []*Node // kind "or": inline alternatives (scalar types with rules, or type names)
	Min, Max string
	MinX     bool
	MaxX     bool
	MinL     int // -1 = absent
	MaxL     int
	MinXF    bool   // `exclusiveMinimum: false` is written out (a false-valued rule must be inert)
	MaxXF    bool   // `exclusiveMaximum: false` is written out
	Neg      bool   // bounds from the pool of negative fractions (negBounds)
	Ex       string // example token of a literal when it is not the default of its kind
	Add      string // additionalProperties: "", any, object, array, string, integer, float, boolean, null, @tN
	Form     string // or member: "" (as short as possible), "typeref" ({type: "@t"}), "ruleset" ({type: "integer"} although no other rule), "cobj" / "carr" / "cany" (the type strings "object" / "array" / "any")
}
type Prop struct {
	Key      string
	Required bool
	Val      *Node
}
type Doc struct {
	Kind  string // l a o
	Lit   string
	Tok   string // the token, chosen when the document is printed
	Items []*Doc
	Keys  []string
}

var typeNames = []string{"t0", "t1", "t2", "t3"}

// gen carries the PRNG of one type table (all random choices of the table and its documents).
type gen struct {
	r       *rand.Rand
	mut     string   // kind of the last document mutation
	look    bool     // the document printed last holds a look-alike string
}

func (g *gen) genNode(depth int, allowRef bool) *Node {
	r := g.r
	k := r.Intn(20)
	if depth <= 0 && k >= 8 && k <= 14 {
		k = 0
	}
	switch {
	case k <= 7:
		if allowRef && r.Intn(2) == 0 {
			o := &Node{Kind: "or", MinL: -1, MaxL: -1}
			o.Nullable = r.Intn(5) == 0
			for i := 2 + r.Intn(2); i > 0; i-- {
				if r.Intn(3) == 0 {
					m := &Node{Kind: "ref", Names: []string{typeNames[r.Intn(len(typeNames))]}, MinL: -1, MaxL: -1}
					switch r.Intn(4) {
					case 0:
						m.Form = "typeref"
					case 1:
						if r.Intn(2) == 0 {
							m.Form = "typeref"
							m.Nullable = true // {type: "@t", nullable: true}: an anonymous type that is a nullable reference
						}
					}
					o.Or = append(o.Or, m)
				} else {
					o.Or = append(o.Or, g.inlineMember())
				}
			}
			if r.Intn(10) == 0 { // the same member twice
				o.Or = append(o.Or, o.Or[r.Intn(len(o.Or))])
			}
			return o
		}
		n := &Node{Kind: "lit", Lit: []string{"i", "f", "s", "b", "n"}[r.Intn(5)], Nullable: r.Intn(4) == 0, MinL: -1, MaxL: -1}
		switch n.Lit {
		case "i":
			if r.Intn(2) == 0 {
				n.Min = []string{"-5", "0", "1", "-0", "0.5", "1.0"}[r.Intn(6)]
				n.MinX = n.Min != "1" && n.Min != "1.0" && r.Intn(3) == 0
			}
			if r.Intn(2) == 0 {
				n.Max = []string{"1", "2", "7", "1.5", "1e1", "1.00"}[r.Intn(6)]
				n.MaxX = n.Max != "1" && n.Max != "1.00" && r.Intn(3) == 0
			}
		case "f":
			if r.Intn(2) == 0 {
				n.Min = []string{"-5", "0", "1.5", "1.50", "0.15e1", "1"}[r.Intn(6)]
				n.MinX = (n.Min == "-5" || n.Min == "0" || n.Min == "1") && r.Intn(3) == 0
			}
			if r.Intn(2) == 0 {
				n.Max = []string{"1.5", "2", "7.25", "15e-1", "100"}[r.Intn(5)]
				n.MaxX = (n.Max == "2" || n.Max == "7.25" || n.Max == "100") && r.Intn(3) == 0
			}
		case "s":
			if r.Intn(2) == 0 {
				n.MinL = r.Intn(4)
			}
			if r.Intn(2) == 0 {
				n.MaxL = 1 + r.Intn(4)
				if n.MaxL < n.MinL && r.Intn(4) != 0 {
					n.MaxL = n.MinL + r.Intn(2)
				}
			}
			// an example whose length lies within the bounds, if there is one
			k := 1
			if n.MinL > k {
				k = n.MinL
			}
			if k != 1 {
				n.Ex = `"` + strings.Repeat("s", k) + `"`
			}
		}
		if (n.Lit == "i" || n.Lit == "f") && r.Intn(3) == 0 {
			g.negBounds(n)
		}
		// one absent exclusive flag in three is written out with the value false
		n.MinXF = n.Min != "" && !n.MinX && r.Intn(3) == 0
		n.MaxXF = n.Max != "" && !n.MaxX && r.Intn(3) == 0
		return n
	case k <= 10:
		n := &Node{Kind: "arr"}
		for i := r.Intn(5); i > 0; i-- {
			n.Items = append(n.Items, g.genNode(depth-1, allowRef))
		}
		return n
	case k <= 14:
		n := &Node{Kind: "obj"}
		if r.Intn(2) == 0 {
			adds := []string{"any", "object", "array", "string", "integer", "float", "boolean", "null"}
			if allowRef {
				adds = append(adds, "@t0", "@t1", "@t2", "@t3")
			}
			n.Add = adds[r.Intn(len(adds))]
		}
		cnt := r.Intn(4)
		for i := 0; i < cnt; i++ {
			n.Props = append(n.Props, &Prop{Key: string("abcf"[i]), Required: r.Intn(3) != 0, Val: g.genNode(depth-1, allowRef)})
		}
		return n
	case k <= 18 && allowRef:
		n := &Node{Kind: "ref", Nullable: r.Intn(4) == 0}
		if r.Intn(3) == 0 {
			// `<example> // {type: "@t"}` / `{type: "@t", nullable: true}`: a scalar example with a type rule (the
			// example is taken from the named type once the whole table exists, see fixTypeRules)
			n.Form = "typerule"
			n.Nullable = r.Intn(2) == 0
			n.Names = []string{typeNames[r.Intn(len(typeNames))]}
			return n
		}
		cnt := 1 + r.Intn(3)
		for i := 0; i < cnt; i++ {
			nm := typeNames[r.Intn(len(typeNames))]
			dup := false
			for _, x := range n.Names {
				dup = dup || x == nm
			}
			if !dup {
				n.Names = append(n.Names, nm)
			}
		}
		return n
	default:
		return &Node{Kind: "any"}
	}
}

// inlineMember: an or member that is not a reference: a type string ("object", "array", "any", a scalar type) or a
// rule-set over a scalar type.
func (g *gen) inlineMember() *Node {
	r := g.r
	if r.Intn(8) == 0 {
		return &Node{Kind: "lit", Lit: "n", Form: []string{"cobj", "carr", "cany"}[r.Intn(3)], MinL: -1, MaxL: -1}
	}
	a := &Node{Kind: "lit", Lit: []string{"i", "f", "s", "b", "n"}[r.Intn(5)], MinL: -1, MaxL: -1}
	switch a.Lit {
	case "i", "f":
		if r.Intn(2) == 0 {
			a.Min = []string{"-5", "0", "1", "1.5", "2", "-1.5", "-0.5", "-12.5"}[r.Intn(8)]
			a.MinX = r.Intn(3) == 0
			a.MinXF = !a.MinX && r.Intn(4) == 0
		}
		if r.Intn(2) == 0 {
			a.Max = []string{"1", "2", "7", "1.5", "100", "-1.4", "-0.25", "-12.49"}[r.Intn(8)]
			a.MaxX = r.Intn(3) == 0
			a.MaxXF = !a.MaxX && r.Intn(4) == 0
		}
	case "s":
		if r.Intn(2) == 0 {
			a.MinL = r.Intn(3)
		}
		if r.Intn(2) == 0 {
			a.MaxL = 1 + r.Intn(3)
		}
	}
	if r.Intn(5) == 0 {
		a.Nullable = true
	}
	if r.Intn(4) == 0 {
		a.Form = "ruleset"
	}
	return a
}

// String tokens whose content looks like another JSON kind (the model says: a quoted token is a string, full stop),
// plain and with escapes. Document string scalars are drawn from this pool every second time; a case whose document
// holds one of them is validated 8 times by the real library and all repeats must agree (a type guess that depends
// on map iteration order differs from call to call).
var lookAlike = []string{`"a.b"`, `"1.5"`, `"1"`, `"-0"`, `"1e5"`, `"1.5e3"`, `"true"`, `"false"`, `"null"`, `"{"`, `"["`, `"{}"`, `"[]"`,
	`""`, `" "`, `"0.0"`, `"."`, `"e"`, `"E"`, `"v1.2"`, `"-1.5E+2"`, `"[1.5]"`, `"{\"a\": 1.5}"`,
	`"a\u002eb"`, `"1\u002e5"`, `"\u0031.5"`, `"tru\u0065"`, `"nul\u006c"`, `"\"1.5\""`, `"1.5\n"`, `"\u007b\u007d"`, `"\t1.0"`}

var lookSet = map[string]bool{}

func init() {
	have := map[string]bool{}
	for _, t := range tokPool["s"] {
		have[t] = true
	}
	for _, t := range lookAlike {
		lookSet[t] = true
		if !have[t] {
			tokPool["s"] = append(tokPool["s"], t)
		}
	}
}

var litText = map[string]string{"i": "1", "f": "1.5", "s": `"s"`, "b": "true", "n": "null"}

// Negative fractions that share their integer part, in several spellings: the comparison of two negative numbers
// with equal integer parts is decided by the fractional digits under the sign flip. Schema text may not spell a
// number with an exponent (lexical error 301), so exponent spellings occur in documents only.
var negBoundPool = []string{"-1.5", "-1.50", "-1.4", "-1.6", "-1.45", "-0.25", "-0.5", "-0.3", "-12.5", "-12.49"}
var negExamples = map[string][]string{
	"f": {"-1.5", "-1.4", "-1.6", "-1.45", "-1.55", "-0.25", "-0.5", "-0.3", "-0.2", "-12.5", "-12.49", "-12.51", "-1.0", "-13.5", "1.5"},
	"i": {"-1", "-2", "-12", "-13", "0", "1"},
}
var negDocToks = map[string][]string{
	"f": {"-1.5", "-1.50", "-15e-1", "-1.4", "-1.40", "-1.6", "-1.45", "-1.55", "-1.49", "-1.51", "-0.25", "-0.250", "-25e-2", "-0.5",
		"-0.3", "-0.2", "-0.26", "-0.24", "-1249e-2", "-12.49", "-12.5", "-125e-1", "-12.51", "-12.4", "-1.0", "-2.5", "-1", "-2", "-12", "-13", "-0"},
	"i": {"-1", "-2", "-12", "-13", "-0", "0", "-1e0", "-5"},
}

// strLen: decoded length in bytes of every string token of the pool, as computed by the Lean model of
// Bytes.Unquote (driver request `unq <hex>`); filled once by initStrLen before any case is generated. The request
// to the validator model carries a stand-in token of the same length (`"sss"`), because the model of the length
// rules counts the characters between the quotes and an S-expression atom cannot hold quotes, blanks or brackets.
var strLen = map[string]int{}
var strByLen = map[int][]string{}

func initStrLen() {
	toks := tokPool["s"]
	reqs := make([]string, len(toks))
	for i, t := range toks {
		reqs[i] = "unq " + vh.Hex([]byte(t))
	}
	for i, m := range vh.AskModel(reqs) {
		n := len(m) / 2
		strLen[toks[i]] = n
		strByLen[n] = append(strByLen[n], toks[i])
	}
}

func strStandIn(tok string) string {
	n, ok := strLen[tok]
	if !ok {
		n = len(tok) - 2
		if strings.Trim(tok, `"s`) != "" {
			panic("generator: string token outside the pool: " + tok)
		}
	}
	return `"` + strings.Repeat("s", n) + `"`
}

// parseDec: a decimal numeral without exponent as (signed mantissa, number of fractional digits, spelled negative).
func parseDec(t string) (v int64, scale int, neg bool) {
	neg = strings.HasPrefix(t, "-")
	t = strings.TrimPrefix(t, "-")
	if i := strings.IndexByte(t, '.'); i >= 0 {
		scale = len(t) - i - 1
		t = t[:i] + t[i+1:]
	}
	v, err := strconv.ParseInt(t, 10, 64)
	if err != nil {
		panic("generator: bad decimal " + t)
	}
	if neg {
		v = -v
	}
	return v, scale, neg
}

// spell writes the value v * 10^-scale as a random RFC 8259 numeral: optional minus (also on zero), trailing zeros
// of the fraction dropped or added, and one time in two an exponent part (e or E, optional + sign, -3..3) with
// the decimal point of the mantissa moved accordingly: 15 = 15 = 15.0 = 1.5E1 = 1.50e+1 = 0.15E2 = 150e-1 = 15000E-3.
func (g *gen) spell(v int64, scale int) string {
	r := g.r
	neg := v < 0 || (v == 0 && r.Intn(4) == 0)
	m := v
	if m < 0 {
		m = -m
	}
	for scale > 0 && m%10 == 0 && r.Intn(2) == 0 {
		m /= 10
		scale--
	}
	for i := 0; i < 2 && r.Intn(4) == 0 && m < 1e15; i++ {
		m *= 10
		scale++
	}
	useExp := r.Intn(2) == 0
	e := 0
	if useExp {
		e = r.Intn(7) - 3
	}
	s2 := scale + e // fractional digits of the mantissa
	digits := strconv.FormatInt(m, 10)
	ip, fp := "0", ""
	switch {
	case m == 0:
		if s2 > 0 {
			fp = strings.Repeat("0", s2)
		}
	case s2 <= 0:
		ip = digits + strings.Repeat("0", -s2)
	default:
		if len(digits) <= s2 {
			digits = strings.Repeat("0", s2-len(digits)+1) + digits
		}
		ip, fp = digits[:len(digits)-s2], digits[len(digits)-s2:]
	}
	t := ip
	if neg {
		t = "-" + t
	}
	if fp != "" {
		t += "." + fp
	}
	if useExp {
		t += string("eE"[r.Intn(2)])
		switch {
		case e < 0:
			t += "-" + strconv.Itoa(-e)
		case r.Intn(3) == 0:
			t += "+" + strconv.Itoa(e)
		default:
			t += strconv.Itoa(e)
		}
	}
	return t
}

// zeroExp: the document holds a numeral whose zero integer part is directly followed by an exponent (0e1, -0E5).
// The implementation does not recognise those as numbers (known finding K-C10-zeroexp, pinned by the repository's
// own tests).
var strTok = regexp.MustCompile(`"(\\.|[^"\\])*"`)
var expNum = regexp.MustCompile(`[0-9][eE]`)
var zeroExp = regexp.MustCompile(`(^|[ \[:,])-?0[eE]`)

// values the random documents spell out (mantissa, fractional digits)
var spellPool = map[string][][2]int64{
	"i": {{1, 0}, {15, 0}, {0, 0}, {-1, 0}, {2, 0}, {10, 0}, {100, 0}, {-5, 0}, {7, 0}, {150, 1}, {-12, 0}, {2000, 3}},
	"f": {{15, 1}, {25, 1}, {-15, 1}, {725, 2}, {1, 1}, {-5, 1}, {999, 1}, {155, 2}, {-1249, 2}, {5, 1}, {15, 2}, {1005, 3}},
}

func numVal(t string) float64 {
	v, err := strconv.ParseFloat(t, 64)
	if err != nil {
		panic("generator: bad number " + t)
	}
	return v
}

// boundsAdmit: the (decimal, exactly distinguishable) value of tok lies within the node's min / max.
func boundsAdmit(n *Node, tok string) bool {
	v := numVal(tok)
	if n.Min != "" {
		if lo := numVal(n.Min); v < lo || (n.MinX && v == lo) {
			return false
		}
	}
	if n.Max != "" {
		if hi := numVal(n.Max); v > hi || (n.MaxX && v == hi) {
			return false
		}
	}
	return true
}

// negBounds replaces the bounds of a number literal by bounds from the pool of negative fractions (min only, max
// only, or both; exclusive one time in three) and picks an example token that satisfies them, so that Check passes.
func (g *gen) negBounds(n *Node) {
	r := g.r
	n.Neg = true
	n.Min, n.Max, n.MinX, n.MaxX = "", "", false, false
	k := r.Intn(3)
	if k != 1 {
		n.Min = negBoundPool[r.Intn(len(negBoundPool))]
		n.MinX = r.Intn(3) == 0
	}
	if k != 0 {
		n.Max = negBoundPool[r.Intn(len(negBoundPool))]
		n.MaxX = r.Intn(3) == 0
	}
	for tries := 0; tries < 2; tries++ {
		c := negExamples[n.Lit]
		off := r.Intn(len(c))
		for i := range c {
			if t := c[(off+i)%len(c)]; boundsAdmit(n, t) {
				n.Ex = t
				return
			}
		}
		if n.Min != "" {
			n.Max, n.MaxX = "", false // empty window: keep the lower bound only
		} else {
			n.Max, n.MaxX = "-0.2", false
		}
	}
	n.Ex = litText[n.Lit] // not reached: "1" / "1.5" satisfy every lower bound of the pool
}

func exampleTok(n *Node) string {
	if n.Ex != "" {
		return n.Ex
	}
	return litText[n.Lit]
}

var tokPool = map[string][]string{
	"i": {"1", "0", "-1", "2", "7", "-5", "-0", "1e1", "10", "100", "2e0", "15e-1", "-2", "-12"},
	"f": {"1.5", "1.0", "2.50", "-0.5", "0.15e1", "7.25", "1.50", "-5.0", "1e-1", "99.9", "-1.5", "-1.4", "-1.6", "-1.45", "-15e-1", "-0.25", "-0.3", "-12.5", "-1249e-2"},
	// strings: plain ones, and spellings with escapes / multi-byte characters whose decoded length (the bytes of
	// the unquoted value: what minLength / maxLength count) is smaller than the raw length of the token
	"s": {`"s"`, `""`, `"ss"`, `"sss"`, `"ssss"`, `"sssss"`,
		`"\n"`, `"\""`, `"\\"`, `"\/"`, `"\u0041"`, `"\u0000"`, // 1 byte
		`"a\n"`, `"\t\r"`, `"\u0041\u0062"`, `"é"`, `"\u00e9"`, `"\u00E9"`, `"\b\f"`, // 2 bytes
		`"a\nb"`, `"€"`, `"\u20ac"`, `"\u0041\/\""`, `"é\n"`, `"s\u00e9"`, // 3 bytes
		`"😀"`, `"\ud83d\ude00"`, `"\uD83D\uDE00"`, `"éé"`, `"a\u20ac"`, `"\\\"\/\n"`, `"\u0073\u0073ss"`, // 4 bytes
		`"😀s"`, `"\ud83d\ude00\n"`, `"s\u20acs"`, `"\ud83d"`, // 5, 5, 5 bytes; a lone surrogate = U+FFFD = 3 bytes
	},
	"b": {"true", "false"},
	"n": {"null"},
}

func rules(n *Node, optional bool) string {
	var rs []string
	if n.Kind == "any" {
		rs = append(rs, `type: "any"`)
	}
	if optional {
		rs = append(rs, "optional: true")
	}
	if n.Kind == "ref" && n.Form == "typerule" {
		rs = append(rs, `type: "@`+n.Names[0]+`"`)
	}
	if n.Nullable {
		rs = append(rs, "nullable: true")
	}
	if n.Kind == "or" {
		var alts []string
		for _, a := range n.Or {
			if a.Kind == "ref" {
				switch {
				case a.Nullable:
					alts = append(alts, `{type: "@`+a.Names[0]+`", nullable: true}`)
				case a.Form == "typeref":
					alts = append(alts, `{type: "@`+a.Names[0]+`"}`)
				default:
					alts = append(alts, `"@`+a.Names[0]+`"`)
				}
				continue
			}
			switch a.Form {
			case "cobj":
				alts = append(alts, `"object"`)
				continue
			case "carr":
				alts = append(alts, `"array"`)
				continue
			case "cany":
				alts = append(alts, `"any"`)
				continue
			}
			ty := map[string]string{"i": "integer", "f": "float", "s": "string", "b": "boolean", "n": "null"}[a.Lit]
			var rs2 []string
			if a.Min != "" {
				rs2 = append(rs2, "min: "+a.Min)
				if a.MinX {
					rs2 = append(rs2, "exclusiveMinimum: true")
				} else if a.MinXF {
					rs2 = append(rs2, "exclusiveMinimum: false")
				}
			}
			if a.Max != "" {
				rs2 = append(rs2, "max: "+a.Max)
				if a.MaxX {
					rs2 = append(rs2, "exclusiveMaximum: true")
				} else if a.MaxXF {
					rs2 = append(rs2, "exclusiveMaximum: false")
				}
			}
			if a.MinL >= 0 {
				rs2 = append(rs2, fmt.Sprintf("minLength: %d", a.MinL))
			}
			if a.MaxL >= 0 {
				rs2 = append(rs2, fmt.Sprintf("maxLength: %d", a.MaxL))
			}
			if a.Nullable {
				rs2 = append(rs2, "nullable: true")
			}
			if len(rs2) == 0 && a.Form != "ruleset" {
				alts = append(alts, `"`+ty+`"`)
			} else {
				alts = append(alts, `{`+strings.Join(append([]string{`type: "`+ty+`"`}, rs2...), ", ")+`}`)
			}
		}
		rs = append(rs, "or: ["+strings.Join(alts, ", ")+"]")
	}
	if n.Kind == "lit" {
		if n.Min != "" {
			rs = append(rs, "min: "+n.Min)
			if n.MinX {
				rs = append(rs, "exclusiveMinimum: true")
			} else if n.MinXF {
				rs = append(rs, "exclusiveMinimum: false")
			}
		}
		if n.Max != "" {
			rs = append(rs, "max: "+n.Max)
			if n.MaxX {
				rs = append(rs, "exclusiveMaximum: true")
			} else if n.MaxXF {
				rs = append(rs, "exclusiveMaximum: false")
			}
		}
		if n.MinL >= 0 {
			rs = append(rs, fmt.Sprintf("minLength: %d", n.MinL))
		}
		if n.MaxL >= 0 {
			rs = append(rs, fmt.Sprintf("maxLength: %d", n.MaxL))
		}
	}
	if n.Kind == "obj" && n.Add != "" {
		rs = append(rs, `additionalProperties: "`+n.Add+`"`)
	}
	if len(rs) == 0 {
		return ""
	}
	return " // {" + strings.Join(rs, ", ") + "}"
}

// printNode returns the lines of the node; the first line gets `prefix`, a single-line node gets the comma
// before its annotation.
func printNode(n *Node, indent int, prefix, comma string, optional bool) []string {
	pad := strings.Repeat("  ", indent)
	switch n.Kind {
	case "or":
		ex := n.Ex // set by the stream of converging graphs (an example of a type the node reaches)
		if ex == "" {
			ex = orExample(n)
		}
		return []string{pad + prefix + ex + comma + rules(n, optional)}
	case "lit":
		return []string{pad + prefix + exampleTok(n) + comma + rules(n, optional)}
	case "any":
		return []string{pad + prefix + "1" + comma + rules(n, optional)}
	case "ref":
		if n.Form == "typerule" {
			return []string{pad + prefix + n.Ex + comma + rules(n, optional)}
		}
		var nm []string
		for _, x := range n.Names {
			nm = append(nm, "@"+x)
		}
		return []string{pad + prefix + strings.Join(nm, " | ") + comma + rules(n, optional)}
	case "arr":
		if len(n.Items) == 0 {
			return []string{pad + prefix + "[]" + comma + rules(n, optional)}
		}
		out := []string{pad + prefix + "[" + rules(n, optional)}
		for i, it := range n.Items {
			c := ","
			if i == len(n.Items)-1 {
				c = ""
			}
			out = append(out, printNode(it, indent+1, "", c, false)...)
		}
		return append(out, pad+"]"+comma)
	default:
		if len(n.Props) == 0 {
			return []string{pad + prefix + "{}" + comma + rules(n, optional)}
		}
		out := []string{pad + prefix + "{" + rules(n, optional)}
		for i, p := range n.Props {
			c := ","
			if i == len(n.Props)-1 {
				c = ""
			}
			out = append(out, printNode(p.Val, indent+1, `"`+p.Key+`": `, c, !p.Required)...)
		}
		return append(out, pad+"}"+comma)
	}
}

// orExample: an example that satisfies some scalar alternative, if any (a type reference shortcut is not
// allowed together with rules).
func orExample(n *Node) string {
	for _, a := range n.Or {
		if a.Kind == "lit" && a.Form != "cobj" && a.Form != "carr" && a.Form != "cany" {
			for _, t := range tokPool[a.Lit] {
				if strings.ContainsAny(t, "eE") {
					continue // an exponent is a lexical error in schema text
				}
				if litFits(a, t) {
					return t
				}
			}
		}
	}
	for _, a := range n.Or {
		switch a.Form {
		case "cobj":
			return "{}"
		case "carr":
			return "[]"
		case "cany":
			return "1"
		}
	}
	return "null"
}

func litFits(a *Node, t string) bool {
	switch a.Lit {
	case "i", "f":
		var v, lo, hi float64
		fmt.Sscan(t, &v)
		if a.Min != "" {
			fmt.Sscan(a.Min, &lo)
			if v < lo || (a.MinX && v == lo) {
				return false
			}
		}
		if a.Max != "" {
			fmt.Sscan(a.Max, &hi)
			if v > hi || (a.MaxX && v == hi) {
				return false
			}
		}
	case "s":
		l := len(t) - 2
		if a.MinL >= 0 && l < a.MinL {
			return false
		}
		if a.MaxL >= 0 && l > a.MaxL {
			return false
		}
	}
	return true
}

// memberSx: a member as written: (N name) = "@name", (TR name) = {type: "@name"}, (T rs) = type string, (RS rs) = rule-set
func memberSx(a *Node) string {
	if a.Kind == "ref" {
		switch {
		case a.Nullable:
			return "(RS (refnul " + a.Names[0] + "))"
		case a.Form == "typeref":
			return "(TR " + a.Names[0] + ")"
		}
		return "(N " + a.Names[0] + ")"
	}
	switch a.Form {
	case "cobj":
		return "(T (object))"
	case "carr":
		return "(T (array))"
	case "cany":
		return "(T (anyt))"
	}
	rs := "(sc " + a.Lit
	ruled := false
	if a.Min != "" {
		rs += " (min " + a.Min + ")"
		ruled = true
		if a.MinX {
			rs += " (xmin 1)"
		} else if a.MinXF {
			rs += " (xmin 0)"
		}
	}
	if a.Max != "" {
		rs += " (max " + a.Max + ")"
		ruled = true
		if a.MaxX {
			rs += " (xmax 1)"
		} else if a.MaxXF {
			rs += " (xmax 0)"
		}
	}
	if a.MinL >= 0 {
		rs += fmt.Sprintf(" (minl %d)", a.MinL)
		ruled = true
	}
	if a.MaxL >= 0 {
		rs += fmt.Sprintf(" (maxl %d)", a.MaxL)
		ruled = true
	}
	if a.Nullable {
		rs += " (nul 1)"
		ruled = true
	}
	rs += ")"
	if ruled || a.Form == "ruleset" {
		return "(RS " + rs + ")"
	}
	return "(T " + rs + ")"
}

func b01(v bool) string {
	if v {
		return "1"
	}
	return "0"
}

// sx prints the node for the model; an `or` node becomes a reference to fresh anonymous environment entries
// (collected in g.anonEnv), exactly what the loader does with inline alternatives.
func (g *gen) sx(n *Node) string {
	switch n.Kind {
	case "or":
		out := "(or " + b01(n.Nullable)
		for _, a := range n.Or {
			out += " " + memberSx(a)
		}
		return out + ")"
	case "lit":
		a := ""
		if n.Min != "" {
			a += " (min " + n.Min + " " + b01(n.MinX) + ")"
		}
		if n.Max != "" {
			a += " (max " + n.Max + " " + b01(n.MaxX) + ")"
		}
		if n.MinL >= 0 {
			a += fmt.Sprintf(" (minl %d)", n.MinL)
		}
		if n.MaxL >= 0 {
			a += fmt.Sprintf(" (maxl %d)", n.MaxL)
		}
		return "(lit " + n.Lit + " " + b01(n.Nullable) + a + ")"
	case "any":
		return "(any)"
	case "ref":
		return "(ref " + b01(n.Nullable) + " " + strings.Join(n.Names, " ") + ")"
	case "arr":
		s := "(arr"
		for _, it := range n.Items {
			s += " " + g.sx(it)
		}
		return s + ")"
	default:
		s := "(obj " + addSx(n.Add)
		for _, p := range n.Props {
			s += " (P " + p.Key + " " + b01(p.Required) + " " + g.sx(p.Val) + ")"
		}
		return s + ")"
	}
}

func addSx(a string) string {
	switch a {
	case "":
		return "(add none)"
	case "any":
		return "(add any)"
	case "object":
		return "(add obj)"
	case "array":
		return "(add arr)"
	case "string":
		return "(add lit s)"
	case "integer":
		return "(add lit i)"
	case "float":
		return "(add lit f)"
	case "boolean":
		return "(add lit b)"
	case "null":
		return "(add lit n)"
	}
	return "(add type " + a[1:] + ")"
}

func (g *gen) genDoc(depth int) *Doc {
	r := g.r
	k := r.Intn(8)
	if depth <= 0 && k >= 5 {
		k = 0
	}
	switch {
	case k <= 4:
		return &Doc{Kind: "l", Lit: []string{"i", "f", "s", "b", "n"}[r.Intn(5)]}
	case k == 5 || k == 6:
		d := &Doc{Kind: "a"}
		for i := r.Intn(4); i > 0; i-- {
			d.Items = append(d.Items, g.genDoc(depth-1))
		}
		return d
	default:
		d := &Doc{Kind: "o"}
		for i := r.Intn(4); i > 0; i-- {
			d.Keys = append(d.Keys, string("abcfe"[r.Intn(5)]))
			d.Items = append(d.Items, g.genDoc(depth-1))
		}
		return d
	}
}

// sample draws a document that is likely to be accepted.
func (g *gen) sample(n *Node, types map[string]*Node, fuel int) *Doc {
	r := g.r
	if fuel <= 0 {
		return &Doc{Kind: "l", Lit: "n"}
	}
	if n.Nullable && r.Intn(4) == 0 {
		return &Doc{Kind: "l", Lit: "n"}
	}
	switch n.Kind {
	case "lit":
		switch n.Form {
		case "cobj": // the type string "object": an object validator on a node without children
			d := &Doc{Kind: "o"}
			if r.Intn(3) == 0 {
				d.Keys, d.Items = []string{"a"}, []*Doc{g.genDoc(0)}
			}
			return d
		case "carr":
			d := &Doc{Kind: "a"}
			if r.Intn(3) == 0 {
				d.Items = []*Doc{g.genDoc(0)}
			}
			return d
		case "cany":
			return g.genDoc(1)
		}
		if (n.Lit == "i" || n.Lit == "f") && (n.Min != "" || n.Max != "") && r.Intn(2) == 0 {
			// a probe exactly on a bound, or one unit of its last digit / a tenth of it below or above, in any spelling
			b := n.Min
			if b == "" || (n.Max != "" && r.Intn(2) == 0) {
				b = n.Max
			}
			v, scale, _ := parseDec(b)
			switch r.Intn(5) {
			case 0:
				v--
			case 1:
				v++
			case 2:
				v, scale = v*10-1, scale+1
			case 3:
				v, scale = v*10+1, scale+1
			}
			return &Doc{Kind: "l", Lit: n.Lit, Tok: g.spell(v, scale)}
		}
		if n.Lit == "s" && (n.MinL >= 0 || n.MaxL >= 0) && r.Intn(2) == 0 {
			// a string whose decoded length is n-1, n or n+1 for one of the length bounds n, in any spelling
			b := n.MinL
			if b < 0 || (n.MaxL >= 0 && r.Intn(2) == 0) {
				b = n.MaxL
			}
			if p := strByLen[b-1+r.Intn(3)]; len(p) > 0 {
				return &Doc{Kind: "l", Lit: "s", Tok: p[r.Intn(len(p))]}
			}
		}
		if n.Neg && r.Intn(4) != 0 { // a value on / just inside / just outside the negative bounds, in some spelling
			p := negDocToks[n.Lit]
			return &Doc{Kind: "l", Lit: n.Lit, Tok: p[r.Intn(len(p))]}
		}
		if n.Lit == "f" && r.Intn(2) == 0 {
			return &Doc{Kind: "l", Lit: "i"}
		}
		return &Doc{Kind: "l", Lit: n.Lit}
	case "any":
		return g.genDoc(1)
	case "or":
		return g.sample(n.Or[r.Intn(len(n.Or))], types, fuel-1)
	case "ref":
		return g.sample(types[n.Names[r.Intn(len(n.Names))]], types, fuel-1)
	case "arr":
		d := &Doc{Kind: "a"}
		if len(n.Items) == 0 {
			return d
		}
		cnt := r.Intn(len(n.Items) + 2)
		for i := 0; i < cnt; i++ {
			j := i
			if j >= len(n.Items) {
				j = len(n.Items) - 1
			}
			d.Items = append(d.Items, g.sample(n.Items[j], types, fuel-1))
		}
		return d
	default:
		d := &Doc{Kind: "o"}
		perm := r.Perm(len(n.Props))
		for _, i := range perm {
			p := n.Props[i]
			if p.Required || r.Intn(2) == 0 {
				d.Keys = append(d.Keys, p.Key)
				d.Items = append(d.Items, g.sample(p.Val, types, fuel-1))
			}
		}
		if n.Add != "" && r.Intn(2) == 0 {
			var v *Doc
			switch n.Add {
			case "any":
				v = g.genDoc(1)
			case "object":
				v = &Doc{Kind: "o"}
			case "array":
				v = &Doc{Kind: "a", Items: []*Doc{g.genDoc(0)}}
			case "string":
				v = &Doc{Kind: "l", Lit: "s"}
			case "integer":
				v = &Doc{Kind: "l", Lit: "i"}
			case "float":
				v = &Doc{Kind: "l", Lit: []string{"f", "i"}[r.Intn(2)]}
			case "boolean":
				v = &Doc{Kind: "l", Lit: "b"}
			case "null":
				v = &Doc{Kind: "l", Lit: "n"}
			default:
				v = g.sample(types[n.Add[1:]], types, fuel-1)
			}
			if r.Intn(4) == 0 { // whatever the mode: a string value that looks like another kind
				v = &Doc{Kind: "l", Lit: "s", Tok: lookAlike[r.Intn(len(lookAlike))]}
			}
			d.Keys = append(d.Keys, "e")
			d.Items = append(d.Items, v)
		}
		return d
	}
}

func (g *gen) mutateDoc(d *Doc) *Doc {
	r := g.r
	switch r.Intn(6) {
	case 0:
		g.mut = "regenerate"
		return g.genDoc(1)
	case 1:
		if d.Kind == "o" && len(d.Keys) > 0 { // drop a member
			g.mut = "drop_member"
			i := r.Intn(len(d.Keys))
			nd := &Doc{Kind: "o"}
			for j := range d.Keys {
				if j != i {
					nd.Keys = append(nd.Keys, d.Keys[j])
					nd.Items = append(nd.Items, d.Items[j])
				}
			}
			return nd
		}
	case 2:
		if d.Kind == "o" { // add / repeat a member
			g.mut = "add_member"
			nd := &Doc{Kind: "o", Keys: append([]string{}, d.Keys...), Items: append([]*Doc{}, d.Items...)}
			nd.Keys = append(nd.Keys, string("abcfeg"[r.Intn(6)]))
			nd.Items = append(nd.Items, g.genDoc(1))
			return nd
		}
	case 3:
		if d.Kind == "a" {
			g.mut = "append_item"
			nd := &Doc{Kind: "a", Items: append([]*Doc{}, d.Items...)}
			nd.Items = append(nd.Items, g.genDoc(1))
			return nd
		}
	}
	if len(d.Items) > 0 {
		i := r.Intn(len(d.Items))
		nd := &Doc{Kind: d.Kind, Keys: d.Keys, Items: append([]*Doc{}, d.Items...)}
		nd.Items[i] = g.mutateDoc(d.Items[i])
		return nd
	}
	g.mut = "none"
	return d
}

// docText prints the document; a scalar gets its token on first printing (the example token of the schema
// literals once in three times, otherwise one of the pool of spellings of its kind).
func (g *gen) docText(d *Doc) string {
	switch d.Kind {
	case "l":
		if d.Tok == "" {
			d.Tok = tokPool[d.Lit][g.r.Intn(len(tokPool[d.Lit]))]
			if g.r.Intn(3) == 0 {
				d.Tok = litText[d.Lit]
			} else if p := spellPool[d.Lit]; p != nil && g.r.Intn(3) == 0 {
				x := p[g.r.Intn(len(p))]
				d.Tok = g.spell(x[0], int(x[1]))
			}
		}
		if lookSet[d.Tok] {
			g.look = true
		}
		return d.Tok
	case "a":
		var xs []string
		for _, it := range d.Items {
			xs = append(xs, g.docText(it))
		}
		return "[" + strings.Join(xs, ", ") + "]"
	default:
		var xs []string
		for i, k := range d.Keys {
			xs = append(xs, `"`+k+`": `+g.docText(d.Items[i]))
		}
		return "{" + strings.Join(xs, ",") + "}"
	}
}

func docSx(d *Doc) string {
	switch d.Kind {
	case "l":
		if strings.HasPrefix(d.Tok, `"`) {
			return "(l " + strStandIn(d.Tok) + ")"
		}
		return "(l " + d.Tok + ")"
	case "a":
		s := "(a"
		for _, it := range d.Items {
			s += " " + docSx(it)
		}
		return s + ")"
	default:
		s := "(o"
		for i, k := range d.Keys {
			s += " (m " + k + " " + docSx(d.Items[i]) + ")"
		}
		return s + ")"
	}
}

func errCode(err error) string {
	var pe jlib.ParsingError
	if stderrors.As(err, &pe) {
		return fmt.Sprint(pe.ErrCode())
	}
	return "other"
}

// validate: a fresh schema object per call, as a user would write it; every library call under recover.
// Result: ACC | REJ | ADDERR <code> … | CHECKERR <code> … | PANIC …
func validate(rootText string, typeTexts map[string]string, order []string, doc string) string {
	return vh.Recover(func() string {
		s := jschema.New("root", rootText)
		for _, nm := range order {
			if err := s.AddType("@"+nm, jschema.New("@"+nm, typeTexts[nm])); err != nil {
				return "ADDERR " + errCode(err) + " " + err.Error()
			}
		}
		if err := s.Check(); err != nil {
			return "CHECKERR " + errCode(err) + " " + err.Error()
		}
		if err := s.Validate(jdoc.New("doc", doc)); err != nil {
			return "REJ"
		}
		return "ACC"
	})
}

// features of the schema reachable from the root (through references).
type feat struct {
	refs, multiRef, nullable, nullableRef, recursive bool
	emptyRef                                         bool // a reference position without any alternative (see emptyAlts)
	nodes                                            int
	adds                                             map[string]bool // additionalProperties modes in use
	rules                                            map[string]bool // scalar rules in use
	or, orRuled, orTypeName                          bool            // or rule; with a ruled scalar alternative; with a type name
	orForms                                          map[string]bool // member forms in use
}

func addMode(a string) string {
	if strings.HasPrefix(a, "@") {
		return "usertype"
	}
	return a
}

func (f *feat) visitType(nm string, types map[string]*Node, open map[string]bool, done map[string]bool) {
	if open[nm] {
		f.recursive = true
	}
	if done[nm] {
		return
	}
	done[nm] = true
	open[nm] = true
	f.walk(types[nm], types, open, done)
	open[nm] = false
}

func (f *feat) walk(n *Node, types map[string]*Node, open map[string]bool, done map[string]bool) {
	f.nodes++
	if n.Nullable {
		f.nullable = true
	}
	switch n.Kind {
	case "or":
		f.or = true
		var refAlts []string
		for _, a := range n.Or {
			if a.Kind == "ref" {
				refAlts = append(refAlts, a.Names[0])
			}
		}
		nulAlt := n.Nullable
		for _, a := range n.Or {
			nulAlt = nulAlt || a.Nullable
			switch {
			case a.Kind == "ref" && a.Nullable:
				f.orForms["typeref_nullable"] = true
			case a.Kind == "ref" && a.Form == "typeref":
				f.orForms["typeref"] = true
			case a.Kind == "ref":
				f.orForms["name"] = true
			case a.Form == "cobj" || a.Form == "carr" || a.Form == "cany":
				f.orForms["type_string_"+a.Form[1:]] = true
			case a.Nullable:
				f.orForms["ruleset_nullable"] = true
			case a.Form == "ruleset":
				f.orForms["ruleset_type_only"] = true
			case a.Min != "" || a.Max != "" || a.MinL >= 0 || a.MaxL >= 0:
				f.orForms["ruleset_ruled"] = true
			default:
				f.orForms["type_string_scalar"] = true
			}
			if a.MinX || a.MaxX {
				f.orForms["ruleset_exclusive"] = true
			}
		}
		if n.Nullable {
			f.orForms["or_node_nullable"] = true
		}
		if !nulAlt && len(refAlts) == len(n.Or) && emptyAlts(types, refAlts) {
			f.emptyRef = true
		}
		for _, a := range n.Or {
			if a.Kind == "ref" {
				f.orTypeName = true
				f.refs = true
				f.nodes++
				f.visitType(a.Names[0], types, open, done)
				continue
			} else if a.Min != "" || a.Max != "" || a.MinL >= 0 || a.MaxL >= 0 {
				f.orRuled = true
			}
			f.walk(a, types, open, done)
		}
	case "lit":
		if n.Neg {
			f.rules["negative_fraction_bounds"] = true
		}
		if n.MinXF {
			f.rules["exclusiveMinimum_false"] = true
		}
		if n.MaxXF {
			f.rules["exclusiveMaximum_false"] = true
		}
		if n.Min != "" {
			f.rules["min"] = true
			if n.MinX {
				f.rules["exclusiveMinimum"] = true
			}
		}
		if n.Max != "" {
			f.rules["max"] = true
			if n.MaxX {
				f.rules["exclusiveMaximum"] = true
			}
		}
		if n.MinL >= 0 {
			f.rules["minLength"] = true
		}
		if n.MaxL >= 0 {
			f.rules["maxLength"] = true
		}
	case "ref":
		f.refs = true
		if !n.Nullable && emptyAlts(types, n.Names) {
			f.emptyRef = true
		}
		if len(n.Names) > 1 {
			f.multiRef = true
		}
		if n.Form == "typerule" {
			f.orForms["node_type_rule"] = true
			if n.Nullable {
				f.orForms["node_type_rule_nullable"] = true
			}
		}
		if n.Nullable {
			f.nullableRef = true
		}
		for _, nm := range n.Names {
			f.visitType(nm, types, open, done)
		}
	case "arr":
		for _, it := range n.Items {
			f.walk(it, types, open, done)
		}
	case "obj":
		if n.Add != "" {
			f.adds[addMode(n.Add)] = true
			if strings.HasPrefix(n.Add, "@") {
				if emptyAlts(types, []string{n.Add[1:]}) {
					f.emptyRef = true
				}
				f.visitType(n.Add[1:], types, open, done)
			}
		}
		for _, p := range n.Props {
			f.walk(p.Val, types, open, done)
		}
	}
}

// emptyAlts reports whether the reference `@n1 | @n2 | …` expands to no alternative at all: following root-level
// references only, every name ends in a cycle of pure references (@a = @a; @a = @b, @b = @a). Nothing inhabits such a
// position, yet Check accepts the table when the position is an array item, additionalProperties or a property
// inside a named type (known finding K-C09-cycle). The validator then builds an empty validator list for the
// position and feeds the value's events to the parent validator, so a few documents are accepted that no reading of
// the schema admits; the model (least fixpoint: no alternative) rejects them. Differences on tables with such a
// position reachable from the root carry the class K-C09-cycle.
func emptyAlts(types map[string]*Node, names []string) bool {
	seen := map[string]bool{}
	todo := append([]string{}, names...)
	for len(todo) > 0 {
		nm := todo[len(todo)-1]
		todo = todo[:len(todo)-1]
		if seen[nm] {
			continue
		}
		seen[nm] = true
		switch t := types[nm]; t.Kind {
		case "ref":
			if t.Nullable {
				return false // the literal null is an alternative
			}
			todo = append(todo, t.Names...)
		case "or":
			if t.Nullable {
				return false
			}
			for _, a := range t.Or {
				if a.Kind != "ref" || a.Nullable {
					return false
				}
				todo = append(todo, a.Names[0])
			}
		default:
			return false
		}
	}
	return true
}

// fixTypeRules gives every `{type: "@t"}` node a scalar example of the named type (a literal type: its example; an
// or type: the example of the or node); when the type has no scalar example the node falls back to the shortcut `@t`.
func fixTypeRules(n *Node, types map[string]*Node) {
	switch n.Kind {
	case "ref":
		if n.Form != "typerule" {
			return
		}
		switch t := types[n.Names[0]]; {
		case t.Kind == "lit":
			n.Ex = exampleTok(t)
		case t.Kind == "or":
			n.Ex = orExample(t)
		default:
			n.Form = ""
		}
		if n.Form == "typerule" && (strings.HasPrefix(n.Ex, "{") || strings.HasPrefix(n.Ex, "[")) {
			n.Form = ""
		}
	case "arr":
		for _, it := range n.Items {
			fixTypeRules(it, types)
		}
	case "obj":
		for _, p := range n.Props {
			fixTypeRules(p.Val, types)
		}
	}
}

type oneCase struct {
	line, impl, input string
	nontrivial        bool
	class             string // known-finding class the table lies in, if the generator can tell
	stats             []string
}

type tableResult struct {
	stats []string
	cases []oneCase
}

func showInput(names []string, rootText string, typeTexts map[string]string, doc string) string {
	var sb strings.Builder
	sb.WriteString("SCHEMA:\n" + rootText + "\nTYPES (AddType name = text):")
	for _, nm := range names {
		sb.WriteString("\n@" + nm + " = " + typeTexts[nm])
	}
	sb.WriteString("\nDOCUMENT: " + doc)
	return sb.String()
}

// oneTable generates one type table + root, checks it, and evaluates 12 documents. dag: the table comes from the
// stream of converging reference graphs (dag.go), which is legal by construction: a refusal by Check is not skipped.
func oneTable(seed int64, dag bool) tableResult {
	g := &gen{r: rand.New(rand.NewSource(seed))}
	var res tableResult
	names := typeNames
	var types map[string]*Node
	var root *Node
	typeTexts := map[string]string{}
	env := "(env"
	if dag {
		var st []string
		names, types, root, st = g.genDag()
		res.stats = append(res.stats, "tables_converging_stream")
		res.stats = append(res.stats, st...)
	} else {
		types = map[string]*Node{}
		for _, nm := range names {
			types[nm] = g.genNode(2, true)
		}
		root = g.genNode(3, true)
		for _, nm := range names {
			fixTypeRules(types[nm], types)
		}
		fixTypeRules(root, types)
	}
	for _, nm := range names {
		typeTexts[nm] = strings.Join(printNode(types[nm], 0, "", "", false), "\n")
		env += " (t " + nm + " " + g.sx(types[nm]) + ")"
	}
	rootText := strings.Join(printNode(root, 0, "", "", false), "\n")
	if v := validate(rootText, typeTexts, names, "1"); strings.HasPrefix(v, "CHECKERR") || strings.HasPrefix(v, "ADDERR") || strings.HasPrefix(v, "PANIC") {
		w := strings.SplitN(v, " ", 3)
		code := "PANIC"
		if w[0] != "PANIC" {
			code = w[0] + "_" + w[1]
		}
		if !dag {
			res.stats = append(res.stats, "check_failed", "check_failed_"+code)
			return res
		}
		res.stats = append(res.stats, "converging_table_refused", "converging_table_refused_"+code)
	}
	f := feat{adds: map[string]bool{}, rules: map[string]bool{}, orForms: map[string]bool{}}
	f.walk(root, types, map[string]bool{}, map[string]bool{})
	class := ""
	if f.emptyRef {
		class = "K-C09-cycle"
		res.stats = append(res.stats, "table_uninhabited_alias_cycle_reachable")
	}
	res.stats = append(res.stats, "tables_checked", "root_"+root.Kind)
	for _, fl := range []struct {
		on bool
		nm string
	}{{f.refs, "table_uses_ref"}, {f.multiRef, "table_uses_ref_alternatives"}, {f.nullable, "table_uses_nullable"},
		{f.nullableRef, "table_uses_nullable_ref"}, {f.recursive, "table_recursive_types"},
		{f.or, "table_uses_or"}, {f.orRuled, "table_uses_or_with_ruled_scalar"}, {f.orTypeName, "table_uses_or_with_type_name"}} {
		if fl.on {
			res.stats = append(res.stats, fl.nm)
		}
	}
	for m := range f.adds {
		res.stats = append(res.stats, "table_uses_additionalProperties_"+m)
	}
	if len(f.adds) > 0 {
		res.stats = append(res.stats, "table_uses_additionalProperties")
	}
	for m := range f.orForms {
		res.stats = append(res.stats, "table_or_member_"+m)
	}
	for m := range f.rules {
		res.stats = append(res.stats, "table_uses_rule_"+m)
	}
	if len(f.rules) > 0 {
		res.stats = append(res.stats, "table_uses_scalar_rules")
	}
	rootSx := g.sx(root)
	env += ")"
	for j := 0; j < 12; j++ {
		var d *Doc
		var st []string
		switch {
		case j < 5:
			d = g.sample(root, types, 6)
			st = append(st, "doc_sampled")
		case j < 10:
			g.mut = "none"
			d = g.mutateDoc(g.sample(root, types, 6))
			st = append(st, "doc_mutated", "mutation_"+g.mut)
		default:
			d = g.genDoc(2)
			st = append(st, "doc_random")
		}
		g.look = false
		dt := g.docText(d) // fixes the tokens: must precede docSx
		v := validate(rootText, typeTexts, names, dt)
		if g.look {
			st = append(st, "doc_with_lookalike_string")
			for k := 1; k < 8; k++ {
				if w := validate(rootText, typeTexts, names, dt); w != v {
					v = fmt.Sprintf("UNSTABLE: call 1 = %s, call %d = %s", v, k+1, w)
					break
				}
			}
		}
		switch {
		case v == "ACC":
			st = append(st, "accepted")
		case v == "REJ":
			st = append(st, "rejected")
		default:
			st = append(st, "impl_other")
		}
		st = append(st, "doc_root_"+d.Kind)
		caseClass := class
		noStr := strTok.ReplaceAllString(dt, `""`) // numerals only: string contents blanked
		if zeroExp.MatchString(noStr) {
			caseClass = "K-C10-zeroexp"
			st = append(st, "doc_with_zero_exponent_numeral")
		}
		if expNum.MatchString(noStr) {
			st = append(st, "doc_with_exponent_numeral")
		}
		if strings.ContainsAny(dt, "\\é€😀") {
			st = append(st, "doc_with_escaped_or_multibyte_string")
		}
		res.cases = append(res.cases, oneCase{
			line:  prefix + " val " + env + " " + rootSx + " " + docSx(d),
			impl:  v,
			input: showInput(names, rootText, typeTexts, dt),
			// an `or` rule is reachable from the root
			nontrivial: f.or || f.orForms["node_type_rule"] || dag,
			stats:      st,
			class:      caseClass,
		})
	}
	return res
}

func Run(args []string) {
	rep := vh.NewReport(command, "random type tables as in sem-or (4 named types, root of depth<=3, recursive references, nullable, additionalProperties, scalar rules with odd number spellings and the same document pools: bounds hit exactly / one unit off in every RFC 8259 spelling, strings at decoded length n-1, n, n+1, look-alike strings) where every second scalar position carries an or rule with 2-3 members (one table in ten repeats a member) in EVERY form the loader distinguishes: \"@t\" / {type: \"@t\"} (no type is created) / {type: \"@t\", nullable: true} / a type string (\"integer\" …, also \"object\", \"array\", \"any\") / a rule-set {type, min, max, exclusiveMinimum / exclusiveMaximum true or false, minLength, maxLength, nullable: true} / a rule-set with the type only; `nullable: true` on the or node itself (one in five); one reference node in three is written `<scalar example of the type> // {type: \"@t\"}` with nullable: true half of the time (F-33: such a node and a nullable or node admitted every value of the example's kind); JSight text -> real AddType/Check/Validate; the request carries the members AS WRITTEN ((or nul (N t) (TR t) (T rs) (RS rs))) and the Lean loader model ORS.loadAll creates the anonymous types and the name list, then VK.validateT with Rules.litOK (driver semor); 12 documents per table: 5 sampled (through a random member), 5 sampled then mutated, 2 random; tables refused by Check are skipped and counted by error code; ONE MORE TABLE PER TEN comes from the stream of CONVERGING reference graphs: 4-6 types, the last one or two scalar types with a consistent rule set, every other type ti in rule form (<example> // {type: \"@tj\"} with or without nullable / <example> // {or: [...]} with members \"@tj\" / {type: \"@tj\"} / {type: \"@tj\", nullable: true} / inline scalar rule-sets) over types tj, j > i within the next three (acyclic by construction, 2-4 levels of references), and a value position (root / array item / property, with scalar or shortcut-reference siblings and additionalProperties) that names 2-3 types such that at least one type is reached by two or more chains of rule-form references (diamond, a type listed next to a type that refers to it, one type by two member forms; stats dag_*); examples are examples of a scalar type the node reaches, so such a table is legal: it is NOT skipped when Check refuses it, the refusal is the verdict compared with the model; nontrivial = an or rule or a {type: \"@t\"} node with a scalar example is reachable from the root; K-C09-cycle class as in sem-or")
	initStrLen()
	r := vh.NewRand(salt)
	nTables := vh.Pick(12000, 200000)
	r2 := vh.NewRand(salt + 7) // the stream of converging graphs has its own seeds: the random tables are the same with and without it
	const batch = 4000
	for done := 0; done < nTables; done += batch {
		n := batch
		if nTables-done < n {
			n = nTables - done
		}
		nDag := n / 10
		seeds := make([]int64, n+nDag)
		for i := range seeds {
			if i < n {
				seeds[i] = r.Int63()
			} else {
				seeds[i] = r2.Int63()
			}
		}
		results := make([]tableResult, n+nDag)
		var wg sync.WaitGroup
		next := make(chan int, n+nDag)
		for i := 0; i < n+nDag; i++ {
			next <- i
		}
		close(next)
		for w := runtime.NumCPU(); w > 0; w-- {
			wg.Add(1)
			go func() {
				defer wg.Done()
				for i := range next {
					results[i] = oneTable(seeds[i], i >= n)
				}
			}()
		}
		wg.Wait()
		var reqs, impl, inputs, classes []string
		for _, res := range results {
			rep.Stat("tables_generated")
			for _, s := range res.stats {
				rep.Stat(s)
			}
			for _, c := range res.cases {
				for _, s := range c.stats {
					rep.Stat(s)
				}
				rep.Case(c.line, c.nontrivial)
				reqs = append(reqs, c.line)
				impl = append(impl, c.impl)
				inputs = append(inputs, c.input)
				classes = append(classes, c.class)
			}
		}
		for i, m := range vh.AskModelSharded(reqs, 16) {
			if impl[i] != m {
				rep.AddDiff(vh.Diff{Input: inputs[i], Impl: impl[i], Model: m, Class: classes[i], Note: reqs[i]})
			}
		}
	}
	rep.Finish()
}
