package semorrs

import (
	"fmt"
	"strings"
)

// The stream of CONVERGING reference graphs (one table more per ten random ones, with seeds of its own).
//
// C03 quantifies over acyclic type graphs in which "the same type [is] reached along several paths". The random tables
// reach that shape rarely in RULE FORM (a types list on a concrete example: `7 // {type: "@t"}`, `1 // {or: [...]}`),
// because a random rule-form reference to one of four random types is more often a cycle than a diamond, and a table
// Check refuses is skipped. This stream builds the graph instead of waiting for it: 4-6 types t0 … t5, the last one or
// two are scalar types with a legal rule set (the example satisfies its bounds), every other type ti is written in rule
// form over types tj, j > i (acyclic by construction: 2-4 levels of references), and the value position under test names
// 2-3 types such that at least one type is reached by two or more chains (a diamond, a type listed next to a type that
// refers to it, the same type by two member forms, nullable variants of either). Every example is the example of a
// scalar type the node reaches, so every node is legal; Check must accept the table and Validate must follow the union
// (the model's verdict). A table of this stream that Check refuses is NOT skipped: its documents are compared as usual
// and the refusal is the implementation's verdict.

func fitsAny(a *Node) string {
	for _, t := range tokPool[a.Lit] {
		if strings.ContainsAny(t, "eE") || strings.ContainsAny(t, `\`) || !isASCII(t) {
			continue
		}
		if a.Lit == "s" && t == `""` && a.MinL <= 0 {
			continue // an empty example string says nothing
		}
		if litFits(a, t) {
			return t
		}
	}
	return ""
}

func isASCII(s string) bool {
	for i := 0; i < len(s); i++ {
		if s[i] >= 0x80 {
			return false
		}
	}
	return true
}

// legalScalar: a scalar type whose rule set has an example (bounds consistent, the example within them).
func (g *gen) legalScalar(inline bool) *Node {
	r := g.r
	for {
		a := &Node{Kind: "lit", Lit: []string{"i", "i", "f", "s", "s", "b", "n"}[r.Intn(7)], MinL: -1, MaxL: -1}
		switch a.Lit {
		case "i":
			a.Min = []string{"", "", "-5", "0", "1"}[r.Intn(5)]
			a.Max = []string{"", "", "2", "7", "100"}[r.Intn(5)]
		case "f":
			a.Min = []string{"", "", "-5", "0", "1.5", "-1.5"}[r.Intn(6)]
			a.Max = []string{"", "", "2", "7.25", "100", "1.5"}[r.Intn(6)]
		case "s":
			a.MinL = []int{-1, -1, 0, 1, 2}[r.Intn(5)]
			a.MaxL = []int{-1, -1, 2, 3, 4}[r.Intn(5)]
		}
		if a.Min != "" {
			a.MinX = r.Intn(4) == 0
			a.MinXF = !a.MinX && r.Intn(4) == 0
		}
		if a.Max != "" {
			a.MaxX = r.Intn(4) == 0
			a.MaxXF = !a.MaxX && r.Intn(4) == 0
		}
		a.Nullable = r.Intn(5) == 0
		if inline && r.Intn(4) == 0 {
			a.Form = "ruleset"
		}
		ex := fitsAny(a)
		if ex == "" {
			continue
		}
		if ex != litText[a.Lit] {
			a.Ex = ex
		}
		return a
	}
}

// refMember: an or member naming a type, in one of the three forms.
func (g *gen) refMember(name string) *Node {
	m := &Node{Kind: "ref", Names: []string{name}, MinL: -1, MaxL: -1}
	switch g.r.Intn(4) {
	case 0:
		m.Form = "typeref"
	case 1:
		m.Form = "typeref"
		m.Nullable = true
	}
	return m
}

// ruleFormNode: a node in rule form over the given candidate targets: `ex // {type: "@t"}` or `ex // {or: [...]}`.
func (g *gen) ruleFormNode(targets []string) *Node {
	r := g.r
	if r.Intn(5) < 2 {
		return &Node{Kind: "ref", Form: "typerule", Nullable: r.Intn(3) == 0, Names: []string{targets[r.Intn(len(targets))]}}
	}
	o := &Node{Kind: "or", MinL: -1, MaxL: -1, Nullable: r.Intn(6) == 0}
	for i := 2 + r.Intn(2); i > 0; i-- {
		if r.Intn(4) != 0 {
			o.Or = append(o.Or, g.refMember(targets[r.Intn(len(targets))]))
		} else {
			o.Or = append(o.Or, g.legalScalar(true))
		}
	}
	return o
}

// targetsOf: the type names a rule-form node lists.
func targetsOf(n *Node) []string {
	switch n.Kind {
	case "ref":
		return n.Names
	case "or":
		var out []string
		for _, a := range n.Or {
			if a.Kind == "ref" {
				out = append(out, a.Names[0])
			}
		}
		return out
	}
	return nil
}

// chains counts, for every type, the chains of rule-form references that lead from the node to it (a shortcut root
// `@a | @b` ends a chain, as a scalar does).
func chains(n *Node, types map[string]*Node, cnt map[string]int, depth int, maxDepth *int) {
	for _, t := range targetsOf(n) {
		cnt[t]++
		if depth > *maxDepth {
			*maxDepth = depth
		}
		if tn := types[t]; tn.Kind == "or" || (tn.Kind == "ref" && tn.Form == "typerule") {
			chains(tn, types, cnt, depth+1, maxDepth)
		}
	}
}

// exampleFor: an example the node accepts: the example of a scalar type it reaches, or of an inline scalar member.
func exampleFor(n *Node, types map[string]*Node) string {
	switch n.Kind {
	case "lit":
		return exampleTok(n)
	case "ref":
		return exampleFor(types[n.Names[0]], types)
	case "or":
		for _, a := range n.Or {
			if a.Kind == "ref" {
				return exampleFor(types[a.Names[0]], types)
			}
			if a.Kind == "lit" && a.Form != "cobj" && a.Form != "carr" && a.Form != "cany" {
				if t := fitsAny(a); t != "" {
					return t
				}
			}
		}
	}
	return "null"
}

// setExamples: every rule-form node gets its example (typerule nodes carry it in Ex; or nodes in Ex as well, see
// printNode).
func setExamples(n *Node, types map[string]*Node) {
	switch n.Kind {
	case "ref":
		if n.Form == "typerule" {
			n.Ex = exampleFor(n, types)
		}
	case "or":
		n.Ex = exampleFor(n, types)
	case "arr":
		for _, it := range n.Items {
			setExamples(it, types)
		}
	case "obj":
		for _, p := range n.Props {
			setExamples(p.Val, types)
		}
	}
}

// genDag builds the table; the returned stats describe the graph.
func (g *gen) genDag() (names []string, types map[string]*Node, root *Node, stats []string) {
	r := g.r
	n := 4 + r.Intn(3)
	for i := 0; i < n; i++ {
		names = append(names, fmt.Sprintf("t%d", i))
	}
	types = map[string]*Node{}
	nLeaf := 1 + r.Intn(2)
	for i := n - 1; i >= 0; i-- {
		if i >= n-nLeaf {
			types[names[i]] = g.legalScalar(false)
			continue
		}
		// the targets lie within the next three types: short windows make shared targets likely
		hi := i + 4
		if hi > n {
			hi = n
		}
		types[names[i]] = g.ruleFormNode(names[i+1 : hi])
	}
	// the position under test: names 2-3 types (or one, by a type rule) …
	var pos *Node
	if r.Intn(4) == 0 {
		pos = &Node{Kind: "ref", Form: "typerule", Nullable: r.Intn(3) == 0, Names: []string{names[r.Intn(n-nLeaf)]}}
	} else {
		pos = &Node{Kind: "or", MinL: -1, MaxL: -1, Nullable: r.Intn(6) == 0}
		for i := 2 + r.Intn(2); i > 0; i-- {
			pos.Or = append(pos.Or, g.refMember(names[r.Intn(n)]))
		}
		if r.Intn(4) == 0 {
			pos.Or = append(pos.Or, g.legalScalar(true))
		}
	}
	// … such that some type is reached by two chains: if none is, the position also lists, next to a type it names,
	// a type that type refers to
	converges := func() (bool, int) {
		cnt, d := map[string]int{}, 0
		chains(pos, types, cnt, 1, &d)
		for _, c := range cnt {
			if c >= 2 {
				return true, d
			}
		}
		return false, d
	}
	if ok, _ := converges(); !ok {
		var below []string
		for _, t := range targetsOf(pos) {
			below = append(below, targetsOf(types[t])...)
		}
		if pos.Kind == "ref" || len(below) == 0 {
			// a type rule names one type: converge below it, through a fresh or over the type and one of its targets
			t := pos.Names
			if pos.Kind == "or" {
				t = targetsOf(pos)[:1]
			}
			o := &Node{Kind: "or", MinL: -1, MaxL: -1, Nullable: pos.Nullable}
			o.Or = append(o.Or, g.refMember(t[0]), g.refMember(t[0]))
			if tt := targetsOf(types[t[0]]); len(tt) > 0 {
				o.Or[1] = g.refMember(tt[r.Intn(len(tt))])
			}
			pos = o
			stats = append(stats, "dag_position_rewritten_as_or")
		} else {
			pos.Or = append(pos.Or, g.refMember(below[r.Intn(len(below))]))
			r.Shuffle(len(pos.Or), func(i, j int) { pos.Or[i], pos.Or[j] = pos.Or[j], pos.Or[i] })
			stats = append(stats, "dag_member_added_for_convergence")
		}
	}
	ok, depth := converges()
	if ok {
		stats = append(stats, "dag_position_reaches_a_type_by_two_chains")
	}
	stats = append(stats, fmt.Sprintf("dag_reference_levels_%d", depth), fmt.Sprintf("dag_types_%d", n))
	for _, nm := range names {
		cnt, d := map[string]int{}, 0
		chains(types[nm], types, cnt, 1, &d)
		for _, c := range cnt {
			if c >= 2 {
				stats = append(stats, "dag_named_type_reaches_a_type_by_two_chains")
				break
			}
		}
	}
	// where the position sits
	sib := func() *Node {
		if r.Intn(2) == 0 {
			return g.legalScalar(false)
		}
		s := &Node{Kind: "ref", Nullable: r.Intn(4) == 0, Names: []string{names[r.Intn(n)]}}
		if r.Intn(2) == 0 {
			if x := names[r.Intn(n)]; x != s.Names[0] {
				s.Names = append(s.Names, x)
			}
		}
		return s
	}
	switch r.Intn(4) {
	case 0:
		root = pos
		stats = append(stats, "dag_position_root")
	case 1:
		root = &Node{Kind: "arr", Items: []*Node{pos}}
		if r.Intn(2) == 0 {
			root.Items = append(root.Items, sib())
		}
		stats = append(stats, "dag_position_array_item")
	default:
		root = &Node{Kind: "obj"}
		root.Props = append(root.Props, &Prop{Key: "a", Required: r.Intn(3) != 0, Val: pos})
		if r.Intn(2) == 0 {
			root.Props = append(root.Props, &Prop{Key: "b", Required: r.Intn(3) != 0, Val: sib()})
		}
		if r.Intn(3) == 0 {
			root.Add = []string{"any", "integer", "string", "@" + names[r.Intn(n)]}[r.Intn(4)]
		}
		stats = append(stats, "dag_position_property")
	}
	for _, nm := range names {
		setExamples(types[nm], types)
	}
	setExamples(root, types)
	return names, types, root, stats
}
