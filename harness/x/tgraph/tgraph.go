// Package tgraph: shared plumbing of the type-graph explorations (c09-typegraph, c15-example):
// an IR of JSight schemas built from user-type references, its printer (one EXAMPLE node per
// line, so that every node may carry its own `// {rules}` annotation), the least-fixpoint
// inhabitation of a type graph, and a crash-isolating child-process pool that performs every
// library call (a Go stack overflow is fatal and cannot be recovered in-process).
package tgraph

import (
	"sort"
	"strings"
)

type Kind int

const (
	KLit Kind = iota // literal EXAMPLE, possibly with {type: "@t"} / {or: [...]} / {enum: @rule} / extra rules
	KRef             // type shortcut `@a` or or-shortcut `@a | @b | @c`
	KArr
	KObj
)

// Builtin or-members are written without '@'; they are copied into the or-list as given,
// e.g. `{type: "integer"}` or `"string"`.

type Node struct {
	Kind Kind

	// KLit
	Lit     string   // literal token as written: `1`, `"ab"`, `true`, `null`, `2.50`
	TypeRef string   // {type: "@t"}
	OrRule  []string // {or: [m1, m2, …]}: "@name" (printed quoted) or builtin text (printed as is)
	Extra   string   // further rules, printed verbatim inside the rule object (e.g. `enum: @e`, `regex: "a.*"`)

	// KRef
	Names []string

	// any node
	Nullable bool
	Optional bool // `optional: true`; meaningful for object properties only
	Required bool // `optional: false` written out (object properties only; never together with Optional). A property
	// with neither rule is UNMARKED: required in a schema object created plainly, optional in one created with
	// jschema.KeysAreOptionalByDefault() (TypeDef.Opt / Graph.RootOpt)

	// KArr
	Items []*Node

	// KObj (an empty KObj / KArr may carry OrRule as well: `{} // {or: […]}`)
	Props     []Prop
	AllOf     []string
	AllOfList bool // print allOf as a list even for one parent
	AddProps  string
}

type Prop struct {
	Key      string // property name without quotes, or "@k" for a key shortcut
	Shortcut bool
	Val      *Node
}

type TypeDef struct {
	Name string
	Body *Node
	Opt  bool // this type's schema OBJECT is created with jschema.KeysAreOptionalByDefault()
}

// Graph: a root schema and the user types registered with AddType (in this order). A type
// that is referenced but absent from Types is a MISSING type.
// The option KeysAreOptionalByDefault belongs to ONE schema object: the root and every added type carry their own
// setting (RootOpt, TypeDef.Opt), and it decides the unmarked keys of the objects written in THAT object's text only.
type Graph struct {
	Root    *Node
	RootOpt bool
	Types   []TypeDef
}

// Opt: the option of the schema object registered under name (false for a missing type).
func (g *Graph) Opt(name string) bool {
	for i := range g.Types {
		if g.Types[i].Name == name {
			return g.Types[i].Opt
		}
	}
	return false
}

// AnyOpt: some schema object of the graph is created with the option.
func (g *Graph) AnyOpt() bool {
	for i := range g.Types {
		if g.Types[i].Opt {
			return true
		}
	}
	return g.RootOpt
}

// PropOptional: may a document leave out a property whose value node is v, written in the text of a schema object
// whose option is opt? `optional: true` yes, `optional: false` no, unmarked = the object's option.
func PropOptional(v *Node, opt bool) bool {
	return v.Optional || (opt && !v.Required)
}

func (g *Graph) Type(name string) *Node {
	for i := range g.Types {
		if g.Types[i].Name == name {
			return g.Types[i].Body
		}
	}
	return nil
}

// ---- printer ----

func (n *Node) rules() string {
	var rr []string
	if n.TypeRef != "" {
		rr = append(rr, `type: "`+n.TypeRef+`"`)
	}
	if len(n.OrRule) > 0 {
		mm := make([]string, len(n.OrRule))
		for i, m := range n.OrRule {
			if strings.HasPrefix(m, "@") {
				mm[i] = `"` + m + `"`
			} else {
				mm[i] = m
			}
		}
		rr = append(rr, "or: ["+strings.Join(mm, ", ")+"]")
	}
	if n.Extra != "" {
		rr = append(rr, n.Extra)
	}
	if len(n.AllOf) == 1 && !n.AllOfList {
		rr = append(rr, `allOf: "`+n.AllOf[0]+`"`)
	} else if len(n.AllOf) > 0 {
		mm := make([]string, len(n.AllOf))
		for i, m := range n.AllOf {
			mm[i] = `"` + m + `"`
		}
		rr = append(rr, "allOf: ["+strings.Join(mm, ", ")+"]")
	}
	if n.AddProps != "" {
		rr = append(rr, `additionalProperties: "`+n.AddProps+`"`)
	}
	if n.Optional {
		rr = append(rr, "optional: true")
	} else if n.Required {
		rr = append(rr, "optional: false")
	}
	if n.Nullable {
		rr = append(rr, "nullable: true")
	}
	if len(rr) == 0 {
		return ""
	}
	return " // {" + strings.Join(rr, ", ") + "}"
}

func (n *Node) write(sb *strings.Builder, indent, prefix string, comma bool) {
	c := ""
	if comma {
		c = ","
	}
	switch n.Kind {
	case KLit:
		sb.WriteString(indent + prefix + n.Lit + c + n.rules() + "\n")
	case KRef:
		sb.WriteString(indent + prefix + strings.Join(n.Names, " | ") + c + n.rules() + "\n")
	case KArr:
		if len(n.Items) == 0 {
			sb.WriteString(indent + prefix + "[]" + c + n.rules() + "\n")
			return
		}
		sb.WriteString(indent + prefix + "[" + n.rules() + "\n")
		for i, it := range n.Items {
			it.write(sb, indent+"  ", "", i+1 < len(n.Items))
		}
		sb.WriteString(indent + "]" + c + "\n")
	case KObj:
		if len(n.Props) == 0 {
			sb.WriteString(indent + prefix + "{}" + c + n.rules() + "\n")
			return
		}
		sb.WriteString(indent + prefix + "{" + n.rules() + "\n")
		for i, p := range n.Props {
			k := `"` + p.Key + `": `
			if p.Shortcut {
				k = p.Key + ": "
			}
			p.Val.write(sb, indent+"  ", k, i+1 < len(n.Props))
		}
		sb.WriteString(indent + "}" + c + "\n")
	}
}

// Text prints the node as JSight schema text (without a trailing line break).
func (n *Node) Text() string {
	var sb strings.Builder
	n.write(&sb, "", "", false)
	return strings.TrimRight(sb.String(), "\n")
}

// ---- references ----

// Walk calls f on n and all nested nodes (pre-order).
func (n *Node) Walk(f func(*Node)) {
	f(n)
	for _, it := range n.Items {
		it.Walk(f)
	}
	for _, p := range n.Props {
		p.Val.Walk(f)
	}
}

// NodeRefs: the @names one node mentions by itself (not its children's), in textual order.
func (n *Node) NodeRefs() []string {
	var out []string
	out = append(out, n.Names...)
	if n.TypeRef != "" {
		out = append(out, n.TypeRef)
	}
	for _, m := range n.OrRule {
		if strings.HasPrefix(m, "@") {
			out = append(out, m)
		}
	}
	out = append(out, n.AllOf...)
	if n.AddProps != "" {
		out = append(out, n.AddProps)
	}
	for _, p := range n.Props {
		if p.Shortcut {
			out = append(out, p.Key)
		}
	}
	return out
}

// Refs: the sorted set of @names the schema text of n references.
func (n *Node) Refs() []string {
	set := map[string]bool{}
	n.Walk(func(m *Node) {
		for _, r := range m.NodeRefs() {
			set[r] = true
		}
	})
	return sortedKeys(set)
}

func sortedKeys(set map[string]bool) []string {
	out := make([]string, 0, len(set))
	for k := range set {
		out = append(out, k)
	}
	sort.Strings(out)
	return out
}

// Missing: names referenced by the given root or by any type, but not defined.
func (g *Graph) Missing(root *Node) []string {
	set := map[string]bool{}
	add := func(n *Node) {
		for _, r := range n.Refs() {
			if g.Type(r) == nil {
				set[r] = true
			}
		}
	}
	if root != nil {
		add(root)
	}
	for _, t := range g.Types {
		add(t.Body)
	}
	return sortedKeys(set)
}

// ---- inhabitation (least fixpoint) ----

// Inhabited decides whether n has a finite value, given the set of inhabited type names:
// literal yes; array yes (may be empty); object iff every non-optional property is (a key
// shortcut needs its key type as well) and every allOf parent is; reference iff the type is
// (`nullable` on a reference is deliberately NOT a breaker); or-list iff some member is.
// n is read as text of a schema object created WITHOUT KeysAreOptionalByDefault.
func Inhabited(n *Node, ok map[string]bool) bool { return InhabitedIn(n, ok, false) }

// InhabitedIn: the same for a node written in the text of a schema object whose option is opt (PropOptional decides
// which properties a value may leave out). An allOf parent contributes through its own inhabitation (computed with
// the PARENT's option: its required-keys list is what the heir copies).
func InhabitedIn(n *Node, ok map[string]bool, opt bool) bool {
	switch n.Kind {
	case KLit:
		if n.TypeRef != "" {
			return ok[n.TypeRef]
		}
		if len(n.OrRule) > 0 {
			return anyMember(n.OrRule, ok)
		}
		return true
	case KRef:
		return anyMember(n.Names, ok)
	case KArr:
		if len(n.OrRule) > 0 {
			return anyMember(n.OrRule, ok)
		}
		return true
	case KObj:
		if len(n.OrRule) > 0 {
			return anyMember(n.OrRule, ok)
		}
		for _, p := range n.AllOf {
			if !ok[p] {
				return false
			}
		}
		for _, p := range n.Props {
			if PropOptional(p.Val, opt) {
				continue
			}
			if p.Shortcut && !ok[p.Key] {
				return false
			}
			if !InhabitedIn(p.Val, ok, opt) {
				return false
			}
		}
		return true
	}
	return false
}

func anyMember(mm []string, ok map[string]bool) bool {
	for _, m := range mm {
		if !strings.HasPrefix(m, "@") || ok[m] {
			return true
		}
	}
	return false
}

// InhabitedTypes computes the least fixpoint over the defined types (missing types are
// uninhabited), every type body read with its OWN object's option.
func (g *Graph) InhabitedTypes() map[string]bool { return g.inhabitedTypes(false) }

// InhabitedTypesConservative: the same with every unmarked key read as required whatever the object's option (the
// reading under which fewest graphs are legal: legal here => legal per object).
func (g *Graph) InhabitedTypesConservative() map[string]bool { return g.inhabitedTypes(true) }

func (g *Graph) inhabitedTypes(ignoreOpt bool) map[string]bool {
	ok := map[string]bool{}
	for changed := true; changed; {
		changed = false
		for _, t := range g.Types {
			if !ok[t.Name] && InhabitedIn(t.Body, ok, t.Opt && !ignoreOpt) {
				ok[t.Name] = true
				changed = true
			}
		}
	}
	return ok
}

// Canon: canonical text of a case.
func (g *Graph) Canon() string {
	var sb strings.Builder
	mark := func(opt bool) string {
		if opt {
			return "[KeysAreOptionalByDefault] "
		}
		return ""
	}
	sb.WriteString("ROOT " + mark(g.RootOpt) + g.Root.Text())
	for _, t := range g.Types {
		sb.WriteString("\nTYPE " + mark(t.Opt) + t.Name + " = " + t.Body.Text())
	}
	return sb.String()
}
