package tgraph

import (
	"bufio"
	"encoding/json"
	"fmt"
	"io"
	"os"
	"os/exec"
	"runtime/debug"
	"sync"
	"time"

	jdoc "github.com/jsightapi/jsight-schema-go-library/formats/json"
	"github.com/jsightapi/jsight-schema-go-library/notations/jschema"
	"github.com/jsightapi/jsight-schema-go-library/rules/enum"
)

// ---- protocol: one JSON line per request / response ----

type SchemaReq struct {
	Name    string `json:"n"`
	Text    string `json:"t"`
	SelfAdd bool   `json:"s,omitempty"` // register the schema under its own name as well (AddType(Name, itself)), as the repository's tests do
	Opt     bool   `json:"o,omitempty"` // create THIS schema object with jschema.KeysAreOptionalByDefault()
}

type Req struct {
	ID      int         `json:"id"`
	Schemas []SchemaReq `json:"schemas"`
	Types   [][2]string `json:"types"` // name, text: AddType'd (as fresh objects) to every schema, in this order
	// TypeOpts[i]: the object of Types[i] is created with jschema.KeysAreOptionalByDefault() (absent = none is). The
	// option belongs to the one object: it is NOT inherited from / by the schema the type is added to.
	TypeOpts []bool      `json:"topts,omitempty"`
	Rules    [][2]string `json:"rules"` // enum rules name, text: AddRule'd to every schema and every type
	Docs     []string    `json:"docs"`  // documents validated against every schema that passes Check
	Example  bool        `json:"ex"`    // call Example() and Validate(Example()) on every schema that passes Check
	// Linked: "the way an API project registers its types": for every schema a fresh universe of type
	// objects is built in which EVERY type has every type (itself included) AddType'd; a SelfAdd schema
	// IS the universe's object of that name, any other schema gets the universe's objects added.
	Linked bool `json:"linked,omitempty"`
}

type SchemaRes struct {
	Used    []string `json:"used"`
	UsedErr string   `json:"usedErr,omitempty"`
	AddErr  string   `json:"addErr,omitempty"`
	Check   string   `json:"check"` // OK | E<code> <message> | X <error text> | PANIC … | TIMEOUT
	Example string   `json:"example,omitempty"`
	ExNil   bool     `json:"exNil,omitempty"`
	ExErr   string   `json:"exErr,omitempty"`
	ValEx   string   `json:"valEx,omitempty"` // Validate(Example()): OK | E… | …
	Docs    []string `json:"docs,omitempty"`
}

type Res struct {
	ID      int         `json:"id"`
	Schemas []SchemaRes `json:"schemas"`
	// filled by the pool
	Crash   string `json:"-"` // non-empty: the child died while working on this request (last stderr lines)
	Timeout bool   `json:"-"`
}

// Deadline for a single library call.
const CallDeadline = 5 * time.Second

type coded interface {
	ErrCode() int
	Message() string
}

// ErrString renders an error as "E<code> <message>" (ParsingError / ValidationError) or "X <text>".
func ErrString(err error) string {
	if err == nil {
		return "OK"
	}
	if c, ok := err.(coded); ok {
		return fmt.Sprintf("E%d %s", c.ErrCode(), c.Message())
	}
	return "X " + err.Error()
}

var childTimedOut bool

// call runs f under recover and under the deadline.
func call(f func() string) string {
	ch := make(chan string, 1)
	go func() {
		defer func() {
			if r := recover(); r != nil {
				ch <- fmt.Sprintf("PANIC %v", r)
			}
		}()
		ch <- f()
	}()
	select {
	case s := <-ch:
		return s
	case <-time.After(CallDeadline):
		childTimedOut = true
		return "TIMEOUT"
	}
}

// newSchema: one schema object with its own setting of the option.
func newSchema(name, text string, opt bool) *jschema.Schema {
	if opt {
		return jschema.New(name, text, jschema.KeysAreOptionalByDefault())
	}
	return jschema.New(name, text)
}

func (req *Req) typeOpt(i int) bool { return i < len(req.TypeOpts) && req.TypeOpts[i] }

func serve(req *Req) Res {
	res := Res{ID: req.ID}
	for _, sr := range req.Schemas {
		var out SchemaRes
		s := newSchema(sr.Name, sr.Text, sr.Opt)
		for _, r := range req.Rules {
			r := r
			if e := call(func() string { return ErrString(s.AddRule(r[0], enum.New(r[0], r[1]))) }); e != "OK" && out.AddErr == "" {
				out.AddErr = "rule " + r[0] + ": " + e
			}
		}
		out.UsedErr = call(func() string {
			u, err := s.UsedUserTypes()
			out.Used = u
			return ErrString(err)
		})
		if req.Linked {
			e := call(func() string {
				uni := map[string]*jschema.Schema{}
				for ti, t := range req.Types {
					if sr.SelfAdd && t[0] == sr.Name {
						uni[t[0]] = s
						continue
					}
					ts := newSchema(t[0], t[1], req.typeOpt(ti))
					for _, r := range req.Rules {
						if err := ts.AddRule(r[0], enum.New(r[0], r[1])); err != nil {
							return "rule " + r[0] + ": " + ErrString(err)
						}
					}
					uni[t[0]] = ts
				}
				for _, t := range req.Types {
					for _, u := range req.Types {
						if err := uni[t[0]].AddType(u[0], uni[u[0]]); err != nil {
							return "type " + u[0] + " to " + t[0] + ": " + ErrString(err)
						}
					}
				}
				if !sr.SelfAdd {
					for _, t := range req.Types {
						if err := s.AddType(t[0], uni[t[0]]); err != nil {
							return "type " + t[0] + ": " + ErrString(err)
						}
					}
				}
				return "OK"
			})
			if e != "OK" {
				out.AddErr = e
			}
		}
		for ti, t := range req.Types {
			if req.Linked {
				break
			}
			t, topt := t, req.typeOpt(ti)
			e := call(func() string {
				if sr.SelfAdd && t[0] == sr.Name {
					return ErrString(s.AddType(t[0], s))
				}
				ts := newSchema(t[0], t[1], topt)
				for _, r := range req.Rules {
					if err := ts.AddRule(r[0], enum.New(r[0], r[1])); err != nil {
						return "rule " + r[0] + ": " + ErrString(err)
					}
				}
				return ErrString(s.AddType(t[0], ts))
			})
			if e != "OK" && out.AddErr == "" {
				out.AddErr = "type " + t[0] + ": " + e
			}
		}
		out.Check = call(func() string { return ErrString(s.Check()) })
		if out.Check == "OK" && !childTimedOut {
			if req.Example {
				var ex []byte
				out.ExErr = call(func() string {
					b, err := s.Example()
					ex = b
					if err != nil {
						return ErrString(err)
					}
					return ""
				})
				out.Example = string(ex)
				out.ExNil = ex == nil
				if out.ExErr == "" && !childTimedOut {
					out.ValEx = call(func() string { return ErrString(s.Validate(jdoc.New("example", ex))) })
				}
			}
			for _, d := range req.Docs {
				if childTimedOut {
					break
				}
				d := d
				out.Docs = append(out.Docs, call(func() string { return ErrString(s.Validate(jdoc.New("doc", d))) }))
			}
		}
		res.Schemas = append(res.Schemas, out)
		if childTimedOut {
			break
		}
	}
	return res
}

// ChildMain is the hidden sub-mode: requests on stdin, responses on stdout.
func ChildMain() {
	debug.SetMaxStack(96 << 20) // a runaway recursion dies quickly instead of eating 1 GB
	in := bufio.NewReaderSize(os.Stdin, 1<<20)
	out := bufio.NewWriter(os.Stdout)
	for {
		line, err := in.ReadBytes('\n')
		if len(line) > 1 {
			var req Req
			if e := json.Unmarshal(line, &req); e != nil {
				fmt.Fprintln(os.Stderr, "child: bad request:", e)
				os.Exit(4)
			}
			res := serve(&req)
			b, _ := json.Marshal(res)
			out.Write(b)
			out.WriteByte('\n')
			out.Flush()
			if childTimedOut {
				os.Exit(3) // a library call is still spinning in its goroutine
			}
		}
		if err != nil {
			return
		}
	}
}

// ---- pool ----

type worker struct {
	cmd    *exec.Cmd
	stdin  io.WriteCloser
	stdout *bufio.Reader
	stderr *tailBuf
}

type tailBuf struct {
	mu  sync.Mutex
	buf []byte
}

func (t *tailBuf) Write(p []byte) (int, error) {
	t.mu.Lock()
	defer t.mu.Unlock()
	if len(t.buf) < 600 { // the head of a Go fatal error carries the reason
		n := 600 - len(t.buf)
		if n > len(p) {
			n = len(p)
		}
		t.buf = append(t.buf, p[:n]...)
	}
	return len(p), nil
}

func (t *tailBuf) String() string {
	t.mu.Lock()
	defer t.mu.Unlock()
	return string(t.buf)
}

func startWorker(command string) *worker {
	exe, err := os.Executable() // re-exec the very same binary
	if err != nil {
		exe = os.Args[0]
	}
	cmd := exec.Command(exe, command, "--child")
	stdin, err := cmd.StdinPipe()
	if err != nil {
		panic(err)
	}
	stdout, err := cmd.StdoutPipe()
	if err != nil {
		panic(err)
	}
	tb := &tailBuf{}
	cmd.Stderr = tb
	if err := cmd.Start(); err != nil {
		panic(fmt.Sprintf("cannot start child %s: %v", exe, err))
	}
	return &worker{cmd: cmd, stdin: stdin, stdout: bufio.NewReaderSize(stdout, 1<<20), stderr: tb}
}

func (w *worker) kill() {
	w.stdin.Close()
	w.cmd.Process.Kill()
	w.cmd.Wait()
}

// ask sends one request; a dead or silent child is reported in Res.Crash / Res.Timeout.
func (w *worker) ask(req *Req) (res Res, alive bool) {
	b, _ := json.Marshal(req)
	b = append(b, '\n')
	type answer struct {
		line []byte
		err  error
	}
	ch := make(chan answer, 1)
	go func() {
		if _, err := w.stdin.Write(b); err != nil {
			ch <- answer{nil, err}
			return
		}
		line, err := w.stdout.ReadBytes('\n')
		ch <- answer{line, err}
	}()
	// every call inside the child has its own deadline; this watchdog only guards the child as a whole
	nCalls := 4 + len(req.Schemas)*(4+len(req.Types)+len(req.Rules)+len(req.Docs))
	select {
	case a := <-ch:
		if len(a.line) > 1 {
			if e := json.Unmarshal(a.line, &res); e == nil {
				for _, s := range res.Schemas {
					if s.Check == "TIMEOUT" || s.ExErr == "TIMEOUT" || s.ValEx == "TIMEOUT" || s.UsedErr == "TIMEOUT" {
						res.Timeout = true
					}
					for _, d := range s.Docs {
						if d == "TIMEOUT" {
							res.Timeout = true
						}
					}
				}
				return res, !res.Timeout
			}
		}
		w.cmd.Wait()
		res.ID = req.ID
		res.Crash = fmt.Sprintf("child died (%v): %s", w.cmd.ProcessState, w.stderr.String())
		return res, false
	case <-time.After(time.Duration(nCalls)*CallDeadline + 10*time.Second):
		res.ID = req.ID
		res.Timeout = true
		return res, false
	}
}

// RunPool feeds the requests to n child processes (`os.Args[0] <command> --child`) and calls
// handle (serialised) with every response, in arbitrary order. handle returns false to stop.
func RunPool(command string, n int, reqs <-chan *Req, handle func(*Req, Res) bool) {
	type pair struct {
		req *Req
		res Res
	}
	results := make(chan pair, 4*n)
	var stop bool
	var mu sync.Mutex
	var wg sync.WaitGroup
	for i := 0; i < n; i++ {
		wg.Add(1)
		go func() {
			defer wg.Done()
			w := startWorker(command)
			defer func() { w.kill() }()
			for req := range reqs {
				mu.Lock()
				s := stop
				mu.Unlock()
				if s {
					continue // drain
				}
				res, alive := w.ask(req)
				if !alive {
					w.kill()
					w = startWorker(command)
				}
				results <- pair{req, res}
			}
		}()
	}
	go func() {
		wg.Wait()
		close(results)
	}()
	for p := range results {
		mu.Lock()
		s := stop
		mu.Unlock()
		if s {
			continue
		}
		if !handle(p.req, p.res) {
			mu.Lock()
			stop = true
			mu.Unlock()
		}
	}
}
