// Package unquotediff: T-diff of bytes.Bytes.Unquote (bytes/bytes.go + bytes/json.go, a copy of
// encoding/json's unquoteBytes) against the Lean model JSight/Unquote.lean (driver request
// `unq <hex>` -> hex of the result). A token that is not in quotes, or whose body cannot be decoded, is
// returned unchanged by both sides.
package unquotediff

import (
	"fmt"
	"strings"

	"github.com/jsightapi/jsight-schema-go-library/bytes"

	"verifharness/vh"
)

// pieces of string bodies, grouped by what they exercise
var (
	plain   = []string{"a", "abc", " ", "/", "'", "0", "u", "}", "~", "\x7f"}
	escapes = []string{`\"`, `\\`, `\/`, `\b`, `\f`, `\n`, `\r`, `\t`, `\'`}
	uEsc    = []string{`\u0041`, `\u0000`, `\u001f`, `\u0022`, `\u005c`, `\u007f`, `\u0080`, `\u00e9`, `\u00E9`, `\u07ff`, `\u0800`, `\u20ac`, `\ud7ff`, `\ue000`,
		`\ufffd`, `\uFFFF`, `\uffff`, `\uAbCd`}
	surrogates = []string{`\ud83d\ude00`, `\uD83D\uDE00`, `\ud800\udc00`, `\udbff\udfff`, // valid pairs
		`\ud800`, `\udbff`, `\udc00`, `\udfff`, // lone
		`\ud800\u0041`, `\ud800\ud800`, `\udc00\ud800`, `\ud800\ue000`, `\ud83d\n`, `\ud83da`, `\ud83d\\`, // high + something else
		`\ud800\u00zz`, `\ud800\u12`, `\ud800\u`, `\ud800\`, `\ud83d\ude0`, `\ud83d\ude0g`} // high + damaged escape
	badEsc = []string{`\u12g4`, `\uzzzz`, `\u 041`, `\u+041`, `\u12`, `\u1`, `\u`, `\`, `\x41`, `\a`, `\0`, `\U0041`, `\v`, `\e`, "\\\n", "\\\xc3\xa9"}
	utf8ok = []string{"é", "€", "😀", "\xc2\x80", "\xdf\xbf", "\xe0\xa0\x80", "\xed\x9f\xbf", "\xee\x80\x80", "\xef\xbf\xbd", "\xef\xbf\xbf",
		"\xf0\x90\x80\x80", "\xf4\x8f\xbf\xbf"}
	utf8bad = []string{"\xc3", "\xe2\x82", "\xe2", "\xf0\x9f\x98", "\xf0\x9f", "\xf0", // truncated
		"\xc0\x80", "\xc1\xbf", "\xe0\x80\x80", "\xe0\x9f\xbf", "\xf0\x80\x80\x80", "\xf0\x8f\xbf\xbf", // over-long
		"\xed\xa0\x80", "\xed\xbf\xbf", "\xed\xa0\xbd\xed\xb8\x80", // encoded surrogates
		"\xf4\x90\x80\x80", "\xf5\x80\x80\x80", "\xf8\x88\x80\x80\x80", "\xfe", "\xff", // beyond U+10FFFF / never valid
		"\x80", "\xbf", "\xc3\x28", "\xe2\x28\xa1", "\xe2\x82\x28", "\xf0\x28\x8c\xbc", "\xf0\x90\x28\xbc", "\xf0\x90\x80\x28"} // bad continuation
	control  = []string{"\x00", "\x01", "\x08", "\t", "\n", "\r", "\x1f", `"`}
	unquoted = []string{"", `"`, `""`, `"a`, `a"`, "abc", "123", "-1.5e3", "true", "null", `'a'`, `\n`, `\u0041`, ` "a"`, `"a" `, "\xc3", "é", `{"a":1}`, `"a"b"`, `"\"`, `"\\"`}
)

var mutAlphabet = []byte("\"\\/bfnrtu'0189aAdDcCeEfFgx \x00\x1f\x7f\x80\xbf\xc0\xc2\xc3\xa9\xe0\xa0\xed\x9f\xef\xf0\x90\xf4\x8f\xf5\xff")

func Run(args []string) {
	nRand, nMut, nExh := vh.Pick(40000, 600000), vh.Pick(40000, 600000), vh.Pick(5, 6)
	exhAlpha := []byte("\\ud80\"a\xc3\xa9\xed\xa0")
	groups := map[string][]string{"plain": plain, "escape": escapes, "uescape": uEsc, "surrogate": surrogates, "badescape": badEsc,
		"utf8": utf8ok, "badutf8": utf8bad, "control": control}
	order := []string{"escape", "uescape", "surrogate", "badescape", "utf8", "badutf8", "control", "plain"}
	var all []string
	for _, g := range order {
		all = append(all, groups[g]...)
	}
	rep := vh.NewReport("unquote-diff", fmt.Sprintf("Bytes.Unquote vs model on quoted tokens built from %d body pieces (simple escapes incl. \\', \\uXXXX incl. boundaries and mixed-case hex, surrogate pairs / lone / reversed / damaged, bad and truncated escapes, multi-byte UTF-8 at the encoding boundaries, truncated / over-long / surrogate / out-of-range / stray-continuation bytes, control bytes and raw quotes): every piece alone, every ordered pair, %d random concatenations of 0..8 pieces, the same unquoted / half-quoted, %d 1-3-edit byte mutations, every \\uXXXX code unit, every surrogate-boundary pair of escapes, every quoted 2-byte sequence, quoted 3- and 4-byte sequences with a multi-byte lead, all strings <=%d over %q in quotes; nontrivial = token in quotes whose body has a backslash, a byte >= 0x80, a control byte or a quote",
		len(all), nRand, nMut, nExh, exhAlpha))
	r := vh.NewRand(25)
	var reqs, impl, inputs []string
	flush := func() {
		model := vh.AskModelSharded(reqs, 16)
		for i := range reqs {
			if impl[i] != model[i] {
				rep.AddDiff(vh.Diff{Component: "unquote", Input: inputs[i], Impl: impl[i], Model: model[i], Note: reqs[i]})
			}
		}
		reqs, impl, inputs = reqs[:0], impl[:0], inputs[:0]
	}
	emit := func(stream string, b []byte) {
		in := append([]byte(nil), b...)
		res := vh.Recover(func() string { return vh.Hex(bytes.Bytes(in).Unquote()) })
		h := vh.Hex(b)
		reqs = append(reqs, "unq "+h)
		impl = append(impl, res)
		inputs = append(inputs, fmt.Sprintf("%q", b))
		quoted := len(b) >= 2 && b[0] == '"' && b[len(b)-1] == '"'
		special := false
		if quoted {
			for _, c := range b[1 : len(b)-1] {
				if c == '\\' || c >= 0x80 || c < 0x20 || c == '"' {
					special = true
				}
			}
		}
		rep.Case(string(b), quoted && special)
		rep.Stat("in_" + stream)
		switch {
		case strings.HasPrefix(res, "PANIC"):
			rep.Stat("panic")
		case !quoted:
			rep.Stat("not_in_quotes")
		case res == h:
			rep.Stat("quoted_returned_unchanged")
		default:
			rep.Stat("quoted_decoded")
			if strings.Contains(res, "efbfbd") {
				rep.Stat("quoted_decoded_with_U+FFFD")
			}
		}
		if len(reqs) >= 400000 {
			flush()
		}
	}
	q := func(s string) []byte { return []byte(`"` + s + `"`) }

	for _, g := range order {
		for _, p := range groups[g] {
			emit("piece_"+g, q(p))
		}
	}
	for _, a := range all {
		for _, b := range all {
			emit("pair", q(a+b))
		}
	}
	gen := func() string {
		var sb strings.Builder
		for i := r.Intn(9); i > 0; i-- {
			if r.Intn(4) == 0 {
				sb.WriteString(fmt.Sprintf(`\u%04x`, r.Intn(0x10000)))
			} else {
				sb.WriteString(all[r.Intn(len(all))])
			}
		}
		return sb.String()
	}
	for i := 0; i < nRand; i++ {
		emit("random", q(gen()))
	}
	for _, s := range unquoted {
		emit("unquoted", []byte(s))
	}
	for i := 0; i < nRand/4; i++ {
		s := gen()
		switch r.Intn(3) {
		case 0:
			emit("unquoted", []byte(s))
		case 1:
			emit("unquoted", []byte(`"`+s))
		case 2:
			emit("unquoted", []byte(s+`"`))
		}
	}
	for i := 0; i < nMut; i++ {
		emit("mutation", vh.Mutate(r, q(gen()), mutAlphabet))
	}
	for u := 0; u < 0x10000; u++ {
		emit("every_code_unit", q(fmt.Sprintf(`\u%04x`, u)))
	}
	bounds := []int{0x0000, 0x0041, 0xd7ff, 0xd800, 0xd801, 0xdbff, 0xdc00, 0xdc01, 0xdfff, 0xe000, 0xffff}
	for _, hi := range bounds {
		for _, lo := range bounds {
			emit("surrogate_bounds", q(fmt.Sprintf(`\u%04x\u%04x`, hi, lo)))
			emit("surrogate_bounds", q(fmt.Sprintf(`\u%04X\u%04X`, hi, lo)))
			emit("surrogate_bounds", q(fmt.Sprintf(`\u%04x\u%04xz`, hi, lo)))
			emit("surrogate_bounds", q(fmt.Sprintf(`\u%04x \u%04x`, hi, lo)))
		}
	}
	for b0 := 0; b0 < 256; b0++ {
		for b1 := 0; b1 < 256; b1++ {
			emit("every_2_bytes", []byte{'"', byte(b0), byte(b1), '"'})
		}
	}
	// 3- and 4-byte sequences behind a multi-byte lead: second byte exhaustive at the interesting leads, the rest sampled
	for _, b0 := range []byte{0xe0, 0xe1, 0xec, 0xed, 0xee, 0xef, 0xf0, 0xf1, 0xf3, 0xf4, 0xf5} {
		for b1 := 0; b1 < 256; b1++ {
			for _, b2 := range []byte{0x00, 0x22, 0x41, 0x7f, 0x80, 0x9f, 0xa0, 0xbf, 0xc0, 0xff} {
				emit("multibyte_3", []byte{'"', b0, byte(b1), b2, '"'})
				if b0 >= 0xf0 {
					for _, b3 := range []byte{0x41, 0x7f, 0x80, 0xbf, 0xc0} {
						emit("multibyte_4", []byte{'"', b0, byte(b1), b2, b3, '"'})
					}
				}
			}
		}
	}
	vh.AllStrings(exhAlpha, nExh, func(b []byte) { emit("exhaustive", q(string(b))) })
	flush()
	rep.Finish()
}
