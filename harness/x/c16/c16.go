// Package c16: harness command `c16-ast` — property C16 "GetAST mirrors the schema text".
//
// An abstract schema (IR, gen.go) is generated, printed as JSight text with random layout, and the EXPECTED
// AST is computed from the IR alone (expNode); it is compared field by field with GetAST() of the real
// library. Every generated schema is valid by construction, so an error from GetAST is a diff as well.
//
// Field-level conventions of the AST that the property text leaves open and that were calibrated on the
// unchanged tree (each is a rule, none is a per-case exception):
//
//	V1  Value of a literal node, of an object key, of a string rule value (regex, type, additionalProperties,
//	    allOf/or/enum items) is the DECODED text (JSON escapes resolved, no quotes); numbers / true / false /
//	    null are the raw token text ("1.50" stays "1.50", min: 1.0 stays "1.0").
//	V2  Object and array nodes have Value "".
//	V3  A shortcut node has TokenType "reference" and Value = the shortcut text as written, trimmed
//	    ("@a|@b", "@a  |  @b" keep their inner blanks); SchemaType is the name for one name, "mixed" for several.
//	V4  Synthesised rules come FIRST in the rule list: `type` {reference, name, generated} for `@t`;
//	    `or` {array, generated} whose items are {TokenType "string", name, generated} for `@t | @u`.
//	V5  Manual `type` rule: TokenType "reference" for a user type name, "string" otherwise.
//	V6  additionalProperties: true/false → TokenType "boolean"; any type name, INCLUDING "@t", → "string".
//	V7  allOf with exactly one name (string form or one-element list) → one {reference, name} node; with
//	    two or more names → {array} with {reference} items.
//	V8  enum: inline list → {array} with one item per literal (TokenType by JSON kind, Value as V1, item
//	    Comment = text of the `// …` comment that follows the item, trimmed); `@E` → {reference, "@E"}
//	    (the values of the named rule are not expanded).
//	V9  Manual or: {array}; a bare user type name item → {reference}, a bare schema type name → {string},
//	    a rule-set → {object} with Properties in written order. All marked manual.
//	V10 Numeric / boolean rule values: TokenType "number" / "boolean", Value = source text.
//	V11 Comment = note text trimmed: with a rule object the note follows `-` after the closing brace; without
//	    rules it is the whole annotation text. Line breaks inside a /* */ note are kept verbatim.
//	    "Trimmed" means: the ASCII blanks space, tab, CR, LF at the two ends, nothing else.
//	V11b A note / item comment is arbitrary text: its first and last characters are drawn also from white space that
//	    is not an ASCII blank (U+00A0, U+3000, U+2000–U+200A, U+0085, U+FEFF, U+2028/9, U+200B, \v, \f, a control
//	    character, lone Latin-1 bytes A0 / 85) and from punctuation; all of them are part of the text. The same
//	    characters, raw and as \u escapes, open and close string literals, keys, enum items and string rule values.
//	V12 Key of a key shortcut is the shortcut text ("@k") with IsKeyShortcut = true.
//	V13 Rules that are switched off (nullable: false, const: false, optional: false, exclusiveMinimum: false)
//	    still appear (the AST is taken before compilation).
//	V8a An enum item comment is the text after `//` up to the end of the line with LEADING blanks removed;
//	    trailing blanks are kept by the tree, so the generator writes none (left open, not demanded).
//	V8b An enum item comment is only possible inside a /* */ annotation (also in the enum of an `or` rule-set
//	    there). It belongs to the item written last before it — whether it stands after the comma, before the
//	    comma, or on the next line — and EVERY character up to the line end is its text: `#`, `##`, `//`, `/*`,
//	    `*/`, `-`, `@`, `|`, quotes, brackets, commas, colons are ordinary there (inside a multi-line annotation
//	    `#` never starts a user comment).
//	V8c Which item a comment belongs to is decided by POSITION, independently per item (each item of a list draws
//	    its own {no comment, comment}): several items may share a line (the comment at the end of the line belongs
//	    to the last of them), blank lines may follow any line. Readings taken from the unchanged tree: a comment
//	    between `[` and the first item belongs to no item and appears nowhere in the AST; when an item is followed
//	    by a comment before its comma AND one after its comma, the item carries the LATER one; two comments with
//	    nothing between them are a scanner error (301, not generated); `or` and `allOf` lists take no comments at
//	    all (loader error 801, not generated) — only enum lists, also the enum of an `or` rule-set, do.
//	V11a Note texts come from the same pool. In a /* */ annotation the note is verbatim up to `*/` (so `#`, `//`,
//	    `/*`, line breaks are ordinary; `*/` itself cannot be written); in a `//` annotation everything is
//	    ordinary except `#`, which starts a user comment: the note is the text before the first `#`, trimmed
//	    (possibly empty).
//	V15 An alternative written more than once — `@a | @b | @a`, `@a | @a`, or: ["@t", {type: "@t"}, "@t"],
//	    or: ["integer", {type: "integer"}] — comes back as often as written, each in its spelling and place.
//	V16 Hand-written rules next to a shortcut. `@t` and `@t | @u` take `optional` / `nullable`; `@t | @u` also a
//	    manual `type: "mixed"` (listed after the generated `or`, where written, manual). `@t` takes a manual `or`
//	    over plain type names: the node becomes SchemaType "mixed" and its rule list opens with `type`
//	    {string, "mixed"} in place of the generated {reference, "@t"} — GENERATED unless the author also wrote
//	    `type: "mixed"` (before or after the `or`), then manual — followed by the written rules in written order.
//	V14 SchemaType precedence: enum > or > type rule (decoded value, e.g. "any", "email", "@t", "mixed",
//	    "enum", "decimal") > precision ("decimal") > JSON kind of the example
//	    (integer / float / string / boolean / null / object / array).
//
// Besides the plain cases (one root, fresh type objects, one GetAST) the command runs HISTORY cases — programs over
// several schema objects in which GetAST is asked of every object (root, added type objects, shared type objects)
// at any moment of the program: see hist.go (H1–H6).
//
// Surface-syntax restrictions of the generator (scanner / loader rules of the unchanged tree, not AST matters):
// a node that carries an annotation stands alone on its line (an object's `{` and its first property never
// share a line); a bare rule name may be followed by spaces but not by a tab; a text that follows `//` or `/*`
// directly (no rule object) does not start with `{`; numbers have no exponent. (The earlier restriction on the rule name
// `enum` inside an `or` rule-set is gone: quoted / blank-followed spellings are generated since the library fix.)
// String literals include contents that look like other JSON kinds ("1.5", "true", "{", "", "a.b", escaped
// spellings); such cases are evaluated 8 times in one run and every evaluation must give the expected tree.
package c16

import (
	"fmt"
	"math/rand"
	"runtime"
	"strings"
	"sync"
	"time"

	"verifharness/vh"
)

const salt = 16001

type result struct {
	c       Case
	key     string
	nontriv bool
	stats   map[string]int
	impl    string
	model   string
	diff    string
	timeout bool
}

func oneCase(seed int64) result {
	g := &gen{r: rand.New(rand.NewSource(seed)), stats: map[string]int{}}
	var root *Node
	for try := 0; ; try++ { // 3 of 4 roots are containers / references
		g.stats, g.enums, g.enumAST = map[string]int{}, nil, nil
		root = g.node(1+g.r.Intn(3), false)
		if try >= 2 || len(root.Kind) > 1 || g.r.Intn(4) == 0 {
			break
		}
	}
	p := &printer{r: g.r, nl: "\n"}
	if g.r.Intn(5) == 0 {
		p.nl = "\r\n"
		g.stat("layout_crlf")
	}
	p.sb.WriteString([]string{"", "", " ", "\n", "  "}[g.r.Intn(5)])
	p.value(root, g, "", "", "")
	txt := p.sb.String()
	if g.r.Intn(2) == 0 {
		txt = strings.TrimRight(txt, "\r\n")
	}
	c := Case{Schema: txt, Enums: g.enums, EnumAST: g.enumAST}
	c.Types = append(c.Types, userTypes...)
	want := expNode(root)
	res := result{c: c, key: txt, stats: g.stats}
	res.nontriv = len(want.Children) > 0 || len(want.Rules) > 0 || want.Comment != ""
	type out struct {
		n     XNode
		rules map[string]XNode
		err   error
	}
	ch := make(chan out, 1)
	go func() {
		n, rules, err := realAST(c)
		ch <- out{n, rules, err}
	}()
	// a case that holds a string whose content looks like another JSON kind is evaluated 8 times: every
	// evaluation must give the expected tree (nothing may depend on the run)
	reps := 1
	if g.stats["lookalike_string"] > 0 {
		reps = 8
	}
	for rpt := 1; rpt < reps; rpt++ {
		n, rules, err := realAST(c)
		if err != nil {
			res.model, res.impl, res.diff = toJSON(want), "ERROR "+err.Error(), fmt.Sprintf("GetAST failed in evaluation %d of %d", rpt+1, reps)
			return res
		}
		if d, impl := compareAll(c, n, rules, want); d != "" {
			res.model, res.impl, res.diff = toJSON(want)+" rules "+toJSON(c.EnumAST), impl, fmt.Sprintf("evaluation %d of %d: %s", rpt+1, reps, d)
			return res
		}
	}
	select {
	case o := <-ch:
		res.model = toJSON(want)
		if o.err != nil {
			res.impl = "ERROR " + o.err.Error()
			res.diff = "GetAST failed on a schema that is valid by construction"
			return res
		}
		if d, impl := compareAll(c, o.n, o.rules, want); d != "" {
			res.impl = impl
			res.diff = d
			res.model += " rules " + toJSON(c.EnumAST)
		}
		countNodes(want, res.stats)
	case <-time.After(20 * time.Second):
		res.timeout = true
	}
	return res
}

// compareAll: schema AST and the AST of every named rule object against the expectation; "" when equal.
func compareAll(c Case, n XNode, rules map[string]XNode, want XNode) (diff, impl string) {
	if d := diffNode("root", n, want); d != "" {
		return d, toJSON(n)
	}
	for _, e := range c.Enums {
		if d := diffNode("rule "+e[0], rules[e[0]], c.EnumAST[e[0]]); d != "" {
			return d + " (GetAST of the named rule object: one child per literal, kind of the literal as written, raw text)", toJSON(rules[e[0]])
		}
	}
	return "", ""
}

func countNodes(n XNode, st map[string]int) {
	st["nodes"]++
	st["type_"+strings.TrimLeft(n.Type[:1], "")+n.Type[1:]]++
	for _, r := range n.Rules {
		st["rule_"+r.Name+"_"+r.Src]++
	}
	if n.Comment != "" {
		st["notes"]++
	}
	for _, c := range n.Children {
		countNodes(c, st)
	}
}

func Run(args []string) {
	if len(args) >= 2 && args[0] == "dump" {
		c := Case{Schema: args[1]}
		for _, a := range args[2:] {
			i := strings.Index(a, "=")
			if strings.HasPrefix(a, "rule:") {
				c.Enums = append(c.Enums, [2]string{a[5:i], a[i+1:]})
			} else {
				c.Types = append(c.Types, [2]string{a[:i], a[i+1:]})
			}
		}
		n, rules, err := realAST(c)
		if err != nil {
			fmt.Println("ERR", err)
			return
		}
		fmt.Println(toJSON(n))
		for k, v := range rules {
			fmt.Println("rule", k, toJSON(v))
		}
		return
	}
	rep := vh.NewReport("c16-ast", "abstract schemas (literals of 5 kinds, objects with plain keys and at most one key shortcut, arrays, "+
		"reference shortcuts @t and @t|@u (bare, with optional / nullable, @t with a manual or over plain types ± type mixed, @t|@u with a manual type mixed), rule sets valid by construction incl. enum inline/@E, or with type names and rule-sets, allOf, "+
		"additionalProperties, precision/decimal, format types; repeated alternatives in shortcuts and or rules (same / other spelling); "+
		"notes and enum item comments drawn from a pool with every scanner-relevant character (# ## // /* */ - @ | quotes brackets , : non-ASCII), "+
		"one in three opening / closing with a non-ASCII white-space character (U+00A0, U+3000, U+2000-200A, U+0085, U+FEFF, VT, FF …) or punctuation; the same inside strings and keys; "+
		"item comments after / before the comma / on their own line, also in or rule-sets, drawn per item (stats enum_list_*), a comment before the first item, two comments after one item, several items per line, blank lines; random layout, // and /* */ annotations, LF/CRLF) printed as JSight; "+
		"expected AST computed from the IR; nontrivial = the root has children, rules or a note. "+
		"History cases (hist.go H1-H6): programs over several schema objects with generated texts - 1-2 parents (generated root / root referencing the type objects), "+
		"1-3 type objects @u1.. (own type table none / filled before / filled after being handed to a parent; nested in each other; in one or several parents), the fixed type objects shared or per receiver - "+
		"all AddType calls in random order interleaved with GetAST / Check / UsedUserTypes / Len on the type objects, then Check / GetAST / Validate / Example / UsedUserTypes / Len on parents and type objects, "+
		"then GetAST of EVERY object; every GetAST answer of every object must be the AST of its own text (an error only from an object compiled without the types its text uses); "+
		"a failing program is reduced call by call; nontrivial = at least one type object answered GetAST")
	n := vh.Pick(12000, 1500000)
	base := vh.Seed()*1000003 + salt
	const batch = 20000
	stop := false
	for start := 0; start < n && !stop; start += batch {
		end := start + batch
		if end > n {
			end = n
		}
		results := make([]result, end-start)
		var wg sync.WaitGroup
		next := make(chan int, 1024)
		for w := 0; w < runtime.NumCPU(); w++ {
			wg.Add(1)
			go func() {
				defer wg.Done()
				for i := range next {
					results[i-start] = oneCase(base*7919 + int64(i))
				}
			}()
		}
		for i := start; i < end; i++ {
			next <- i
		}
		close(next)
		wg.Wait()
		for j, res := range results {
			i := start + j
			rep.Case(lineSafe(res.key), res.nontriv)
			for k, v := range res.stats {
				rep.Stats[k] += v
			}
			if res.timeout {
				rep.AddDiff(vh.Diff{Component: "C16-ast", Input: lineSafe(res.c.String()), Impl: "TIMEOUT", Model: "GetAST returns"})
				stop = true
				break
			}
			if res.diff != "" {
				rep.Stat("diff")
				impl, model := res.impl, res.model
				if len(impl) > 1500 {
					impl = impl[:1500] + "…"
				}
				if len(model) > 1500 {
					model = model[:1500] + "…"
				}
				rep.AddDiff(vh.Diff{Component: "C16-ast", Input: lineSafe(res.c.String()), Impl: lineSafe(impl), Model: lineSafe(model), Note: lineSafe(fmt.Sprintf("case %d: %s", i, res.diff))})
			} else {
				rep.Stat("ast_equal")
			}
		}
	}
	runHistories(rep, stop)
	rep.Finish()
}

// runHistories: the history cases of hist.go (H1–H6), evaluated after the plain cases.
func runHistories(rep *vh.Report, stop bool) {
	n := vh.Pick(6000, 200000)
	base := (vh.Seed()*1000003+histSalt)*7919 + 1
	const batch = 20000
	for start := 0; start < n && !stop; start += batch {
		end := start + batch
		if end > n {
			end = n
		}
		results := make([]histResult, end-start)
		var wg sync.WaitGroup
		next := make(chan int, 1024)
		for w := 0; w < runtime.NumCPU(); w++ {
			wg.Add(1)
			go func() {
				defer wg.Done()
				for i := range next {
					results[i-start] = oneHist(base + int64(i))
				}
			}()
		}
		for i := start; i < end; i++ {
			next <- i
		}
		close(next)
		wg.Wait()
		for j, res := range results {
			rep.Case(lineSafe(res.key), res.nontriv)
			rep.Stat("hist_cases")
			for k, v := range res.h.stats {
				rep.Stats[k] += v
			}
			if res.timeout {
				rep.AddDiff(vh.Diff{Component: "C16-ast-history", Input: lineSafe(res.input), Impl: "TIMEOUT", Model: "every call returns"})
				stop = true
				break
			}
			if res.diff != "" {
				rep.Stat("hist_diff")
				impl, model := res.impl, res.model
				if len(impl) > 1500 {
					impl = impl[:1500] + "…"
				}
				if len(model) > 1500 {
					model = model[:1500] + "…"
				}
				rep.AddDiff(vh.Diff{Component: "C16-ast-history", Input: lineSafe(res.input), Impl: lineSafe(impl), Model: lineSafe(model), Note: lineSafe(fmt.Sprintf("history case %d: %s", start+j, res.diff))})
			} else {
				rep.Stat("hist_all_asts_equal")
			}
		}
	}
}
