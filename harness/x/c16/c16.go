package c16

import (
	"fmt"
	"strings"
)

func Run(args []string) {
	if len(args) >= 2 && args[0] == "dump" {
		c := Case{Schema: args[1]}
		for _, a := range args[2:] {
			i := strings.Index(a, "=")
			if strings.HasPrefix(a, "rule:") {
				c.Enums = append(c.Enums, [2]string{a[5:i], a[i+1:]})
			} else {
				c.Types = append(c.Types, [2]string{a[:i], a[i+1:]})
			}
		}
		n, err := realAST(c)
		if err != nil {
			fmt.Println("ERR", err)
			return
		}
		fmt.Println(toJSON(n))
		return
	}
}
