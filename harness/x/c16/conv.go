package c16

import (
	"encoding/json"
	"fmt"
	"strconv"
	"strings"
	"unicode/utf16"

	jlib "github.com/jsightapi/jsight-schema-go-library"
	"github.com/jsightapi/jsight-schema-go-library/notations/jschema"
	"github.com/jsightapi/jsight-schema-go-library/rules/enum"
)

// XRule / XNode: neutral mirror of jschema.RuleASTNode / jschema.ASTNode (ordered, comparable, printable).
type XRule struct {
	Name    string  `json:"name,omitempty"` // rule name (key of the rule map); empty for list items
	Tok     string  `json:"tok"`
	Value   string  `json:"value"`
	Comment string  `json:"comment,omitempty"`
	Src     string  `json:"src"` // manual | generated | unknown
	Props   []XRule `json:"props,omitempty"`
	Items   []XRule `json:"items,omitempty"`
}

type XNode struct {
	Key      string  `json:"key,omitempty"`
	Short    bool    `json:"isKeyShortcut,omitempty"`
	Tok      string  `json:"tok"`
	Type     string  `json:"type"`
	Value    string  `json:"value"`
	Comment  string  `json:"comment,omitempty"`
	Rules    []XRule `json:"rules,omitempty"`
	Children []XNode `json:"children,omitempty"`
}

func srcName(s jlib.RuleASTNodeSource) string {
	switch s {
	case jlib.RuleASTNodeSourceManual:
		return "manual"
	case jlib.RuleASTNodeSourceGenerated:
		return "generated"
	}
	return "unknown"
}

func convRules(m *jlib.RuleASTNodes) []XRule {
	if m == nil {
		return nil
	}
	var out []XRule
	_ = m.Each(func(k string, v jlib.RuleASTNode) error {
		x := convRule(v)
		x.Name = k
		out = append(out, x)
		return nil
	})
	return out
}

func convRule(v jlib.RuleASTNode) XRule {
	x := XRule{Tok: v.TokenType, Value: v.Value, Comment: v.Comment, Src: srcName(v.Source)}
	x.Props = convRules(v.Properties)
	for _, it := range v.Items {
		x.Items = append(x.Items, convRule(it))
	}
	return x
}

func convNode(n jlib.ASTNode) XNode {
	x := XNode{Key: n.Key, Short: n.IsKeyShortcut, Tok: n.TokenType, Type: n.SchemaType, Value: n.Value, Comment: n.Comment}
	x.Rules = convRules(n.Rules)
	for _, c := range n.Children {
		x.Children = append(x.Children, convNode(c))
	}
	return x
}

func toJSON(v interface{}) string {
	b, _ := json.Marshal(v)
	return lineSafe(string(b))
}

// lineSafe: the REPORT is ONE line that ./check cuts out of the output with Python's str.splitlines(), which also
// breaks a line at U+0085 (NEL) — a character encoding/json leaves raw (it escapes only < 0x20, U+2028, U+2029) and
// that notes / strings of the generator contain (V11b). Every text handed to the report (Impl / Model trees, case
// keys → samples, Notes) therefore goes through lineSafe: every rune that is not printable ASCII-or-graphic
// (strconv.IsPrint false: NEL, NBSP-like spaces, zero-width characters, BOM, …) is written as \uXXXX, which is
// valid inside the JSON strings of a tree and readable in a sample. Without it a run whose FIRST diffs (or samples)
// held a NEL made ./check die on the REPORT line and the diffs were never reported.
func lineSafe(s string) string {
	ok := true
	for _, r := range s {
		if r >= 0x7f && !strconv.IsPrint(r) {
			ok = false
			break
		}
	}
	if ok {
		return s
	}
	var sb strings.Builder
	for _, r := range s {
		switch {
		case r < 0x7f || strconv.IsPrint(r):
			sb.WriteRune(r)
		case r > 0xffff:
			r1, r2 := utf16.EncodeRune(r)
			fmt.Fprintf(&sb, "\\u%04x\\u%04x", r1, r2)
		default:
			fmt.Fprintf(&sb, "\\u%04x", r)
		}
	}
	return sb.String()
}

// Case: one replayable input.
type Case struct {
	Schema  string
	Types   [][2]string      // name, text (added in this order)
	Enums   [][2]string      // rule name, text
	EnumAST map[string]XNode // expected GetAST() of each named rule (by rule name)
}

func (c Case) String() string {
	var sb strings.Builder
	sb.WriteString("schema=" + fmt.Sprintf("%q", c.Schema))
	for _, t := range c.Types {
		sb.WriteString(fmt.Sprintf(" ; AddType(%q, jschema.New(%q, %q))", t[0], t[0], t[1]))
	}
	for _, t := range c.Enums {
		sb.WriteString(fmt.Sprintf(" ; AddRule(%q, enum.New(%q, %q))", t[0], t[0], t[1]))
	}
	return sb.String()
}

// realAST: enum rules are added first (AddRule must precede loading), then the types, then GetAST.
// The AST of every named enum rule object is read as well (after the schema used it) into rules.
func realAST(c Case) (out XNode, rules map[string]XNode, err error) {
	defer func() {
		if r := recover(); r != nil {
			err = fmt.Errorf("PANIC %v", r)
		}
	}()
	s := jschema.New("root", c.Schema)
	objs := map[string]*enum.Enum{}
	for _, e := range c.Enums {
		objs[e[0]] = enum.New(e[0], e[1])
		if err := s.AddRule(e[0], objs[e[0]]); err != nil {
			return XNode{}, nil, fmt.Errorf("AddRule %s: %w", e[0], err)
		}
	}
	for _, t := range c.Types {
		if err := s.AddType(t[0], jschema.New(t[0], t[1])); err != nil {
			return XNode{}, nil, fmt.Errorf("AddType %s: %w", t[0], err)
		}
	}
	n, err := s.GetAST()
	if err != nil {
		return XNode{}, nil, err
	}
	rules = map[string]XNode{}
	for name, e := range objs {
		a, err := e.GetAST()
		if err != nil {
			return XNode{}, nil, fmt.Errorf("GetAST of rule %s: %w", name, err)
		}
		rules[name] = convNode(a)
	}
	return convNode(n), rules, nil
}
