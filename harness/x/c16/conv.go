package c16

import (
	"encoding/json"
	"fmt"
	"strings"

	jlib "github.com/jsightapi/jsight-schema-go-library"
	"github.com/jsightapi/jsight-schema-go-library/notations/jschema"
	"github.com/jsightapi/jsight-schema-go-library/rules/enum"
)

// XRule / XNode: neutral mirror of jschema.RuleASTNode / jschema.ASTNode (ordered, comparable, printable).
type XRule struct {
	Name    string  `json:"name,omitempty"` // rule name (key of the rule map); empty for list items
	Tok     string  `json:"tok"`
	Value   string  `json:"value"`
	Comment string  `json:"comment,omitempty"`
	Src     string  `json:"src"` // manual | generated | unknown
	Props   []XRule `json:"props,omitempty"`
	Items   []XRule `json:"items,omitempty"`
}

type XNode struct {
	Key      string  `json:"key,omitempty"`
	Short    bool    `json:"isKeyShortcut,omitempty"`
	Tok      string  `json:"tok"`
	Type     string  `json:"type"`
	Value    string  `json:"value"`
	Comment  string  `json:"comment,omitempty"`
	Rules    []XRule `json:"rules,omitempty"`
	Children []XNode `json:"children,omitempty"`
}

func srcName(s jlib.RuleASTNodeSource) string {
	switch s {
	case jlib.RuleASTNodeSourceManual:
		return "manual"
	case jlib.RuleASTNodeSourceGenerated:
		return "generated"
	}
	return "unknown"
}

func convRules(m *jlib.RuleASTNodes) []XRule {
	if m == nil {
		return nil
	}
	var out []XRule
	_ = m.Each(func(k string, v jlib.RuleASTNode) error {
		x := convRule(v)
		x.Name = k
		out = append(out, x)
		return nil
	})
	return out
}

func convRule(v jlib.RuleASTNode) XRule {
	x := XRule{Tok: v.TokenType, Value: v.Value, Comment: v.Comment, Src: srcName(v.Source)}
	x.Props = convRules(v.Properties)
	for _, it := range v.Items {
		x.Items = append(x.Items, convRule(it))
	}
	return x
}

func convNode(n jlib.ASTNode) XNode {
	x := XNode{Key: n.Key, Short: n.IsKeyShortcut, Tok: n.TokenType, Type: n.SchemaType, Value: n.Value, Comment: n.Comment}
	x.Rules = convRules(n.Rules)
	for _, c := range n.Children {
		x.Children = append(x.Children, convNode(c))
	}
	return x
}

func toJSON(v interface{}) string {
	b, _ := json.Marshal(v)
	return string(b)
}

// Case: one replayable input.
type Case struct {
	Schema  string
	Types   [][2]string      // name, text (added in this order)
	Enums   [][2]string      // rule name, text
	EnumAST map[string]XNode // expected GetAST() of each named rule (by rule name)
}

func (c Case) String() string {
	var sb strings.Builder
	sb.WriteString("schema=" + fmt.Sprintf("%q", c.Schema))
	for _, t := range c.Types {
		sb.WriteString(fmt.Sprintf(" ; AddType(%q, jschema.New(%q, %q))", t[0], t[0], t[1]))
	}
	for _, t := range c.Enums {
		sb.WriteString(fmt.Sprintf(" ; AddRule(%q, enum.New(%q, %q))", t[0], t[0], t[1]))
	}
	return sb.String()
}

// realAST: enum rules are added first (AddRule must precede loading), then the types, then GetAST.
// The AST of every named enum rule object is read as well (after the schema used it) into rules.
func realAST(c Case) (out XNode, rules map[string]XNode, err error) {
	defer func() {
		if r := recover(); r != nil {
			err = fmt.Errorf("PANIC %v", r)
		}
	}()
	s := jschema.New("root", c.Schema)
	objs := map[string]*enum.Enum{}
	for _, e := range c.Enums {
		objs[e[0]] = enum.New(e[0], e[1])
		if err := s.AddRule(e[0], objs[e[0]]); err != nil {
			return XNode{}, nil, fmt.Errorf("AddRule %s: %w", e[0], err)
		}
	}
	for _, t := range c.Types {
		if err := s.AddType(t[0], jschema.New(t[0], t[1])); err != nil {
			return XNode{}, nil, fmt.Errorf("AddType %s: %w", t[0], err)
		}
	}
	n, err := s.GetAST()
	if err != nil {
		return XNode{}, nil, err
	}
	rules = map[string]XNode{}
	for name, e := range objs {
		a, err := e.GetAST()
		if err != nil {
			return XNode{}, nil, fmt.Errorf("GetAST of rule %s: %w", name, err)
		}
		rules[name] = convNode(a)
	}
	return convNode(n), rules, nil
}
