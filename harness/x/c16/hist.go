package c16

// History cases (H1–H6 below): the property speaks of GetAST of a schema, and a run of the library holds MANY schema
// objects — the root(s) and every type object `t := jschema.New(name, text)` that is handed to a parent with
// `parent.AddType(name, t)`. Each of them answers GetAST, at any moment, and what it must answer is the tree of ITS
// OWN TEXT: the rules as written, nothing the compilation derived, no inherited allOf properties — whatever has been
// done with the object or with the objects that hold it.
//
// A history case is a small program over several objects, all of whose texts come from the same abstract-schema
// generator (so the expected AST of every object is expNode of its IR, computed from the text alone):
//
//	H1  objects: 1–2 parents (a generated root, or a root that REFERENCES the type objects: `[@u1, @u2]`,
//	    `{"a": @u1}`, `@u1`, `@u1 | @u2`), 1–3 type objects @u1… with generated texts (all rule kinds: allOf, type,
//	    or, enum, exclusive flags, nullable / const false, notes …), and the objects of the fixed type table
//	    (@ti … @k2), either ONE object per name shared by every receiver or a fresh object per receiver.
//	H2  registration phase: every AddType call of the program in random order — parent ← fixed types, parent ← type
//	    object (a type object goes to one or to several parents), type object ← fixed types (its own table: none /
//	    registered BEFORE it is handed to a parent / registered AFTER, so that the parent's AddType is the first thing
//	    that ever touches it), type object ← an earlier type object (nested tables). Interleaved: calls on the type
//	    objects themselves — GetAST, Check, UsedUserTypes, Len — so that GetAST is the first call after AddType,
//	    or follows Check / UsedUserTypes, or precedes the registration.
//	H3  use phase: 2–6 calls Check / GetAST / Validate / Example / UsedUserTypes / Len on parents and type objects in
//	    random order (GetAST of a type object before and after the parents compile).
//	H4  final phase: GetAST of EVERY object of the program (parents, type objects, fixed type objects) in random
//	    order, and of every named enum rule object.
//	H5  oracle: every GetAST answer of every object, wherever it stands in the program, equals the expected AST of the
//	    object's text. An error is accepted only from an object that could not be compiled on its own: at its first
//	    compiling call (Check / GetAST / Validate / Example) its type table — own entries plus the tables of its
//	    entries — lacked a type name that its text or the text of one of its entries uses (then Check of that object
//	    fails as well, the error is kept by the object; not an AST matter). Any other error is a diff.
//	H6  calls are strictly sequential inside a case (first compilation of one allOf type object by two parents
//	    concurrently is known finding K-C12-allof and not the subject here). A compiling call on an object never
//	    precedes one of its own AddType calls (a half-filled table would abort an allOf compilation in the middle).

import (
	"fmt"
	"math/rand"
	"sort"
	"strings"
	"sync/atomic"
	"time"

	"github.com/jsightapi/jsight-schema-go-library/formats/json"
	"github.com/jsightapi/jsight-schema-go-library/notations/jschema"
	"github.com/jsightapi/jsight-schema-go-library/rules/enum"
)

const histSalt = 16057

// fixedIR: the abstract schemas of the fixed type table (same order as userTypes).
func fixedIR() []*Node {
	i := func(s string) *Node { return &Node{Kind: "i", Val: Lit{Kind: "i", Raw: s, Dec: s}} }
	s := func(raw, dec string) *Node { return &Node{Kind: "s", Val: Lit{Kind: "s", Raw: raw, Dec: dec}} }
	k2 := s(`"abc"`, "abc")
	k2.Rules = []*Rule{lr("regex", slit("[a-z]+"))}
	return []*Node{
		i("12"),
		{Kind: "f", Val: Lit{Kind: "f", Raw: "1.5", Dec: "1.5"}},
		s(`"str"`, "str"),
		{Kind: "b", Val: Lit{Kind: "b", Raw: "true", Dec: "true"}},
		{Kind: "n", Val: Lit{Kind: "n", Raw: "null", Dec: "null"}},
		{Kind: "obj", Props: []*Prop{{Key: Str{`"z"`, "z"}, Val: i("1")}}},
		{Kind: "obj", Props: []*Prop{{Key: Str{`"y"`, "y"}, Val: s(`"s"`, "s")}, {Key: Str{`"w"`, "w"}, Val: &Node{Kind: "arr", Items: []*Node{i("1")}}}}},
		{Kind: "arr", Items: []*Node{i("1")}},
		s(`"key"`, "key"),
		k2,
	}
}

var fixedWant = func() []XNode {
	var out []XNode
	for _, n := range fixedIR() {
		out = append(out, expNode(n))
	}
	return out
}()

// usedNames: the user type names the text of n mentions (shortcuts, key shortcuts, type / or / allOf /
// additionalProperties values).
func usedNames(n *Node, into map[string]bool) {
	var rules func(rs []*Rule)
	rules = func(rs []*Rule) {
		for _, x := range rs {
			switch x.Form {
			case "lit":
				if (x.Name == "type" || x.Name == "additionalProperties") && x.Val.Kind == "s" && strings.HasPrefix(x.Val.Dec, "@") {
					into[x.Val.Dec] = true
				}
			case "allOfStr", "allOfList":
				for _, nm := range x.Names {
					into[nm] = true
				}
			case "or":
				for _, a := range x.Alts {
					if a.Rules == nil {
						if strings.HasPrefix(a.Name, "@") {
							into[a.Name] = true
						}
					} else {
						rules(a.Rules)
					}
				}
			}
		}
	}
	if n.Kind == "ref" {
		for _, nm := range n.Names {
			into[nm] = true
		}
	}
	rules(n.Rules)
	for _, it := range n.Items {
		usedNames(it, into)
	}
	for _, p := range n.Props {
		if p.Short {
			into[p.Key.Dec] = true
		}
		usedNames(p.Val, into)
	}
}

type hobj struct {
	v       string // variable name in the replay script
	name    string // schema name given to New
	text    string
	role    string // parent | type | fixed
	enums   [][2]string
	enumAST map[string]XNode
	want    XNode
	used    map[string]bool
	ownMode string // type objects: none | before | after

	// run time
	s          *jschema.Schema
	rules      map[string]*enum.Enum
	own        map[string]int // own table: type name → object index
	compiled   bool
	wasTouched bool
	unresolved bool
}

type hop struct {
	kind string // addtype | getast | check | used | len | validate | example
	a, b int    // receiver, argument (addtype)
	name string // addtype: type name
	key  float64
}

type hist struct {
	objs  []*hobj
	ops   []hop
	stats map[string]int
}

// genObj: one generated schema text (same distribution as the plain cases) with its expectation.
func genObj(g *gen, v, name, role string) *hobj {
	var root *Node
	saved := g.stats
	for try := 0; ; try++ {
		g.stats, g.enums, g.enumAST = map[string]int{}, nil, nil
		root = g.node(1+g.r.Intn(3), false)
		if try >= 2 || len(root.Kind) > 1 || g.r.Intn(4) == 0 {
			break
		}
	}
	o := printObj(g, root, v, name, role)
	for k, n := range g.stats {
		saved[k] += n
	}
	g.stats = saved
	return o
}

func printObj(g *gen, root *Node, v, name, role string) *hobj {
	p := &printer{r: g.r, nl: "\n"}
	if g.r.Intn(5) == 0 {
		p.nl = "\r\n"
	}
	p.sb.WriteString([]string{"", "", " ", "\n", "  "}[g.r.Intn(5)])
	p.value(root, g, "", "", "")
	txt := p.sb.String()
	if g.r.Intn(2) == 0 {
		txt = strings.TrimRight(txt, "\r\n")
	}
	o := &hobj{v: v, name: name, text: txt, role: role, enums: g.enums, enumAST: g.enumAST, want: expNode(root), used: map[string]bool{}}
	usedNames(root, o.used)
	return o
}

// refRoot: a root whose text references the type objects names[…]: a list, an object, one shortcut, an or-shortcut.
func refRoot(g *gen, names []string) *Node {
	r := g.r
	ref := func(nms ...string) *Node {
		n := &Node{Kind: "ref", Names: nms, Sep: []string{" | ", "|", "  |  "}[r.Intn(3)]}
		if r.Intn(4) == 0 {
			n.Note = "?"
		}
		return n
	}
	perm := r.Perm(len(names))
	switch k := r.Intn(4); {
	case k == 0:
		n := &Node{Kind: "arr"}
		for _, i := range perm {
			n.Items = append(n.Items, ref(names[i]))
		}
		return n
	case k == 1:
		n := &Node{Kind: "obj"}
		kp := r.Perm(len(plainKeys))
		for j, i := range perm {
			c := ref(names[i])
			c.Rules = g.common(nil, true, false)
			n.Props = append(n.Props, &Prop{Key: plainKeys[kp[j]], Val: c})
		}
		return n
	case k == 2 && len(names) > 1:
		var nms []string
		for _, i := range perm {
			nms = append(nms, names[i])
		}
		return ref(nms...)
	}
	return ref(names[perm[0]])
}

func genHist(seed int64) *hist {
	g := &gen{r: rand.New(rand.NewSource(seed)), stats: map[string]int{}}
	r := g.r
	h := &hist{stats: g.stats}
	nP, nT := 1+r.Intn(2), 1+r.Intn(3)
	g.stat(fmt.Sprintf("hist_parents_%d", nP))
	g.stat(fmt.Sprintf("hist_typeobjects_%d", nT))

	// type objects
	var tIdx []int
	var tNames []string
	for i := 1; i <= nT; i++ {
		nm := fmt.Sprintf("@u%d", i)
		o := genObj(g, fmt.Sprintf("u%d", i), nm, "type")
		o.ownMode = []string{"none", "before", "after", "after"}[r.Intn(4)]
		g.stat("hist_typeobject_own_table_" + o.ownMode)
		if len(o.want.Rules) > 0 || len(o.want.Children) > 0 {
			g.stat("hist_typeobject_with_rules_or_children")
		}
		if len(o.used) > 0 {
			g.stat("hist_typeobject_uses_types")
		}
		tIdx = append(tIdx, len(h.objs))
		tNames = append(tNames, nm)
		h.objs = append(h.objs, o)
	}
	// parents
	var pIdx []int
	holds := map[int][]int{} // parent → type objects it receives
	for i := 0; i < nP; i++ {
		v := []string{"R", "Q"}[i]
		var o *hobj
		if r.Intn(2) == 0 {
			g.enums, g.enumAST = nil, nil
			o = printObj(g, refRoot(g, tNames), v, "root", "parent")
			holds[len(h.objs)] = append([]int{}, tIdx...)
			g.stat("hist_parent_references_typeobjects")
		} else {
			o = genObj(g, v, "root", "parent")
			for _, t := range tIdx {
				if r.Intn(3) != 0 {
					holds[len(h.objs)] = append(holds[len(h.objs)], t)
				}
			}
			g.stat("hist_parent_generated")
		}
		pIdx = append(pIdx, len(h.objs))
		h.objs = append(h.objs, o)
	}
	for _, t := range tIdx { // every type object goes to at least one parent
		n := 0
		for _, p := range pIdx {
			for _, x := range holds[p] {
				if x == t {
					n++
				}
			}
		}
		if n == 0 {
			holds[pIdx[0]] = append(holds[pIdx[0]], t)
			n = 1
		}
		if n > 1 {
			g.stat("hist_typeobject_in_several_parents")
		}
	}
	// fixed type objects: shared (one per name) or fresh per receiver
	shared := r.Intn(2) == 0
	if shared {
		g.stat("hist_fixed_objects_shared")
	} else {
		g.stat("hist_fixed_objects_per_receiver")
	}
	sharedIdx := map[string]int{}
	fixedFor := func(recv int, k int) int {
		nm := userTypes[k][0]
		if shared {
			if i, ok := sharedIdx[nm]; ok {
				return i
			}
		}
		v := nm[1:]
		if !shared {
			v += "_" + h.objs[recv].v
		}
		o := &hobj{v: v, name: nm, text: userTypes[k][1], role: "fixed", want: fixedWant[k], used: map[string]bool{}}
		h.objs = append(h.objs, o)
		sharedIdx[nm] = len(h.objs) - 1
		return len(h.objs) - 1
	}

	// registration phase (keys in [0,1))
	add := func(kind string, a, b int, name string, key float64) {
		h.ops = append(h.ops, hop{kind: kind, a: a, b: b, name: name, key: key})
	}
	first := map[int]float64{} // type object → key of the first parent.AddType that receives it
	for _, p := range pIdx {
		for k := range userTypes {
			add("addtype", p, fixedFor(p, k), userTypes[k][0], r.Float64())
		}
		for _, t := range holds[p] {
			key := 0.3 + 0.7*r.Float64()
			if h.objs[t].ownMode == "after" {
				key = r.Float64()
			}
			if f, ok := first[t]; !ok || key < f {
				first[t] = key
			}
			add("addtype", p, t, h.objs[t].name, key)
		}
	}
	lastOwn := map[int]float64{} // type object → key of the last AddType it receives
	for j, t := range tIdx {
		o := h.objs[t]
		if o.ownMode == "none" {
			continue
		}
		ownKey := func() float64 {
			k := 0.3 * r.Float64()
			if o.ownMode == "after" {
				k = first[t] + (1-first[t])*(0.001+0.998*r.Float64())
			}
			if k > lastOwn[t] {
				lastOwn[t] = k
			}
			return k
		}
		for k := range userTypes {
			add("addtype", t, fixedFor(t, k), userTypes[k][0], ownKey())
		}
		for _, t0 := range tIdx[:j] { // nested tables: an earlier type object inside this one
			if r.Intn(5) == 0 {
				add("addtype", t, t0, h.objs[t0].name, ownKey())
				g.stat("hist_typeobject_inside_typeobject")
			}
		}
	}
	// calls on the type objects during the registration phase
	for _, t := range tIdx {
		for n := r.Intn(3); n > 0; n-- {
			kind := []string{"getast", "getast", "check", "used", "used", "len"}[r.Intn(6)]
			lo := 0.0
			if kind == "getast" || kind == "check" {
				lo = lastOwn[t] // H6
			}
			add(kind, t, 0, "", lo+(1-lo)*(0.0005+0.999*r.Float64()))
		}
	}
	// use phase (keys in [1,2))
	all := append(append([]int{}, pIdx...), tIdx...)
	for n := 2 + r.Intn(5); n > 0; n-- {
		kind := []string{"check", "check", "getast", "getast", "validate", "example", "used", "len"}[r.Intn(8)]
		add(kind, all[r.Intn(len(all))], 0, "", 1+r.Float64())
	}
	// final phase: every object
	for i := range h.objs {
		add("getast", i, 0, "", 2+r.Float64())
	}
	sort.SliceStable(h.ops, func(i, j int) bool { return h.ops[i].key < h.ops[j].key })
	return h
}

func (h *hist) opString(op hop) string {
	a := h.objs[op.a].v
	switch op.kind {
	case "addtype":
		return fmt.Sprintf("%s.AddType(%q, %s)", a, op.name, h.objs[op.b].v)
	case "getast":
		return a + ".GetAST()"
	case "check":
		return a + ".Check()"
	case "used":
		return a + ".UsedUserTypes()"
	case "len":
		return a + ".Len()"
	case "validate":
		return a + `.Validate(json.New("doc", "1"))`
	case "example":
		return a + ".Example()"
	}
	return "?"
}

// script: the replayable program, one statement per call, up to and including op number upto (-1: all); only the
// objects that occur in those calls are declared.
func (h *hist) script(upto int) string {
	if upto < 0 || upto >= len(h.ops) {
		upto = len(h.ops) - 1
	}
	occurs := map[int]bool{}
	for _, op := range h.ops[:upto+1] {
		occurs[op.a] = true
		if op.kind == "addtype" {
			occurs[op.b] = true
		}
	}
	var sb strings.Builder
	for i, o := range h.objs {
		if !occurs[i] {
			continue
		}
		fmt.Fprintf(&sb, "%s := jschema.New(%q, %q); ", o.v, o.name, o.text)
		for _, e := range o.enums {
			fmt.Fprintf(&sb, "%s.AddRule(%q, enum.New(%q, %q)); ", o.v, e[0], e[0], e[1])
		}
	}
	for _, op := range h.ops[:upto+1] {
		sb.WriteString(h.opString(op) + "; ")
	}
	return strings.TrimSpace(sb.String())
}

// resolved: H5 — can object i be compiled on its own right now?
func (h *hist) resolved(i int) bool {
	table := map[string]bool{}
	need := map[string]bool{}
	seen := map[int]bool{}
	var walk func(j int)
	walk = func(j int) {
		if seen[j] {
			return
		}
		seen[j] = true
		for nm := range h.objs[j].used {
			need[nm] = true
		}
		for nm, k := range h.objs[j].own {
			table[nm] = true
			walk(k)
		}
	}
	walk(i)
	for nm := range need {
		if !table[nm] {
			return false
		}
	}
	return true
}

type histResult struct {
	h       *hist
	key     string
	nontriv bool
	diff    string
	input   string
	impl    string
	model   string
	timeout bool
	failOp  int // index of the GetAST call whose answer is wrong (-1: none / another kind of failure)
}

func runHist(h *hist) (res histResult) {
	res.h = h
	res.key = h.script(-1)
	res.failOp = -1
	st := h.stats
	for _, o := range h.objs {
		o.s = jschema.New(o.name, o.text)
		o.own = map[string]int{}
		o.rules = map[string]*enum.Enum{}
		o.compiled, o.unresolved, o.wasTouched = false, false, false
	}
	fail := func(i int, what, impl, model string) histResult {
		res.diff = fmt.Sprintf("call %d %s: %s", i+1, h.opString(h.ops[i]), what)
		res.input, res.impl, res.model = h.script(i), impl, model
		return res
	}
	for i, o := range h.objs {
		for _, e := range o.enums {
			o.rules[e[0]] = enum.New(e[0], e[1])
			if err := safeErr(func() error { return o.s.AddRule(e[0], o.rules[e[0]]) }); err != nil {
				res.diff = fmt.Sprintf("%s.AddRule(%s): %v", h.objs[i].v, e[0], err)
				res.input, res.impl, res.model = h.script(-1), "ERROR "+err.Error(), "the rule is accepted"
				return res
			}
		}
	}
	compiling := func(o *hobj, i int) {
		if !o.compiled {
			o.compiled = true
			o.unresolved = !h.resolved(i)
			if o.unresolved {
				st["hist_object_compiled_without_its_types"]++
			}
		}
	}
	anyTypeObs := false
	for i, op := range h.ops {
		o := h.objs[op.a]
		switch op.kind {
		case "addtype":
			b := h.objs[op.b]
			if b.role == "type" {
				switch {
				case o.role == "parent" && !b.compiled && len(b.own) == 0 && !b.touched():
					st["hist_addtype_is_first_touch_of_typeobject"]++
				case b.compiled:
					st["hist_addtype_of_compiled_typeobject"]++
				}
			}
			b.markTouched()
			o.markTouched()
			if err := safeErr(func() error { return o.s.AddType(op.name, b.s) }); err != nil {
				return fail(i, "AddType of a valid type failed", "ERROR "+err.Error(), "nil")
			}
			o.own[op.name] = op.b
		case "getast":
			compiling(o, op.a)
			o.markTouched()
			var n XNode
			err := safeErr(func() error {
				a, err := o.s.GetAST()
				if err == nil {
					n = convNode(a)
				}
				return err
			})
			if err != nil {
				if o.unresolved {
					st["hist_getast_error_object_without_its_types"]++
					continue
				}
				return fail(i, "GetAST failed on a schema that is valid by construction and has every type it uses", "ERROR "+err.Error(), toJSON(o.want))
			}
			st["hist_getast_"+o.role]++
			if o.role == "type" {
				anyTypeObs = true
				if op.key < 1 {
					st["hist_getast_typeobject_before_parents_compile"]++
				}
			}
			if d := diffNode(o.v, n, o.want); d != "" {
				res.failOp = i
				return fail(i, "AST of "+o.v+" is not the AST of its text: "+d, toJSON(n), toJSON(o.want))
			}
		case "check":
			compiling(o, op.a)
			o.markTouched()
			err := safeErr(func() error { return o.s.Check() })
			if err != nil && !o.unresolved {
				st["hist_check_error"]++
			}
		case "used":
			o.markTouched()
			_ = safeErr(func() error { _, err := o.s.UsedUserTypes(); return err })
		case "len":
			_ = safeErr(func() error { _, err := o.s.Len(); return err })
		case "validate":
			compiling(o, op.a)
			o.markTouched()
			_ = safeErr(func() error { return o.s.Validate(json.New("doc", "1")) })
		case "example":
			compiling(o, op.a)
			o.markTouched()
			_ = safeErr(func() error { _, err := o.s.Example(); return err })
		}
		st["hist_op_"+op.kind]++
	}
	// the named enum rule objects of every schema object
	for _, o := range h.objs {
		for _, e := range o.enums {
			var n XNode
			err := safeErr(func() error {
				a, err := o.rules[e[0]].GetAST()
				if err == nil {
					n = convNode(a)
				}
				return err
			})
			if err != nil {
				res.diff = fmt.Sprintf("GetAST of rule %s of %s: %v", e[0], o.v, err)
				res.input, res.impl, res.model = h.script(-1), "ERROR "+err.Error(), toJSON(o.enumAST[e[0]])
				return res
			}
			if d := diffNode("rule "+e[0]+" of "+o.v, n, o.enumAST[e[0]]); d != "" {
				res.diff = d
				res.input, res.impl, res.model = h.script(-1), toJSON(n), toJSON(o.enumAST[e[0]])
				return res
			}
		}
	}
	res.nontriv = anyTypeObs
	return res
}

// touched: has any loading call reached the object yet (AddType as receiver or argument, GetAST, Check, …)?
func (o *hobj) touched() bool { return o.wasTouched }
func (o *hobj) markTouched()  { o.wasTouched = true }

func safeErr(f func() error) (err error) {
	defer func() {
		if r := recover(); r != nil {
			err = fmt.Errorf("PANIC %v", r)
		}
	}()
	return f()
}

// reduced: a wrong GetAST answer is reported on the shortest program found by dropping calls one at a time (each
// candidate is run on fresh objects and must end in a wrong answer of the same final call).
func reduced(res histResult) histResult {
	if res.failOp < 0 {
		return res
	}
	h := res.h
	cur := append([]hop{}, h.ops[:res.failOp+1]...)
	best := res
	try := func(ops []hop) (histResult, bool) {
		h2 := &hist{objs: h.objs, ops: ops, stats: map[string]int{}}
		r2 := runHist(h2)
		return r2, r2.failOp == len(ops)-1
	}
	if r2, ok := try(cur); ok {
		best = r2
	} else {
		return res
	}
	for j := len(cur) - 2; j >= 0; j-- {
		cand := append(append([]hop{}, cur[:j]...), cur[j+1:]...)
		if r2, ok := try(cand); ok {
			cur, best = cand, r2
		}
	}
	best.h.stats = h.stats
	best.key, best.nontriv = res.key, res.nontriv
	best.diff += fmt.Sprintf(" (program reduced from %d to %d calls)", res.failOp+1, len(cur))
	return best
}

var nReduced int32

func oneHist(seed int64) histResult {
	h := genHist(seed)
	ch := make(chan histResult, 1)
	go func() {
		res := runHist(h)
		if res.failOp >= 0 && atomic.AddInt32(&nReduced, 1) <= 40 {
			res = reduced(res)
		}
		ch <- res
	}()
	select {
	case res := <-ch:
		return res
	case <-time.After(20 * time.Second):
		return histResult{h: h, key: h.script(-1), input: h.script(-1), timeout: true}
	}
}
