package c16

import (
	"fmt"
	"math/rand"
	"strconv"
	"strings"
)

// ---------------------------------------------------------------------------------------------------
// Abstract schema (IR)
// ---------------------------------------------------------------------------------------------------

// Str is a string literal known both as source text (with quotes and escapes) and decoded.
type Str struct{ Src, Dec string }

// Lit is a scalar literal of a rule value / enum item: kind s i f b n, raw source text, decoded text.
type Lit struct {
	Kind    string
	Raw     string // as printed
	Dec     string // decoded (== Raw except for strings)
	Comment string // enum item comment (inline list only)
	// Earlier: a comment written after the item but BEFORE its comma, when Comment itself follows the comma — two
	// comments after one item (V8c): the item carries the later one, Comment. Only set together with Comment.
	Earlier string
}

type Alt struct { // one alternative of an `or` rule
	Name  string // bare type name item ("string", "@ti") when Rules == nil
	Rules []*Rule
}

type Rule struct {
	Name  string
	Form  string // lit | enumList | enumName | or | allOfStr | allOfList
	Val   Lit    // lit
	Items []Lit  // enumList
	Lead  string // enumList: a comment between `[` and the first item (V8c): belongs to no item, appears nowhere
	Ref   string // enumName: "@E1"
	Alts  []Alt
	Names []string // allOf
}

type Prop struct {
	Key   Str
	Short bool // key shortcut `@k: v` (Key.Src == Key.Dec == "@k")
	Val   *Node
}

type Node struct {
	Kind  string // s i f b n obj arr ref
	Val   Lit    // scalars
	Props []*Prop
	Items []*Node
	Names []string // ref
	Sep   string   // ref: separator text between names as printed, e.g. " | "
	Rules []*Rule
	Note  string // "" = none
	// layout
	EmptyOpen bool // empty container printed as "{" NL "}" (annotation after the opening bracket)
}

// The fixed table of user types and the kinds of values they hold.
var userTypes = [][2]string{
	{"@ti", `12`}, {"@tf", `1.5`}, {"@ts", `"str"`}, {"@tb", `true`}, {"@tn", `null`},
	{"@to", "{\n \"z\": 1\n}"}, {"@to2", "{\n \"y\": \"s\",\n \"w\": [1]\n}"}, {"@ta", `[1]`},
	{"@k", `"key"`}, {"@k2", `"abc" // {regex: "[a-z]+"}`},
}

var typeOfKind = map[string]string{"i": "@ti", "f": "@tf", "s": "@ts", "b": "@tb", "n": "@tn"}
var kindName = map[string]string{"s": "string", "i": "integer", "f": "float", "b": "boolean", "n": "null", "obj": "object", "arr": "array"}
var tokOfKind = map[string]string{"s": "string", "i": "number", "f": "number", "b": "boolean", "n": "null", "obj": "object", "arr": "array", "ref": "reference"}

type gen struct {
	r       *rand.Rand
	enums   [][2]string      // named enum rules created for this case
	enumAST map[string]XNode // … and the AST each rule object must report: one child per literal, kind of the literal AS WRITTEN, raw text
	stats   map[string]int
}

func (g *gen) stat(s string) { g.stats[s]++ }

var strParts = []Str{{"a", "a"}, {"b", "b"}, {"xyz", "xyz"}, {"é", "é"}, {"😀", "😀"}, {`\"`, `"`}, {`\\`, `\`}, {`\/`, "/"}, {`\n`, "\n"},
	{`\t`, "\t"}, {`\r`, "\r"}, {`\b`, "\b"}, {`\f`, "\f"}, {`A`, "A"}, {`é`, "é"}, {" ", " "}, {"/", "/"}, {"{", "{"}, {"]", "]"},
	{":", ":"}, {",", ","}, {"@", "@"}, {".", "."}, {"e", "e"}, {"1", "1"}, {"\\u002e", "."}, {"|", "|"}, {"//", "//"}, {"#", "#"}, {"0", "0"}, {"-", "-"}, {"*/", "*/"}, {"'", "'"},
	// white space that is not an ASCII blank, raw and escaped: inside the quotes it is content (V1), also first / last
	{"\u00a0", "\u00a0"}, {"\u3000", "\u3000"}, {"\u2003", "\u2003"}, {"\ufeff", "\ufeff"}, {`\u00a0`, "\u00a0"}, {`\u000b`, "\v"}, {`\u0085`, "\u0085"}, {`\u2009`, "\u2009"}, {`\u0020`, " "}}

// Strings whose CONTENT looks like another JSON kind (or like nothing): a quoted token is a string whatever it holds.
var lookalikes = []Str{{`"a.b"`, "a.b"}, {`"1.5"`, "1.5"}, {`"1"`, "1"}, {`"-0"`, "-0"}, {`"1e5"`, "1e5"}, {`"true"`, "true"}, {`"false"`, "false"},
	{`"null"`, "null"}, {`"{"`, "{"}, {`"["`, "["}, {`""`, ""}, {`" "`, " "}, {`"."`, "."}, {`"e"`, "e"}, {`"v1.2"`, "v1.2"}, {`"0.0"`, "0.0"},
	{`"\u0031.5"`, "1.5"}, {`"a\u002Eb"`, "a.b"}, {`"tru\u0065"`, "true"}, {`"\u006eull"`, "null"}, {`"1\u002e"`, "1."}, {`"\u002E5"`, ".5"},
	{`"{}"`, "{}"}, {`"[1]"`, "[1]"}, {`"1E+2"`, "1E+2"}, {`"@t"`, "@t"}}

func isLookalike(dec string) bool {
	for _, l := range lookalikes {
		if l.Dec == dec {
			return true
		}
	}
	return strings.Contains(dec, ".")
}

func (g *gen) str(min int) Str {
	if min == 0 && g.r.Intn(4) == 0 {
		g.stat("lookalike_string")
		return lookalikes[g.r.Intn(len(lookalikes))]
	}
	n := min + g.r.Intn(4)
	var s, d strings.Builder
	s.WriteByte('"')
	for i := 0; i < n; i++ {
		p := strParts[g.r.Intn(len(strParts))]
		s.WriteString(p.Src)
		d.WriteString(p.Dec)
	}
	s.WriteByte('"')
	return Str{s.String(), d.String()}
}

// numbers are held in hundredths
func fmt100(v int, decimals int) string {
	neg := v < 0
	if neg {
		v = -v
	}
	s := strconv.Itoa(v / 100)
	switch decimals {
	case 1:
		s += "." + strconv.Itoa(v/10%10)
	case 2:
		s += "." + strconv.Itoa(v/10%10) + strconv.Itoa(v%10)
	case 3:
		s += "." + strconv.Itoa(v/10%10) + strconv.Itoa(v%10) + "0"
	}
	if neg {
		s = "-" + s
	}
	return s
}

// numText prints v (hundredths) with a random admissible number of decimals.
func (g *gen) numText(v int) string {
	min := 0
	if v%100 != 0 {
		min = 1
		if v%10 != 0 {
			min = 2
		}
	}
	return fmt100(v, min+g.r.Intn(4-min))
}

func (g *gen) scalar(kind string) (Lit, int) {
	r := g.r
	switch kind {
	case "i":
		v := []int{0, 1, 7, 12, -3, 250, 99999, -1}[r.Intn(8)]
		s := strconv.Itoa(v)
		return Lit{Kind: "i", Raw: s, Dec: s}, v * 100
	case "f":
		v := []int{150, -225, 50, 1000, 314, 5, -10, 123450}[r.Intn(8)]
		min := 1
		if v%10 != 0 {
			min = 2
		}
		s := fmt100(v, min+r.Intn(4-min))
		return Lit{Kind: "f", Raw: s, Dec: s}, v
	case "s":
		s := g.str(0)
		return Lit{Kind: "s", Raw: s.Src, Dec: s.Dec}, 0
	case "b":
		s := []string{"true", "false"}[r.Intn(2)]
		return Lit{Kind: "b", Raw: s, Dec: s}, 0
	}
	return Lit{Kind: "n", Raw: "null", Dec: "null"}, 0
}

func blit(b bool) Lit {
	s := strconv.FormatBool(b)
	return Lit{Kind: "b", Raw: s, Dec: s}
}
func slit(s string) Lit { return Lit{Kind: "s", Raw: strconv.Quote(s), Dec: s} }
func nlit(s string) Lit { return Lit{Kind: "i", Raw: s, Dec: s} }
func lr(name string, v Lit) *Rule {
	return &Rule{Name: name, Form: "lit", Val: v}
}

// textWords: the pool every free text of an annotation is drawn from — node notes (inline and multi-line) and
// enum item comments. It holds every character that means something to one of the scanners somewhere: `#` `##`
// `###` (user comments), `//` `/*` `*/` (annotation brackets), `-` (note separator), `@` `|` (shortcuts), quotes,
// backslash, braces / brackets / comma / colon (rule objects and lists), non-ASCII. Inside a text they are
// ordinary characters, with the exceptions listed at V11a / V8b in c16.go.
var textWords = []string{"note", "the", "id", "of", "a", "user", "-", "--", "x1", "(opt)", "é", "a,b", "k: v", "[1]", "{x}", "@t", "|", "/", "//",
	"\"q\"", "'", "!", "*", "{", "}", "100%", "a.b", "<b>",
	"#", "##", "###", "#12", "a#b", "c#", "ü#", "# w", "/*", "*/", "/* z */", "// y", "- x", "@", "@t|@u", "@t | @u", "[", "]", ",", ":", "\"", "\\", "\\n",
	"日本", "😀", "{enum:", "[1,", "1", "true", "null", "{}", "[]", "\"a\": 1"}

// edgeSpaces / edgePunct (V11b): a note (and an enum item comment) is arbitrary text, so its FIRST and LAST characters
// are drawn also from white space that is not an ASCII blank — no-break / ideographic / en / em / thin / hair space,
// NEL, BOM, zero-width space, line / paragraph separator, vertical tab, form feed, a control character, the Latin-1
// bytes of NBSP and NEL standing alone — and from punctuation. The scanners delimit a text by ASCII blanks only.
var edgeSpaces = []string{"\u00a0", "\u3000", "\u2000", "\u2002", "\u2003", "\u2009", "\u200a", "\u0085", "\ufeff", "\v", "\f",
	"\u2028", "\u2029", "\u1680", "\u202f", "\u205f", "\u200b", "\xa0", "\x85", "\x1f"}
var edgePunct = []string{".", ",", ";", ":", "!", "?", "-", "–", "—", "…", "(", ")", "*", "'", "\"", "`", "~", "_", "=", "+", "<", ">", "/", "\\",
	"|", "&", "%", "$", "@", "[", "]", "{", "}", "«", "»", "。", "、", "·"}

func (g *gen) edge() string {
	if g.r.Intn(3) != 0 {
		g.stat("text_edge_nonascii_space")
		return edgeSpaces[g.r.Intn(len(edgeSpaces))]
	}
	g.stat("text_edge_punctuation")
	return edgePunct[g.r.Intn(len(edgePunct))]
}

// text: 1..4 pool words. sepNL > 0: each gap between two words is a line break (+ indentation) with probability
// 1/sepNL, a blank otherwise (multi-line notes only; the printer turns "\n" into its own line end). One text in
// three starts, one in three ends with an edge character (directly attached, or as a word of its own next to an
// ASCII blank); a gap may be a non-ASCII space as well.
func (g *gen) text(sepNL int) string {
	n := 1 + g.r.Intn(4)
	var sb strings.Builder
	if g.r.Intn(3) == 0 {
		sb.WriteString(g.edge() + []string{"", "", " ", "\t"}[g.r.Intn(4)])
	}
	for i := 0; i < n; i++ {
		if i > 0 {
			if sepNL > 0 && g.r.Intn(sepNL) == 0 {
				sb.WriteString("\n" + []string{"", " ", "  ", "\t"}[g.r.Intn(4)])
			} else {
				sb.WriteString([]string{" ", " ", "  ", "\t", " ", " ", "  ", "\t", "\u00a0", "\u3000 "}[g.r.Intn(10)])
			}
		}
		sb.WriteString(textWords[g.r.Intn(len(textWords))])
	}
	if g.r.Intn(3) == 0 {
		sb.WriteString([]string{"", "", " ", "\t"}[g.r.Intn(4)] + g.edge())
	}
	return sb.String()
}

func (g *gen) note(multi bool) string {
	if multi {
		return g.text(3)
	}
	return g.text(0)
}

// itemComment: text of a `// …` comment after an enum item. It may not start with `{` (the scanner would read a
// rule object) and carries no trailing blanks (V8a).
func (g *gen) itemComment() string {
	s := g.text(0)
	if strings.HasPrefix(s, "{") {
		s = "c " + s
	}
	return s
}

// cutAtHash: V11a — in an INLINE annotation `#` starts a user comment, the note is what precedes it (trimmed).
func cutAtHash(s string) string {
	if i := strings.IndexByte(s, '#'); i >= 0 {
		s = s[:i]
	}
	return trimBlanks(s)
}

// trimBlanks: V11 — the only characters that do not belong to a note at its two ends are the ASCII blanks the
// scanner skips when it delimits the text: space, tab and the line-break bytes CR, LF. Any other white space
// (U+00A0, U+3000, U+2000–U+200A, U+0085, U+FEFF, \v, \f …) and every punctuation character is note text
// (calibrated on the unchanged tree: `1 // {min: 0} -\u00a0x\u3000 ` has the note "\u00a0x\u3000").
func trimBlanks(s string) string { return strings.Trim(s, " \t\r\n") }

// common rules that fit almost every mode
func (g *gen) common(rs []*Rule, inObj bool, allowConst bool) []*Rule {
	r := g.r
	if inObj && r.Intn(3) == 0 {
		rs = append(rs, lr("optional", blit(r.Intn(3) != 0)))
	}
	if r.Intn(4) == 0 {
		rs = append(rs, lr("nullable", blit(r.Intn(3) != 0)))
	}
	if allowConst && r.Intn(6) == 0 {
		rs = append(rs, lr("const", blit(r.Intn(2) == 0)))
	}
	return rs
}

func (g *gen) shuffle(rs []*Rule) []*Rule {
	g.r.Shuffle(len(rs), func(i, j int) { rs[i], rs[j] = rs[j], rs[i] })
	return rs
}

// enumItems: a list of 1..5 distinct scalars containing `must` at a random place.
func (g *gen) enumItems(must Lit, comments bool) []Lit {
	n := g.r.Intn(5)
	items := []Lit{must}
	keyOf := func(l Lit) string {
		if l.Kind == "i" || l.Kind == "f" {
			f, _ := strconv.ParseFloat(l.Dec, 64)
			return fmt.Sprintf("N%v", f)
		}
		return l.Kind + l.Dec
	}
	seen := map[string]bool{keyOf(must): true}
	for i := 0; i < n; i++ {
		k := []string{"i", "f", "s", "b", "n"}[g.r.Intn(5)]
		l, _ := g.scalar(k)
		if seen[keyOf(l)] {
			continue
		}
		seen[keyOf(l)] = true
		items = append(items, l)
	}
	g.r.Shuffle(len(items), func(i, j int) { items[i], items[j] = items[j], items[i] })
	if comments {
		for i := range items {
			if g.r.Intn(2) == 0 {
				items[i].Comment = g.itemComment()
				g.stat("enum_item_comment")
				if strings.Contains(items[i].Comment, "#") {
					g.stat("enum_item_comment_hash")
				}
				if i < len(items)-1 && g.r.Intn(6) == 0 {
					items[i].Earlier = g.itemComment()
					g.stat("enum_item_two_comments")
				}
			}
		}
	}
	return items
}

func (g *gen) enumRule(must Lit, allowComments bool) *Rule {
	if g.r.Intn(3) == 0 {
		// named rule; its text is a plain list (the named rule has its own property, C18)
		items := g.enumItems(must, false)
		var parts []string
		for _, it := range items {
			parts = append(parts, it.Raw)
		}
		name := fmt.Sprintf("@E%d", len(g.enums)+1)
		g.enums = append(g.enums, [2]string{name, "[" + strings.Join(parts, ", ") + "]"})
		exp := XNode{Tok: "array", Type: "enum"}
		for _, it := range items {
			exp.Children = append(exp.Children, XNode{Tok: litTok(it.Kind), Type: kindName[it.Kind], Value: it.Raw})
		}
		if g.enumAST == nil {
			g.enumAST = map[string]XNode{}
		}
		g.enumAST[name] = exp
		g.stat("rule_enum_named")
		return &Rule{Name: "enum", Form: "enumName", Ref: name}
	}
	g.stat("rule_enum_inline")
	x := &Rule{Name: "enum", Form: "enumList", Items: g.enumItems(must, allowComments)}
	if allowComments && g.r.Intn(6) == 0 {
		x.Lead = g.itemComment()
		g.stat("enum_comment_before_first_item")
	}
	// layout classes of the list (which items carry a comment): the k-th comment belongs to the item it follows,
	// not to the k-th item — visible exactly when an item without a comment precedes one with a comment
	nc, gap := 0, false
	for i, it := range x.Items {
		if it.Comment != "" {
			nc++
			if nc <= i {
				gap = true
			}
		}
	}
	switch {
	case nc == 0:
		g.stat("enum_list_no_comments")
	case nc == len(x.Items):
		g.stat("enum_list_every_item_commented")
	case gap:
		g.stat("enum_list_comment_after_uncommented_item")
	default:
		g.stat("enum_list_only_first_items_commented")
	}
	return x
}

// numeric bound rules around value v (hundredths); intOnly: bounds printed without fraction must stay exact
func (g *gen) boundRules(v int) []*Rule {
	r := g.r
	var rs []*Rule
	if r.Intn(2) == 0 {
		excl := r.Intn(3) == 0
		d := []int{0, 1, 50, 100, 250, 1000}[r.Intn(6)]
		if excl && d == 0 {
			d = 25
		}
		rs = append(rs, lr("min", Lit{Kind: "f", Raw: g.numText(v - d)}))
		if excl || r.Intn(5) == 0 {
			rs = append(rs, lr("exclusiveMinimum", blit(excl)))
		}
	}
	if r.Intn(2) == 0 {
		excl := r.Intn(3) == 0
		d := []int{0, 1, 50, 100, 250, 1000}[r.Intn(6)]
		if excl && d == 0 {
			d = 25
		}
		rs = append(rs, lr("max", Lit{Kind: "f", Raw: g.numText(v + d)}))
		if excl || r.Intn(5) == 0 {
			rs = append(rs, lr("exclusiveMaximum", blit(excl)))
		}
	}
	for _, x := range rs {
		x.Val.Dec = x.Val.Raw
	}
	return rs
}

var regexFor = [][3]string{ // example source, example decoded, pattern decoded
	{`"abc"`, "abc", "^[a-c]+$"}, {`"a.b"`, "a.b", `a\.b`}, {`"x/y"`, "x/y", "x/y"}, {`"q\"q"`, `q"q`, `q"+q`},
	{`"é1"`, "é1", `é\d`}, {`"A-9"`, "A-9", `[A-Z]-[0-9]{1}`}, {`""`, "", `^$`}, {`"a\\b"`, `a\b`, `a\\b`},
}

var formatExamples = map[string][]string{
	"email":    {`"a@b.cc"`, `"john.doe@example.com"`},
	"uri":      {`"http://example.com/a?b=1"`, `"https://x.org"`},
	"uuid":     {`"550e8400-e29b-41d4-a716-446655440000"`},
	"date":     {`"2021-01-31"`},
	"datetime": {`"2021-01-02T07:23:12+03:00"`},
}

// orRule builds an `or` rule one of whose alternatives accepts the example (kind k, value v hundredths, len runes).
func (g *gen) orRule(n *Node, v int) *Rule {
	r := g.r
	k := n.Kind
	var alts []Alt
	used := map[string]bool{}
	add := func(a Alt, key string) {
		if used[key] {
			return
		}
		used[key] = true
		alts = append(alts, a)
	}
	// the matching alternative
	switch r.Intn(4) {
	case 0:
		if ut, ok := typeOfKind[k]; ok {
			if r.Intn(2) == 0 {
				add(Alt{Name: ut}, ut)
			} else {
				add(Alt{Rules: []*Rule{lr("type", slit(ut))}}, ut)
			}
			break
		}
		fallthrough
	case 1:
		add(Alt{Name: kindName[k]}, kindName[k])
	case 2:
		rs := []*Rule{lr("type", slit(kindName[k]))}
		switch k {
		case "i", "f":
			rs = append(rs, g.boundRules(v)...)
		case "s":
			ln := len([]rune(n.Val.Dec))
			if r.Intn(2) == 0 {
				rs = append(rs, lr("minLength", nlit(strconv.Itoa(r.Intn(ln+1)))))
			}
			if r.Intn(2) == 0 {
				rs = append(rs, lr("maxLength", nlit(strconv.Itoa(len(n.Val.Dec)+r.Intn(3)))))
			}
		}
		add(Alt{Rules: g.shuffle(rs)}, "set-"+kindName[k])
	case 3:
		if k == "obj" || k == "arr" {
			add(Alt{Name: kindName[k]}, kindName[k])
		} else {
			add(Alt{Rules: []*Rule{g.enumRule(n.Val, true)}}, "set-enum")
		}
	}
	// other alternatives
	want := 1 + r.Intn(3)
	for tries := 0; len(alts) < 1+want && tries < 20; tries++ {
		switch r.Intn(6) {
		case 0, 1:
			t := []string{"string", "integer", "float", "boolean", "null", "object", "array", "email", "uri", "uuid", "date", "datetime"}[r.Intn(12)]
			add(Alt{Name: t}, t)
		case 2:
			if k == "obj" || k == "arr" {
				continue // no user types next to a container example
			}
			t := userTypes[r.Intn(8)][0]
			if r.Intn(2) == 0 {
				add(Alt{Name: t}, t)
			} else {
				add(Alt{Rules: []*Rule{lr("type", slit(t))}}, t)
			}
		case 3:
			rs := []*Rule{lr("type", slit("integer"))}
			rs = append(rs, g.boundRules(100*r.Intn(5))...)
			add(Alt{Rules: g.shuffle(rs)}, "set-integer")
		case 4:
			rs := []*Rule{lr("type", slit("string"))}
			if r.Intn(2) == 0 {
				rs = append(rs, lr("minLength", nlit(strconv.Itoa(r.Intn(3)))))
			}
			if r.Intn(2) == 0 {
				rs = append(rs, lr("maxLength", nlit(strconv.Itoa(3+r.Intn(30)))))
			}
			if r.Intn(3) == 0 {
				rs = append(rs, lr("regex", slit(regexFor[r.Intn(len(regexFor))][2])))
			}
			add(Alt{Rules: g.shuffle(rs)}, "set-string")
		case 5:
			l, _ := g.scalar([]string{"i", "s", "b"}[r.Intn(3)])
			add(Alt{Rules: []*Rule{g.enumRule(l, true)}}, "set-enum")
		}
	}
	if len(alts) < 2 {
		add(Alt{Name: "uuid"}, "uuid")
	}
	// An alternative may be written more than once, in the same or in the other spelling of the same type
	// ("@t" / {type: "@t"}, "integer" / {type: "integer"}); a rule-set is repeated verbatim. The AST lists the
	// items exactly as written, so every occurrence must come back, in place.
	if r.Intn(3) == 0 {
		for k := 1 + r.Intn(2); k > 0; k-- {
			a := alts[r.Intn(len(alts))]
			switch {
			case a.Rules == nil && r.Intn(2) == 0:
				a = Alt{Rules: []*Rule{lr("type", slit(a.Name))}}
				g.stat("or_repeat_respelled")
			case len(a.Rules) == 1 && a.Rules[0].Name == "type" && r.Intn(2) == 0:
				a = Alt{Name: a.Rules[0].Val.Dec}
				g.stat("or_repeat_respelled")
			default:
				g.stat("or_repeat_verbatim")
			}
			alts = append(alts, a)
		}
		g.stat("rule_or_with_repeat")
	}
	r.Shuffle(len(alts), func(i, j int) { alts[i], alts[j] = alts[j], alts[i] })
	g.stat("rule_or")
	return &Rule{Name: "or", Form: "or", Alts: alts}
}

// plainTypes: the schema type names that need no companion rule.
var plainTypes = []string{"string", "integer", "float", "boolean", "null", "object", "array", "any", "email", "uri", "uuid", "date", "datetime"}

// plainOr: a manual `or` whose 2..4 alternatives are bare plain type names (one may be written twice, V15).
func (g *gen) plainOr() *Rule {
	var alts []Alt
	for i := 2 + g.r.Intn(3); i > 0; i-- {
		alts = append(alts, Alt{Name: plainTypes[g.r.Intn(len(plainTypes))]})
	}
	g.stat("rule_or")
	return &Rule{Name: "or", Form: "or", Alts: alts}
}

// scalarNode generates a literal with a coherent rule set.
func (g *gen) scalarNode(inObj bool) *Node {
	r := g.r
	k := []string{"i", "i", "f", "f", "s", "s", "s", "b", "n"}[r.Intn(9)]
	n := &Node{Kind: k}
	var v int
	n.Val, v = g.scalar(k)
	mode := r.Intn(12)
	var rs []*Rule
	switch {
	case mode == 0: // enum
		g.stat("mode_enum")
		rs = append(rs, g.enumRule(n.Val, true))
		if r.Intn(3) == 0 {
			rs = append(rs, lr("type", slit("enum")))
		}
		rs = g.common(rs, inObj, true)
	case mode == 1: // or
		g.stat("mode_or")
		rs = append(rs, g.orRule(n, v))
		if r.Intn(3) == 0 {
			rs = append(rs, lr("type", slit("mixed")))
		}
		rs = g.common(rs, inObj, false)
	case mode == 2: // any
		g.stat("mode_any")
		rs = append(rs, lr("type", slit("any")))
		rs = g.common(rs, inObj, false)
	case mode == 3 && k != "n": // reference through the type rule
		g.stat("mode_typeref")
		rs = append(rs, lr("type", slit(typeOfKind[k])))
		rs = g.common(rs, inObj, false)
	case mode <= 5:
		g.stat("mode_bare")
		if r.Intn(2) == 0 {
			rs = g.common(rs, inObj, true)
		}
	default:
		g.stat("mode_rules")
		switch k {
		case "i":
			rs = append(rs, g.boundRules(v)...)
			if r.Intn(3) == 0 {
				rs = append(rs, lr("type", slit("integer")))
			}
		case "f":
			rs = append(rs, g.boundRules(v)...)
			switch r.Intn(4) {
			case 0:
				rs = append(rs, lr("type", slit("float")))
			case 1, 2:
				dec := 0
				if i := strings.IndexByte(n.Val.Raw, '.'); i >= 0 {
					dec = len(n.Val.Raw) - i - 1
				}
				rs = append(rs, lr("precision", nlit(strconv.Itoa(dec+r.Intn(3)))))
				g.stat("rule_precision")
				if r.Intn(2) == 0 {
					rs = append(rs, lr("type", slit("decimal")))
				}
			}
		case "s":
			switch r.Intn(5) {
			case 0: // format type
				t := []string{"email", "uri", "uuid", "date", "datetime"}[r.Intn(5)]
				ex := formatExamples[t][r.Intn(len(formatExamples[t]))]
				n.Val = Lit{Kind: "s", Raw: ex, Dec: ex[1 : len(ex)-1]}
				rs = append(rs, lr("type", slit(t)))
				g.stat("rule_type_format")
			case 1: // regex
				e := regexFor[r.Intn(len(regexFor))]
				n.Val = Lit{Kind: "s", Raw: e[0], Dec: e[1]}
				rs = append(rs, lr("regex", slit(e[2])))
				fallthrough
			default:
				ln := len([]rune(n.Val.Dec))
				if r.Intn(2) == 0 {
					rs = append(rs, lr("minLength", nlit(strconv.Itoa(r.Intn(ln+1)))))
				}
				if r.Intn(2) == 0 {
					rs = append(rs, lr("maxLength", nlit(strconv.Itoa(len(n.Val.Dec)+r.Intn(3)))))
				}
				if r.Intn(3) == 0 {
					rs = append(rs, lr("type", slit("string")))
				}
			}
		case "b":
			if r.Intn(2) == 0 {
				rs = append(rs, lr("type", slit("boolean")))
			}
		case "n":
			if r.Intn(2) == 0 {
				rs = append(rs, lr("type", slit("null")))
			}
		}
		rs = g.common(rs, inObj, true)
	}
	n.Rules = g.shuffle(rs)
	return n
}

var plainKeys = []Str{{`"a"`, "a"}, {`"b"`, "b"}, {`"c"`, "c"}, {`"d"`, "d"}, {`"id"`, "id"}, {`"key one"`, "key one"}, {`"é"`, "é"},
	{`"k\"q"`, `k"q`}, {`"n\n"`, "n\n"}, {`"A"`, "A"}, {`"@x"`, "@x"}, {`"a/b"`, "a/b"}, {`"\\"`, `\`}, {`"0"`, "0"}, {`"type"`, "type"}, {`"😀"`, "😀"},
	{"\"\u00a0k\u3000\"", "\u00a0k\u3000"}, {`"\u00a0e\u000b"`, "\u00a0e\v"}, {`" s "`, " s "}}

var apValues = []Lit{blit(true), blit(false), slit("any"), slit("string"), slit("integer"), slit("float"), slit("boolean"), slit("null"),
	slit("object"), slit("array"), slit("email"), slit("uri"), slit("uuid"), slit("date"), slit("datetime"), slit("@ti"), slit("@to"), slit("@ts"), slit("@ta")}

func (g *gen) node(depth int, inObj bool) *Node {
	r := g.r
	k := r.Intn(10)
	if depth <= 0 && k >= 6 && k <= 8 {
		k = 0
	}
	var n *Node
	switch {
	case k <= 5:
		n = g.scalarNode(inObj)
	case k == 6: // array
		g.stat("node_array")
		n = &Node{Kind: "arr"}
		for i := r.Intn(4); i > 0; i-- {
			n.Items = append(n.Items, g.node(depth-1, false))
		}
		var rs []*Rule
		cnt := len(n.Items)
		if cnt == 0 && r.Intn(4) == 0 {
			if r.Intn(2) == 0 {
				rs = append(rs, lr("type", slit("any")))
			} else {
				rs = append(rs, g.orRule(n, 0))
			}
			rs = g.common(rs, inObj, false)
		} else {
			if r.Intn(3) == 0 {
				m := 0
				if cnt > 0 {
					m = r.Intn(cnt + 1)
				}
				rs = append(rs, lr("minItems", nlit(strconv.Itoa(m))))
			}
			if r.Intn(3) == 0 {
				m := 0
				if cnt > 0 {
					m = cnt + r.Intn(3)
				}
				rs = append(rs, lr("maxItems", nlit(strconv.Itoa(m))))
			}
			if r.Intn(4) == 0 {
				rs = append(rs, lr("type", slit("array")))
			}
			rs = g.common(rs, inObj, false)
		}
		n.Rules = g.shuffle(rs)
		n.EmptyOpen = cnt == 0 && r.Intn(3) == 0
	case k <= 8: // object
		g.stat("node_object")
		n = &Node{Kind: "obj"}
		cnt := r.Intn(5)
		perm := r.Perm(len(plainKeys))
		sc := -1
		if cnt > 0 && r.Intn(3) == 0 {
			sc = r.Intn(cnt)
		}
		for i := 0; i < cnt; i++ {
			p := &Prop{Key: plainKeys[perm[i]], Val: g.node(depth-1, true)}
			if i == sc {
				nm := []string{"@k", "@k2"}[r.Intn(2)]
				p.Key, p.Short = Str{nm, nm}, true
				g.stat("key_shortcut")
			}
			n.Props = append(n.Props, p)
		}
		var rs []*Rule
		if cnt == 0 && r.Intn(5) == 0 {
			if r.Intn(2) == 0 {
				rs = append(rs, lr("type", slit("any")))
			} else {
				rs = append(rs, g.orRule(n, 0))
			}
			rs = g.common(rs, inObj, false)
		} else {
			if r.Intn(3) == 0 {
				rs = append(rs, lr("additionalProperties", apValues[r.Intn(len(apValues))]))
				g.stat("rule_additionalProperties")
			}
			if r.Intn(4) == 0 {
				g.stat("rule_allOf")
				switch r.Intn(4) {
				case 0:
					rs = append(rs, &Rule{Name: "allOf", Form: "allOfStr", Names: []string{[]string{"@to", "@to2"}[r.Intn(2)]}})
				case 1:
					rs = append(rs, &Rule{Name: "allOf", Form: "allOfList", Names: []string{[]string{"@to", "@to2"}[r.Intn(2)]}})
				case 2:
					rs = append(rs, &Rule{Name: "allOf", Form: "allOfList", Names: []string{"@to", "@to2"}})
				case 3:
					rs = append(rs, &Rule{Name: "allOf", Form: "allOfList", Names: []string{"@to2", "@to"}})
				}
			}
			if r.Intn(4) == 0 {
				rs = append(rs, lr("type", slit("object")))
			}
			rs = g.common(rs, inObj, false)
		}
		n.Rules = g.shuffle(rs)
		n.EmptyOpen = cnt == 0 && r.Intn(3) == 0
	default: // reference shortcut
		g.stat("node_ref")
		n = &Node{Kind: "ref"}
		perm := r.Perm(8)
		cnt := 1
		if r.Intn(2) == 0 {
			cnt = 2 + r.Intn(2)
		}
		for i := 0; i < cnt; i++ {
			n.Names = append(n.Names, userTypes[perm[i]][0])
		}
		// a name may be written more than once (`@a | @b | @a`, `@a | @a`): drawn with replacement from few names
		if r.Intn(4) == 0 {
			cnt = 2 + r.Intn(3)
			pool := 1 + r.Intn(2)
			n.Names = n.Names[:0]
			seen, rep := map[string]bool{}, false
			for i := 0; i < cnt; i++ {
				nm := userTypes[perm[r.Intn(pool)]][0]
				rep = rep || seen[nm]
				seen[nm] = true
				n.Names = append(n.Names, nm)
			}
			if rep {
				g.stat("ref_with_repeat")
			}
		}
		n.Sep = []string{" | ", "|", "  |  ", " |", "| ", "\t|\t"}[r.Intn(6)]
		// Hand-written rules next to a shortcut (V16). What the unchanged tree admits there: `optional`, `nullable`
		// on both forms; on `@t` a manual `or` over PLAIN type names (a user type name → 1108, a rule-set → 1102,
		// "mixed" / "enum" / "decimal" → 1114 / 1113 / 1112), alone or with a manual `type: "mixed"` (which alone is
		// 1114); on `@t | @u` a manual `type: "mixed"` (a manual `or` there is a duplicate, 501).
		var rs []*Rule
		switch {
		case len(n.Names) == 1 && r.Intn(3) == 0:
			rs = append(rs, g.plainOr())
			g.stat("ref_single_with_manual_or")
			if r.Intn(3) == 0 {
				rs = append(rs, lr("type", slit("mixed")))
				g.stat("ref_single_with_manual_or_and_type_mixed")
			}
		case len(n.Names) > 1 && r.Intn(3) == 0:
			rs = append(rs, lr("type", slit("mixed")))
			g.stat("ref_or_shortcut_with_manual_type_mixed")
		}
		n.Rules = g.shuffle(g.common(rs, inObj, false))
	}
	if r.Intn(4) == 0 {
		n.Note = "?" // replaced by the printer's choice of inline / multi-line text
	}
	return n
}

// ---------------------------------------------------------------------------------------------------
// Printer
// ---------------------------------------------------------------------------------------------------

type printer struct {
	r  *rand.Rand
	nl string
	sb strings.Builder
}

func (p *printer) sp() string { return []string{"", "", " ", " ", "  ", "\t"}[p.r.Intn(6)] }

func (p *printer) brk(multi bool) string { // blank between tokens of an annotation
	if multi && p.r.Intn(4) == 0 {
		return p.nl + p.sp()
	}
	return p.sp()
}

// ruleName: bare or quoted; a bare name may be followed by spaces but not by a tab (scanner rule), so the
// blank after the name is chosen here.
func (p *printer) ruleName(s string, inSet bool) string {
	if p.r.Intn(3) == 0 {
		return `"` + s + `"` + p.sp()
	}
	return s + []string{"", "", " ", "  "}[p.r.Intn(4)]
}

func (p *printer) ruleValue(x *Rule, multi bool) string {
	switch x.Form {
	case "lit":
		return x.Val.Raw
	case "enumName":
		return x.Ref
	case "enumList":
		var sb strings.Builder
		// blank: in a multi-line annotation one line break in four is followed by one or two blank lines
		blank := func() string {
			if multi && p.r.Intn(4) == 0 {
				return p.sp() + p.nl + []string{"", p.sp() + p.nl}[p.r.Intn(2)] + p.sp()
			}
			return ""
		}
		sb.WriteString("[" + p.brk(multi))
		if x.Lead != "" {
			sb.WriteString("//" + p.sp() + x.Lead + p.nl + p.sp() + blank())
		}
		for i, it := range x.Items {
			sb.WriteString(it.Raw + p.sp())
			last := i == len(x.Items)-1
			if it.Comment == "" {
				if !last {
					sb.WriteString("," + p.sp())
				}
				if b := p.brk(multi); b != "" && strings.HasPrefix(b, p.nl) {
					sb.WriteString(b + blank())
				} else {
					sb.WriteString(b)
				}
				continue
			}
			// the comment follows its item: after the comma, before the comma (which then opens the next line), or
			// on a line of its own; it ends with the line
			cm := "//" + p.sp() + it.Comment + p.nl + p.sp() + blank()
			switch {
			case it.Earlier != "": // two comments after one item: before and after its comma (never last)
				sb.WriteString([]string{"", p.nl + p.sp()}[p.r.Intn(2)] + "//" + p.sp() + it.Earlier + p.nl + p.sp() + blank() + "," + p.sp() + cm)
			case !last && p.r.Intn(4) == 0:
				sb.WriteString(cm + "," + p.brk(multi))
			case p.r.Intn(5) == 0:
				if !last {
					sb.WriteString(",")
				}
				sb.WriteString(p.sp() + p.nl + p.sp() + cm)
			default:
				if !last {
					sb.WriteString("," + p.sp())
				}
				sb.WriteString(cm)
			}
		}
		sb.WriteString("]")
		return sb.String()
	case "allOfStr":
		return strconv.Quote(x.Names[0])
	case "allOfList":
		var parts []string
		for _, n := range x.Names {
			parts = append(parts, p.brk(multi)+strconv.Quote(n)+p.sp())
		}
		return "[" + strings.Join(parts, ",") + "]"
	case "or":
		var parts []string
		for _, a := range x.Alts {
			if a.Rules == nil {
				parts = append(parts, p.brk(multi)+strconv.Quote(a.Name)+p.sp())
			} else {
				parts = append(parts, p.brk(multi)+p.ruleSet(a.Rules, multi, true)+p.sp())
			}
		}
		return "[" + strings.Join(parts, ",") + p.brk(multi) + "]"
	}
	panic("form " + x.Form)
}

func (p *printer) ruleSet(rs []*Rule, multi bool, inSet bool) string {
	var parts []string
	for _, x := range rs {
		parts = append(parts, p.brk(multi)+p.ruleName(x.Name, inSet)+":"+p.sp()+p.ruleValue(x, multi)+p.sp())
	}
	return "{" + strings.Join(parts, ",") + p.brk(multi) + "}"
}

// needsMulti: an enum item comment (a nested `// …`) anywhere in the rules, also inside a rule-set of an `or`
// rule, is only possible in a multi-line annotation.
func needsMulti(rs []*Rule) bool {
	for _, x := range rs {
		for _, it := range x.Items {
			if it.Comment != "" {
				return true
			}
		}
		if x.Lead != "" {
			return true
		}
		for _, a := range x.Alts {
			if needsMulti(a.Rules) {
				return true
			}
		}
	}
	return false
}

// annotation returns the annotation text of the node (may be empty) and fixes n.Note.
func (p *printer) annotation(n *Node, g *gen) string {
	if len(n.Rules) == 0 && n.Note == "" {
		return ""
	}
	multi := needsMulti(n.Rules) || p.r.Intn(3) == 0
	src := "" // the note as printed; n.Note becomes the note the AST must carry
	if n.Note != "" {
		src = g.note(multi)
		if len(n.Rules) == 0 && strings.HasPrefix(src, "{") {
			src = "n" + src // without a rule object the text may not start with `{`
		}
		if multi {
			// `*/` cannot be written inside a /* */ text; everything else, `#` included, is ordinary text (V11)
			src = strings.ReplaceAll(strings.ReplaceAll(src, "*/", "* /"), "\n", p.nl)
			n.Note = trimBlanks(src)
			if strings.Contains(src, "#") {
				g.stat("note_multiline_with_hash")
			}
		} else {
			n.Note = cutAtHash(src) // V11a
			if n.Note != src {
				g.stat("note_inline_cut_by_user_comment")
			}
		}
	}
	var body string
	if len(n.Rules) > 0 {
		body = p.ruleSet(n.Rules, multi, false)
		if src != "" {
			body += p.sp() + "-" + p.sp() + src
		}
	} else {
		body = src
	}
	if multi {
		g.stat("annotation_multiline")
		return p.sp() + "/*" + p.brk(true) + body + p.brk(true) + "*/"
	}
	g.stat("annotation_inline")
	return p.sp() + "//" + p.sp() + body + p.sp()
}

// value prints node n. `lead` is the text before the value on its first line (indent + key), `comma` follows the
// value (before the annotation for one-line nodes, after the closing bracket for containers).
func (p *printer) value(n *Node, g *gen, indent, lead, comma string) {
	w := func(s string) { p.sb.WriteString(s) }
	ann := p.annotation(n, g)
	switch n.Kind {
	case "obj", "arr":
		open, close := "{", "}"
		if n.Kind == "arr" {
			open, close = "[", "]"
		}
		cnt := len(n.Props) + len(n.Items)
		if cnt == 0 && !n.EmptyOpen {
			w(lead + open + p.sp() + close + p.sp() + comma + ann + p.nl)
			return
		}
		w(lead + open + ann + p.nl)
		ind := indent + []string{" ", "  ", "\t", ""}[p.r.Intn(4)]
		for i, it := range n.Items {
			c := ","
			if i == len(n.Items)-1 {
				c = ""
			}
			p.value(it, g, ind, ind, c)
		}
		for i, pr := range n.Props {
			c := ","
			if i == len(n.Props)-1 {
				c = ""
			}
			p.value(pr.Val, g, ind, ind+pr.Key.Src+p.sp()+":"+p.sp(), c)
		}
		w(indent + close + p.sp() + comma + p.sp() + p.nl)
	case "ref":
		// any run of blanks / tabs may follow the name, also when the node carries a manual `or` (the loader used to
		// build the `or` alternatives from the untrimmed shortcut lexeme and failed on `@t  // {or: […]}`: F-36, fixed)
		w(lead + strings.Join(n.Names, n.Sep) + p.sp() + comma + ann + p.nl)
	default:
		w(lead + n.Val.Raw + p.sp() + comma + ann + p.nl)
	}
}

// ---------------------------------------------------------------------------------------------------
// Expected AST from the IR
// ---------------------------------------------------------------------------------------------------

func litTok(k string) string {
	switch k {
	case "s":
		return "string"
	case "i", "f":
		return "number"
	case "b":
		return "boolean"
	}
	return "null"
}

func expRule(x *Rule) XRule {
	const m = "manual"
	out := XRule{Name: x.Name, Src: m}
	switch x.Form {
	case "lit":
		switch x.Name {
		case "type":
			out.Tok, out.Value = "string", x.Val.Dec
			if strings.HasPrefix(x.Val.Dec, "@") {
				out.Tok = "reference"
			}
		case "additionalProperties":
			out.Tok, out.Value = litTok(x.Val.Kind), x.Val.Dec // boolean or string — a type NAME stays a string token even for "@t"
		default:
			out.Tok, out.Value = litTok(x.Val.Kind), x.Val.Dec
		}
	case "enumName":
		out.Tok, out.Value = "reference", x.Ref
	case "enumList":
		out.Tok = "array"
		for _, it := range x.Items {
			out.Items = append(out.Items, XRule{Tok: litTok(it.Kind), Value: it.Dec, Comment: it.Comment, Src: m})
		}
	case "allOfStr", "allOfList":
		if len(x.Names) == 1 {
			out.Tok, out.Value = "reference", x.Names[0]
		} else {
			out.Tok = "array"
			for _, n := range x.Names {
				out.Items = append(out.Items, XRule{Tok: "reference", Value: n, Src: m})
			}
		}
	case "or":
		out.Tok = "array"
		for _, a := range x.Alts {
			if a.Rules == nil {
				t := "string"
				if strings.HasPrefix(a.Name, "@") {
					t = "reference"
				}
				out.Items = append(out.Items, XRule{Tok: t, Value: a.Name, Src: m})
			} else {
				it := XRule{Tok: "object", Src: m}
				for _, y := range a.Rules {
					it.Props = append(it.Props, expRule(y))
				}
				out.Items = append(out.Items, it)
			}
		}
	}
	return out
}

func expNode(n *Node) XNode {
	out := XNode{Tok: tokOfKind[n.Kind], Comment: n.Note}
	var has = map[string]*Rule{}
	for _, x := range n.Rules {
		has[x.Name] = x
	}
	switch n.Kind {
	case "ref":
		out.Value = strings.Join(n.Names, n.Sep)
		if len(n.Names) == 1 && has["or"] != nil {
			// V16: a manual `or` next to `@t` widens the node to "mixed". The rule list still opens with ONE `type`
			// rule, now {string, "mixed"}: it is the author's when `type: "mixed"` is written (before or after the
			// `or`, manual), otherwise it stands for the one synthesised from the shortcut (generated). The other
			// rules follow as written, all manual; the shortcut name stays in Value only.
			out.Type = "mixed"
			src := "generated"
			if has["type"] != nil {
				src = "manual"
			}
			out.Rules = append(out.Rules, XRule{Name: "type", Tok: "string", Value: "mixed", Src: src})
			for _, x := range n.Rules {
				if x.Name != "type" {
					out.Rules = append(out.Rules, expRule(x))
				}
			}
			return out
		}
		if len(n.Names) == 1 {
			out.Type = n.Names[0]
			out.Rules = append(out.Rules, XRule{Name: "type", Tok: "reference", Value: n.Names[0], Src: "generated"})
		} else {
			out.Type = "mixed"
			or := XRule{Name: "or", Tok: "array", Src: "generated"}
			for _, nm := range n.Names {
				or.Items = append(or.Items, XRule{Tok: "string", Value: nm, Src: "generated"})
			}
			out.Rules = append(out.Rules, or)
		}
	default:
		switch {
		case has["enum"] != nil:
			out.Type = "enum"
		case has["or"] != nil:
			out.Type = "mixed"
		case has["type"] != nil:
			out.Type = has["type"].Val.Dec
		case has["precision"] != nil:
			out.Type = "decimal"
		default:
			out.Type = kindName[n.Kind]
		}
		if n.Kind != "obj" && n.Kind != "arr" {
			out.Value = n.Val.Dec
		}
	}
	for _, x := range n.Rules {
		out.Rules = append(out.Rules, expRule(x))
	}
	for _, it := range n.Items {
		out.Children = append(out.Children, expNode(it))
	}
	for _, p := range n.Props {
		c := expNode(p.Val)
		c.Key, c.Short = p.Key.Dec, p.Short
		out.Children = append(out.Children, c)
	}
	return out
}

// ---------------------------------------------------------------------------------------------------
// Structural comparison: first differing path
// ---------------------------------------------------------------------------------------------------

func diffRule(path string, a, b XRule) string {
	switch {
	case a.Name != b.Name:
		return fmt.Sprintf("%s.name: impl %q model %q", path, a.Name, b.Name)
	case a.Tok != b.Tok:
		return fmt.Sprintf("%s.TokenType: impl %q model %q", path, a.Tok, b.Tok)
	case a.Value != b.Value:
		return fmt.Sprintf("%s.Value: impl %q model %q", path, a.Value, b.Value)
	case a.Comment != b.Comment:
		return fmt.Sprintf("%s.Comment: impl %q model %q", path, a.Comment, b.Comment)
	case a.Src != b.Src:
		return fmt.Sprintf("%s.Source: impl %s model %s", path, a.Src, b.Src)
	}
	if d := diffRules(path+".Properties", a.Props, b.Props); d != "" {
		return d
	}
	return diffRules(path+".Items", a.Items, b.Items)
}

func ruleNames(rs []XRule) string {
	var s []string
	for _, r := range rs {
		if r.Name != "" {
			s = append(s, r.Name)
		} else {
			s = append(s, r.Tok+":"+r.Value)
		}
	}
	return "[" + strings.Join(s, " ") + "]"
}

func diffRules(path string, a, b []XRule) string {
	if len(a) != len(b) {
		return fmt.Sprintf("%s: impl %d entries %s, model %d entries %s", path, len(a), ruleNames(a), len(b), ruleNames(b))
	}
	for i := range a {
		nm := a[i].Name
		if nm == "" {
			nm = strconv.Itoa(i)
		}
		if d := diffRule(path+"["+nm+"]", a[i], b[i]); d != "" {
			return d
		}
	}
	return ""
}

func diffNode(path string, a, b XNode) string {
	switch {
	case a.Key != b.Key:
		return fmt.Sprintf("%s.Key: impl %q model %q", path, a.Key, b.Key)
	case a.Short != b.Short:
		return fmt.Sprintf("%s.IsKeyShortcut: impl %v model %v", path, a.Short, b.Short)
	case a.Tok != b.Tok:
		return fmt.Sprintf("%s.TokenType: impl %q model %q", path, a.Tok, b.Tok)
	case a.Type != b.Type:
		return fmt.Sprintf("%s.SchemaType: impl %q model %q", path, a.Type, b.Type)
	case a.Value != b.Value:
		return fmt.Sprintf("%s.Value: impl %q model %q", path, a.Value, b.Value)
	case a.Comment != b.Comment:
		return fmt.Sprintf("%s.Comment: impl %q model %q", path, a.Comment, b.Comment)
	}
	if d := diffRules(path+".Rules", a.Rules, b.Rules); d != "" {
		return d
	}
	if len(a.Children) != len(b.Children) {
		return fmt.Sprintf("%s.Children: impl %d model %d", path, len(a.Children), len(b.Children))
	}
	for i := range a.Children {
		if d := diffNode(fmt.Sprintf("%s.Children[%d]", path, i), a.Children[i], b.Children[i]); d != "" {
			return d
		}
	}
	return ""
}
