package c16

import (
	"math/rand"
	"strings"
)

// GenCase: one case of the c16 generator (abstract schema → text in a random surface style, the named enum rules
// and the user types it needs) together with the generator's feature counters. Used by `c16-text`, which compares
// the real GetAST with the Lean text-level model instead of the IR-derived expectation.
func GenCase(seed int64) (Case, map[string]int) {
	g := &gen{r: rand.New(rand.NewSource(seed)), stats: map[string]int{}}
	var root *Node
	for try := 0; ; try++ {
		g.stats, g.enums, g.enumAST = map[string]int{}, nil, nil
		root = g.node(1+g.r.Intn(3), false)
		if try >= 2 || len(root.Kind) > 1 || g.r.Intn(4) == 0 {
			break
		}
	}
	p := &printer{r: g.r, nl: "\n"}
	if g.r.Intn(5) == 0 {
		p.nl = "\r\n"
		g.stat("layout_crlf")
	}
	p.sb.WriteString([]string{"", "", " ", "\n", "  "}[g.r.Intn(5)])
	p.value(root, g, "", "", "")
	txt := p.sb.String()
	if g.r.Intn(2) == 0 {
		txt = strings.TrimRight(txt, "\r\n")
	}
	c := Case{Schema: txt, Enums: g.enums, EnumAST: g.enumAST}
	c.Types = append(c.Types, userTypes...)
	return c, g.stats
}
