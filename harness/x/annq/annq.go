// Package annq: tie of the closed forms of the Lean theorems about annotations with QUOTED rule names and LIST values
// (C13_annotation_events_extended, C13_annotated_scalar_loads_extended, C13_quoted_vs_bare_rule_names) to the real
// library. The generator builds the STRUCTURE of an annotated top-level scalar `EX // {rules}` / `EX /* {rules} */`
// (blanks, names bare / quoted / quoted with \u and two-character escapes / arbitrary JSON strings, literal values, list
// values under enum / or / allOf, trailing comma, tail) and sends only the structure to the driver (`annq`), which
// answers the text and — computed from the structure, without scanning — the event list of the theorem and the rules
// (name as the loader binds it = value text). Compared: the REAL scanner's events of the text (hook VerifSchemaEvents)
// = the closed form; the rule names of the REAL GetAST, in order, = the decoded names (whenever GetAST answers a tree);
// two spellings of one annotation (every name re-quoted / re-escaped / bared, other form, other blanks): real GetAST
// equal. `S0` / `L0` in the reply (the Lean scanner / loader model disagree with the closed form) would mean that the
// generator left the grammar of the theorems: reported as a difference.
package annq

import (
	"encoding/hex"
	stderrors "errors"
	"fmt"
	"math/rand"
	"strings"

	jlib "github.com/jsightapi/jsight-schema-go-library"
	"github.com/jsightapi/jsight-schema-go-library/notations/jschema"

	"verifharness/vh"
)

func hx(s string) string {
	if s == "" {
		return "-"
	}
	return vh.Hex([]byte(s))
}

type item struct{ w1, tok, w2 string }

type rule struct {
	b1      string
	decoded string // the name the loader must bind
	quoted  bool
	name    string // as written
	n2      int
	b3      string
	isList  bool
	val     string // literal token
	w0      string
	items   []item
	b4      string
}

type annot struct {
	multi               bool
	tok, s1, s2, s3, tl string
	empty               bool
	b0                  string
	rules               []rule
	hasTc               bool
	tc                  string
}

func pick(r *rand.Rand, xs []string) string { return xs[r.Intn(len(xs))] }

func blank(r *rand.Rand, multi bool) string {
	if multi && r.Intn(3) == 0 {
		return pick(r, []string{"\n", " \n ", "\r\n", "\n\n\t", "\r", " \n"})
	}
	return pick(r, []string{"", "", " ", " ", "  ", "\t", " \t"})
}

func spTab(r *rand.Rand) string { return pick(r, []string{"", " ", " ", "  ", "\t"}) }

func ws(r *rand.Rand) string { return pick(r, []string{"", " ", "\n", " \n\t", "\r\n", "  "}) }

var numbers = []string{"0", "1", "5", "12", "-3", "-0", "0.5", "-2.25", "100", "3.0"}
var strs = []string{`""`, `"a"`, `"ab"`, `"a b"`, `"a"`, `"x\ny"`, `"q\"q"`, `"é"`, `"日本"`, `"a\\b"`, `"[1]"`, `"//"`, `"}"`}

func scalar(r *rand.Rand) string {
	switch r.Intn(5) {
	case 0, 1:
		return pick(r, numbers)
	case 2, 3:
		return pick(r, strs)
	default:
		return pick(r, []string{"true", "false", "null"})
	}
}

func isBareable(s string) bool {
	if s == "" {
		return false
	}
	for _, c := range []byte(s) {
		if !(c >= '0' && c <= '9' || c >= 'a' && c <= 'z' || c >= 'A' && c <= 'Z' || c == '-' || c == '_') {
			return false
		}
	}
	return true
}

func u4(r *rand.Rand, c rune) string {
	if r.Intn(2) == 0 {
		return fmt.Sprintf("\\u%04x", c)
	}
	return fmt.Sprintf("\\u%04X", c)
}

// one spelling of a name whose decoded text is d
func spell(r *rand.Rand, d string) (string, bool) {
	if isBareable(d) && r.Intn(3) == 0 {
		return d, false
	}
	var sb strings.Builder
	sb.WriteByte('"')
	mode := r.Intn(3) // 0 plain, 1 some \u escapes, 2 every escapable character escaped
	for _, c := range d {
		switch {
		case c == '"':
			sb.WriteString(`\"`)
		case c == '\\':
			sb.WriteString(`\\`)
		case c == '\n':
			sb.WriteString(`\n`)
		case c == '\t':
			sb.WriteString(`\t`)
		case c == '\r':
			sb.WriteString(`\r`)
		case c == '\b':
			sb.WriteString(`\b`)
		case c == '\f':
			sb.WriteString(`\f`)
		case c < 0x20:
			sb.WriteString(u4(r, c))
		case c == '/' && r.Intn(2) == 0:
			sb.WriteString(`\/`)
		case c < 0x10000 && !(c >= 0xd800 && c <= 0xdfff) && (mode == 2 || mode == 1 && r.Intn(3) == 0):
			sb.WriteString(u4(r, c))
		default:
			sb.WriteRune(c)
		}
	}
	sb.WriteByte('"')
	return sb.String(), true
}

var oddNames = []string{"", " ", "a b", "min ", "é", "日本", "x\ny", "q\"q", "a\\b", "a/b", "{", "}", ":", ",", "//", "/*", "[", "#", "@t", "m:n", "\t", "a\u007fb", "😀"}
var ruleNames = []string{"min", "max", "minLength", "maxLength", "nullable", "const", "type", "precision", "exclusiveMinimum", "exclusiveMaximum", "optional", "regex", "enum", "or", "allOf", "additionalProperties", "minItems"}

func genList(r *rand.Rand, multi bool) (string, []item) {
	n := r.Intn(4)
	if n == 0 {
		return blank(r, multi), nil
	}
	its := make([]item, n)
	for i := range its {
		its[i] = item{blank(r, multi), scalar(r), blank(r, multi)}
	}
	return "", its
}

func (ru *rule) respell(r *rand.Rand, multi bool) rule {
	x := *ru
	x.name, x.quoted = spell(r, ru.decoded)
	x.b1, x.b3, x.b4 = blank(r, multi), blank(r, multi), blank(r, multi)
	x.n2 = r.Intn(3)
	if ru.isList {
		x.items = make([]item, len(ru.items))
		for i, it := range ru.items {
			x.items[i] = item{blank(r, multi), it.tok, blank(r, multi)}
		}
		if len(ru.items) == 0 {
			x.w0 = blank(r, multi)
		}
	}
	return x
}

// free stream: any names, any literal values, lists under the three embedded names
func genFree(r *rand.Rand) annot {
	a := annot{multi: r.Intn(2) == 0, tok: scalar(r), s1: spTab(r)}
	a.s2, a.s3 = blank(r, a.multi), blank(r, a.multi)
	if a.multi {
		a.tl = "*/" + ws(r)
	} else {
		a.tl = pick(r, []string{"", "", "\n", "\n" + ws(r), "\r\n"})
	}
	n := r.Intn(5)
	if n == 0 {
		a.empty, a.b0 = true, blank(r, a.multi)
		return a
	}
	for i := 0; i < n; i++ {
		var d string
		switch r.Intn(6) {
		case 0:
			d = pick(r, oddNames)
		case 1:
			d = fmt.Sprintf("r%c%d", 'a'+rune(r.Intn(26)), r.Intn(100))
		default:
			d = pick(r, ruleNames)
		}
		ru := rule{decoded: d}
		if (d == "enum" || d == "or" || d == "allOf") && r.Intn(4) != 0 {
			ru.isList = true
			ru.w0, ru.items = genList(r, a.multi)
		} else {
			ru.val = scalar(r)
		}
		a.rules = append(a.rules, ru.respell(r, a.multi))
	}
	if r.Intn(3) == 0 {
		a.hasTc, a.tc = true, blank(r, a.multi)
	}
	return a
}

// valid stream: rule sets the library compiles (GetAST answers a tree)
func genValid(r *rand.Rand) annot {
	a := genFree(r)
	a.empty, a.rules = false, nil
	add := func(d string, val string, list []string) {
		ru := rule{decoded: d, val: val}
		if list != nil {
			ru.isList = true
			for _, t := range list {
				ru.items = append(ru.items, item{"", t, ""})
			}
		}
		a.rules = append(a.rules, ru.respell(r, a.multi))
	}
	switch r.Intn(4) {
	case 0: // number with bounds
		a.tok = "5"
		cands := [][2]string{{"min", pick(r, []string{"0", "1", "5", "-3", "0.5"})}, {"max", pick(r, []string{"5", "12", "100"})},
			{"nullable", pick(r, []string{"true", "false"})}, {"const", "false"}}
		r.Shuffle(len(cands), func(i, j int) { cands[i], cands[j] = cands[j], cands[i] })
		for _, c := range cands[:1+r.Intn(len(cands))] {
			add(c[0], c[1], nil)
		}
	case 1: // string with lengths
		a.tok = `"ab"`
		cands := [][2]string{{"minLength", pick(r, []string{"0", "1", "2"})}, {"maxLength", pick(r, []string{"2", "5", "100"})},
			{"nullable", "true"}, {"const", pick(r, []string{"true", "false"})}}
		r.Shuffle(len(cands), func(i, j int) { cands[i], cands[j] = cands[j], cands[i] })
		for _, c := range cands[:1+r.Intn(len(cands))] {
			add(c[0], c[1], nil)
		}
	case 2: // enum of strings
		a.tok = `"b"`
		items := []string{`"a"`, `"b"`, `"c d"`, `"e"`, "1", "null", "true", "2.5"}
		r.Shuffle(len(items), func(i, j int) { items[i], items[j] = items[j], items[i] })
		k := 1 + r.Intn(4)
		list := append([]string{}, items[:k]...)
		has := false
		for _, t := range list {
			if t == `"b"` {
				has = true
			}
		}
		if !has {
			list = append(list, `"b"`)
		}
		if r.Intn(2) == 0 {
			add("enum", "", list)
			if r.Intn(2) == 0 {
				add("nullable", "true", nil)
			}
		} else {
			if r.Intn(2) == 0 {
				add("const", "false", nil)
			}
			add("enum", "", list)
		}
	default: // enum of numbers
		a.tok = "2"
		add("enum", "", []string{"1", "2", "3"}[:2+r.Intn(2)])
	}
	return a
}

func (a *annot) request() string {
	var sb []string
	f := "i"
	if a.multi {
		f = "m"
	}
	sb = append(sb, "annq", f, hx(a.tok), hx(a.s1), hx(a.s2), hx(a.s3), hx(a.tl))
	if a.empty {
		return strings.Join(append(sb, "e", hx(a.b0)), " ")
	}
	tc := "-"
	if a.hasTc {
		tc = "t" + hx(a.tc)
	}
	sb = append(sb, "r", tc, fmt.Sprint(len(a.rules)))
	for _, ru := range a.rules {
		q := "0"
		if ru.quoted {
			q = "1"
		}
		sb = append(sb, hx(ru.b1), q, hx(ru.name), fmt.Sprint(ru.n2), hx(ru.b3))
		if ru.isList {
			sb = append(sb, "A", hx(ru.w0), fmt.Sprint(len(ru.items)))
			for _, it := range ru.items {
				sb = append(sb, hx(it.w1), hx(it.tok), hx(it.w2))
			}
		} else {
			sb = append(sb, "L", hx(ru.val))
		}
		sb = append(sb, hx(ru.b4))
	}
	return strings.Join(sb, " ")
}

// the same annotation in another spelling: names re-quoted / re-escaped / bared, other form, other blanks
func (a *annot) other(r *rand.Rand) annot {
	b := *a
	b.multi = !a.multi
	b.s1, b.s2, b.s3 = spTab(r), blank(r, b.multi), blank(r, b.multi)
	if b.multi {
		b.tl = "*/" + ws(r)
	} else {
		b.tl = pick(r, []string{"", "\n", "\n" + ws(r)})
	}
	if a.empty {
		b.b0 = blank(r, b.multi)
	}
	b.rules = nil
	for i := range a.rules {
		b.rules = append(b.rules, a.rules[i].respell(r, b.multi))
	}
	b.hasTc = !a.empty && r.Intn(2) == 0
	b.tc = blank(r, b.multi)
	return b
}

// rules whose value is a number or a boolean: the AST shows the value text as written
var valued = map[string]bool{"min": true, "max": true, "minLength": true, "maxLength": true, "precision": true, "nullable": true,
	"const": true, "exclusiveMinimum": true, "exclusiveMaximum": true, "optional": true, "minItems": true, "maxItems": true}

// rule names of the real AST in order (hex), with the value text of the number / boolean rules, or "X <code>" when GetAST refuses the schema
func realRules(text string) string {
	return vh.Recover(func() string {
		ast, err := jschema.New("s", text).GetAST()
		if err != nil {
			var pe jlib.ParsingError
			if stderrors.As(err, &pe) {
				return fmt.Sprintf("X %d", pe.ErrCode())
			}
			return "X ?"
		}
		var names []string
		if ast.Rules != nil {
			ast.Rules.EachSafe(func(k string, v jlib.RuleASTNode) {
				s := hx(k)
				if valued[k] {
					s += "=" + hx(v.Value)
				}
				names = append(names, s)
			})
		}
		return "T " + strings.Join(names, ";")
	})
}

// the driver's rules in the format of realRules: name, and the value when it is a number / boolean / null token
func modelRules(rules string) string {
	var out []string
	if rules != "" {
		for _, p := range strings.Split(rules, ";") {
			nv := strings.SplitN(p, "=", 2)
			name, val := nv[0], ""
			if len(nv) == 2 {
				val = nv[1]
			}
			if name == "" {
				name = "-"
			}
			s := name
			if nb, err := hex.DecodeString(name); err == nil && valued[string(nb)] {
				s += "=" + val
			}
			out = append(out, s)
		}
	}
	return "T " + strings.Join(out, ";")
}

func Run(args []string) {
	rep := vh.NewReport("annq-events", "an annotated top-level scalar EX // {rules} or EX /* {rules} */ generated as a STRUCTURE (0-4 rules; names: rule names, fresh identifiers and odd JSON strings (empty, blanks, structural bytes, UTF-8, controls), spelled bare / quoted / quoted with \\u escapes in either hex case / with two-character escapes; 0-2 spaces before the colon; values: literal tokens, or lists of 0-3 literal tokens under enum / or / allOf; blanks (line breaks in the multi-line form) between all tokens and list items; trailing comma; tail = end of input | line break + white space | */ + white space); stream valid (1/2): rule sets the library compiles; the driver `annq` answers text + closed-form events + bound rules from the structure; compared: real scanner events (hook VerifSchemaEvents) = closed form, real GetAST rule names (and number / boolean / null rule values) in order = decoded names whenever GetAST answers a tree, real GetAST of a second spelling (other form, names re-quoted / re-escaped / bared, other blanks) = real GetAST of the first; nontrivial = at least one quoted name or list value")
	r := vh.NewRand(4207)
	n := vh.Pick(30000, 600000)
	var reqs []string
	var anns []annot
	for i := 0; i < n; i++ {
		var a annot
		if i%2 == 0 {
			a = genValid(r)
			rep.Stat("stream_valid")
		} else {
			a = genFree(r)
			rep.Stat("stream_free")
		}
		b := a.other(r)
		anns = append(anns, a, b)
		reqs = append(reqs, a.request(), b.request())
	}
	replies := vh.AskModelSharded(reqs, 16)
	texts := make([]string, len(reqs))
	asts := make([]string, len(reqs))
	for i, rp := range replies {
		a := anns[i]
		parts := strings.Split(rp, " | ")
		if len(parts) != 4 {
			rep.AddDiff(vh.Diff{Component: "annq driver reply", Input: reqs[i], Impl: "", Model: rp, Level: "correspondence"})
			continue
		}
		tb, _ := hex.DecodeString(parts[0])
		text := string(tb)
		texts[i] = text
		nontrivial := false
		for _, ru := range a.rules {
			if ru.quoted {
				nontrivial = true
				rep.Stat("name_quoted")
			} else {
				rep.Stat("name_bare")
			}
			if ru.isList {
				nontrivial = true
				rep.Stat(fmt.Sprintf("list_%d_items", len(ru.items)))
			}
		}
		rep.Stat(fmt.Sprintf("rules_%d", len(a.rules)))
		if a.multi {
			rep.Stat("form_multi")
		} else {
			rep.Stat("form_inline")
		}
		rep.Case(text, nontrivial)
		if parts[3] != "S1 L1" {
			rep.AddDiff(vh.Diff{Component: "annq: request outside the grammar of the theorems (Lean scanner / loader model != closed form)", Input: fmt.Sprintf("%q", text), Impl: "", Model: parts[3], Level: "correspondence"})
			continue
		}
		real := jschema.VerifSchemaEvents([]byte(text))
		if real != parts[1] {
			rep.AddDiff(vh.Diff{Component: "annq: real scanner events vs closed form of C13_annotation_events_extended", Input: fmt.Sprintf("%q", text), Impl: real, Model: parts[1]})
		}
		ast := realRules(text)
		asts[i] = ast
		if strings.HasPrefix(ast, "T ") {
			rep.Stat("ast_tree")
			want := modelRules(parts[2])
			if ast != want {
				rep.AddDiff(vh.Diff{Component: "annq: real GetAST rules vs the names the loader binds (C13_annotated_scalar_loads_extended)", Input: fmt.Sprintf("%q", text), Impl: ast, Model: want})
			}
		} else {
			rep.Stat("ast_" + strings.ReplaceAll(ast, " ", "_"))
		}
		if i%2 == 1 && asts[i-1] != "" && asts[i-1] != ast {
			rep.AddDiff(vh.Diff{Component: "annq: real GetAST of two spellings of one annotation (C13_quoted_vs_bare_rule_names)", Input: fmt.Sprintf("%q vs %q", texts[i-1], text), Impl: asts[i-1] + " vs " + ast, Model: "equal"})
		}
	}
	rep.Finish()
}
