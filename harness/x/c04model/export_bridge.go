package c04model

// Exported view of the `wild` stream of `c04-model` for the Lean-vs-Lean tie `bridge-models` (package x/bridge).

// BridgeWild: schema number i of the wild stream (root text, names and texts of the added types).
func BridgeWild(i int) (root string, names, texts []string) {
	cs := wildCases(i)
	return cs[0].root, cs[0].names, cs[0].texts
}
