package c04model

import (
	"fmt"
	"math/rand"
	"strings"

	"verifharness/vh"
)

// Stream 4 (`wild`): small schemas aimed at the branches of the checker the
// example-obeys-rules generator does not reach: references that are undefined,
// cyclic or of the wrong kind, or sets whose members all fail or are containers,
// key shortcuts to types that are not strings, additionalProperties naming
// types, empty arrays with or sets, type roots of every node class, several
// defects at once in the root and in the types. Many combinations are rejected
// before the checker (counted as stage_pre); the others are compared.

var typeNames = []string{"@A", "@B", "@C", "@S", "@N", "@O", "@L"}

type wgen struct {
	r *rand.Rand
}

func (g *wgen) pick(xs ...string) string { return xs[g.r.Intn(len(xs))] }
func (g *wgen) p(x float64) bool         { return g.r.Float64() < x }
func (g *wgen) name() string             { return typeNames[g.r.Intn(len(typeNames))] }

func (g *wgen) scalar() string {
	return g.pick("1", "7", "-2.5", "12.75", `"ab"`, `"abcdef"`, `""`, "true", "false", "null", `"a@b.cd"`,
		`"2020-02-29"`, `"http://a.b/c"`, "0", "100", `"1"`, `"x y"`)
}

func (g *wgen) member() string {
	switch g.r.Intn(12) {
	case 0, 1, 2:
		return `"` + g.name() + `"`
	case 3:
		return `"` + g.pick("string", "integer", "float", "boolean", "null", "array", "object", "email", "date", "any") + `"`
	case 4:
		return fmt.Sprintf(`{type: "integer", min: %d}`, g.r.Intn(12))
	case 5:
		return fmt.Sprintf(`{min: %d}`, g.r.Intn(12))
	case 6:
		return fmt.Sprintf(`{type: "string", minLength: %d}`, g.r.Intn(5))
	case 7:
		return fmt.Sprintf(`{maxLength: %d}`, g.r.Intn(5))
	case 8:
		return fmt.Sprintf(`{type: "%s", nullable: true}`, g.name())
	case 9:
		return g.pick(`{enum: [1, "ab", null]}`, `{enum: [1, "ab"], nullable: true}`, `{enum: [7, true]}`, `{nullable: true, minLength: 1}`)
	case 10:
		return fmt.Sprintf(`{type: "array", minItems: %d}`, g.r.Intn(3))
	default:
		return fmt.Sprintf(`{type: "%s"}`, g.name())
	}
}

func (g *wgen) orRule() string {
	n := 2 + g.r.Intn(2)
	ms := make([]string, n)
	for i := range ms {
		ms[i] = g.member()
	}
	return "or: [" + strings.Join(ms, ", ") + "]"
}

// scalarRules: an annotation for a scalar (may be empty).
func (g *wgen) scalarRules() string {
	var rs []string
	switch g.r.Intn(14) {
	case 0, 1:
		return ""
	case 2, 3, 4:
		rs = append(rs, `type: "`+g.name()+`"`)
	case 5, 6:
		rs = append(rs, g.orRule())
	case 7:
		rs = append(rs, fmt.Sprintf("min: %d", g.r.Intn(12)))
		if g.p(0.4) {
			rs = append(rs, fmt.Sprintf("max: %d", 5+g.r.Intn(100)))
		}
	case 8:
		rs = append(rs, fmt.Sprintf("minLength: %d", g.r.Intn(4)))
		if g.p(0.4) {
			rs = append(rs, fmt.Sprintf("maxLength: %d", 3+g.r.Intn(4)))
		}
	case 9:
		rs = append(rs, "enum: "+g.pick(`[1, "ab", null, true, -2.5]`, `[1, "ab", true, -2.5]`, `[7, 12.75, "abcdef", false]`, `[null]`, `["1", 1.0]`))
		if g.p(0.5) {
			rs = append(rs, "nullable: true")
		}
	case 10:
		rs = append(rs, `type: "`+g.pick("email", "date", "uri", "uuid", "datetime", "string", "integer", "float", "any", "boolean", "null")+`"`)
	case 11:
		rs = append(rs, `regex: "`+g.pick("^a", "b$", "^[0-9]+$", ".")+`"`)
	case 12:
		rs = append(rs, "const: true")
	case 13:
		rs = append(rs, fmt.Sprintf("precision: %d", 1+g.r.Intn(2)))
	}
	if g.p(0.25) && !strings.Contains(strings.Join(rs, ","), "nullable") {
		rs = append(rs, "nullable: "+g.pick("true", "true", "false"))
	}
	if g.p(0.1) {
		rs = append(rs, "optional: true")
	}
	g.r.Shuffle(len(rs), func(i, j int) { rs[i], rs[j] = rs[j], rs[i] })
	return " // {" + strings.Join(rs, ", ") + "}"
}

func (g *wgen) containerRules(arr, empty bool) string {
	var rs []string
	switch g.r.Intn(10) {
	case 0, 1, 2, 3:
		return ""
	case 4:
		if arr {
			rs = append(rs, fmt.Sprintf("minItems: %d", g.r.Intn(4)))
		} else {
			rs = append(rs, `additionalProperties: "`+g.pick(g.name(), g.name(), "string", "any")+`"`)
		}
	case 5:
		if arr {
			rs = append(rs, fmt.Sprintf("maxItems: %d", g.r.Intn(4)))
			if g.p(0.3) {
				rs = append(rs, fmt.Sprintf("minItems: %d", g.r.Intn(2)))
			}
		} else {
			rs = append(rs, "additionalProperties: "+g.pick("true", "false"))
		}
	case 6:
		if empty {
			rs = append(rs, g.orRule())
		} else if !arr {
			rs = append(rs, `allOf: "`+g.name()+`"`)
		}
	case 7:
		if empty {
			rs = append(rs, `type: "`+g.pick("any", g.name(), "array", "object")+`"`)
		} else {
			rs = append(rs, `type: "`+g.pick("array", "object")+`"`)
		}
	case 8:
		rs = append(rs, "nullable: true")
	case 9:
		if !arr {
			rs = append(rs, `allOf: ["`+g.name()+`", "`+g.name()+`"]`)
		} else {
			rs = append(rs, fmt.Sprintf("minItems: %d", g.r.Intn(3)))
		}
	}
	if len(rs) == 0 {
		return ""
	}
	return " // {" + strings.Join(rs, ", ") + "}"
}

// value writes one value at `indent`; `tail` is "," or "".
func (g *wgen) value(sb *strings.Builder, depth int, indent, tail string) {
	x := g.r.Intn(20)
	switch {
	case depth >= 3 || x < 9:
		sb.WriteString(g.scalar() + tail + g.scalarRules())
	case x < 11:
		// value shortcut
		s := g.name()
		if g.p(0.4) {
			s += " | " + g.name()
		}
		ann := ""
		if g.p(0.15) {
			ann = " // {" + g.pick("nullable: true", "optional: true", g.orRule(), `type: "`+g.name()+`"`) + "}"
		}
		sb.WriteString(s + tail + ann)
	case x < 15:
		n := g.r.Intn(4)
		if g.p(0.35) {
			n = 0
		}
		if n == 0 {
			sb.WriteString("[]" + tail + g.containerRules(true, true))
			return
		}
		sb.WriteString("[" + g.containerRules(true, false) + "\n")
		for i := 0; i < n; i++ {
			sb.WriteString(indent + "  ")
			t := ","
			if i == n-1 {
				t = ""
			}
			g.value(sb, depth+1, indent+"  ", t)
			sb.WriteString("\n")
		}
		sb.WriteString(indent + "]" + tail)
	default:
		n := g.r.Intn(4)
		if g.p(0.3) {
			n = 0
		}
		if n == 0 {
			sb.WriteString("{}" + tail + g.containerRules(false, true))
			return
		}
		sb.WriteString("{" + g.containerRules(false, false) + "\n")
		used := map[string]bool{}
		for i := 0; i < n; i++ {
			key := `"` + g.pick("a", "b", "c", "k", "id") + `"`
			if g.p(0.2) {
				key = g.name()
			}
			for used[key] {
				key = `"` + g.pick("a", "b", "c", "k", "id", "x", "y", "z") + `"`
			}
			used[key] = true
			sb.WriteString(indent + "  " + key + ": ")
			t := ","
			if i == n-1 {
				t = ""
			}
			g.value(sb, depth+1, indent+"  ", t)
			sb.WriteString("\n")
		}
		sb.WriteString(indent + "}" + tail)
	}
}

func (g *wgen) text(maxDepth int) string {
	var sb strings.Builder
	if g.p(0.3) {
		sb.WriteString(g.pick(" ", "\n", "  \n "))
	}
	g.value(&sb, 3-maxDepth, "", "")
	return sb.String()
}

// typeText: the body of an added type: mostly a scalar with rules / a string / an
// alias / an or shortcut; sometimes a structure.
func (g *wgen) typeText() string {
	switch g.r.Intn(10) {
	case 0:
		return g.name() // alias
	case 1:
		return g.name() + " | " + g.name()
	case 2, 3:
		return g.pick(`"ab"`, `"k"`, `"abcdef"`) + g.pick("", " // {minLength: 1}", ` // {regex: "^a"}`, " // {maxLength: 3}", ` // {type: "`+g.name()+`"}`)
	case 4, 5, 6:
		return g.scalar() + g.scalarRules()
	default:
		return g.text(2)
	}
}

// orderText: an object / array with several or shortcuts and or rule-sets naming mostly undefined types: several
// UNNAMED types of one file offend at different positions (which one CheckRootSchema reports first: typeGoesFirst).
func (g *wgen) orderText() string {
	var sb strings.Builder
	n := 2 + g.r.Intn(3)
	arr := g.p(0.4)
	if arr {
		sb.WriteString("[\n")
	} else {
		sb.WriteString("{\n")
	}
	for i := 0; i < n; i++ {
		sb.WriteString("  ")
		if !arr {
			sb.WriteString(fmt.Sprintf("%q: ", string(rune('a'+i))))
		}
		t := ","
		if i == n-1 {
			t = ""
		}
		switch g.r.Intn(3) {
		case 0:
			sb.WriteString(g.name() + " | " + g.name() + t)
		case 1:
			sb.WriteString(g.scalar() + t + " // {or: [{type: \"" + g.name() + "\", nullable: true}, \"string\", \"integer\", \"float\", \"boolean\", \"null\"]}")
		default:
			sb.WriteString(g.name() + " | " + g.name() + " | " + g.name() + t)
		}
		sb.WriteString("\n")
	}
	if arr {
		sb.WriteString("]")
	} else {
		sb.WriteString("}")
	}
	return sb.String()
}

func wildCases(i int) []caseIn {
	g := &wgen{r: vh.NewRand(int64(i)*7919 + 4040404)}
	root := g.text(3)
	var names, texts []string
	order := g.p(0.12)
	if order {
		root = g.pick("1", `"ab"`, "{}", "[]")
	}
	for _, n := range typeNames {
		if order {
			if g.p(0.45) {
				names = append(names, n)
				if g.p(0.7) {
					texts = append(texts, g.orderText())
				} else {
					texts = append(texts, g.pick(`"ab"`, "1", "{}"))
				}
			}
			continue
		}
		if g.p(0.6) {
			names = append(names, n)
			texts = append(texts, g.typeText())
		}
	}
	g.r.Shuffle(len(names), func(a, b int) { names[a], names[b] = names[b], names[a]; texts[a], texts[b] = texts[b], texts[a] })
	var sb strings.Builder
	sb.WriteString("ROOT:\n" + root)
	for k, n := range names {
		sb.WriteString("\nTYPE " + n + " =\n" + texts[k])
	}
	return []caseIn{{root: root, names: names, texts: texts, label: "wild", stream: "s4", input: sb.String(),
		stats: []string{fmt.Sprintf("types_%d", len(names)), fmt.Sprintf("order_family_%v", order)}}}
}
