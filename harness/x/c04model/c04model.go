// Package c04model: tie between the Lean model of the checker (`CK.checkSchema`,
// lean/JSight/Checker.lean; theorems C04_checker_*) and the real
// `checker.CheckRootSchema`.
//
// Per case the hook `jschema.VerifCheckerDump` builds the schema as the public API
// does (New / AddType / load / AddUnnamedTypes / CompileAllOf), prints what
// CheckRootSchema is about to read (node trees of the root and of every type-table
// entry in visiting order; per node: JSON type, basis lexeme with file / begin /
// token, constraints in insertion order with parameters) and runs the real
// CheckRootSchema. The dump goes to the driver (`ck`), whose reply
// (`OK` / `ERR code file pos user-type` / `CRASH`) must equal the real outcome:
// WHICH error is reported (the first in the code's traversal order, also with several
// simultaneous corruptions), its code, the file and byte offset, the named type.
// The standard-library predicates (regexp, net/mail, net/url, time) are evaluated
// here with Go's own packages on the decoded strings and handed to the driver as
// tables. The public `Check()` of a fresh object is compared with the hook's outcome
// as well (component "api": same code and position; after an OK of the checker only
// the recursion check may still fail).
//
// Streams: (1), (2), (3) the generator of `c04-check-example` (x/c04: example trees
// with the 16 rule kinds, or sets, references, value shortcuts, the K-C04-or-minitems
// family), every good schema followed by chains of 1..3 corruptions applied on top of
// each other; (4) `wild`: small schemas written to reach every branch of the checker —
// undefined / cyclic / wrongly-kinded type references, key shortcuts to non-string
// types, additionalProperties naming types, or sets whose members all fail / are
// containers / name each other, empty arrays with or sets, nested type tables,
// several defects at once in root and types.
package c04model

import (
	"encoding/hex"
	"fmt"
	"net/mail"
	"net/url"
	"regexp"
	"runtime"
	"sort"
	"strings"
	"sync"
	"time"

	jlib "github.com/jsightapi/jsight-schema-go-library"
	jbytes "github.com/jsightapi/jsight-schema-go-library/bytes"
	js "github.com/jsightapi/jsight-schema-go-library/notations/jschema"

	stderrors "errors"

	"verifharness/vh"
	c04 "verifharness/x/c04"
)

type caseIn struct {
	root   string
	names  []string
	texts  []string
	label  string
	stream string
	ncorr  int
	stats  []string
	input  string
	known  string
	want   []string // file:offset
}

type caseOut struct {
	in      caseIn
	stage   string
	dump    string
	result  string // the real CheckRootSchema (or the failing earlier stage)
	api     string // public Check() of a fresh object
	request string
	fatal   bool
}

var (
	tokRe = regexp.MustCompile(`\((?:L|M) \d+ \w+ -?\d+ \d+ ([0-9a-f]+|-) `)
	patRe = regexp.MustCompile(`\(c 20 ([0-9a-f]+|-)\)`)
)

func unhex(s string) []byte {
	if s == "-" {
		return nil
	}
	b, _ := hex.DecodeString(s)
	return b
}

func hx(b []byte) string {
	if len(b) == 0 {
		return "-"
	}
	return hex.EncodeToString(b)
}

func bit(b bool) string {
	if b {
		return "1"
	}
	return "0"
}

// oracleTable: Go's own standard-library predicates on the decoded string of every
// token of the dump, and every pattern of the dump on every decoded string.
func oracleTable(dump string) string {
	seen := map[string]bool{}
	var decs [][]byte
	for _, m := range tokRe.FindAllStringSubmatch(dump, -1) {
		d := []byte(jbytes.Bytes(unhex(m[1])).Unquote())
		if !seen[string(d)] {
			seen[string(d)] = true
			decs = append(decs, d)
		}
	}
	pseen := map[string]bool{}
	var pats [][]byte
	for _, m := range patRe.FindAllStringSubmatch(dump, -1) {
		p := unhex(m[1])
		if !pseen[string(p)] {
			pseen[string(p)] = true
			pats = append(pats, p)
		}
	}
	var sb strings.Builder
	sb.WriteString("(or")
	for _, d := range decs {
		s := string(d)
		_, e1 := mail.ParseAddress(s)
		u, e2 := url.ParseRequestURI(s)
		uriOK := e2 == nil && u.IsAbs() && u.Hostname() != ""
		_, e3 := time.Parse(time.RFC3339, s)
		fmt.Fprintf(&sb, " (u %s %s%s%s)", hx(d), bit(e1 == nil), bit(uriOK), bit(e3 == nil))
	}
	for _, p := range pats {
		re, err := regexp.Compile(string(p))
		for _, d := range decs {
			fmt.Fprintf(&sb, " (r %s %s %s)", hx(p), hx(d), bit(err == nil && re.Match(d)))
		}
	}
	sb.WriteString(")")
	return sb.String()
}

func apiCheck(in caseIn) (out string) {
	defer func() {
		if r := recover(); r != nil {
			out = fmt.Sprintf("PANIC %v", r)
		}
	}()
	s := js.New("f0", in.root)
	for i, nm := range in.names {
		if err := s.AddType(nm, js.New("f"+fmt.Sprint(i+1), in.texts[i])); err != nil {
			return "ADDTYPE " + err.Error()
		}
	}
	err := s.Check()
	if err == nil {
		return "OK"
	}
	var pe jlib.ParsingError
	if stderrors.As(err, &pe) {
		return fmt.Sprintf("ERR %d %d", pe.ErrCode(), pe.Position())
	}
	return "OTHER " + err.Error()
}

func runOne(in caseIn) caseOut {
	o := caseOut{in: in}
	type res struct{ st, dump, res, api string }
	ch := make(chan res, 1)
	go func() {
		var r res
		defer func() {
			if x := recover(); x != nil {
				r.st, r.res = "checker", fmt.Sprintf("HOOKPANIC %v", x)
			}
			ch <- r
		}()
		r.st, r.dump, r.res = js.VerifCheckerDump(in.root, in.names, in.texts, false)
		r.api = apiCheck(in)
	}()
	tm := time.NewTimer(20 * time.Second)
	defer tm.Stop()
	select {
	case r := <-ch:
		o.stage, o.dump, o.result, o.api = r.st, r.dump, r.res, r.api
	case <-tm.C:
		o.stage, o.result, o.fatal = "checker", "TIMEOUT", true
		return o
	}
	if o.stage == "checker" && o.dump != "" {
		o.request = "ck " + oracleTable(o.dump) + " " + o.dump
	}
	return o
}

const ruleText = "per case the hook VerifCheckerDump prints the compiled schema as checker.CheckRootSchema reads it and runs the real CheckRootSchema; the Lean model CK.checkSchema gets the dump " +
	"(+ tables of Go's regexp / net/mail / net/url / time on the decoded tokens) and must give the same outcome: OK or ERR code file offset named-type (which error comes first, where). " +
	"Streams 1-3: the generator of c04-check-example (example trees depth<=4 with min/max/exclusive, precision, lengths, regex, enum, const, formats, declared types, nullable, optional, minItems/maxItems, additionalProperties, " +
	"or sets of names / rule-sets / user types, type any, references to generated scalar types, value shortcuts to structured types, the K-C04-or-minitems family): every good schema plus chains of 1-3 corruptions applied ON TOP OF EACH OTHER " +
	"(root and types, before and after each other); stream 4 `wild`: small schemas aimed at every branch of the checker (undefined / cyclic / wrongly-kinded references, key shortcuts to non-string types, additionalProperties naming types, " +
	"or sets whose members all fail / are containers, empty arrays with or sets, nested type tables, several defects at once). Cases that fail BEFORE the checker (load / compile) are counted (stage_pre) and not sent to the model. " +
	"Also compared: public Check() of a fresh object = the hook's outcome (code, position); the driver appends the names of the HYPOTHESES of the C04 theorems that fail on the dump (literal-end lexemes, offsets increasing in pre-order within one file, ArraysFlat, nullable/const shape: none may fail) " +
	"and the SPEC's list of values that violate one of their own rules (CK.violates), which must be empty for an accepted good schema and, after ONE corruption, exactly the values the generator built the corruption to break (byte/rune-ambiguous string lengths: a subset; container-kind-vs-or-set corruptions are reported by the link check, 1301, and only counted). " +
	"nontrivial = the checker ran and (a corruption was applied, or >= 2 annotated nodes, or a wild case)."

// Run is the entry point of `vh c04-model`.
func Run(args []string) {
	if len(args) > 0 && args[0] == "debug" {
		debug(args[1:])
		return
	}
	rep := vh.NewReport("c04-model", ruleText)
	nPlain := vh.Pick(5000, 120000)
	nShort := vh.Pick(800, 20000)
	nKnown := vh.Pick(40, 400)
	nWild := vh.Pick(6000, 150000)

	type job struct{ stream, i int }
	jobs := make(chan job, 256)
	results := make(chan []caseOut, 256)
	var wg sync.WaitGroup
	workers := runtime.NumCPU()
	if workers > 16 {
		workers = 16
	}
	for w := 0; w < workers; w++ {
		wg.Add(1)
		go func() {
			defer wg.Done()
			for j := range jobs {
				var outs []caseOut
				var ins []caseIn
				switch j.stream {
				case 1, 2, 3:
					done := map[string]caseOut{}
					conv := func(mc c04.ModelCase) caseIn {
						return caseIn{root: mc.Root, names: mc.Names, texts: mc.Texts, label: mc.Label,
							stream: fmt.Sprintf("s%d", j.stream), ncorr: mc.Ncorr, stats: mc.Stats, input: mc.Input, known: mc.Known, want: mc.WantAt}
					}
					accept := func(mc c04.ModelCase) bool {
						o := runOne(conv(mc))
						done[mc.Input] = o
						return o.stage == "checker"
					}
					for _, mc := range c04.ModelCases(j.stream, j.i, 2, 3, accept) {
						if o, ok := done[mc.Input]; ok {
							outs = append(outs, o)
						} else {
							ins = append(ins, conv(mc))
						}
					}
				case 4:
					ins = wildCases(j.i)
				}
				for _, in := range ins {
					outs = append(outs, runOne(in))
				}
				results <- outs
			}
		}()
	}
	go func() {
		for i := 0; i < nPlain; i++ {
			jobs <- job{1, i}
		}
		for i := 0; i < nShort; i++ {
			jobs <- job{2, i}
		}
		for i := 0; i < nKnown; i++ {
			jobs <- job{3, i}
		}
		for i := 0; i < nWild; i++ {
			jobs <- job{4, i}
		}
		close(jobs)
		wg.Wait()
		close(results)
	}()

	var requests, impl, inputs []string
	var cases []caseIn
	seen := map[string]bool{}
	for outs := range results {
		for _, o := range outs {
			in := o.in
			if seen[in.input] { // chains may reach the same text twice
				continue
			}
			seen[in.input] = true
			nontrivial := o.stage == "checker" && o.request != "" && (in.ncorr > 0 || in.stream == "s4" || countAnnotated(in) >= 2)
			rep.Case(in.input, nontrivial)
			rep.Stat("stream_" + in.stream)
			rep.Stat(fmt.Sprintf("%s_corruptions_%d", in.stream, in.ncorr))
			for _, st := range in.stats {
				rep.Stat(in.stream + "_" + st)
			}
			if o.fatal {
				rep.AddDiff(vh.Diff{Component: "c04-model", Input: in.input, Impl: "TIMEOUT", Model: "the checker terminates"})
				rep.Finish()
				return
			}
			if o.stage == "pre" {
				rep.Stat("stage_pre(not sent to the model)")
				rep.Stat("stage_pre_" + firstWords(o.result, 2))
				continue
			}
			if o.request == "" {
				rep.AddDiff(vh.Diff{Component: "c04-model-hook", Input: in.input, Impl: o.result, Model: "the hook prints the compiled schema"})
				continue
			}
			rep.Stat("stage_checker")
			rep.Stat("checker_" + firstWords(o.result, 2))
			if in.ncorr >= 2 && strings.HasPrefix(o.result, "ERR") {
				rep.Stat("several_corruptions_and_an_error")
			}
			if f := strings.Fields(o.result); len(f) == 5 && f[0] == "ERR" {
				if f[2] != "0" {
					rep.Stat("error_inside_a_type_file")
				}
				if f[4] != "-" {
					rep.Stat("error_names_a_type")
				}
			}
			// the public API against the hook
			if d := apiDiff(o); d != "" {
				rep.Stat("diff_api")
				rep.AddDiff(vh.Diff{Component: "c04-model-api", Input: in.input, Impl: "Check() = " + o.api, Model: "CheckRootSchema through the hook = " + o.result + " (" + d + ")", Level: "correspondence"})
			}
			requests = append(requests, o.request)
			impl = append(impl, o.result)
			inputs = append(inputs, in.input+"\n["+in.label+"]")
			cases = append(cases, in)
		}
	}
	model := vh.AskModelSharded(requests, 16)
	for i := range requests {
		// the reply: `<outcome> [flags] |V <file:offset of the values that violate one of their own rules (SPEC)>…`
		spec := ""
		if k := strings.Index(model[i], " |V"); k >= 0 {
			spec = model[i][k+3:]
			model[i] = model[i][:k]
		}
		specDiff(rep, cases[i], impl[i], spec, inputs[i])
		if impl[i] != model[i] {
			rep.Stat("diff_model")
			note := requests[i]
			if len(note) > 4000 {
				note = note[:4000] + "…"
			}
			rep.AddDiff(vh.Diff{Component: "c04-model", Input: inputs[i], Impl: impl[i], Model: model[i], Note: note})
		}
	}
	rep.Finish()
}

// specDiff compares the SPEC of the theorems (`CK.violates`: the values that violate one of their own rules) with
// what the generator knows independently of the library: a good schema has no such value; after ONE corruption the
// violating values are exactly the ones the corruption was built to make violate (offsets recorded by the printer).
// The known finding K-C04-or-minitems (an item-count rule inside an or member is never applied to `[]`) is a case
// where the generator expects a violation that neither the code nor its model sees.
func specDiff(rep *vh.Report, in caseIn, impl, spec, input string) {
	if in.stream == "s4" || in.ncorr > 1 {
		return
	}
	got := strings.Fields(spec)
	sort.Strings(got)
	got = uniqS(got)
	want := uniqS(append([]string{}, in.want...))
	if in.ncorr == 0 {
		if impl == "OK" && len(got) != 0 {
			rep.Stat("diff_spec")
			rep.AddDiff(vh.Diff{Component: "c04-model-spec", Input: input, Impl: "Check() = nil", Model: fmt.Sprintf("SPEC: values violating their own rules at %v", got)})
		}
		return
	}
	if in.known != "" {
		// K-C04-or-minitems / K-C04-or-container: the generator expects a violation at an empty container that
		// neither the code nor its model (nor CK.violates) sees: known findings of the PROPERTY, seen by
		// c04-check-example; here the model must simply agree with the code.
		rep.Stat("spec_known_finding_" + in.known + "(not compared)")
		return
	}
	if strings.Contains(in.label, "other-kind") && containerStarts(in, want) {
		// the KIND of a container against the kinds of its or set / type rule: the library reports it through the
		// link check (1301 at the container) or the compiler; CK.violates speaks about scalar rules and item counts
		rep.Stat("spec_container_kind_violation(link check, outside CK.violates)")
		if len(got) != 0 || !strings.HasPrefix(impl, "ERR 1301 ") {
			rep.Stat("diff_spec")
			rep.AddDiff(vh.Diff{Component: "c04-model-spec", Input: input, Impl: impl, Model: "the kind of a container against its or set is reported by the link check (1301)"})
		}
		return
	}
	rep.Stat("spec_single_corruption_compared")
	same := fmt.Sprint(got) == fmt.Sprint(want)
	if !same && strings.Contains(in.label, "Length") && len(got) > 0 && subset(got, want) {
		// string lengths: the generator lists a value when it violates under the byte OR the rune reading of the
		// rule; the library (and the model, C02_length_decoded) counts bytes of the decoded string
		rep.Stat("spec_length_rule_subset(bytes vs runes)")
		same = true
	}
	if !same {
		cl := in.known
		rep.Stat("diff_spec_" + cl)
		rep.AddDiff(vh.Diff{Component: "c04-model-spec", Input: input, Impl: fmt.Sprintf("generator: the corruption makes the values at %v violate", want),
			Model: fmt.Sprintf("SPEC CK.violates: %v (checker: %s)", got, impl), Class: cl, Level: "correspondence"})
	}
}

// containerStarts: every "file:offset" is the `[` / `{` of a container.
func containerStarts(in caseIn, at []string) bool {
	if len(at) == 0 {
		return false
	}
	texts := append([]string{in.root}, in.texts...)
	for _, a := range at {
		var f, o int
		if _, err := fmt.Sscanf(a, "%d:%d", &f, &o); err != nil || f >= len(texts) || o >= len(texts[f]) {
			return false
		}
		if c := texts[f][o]; c != '[' && c != '{' {
			return false
		}
	}
	return true
}

func subset(a, b []string) bool {
	m := map[string]bool{}
	for _, x := range b {
		m[x] = true
	}
	for _, x := range a {
		if !m[x] {
			return false
		}
	}
	return true
}

func uniqS(xs []string) []string {
	sort.Strings(xs)
	var out []string
	for i, x := range xs {
		if i == 0 || x != xs[i-1] {
			out = append(out, x)
		}
	}
	return out
}

var unnamedRe = regexp.MustCompile(`\(T (23[0-9a-f]*) -?\d+ \d+ ([0-9a-f]+|-) \((?:L|M|V|A|O) \d+ \w+ -?\d+ (\d+) `)

// sharesPlace: another unnamed type of the dump has the same root file name and root position as the unnamed type `ut`.
func sharesPlace(dump, ut string) bool {
	place := map[string]int{}
	mine := ""
	for _, m := range unnamedRe.FindAllStringSubmatch(dump, -1) {
		k := m[2] + ":" + m[3]
		place[k]++
		if m[1] == ut {
			mine = k
		}
	}
	return mine != "" && place[mine] >= 2
}

func firstWords(s string, n int) string {
	f := strings.Fields(s)
	if len(f) > n {
		f = f[:n]
	}
	return strings.Join(f, "_")
}

func countAnnotated(in caseIn) int {
	n := strings.Count(in.root, "{") // rough: used only for the nontrivial flag of good schemas
	for _, t := range in.texts {
		n += strings.Count(t, "{")
	}
	return n
}

// apiDiff: what the public Check() must be, given the checker's outcome.
func apiDiff(o caseOut) string {
	f := strings.Fields(o.result)
	switch {
	case len(f) >= 4 && f[0] == "ERR":
		want := fmt.Sprintf("ERR %s %s", f[1], f[3])
		if len(f) == 5 && strings.HasPrefix(f[4], "23") && sharesPlace(o.dump, f[4]) {
			// The error was raised while an UNNAMED type (`#%p`: an or-shortcut node `@a | @b`, an or rule-set member)
			// was being checked. Since fix F-34 CheckRootSchema orders unnamed types by (root file name, position of
			// the root node) and by name — a heap address — only among types made at the SAME place (the members of
			// one or set, the two registrations of one `@a | @b` node): only there may two objects built from the same
			// texts visit them in a different order (the dump keeps the address order for the model: the hook's own run
			// is compared exactly).
			if !strings.HasPrefix(o.api, "ERR ") {
				return "Check() must fail too"
			}
			return ""
		}
		if o.api != want {
			return "Check() must return that error: " + want
		}
	case o.result == "OK":
		// only the recursion check runs after the checker
		if o.api != "OK" && !strings.Contains(o.api, "recursion") && !strings.HasPrefix(o.api, "OTHER Infinity") {
			return "after the checker only the recursion check may fail"
		}
	default:
		return "the checker neither returned nor raised a DocumentError"
	}
	return ""
}

func debug(args []string) {
	n := 6
	stream := 1
	if len(args) > 0 {
		fmt.Sscan(args[0], &stream)
	}
	if len(args) > 1 {
		fmt.Sscan(args[1], &n)
	}
	for i := 0; i < n; i++ {
		var ins []caseIn
		if stream == 4 {
			ins = wildCases(i)
		} else {
			for _, mc := range c04.ModelCases(stream, i, 1, 2, nil) {
				ins = append(ins, caseIn{root: mc.Root, names: mc.Names, texts: mc.Texts, label: mc.Label, input: mc.Input})
			}
		}
		for _, in := range ins {
			o := runOne(in)
			fmt.Println("-----", in.label)
			fmt.Println(in.input)
			fmt.Println(o.stage, "|", o.result, "| api:", o.api)
			if o.request != "" {
				fmt.Println(o.request)
				fmt.Println("MODEL:", vh.AskModel([]string{o.request})[0])
			}
		}
	}
}

var _ = sort.Strings
