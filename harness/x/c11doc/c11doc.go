// Package c11doc: tie of the Lean model of the json `Document` object
// (lean/JSight/DocCursor.lean, driver family `doccur`) to the real
// formats/json.Document: one document, a history of 1-8 calls over
// {NextLexeme, Check, Len}, every call's result compared with the model's.
package c11doc

import (
	stdErrors "errors"
	"fmt"
	"io"
	"strings"

	root "github.com/jsightapi/jsight-schema-go-library"
	"github.com/jsightapi/jsight-schema-go-library/formats/json"

	"verifharness/vh"
)

// the document stream of c11-history (x/c11/docseq.go): blanks + value + tail
var values = []string{
	`{"a": 1}`, `{"id": 1, "tags": ["a", "b"]}`, `7`, `-12`, `"str"`, `""`, `[1, 2, 3]`, `[]`,
	`{"a": {"b": [3, 4]}}`, `true`, `false`, `null`, `{}`, `[7, "q"]`, `0.5`, `{"a": 1, "zz": 2}`, `{"a": "x"}`,
	// malformed / unfinished values
	`{"a": 1,`, `{"a": }`, `[1, 2,, 3]`, `[1, 2`, `"abc`, `tru`, `{"a" 1}`, ``,
}

const wellFormed = 17

var heads = []string{"", "", "", " ", "\n", " \t\r\n"}

var tails = []string{
	"", "", " ", "\n", " \t\r\n",
	" x", "x", "\nHTTP/1.1 200 OK", "}", " ]", ",", " 1", "1", " {}", "{}", "\n\n{\"next\": 1}", " \"", "\"q\"", " // c", "\n# c", " null", ":", "\x00", " \xc3\xa9",
}

type kase struct {
	text   string
	opt    bool
	ops    string // word over n / c / l
	stream string
}

func (c kase) request() string {
	hx := vh.Hex([]byte(c.text))
	if hx == "" {
		hx = "-"
	}
	o := "0"
	if c.opt {
		o = "1"
	}
	return "doccur " + hx + " " + o + " " + c.ops
}

func (c kase) input() string {
	ctor := fmt.Sprintf("json.New(\"doc\", %q)", c.text)
	if c.opt {
		ctor = fmt.Sprintf("json.New(\"doc\", %q, json.AllowTrailingNonSpaceCharacters())", c.text)
	}
	var calls []string
	for _, o := range c.ops {
		switch o {
		case 'n':
			calls = append(calls, "NextLexeme")
		case 'c':
			calls = append(calls, "Check")
		default:
			calls = append(calls, "Len")
		}
	}
	return "d := " + ctor + "; d." + strings.Join(calls, "(); d.") + "()"
}

func canonErr(err error) string {
	var pe interface {
		ErrCode() int
		Position() uint
	}
	if stdErrors.As(err, &pe) {
		return fmt.Sprintf("ERR %d %d", pe.ErrCode(), pe.Position())
	}
	return "ERR plain " + err.Error()
}

func one(d root.Document, op rune) (res string) {
	defer func() {
		if r := recover(); r != nil {
			res = fmt.Sprintf("CRASH %v", r)
		}
	}()
	switch op {
	case 'n':
		lex, err := d.NextLexeme()
		if err == nil {
			return fmt.Sprintf("LEX %s %d %d", lex.Type().String(), lex.Begin(), lex.End())
		}
		if stdErrors.Is(err, io.EOF) {
			if lex.File() == nil { // LexEvent{}
				return "EOF"
			}
			return fmt.Sprintf("EOF LEX %s %d %d", lex.Type().String(), lex.Begin(), lex.End())
		}
		return canonErr(err)
	case 'c':
		err := d.Check()
		if err == nil {
			return "OK"
		}
		return canonErr(err)
	}
	n, err := d.Len()
	if err == nil {
		return fmt.Sprintf("LEN %d", n)
	}
	return canonErr(err)
}

func (c kase) real() string {
	var d root.Document
	if c.opt {
		d = json.New("doc", c.text, json.AllowTrailingNonSpaceCharacters())
	} else {
		d = json.New("doc", c.text)
	}
	var out []string
	for _, o := range c.ops {
		out = append(out, one(d, o))
	}
	return strings.Join(out, ";")
}

func genOps(r interface{ Intn(int) int }) string {
	n := 1 + r.Intn(8)
	pn := []int{40, 60, 80}[r.Intn(3)] // share of NextLexeme
	var sb strings.Builder
	for k := 0; k < n; k++ {
		switch x := r.Intn(100); {
		case x < pn:
			sb.WriteByte('n')
		case x < pn+(100-pn)/2:
			sb.WriteByte('c')
		default:
			sb.WriteByte('l')
		}
	}
	return sb.String()
}

var fixedOps = []string{"nnnnnnnn", "nncnnlnn", "nnncnnnc", "lnnnnncn", "cl", "nnnnlnnn"}

func Run(args []string) {
	rep := vh.NewReport("c11-doc", "ONE json Document (text = blanks + one of 25 values (17 well-formed, 8 malformed / unfinished / empty) + one of 24 tails; option AllowTrailingNonSpaceCharacters drawn independently) driven by a history of 1-8 calls over {NextLexeme, Check, Len}; second stream: the same with 1-2 byte mutations; third stream: EVERY text of length <= 3 (thorough: 4) over `{}[]\",:1x ` with six fixed histories, both option values; every call's outcome (lexeme type and bounds | EOF [with the EndTop lexeme] | error code and index | OK | Len value | panic value) compared call by call with the Lean model of the Document state machine (driver `doccur`); a panic out of any real call is a property-level diff (C07-nextlexeme-panic); nontrivial = a NextLexeme after a Check / Len / error / EOF of the same history; in addition, model against model on every distinct (text, option): checkText / lenText / the deliveries of the Document machine = checkS / lengthS / events of the whole-text scanner model (driver `doccurx`)")
	var cases []kase
	r := vh.NewRand(11700)
	n := vh.Pick(60000, 1500000)
	alphabet := []byte("{}[]\",:1x tne-.0\\u \n")
	for i := 0; i < n; i++ {
		v := r.Intn(len(values))
		if r.Intn(4) == 0 {
			v = r.Intn(wellFormed)
		}
		text := heads[r.Intn(len(heads))] + values[v] + tails[r.Intn(len(tails))]
		stream := "structured"
		if i%4 == 3 {
			text = string(vh.Mutate(r, []byte(text), alphabet))
			stream = "mutated"
		}
		cases = append(cases, kase{text: text, opt: r.Intn(2) == 0, ops: genOps(r), stream: stream})
	}
	vh.AllStrings([]byte("{}[]\",:1x "), vh.Pick(3, 4), func(b []byte) {
		for _, w := range fixedOps {
			cases = append(cases, kase{text: string(b), opt: false, ops: w, stream: "exhaustive"},
				kase{text: string(b), opt: true, ops: w, stream: "exhaustive"})
		}
	})
	reqs := make([]string, len(cases))
	for i, c := range cases {
		reqs[i] = c.request()
	}
	model := vh.AskModelSharded(reqs, 16)
	for i, c := range cases {
		got := c.real()
		rep.Stat("stream_" + c.stream)
		if c.opt {
			rep.Stat("option_given")
		} else {
			rep.Stat("option_absent")
		}
		rep.Stat(fmt.Sprintf("history_len_%d", len(c.ops)))
		outs := strings.Split(got, ";")
		nontrivial := false
		ended := false
		panicked := false
		for k, o := range c.ops {
			res := outs[k]
			kind := strings.SplitN(res, " ", 2)[0]
			switch o {
			case 'n':
				rep.Stat("NextLexeme_" + kind)
				if ended {
					nontrivial = true
					rep.Stat("NextLexeme_after_Check_Len_error_or_EOF")
				}
				if kind != "LEX" {
					ended = true
				}
			case 'c':
				rep.Stat("Check_" + kind)
				ended = true
			default:
				rep.Stat("Len_" + kind)
				ended = true
			}
			if kind == "CRASH" {
				// since the fix 8464556 (sticky lexErr) no call of a Document may end in a panic: property level
				rep.Stat("panic_reaches_the_caller")
				if !panicked {
					panicked = true
					rep.AddDiff(vh.Diff{Component: "C07-nextlexeme-panic", Level: "property", Input: c.input(),
						Impl: fmt.Sprintf("call #%d ends in a panic: %s", k, res), Model: "every call returns (a lexeme | EOF | an error value); model: " + model[i], Note: reqs[i]})
				}
			}
		}
		rep.Case(c.request(), nontrivial)
		if got != model[i] {
			rep.AddDiff(vh.Diff{Input: c.input(), Impl: got, Model: model[i], Note: reqs[i]})
		}
	}
	// model against model: the Document machine (DocCursor) and the whole-text scanner model (JsonScan.events /
	// checkS / lengthS) the C05 / C07 / C17 theorems are stated about, on every distinct (text, option) of this run
	seen := map[string]bool{}
	var xreqs, xin []string
	for _, c := range cases {
		k := c.request()
		k = "doccurx" + k[len("doccur"):strings.LastIndex(k, " ")]
		if !seen[k] {
			seen[k] = true
			xreqs = append(xreqs, k)
			xin = append(xin, fmt.Sprintf("text %q, option %v", c.text, c.opt))
		}
	}
	for i, rp := range vh.AskModelSharded(xreqs, 16) {
		rep.Stat("model_vs_model_texts")
		if rp != "SAME" {
			rep.AddDiff(vh.Diff{Component: "c11-doc: DocCursor model vs JsonScan model", Input: xin[i], Impl: "", Model: rp, Note: xreqs[i], Level: "correspondence"})
		}
	}
	if rep.Stats["panic_reaches_the_caller"] == 0 {
		rep.Stats["panic_reaches_the_caller"] = 0
	}
	rep.Finish()
}
