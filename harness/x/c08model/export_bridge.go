package c08model

// Exported view of the case generators of `c08-model` for the Lean-vs-Lean tie `bridge-models` (package x/bridge):
// one annotated node in a context, as schema TEXT, with the types every schema of this package gets.

import "math/rand"

// BridgeCase: the schema text of one generated case, the added types (name, text), the stream it came from.
type BridgeCase struct {
	Root   string
	Names  []string
	Texts  []string
	Stream string
	Ctx    string
}

func BridgeGen(r *rand.Rand, k int) BridgeCase {
	var rc rcase
	stream := ""
	switch x := r.Intn(20); {
	case x < 9:
		rc, stream = randomCase(r, 1+r.Intn(4), false), "random"
	case x < 11:
		rc, stream = randomCase(r, 1+r.Intn(3), true), "duplicate"
	case x < 13:
		rc, stream = memberCase(r), "members"
	case x < 17:
		rc, stream = malformedCase(r, k), "malformed"
	default:
		rc, stream = shortcutCase(r), "shortcut"
	}
	out := BridgeCase{Root: schemaText(rc.c, annotation(rc.rs)), Stream: stream, Ctx: rc.c.pos + "/" + rc.c.val}
	for _, t := range addedTypes {
		out.Names = append(out.Names, t[0])
		out.Texts = append(out.Texts, t[1])
	}
	return out
}
