// Package c08model — generators and the statement-level specification copied from package c08
// (`c08-rules`); see c08.go there for the calibration decisions [C1]..[C23]. Only the parts that build
// cases are kept: contexts, rule / parameter pools, spellings and near-miss names, generated `or`
// values, the sampled rule sets, rulesOK / memberOK (the statement written as a predicate, including
// the "example obeys its rules" part that the Lean model CR.checkRules deliberately leaves out).
package c08model

import (
	stderrors "errors"
	"fmt"
	"math/rand"
	"regexp"
	"strings"
	"time"

	jlib "github.com/jsightapi/jsight-schema-go-library"
)

// ---------------------------------------------------------------------------
// contexts
// ---------------------------------------------------------------------------

type ctx struct {
	pos string // root | prop | item
	val string // int float str bool null obj0 obj arr0 arr ref
}

var positions = []string{"root", "prop", "item"}
var values = []string{"int", "float", "str", "bool", "null", "obj0", "obj", "arr0", "arr", "ref"}

const strExample = "a@b.cc" // 6 bytes, a valid email, not a date

// exampleToken: the example value as written in the schema (one-line values).
func exampleToken(v string) string {
	switch v {
	case "int":
		return "5"
	case "float":
		return "2.25"
	case "str":
		return `"` + strExample + `"`
	case "bool":
		return "true"
	case "null":
		return "null"
	case "obj0":
		return "{}"
	case "arr0":
		return "[]"
	case "ref":
		return "@t"
	case "ors": // an or shortcut (only in the streams of c08model.go)
		return "@t | @s"
	}
	return ""
}

// addedTypes are attached to every schema.
var addedTypes = [][2]string{{"@t", "7"}, {"@o", "{\n  \"z\": 1\n}"}, {"@s", "\"abc\""}}

// schemaText prints the schema of context c with annotation ann ("" = none).
func schemaText(c ctx, ann string) string {
	a := ""
	if ann != "" {
		a = " // {" + ann + "}"
	}
	var val string // the value with its annotation, possibly several lines; ind = indentation of continuation lines
	build := func(ind string) string {
		switch c.val {
		case "obj":
			return "{" + a + "\n" + ind + "  \"k\": 1\n" + ind + "}"
		case "arr":
			return "[" + a + "\n" + ind + "  1,\n" + ind + "  2\n" + ind + "]"
		}
		return exampleToken(c.val) + a
	}
	switch c.pos {
	case "root":
		val = build("")
		return val
	case "prop":
		return "{\n  \"p\": " + build("  ") + "\n}"
	default:
		return "[\n  " + build("  ") + "\n]"
	}
}

// ---------------------------------------------------------------------------
// rules and parameters
// ---------------------------------------------------------------------------

type oalt struct {
	typ     string // type name of the member ("integer", "@t", …)
	ruleSet bool   // written as a rule-set {type: …} rather than a bare name
	hasMin  bool
	// an enum rule-set member {enum: [...]}: it has no JSON kind of its own
	enum     bool
	items    []string
	nullable bool  // the member also says nullable: true
	min      int64 // scaled by 100
	// a GENERATED rule-set member (see genOr): its consistency is judged by memberOK; for the
	// admission of the example it is never needed, because a generated `or` always holds an
	// anchor member of exactly the example's kind without further rules.
	opaque     bool
	companions bool // a generated member with more rules than its type rule
}

// member is one member of a generated `or` value: a bare type name or a rule-set.
type member struct {
	bare  string // "integer" … ("" = a rule-set)
	rules []rl
}

type param struct {
	text  string
	qtext string // the same value with the rule names inside rule-sets quoted ("" = same as text)
	num   int64  // min/max scaled by 100; lengths, counts, precision as is
	b     bool
	s     string
	alts  []oalt
	bad   bool // or: a member rule-set is inconsistent in itself (enum next to a foreign rule / a scalar type, or !memberOK)
	items []string
	mem   []member // or: generated members (the text is rendered from them, each inner rule with its own spelling)
}

// Spellings of a rule name that ARE the rule (the unchanged tree trims blanks around the
// name, then unquotes it as a JSON string — calibration decision [C23]).
const (
	spBare    = 0 // min
	spQuoted  = 1 // "min"
	spEscOne  = 2 // "m\u0069n": one character written as a JSON \u escape inside the quotes
	spEscAll  = 3 // every character escaped
	nSpelling = 4
)

// Near-miss names: spellings that are NOT the rule (an unknown rule, 601 or a parse error) —
// rl.miss != 0. They are visible to the specification: the rule set then holds an unknown rule.
var missNames = []string{"", "lead_blank_in_quotes", "trail_blank_in_quotes", "both_blanks_in_quotes", "capitalised", "upper_case",
	"lower_case", "trailing_junk", "leading_junk", "empty_name", "escaped_blank_in_quotes", "escape_in_bare_name",
	"truncated", "inner_blank_in_quotes", "tab_in_quotes", "doubled_last_letter", "escaped_tab_in_quotes", "quoted_twice"}

type rl struct {
	name string
	p    param
	sp   int // spelling of the name (spBare …) — a spelling, not part of the rule set
	miss int // near-miss variant of the name (index of missNames, 0 = the real name)
}

const bs = string(rune(92)) // one backslash

func uEsc(c byte) string { return bs + fmt.Sprintf("u%04x", c) }

// missName builds the near-miss variant v of the rule name n; "" if the variant does not
// exist for n (it would be n itself or another rule name).
func missName(n string, v int, quoted bool) string {
	q := func(s string) string { return `"` + s + `"` }
	opt := func(s string) string { // a variant that exists bare and quoted
		if quoted {
			return q(s)
		}
		return s
	}
	var core, out string
	switch missNames[v] {
	case "lead_blank_in_quotes":
		core, out = " "+n, q(" "+n)
	case "trail_blank_in_quotes":
		core, out = n+" ", q(n+" ")
	case "both_blanks_in_quotes":
		core, out = " "+n+" ", q(" "+n+" ")
	case "capitalised":
		core = strings.ToUpper(n[:1]) + n[1:]
		out = opt(core)
	case "upper_case":
		core = strings.ToUpper(n)
		out = opt(core)
	case "lower_case":
		core = strings.ToLower(n)
		out = opt(core)
	case "trailing_junk":
		core = n + "_"
		out = opt(core)
	case "leading_junk":
		core = "x" + n
		out = opt(core)
	case "empty_name":
		core, out = "", q("")
	case "escaped_blank_in_quotes":
		core, out = n+" ", q(n+uEsc(' '))
	case "escape_in_bare_name":
		i := len(n) / 2
		core = n[:i] + uEsc(n[i]) + n[i+1:]
		out = core
	case "truncated":
		core = n[:len(n)-1]
		out = opt(core)
	case "inner_blank_in_quotes":
		i := (len(n) + 1) / 2
		core = n[:i] + " " + n[i:]
		out = q(core)
	case "tab_in_quotes":
		core, out = n+"\t", q(n+"\t")
	case "doubled_last_letter":
		core = n + n[len(n)-1:]
		out = opt(core)
	case "escaped_tab_in_quotes":
		core, out = "\t"+n, q(bs+"t"+n)
	case "quoted_twice":
		core, out = `"`+n+`"`, q(bs+`"`+n+bs+`"`)
	default:
		panic("missName")
	}
	if core == n {
		return ""
	}
	for _, k := range ruleNames {
		if k == core && k != "foo" {
			return ""
		}
	}
	return out
}

// nameText: the rule name as written.
func (r rl) nameText() string {
	if r.miss != 0 {
		if t := missName(r.name, r.miss, r.sp != spBare); t != "" {
			return t
		}
		return `" ` + r.name + `"`
	}
	switch r.sp {
	case spQuoted:
		return `"` + r.name + `"`
	case spEscOne:
		i := len(r.name) / 2
		return `"` + r.name[:i] + uEsc(r.name[i]) + r.name[i+1:] + `"`
	case spEscAll:
		var sb strings.Builder
		for i := 0; i < len(r.name); i++ {
			sb.WriteString(uEsc(r.name[i]))
		}
		return `"` + sb.String() + `"`
	}
	return r.name
}

func (m member) String() string {
	if m.bare != "" {
		return `"` + m.bare + `"`
	}
	return "{" + annotation(m.rules) + "}"
}

// String prints the rule; a quoted rule also quotes the names inside the rule-sets of a fixed `or` value
// (the rules of generated members carry their own spelling).
func (r rl) String() string {
	t := r.p.text
	if r.p.mem != nil {
		parts := make([]string, len(r.p.mem))
		for i, m := range r.p.mem {
			parts[i] = m.String()
		}
		t = "[" + strings.Join(parts, ", ") + "]"
	} else if r.sp != spBare && r.p.qtext != "" {
		t = r.p.qtext
	}
	return r.nameText() + ": " + t
}

// spelled returns the rules with every name bare (q=false) or quoted (q=true), also inside generated members;
// near-miss names keep their spelling (it is what makes them a different name).
func spelled(rs []rl, q bool) []rl {
	out := make([]rl, len(rs))
	for i, r := range rs {
		out[i] = r
		if r.miss == 0 {
			out[i].sp = spBare
			if q {
				out[i].sp = spQuoted
			}
		}
		if r.p.mem != nil {
			ms := make([]member, len(r.p.mem))
			for j, m := range r.p.mem {
				ms[j] = member{bare: m.bare, rules: spelled(m.rules, q)}
			}
			out[i].p.mem = ms
		}
	}
	return out
}

// innerReordered returns the rules with the rules inside every generated member rule-set permuted.
func innerReordered(r *rand.Rand, rs []rl, reverse bool) []rl {
	out := make([]rl, len(rs))
	for i, x := range rs {
		out[i] = x
		if x.p.mem == nil {
			continue
		}
		ms := make([]member, len(x.p.mem))
		for j, m := range x.p.mem {
			n := len(m.rules)
			rr := make([]rl, n)
			if reverse {
				for k := range rr {
					rr[k] = m.rules[n-1-k]
				}
			} else {
				for k, pk := range r.Perm(n) {
					rr[k] = m.rules[pk]
				}
			}
			ms[j] = member{bare: m.bare, rules: rr}
		}
		out[i].p.mem = ms
	}
	return out
}

func hasGeneratedMembers(rs []rl) bool {
	for _, x := range rs {
		for _, m := range x.p.mem {
			if len(m.rules) > 1 {
				return true
			}
		}
	}
	return false
}

var ruleNames = []string{"minLength", "maxLength", "min", "max", "exclusiveMinimum", "exclusiveMaximum", "type", "precision",
	"optional", "minItems", "maxItems", "additionalProperties", "nullable", "regex", "const", "or", "enum", "allOf", "foo"}

func numParam(t string, scaled int64) param { return param{text: t, num: scaled} }
func cntParam(n int) param                  { return param{text: fmt.Sprint(n), num: int64(n)} }
func boolParams() []param {
	return []param{{text: "true", b: true}, {text: "false", b: false}}
}
func strParam(s string) param { return param{text: `"` + s + `"`, s: s} }

// params lists the parameter choices of a rule in context c; in-range choices first.
func params(name string, c ctx) []param {
	switch name {
	case "min":
		if c.val == "float" {
			return []param{numParam("2", 200), numParam("2.25", 225), numParam("3", 300)}
		}
		return []param{numParam("4", 400), numParam("5", 500), numParam("6", 600)}
	case "max":
		if c.val == "float" {
			return []param{numParam("3", 300), numParam("2.25", 225), numParam("2", 200)}
		}
		return []param{numParam("6", 600), numParam("5", 500), numParam("4", 400)}
	case "exclusiveMinimum", "exclusiveMaximum", "optional", "nullable", "const":
		return boolParams()
	case "minLength":
		return []param{cntParam(0), cntParam(6), cntParam(7)}
	case "maxLength":
		return []param{cntParam(7), cntParam(6), cntParam(5)}
	case "regex":
		return []param{strParam("^a"), strParam(".*"), strParam("^z")}
	case "precision":
		return []param{cntParam(2), cntParam(3), cntParam(1)}
	case "minItems":
		return []param{cntParam(0), cntParam(2), cntParam(3)}
	case "maxItems":
		return []param{cntParam(3), cntParam(2), cntParam(1), cntParam(0)}
	case "additionalProperties":
		return []param{{text: "true", b: true, s: "true"}, {text: "false", s: "false"}, strParam("string"), strParam("@t")}
	case "type":
		own := map[string]string{"int": "integer", "float": "float", "str": "string", "bool": "boolean", "null": "null",
			"obj0": "object", "obj": "object", "arr0": "array", "arr": "array", "ref": "integer", "ors": "integer"}[c.val]
		out := []param{strParam(own)}
		for _, t := range []string{"integer", "float", "string", "boolean", "null", "object", "array", "any", "decimal", "email", "date", "enum", "mixed", "@t"} {
			if t != own {
				out = append(out, strParam(t))
			}
		}
		return out
	case "or":
		bad := func(p param) param { p.bad = true; return p }
		mk := func(text string, alts ...oalt) param {
			q := strings.NewReplacer("type:", `"type":`, "min:", `"min":`, "enum:", `"enum":`, "nullable:", `"nullable":`).Replace(text)
			return param{text: text, qtext: q, alts: alts}
		}
		return []param{
			mk(`["integer", "string"]`, oalt{typ: "integer"}, oalt{typ: "string"}),
			mk(`["float", "boolean"]`, oalt{typ: "float"}, oalt{typ: "boolean"}),
			mk(`["null", "object"]`, oalt{typ: "null"}, oalt{typ: "object"}),
			mk(`[{type: "array"}, "string"]`, oalt{typ: "array", ruleSet: true}, oalt{typ: "string"}),
			mk(`[{type: "integer", min: 6}, "string"]`, oalt{typ: "integer", ruleSet: true, hasMin: true, min: 600}, oalt{typ: "string"}),
			mk(`[{min: 5, type: "integer"}, {type: "float", min: 2.25}]`, oalt{typ: "integer", ruleSet: true, hasMin: true, min: 500}, oalt{typ: "float", ruleSet: true, hasMin: true, min: 225}),
			mk(`["@t", "string"]`, oalt{typ: "@t"}, oalt{typ: "string"}),
			mk(`[{type: "@t"}, {type: "boolean"}]`, oalt{typ: "@t", ruleSet: true}, oalt{typ: "boolean", ruleSet: true}),
			// enum rule-set members
			mk(`[{enum: [5, "a@b.cc", null, 2.25]}, "boolean"]`, oalt{ruleSet: true, enum: true, items: []string{"5", `"a@b.cc"`, "null", "2.25"}}, oalt{typ: "boolean"}),
			mk(`[{enum: [6, "x"]}, "string"]`, oalt{ruleSet: true, enum: true, items: []string{"6", `"x"`}}, oalt{typ: "string"}),
			mk(`[{type: "enum", enum: [5, 2.25]}, {type: "null"}]`, oalt{ruleSet: true, enum: true, items: []string{"5", "2.25"}}, oalt{typ: "null", ruleSet: true}),
			mk(`[{enum: [6, true], nullable: true}, "string"]`, oalt{ruleSet: true, enum: true, nullable: true, items: []string{"6", "true"}}, oalt{typ: "string"}),
			bad(mk(`[{enum: [5, true], min: 1}, "string"]`, oalt{ruleSet: true, enum: true, items: []string{"5", "true"}}, oalt{typ: "string"})),
			bad(mk(`[{type: "integer", enum: [5]}, "string"]`, oalt{ruleSet: true, enum: true, items: []string{"5"}}, oalt{typ: "string"})),
		}
	case "enum":
		return []param{
			{text: `[5, 2.25, "a@b.cc", true, null]`, items: []string{"5", "2.25", `"a@b.cc"`, "true", "null"}},
			{text: `[true, "a@b.cc", 5]`, items: []string{"true", `"a@b.cc"`, "5"}},
			{text: `[6, "x", false]`, items: []string{"6", `"x"`, "false"}},
		}
	case "allOf":
		return []param{{text: `"@o"`, s: "@o"}, {text: `["@o"]`, s: "@o"}}
	case "foo":
		return []param{{text: "1"}, {text: "true"}, {text: `"x"`}}
	}
	panic(name)
}

func annotation(rs []rl) string {
	parts := make([]string, len(rs))
	for i, r := range rs {
		parts[i] = r.String()
	}
	return strings.Join(parts, ", ")
}

// ---------------------------------------------------------------------------
// the specification
// ---------------------------------------------------------------------------

func kindName(v string) string {
	return map[string]string{"int": "integer", "float": "float", "str": "string", "bool": "boolean", "null": "null",
		"obj0": "object", "obj": "object", "arr0": "array", "arr": "array", "ref": "mixed", "ors": "mixed"}[v]
}

func exampleNum(v string) (int64, bool) {
	switch v {
	case "int":
		return 500, true
	case "float":
		return 225, true
	}
	return 0, false
}

var formatTypes = map[string]bool{"email": true, "uri": true, "uuid": true, "date": true, "datetime": true}

// formatValid: does the string example satisfy the format? (only the formats used as parameters)
func formatValid(f string) bool {
	switch f {
	case "email":
		return regexp.MustCompile(`^[^@\s]+@[^@\s]+\.[^@\s]+$`).MatchString(strExample)
	case "date":
		_, err := time.Parse("2006-01-02", strExample)
		return err == nil
	}
	return false
}

// rulesOK is the C08 statement: should Check accept the schema in which the node
// of context c carries the rules rs (in any order)?
func rulesOK(c ctx, rs []rl) bool {
	// every rule is known …
	for _, r := range rs {
		if r.name == "foo" || r.miss != 0 { // a near-miss spelling is another, unknown name
			return false
		}
	}
	// … appears once …
	seen := map[string]bool{}
	for _, r := range rs {
		if seen[r.name] {
			return false
		}
		seen[r.name] = true
	}
	// [C1] false-valued nullable / const are as good as absent
	m := map[string]param{}
	for _, r := range rs {
		if (r.name == "nullable" || r.name == "const") && !r.p.b {
			continue
		}
		m[r.name] = r.p
	}
	has := func(n string) bool { _, ok := m[n]; return ok }
	// only: no rules other than the listed ones
	only := func(names ...string) bool {
		for n := range m {
			ok := false
			for _, a := range names {
				if n == a {
					ok = true
				}
			}
			if !ok {
				return false
			}
		}
		return true
	}
	kind := kindName(c.val)
	container := c.val == "obj0" || c.val == "obj" || c.val == "arr0" || c.val == "arr"
	empty := c.val == "obj0" || c.val == "arr0"
	typ := ""
	if has("type") {
		typ = m["type"].s
	}

	// optional only on object properties [C4]
	if has("optional") && c.pos != "prop" {
		return false
	}

	// --- enum, or, any and type references are not combined with foreign rules ---
	switch {
	case c.val == "ref": // a type reference node [C5][C6]
		if has("or") { // [C20]
			for _, a := range m["or"].alts {
				if a.ruleSet || strings.HasPrefix(a.typ, "@") {
					return false
				}
			}
			return only("or", "optional", "nullable", "type") && (!has("type") || typ == "mixed")
		}
		return only("optional", "nullable")
	case has("or"):
		if !only("or", "optional", "nullable", "type") || (has("type") && typ != "mixed") { // [C5]
			return false
		}
		if container && !empty { // [C6]
			return false
		}
		if m["or"].bad { // enum inside a member rule-set is not combined with foreign rules either
			return false
		}
		if empty { // [C6] no user type member ("@t" or {type: "@t"}) next to an empty container
			for _, a := range m["or"].alts {
				if strings.HasPrefix(a.typ, "@") && !a.companions {
					return false
				}
			}
		}
		for _, a := range m["or"].alts { // [C7]
			if a.opaque { // a generated member: the anchor member decides the admission
				continue
			}
			if a.enum { // [C21]
				switch {
				case empty:
					return true
				case kind == "null" && a.nullable:
					return true
				}
				for _, it := range a.items {
					if it == exampleToken(c.val) {
						return true
					}
				}
				continue
			}
			ak := a.typ
			if ak == "@t" {
				ak = "integer" // kind of the root example of @t
			}
			if ak != kind {
				continue
			}
			if a.hasMin {
				if v, ok := exampleNum(c.val); !ok || v < a.min {
					continue
				}
			}
			return true
		}
		return false
	case has("enum"):
		if !only("enum", "optional", "nullable", "const", "type") || (has("type") && typ != "enum") { // [C5]
			return false
		}
		if container { // [C13]
			return false
		}
		if kind == "null" && has("nullable") { // [C19]
			return true
		}
		for _, it := range m["enum"].items { // [C12]
			if it == exampleToken(c.val) {
				return true
			}
		}
		return false
	case typ == "any":
		if !only("type", "optional", "nullable") { // [C5] (const: true is foreign, const: false is absent)
			return false
		}
		return !container || empty // [C6][C17]
	case strings.HasPrefix(typ, "@"):
		if !only("type", "optional", "nullable") { // [C5]
			return false
		}
		if container { // [C6]
			return false
		}
		return kind == "integer" // [C7] @t = 7
	case typ == "enum" || typ == "mixed": // [C8] need their rule
		return false
	}

	// --- a plain rule set: applicability to the kind of the node ---
	numeric := kind == "integer" || kind == "float"
	if typ != "" {
		switch {
		case typ == "decimal": // [C8]
			if kind != "float" || !has("precision") {
				return false
			}
		case formatTypes[typ]:
			if kind != "string" || !formatValid(typ) {
				return false
			}
			// format types exclude length / regex rules
			if has("minLength") || has("maxLength") || has("regex") {
				return false
			}
		default: // [C8]
			if typ != kind {
				return false
			}
		}
	}
	for n, p := range m {
		switch n {
		case "min", "max", "exclusiveMinimum", "exclusiveMaximum":
			if !numeric {
				return false
			}
		case "precision": // [C9]
			if kind != "float" || (typ != "" && typ != "decimal") || p.num == 0 {
				return false
			}
		case "minLength", "maxLength", "regex":
			if kind != "string" {
				return false
			}
		case "minItems", "maxItems":
			if kind != "array" {
				return false
			}
			if c.val == "arr0" && p.num != 0 { // [C11]
				return false
			}
		case "additionalProperties", "allOf":
			if kind != "object" {
				return false
			}
		case "const": // [C3]
			if container {
				return false
			}
		case "nullable", "optional", "type": // [C2][C4]
		}
	}
	// exclusive flags have their bound [C10] (the flag itself was not filtered by [C1])
	if has("exclusiveMinimum") && !has("min") {
		return false
	}
	if has("exclusiveMaximum") && !has("max") {
		return false
	}
	// paired bounds are ordered
	if has("min") && has("max") {
		strict := (has("exclusiveMinimum") && m["exclusiveMinimum"].b) || (has("exclusiveMaximum") && m["exclusiveMaximum"].b)
		if m["min"].num > m["max"].num || (strict && m["min"].num == m["max"].num) {
			return false
		}
	}
	if has("minLength") && has("maxLength") && m["minLength"].num > m["maxLength"].num {
		return false
	}
	if has("minItems") && has("maxItems") && m["minItems"].num > m["maxItems"].num {
		return false
	}
	// the example itself obeys its rules
	if v, ok := exampleNum(c.val); ok {
		if has("min") {
			if v < m["min"].num || (has("exclusiveMinimum") && m["exclusiveMinimum"].b && v == m["min"].num) {
				return false
			}
		}
		if has("max") {
			if v > m["max"].num || (has("exclusiveMaximum") && m["exclusiveMaximum"].b && v == m["max"].num) {
				return false
			}
		}
		if has("precision") && c.val == "float" && m["precision"].num < 2 { // 2.25 has two fraction digits
			return false
		}
	}
	if kind == "string" {
		l := int64(len(strExample)) // [C14]
		if has("minLength") && l < m["minLength"].num {
			return false
		}
		if has("maxLength") && l > m["maxLength"].num {
			return false
		}
		if has("regex") && !regexp.MustCompile(m["regex"].s).MatchString(strExample) {
			return false
		}
	}
	if c.val == "arr" {
		if has("minItems") && 2 < m["minItems"].num {
			return false
		}
		if has("maxItems") && 2 > m["maxItems"].num {
			return false
		}
	}
	return true
}

// memberOK is the C08 statement for the rule-set of one `or` member: is the set consistent
// in itself? The rule-set describes an alternative, not the annotated node, so nothing here
// depends on the example: every rule is known and appears once, optional is out of place
// (a member is not an object property) [C4], paired bounds are ordered, exclusive flags have
// their bound [C10], precision only with decimal [C9], format types exclude length / regex,
// enum / any / type references are not combined with foreign rules [C5], enum / mixed / decimal
// types have their rule [C8].
// [C22] Rule x kind applicability is NOT demanded inside a member: the statement speaks of "the kind
// of node it annotates" and an or member has no node kind of its own (the reading the unchanged
// tree satisfies: {type: "integer", minLength: 1} is a legal member). Such members are generated
// (stat member_rule_foreign_to_declared_type); all companion conditions stay compared.
func memberOK(rs []rl) bool {
	for _, r := range rs {
		if r.name == "foo" || r.miss != 0 {
			return false
		}
		if r.name == "or" || r.name == "allOf" { // not generated inside members
			return false
		}
	}
	seen := map[string]bool{}
	for _, r := range rs {
		if seen[r.name] {
			return false
		}
		seen[r.name] = true
	}
	if len(rs) == 0 {
		return false
	}
	m := map[string]param{}
	for _, r := range rs {
		if (r.name == "nullable" || r.name == "const") && !r.p.b { // [C1]
			continue
		}
		m[r.name] = r.p
	}
	has := func(n string) bool { _, ok := m[n]; return ok }
	only := func(names ...string) bool {
		for n := range m {
			ok := false
			for _, a := range names {
				if n == a {
					ok = true
				}
			}
			if !ok {
				return false
			}
		}
		return true
	}
	typ := ""
	if has("type") {
		typ = m["type"].s
	}
	if has("optional") { // [C4]
		return false
	}
	switch {
	case has("enum"): // [C5][C21]
		return only("enum", "nullable", "const", "type") && (typ == "" || typ == "enum")
	case typ == "any":
		return only("type", "nullable")
	case strings.HasPrefix(typ, "@"):
		return only("type", "nullable")
	case typ == "enum" || typ == "mixed": // [C8]
		return false
	}
	if typ == "decimal" && !has("precision") { // [C8]
		return false
	}
	if has("precision") && ((typ != "" && typ != "decimal") || m["precision"].num == 0) { // [C9]
		return false
	}
	if formatTypes[typ] && (has("minLength") || has("maxLength") || has("regex")) {
		return false
	}
	if has("exclusiveMinimum") && !has("min") { // [C10]
		return false
	}
	if has("exclusiveMaximum") && !has("max") {
		return false
	}
	if has("min") && has("max") {
		strict := (has("exclusiveMinimum") && m["exclusiveMinimum"].b) || (has("exclusiveMaximum") && m["exclusiveMaximum"].b)
		if m["min"].num > m["max"].num || (strict && m["min"].num == m["max"].num) {
			return false
		}
	}
	if has("minLength") && has("maxLength") && m["minLength"].num > m["maxLength"].num {
		return false
	}
	if has("minItems") && has("maxItems") && m["minItems"].num > m["maxItems"].num {
		return false
	}
	return true
}

// ---------------------------------------------------------------------------
// generated `or` values: an anchor member + rule-set members over the consistency matrix
// ---------------------------------------------------------------------------

func randomSpelling(r *rand.Rand) int {
	switch x := r.Intn(10); {
	case x < 4:
		return spBare
	case x < 8:
		return spQuoted
	case x < 9:
		return spEscOne
	}
	return spEscAll
}

// memberParams: parameter choices of a rule inside a member rule-set (not related to the example):
// ordered / equal / reversed pairs arise from the first / last choices.
func memberParams(name string) []param {
	switch name {
	case "min":
		return []param{numParam("1", 100), numParam("5", 500), numParam("2.5", 250), numParam("10", 1000)}
	case "max":
		return []param{numParam("10", 1000), numParam("5", 500), numParam("2.5", 250), numParam("1", 100)}
	case "exclusiveMinimum", "exclusiveMaximum", "optional", "nullable", "const":
		return boolParams()
	case "minLength":
		return []param{cntParam(0), cntParam(2), cntParam(4)}
	case "maxLength":
		return []param{cntParam(4), cntParam(2), cntParam(0)}
	case "regex":
		return []param{strParam("^a"), strParam(".*")}
	case "precision":
		return []param{cntParam(2), cntParam(1)}
	case "minItems":
		return []param{cntParam(0), cntParam(1), cntParam(3)}
	case "maxItems":
		return []param{cntParam(3), cntParam(1), cntParam(0)}
	case "additionalProperties":
		return []param{{text: "true", b: true, s: "true"}, {text: "false", s: "false"}, strParam("string"), strParam("@t")}
	case "enum":
		return []param{
			{text: `[5, 2.25, "a@b.cc", true, null]`, items: []string{"5", "2.25", `"a@b.cc"`, "true", "null"}},
			{text: `[6, "x", false]`, items: []string{"6", `"x"`, "false"}},
		}
	case "foo":
		return []param{{text: "1"}, {text: "true"}}
	}
	panic(name)
}

var memberTypes = []string{"integer", "integer", "float", "float", "decimal", "string", "string", "email", "date", "boolean", "null",
	"object", "array", "array", "any", "@t", "enum", "mixed", "", "", ""}

// memberPool: the rules applicable to a member of declared type t [C22] (for a member without
// a type rule: one family of rules), plus — marked by the caller as noise — rules that the
// statement forbids next to t for a reason other than the node kind.
func memberPool(r *rand.Rand, t string) []string {
	switch t {
	case "integer", "float":
		return []string{"min", "max", "exclusiveMinimum", "exclusiveMaximum", "nullable", "const"}
	case "decimal":
		return []string{"min", "max", "exclusiveMinimum", "exclusiveMaximum", "precision", "precision", "nullable", "const"}
	case "string":
		return []string{"minLength", "maxLength", "regex", "nullable", "const"}
	case "email", "date":
		return []string{"nullable", "const"}
	case "boolean", "null":
		return []string{"nullable", "const"}
	case "object":
		return []string{"additionalProperties", "nullable"}
	case "array":
		return []string{"minItems", "maxItems", "nullable"}
	case "any", "@t":
		return []string{"nullable"}
	case "enum":
		return []string{"enum", "enum", "nullable", "const"}
	case "mixed":
		return []string{"nullable"}
	}
	switch r.Intn(5) { // no type rule
	case 0:
		return []string{"min", "max", "exclusiveMinimum", "exclusiveMaximum", "nullable"}
	case 1:
		return []string{"minLength", "maxLength", "regex", "nullable"}
	case 2:
		return []string{"minItems", "maxItems", "nullable"}
	case 3:
		return []string{"precision", "min", "max", "nullable"}
	}
	return []string{"enum", "nullable"}
}

// foreignFor: rules that the statement forbids next to the declared type t of a member whatever the kind
// (companion conditions, not applicability).
func foreignFor(t string) []string {
	switch t {
	case "integer", "float":
		return []string{"precision"} // precision only with decimal
	case "email", "date":
		return []string{"minLength", "maxLength", "regex"} // format types exclude length / regex
	case "any", "@t":
		return []string{"min", "minLength", "const", "regex"} // not combined with foreign rules
	case "enum":
		return []string{"min", "regex"}
	}
	return nil
}

func genMember(r *rand.Rand) member {
	t := memberTypes[r.Intn(len(memberTypes))]
	pool := memberPool(r, t)
	k := r.Intn(4)
	if k > len(pool) {
		k = len(pool)
	}
	if t == "" && k == 0 {
		k = 1
	}
	var rs []rl
	if t != "" {
		rs = append(rs, rl{name: "type", p: strParam(t)})
	}
	used := map[string]bool{}
	for _, i := range r.Perm(len(pool)) {
		if len(used) == k {
			break
		}
		n := pool[i]
		if used[n] {
			continue
		}
		used[n] = true
		ps := memberParams(n)
		rs = append(rs, rl{name: n, p: ps[r.Intn(len(ps))]})
	}
	// noise: a rule the statement forbids here
	switch x := r.Intn(20); {
	case x == 0:
		ps := memberParams("foo")
		rs = append(rs, rl{name: "foo", p: ps[r.Intn(len(ps))]})
	case x == 1:
		rs = append(rs, rl{name: "optional", p: boolParams()[r.Intn(2)]})
	case x == 2: // a duplicated rule
		d := rs[r.Intn(len(rs))]
		if d.name != "type" && r.Intn(2) == 0 {
			ps := memberParams(d.name)
			d.p = ps[r.Intn(len(ps))]
		}
		rs = append(rs, d)
	case x == 3: // a near-miss name
		i := r.Intn(len(rs))
		rs[i].miss = 1 + r.Intn(len(missNames)-1)
	case x <= 5: // [C22] a rule of another kind's family: applicability is not demanded inside a member
		all := []string{"min", "max", "exclusiveMinimum", "minLength", "maxLength", "regex", "minItems", "maxItems", "additionalProperties"}
		nm := all[r.Intn(len(all))]
		if !used[nm] && t != "any" && t != "@t" && t != "enum" && t != "mixed" {
			ps := memberParams(nm)
			rs = append(rs, rl{name: nm, p: ps[r.Intn(len(ps))]})
		}
	case x <= 8:
		if f := foreignFor(t); f != nil {
			n := f[r.Intn(len(f))]
			if !used[n] {
				ps := memberParams(n)
				rs = append(rs, rl{name: n, p: ps[r.Intn(len(ps))]})
			}
		}
	}
	r.Shuffle(len(rs), func(i, j int) { rs[i], rs[j] = rs[j], rs[i] })
	for i := range rs {
		rs[i].sp = randomSpelling(r)
	}
	return member{rules: rs}
}

// genOr builds an `or` value for context c: one ANCHOR member of exactly the example's kind
// without further rules (a bare type name or {type: kind}) — it admits the example — and one
// or two generated rule-set members, which the example need not (and mostly does not) match.
// The value is consistent iff every generated member is (memberOK).
func genOr(r *rand.Rand, c ctx) param {
	kind := kindName(c.val)
	if c.val == "ref" {
		kind = "integer"
	}
	anchor := member{bare: kind}
	if r.Intn(2) == 0 {
		anchor = member{rules: []rl{{name: "type", p: strParam(kind), sp: randomSpelling(r)}}}
	}
	n := 1
	if r.Intn(4) == 0 {
		n = 2
	}
	ms := make([]member, 0, n+1)
	for i := 0; i < n; i++ {
		ms = append(ms, genMember(r))
	}
	at := r.Intn(len(ms) + 1)
	ms = append(ms[:at], append([]member{anchor}, ms[at:]...)...)
	p := param{mem: ms}
	for i, m := range ms {
		if i == at {
			p.alts = append(p.alts, oalt{typ: kind, ruleSet: m.bare == ""})
			continue
		}
		t := ""
		for _, x := range m.rules {
			if x.name == "type" && x.miss == 0 {
				t = x.p.s
			}
		}
		p.alts = append(p.alts, oalt{typ: t, ruleSet: true, opaque: true, companions: len(m.rules) > 1})
		if !memberOK(m.rules) {
			p.bad = true
		}
	}
	return p
}

// memberCase: a case of the generated-`or` stream: the `or` rule plus (sometimes) its companions.
func memberCase(r *rand.Rand) rcase {
	vals := []string{"int", "float", "str", "bool", "null", "obj0", "arr0"}
	c := ctx{positions[r.Intn(3)], vals[r.Intn(len(vals))]}
	if r.Intn(12) == 0 {
		c.val = values[r.Intn(len(values))]
	}
	rs := []rl{{name: "or", p: genOr(r, c), sp: randomSpelling(r)}}
	switch x := r.Intn(10); {
	case x < 2:
		rs = append(rs, rl{name: "nullable", p: boolParams()[r.Intn(2)], sp: randomSpelling(r)})
	case x < 3:
		rs = append(rs, rl{name: "type", p: strParam("mixed"), sp: randomSpelling(r)})
	case x < 4:
		rs = append(rs, rl{name: "optional", p: boolParams()[r.Intn(2)], sp: randomSpelling(r)})
	}
	r.Shuffle(len(rs), func(i, j int) { rs[i], rs[j] = rs[j], rs[i] })
	return rcase{c, rs}
}

// nearMissStream: for every rule name a rule set that the statement accepts (the rule in a context
// it applies to, with an in-range parameter and the companion it needs) — and the same set with the
// name of that rule replaced by each of its near-miss spellings, bare and quoted where both exist.
func nearMissStream() []rcase {
	one := func(n string, c ctx, i int) rl { return rl{name: n, p: params(n, c)[i]} }
	type base struct {
		c  ctx
		rs []rl
	}
	var bases []base
	for _, pos := range positions {
		ci, cf, cs := ctx{pos, "int"}, ctx{pos, "float"}, ctx{pos, "str"}
		co, ca := ctx{pos, "obj"}, ctx{pos, "arr"}
		bases = append(bases,
			base{cs, []rl{one("minLength", cs, 0)}}, base{cs, []rl{one("maxLength", cs, 0)}}, base{cs, []rl{one("regex", cs, 0)}},
			base{ci, []rl{one("min", ci, 0)}}, base{ci, []rl{one("max", ci, 0)}},
			base{ci, []rl{one("exclusiveMinimum", ci, 0), one("min", ci, 0)}}, base{ci, []rl{one("exclusiveMaximum", ci, 1), one("max", ci, 0)}},
			base{ci, []rl{one("type", ci, 0)}}, base{cf, []rl{one("precision", cf, 0)}},
			base{ca, []rl{one("minItems", ca, 0)}}, base{ca, []rl{one("maxItems", ca, 0), one("minItems", ca, 1)}},
			base{co, []rl{one("additionalProperties", co, 0)}}, base{co, []rl{one("allOf", co, 0)}},
			base{ci, []rl{one("nullable", ci, 0)}}, base{ci, []rl{one("const", ci, 0), one("min", ci, 1)}},
			base{ci, []rl{one("or", ci, 0)}}, base{ci, []rl{one("enum", ci, 0), one("nullable", ci, 0)}},
			base{cs, []rl{one("minLength", cs, 1), one("maxLength", cs, 1)}},
		)
		if pos == "prop" {
			bases = append(bases, base{ci, []rl{one("optional", ci, 0)}}, base{cs, []rl{one("optional", cs, 1), one("regex", cs, 0)}})
		}
	}
	var out []rcase
	for _, b := range bases {
		if !rulesOK(b.c, b.rs) {
			panic("nearMissStream: base set not accepted by the specification: " + annotation(b.rs))
		}
		out = append(out, rcase{b.c, b.rs})
		for v := 1; v < len(missNames); v++ {
			for sp := 0; sp < 2; sp++ {
				t := missName(b.rs[0].name, v, sp == 1)
				if t == "" || (sp == 1 && t == missName(b.rs[0].name, v, false)) {
					continue
				}
				rs := append([]rl{}, b.rs...)
				rs[0].miss, rs[0].sp = v, sp
				out = append(out, rcase{b.c, rs})
			}
		}
		// … and the real name in each of its spellings
		for sp := 1; sp < nSpelling; sp++ {
			rs := append([]rl{}, b.rs...)
			rs[0].sp = sp
			out = append(out, rcase{b.c, rs})
		}
	}
	return out
}

// ---------------------------------------------------------------------------
// running the library
// ---------------------------------------------------------------------------

type verdict struct {
	ok      bool
	code    int
	timeout bool
	text    string
}

func verdictOf(err error) verdict {
	if err == nil {
		return verdict{ok: true, text: "OK"}
	}
	var pe jlib.ParsingError
	if stderrors.As(err, &pe) {
		return verdict{code: pe.ErrCode(), text: fmt.Sprintf("ERR %d %s", pe.ErrCode(), pe.Message())}
	}
	return verdict{code: -1, text: "OTHER " + err.Error()}
}

// usesTypes: does the schema text refer to one of the added types?
func usesTypes(text string) bool {
	for _, t := range addedTypes {
		if strings.Contains(text, t[0]) {
			return true
		}
	}
	return false
}

func withDeadline(f func() verdict) verdict {
	ch := make(chan verdict, 1)
	go func() {
		var v verdict
		defer func() {
			if r := recover(); r != nil {
				v = verdict{code: -2, text: fmt.Sprintf("PANIC %v", r)}
			}
			ch <- v
		}()
		v = f()
	}()
	tm := time.NewTimer(20 * time.Second)
	defer tm.Stop()
	select {
	case v := <-ch:
		return v
	case <-tm.C:
		return verdict{timeout: true, text: "TIMEOUT"}
	}
}

// ---------------------------------------------------------------------------
// case generation
// ---------------------------------------------------------------------------

type rcase struct {
	c  ctx
	rs []rl
}

func relevant(c ctx) []string {
	switch c.val {
	case "int":
		return []string{"min", "max", "exclusiveMinimum", "exclusiveMaximum", "type", "const", "nullable", "optional", "enum", "or"}
	case "float":
		return []string{"min", "max", "exclusiveMinimum", "exclusiveMaximum", "type", "precision", "const", "nullable", "optional", "enum", "or"}
	case "str":
		return []string{"minLength", "maxLength", "regex", "type", "const", "nullable", "optional", "enum", "or"}
	case "bool", "null":
		return []string{"type", "const", "nullable", "optional", "enum", "or"}
	case "obj0", "obj":
		return []string{"type", "additionalProperties", "allOf", "nullable", "optional", "or"}
	case "arr0", "arr":
		return []string{"type", "minItems", "maxItems", "nullable", "optional", "or"}
	}
	return []string{"nullable", "optional", "type", "or"}
}

func pickParam(r *rand.Rand, name string, c ctx, inRange bool) param {
	if name == "or" && r.Intn(2) == 0 {
		return genOr(r, c)
	}
	ps := params(name, c)
	if name == "type" && (inRange || r.Intn(10) < 3) {
		if inRange && r.Intn(4) == 0 {
			return ps[1+r.Intn(len(ps)-1)]
		}
		return ps[0]
	}
	if inRange || r.Intn(10) < 3 {
		return ps[r.Intn((len(ps)+1)/2)] // the in-range half
	}
	return ps[r.Intn(len(ps))]
}

func randomCase(r *rand.Rand, size int, dup bool) rcase {
	c := ctx{positions[r.Intn(3)], values[r.Intn(len(values))]}
	pool := ruleNames
	rel := r.Intn(10) < 7
	if rel {
		// the rules relevant to the node kind; or / enum (which exclude nearly everything else) thinned out
		pool = nil
		for _, n := range relevant(c) {
			if n == "optional" && c.pos != "prop" && r.Intn(4) != 0 {
				continue
			}
			if (n == "or" || n == "enum") && r.Intn(3) != 0 {
				continue
			}
			pool = append(pool, n)
		}
	}
	if size > len(pool) {
		pool = ruleNames
	}
	idx := r.Perm(len(pool))[:size]
	rs := make([]rl, 0, size+1)
	for _, i := range idx {
		rs = append(rs, rl{name: pool[i], p: pickParam(r, pool[i], c, rel && r.Intn(10) < 7)})
	}
	// spelling of the rule names: bare, all quoted, or mixed (bare / quoted / quoted with \u escapes)
	switch r.Intn(5) {
	case 0:
		rs = spelled(rs, true)
	case 1, 2:
		for i := range rs {
			rs[i].sp = randomSpelling(r)
		}
	}
	// a near-miss name: one rule is written with a name that is NOT the rule
	if r.Intn(12) == 0 {
		i := r.Intn(len(rs))
		rs[i].miss = 1 + r.Intn(len(missNames)-1)
		rs[i].sp = r.Intn(2)
	}
	if size >= 3 && r.Intn(8) == 0 {
		// both false-valued booleans that the compiler filters out, next to other rules
		keep := rs[:0]
		for _, x := range rs {
			if x.name != "nullable" && x.name != "const" {
				keep = append(keep, x)
			}
		}
		for len(keep) > size-2 {
			keep = keep[:len(keep)-1]
		}
		rs = append(keep, rl{name: "nullable", p: boolParams()[1]}, rl{name: "const", p: boolParams()[1]})
		r.Shuffle(len(rs), func(i, j int) { rs[i], rs[j] = rs[j], rs[i] })
	}
	if dup {
		d := rs[r.Intn(len(rs))]
		if r.Intn(2) == 0 {
			d.p = pickParam(r, d.name, c, false)
		}
		p := r.Intn(len(rs) + 1)
		rs = append(rs[:p], append([]rl{d}, rs[p:]...)...)
	}
	return rcase{c, rs}
}

func permutations(n int) [][]int {
	var out [][]int
	a := make([]int, n)
	for i := range a {
		a[i] = i
	}
	var rec func(k int)
	rec = func(k int) {
		if k == n {
			out = append(out, append([]int(nil), a...))
			return
		}
		for i := k; i < n; i++ {
			a[k], a[i] = a[i], a[k]
			rec(k + 1)
			a[k], a[i] = a[i], a[k]
		}
	}
	rec(0)
	return out
}

var permCache = map[int][][]int{}

func init() {
	for n := 0; n <= 4; n++ {
		permCache[n] = permutations(n)
	}
}

func permsFor(r *rand.Rand, n int) [][]int {
	if n <= 4 {
		return permCache[n]
	}
	out := [][]int{}
	id := make([]int, n)
	rev := make([]int, n)
	for i := range id {
		id[i] = i
		rev[i] = n - 1 - i
	}
	out = append(out, id, rev)
	for i := 0; i < 22; i++ {
		out = append(out, r.Perm(n))
	}
	return out
}

// knownRefTypeOr: the structure of known finding K-C08-ref-type-or: a `@t` example
// node whose rules are an `or` of bare type names, user-written `type` rules with the
// value "@t" (the node's own reference) or "mixed", and optional / nullable / const: false — with
// either a type: "@t" or a repeated type rule among them. (MixedValueNode.addTypeConstraint
// lets a `type` rule replace the existing one instead of applying the duplicate check.)
func knownRefTypeOr(rc rcase) string {
	if rc.c.val != "ref" {
		return ""
	}
	hasOr, ownType, nType := false, false, 0
	for _, r := range rc.rs {
		if r.miss != 0 {
			return ""
		}
		switch r.name {
		case "or":
			if hasOr {
				return ""
			}
			for _, a := range r.p.alts {
				if a.ruleSet || strings.HasPrefix(a.typ, "@") {
					return ""
				}
			}
			hasOr = true
		case "type":
			if r.p.s != "@t" && r.p.s != "mixed" {
				return ""
			}
			if r.p.s == "@t" {
				ownType = true
			}
			nType++
		case "nullable", "optional":
		case "const": // const: false is as good as absent [C1]
			if r.p.b {
				return ""
			}
		default:
			return ""
		}
	}
	if hasOr && (ownType || nType >= 2) {
		return "K-C08-ref-type-or"
	}
	return ""
}

// knownStream: a small dedicated stream that exercises K-C08-ref-type-or in every run.
func knownStream() []rcase {
	var out []rcase
	ty := func(s string) rl { return rl{name: "type", p: strParam(s)} }
	seqs := [][]rl{{ty("@t")}, {ty("mixed"), ty("mixed")}, {ty("@t"), ty("@t")}, {ty("@t"), ty("mixed")}}
	k := 0
	for _, pos := range positions {
		c := ctx{pos, "ref"}
		ors := params("or", c)[:3]
		for _, sq := range seqs {
			rs := append([]rl{}, sq...)
			rs = append(rs, rl{name: "or", p: ors[k%3]})
			if k%2 == 1 {
				rs = append(rs, rl{name: "nullable", p: boolParams()[k%4/2]})
			}
			out = append(out, rcase{c, rs})
			k++
		}
	}
	return out
}
