// Package c08model: tie between the Lean model `CR.checkRules` (lean/JSight/CheckRules.lean, driver command
// `crules`) and the real `Check` — property C08.
//
// A case = one annotated node (context root / object property / array item x kind integer, float, string,
// boolean, null, empty / non-empty object, empty / non-empty array, `@t` type shortcut, `@t | @s` or shortcut)
// with an ordered list of rules. The schema TEXT is built as in `c08-rules` (generators copied: gen.go), the
// real scanner's event stream of that text (hook VerifSchemaEvents) is cut at the annotation and turned into
// the value tree the driver request carries — so the tokens the model sees are the tokens the loader sees; rule
// names are the key tokens after TrimSpaces().Unquote() of the library's own bytes package. Every case is run
// in ALL orderings of its rules (<= 4 rules) or 24 sampled orderings, each ordering is one comparison:
//
//	(1) model ERR c  =>  Check fails with code c             (the FIRST error in code order)
//	(2) model OK     =>  Check succeeds, or fails with a code that no step of the model can produce
//	                     (a later stage: link check, the EXAMPLE against the rules, item counts)
//	(4) the driver also evaluates the Lean SPECIFICATION `CR.specOK` on the node: outside `CR.refTypeClass` it must
//	    agree with the model's verdict (a run-time sample of theorem C08_check_iff_partial; component C08-lean-statement)
//	(3) for the streams taken from c08-rules, whose parameters are chosen so that the statement-level
//	    predicate rulesOK (copied) knows whether the example obeys the rules:
//	    model OK  =>  (Check succeeds  <=>  rulesOK),   model ERR  =>  !rulesOK
//
// Streams: all single rules x parameters x contexts; the K-C08-ref-type-or stream; near-miss names; sampled
// sets of 2-3 (thorough: up to 12) rules; sets with a duplicated rule; generated `or` values with rule-set
// members over the companion matrix (members' rules reordered too); MALFORMED VALUES (a rule whose value has
// the wrong kind or is out of range — min: "a", minLength: -1, optional: 1, precision: 0, or: 5, or: [],
// enum: [1, 1], allOf: 1, shortcut values, non-literal values of literal rules, unknown names with any value,
// … — alone and next to 1-2 well-formed rules, before and after them); OR-SHORTCUT nodes and extra rule sets on
// `@t` nodes (repeated type rules, or values with user types / rule-sets).
// Oracles handed to the model: which string tokens of the annotation Go's encoding/json + regexp accept as a
// regex value; the enum rule `@e` is added with AddRule whenever the text mentions it.
// The model follows MixedValueNode.AddConstraint as coded, so comparisons (1) and (2) need no known-finding class;
// comparison (3) — the statement-level predicate — carries the class K-C08-ref-type-or where the generator
// recognises its structure (knownRefTypeOr, copied).
package c08model

import (
	"encoding/json"
	"fmt"
	"math/rand"
	"regexp"
	"runtime"
	"runtime/debug"
	"sort"
	"strconv"
	"strings"
	"sync"

	lbytes "github.com/jsightapi/jsight-schema-go-library/bytes"
	js "github.com/jsightapi/jsight-schema-go-library/notations/jschema"
	"github.com/jsightapi/jsight-schema-go-library/rules/enum"

	"verifharness/vh"
)

// ---------------------------------------------------------------------------
// running the library
// ---------------------------------------------------------------------------

const enumRuleName = "@e"
const enumRuleText = `[1, "a", true]`

func check(text string) verdict {
	return withDeadline(func() verdict {
		s := js.New("root", text)
		if strings.Contains(text, enumRuleName) {
			_ = s.AddRule(enumRuleName, enum.New(enumRuleName, enumRuleText))
		}
		if usesTypes(text) {
			for _, t := range addedTypes {
				_ = s.AddType(t[0], js.New(t[0], t[1]))
			}
		}
		return verdictOf(s.Check())
	})
}

// ---------------------------------------------------------------------------
// from the scanner's events to the driver request
// ---------------------------------------------------------------------------

type event struct {
	typ  string
	b, e int
}

func parseEvents(s string) ([]event, bool) {
	if strings.HasPrefix(s, "ERR ") || strings.HasPrefix(s, "CRASH") {
		return nil, false
	}
	var out []event
	for _, f := range strings.Fields(s) {
		i := strings.IndexByte(f, '[')
		j := strings.IndexByte(f, ':')
		if i < 0 || j < i || !strings.HasSuffix(f, "]") {
			return nil, false
		}
		b, err1 := strconv.Atoi(f[i+1 : j])
		e, err2 := strconv.Atoi(f[j+1 : len(f)-1])
		if err1 != nil || err2 != nil {
			return nil, false
		}
		out = append(out, event{f[:i], b, e})
	}
	return out, true
}

type val struct {
	kind  byte // 'l' literal, 'f' shortcut, 'a' array, 'o' object
	tok   string
	items []val
	keys  []string // object: names after TrimSpaces().Unquote()
}

type evParser struct {
	text string
	evs  []event
	i    int
	ok   bool
	lits []string // every literal token met
}

func (p *evParser) peek() string {
	for p.i < len(p.evs) && p.evs[p.i].typ == "new-line" {
		p.i++
	}
	if p.i >= len(p.evs) {
		p.ok = false
		return ""
	}
	return p.evs[p.i].typ
}

func (p *evParser) next() event {
	p.peek()
	if p.i >= len(p.evs) {
		p.ok = false
		return event{}
	}
	e := p.evs[p.i]
	p.i++
	return e
}

func (p *evParser) expect(t string) event {
	e := p.next()
	if e.typ != t {
		p.ok = false
	}
	return e
}

func (p *evParser) slice(e event) string {
	if e.b < 0 || e.e+1 > len(p.text) || e.b > e.e+1 {
		p.ok = false
		return ""
	}
	return p.text[e.b : e.e+1]
}

func (p *evParser) value() val {
	if !p.ok {
		return val{}
	}
	switch p.peek() {
	case "literal-begin":
		p.next()
		e := p.expect("literal-end")
		t := p.slice(e)
		p.lits = append(p.lits, t)
		return val{kind: 'l', tok: t}
	case "mixed-value-begin":
		p.next()
		p.expect("types-shortcut-begin")
		e := p.expect("types-shortcut-end")
		p.expect("mixed-value-end")
		return val{kind: 'f', tok: strings.TrimSpace(p.slice(e))}
	case "array-begin":
		p.next()
		v := val{kind: 'a'}
		for p.ok && p.peek() == "item-begin" {
			p.next()
			v.items = append(v.items, p.value())
			p.expect("item-end")
		}
		p.expect("array-end")
		return v
	case "object-begin":
		p.next()
		v := val{kind: 'o'}
		for p.ok && p.peek() == "key-begin" {
			p.next()
			k := p.expect("key-end")
			name := lbytes.Bytes(p.slice(k)).TrimSpaces().Unquote().String()
			p.expect("value-begin")
			v.keys = append(v.keys, name)
			v.items = append(v.items, p.value())
			p.expect("value-end")
		}
		p.expect("object-end")
		return v
	}
	p.ok = false
	return val{}
}

func hx(s string) string { return "x" + vh.Hex([]byte(s)) }

func (v val) sexp(sb *strings.Builder) {
	switch v.kind {
	case 'l':
		sb.WriteString("(l " + hx(v.tok) + ")")
	case 'f':
		sb.WriteString("(f " + hx(v.tok) + ")")
	case 'a':
		sb.WriteString("(a")
		for _, it := range v.items {
			sb.WriteByte(' ')
			it.sexp(sb)
		}
		sb.WriteString(")")
	case 'o':
		sb.WriteString("(o")
		for i, it := range v.items {
			sb.WriteString(" (" + hx(v.keys[i]) + " ")
			it.sexp(sb)
			sb.WriteString(")")
		}
		sb.WriteString(")")
	}
}

func regexOK(tok string) bool {
	var str string
	if json.Unmarshal([]byte(tok), &str) != nil {
		return false
	}
	_, err := regexp.Compile(str)
	return err == nil
}

func kindSexp(c ctx) string {
	switch c.val {
	case "int", "float", "str", "bool", "null":
		return c.val
	case "obj0":
		return "(obj 0)"
	case "obj":
		return "(obj 1)"
	case "arr0":
		return "(arr 0)"
	case "arr":
		return "(arr 2)"
	case "ref":
		return "(ref " + hx("@t") + ")"
	case "ors":
		return "(ors 1 1)"
	}
	panic(c.val)
}

// request builds the `crules` request of the schema text: "" when the scanner itself rejects the text
// (not a rule-level case) or the event stream has no single annotation object.
func request(c ctx, text string) (req string, why string) {
	defer func() {
		if r := recover(); r != nil {
			req, why = "", "panic_while_reading_events"
		}
	}()
	evs, ok := parseEvents(js.VerifSchemaEvents([]byte(text)))
	if !ok {
		return "", "scanner_error"
	}
	at := -1
	for i, e := range evs {
		if e.typ == "inline-annotation-begin" {
			if at >= 0 {
				return "", "several_annotations"
			}
			at = i
		}
	}
	if at < 0 {
		return "", "no_annotation"
	}
	p := &evParser{text: text, evs: evs, i: at + 1, ok: true}
	if p.peek() != "object-begin" {
		return "", "annotation_not_object"
	}
	v := p.value()
	if !p.ok || p.peek() != "inline-annotation-end" {
		return "", "annotation_shape"
	}
	var sb strings.Builder
	sb.WriteString("cspec (node " + kindSexp(c) + " ")
	if c.pos == "prop" {
		sb.WriteString("1")
	} else {
		sb.WriteString("0")
	}
	sb.WriteString(" (rules")
	for i, it := range v.items {
		sb.WriteString(" (r " + hx(v.keys[i]) + " ")
		it.sexp(&sb)
		sb.WriteString(")")
	}
	sb.WriteString(") (rx")
	seen := map[string]bool{}
	for _, t := range p.lits {
		if !seen[t] && regexOK(t) {
			seen[t] = true
			sb.WriteString(" " + hx(t))
		}
	}
	sb.WriteString(") (en")
	if strings.Contains(text, enumRuleName) {
		sb.WriteString(" " + hx(enumRuleName))
	}
	sb.WriteString("))")
	return sb.String(), ""
}

// modelCodes: every code a step of CR.checkRules can return. A failure of Check with another code, on a case the
// model accepts, comes from a later stage.
var modelCodes = map[int]bool{0: true, 102: true, 103: true, 501: true, 601: true, 604: true, 605: true, 617: true, 618: true, 702: true,
	801: true, 802: true, 805: true, 806: true, 807: true, 808: true, 809: true, 810: true, 901: true, 902: true, 903: true, 904: true, 905: true,
	1101: true, 1102: true, 1103: true, 1104: true, 1105: true, 1106: true, 1107: true, 1108: true, 1109: true, 1110: true, 1111: true,
	1112: true, 1113: true, 1114: true, 1115: true, 1117: true, 1204: true, 1602: true}

// ---------------------------------------------------------------------------
// additional streams
// ---------------------------------------------------------------------------

func raw(name, text string) rl { return rl{name: name, p: param{text: text}} }

// malformedValues: per rule name, value texts of the wrong kind / out of range / odd spelling (a few are
// accepted by the code: they are here because their READING is what is compared).
var malformedValues = map[string][]string{
	"min":                  {`"a"`, `"1"`, "true", "null", "[1]", "{}", "-0", "1.50", "007", "@t", "-1.5"},
	"max":                  {`"a"`, "false", "null", "[1, 2]", "{a: 1}", "0.0", "@t"},
	"minLength":            {"-1", "1.0", `"1"`, "true", "null", "[1]", "18446744073709551616", "18446744073709551617", "007", "@t"},
	"maxLength":            {"-1", "1.5", `"6"`, "false", "[]", "18446744073709551615", "{}"},
	"minItems":             {"-1", "0.0", `"0"`, "true", "[0]", "18446744073709551616"},
	"maxItems":             {"-2", "2.0", `"2"`, "null", "{}", "18446744073709551618"},
	"precision":            {"0", "00", "-1", "1.5", `"2"`, "true", "[2]", "18446744073709551616", "@t"},
	"exclusiveMinimum":     {"1", "0", `"true"`, "null", "[true]", "{}"},
	"exclusiveMaximum":     {"1", `"false"`, "null", "[false]", "@t"},
	"optional":             {"1", "0", `"true"`, "null", "[true]", "{}"},
	"nullable":             {"1", `"true"`, `"false"`, "null", "[true]", "@t"},
	"const":                {"1", `"true"`, "null", "[true]", "{}"},
	"type":                 {"1", "true", "null", `"foo"`, `""`, `"@"`, `"@ t"`, `"Integer"`, `"mixed"`, `"any"`, `"@t"`, `"uri"`, `"uuid"`, `"datetime"`, "[1]", `{type: "integer"}`, "@t", `"\"integer\""`},
	"regex":                {"1", "true", "null", `"("`, `"[a"`, `"\\d+"`, `"a{2,1}"`, `["a"]`, "{}", "@t", `"a"`},
	"additionalProperties": {"1", "null", `"foo"`, `"any"`, `"@"`, `"@s"`, `"integer"`, `"mixed"`, `"enum"`, `"decimal"`, `"true"`, `"false"`, `"True"`, "[true]", "{}", "@t", `"any"`},
	"or": {"5", `"integer"`, "true", "null", "{}", `{type: "integer"}`, "[]", `["integer"]`, `[{type: "integer"}]`, "[1, 2]", `["integer", 2]`, `[[1], "string"]`,
		`["integer", []]`, `["integer", {}]`, `[{}, "integer"]`, `["integer", {min: [1]}]`, `["integer", {min: {}}]`, `["integer", {or: 1}]`, `["integer", {allOf: "@o"}]`,
		`["integer", {or: ["integer", "string"]}]`, `["@", "string"]`, `["@ t", "string"]`, `["mixed", "string"]`, `["enum", "string"]`, `["decimal", "string"]`,
		`["any", "string"]`, `["email", "integer"]`, `["foo", "string"]`, `["", "string"]`, `["Integer", "string"]`, `[@t, "string"]`, `["string", @t]`, `[{type: @t}, "string"]`,
		`["integer", {enum: 5}]`, `["integer", {enum: [1, 1]}]`, `["integer", {enum: [1, [2]]}]`, `["integer", {enum: @e}]`, `["integer", {enum: @nope}]`, `["integer", {enum: {}}]`,
		`["integer", {enum: [1], enum: [2]}]`, `["integer", {min: "a"}]`, `["integer", {minLength: -1}]`, `["integer", {precision: 0}]`, `["integer", {optional: true}]`,
		`["integer", {type: "integer", type: "integer"}]`, `["integer", {foo: 1}]`, `["integer", {foo: [1]}]`, `["integer", {type: 1}]`, `["integer", {type: "mixed"}]`,
		`["integer", {regex: "("}]`, `["integer", {additionalProperties: "foo"}]`, `["integer", "string", "string"]`, `["@t", "@t"]`, `["@t", "@s"]`, `[{type: "@t"}, {type: "@s"}]`,
		`[{type: "@t", nullable: true}, "string"]`, `[{type: "@t", min: 1}, "string"]`, `["integer", {type: "any", const: true}]`, `["integer", {type: "any", const: false}]`,
		`["integer", {nullable: false}]`, `["integer", {const: false, nullable: false}]`, `["integer", {exclusiveMinimum: false}]`, `["integer", {min: 1, max: 1, exclusiveMaximum: true}]`,
		`["integer", {min: 2, max: 1}]`, `["integer", {minLength: 2, maxLength: 1}]`, `["integer", {minItems: 2, maxItems: 1}]`, `["integer", {type: "decimal"}]`,
		`["integer", {type: "decimal", precision: 1}]`, `["integer", {precision: 1}]`, `["integer", {precision: 1, type: "float"}]`, `["integer", {type: "email", minLength: 1}]`,
		`["integer", {type: "enum"}]`, `["integer", {type: "mixed"}]`, `["integer", {enum: [1], type: "enum"}]`, `["integer", {enum: [1], type: "integer"}]`, `["integer", {enum: [1], min: 1}]`},
	"enum": {"1", `"a"`, "true", "null", "{}", "[]", "[1, 1]", "[1, 1.0]", `["a", "a"]`, `["1", 1]`, "[1, [2]]", "[1, {}]", "[[1]]", "@e", "@nope", `[1, @e]`,
		`[5, 2.25, "a@b.cc", true, null, 5]`, "[null, null]", "[true, true]", "[ 1 , 1 ]"},
	"allOf": {"1", "true", "null", `"x"`, `"@"`, `""`, `"@o"`, "[1]", `["x"]`, "[]", "{}", `["@o", 1]`, `["@o", "x"]`, `[["@o"]]`, "@o", `[@o]`, `["@o", "@o"]`, `"@o"`},
	"foo":   {"[1]", "{}", "@t", `{min: 1}`, "[]"},
}

var malformedNames []string

func init() {
	for n := range malformedValues {
		malformedNames = append(malformedNames, n)
	}
	sort.Strings(malformedNames)
}

func ctxFor(r *rand.Rand, name string) ctx {
	pos := positions[r.Intn(3)]
	pick := func(vs ...string) ctx { return ctx{pos, vs[r.Intn(len(vs))]} }
	if r.Intn(5) == 0 {
		return ctx{pos, values[r.Intn(len(values))]}
	}
	switch name {
	case "min", "max", "exclusiveMinimum", "exclusiveMaximum":
		return pick("int", "float")
	case "precision":
		return pick("float")
	case "minLength", "maxLength", "regex":
		return pick("str")
	case "minItems", "maxItems":
		return pick("arr", "arr0")
	case "additionalProperties", "allOf":
		return pick("obj", "obj0")
	}
	return pick("int", "float", "str", "bool", "null", "obj0", "arr0", "ref", "ors")
}

// malformedCase: one rule with a value from malformedValues, alone or with 1-2 well-formed rules of the context
// around it (so that the FIRST error in code order is what is compared).
func malformedCase(r *rand.Rand, k int) rcase {
	name := malformedNames[k%len(malformedNames)]
	vs := malformedValues[name]
	c := ctxFor(r, name)
	rs := []rl{raw(name, vs[(k/len(malformedNames))%len(vs)])}
	rs[0].sp = randomSpelling(r)
	if n := r.Intn(3); n > 0 {
		pool := relevant(c)
		if c.val == "ors" {
			pool = []string{"nullable", "optional", "type"}
		}
		for _, i := range r.Perm(len(pool)) {
			if n == 0 {
				break
			}
			if pool[i] == name && r.Intn(4) != 0 {
				continue
			}
			rs = append(rs, rl{name: pool[i], p: pickParam(r, pool[i], c, r.Intn(3) != 0), sp: randomSpelling(r)})
			n--
		}
		r.Shuffle(len(rs), func(i, j int) { rs[i], rs[j] = rs[j], rs[i] })
	}
	return rcase{c, rs}
}

// shortcutCase: rule sets on `@t | @s` and `@t` nodes around the special cases of MixedValueNode.AddConstraint.
func shortcutCase(r *rand.Rand) rcase {
	c := ctx{positions[r.Intn(3)], []string{"ors", "ors", "ref"}[r.Intn(3)]}
	types := []string{`"mixed"`, `"mixed"`, `"@t"`, `"@s"`, `"integer"`, `"any"`, `"enum"`, `"mixed"`, `"@t | @s"`, `"decimal"`, `"email"`, `"foo"`}
	ors := []string{`["integer", "string"]`, `["float", "boolean"]`, `["@t", "string"]`, `["@s", "@t"]`, `[{type: "integer"}, "string"]`, `["any", "null"]`, `["integer", "mixed"]`, "5", "[]"}
	var rs []rl
	n := 1 + r.Intn(4)
	for i := 0; i < n; i++ {
		switch x := r.Intn(12); {
		case x < 4:
			rs = append(rs, raw("type", types[r.Intn(len(types))]))
		case x < 6:
			rs = append(rs, raw("or", ors[r.Intn(len(ors))]))
		case x < 8:
			rs = append(rs, rl{name: "nullable", p: boolParams()[r.Intn(2)]})
		case x < 9:
			rs = append(rs, rl{name: "optional", p: boolParams()[r.Intn(2)]})
		case x < 10:
			rs = append(rs, rl{name: "const", p: boolParams()[r.Intn(2)]})
		case x < 11:
			nm := []string{"min", "enum", "precision", "minLength", "allOf", "additionalProperties", "foo"}[r.Intn(7)]
			rs = append(rs, rl{name: nm, p: params(nm, c)[0]})
		default:
			rs = append(rs, raw("enum", `[1, "a"]`))
		}
	}
	for i := range rs {
		rs[i].sp = randomSpelling(r)
	}
	return rcase{c, rs}
}

// ---------------------------------------------------------------------------
// evaluation
// ---------------------------------------------------------------------------

type pending struct {
	req, text, key string
	c              ctx
	real           verdict
	specKnown      bool
	want           bool
	class          string // known-finding class of the case, for the comparison with the statement-level predicate
}

type outcome struct {
	key        string
	nontrivial bool
	stats      []string
	pend       []pending
	diffs      []vh.Diff
	fatal      bool
}

func replay(c ctx, text string) string {
	var sb strings.Builder
	sb.WriteString("ROOT:\n" + text)
	if strings.Contains(text, enumRuleName) {
		sb.WriteString("\nRULE " + enumRuleName + " = enum " + enumRuleText)
	}
	if usesTypes(text) {
		for _, t := range addedTypes {
			sb.WriteString("\nTYPE " + t[0] + " =\n" + t[1])
		}
	}
	sb.WriteString(fmt.Sprintf("\n(context %s/%s)", c.pos, c.val))
	return sb.String()
}

func evalCase(r *rand.Rand, rc rcase, specKnown bool, stream string) outcome {
	n := len(rc.rs)
	o := outcome{key: rc.c.pos + "/" + rc.c.val + " {" + annotation(rc.rs) + "}"}
	add := func(s string) { o.stats = append(o.stats, s) }
	o.nontrivial = n >= 2 || hasGeneratedMembers(rc.rs) || stream == "malformed"
	want := false
	if specKnown {
		want = rulesOK(rc.c, rc.rs)
	}
	add("stream_" + stream)
	add("ctx_" + rc.c.pos)
	add("kind_" + rc.c.val)
	add(fmt.Sprintf("size_%d", n))
	perms := permsFor(r, n)
	variants := make([][]rl, 0, len(perms)+2)
	for _, p := range perms {
		rs := make([]rl, n)
		for i, j := range p {
			rs[i] = rc.rs[j]
		}
		variants = append(variants, rs)
	}
	if hasGeneratedMembers(rc.rs) { // the rules INSIDE the member rule-sets reordered
		variants = append(variants, innerReordered(r, rc.rs, true), innerReordered(r, rc.rs, false))
	}
	codes := map[int]bool{}
	seenText := map[string]bool{}
	for _, rs := range variants {
		text := schemaText(rc.c, annotation(rs))
		if seenText[text] {
			continue
		}
		seenText[text] = true
		req, why := request(rc.c, text)
		v := check(text)
		if v.timeout {
			o.diffs = append(o.diffs, vh.Diff{Component: "C08-model", Input: replay(rc.c, text), Impl: "TIMEOUT", Model: "Check terminates"})
			o.fatal = true
			return o
		}
		if req == "" {
			add("not_modelled_" + why)
			continue
		}
		if v.ok {
			codes[-100] = true
		} else {
			codes[v.code] = true
		}
		o.pend = append(o.pend, pending{req: req, text: text, key: o.key, c: rc.c, real: v, specKnown: specKnown, want: want, class: knownRefTypeOr(rc)})
	}
	if len(codes) > 1 {
		ok := codes[-100]
		if ok {
			add("verdict_differs_across_orderings")
		} else {
			add("error_code_differs_across_orderings")
		}
	}
	return o
}

const ruleText = "one annotated node: contexts {root, object property, array item} x {integer, float, string, boolean, null, empty object, object, empty array, array, `@t` type shortcut, `@t | @s` or shortcut} x ordered rule lists; " +
	"streams: every single rule x parameter x context, K-C08-ref-type-or sets, near-miss names (17 ways), sampled sets of 2-3 rules (thorough: up to 12), sets with a duplicated rule, generated or values (anchor + 1-2 rule-set members over the companion matrix), " +
	"malformed values (20 rule names x 5-80 ill-kinded / out-of-range / oddly spelled values, alone and among 1-2 well-formed rules), shortcut nodes with repeated type rules and or values; " +
	"every set in ALL orderings (<= 4 rules) or 24 sampled ones, member rule-sets reordered too; the driver request is built from the REAL scanner's events of the schema text; " +
	"compared per ordering: model ERR c => Check fails with code c; model OK => Check succeeds or fails with a code outside the model (later stage), and for the c08-rules streams (Check ok <=> rulesOK); nontrivial = at least 2 rules, a multi-rule or member, or a malformed value"

// Run is the entry point of `vh c08-model`.
func Run(args []string) {
	rep := vh.NewReport("c08-model", ruleText)
	debug.SetGCPercent(400)
	type job struct {
		i         int
		rc        *rcase
		specKnown bool
		stream    string
	}
	jobs := make(chan job, 512)
	results := make(chan outcome, 512)
	var wg sync.WaitGroup
	workers := runtime.NumCPU()
	if workers > 16 {
		workers = 16
	}
	thorough := vh.Tier() == "thorough"
	nRandom := vh.Pick(26000, 300000)
	nDup := vh.Pick(4000, 40000)
	nMember := vh.Pick(9000, 90000)
	nMal := vh.Pick(14000, 110000)
	nShort := vh.Pick(6000, 45000)
	gen := func(i int) (rcase, bool, string) {
		r := vh.NewRand((8_100_000_011 + int64(i)) * 2000029)
		switch {
		case i >= nRandom+nDup+nMember+nMal:
			return shortcutCase(r), false, "shortcut"
		case i >= nRandom+nDup+nMember:
			return malformedCase(r, i-(nRandom+nDup+nMember)), false, "malformed"
		case i >= nRandom+nDup:
			return memberCase(r), true, "members"
		case i >= nRandom:
			return randomCase(r, 1+r.Intn(3), true), true, "duplicate"
		}
		size := 2 + r.Intn(2)
		if thorough {
			switch x := r.Intn(100); {
			case x < 25:
				size = 2
			case x < 55:
				size = 3
			case x < 75:
				size = 4
			case x < 87:
				size = 5
			case x < 95:
				size = 6
			default:
				size = 7 + r.Intn(6)
			}
		}
		return randomCase(r, size, false), true, "random"
	}
	for w := 0; w < workers; w++ {
		wg.Add(1)
		go func() {
			defer wg.Done()
			for j := range jobs {
				r := vh.NewRand((9_100_000_011 + int64(j.i)) * 2000029)
				if j.rc != nil {
					results <- evalCase(r, *j.rc, j.specKnown, j.stream)
				} else {
					rc, sk, st := gen(j.i)
					results <- evalCase(r, rc, sk, st)
				}
			}
		}()
	}
	go func() {
		k := 0
		for _, p := range positions {
			for _, v := range values {
				c := ctx{p, v}
				jobs <- job{-1 - k, &rcase{c, nil}, true, "single"}
				k++
				for _, n := range ruleNames {
					for _, pa := range params(n, c) {
						jobs <- job{-1 - k, &rcase{c, []rl{{name: n, p: pa}}}, true, "single"}
						k++
					}
				}
			}
		}
		for _, rc := range knownStream() {
			rc := rc
			jobs <- job{-1 - k, &rc, true, "known"}
			k++
		}
		for _, rc := range nearMissStream() {
			rc := rc
			jobs <- job{-1 - k, &rc, true, "nearmiss"}
			k++
		}
		// every malformed value alone, on a node kind its rule applies to
		for _, name := range malformedNames {
			for vi, t := range malformedValues[name] {
				r := vh.NewRand(int64(7_000_003 + k))
				c := ctxFor(r, name)
				jobs <- job{-1 - k, &rcase{c, []rl{raw(name, t)}}, false, "malformed"}
				k++
				_ = vi
			}
		}
		for i := 0; i < nRandom+nDup+nMember+nMal+nShort; i++ {
			jobs <- job{i, nil, false, ""}
		}
		close(jobs)
		wg.Wait()
		close(results)
	}()

	var batch []pending
	var mu sync.Mutex     // guards rep while answers of the driver are folded in
	var fl sync.WaitGroup // batches in flight
	sem := make(chan struct{}, 2)
	flush := func() {
		if len(batch) == 0 {
			return
		}
		batch0 := batch
		batch = nil
		reqs := make([]string, len(batch0))
		for i, p := range batch0 {
			reqs[i] = p.req
		}
		sem <- struct{}{}
		fl.Add(1)
		go func() {
			defer func() { <-sem; fl.Done() }()
			ans := vh.AskModelSharded(reqs, 8)
			mu.Lock()
			defer mu.Unlock()
			for i, p := range batch0 {
				m := ans[i]
				rep.Stat("compared")
				// `cspec` answers "<model> <specOK> <refTypeClass> <wf>": the Lean statement C08_check_iff_partial on this node
				if f := strings.Fields(m); len(f) >= 4 && (f[0] == "OK" || f[0] == "ERR") {
					k := len(f) - 3
					m = strings.Join(f[:k], " ")
					if f[k+1] == "1" {
						rep.Stat("lean_refTypeClass")
					} else if (f[0] == "OK") != (f[k] == "1") || f[k+2] != "1" {
						rep.AddDiff(vh.Diff{Component: "C08-lean-statement", Level: "correspondence", Input: replay(p.c, p.text), Impl: p.real.text,
							Model: "CR.checkRules = " + m + ", CR.specOK = " + f[k] + ", wf = " + f[k+2] + " (C08_check_iff_partial would fail on this node)", Note: p.req})
					} else {
						rep.Stat("lean_statement_holds")
					}
				}
				switch {
				case m == "OK":
					rep.Stat("model_ok")
					if p.real.ok {
						rep.Stat("model_ok_check_ok")
					} else if modelCodes[p.real.code] {
						rep.AddDiff(vh.Diff{Component: "C08-model", Level: "correspondence", Input: replay(p.c, p.text), Impl: p.real.text,
							Model: "CR.checkRules = OK (the model accepts the rules; the code's error code is one a step of the model produces)", Note: p.req})
					} else {
						rep.Stat("model_ok_later_stage_error")
						rep.Stat(fmt.Sprintf("later_stage_code_%d", p.real.code))
					}
					if p.specKnown && p.real.ok != p.want {
						rep.AddDiff(vh.Diff{Component: "C08-model-spec", Class: p.class, Input: replay(p.c, p.text), Impl: p.real.text,
							Model: fmt.Sprintf("model OK and rulesOK(%s) = %v", p.key, p.want), Note: p.req})
					}
				case strings.HasPrefix(m, "ERR "):
					rep.Stat("model_err")
					rep.Stat("model_code_" + m[4:])
					code, _ := strconv.Atoi(m[4:])
					if p.real.ok || p.real.code != code {
						rep.AddDiff(vh.Diff{Component: "C08-model", Level: "correspondence", Input: replay(p.c, p.text), Impl: p.real.text, Model: "CR.checkRules = " + m, Note: p.req})
					}
					if p.specKnown && p.want {
						rep.AddDiff(vh.Diff{Component: "C08-model-spec", Class: p.class, Input: replay(p.c, p.text), Impl: p.real.text,
							Model: fmt.Sprintf("model %s but rulesOK(%s) = true", m, p.key), Note: p.req})
					}
				default:
					rep.AddDiff(vh.Diff{Component: "C08-model", Level: "correspondence", Input: replay(p.c, p.text), Impl: p.real.text, Model: "driver: " + m, Note: p.req})
				}
			}
		}()
	}
	for o := range results {
		mu.Lock()
		rep.Case(o.key, o.nontrivial)
		for _, s := range o.stats {
			rep.Stat(s)
		}
		for _, d := range o.diffs {
			rep.AddDiff(d)
		}
		mu.Unlock()
		batch = append(batch, o.pend...)
		if len(batch) >= 40000 {
			flush()
		}
		if o.fatal {
			break
		}
	}
	flush()
	fl.Wait()
	rep.Finish()
}
