// Package c09load: harness command `c09-load` — the SPEC side of the text-level C09 / C16 theorems on schema texts whose
// values are type shortcuts (`C16_shortcut_events_of_tree`, `C09_text_loads`, `C09_text_level_links`) against the models
// and against the real library.
//
// The generator builds TREES with layout whose leaves are scalars or type shortcuts (`SE.BST`); the driver word `stree`
// renders the text, evaluates what the tree DENOTES (the event list `sEvsAt`, the compiled tree `cnOf`, the first missing
// name of `CL.visitAll`, `Compile.check` on the spec trees) and runs the models on the text. Compared:
//
//	c09-load:spec-vs-model  (valid stream) the events the tree denotes = the scanner model's events of the text; the
//	                        compiled spec tree = `E2E.loadSchema` of the text; the same for the added types
//	c09-load:events         the scanner model's events = the real scanner's (hook VerifSchemaEvents), every stream
//	c09-load:check          (valid + follow streams) `Compile.check` on the spec trees, with the first missing name,
//	                        against the real AddType + Check(): OK (also for the recursion error 104) / 1302 + name
//	c09-load:text           the text rendered by the driver = the text rendered here
package c09load

import (
	stderrors "errors"
	"fmt"
	"math/rand"
	"regexp"
	"runtime"
	"strings"
	"sync"
	"time"

	"github.com/jsightapi/jsight-schema-go-library/notations/jschema"

	"verifharness/vh"
)

const command = "c09-load"

// ---- trees ----

type alt struct{ s1, s2, name string }

type tree struct {
	kind    byte // 'S' scalar, 'R' shortcut, 'A' array, 'O' object
	tok     string
	first   string
	alts    []alt
	sps     string
	w0      string
	items   []item
	members []member
}

type item struct {
	w1 string
	v  *tree
	w2 string
}

type member struct {
	w1, key, w2, w3 string
	v               *tree
	w4              string
}

func (t *tree) render() string {
	var sb strings.Builder
	switch t.kind {
	case 'S':
		sb.WriteString(t.tok)
	case 'R':
		sb.WriteString("@" + t.first)
		for _, a := range t.alts {
			sb.WriteString(a.s1 + "|" + a.s2 + "@" + a.name)
		}
		sb.WriteString(t.sps)
	case 'A':
		sb.WriteString("[" + t.w0)
		for i, it := range t.items {
			sb.WriteString(it.w1 + it.v.render() + it.w2)
			if i+1 < len(t.items) {
				sb.WriteString(",")
			}
		}
		sb.WriteString("]")
	case 'O':
		sb.WriteString("{" + t.w0)
		for i, m := range t.members {
			sb.WriteString(m.w1 + m.key + m.w2 + ":" + m.w3 + m.v.render() + m.w4)
			if i+1 < len(t.members) {
				sb.WriteString(",")
			}
		}
		sb.WriteString("}")
	}
	return sb.String()
}

func hx(s string) string {
	if s == "" {
		return "-"
	}
	return vh.Hex([]byte(s))
}

func (t *tree) sx() string {
	switch t.kind {
	case 'S':
		return "(S " + hx(t.tok) + ")"
	case 'R':
		var as []string
		for _, a := range t.alts {
			as = append(as, "("+hx(a.s1)+" "+hx(a.s2)+" "+hx(a.name)+")")
		}
		return "(R " + hx(t.first) + " (" + strings.Join(as, " ") + ") " + hx(t.sps) + ")"
	case 'A':
		var is []string
		for _, it := range t.items {
			is = append(is, "("+hx(it.w1)+" "+it.v.sx()+" "+hx(it.w2)+")")
		}
		return "(A " + hx(t.w0) + " (" + strings.Join(is, " ") + "))"
	default:
		var ms []string
		for _, m := range t.members {
			ms = append(ms, "("+hx(m.w1)+" "+hx(m.key)+" "+hx(m.w2)+" "+hx(m.w3)+" "+m.v.sx()+" "+hx(m.w4)+")")
		}
		return "(O " + hx(t.w0) + " (" + strings.Join(ms, " ") + "))"
	}
}

type doc struct {
	w0 string
	t  *tree
	w1 string
}

func (d doc) text() string { return d.w0 + d.t.render() + d.w1 }
func (d doc) sx() string   { return "(doc " + hx(d.w0) + " " + d.t.sx() + " " + hx(d.w1) + ")" }

// ---- generator ----

var pool = []string{"A", "B", "C", "a-b", "a_1", "k9", "Zz", "t"}
var scalars = []string{"1", "0", "-2.5", "12", "\"s\"", "\"\"", "\"a b\"", "true", "false", "null", "3.25", "\"\\n\""}

type gen struct {
	r      *rand.Rand
	dense  bool // little layout
	follow bool // violate `Follow`: blanks behind a shortcut are put into the layout, not into the leaf
	stats  map[string]int
}

func (g *gen) spTab(max int) string {
	n := g.r.Intn(max + 1)
	var sb strings.Builder
	for i := 0; i < n; i++ {
		if g.r.Intn(4) == 0 {
			sb.WriteByte('\t')
		} else {
			sb.WriteByte(' ')
		}
	}
	return sb.String()
}

// ws: blanks; nlFirst: empty or starting with a line break
func (g *gen) ws(nlFirst bool) string {
	if g.dense && g.r.Intn(3) != 0 {
		return ""
	}
	n := g.r.Intn(4)
	var sb strings.Builder
	for i := 0; i < n; i++ {
		switch g.r.Intn(6) {
		case 0:
			sb.WriteString("\n")
		case 1:
			sb.WriteString("\r\n")
		case 2:
			sb.WriteString("\t")
		default:
			sb.WriteString(" ")
		}
	}
	s := sb.String()
	if nlFirst && s != "" && s[0] != '\n' && s[0] != '\r' {
		if g.follow {
			g.stats["follow_violated"]++
			return s
		}
		if g.r.Intn(2) == 0 {
			return "\n" + s
		}
		return "\r\n" + s
	}
	return s
}

func (g *gen) shortcut() *tree {
	t := &tree{kind: 'R'}
	names := g.r.Perm(len(pool))
	t.first = pool[names[0]]
	n := 0
	switch g.r.Intn(5) {
	case 0, 1:
		n = 1
	case 2:
		n = 2
	}
	for i := 0; i < n; i++ {
		t.alts = append(t.alts, alt{g.spTab(2), g.spTab(2), pool[names[i+1]]})
	}
	if !g.follow {
		t.sps = g.spTab(2)
	}
	g.stats[fmt.Sprintf("shortcut_alts_%d", n)]++
	if strings.HasSuffix(t.sps, " ") {
		g.stats["shortcut_ends_with_space"]++
	} else if strings.HasSuffix(t.sps, "\t") {
		g.stats["shortcut_ends_with_tab"]++
	}
	return t
}

func (g *gen) value(depth int) *tree {
	k := g.r.Intn(10)
	switch {
	case depth > 0 && k == 0:
		t := &tree{kind: 'A', w0: g.ws(false)}
		n := g.r.Intn(4)
		for i := 0; i < n; i++ {
			v := g.value(depth - 1)
			t.items = append(t.items, item{g.ws(false), v, g.ws(v.kind == 'R')})
		}
		g.stats["array"]++
		return t
	case depth > 0 && k <= 2:
		t := &tree{kind: 'O', w0: g.ws(false)}
		n := g.r.Intn(4)
		for i := 0; i < n; i++ {
			v := g.value(depth - 1)
			key := fmt.Sprintf("\"k%d\"", i)
			if g.r.Intn(6) == 0 {
				key = fmt.Sprintf("\"\\u004b%d\"", i)
			}
			t.members = append(t.members, member{g.ws(false), key, g.ws(false), g.ws(false), v, g.ws(v.kind == 'R')})
		}
		g.stats["object"]++
		return t
	case k <= 6:
		return g.shortcut()
	default:
		g.stats["scalar"]++
		return &tree{kind: 'S', tok: scalars[g.r.Intn(len(scalars))]}
	}
}

func (g *gen) doc(depth int, container bool) doc {
	var t *tree
	if container {
		for {
			t = g.value(depth)
			if t.kind == 'A' || t.kind == 'O' {
				break
			}
		}
	} else {
		t = g.value(depth)
	}
	return doc{g.ws(false), t, g.ws(t.kind == 'R')}
}

type one struct {
	stream string
	root   doc
	names  []string
	types  []doc
	stats  map[string]int
	mut    string // the mutated text (stream "mutated")
}

var mutAlphabet = []byte("{}[],:\"@|- \t\n\\a1.tn")

func genCase(i int) one {
	r := vh.NewRand(int64(i)*1000211 + 4242)
	g := &gen{r: r, dense: r.Intn(3) == 0, stats: map[string]int{}}
	c := one{stream: "valid", stats: g.stats}
	switch {
	case i%10 == 8:
		c.stream, g.follow = "follow", true
	case i%10 == 9:
		c.stream = "mutated"
	}
	c.root = g.doc(3, r.Intn(5) != 0)
	perm := r.Perm(len(pool))
	n := r.Intn(len(pool))
	if r.Intn(4) == 0 {
		n = len(pool)
	}
	for _, k := range perm[:n] {
		c.names = append(c.names, "@"+pool[k])
		c.types = append(c.types, g.doc(2, false))
	}
	if c.stream == "mutated" {
		c.mut = string(vh.Mutate(r, []byte(c.root.text()), mutAlphabet))
	}
	return c
}

func request(c one) string {
	if c.stream == "mutated" {
		return "sscan E " + hx(c.mut)
	}
	var sb strings.Builder
	sb.WriteString("stree " + c.root.sx() + " (types")
	for i, n := range c.names {
		sb.WriteString(" (" + hx(n) + " " + c.types[i].sx() + ")")
	}
	sb.WriteString(")")
	return sb.String()
}

func input(c one) string {
	if c.stream == "mutated" {
		return "[mutated]\nSCHEMA:\n" + c.mut
	}
	var sb strings.Builder
	sb.WriteString("[" + c.stream + "]\nSCHEMA (file \"root\"):\n" + c.root.text() + "\nTYPES (AddType name = text):")
	for i, n := range c.names {
		sb.WriteString("\n" + n + " = " + c.types[i].text())
	}
	return sb.String()
}

// ---- the real library ----

type docErr interface {
	ErrCode() int
	Message() string
}

var re1302 = regexp.MustCompile(`^Type "([^"]*)" not found`)

const deadline = 20 * time.Second

// realCheck: AddType (in order) + Check; canonical: OK | MISS name | <at> ERR code | PANIC … | TIMEOUT
func realCheck(c one) string {
	ch := make(chan string, 1)
	go func() {
		out := ""
		raw := vh.Recover(func() string {
			s := jschema.New("root", c.root.text())
			for i, n := range c.names {
				if err := s.AddType(n, jschema.New(n, c.types[i].text())); err != nil {
					out = "AddType " + n + ": " + canon(err)
					return ""
				}
			}
			out = canon(s.Check())
			return ""
		})
		if raw != "" {
			out = raw
		}
		ch <- out
	}()
	select {
	case x := <-ch:
		return x
	case <-time.After(deadline):
		return "TIMEOUT"
	}
}

func canon(err error) string {
	if err == nil {
		return "OK"
	}
	var de docErr
	if stderrors.As(err, &de) {
		switch de.ErrCode() {
		case 104:
			return "OK"
		case 1302:
			if m := re1302.FindStringSubmatch(de.Message()); m != nil {
				return "MISS " + m[1]
			}
		}
		return fmt.Sprintf("ERR %d %q", de.ErrCode(), de.Message())
	}
	if strings.Contains(err.Error(), "Infinity recursion detected") {
		return "OK"
	}
	return fmt.Sprintf("ERR other %q", err.Error())
}

type result struct {
	c      one
	events string
	check  string
}

func parse(line string) map[string]string {
	m := map[string]string{}
	for _, p := range strings.Split(line, " | ") {
		p = strings.TrimSpace(p)
		tag, rest := p, ""
		if k := strings.IndexByte(p, ' '); k >= 0 {
			tag, rest = p[:k], p[k+1:]
		}
		m[tag] = rest
	}
	return m
}

func Run(args []string) {
	rep := vh.NewReport(command, "SPEC side of C16_shortcut_events_of_tree / C09_text_loads / C09_text_level_links (driver word `stree`) against the models and the real library. Trees with layout whose leaves are scalars (12 tokens of all kinds) or type shortcuts (names from a pool of 8; 0-2 alternatives with 0-2 spaces / tabs around `|`; 0-2 spaces / tabs behind the last name), arrays and objects of 0-3 entries, depth <= 3, keys \"k0\".. (1 in 6 written with a \\u escape), layout of 0-3 blanks (space, tab, LF, CRLF) at every place JSON allows (1 case in 3 dense), behind a shortcut leaf a line break first; root a container 4 times in 5, else any value; 0-8 added types (1 in 4: all 8) in random order, their texts trees of depth <= 2 of the same class. Streams: valid (8 in 10), follow (1 in 10: the blanks behind a shortcut are put into the layout: outside the class of the events theorem, inside the one of the loader / compile statements), mutated (1 in 10: byte mutation of the root text; scanner model against the real scanner only). nontrivial = all parts agree and the root text holds a shortcut")
	n := vh.Pick(100000, 2000000)
	const batch = 4000
	for done := 0; done < n; done += batch {
		m := batch
		if n-done < m {
			m = n - done
		}
		results := make([]result, m)
		var wg sync.WaitGroup
		next := make(chan int, m)
		for i := 0; i < m; i++ {
			next <- i
		}
		close(next)
		for w := runtime.NumCPU(); w > 0; w-- {
			wg.Add(1)
			go func() {
				defer wg.Done()
				for i := range next {
					c := genCase(done + i)
					x := result{c: c}
					if c.stream == "mutated" {
						b := []byte(c.mut)
						x.events = vh.Recover(func() string { return jschema.VerifSchemaEvents(b) })
					} else {
						b := []byte(c.root.text())
						x.events = vh.Recover(func() string { return jschema.VerifSchemaEvents(b) })
						x.check = realCheck(c)
					}
					results[i] = x
				}
			}()
		}
		wg.Wait()
		reqs := make([]string, m)
		for i, x := range results {
			reqs[i] = request(x.c)
		}
		for i, line := range vh.AskModelSharded(reqs, 16) {
			x := results[i]
			rep.Stat("stream_" + x.c.stream)
			for k, v := range x.c.stats {
				for j := 0; j < v; j++ {
					rep.Stat(k)
				}
			}
			if x.c.stream == "mutated" {
				ok := line == x.events
				rep.Case(reqs[i], false)
				if strings.HasPrefix(line, "ERR") {
					rep.Stat("mutated_scanner_error")
				} else {
					rep.Stat("mutated_accepted")
				}
				if !ok {
					rep.AddDiff(vh.Diff{Component: command + ":events", Input: input(x.c), Impl: x.events, Model: line, Note: reqs[i]})
				}
				continue
			}
			p := parse(line)
			if _, ok := p["T"]; !ok || p["E"] == "" || p["S"] == "" || p["W"] == "" {
				rep.Case(reqs[i], false)
				rep.AddDiff(vh.Diff{Component: command + ":reply", Input: input(x.c), Impl: x.check, Model: line, Note: reqs[i], Level: "correspondence"})
				continue
			}
			good := true
			if p["T"] != hx(x.c.root.text()) {
				good = false
				rep.AddDiff(vh.Diff{Component: command + ":text", Input: input(x.c), Impl: hx(x.c.root.text()), Model: p["T"], Note: reqs[i], Level: "correspondence"})
			}
			if x.c.stream == "valid" || x.c.stats["follow_violated"] == 0 {
				if p["E"] != p["S"] {
					good = false
					rep.AddDiff(vh.Diff{Component: command + ":spec-vs-model", Input: input(x.c), Impl: "scanner model: " + p["S"], Model: "events of the tree: " + p["E"], Note: reqs[i], Level: "correspondence"})
				}
			} else if p["E"] != p["S"] {
				rep.Stat("follow_events_differ_as_expected")
			}
			if p["C"] != "1" || p["TY"] != "1" {
				good = false
				rep.AddDiff(vh.Diff{Component: command + ":spec-vs-model", Input: input(x.c), Impl: "E2E.loadSchema / loadTypes of the texts", Model: "C " + p["C"] + " TY " + p["TY"] + " (" + line + ")", Note: reqs[i], Level: "correspondence"})
			}
			if p["S"] != x.events {
				good = false
				rep.AddDiff(vh.Diff{Component: command + ":events", Input: input(x.c), Impl: x.events, Model: p["S"], Note: reqs[i]})
			}
			model := ""
			switch {
			case p["W"] == "OK" || p["W"] == "ERR 104":
				model = "OK"
			case p["W"] == "ERR 1302":
				model = p["M"]
			default:
				model = p["W"]
			}
			rep.Stat("W_" + strings.ReplaceAll(p["W"], " ", "_"))
			if strings.HasPrefix(p["M"], "MISS") != (p["W"] == "ERR 1302") {
				good = false
				rep.AddDiff(vh.Diff{Component: command + ":spec-vs-model", Input: input(x.c), Impl: "W " + p["W"], Model: "M " + p["M"], Note: reqs[i], Level: "correspondence"})
			}
			if model != x.check {
				good = false
				rep.AddDiff(vh.Diff{Component: command + ":check", Input: input(x.c), Impl: "real AddType + Check() = " + x.check, Model: model + " (" + "W " + p["W"] + ", M " + p["M"] + ")", Note: reqs[i]})
			} else {
				rep.Stat("check_" + strings.Fields(model)[0])
			}
			rep.Case(reqs[i], good && strings.Contains(x.c.root.text(), "@"))
		}
	}
	rep.Finish()
}
