// Package c04: property C04 — Check accepts a schema only if its own EXAMPLE
// obeys its rules.
//
//	(a) for generated plain-JSON schemas with accepted rule combinations:
//	    Check() == nil  ==>  Validate(example text without annotations) == nil
//	(b) for single-rule corruptions of such schemas (the example value violates
//	    exactly the corrupted rule): Check() fails and Position() is the byte
//	    offset of the violating value (of the `[` for item-count rules).
//
// Reading notes (where the statement is silent the unchanged tree decides):
//   - the generator keeps away from values whose reading is ambiguous: string
//     lengths are corrupted so that both the byte count and the rune count
//     violate; enum items never equal the example numerically with another
//     spelling; `type: "float"` on an integer example is not used as a corruption.
//   - a rule inside an added type `@t` has several "own" examples: the type's
//     example and every root value that references the type through
//     {type: "@t"} / an or member. The corruption position must be the offset of
//     ONE OF THE VIOLATING values (usually there is exactly one).
//   - errors raised while a type is attached (AddType compiles pair-ordering
//     rules eagerly) count as the Check failure of the schema.
//   - a rule that NAMES a type ({type: "@t"}, an or member "@t") is a rule like any
//     other: the example must be a value of the named type, whatever rules the root
//     of that type carries (bounds, enum, format, an or set, a further reference).
//     A corrupted member of an or set at a type root that admits only REFERENCING
//     values must be reported at one of those values; edits that make such a member
//     ill-formed in itself (type of another kind next to other rules, min > max) are
//     not used: that is a defect of the type, reported at the type.
//   - (hist.go) the verdict for a root schema must not depend on which other root
//     schemas share its type objects nor on the order in which they were checked.
package c04

import (
	stderrors "errors"
	"fmt"
	"math/rand"
	"regexp"
	"runtime"
	"sort"
	"strings"
	"sync"
	"time"
	"unicode/utf8"

	jlib "github.com/jsightapi/jsight-schema-go-library"
	jdoc "github.com/jsightapi/jsight-schema-go-library/formats/json"
	js "github.com/jsightapi/jsight-schema-go-library/notations/jschema"

	"verifharness/vh"
)

// ---------------------------------------------------------------------------
// running the library
// ---------------------------------------------------------------------------

type verdict struct {
	ok      bool
	code    int
	pos     int
	parsing bool
	msg     string
	timeout bool
}

func (v verdict) String() string {
	switch {
	case v.timeout:
		return "TIMEOUT"
	case v.ok:
		return "OK"
	case v.parsing:
		return fmt.Sprintf("ERR code=%d pos=%d %s", v.code, v.pos, v.msg)
	}
	return "OTHER " + v.msg
}

func toVerdict(err error) verdict {
	if err == nil {
		return verdict{ok: true}
	}
	var pe jlib.ParsingError
	if stderrors.As(err, &pe) {
		return verdict{code: pe.ErrCode(), pos: int(pe.Position()), parsing: true, msg: pe.Message()}
	}
	return verdict{msg: err.Error()}
}

// runLib builds the schema (root + added types), runs Check and — if doc != "" and
// Check succeeded — Validate(doc). All under recover and a deadline.
func runLib(full []string, names []string, doc string) (check verdict, val verdict) {
	type res struct{ c, v verdict }
	ch := make(chan res, 1)
	go func() {
		var out res
		defer func() {
			if r := recover(); r != nil {
				out.c = verdict{msg: fmt.Sprintf("PANIC %v", r)}
			}
			ch <- out
		}()
		s := js.New("root", full[0])
		var first error
		for i, nm := range names {
			if err := s.AddType(nm, js.New(nm, full[i+1])); err != nil && first == nil {
				first = err
			}
		}
		cerr := s.Check()
		if first != nil {
			out.c = toVerdict(first)
			if cerr == nil {
				out.c.msg += " [Check() returned nil after a failed AddType]"
			}
			return
		}
		out.c = toVerdict(cerr)
		if cerr == nil && doc != "" {
			func() {
				defer func() {
					if r := recover(); r != nil {
						out.v = verdict{msg: fmt.Sprintf("PANIC %v", r)}
					}
				}()
				out.v = toVerdict(s.Validate(jdoc.New("doc", doc)))
			}()
		}
	}()
	tm := time.NewTimer(20 * time.Second)
	defer tm.Stop()
	select {
	case r := <-ch:
		return r.c, r.v
	case <-tm.C:
		return verdict{timeout: true}, verdict{}
	}
}

func (s *schema) names() []string {
	out := make([]string, len(s.types))
	for i, t := range s.types {
		out[i] = t.name
	}
	return out
}

// ---------------------------------------------------------------------------
// corruptions
// ---------------------------------------------------------------------------

// example is a value a rule list speaks about.
type example struct {
	kind kind
	lit  string
	num  int64
	sig  int
	str  string
	id   int
	// nullOK: the value is null and the annotation of its own node says nullable: true —
	// such a null is admitted whatever the other rules say, it can violate nothing.
	nullOK bool
}

func exOf(n *node) example {
	e := example{kind: n.kind, lit: n.lit, num: n.num, sig: n.sig, str: n.str, id: n.id}
	if i := findRule(n.rules, "nullable"); i >= 0 && n.rules[i].b && n.kind == kNull {
		e.nullOK = true
	}
	return e
}

func findRule(rs []rule, name string) int {
	for i, r := range rs {
		if r.name == name {
			return i
		}
	}
	return -1
}

// violates: does example e violate rule r (companions rs give the exclusive flags)?
// Only the rule kinds a corruption produces are handled; simple exact checks.
// sure=true: violated under every reading of the rule (string lengths in bytes and in
// runes); sure=false: violated under at least one reading.
func violates(r rule, rs []rule, e example, sure bool) bool {
	flag := func(name string) bool {
		i := findRule(rs, name)
		return i >= 0 && rs[i].b
	}
	if e.kind == kNull && flag("nullable") {
		return false // admitted by nullable: true of the very rule list that is checked
	}
	if e.nullOK && sure {
		// a referencing `null // {type: "@t", nullable: true}`: Validate admits it, Check tests it
		// against the type all the same — it may carry the error, it is not a sure violator.
		return false
	}
	switch r.name {
	case "min":
		if flag("exclusiveMinimum") {
			return e.num <= r.num
		}
		return e.num < r.num
	case "max":
		if flag("exclusiveMaximum") {
			return e.num >= r.num
		}
		return e.num > r.num
	case "exclusiveMinimum":
		i := findRule(rs, "min")
		return r.b && i >= 0 && e.num <= rs[i].num
	case "exclusiveMaximum":
		i := findRule(rs, "max")
		return r.b && i >= 0 && e.num >= rs[i].num
	case "precision":
		return e.sig > r.n
	case "minLength":
		if sure {
			return len(e.str) < r.n
		}
		return utf8.RuneCountInString(e.str) < r.n
	case "maxLength":
		if sure {
			return utf8.RuneCountInString(e.str) > r.n
		}
		return len(e.str) > r.n
	case "regex":
		return !regexp.MustCompile(r.s).MatchString(e.str)
	case "enum":
		for _, it := range r.items {
			if it == e.lit {
				return false
			}
		}
		return true
	case "type":
		return true // corruptions only ever put a type of another kind (or a broken format)
	}
	return false
}

func wrongTypeNames(k kind) []string {
	switch k {
	case kInt:
		return []string{"string", "boolean", "null", "object", "array", "email", "date"}
	case kFloat:
		return []string{"integer", "string", "boolean", "null", "object", "array", "uuid"}
	case kStr:
		return []string{"integer", "float", "boolean", "null", "object", "array"}
	case kBool:
		return []string{"integer", "float", "string", "null", "object", "array", "uri"}
	case kNull:
		return []string{"integer", "float", "string", "boolean", "object", "array", "datetime"}
	case kObj:
		return []string{"array", "string", "integer", "boolean", "null"}
	case kArr:
		return []string{"object", "string", "float", "boolean", "null"}
	}
	return nil
}

func badRegex(r *rand.Rand, exs []example) string {
	cands := []string{"^[0-9]+$", "^$", "^#", "#$", "^.{40,}$"}
	for _, e := range exs {
		cands = append(cands, "^"+regexp.QuoteMeta(e.str)+"#$", "^#"+regexp.QuoteMeta(e.str))
	}
	return cands[r.Intn(len(cands))]
}

// ruleEdits lists the single-rule edits of rule list rs (kind k) after which at
// least one of the examples exs violates the edited rule. `set` stores the new list.
type edit struct {
	desc string
	f    func() ([]rule, rule)
}

func ruleEdits(r *rand.Rand, k kind, rs []rule, exs []example, allowAddType bool) []edit {
	var out []edit
	with := func(i int, nr rule) []rule {
		c := cloneRules(rs)
		c[i] = nr
		return c
	}
	lo, hi := exs[0], exs[0]
	for _, e := range exs {
		if e.num < lo.num {
			lo = e
		}
		if e.num > hi.num {
			hi = e
		}
	}
	for i, ru := range rs {
		i, ru := i, ru
		switch ru.name {
		case "min":
			out = append(out, edit{"min-past", func() ([]rule, rule) {
				// push past one of the examples
				e := exs[r.Intn(len(exs))]
				nr := ru
				nr.num = e.num + 1 + int64(r.Intn(4000))
				if r.Intn(3) == 0 {
					nr.num = e.num + 1
				}
				return with(i, nr), nr
			}})
			if j := findRule(rs, "exclusiveMinimum"); j >= 0 && rs[j].b {
				out = append(out, edit{"min-exclusive-equal", func() ([]rule, rule) {
					nr := ru
					nr.num = lo.num
					return with(i, nr), nr
				}})
			}
		case "max":
			out = append(out, edit{"max-past", func() ([]rule, rule) {
				e := exs[r.Intn(len(exs))]
				nr := ru
				nr.num = e.num - 1 - int64(r.Intn(4000))
				if r.Intn(3) == 0 {
					nr.num = e.num - 1
				}
				return with(i, nr), nr
			}})
			if j := findRule(rs, "exclusiveMaximum"); j >= 0 && rs[j].b {
				out = append(out, edit{"max-exclusive-equal", func() ([]rule, rule) {
					nr := ru
					nr.num = hi.num
					return with(i, nr), nr
				}})
			}
		case "exclusiveMinimum":
			if j := findRule(rs, "min"); j >= 0 && !ru.b && rs[j].num == lo.num {
				out = append(out, edit{"exclusiveMinimum-on", func() ([]rule, rule) {
					nr := ru
					nr.b = true
					return with(i, nr), nr
				}})
			}
		case "exclusiveMaximum":
			if j := findRule(rs, "max"); j >= 0 && !ru.b && rs[j].num == hi.num {
				out = append(out, edit{"exclusiveMaximum-on", func() ([]rule, rule) {
					nr := ru
					nr.b = true
					return with(i, nr), nr
				}})
			}
		case "precision":
			ms := 0
			for _, e := range exs {
				if e.sig > ms {
					ms = e.sig
				}
			}
			if ms >= 2 {
				out = append(out, edit{"precision-below", func() ([]rule, rule) {
					nr := ru
					nr.n = 1 + r.Intn(ms-1)
					return with(i, nr), nr
				}})
			}
		case "minLength":
			out = append(out, edit{"minLength-above", func() ([]rule, rule) {
				e := exs[r.Intn(len(exs))]
				nr := ru
				nr.n = len(e.str) + 1 + r.Intn(3)
				return with(i, nr), nr
			}})
		case "maxLength":
			mr := 0
			for _, e := range exs {
				if c := utf8.RuneCountInString(e.str); c > mr {
					mr = c
				}
			}
			if mr >= 1 {
				out = append(out, edit{"maxLength-below", func() ([]rule, rule) {
					nr := ru
					nr.n = r.Intn(mr)
					return with(i, nr), nr
				}})
			}
		case "regex":
			out = append(out, edit{"regex-mismatch", func() ([]rule, rule) {
				nr := ru
				nr.s = badRegex(r, exs)
				return with(i, nr), nr
			}})
		case "enum":
			out = append(out, edit{"enum-item-replaced", func() ([]rule, rule) {
				e := exs[r.Intn(len(exs))]
				nr := ru
				nr.items = append([]string(nil), ru.items...)
				for j, it := range nr.items {
					if it == e.lit {
						nr.items[j] = replacementItem(r, e, nr.items)
					}
				}
				return with(i, nr), nr
			}})
		case "type":
			if strings.HasPrefix(ru.s, "@") || ru.s == "any" || ru.s == "enum" || ru.s == "mixed" || ru.s == "decimal" {
				continue
			}
			out = append(out, edit{"type-other-kind", func() ([]rule, rule) {
				w := wrongTypeNames(k)
				nr := ru
				nr.s = w[r.Intn(len(w))]
				return with(i, nr), nr
			}})
		}
	}
	if allowAddType && findRule(rs, "type") < 0 && findRule(rs, "enum") < 0 && findRule(rs, "or") < 0 && findRule(rs, "precision") < 0 {
		out = append(out, edit{"type-added-other-kind", func() ([]rule, rule) {
			w := wrongTypeNames(k)
			nr := rule{name: "type", s: w[r.Intn(len(w))]}
			c := cloneRules(rs)
			p := r.Intn(len(c) + 1)
			c = append(c[:p], append([]rule{nr}, c[p:]...)...)
			return c, nr
		}})
	}
	return out
}

func replacementItem(r *rand.Rand, e example, items []string) string {
	for {
		var it string
		switch e.kind {
		case kInt:
			it = fmtScaled(e.num+int64(1+r.Intn(9))*1000, 0)
		case kFloat:
			it = fmtBound(e.num + int64(1+r.Intn(9))*7)
			if !strings.Contains(it, ".") {
				it += ".5"
			}
		case kStr:
			it = quoteJSON(e.str + []string{"x", " ", "_"}[r.Intn(3)])
		case kBool:
			if e.lit == "true" {
				it = "false"
			} else {
				it = "true"
			}
			// the other boolean may already be in the list: fall back to a string
			for _, o := range items {
				if o == it {
					it = quoteJSON(e.lit)
				}
			}
		case kNull:
			it = `"null"`
		}
		dup := false
		for _, o := range items {
			if o == it {
				dup = true
			}
		}
		if !dup {
			return it
		}
		if e.kind == kNull {
			return `"null "`
		}
	}
}

// cand is one applicable corruption of a schema.
type cand struct {
	label  string  // group of the corruption
	desc   string  // which rule is corrupted how
	weight float64 // sampling weight (type-name corruptions apply to every node: thinned out)
	where  string  // nesting signature of the edited node
	class  string  // known-finding class, decided from the structure of the case
	id     int     // the node whose rule list is edited
	build  func() (c *schema, violators []int, ok bool)
}

// sig describes where node id sits: used for the coverage statistics.
func (s *schema) where(id int) string {
	var out string
	var rec func(n *node, path string) bool
	rec = func(n *node, path string) bool {
		if n.id == id {
			out = path
			return true
		}
		for i, k := range n.kids {
			step := "O"
			if n.kind == kArr {
				step = "A0"
				if i > 0 {
					step = "A+"
				}
			}
			if rec(k, path+step+">") {
				return true
			}
		}
		return false
	}
	if rec(s.root, "root:") {
		return out
	}
	for _, t := range s.types {
		if rec(t.root, "type:") {
			return out
		}
	}
	return "?"
}

// keyPath: the classes (keyClass) of the property names on the way from the root of its file down
// to node id, with the depth of the object that holds each name; the last entry is the name the
// node itself is the value of when `direct` is set.
type keyStep struct {
	class string
	depth int
}

func (s *schema) keyPath(id int) (steps []keyStep, direct bool) {
	var rec func(n *node, path []keyStep, dir bool, depth int) bool
	rec = func(n *node, path []keyStep, dir bool, depth int) bool {
		if n.id == id {
			steps, direct = append([]keyStep(nil), path...), dir
			return true
		}
		for i, k := range n.kids {
			if n.kind == kObj {
				if rec(k, append(path, keyStep{keyClass(n.keys[i]), depth}), true, depth+1) {
					return true
				}
			} else if rec(k, path, false, depth+1) {
				return true
			}
		}
		return false
	}
	if rec(s.root, nil, false, 0) {
		return
	}
	for _, t := range s.types {
		if rec(t.root, nil, false, 0) {
			return
		}
	}
	return nil, false
}

// compiledOnly: the corruption violates a rule that only takes effect through the compilation of
// the node (declared type against the kind of the example, a format type, an exclusive flag
// folded into its bound, a type name of an or member).
func compiledOnly(desc string) bool {
	d := strings.TrimPrefix(desc, "or-")
	return strings.HasPrefix(d, "type-") || strings.HasPrefix(d, "format-") || strings.HasPrefix(d, "container-type") ||
		strings.HasPrefix(d, "exclusive") || strings.HasSuffix(d, "-exclusive-equal") || strings.HasPrefix(d, "member-name")
}

// examplesFor: the values the rule list of node n speaks about: the node's own
// value and — for a type root — every referencing value.
func (s *schema) examplesFor(n *node) []example {
	exs := []example{exOf(n)}
	for _, t := range s.types {
		if t.root == n {
			for _, id := range t.refs {
				if rn := s.find(id); rn != nil {
					exs = append(exs, exOf(rn))
				}
			}
		}
	}
	return exs
}

// inconsistent: the bounds of rule list rs contradict each other.
func inconsistent(rs []rule) bool {
	lo, hi := findRule(rs, "min"), findRule(rs, "max")
	if lo >= 0 && hi >= 0 {
		if rs[lo].num > rs[hi].num {
			return true
		}
		ex := false
		for _, nm := range []string{"exclusiveMinimum", "exclusiveMaximum"} {
			if i := findRule(rs, nm); i >= 0 && rs[i].b {
				ex = true
			}
		}
		if ex && rs[lo].num == rs[hi].num {
			return true
		}
	}
	lo, hi = findRule(rs, "minLength"), findRule(rs, "maxLength")
	return lo >= 0 && hi >= 0 && rs[lo].n > rs[hi].n
}

// hasEnumItem: does any enum rule of the schema (on a node or inside an or member) list item?
func (s *schema) hasEnumItem(item string) bool {
	found := false
	var scan func(rs []rule)
	scan = func(rs []rule) {
		for _, r := range rs {
			for _, it := range r.items {
				if it == item {
					found = true
				}
			}
			for _, a := range r.alts {
				scan(a.rules)
			}
		}
	}
	s.walk(func(n *node) { scan(n.rules) })
	return found
}

// violatorIDs: the values that may carry the error position (violating under some
// reading); nil unless at least one value violates under every reading.
func violatorIDs(nr rule, rs []rule, exs []example) []int {
	var out []int
	sure := false
	for _, e := range exs {
		if violates(nr, rs, e, false) {
			out = append(out, e.id)
		}
		if violates(nr, rs, e, true) {
			sure = true
		}
	}
	if !sure {
		return nil
	}
	return out
}

// orContainerClass: known finding K-C04-or-container. The example of n is an empty
// object / array and, once the only member of its kind (index mi) is corrupted, a
// member remains whose JSON type is undetermined (a format type name, or a rule-set
// without `type`): the library lets such a member admit any container.
func orContainerClass(n *node, mi int) string {
	if n.kind != kObj && n.kind != kArr {
		return ""
	}
	for j, a := range n.rules[findRule(n.rules, "or")].alts {
		if j == mi {
			continue
		}
		name := a.name
		if a.rules != nil {
			i := findRule(a.rules, "type")
			if i < 0 {
				return "K-C04-or-container" // rule-set without type
			}
			name = a.rules[i].s
		}
		for _, f := range formatNames {
			if name == f {
				return "K-C04-or-container"
			}
		}
	}
	return ""
}

// candidates enumerates the corruptions of schema s.
func candidates(r *rand.Rand, s *schema) []cand {
	var out []cand
	s.walk(func(n *node) {
		id := n.id
		where := s.where(id)
		isTypeRoot := false
		for _, t := range s.types {
			if t.root == n {
				isTypeRoot = true
			}
		}
		switch {
		case n.kind == kRef:
			// nothing to corrupt on the reference itself
		case n.mode == "or":
			// every member that admits examples (the node's own one; for the root of a type also
			// the values that reach the type through references) is corrupted so that the examples
			// it admitted are admitted by no member any more.
			oi := findRule(n.rules, "or")
			nullableHere := false
			if i := findRule(n.rules, "nullable"); i >= 0 && n.rules[i].b {
				nullableHere = true
			}
			exs := s.examplesFor(n)
			for mi, a := range n.rules[oi].alts {
				mi, a := mi, a
				var aex []example // the examples member mi admits
				sure := false     // one of them is not excused by a nullable: true
				for _, e := range exs {
					if hasID(a.adm, e.id) {
						aex = append(aex, e)
						if !e.nullOK && !(e.kind == kNull && nullableHere) {
							sure = true
						}
					}
				}
				if !sure {
					continue
				}
				var vio []int
				for _, e := range aex {
					vio = append(vio, e.id)
				}
				k := aex[0].kind
				switch {
				case a.rules == nil && !strings.HasPrefix(a.name, "@"):
					out = append(out, cand{label: "or-member-name", desc: "or-member-name-other-kind", weight: 1, where: where, id: id, class: orContainerClass(n, mi), build: func() (*schema, []int, bool) {
						c := s.clone()
						w := wrongTypeNames(k)
						alts := c.find(id).rules[oi].alts
						for tries := 0; tries < 20; tries++ {
							nm := w[r.Intn(len(w))]
							dup := false
							for _, o := range alts {
								if o.rules == nil && o.name == nm {
									dup = true
								}
							}
							if !dup {
								alts[mi].name = nm
								return c, vio, true
							}
						}
						return nil, nil, false
					}})
				case a.rules != nil && !(len(a.rules) == 1 && strings.HasPrefix(a.rules[0].s, "@")):
					for _, e := range ruleEdits(r, k, a.rules, aex, false) {
						e := e
						if strings.HasPrefix(e.desc, "type-") && !a.match && len(a.rules) > 1 {
							// a member for referencing values only: a type of another kind next to the
							// member's other rules is an ill-formed rule-set of the TYPE (reported there),
							// not a violation by the referencing value
							continue
						}
						out = append(out, cand{label: "or-member-rule", desc: "or-" + e.desc, weight: 1, where: where, id: id, class: orContainerClass(n, mi), build: func() (*schema, []int, bool) {
							nrs, nr := e.f()
							v := violatorIDs(nr, nrs, aex)
							if len(v) == 0 {
								return nil, nil, false
							}
							if !a.match && inconsistent(nrs) {
								return nil, nil, false // same reason: min > max is a defect of the type's rule-set
							}
							c := s.clone()
							c.find(id).rules[oi].alts[mi].rules = nrs
							return c, v, true
						}})
					}
				}
				// a member that is a user type is corrupted through the type root (label type-rule)
			}
		case n.kind == kObj || n.kind == kArr:
			cnt := len(n.kids)
			if n.mode == "plain" {
				if i := findRule(n.rules, "minItems"); i >= 0 {
					out = append(out, cand{label: "item-count", desc: "minItems-above", weight: 1, where: where, id: id, build: func() (*schema, []int, bool) {
						c := s.clone()
						c.find(id).rules[i].n = cnt + 1 + r.Intn(3)
						return c, []int{id}, true
					}})
				}
				if i := findRule(n.rules, "maxItems"); i >= 0 && cnt >= 1 {
					out = append(out, cand{label: "item-count", desc: "maxItems-below", weight: 1, where: where, id: id, build: func() (*schema, []int, bool) {
						c := s.clone()
						c.find(id).rules[i].n = r.Intn(cnt)
						return c, []int{id}, true
					}})
				}
				k := n.kind
				rs := n.rules
				out = append(out, cand{label: "container-type", desc: "container-type-other-kind", weight: 0.12, where: where, id: id, build: func() (*schema, []int, bool) {
					c := s.clone()
					w := wrongTypeNames(k)
					nr := rule{name: "type", s: w[r.Intn(len(w))]}
					cn := c.find(id)
					if i := findRule(rs, "type"); i >= 0 {
						cn.rules[i] = nr
					} else {
						p := r.Intn(len(cn.rules) + 1)
						cn.rules = append(cn.rules[:p], append([]rule{nr}, cn.rules[p:]...)...)
					}
					return c, []int{id}, true
				}})
			}
		case n.mode == "plain" || n.mode == "enum":
			exs := s.examplesFor(n)
			edits := ruleEdits(r, n.kind, n.rules, exs, true)
			for _, e := range edits {
				e := e
				lbl := "leaf"
				if isTypeRoot {
					lbl = "type-rule"
				}
				w := 1.0
				if strings.HasPrefix(e.desc, "type-") {
					w = 0.25
				}
				out = append(out, cand{label: lbl, desc: e.desc, weight: w, where: where, id: id, build: func() (*schema, []int, bool) {
					nrs, nr := e.f()
					v := violatorIDs(nr, nrs, exs)
					if len(v) == 0 {
						return nil, nil, false
					}
					c := s.clone()
					c.find(id).rules = nrs
					return c, v, true
				}})
			}
			if ri := findRule(n.rules, "regex"); ri >= 0 && n.kind == kStr && n.mode == "plain" {
				// the EXAMPLE is moved across the boundary of the expression (the edits above move the rule):
				// a string derived from the good example — prefix, suffix, line break, one character
				// replaced / deleted / inserted, case, doubled — that the expression does not match any more
				re, err := regexp.Compile(n.rules[ri].s)
				lbl := "leaf"
				if isTypeRoot {
					lbl = "type-rule"
				}
				good := n.str
				if err == nil {
					out = append(out, cand{label: lbl, desc: "regex-example-derived", weight: 1, where: where, id: id, build: func() (*schema, []int, bool) {
						for tries := 0; tries < 8; tries++ {
							t, _ := derive(r, good, -1)
							if printable(t) && !re.MatchString(t) {
								c := s.clone()
								cn := c.find(id)
								cn.str, cn.lit, cn.fmt = t, quoteJSON(t), ""
								return c, []int{id}, true
							}
						}
						return nil, nil, false
					}})
				}
			}
		case n.mode == "format":
			i := findRule(n.rules, "type")
			f := n.rules[i].s
			exs := s.examplesFor(n) // the node's own string and the strings that reference the type
			for _, e := range exs {
				e := e
				if e.kind != kStr {
					continue
				}
				lbl := "format"
				if e.id != id {
					lbl = "type-rule"
				}
				out = append(out, cand{label: lbl, desc: "format-broken-" + f, weight: 1 / float64(len(exs)), where: where, id: id, build: func() (*schema, []int, bool) {
					c := s.clone()
					cn := c.find(e.id)
					// a broken text that is not longer than the good one (a longer one might satisfy a
					// minLength member of an or set on the way) and is no item of any enum
					// two times in three the broken text is DERIVED from the boundary of the format (fmtstream.go: month
					// lengths and leap years, field bounds, uuid anomalies, address / uri parts; rejected by
					// the oracle of the harness), the others come from the fixed list of broken strings
					var bad []string
					for _, b := range formatBad[f] {
						if len(b) <= len(cn.str) && !c.hasEnumItem(quoteJSON(b)) {
							bad = append(bad, b)
						}
					}
					if r.Intn(3) != 0 {
						if b := derivedBad(r, f, len(cn.str)); b != "" && !c.hasEnumItem(quoteJSON(b)) {
							bad = []string{b}
						}
					}
					if len(bad) == 0 {
						return nil, nil, false
					}
					cn.str = bad[r.Intn(len(bad))]
					cn.lit = quoteJSON(cn.str)
					cn.fmt = ""
					return c, []int{e.id}, true
				}})
			}
			k := n.kind
			out = append(out, cand{label: "format", desc: "format-type-other-kind", weight: 0.5, where: where, id: id, build: func() (*schema, []int, bool) {
				c := s.clone()
				w := wrongTypeNames(k)
				c.find(id).rules[i].s = w[r.Intn(len(w))]
				var v []int
				for _, e := range exs {
					v = append(v, e.id)
				}
				return c, v, true
			}})
		}
	})
	return out
}

// knownOrMinItems builds the dedicated stream of the known finding K-C04-or-minitems:
// an empty-array example whose or member {type: "array", minItems >= 1} it violates.
func knownOrMinItems(r *rand.Rand, variant int) (*schema, int) {
	s := &schema{lead: []string{[]string{"", " ", "\n"}[r.Intn(3)]}}
	g := &gen{r: r, s: s, budget: 12}
	arr := g.newNode(kArr)
	arr.mode = "or"
	member := alt{rules: []rule{{name: "type", s: "array"}, {name: "minItems", n: 1 + r.Intn(3)}}, match: true, adm: []int{arr.id}}
	if r.Intn(2) == 0 {
		member.rules[0], member.rules[1] = member.rules[1], member.rules[0]
	}
	others := []alt{{name: "string"}, {name: "integer"}, {rules: []rule{{name: "type", s: "boolean"}}}, {name: "null"}, {name: "object"}}
	alts := []alt{member, others[r.Intn(len(others))]}
	if r.Intn(2) == 0 {
		alts[0], alts[1] = alts[1], alts[0]
	}
	arr.rules = []rule{{name: "or", alts: alts}}
	switch variant % 4 {
	case 0:
		s.root = arr
	case 1:
		o := g.newNode(kObj)
		o.multi = false
		o.keys = []string{"a", "k"}
		o.kids = []*node{g.scalar(true, 1), arr}
		arr.rules = g.companions(arr.rules, true)
		s.root = o
	case 2:
		a := g.newNode(kArr)
		a.kids = []*node{g.scalar(false, 1), arr}
		if r.Intn(2) == 0 {
			a.kids = append(a.kids, g.scalar(false, 1))
		}
		s.root = a
	default:
		s.root = g.value(0, 2, false)
		if s.root.kind != kObj && s.root.kind != kArr {
			a := g.newNode(kArr)
			a.kids = []*node{s.root}
			s.root = a
		}
		// graft the array into a random container
		var conts []*node
		s.root.walk(func(n *node) {
			if (n.kind == kObj || n.kind == kArr) && n.mode == "plain" {
				conts = append(conts, n)
			}
		})
		if len(conts) == 0 {
			s.root = arr
			return s, arr.id
		}
		c := conts[r.Intn(len(conts))]
		if c.kind == kObj {
			c.keys = append(c.keys, "grafted")
		}
		c.kids = append(c.kids, arr)
		// item-count rules of the host would now be wrong: drop them
		keep := c.rules[:0]
		for _, ru := range c.rules {
			if ru.name != "minItems" && ru.name != "maxItems" {
				keep = append(keep, ru)
			}
		}
		c.rules = keep
	}
	return s, arr.id
}

// ---------------------------------------------------------------------------
// the command
// ---------------------------------------------------------------------------

type outcome struct {
	key        string
	nontrivial bool
	stats      []string
	diffs      []vh.Diff
	fatal      bool
}

func caseRand(stream, i int) *rand.Rand {
	return vh.NewRand((int64(stream)*1_000_000_007 + int64(i)) * 2000029)
}

func countRules(s *schema) (annotated int, maxDepth int) {
	s.walk(func(n *node) {
		if len(n.rules) > 0 {
			annotated++
		}
		if n.depth > maxDepth {
			maxDepth = n.depth
		}
	})
	return
}

func expectPositions(c *schema, violators []int) []int {
	var out []int
	for _, id := range violators {
		if n := c.find(id); n != nil {
			out = append(out, n.off)
		}
	}
	sort.Ints(out)
	return out
}

func imin(a, b int) int {
	if a < b {
		return a
	}
	return b
}

func contains(xs []int, x int) bool {
	for _, y := range xs {
		if x == y {
			return true
		}
	}
	return false
}

// oneSchema: part (a) on schema number i and up to `nc` corruptions of it.
func oneSchema(i int, shortcuts bool, nc int) []outcome {
	stream := 1
	if shortcuts {
		stream = 2
	}
	r := caseRand(stream, i)
	s := genSchema(r, shortcuts)
	full, plain := s.render()
	doc := plain[0]
	if s.hasShortcut {
		doc = ""
	}
	chk, val := runLib(full, s.names(), doc)
	input := s.inputText(full)
	o := outcome{key: input}
	annotated, depth := countRules(s)
	add := func(st string) { o.stats = append(o.stats, st) }
	add(fmt.Sprintf("a_depth_%d", depth))
	add(fmt.Sprintf("a_types_%d", imin(len(s.types), 4)))
	if s.hasShortcut {
		add("a_with_shortcuts(validate skipped)")
	}
	s.walk(func(n *node) {
		if len(n.rules) > 0 {
			add("a_node_mode_" + n.mode + "_" + n.kind.name())
			if n.multi {
				add("a_annotation_multiline")
			} else {
				add("a_annotation_inline")
			}
		}
		for _, ru := range n.rules {
			add("a_rule_" + ru.name)
		}
		for _, k := range n.keys {
			add("a_key_" + keyClass(k))
			if c := keyClass(k); c != "ordinary" {
				add(fmt.Sprintf("a_special_key_at_depth_%d", n.depth))
			}
		}
	})
	var outs []outcome
	switch {
	case chk.timeout:
		o.diffs = append(o.diffs, vh.Diff{Component: "C04-example-valid", Input: input, Impl: "TIMEOUT", Model: "Check terminates"})
		o.fatal = true
		return []outcome{o}
	case !chk.ok:
		add("a_check_rejected(generator produced an unaccepted combination)")
		add(fmt.Sprintf("a_check_rejected_code_%d", chk.code))
		if !chk.parsing {
			o.diffs = append(o.diffs, vh.Diff{Component: "C04-example-valid", Input: input, Impl: chk.String(), Model: "Check returns nil or a ParsingError"})
		}
		return []outcome{o}
	}
	add("a_check_ok")
	o.nontrivial = annotated >= 2
	if doc != "" {
		if val.ok {
			add("a_validate_ok")
		} else {
			o.diffs = append(o.diffs, vh.Diff{Component: "C04-example-valid", Input: input + "\nDOCUMENT (example without annotations):\n" + doc,
				Impl: "Check() = nil, Validate(example) = " + val.String(), Model: "Check() = nil implies Validate(example) = nil"})
		}
	}
	outs = append(outs, o)

	// (b) corruptions: weighted sample without replacement
	cands := candidates(r, s)
	for done := 0; done < nc && len(cands) > 0; {
		total := 0.0
		for _, c := range cands {
			total += c.weight
		}
		x := r.Float64() * total
		k := 0
		for k < len(cands)-1 && x >= cands[k].weight {
			x -= cands[k].weight
			k++
		}
		c := cands[k]
		cands = append(cands[:k], cands[k+1:]...)
		cs, violators, ok := c.build()
		if !ok {
			continue
		}
		done++
		outs = append(outs, runCorruption(cs, violators, c.label, c.desc, c.where, c.class, c.id))
	}
	return outs
}

func runCorruption(cs *schema, violators []int, label, desc, where, class string, edited int) outcome {
	cfull, _ := cs.render()
	want := expectPositions(cs, violators)
	cchk, _ := runLib(cfull, cs.names(), "")
	cin := cs.inputText(cfull)
	co := outcome{key: cin}
	add := func(st string) { co.stats = append(co.stats, st) }
	if desc == "" {
		desc = label
	}
	add("b_kind_" + desc)
	add("b_label_" + label)
	if strings.HasPrefix(where, "type:") {
		add("b_pos_inside_added_type")
	}
	if strings.Contains(where, "A+>") {
		add("b_pos_under_array_element_after_first")
	}
	if strings.Contains(where, "A0>O>") || strings.Contains(where, "A+>O>") {
		add("b_pos_object_inside_array")
	}
	if strings.Contains(where, "O>A") {
		add("b_pos_array_inside_object")
	}
	if strings.HasPrefix(label, "or-") {
		add("b_pos_or_member")
	}
	add(fmt.Sprintf("b_nesting_%d", strings.Count(where, ">")))
	if len(want) > 1 {
		add("b_several_violating_values")
	}
	if strings.HasPrefix(where, "type:") {
		foreign := 0
		for _, v := range violators {
			if v != edited {
				foreign++
			}
		}
		if en := cs.find(edited); en != nil && foreign > 0 {
			add("b_type_root_" + en.mode + "_violated_by_referencing_value")
			if foreign == len(violators) {
				add("b_type_root_" + en.mode + "_violated_ONLY_by_referencing_values")
			}
		}
	}
	// the names of the properties the violating values sit under / below
	seen := map[string]bool{}
	once := func(st string) {
		if !seen[st] {
			seen[st] = true
			add(st)
		}
	}
	for _, v := range violators {
		steps, direct := cs.keyPath(v)
		for i, st := range steps {
			if st.class == "ordinary" {
				continue
			}
			rel := "below"
			if direct && i == len(steps)-1 {
				rel = "directly_under"
			}
			once("b_violator_" + rel + "_key_" + st.class)
			once(fmt.Sprintf("b_violator_under_special_key_at_depth_%d", st.depth))
			if compiledOnly(desc) {
				once("b_compiled_only_rule_violated_under_key_" + st.class)
			}
		}
	}
	co.nontrivial = strings.Count(where, ">") >= 1 || strings.HasPrefix(where, "type:") || strings.HasPrefix(label, "or-")
	model := fmt.Sprintf("Check() fails with Position() in %v (offset of the violating value) [%s at %s]", want, desc, where)
	switch {
	case cchk.timeout:
		co.diffs = append(co.diffs, vh.Diff{Component: "C04-corruption-accepted", Input: cin, Impl: "TIMEOUT", Model: model, Class: class})
		co.fatal = true
	case cchk.ok:
		co.diffs = append(co.diffs, vh.Diff{Component: "C04-corruption-accepted", Input: cin, Impl: "Check() = nil", Model: model, Class: class})
	case !cchk.parsing:
		co.diffs = append(co.diffs, vh.Diff{Component: "C04-corruption-position", Input: cin, Impl: cchk.String(), Model: model + " (a ParsingError)", Class: class})
	case !contains(want, cchk.pos):
		co.diffs = append(co.diffs, vh.Diff{Component: "C04-corruption-position", Input: cin, Impl: cchk.String(), Model: model, Class: class})
	default:
		add(fmt.Sprintf("b_rejected_code_%d", cchk.code))
	}
	return co
}

func oneKnown(i int) []outcome {
	r := caseRand(3, i)
	s, id := knownOrMinItems(r, i)
	full, _ := s.render()
	// the base (minItems: 0) must be a good schema, otherwise the case says nothing
	base := s.clone()
	bn := base.find(id)
	oi := findRule(bn.rules, "or")
	for j := range bn.rules[oi].alts {
		if bn.rules[oi].alts[j].match {
			rs := bn.rules[oi].alts[j].rules
			rs[findRule(rs, "minItems")].n = 0
		}
	}
	bfull, _ := base.render()
	bchk, _ := runLib(bfull, base.names(), "")
	if !bchk.ok {
		return []outcome{{key: s.inputText(full), stats: []string{"k_base_rejected(skipped)"}}}
	}
	o := runCorruption(s, []int{id}, "or-member-rule", "or-array-minItems-above(empty array)", s.where(id), "K-C04-or-minitems", id)
	o.stats = append(o.stats, "k_or_minitems_cases")
	return []outcome{o}
}

const ruleText = "random example trees (objects/arrays/scalars, depth<=4, <=36 nodes, random leading blanks; property names are arbitrary JSON strings: 40% of the names at every depth look like another syntactic class when quoted — " +
	"user type names (\"@id\", \"@t1\"), comment / annotation openers (\"#x\", \"//\", \"/*\"), names that begin / end with an escaped double quote, the empty name, escape sequences incl. \\uXXXX spellings of the former, rule / type names and literals (\"or\", \"enum\", \"type\", \"null\"), structural characters) " +
	"whose nodes carry rule lists valid for their example: " +
	"min/max with exclusive flags, precision(+decimal), minLength/maxLength, regex, inline enum, const, formats, declared types, nullable, optional, minItems/maxItems, additionalProperties, " +
	"or sets (type names, rule-sets, enum rule-sets, user types; exactly one member admits the example), type:any, {type:@t} / or-member references to generated scalar types " +
	"whose ROOT carries rules of every scalar kind (bounds, lengths, regex, enum, format, type any, an or set whose members admit the type's own example and the referencing values — possibly of another kind, by another member —, " +
	"a reference to a further type; several values may name one type); inline and multi-line annotations. " +
	"(a) Check ok => Validate(text without annotations) ok; nontrivial = Check ok and >=2 annotated nodes. " +
	"(b) <=3 single-rule corruptions per good schema (second stream: schemas with `@t` value shortcuts to structured types, corruption only): Check must fail at the offset of a violating value; " +
	"(a rule at the root of a type is corrupted so that the type's own example and/or the values that reach it through references violate it); " +
	"nontrivial = corrupted node nested, inside an added type, or inside an or member. (k) dedicated stream of the known finding K-C04-or-minitems. " +
	"(h) histories: 2-3 root schemas sharing type OBJECTS (a shared structure placed by shortcut whose scalars name scalar types; scalar types naming types), each root binding the names to its own or shared objects, " +
	"some roots with one corrupted binding violated by a value inside a shared object; build/Check calls in several orders and their reverses: every root's Check must fail at the violating value / succeed exactly as with fresh objects; " +
	"nontrivial = good and bad roots sharing at least one object. " +
	"(f) EXAMPLE values at the boundary of a format / a regular expression (fmtstream.go, generators of x/sem-rules-full): one string example under `type: F` (F = date / datetime / uuid / email / uri), under an or list of format names / {type: F} rule-sets / a {type: string, regex} rule-set / type names of other kinds, or under `regex` (expression built from parts: literals, classes, groups, quantifiers, 20 anchor forms, flags, top-level alternation, degenerate expressions); " +
	"the string is DERIVED: dates one day around the end of every month in leap / common / century years (1900, 2000, 2100 ...), day 0 / 32, month 0 / 13, unpadded fields, other separators, full-width digits; datetimes the same plus hour 23 / 24, minute and second 59 / 60, fraction of 9 / 10 digits, zone bounds and zone forms; uuids in four forms with one anomaly (length -1 / +1, character next to the hex ranges, hyphen moved, braces unbalanced, urn prefix altered, multi-byte character); e-mail local x domain x wrapper; uri scheme x separator x authority x tail; " +
	"for every format and for the strings that match a regex body: prefix, suffix, both, line break after / before, CRLF, one character replaced by a neighbour / deleted / inserted, case changed, doubled, empty; good values of the same and of other formats. " +
	"Verdict by an oracle evaluated in the harness (calendar cross-checked with time.Parse, RFC 3339 by time.Parse, the four uuid forms, net/mail without blank / angle-bracket wrapping, net/url absolute with host, regexp.MatchString): REJECTED => Check fails at the offset of the example; ACCEPTED => Check succeeds and the plain-JSON example validates. " +
	"Placement: root, property, array item (first / later, next to a good sibling under the same rule), grafted anywhere into a generated schema (also inside a structured type placed by shortcut); the rule on the example itself, behind {type: @T} or an or member @T (one or two hops), or the example is that of an added type (referenced by a good value, placed by a value shortcut, or unreferenced). " +
	"The main stream uses the same derivations: good format examples are boundary-built values the oracle accepts, two in three format-broken corruptions are boundary-built values it rejects, regex-example-derived moves the example (not the rule) across the expression. Stats f_*."

// Run is the entry point of `vh c04-check-example`.
func Run(args []string) {
	rep := vh.NewReport("c04-check-example", ruleText)
	nPlain := vh.Pick(10000, 250000)
	nShort := vh.Pick(1500, 40000)
	nKnown := vh.Pick(40, 400)
	nHist := vh.Pick(2500, 60000)
	nFmt := vh.Pick(16000, 400000)
	type job struct {
		stream, i int
	}
	jobs := make(chan job, 256)
	results := make(chan []outcome, 256)
	var wg sync.WaitGroup
	workers := runtime.NumCPU()
	if workers > 16 {
		workers = 16
	}
	for w := 0; w < workers; w++ {
		wg.Add(1)
		go func() {
			defer wg.Done()
			for j := range jobs {
				switch j.stream {
				case 1:
					results <- oneSchema(j.i, false, 3)
				case 2:
					results <- oneSchema(j.i, true, 3)
				case 4:
					results <- oneHistory(j.i)
				case 5:
					results <- oneFormat(j.i)
				default:
					results <- oneKnown(j.i)
				}
			}
		}()
	}
	go func() {
		for i := 0; i < nPlain; i++ {
			jobs <- job{1, i}
		}
		for i := 0; i < nShort; i++ {
			jobs <- job{2, i}
		}
		for i := 0; i < nKnown; i++ {
			jobs <- job{3, i}
		}
		for i := 0; i < nHist; i++ {
			jobs <- job{4, i}
		}
		for i := 0; i < nFmt; i++ {
			jobs <- job{5, i}
		}
		close(jobs)
		wg.Wait()
		close(results)
	}()
	for outs := range results {
		for _, o := range outs {
			rep.Case(o.key, o.nontrivial)
			for _, st := range o.stats {
				rep.Stat(st)
			}
			for _, d := range o.diffs {
				cl := d.Class
				if cl == "" {
					cl = "UNCLASSIFIED"
				}
				rep.Stat("diff_" + d.Component + "_" + cl)
				rep.AddDiff(d)
			}
			if o.fatal { // a timeout ends the run
				rep.Finish()
				return
			}
		}
	}
	rep.Finish()
}
