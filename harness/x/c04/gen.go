package c04

import (
	"encoding/json"
	"fmt"
	"math/rand"
	"regexp"
	"strconv"
	"strings"
	"sync"
	"unicode/utf8"
)

// ---------------------------------------------------------------------------
// Data model of a generated schema: a plain-JSON example tree whose nodes carry
// rule lists; the printer writes the JSight text and records every offset.
// ---------------------------------------------------------------------------

type kind int

const (
	kInt kind = iota
	kFloat
	kStr
	kBool
	kNull
	kObj
	kArr
	kRef // type shortcut `@t` in value position (corruption stream only)
)

func (k kind) name() string {
	return [...]string{"integer", "float", "string", "boolean", "null", "object", "array", "ref"}[k]
}

// rule is one `name: value` entry of an annotation (or of an or rule-set).
type rule struct {
	name  string
	num   int64    // min / max: value scaled by 1000
	n     int      // minLength maxLength precision minItems maxItems
	b     bool     // exclusiveMinimum exclusiveMaximum const nullable optional
	s     string   // type (unquoted name), regex (pattern), additionalProperties (raw text)
	items []string // enum: item texts as printed
	alts  []alt    // or
}

// alt is one member of an or set: a quoted type name or an inline rule-set.
type alt struct {
	name  string // "integer" | "@t3" … (printed as a string) when rules == nil
	rules []rule
	match bool // the node's example is admitted by this member (by construction)
	// adm: ids of ALL the examples this member admits: the node's own one (match) and — when the
	// node is the root of a user type — the values that reach the type through a rule
	// ({type: "@t"} / an or member, directly or through other types). By construction every such
	// example is admitted by exactly one member.
	adm []int
}

type node struct {
	id    int
	kind  kind
	lit   string   // scalar literal text as printed (quoted for strings); "@t" for kRef
	num   int64    // numbers: value scaled by 1000
	sig   int      // numbers: significant fraction digits (trailing zeros dropped)
	str   string   // strings: content (printed without escapes)
	keys  []string // objects: property names in their RAW spelling (the text between the double quotes, escapes included)
	kids  []*node
	rules []rule
	mode  string // plain | enum | or | any | ref | format | shortcut
	fmt   string // strings: the content is a valid example of this format ("" = arbitrary content)
	multi bool   // annotation style /* … */ on several lines
	qn    bool   // rule names quoted
	// set by the printer
	off  int
	file int // 0 = root, i+1 = types[i]
	// bookkeeping for the report
	depth int
}

type typ struct {
	name string
	root *node
	// refs: ids of the scalar nodes whose value the rules of this type speak about: nodes that name the
	// type in a rule ({type:"@t"} or an or member) and, transitively, the nodes that name a type whose
	// root names this one (`@t1 = 5 // {type: "@t2"}`: a value ruled by @t1 is ruled by @t2 too).
	refs []int
}

type schema struct {
	root        *node
	types       []*typ
	lead        []string // leading blanks per file
	hasShortcut bool
	nextID      int
	nextType    int
}

// ---------------------------------------------------------------------------
// number / string helpers
// ---------------------------------------------------------------------------

func fmtScaled(v int64, frac int) string {
	neg := v < 0
	a := v
	if neg {
		a = -a
	}
	s := strconv.FormatInt(a/1000, 10)
	if frac > 0 {
		s += "." + fmt.Sprintf("%03d", a%1000)[:frac]
	}
	if neg {
		s = "-" + s
	}
	return s
}

// minimal decimal text of a scaled value.
func fmtBound(v int64) string {
	a := v
	if a < 0 {
		a = -a
	}
	fr := a % 1000
	switch {
	case fr == 0:
		return fmtScaled(v, 0)
	case fr%100 == 0:
		return fmtScaled(v, 1)
	case fr%10 == 0:
		return fmtScaled(v, 2)
	}
	return fmtScaled(v, 3)
}

func sigDigits(v int64) int {
	a := v
	if a < 0 {
		a = -a
	}
	fr := a % 1000
	switch {
	case fr == 0:
		return 0
	case fr%100 == 0:
		return 1
	case fr%10 == 0:
		return 2
	}
	return 3
}

func quoteJSON(s string) string {
	var sb strings.Builder
	sb.WriteByte('"')
	for i := 0; i < len(s); i++ {
		switch c := s[i]; {
		case c == '\\' || c == '"':
			sb.WriteByte('\\')
			sb.WriteByte(c)
		case c == '\n':
			sb.WriteString(`\n`)
		case c == '\t':
			sb.WriteString(`\t`)
		case c == '\r':
			sb.WriteString(`\r`)
		case c < 0x20: // control characters cannot stand raw in a JSON string
			fmt.Fprintf(&sb, `\u%04x`, c)
		default:
			sb.WriteByte(c)
		}
	}
	sb.WriteByte('"')
	return sb.String()
}

// ---------------------------------------------------------------------------
// printing
// ---------------------------------------------------------------------------

func (r rule) valText() string {
	switch r.name {
	case "min", "max":
		return fmtBound(r.num)
	case "minLength", "maxLength", "precision", "minItems", "maxItems":
		return strconv.Itoa(r.n)
	case "exclusiveMinimum", "exclusiveMaximum", "const", "nullable", "optional":
		return strconv.FormatBool(r.b)
	case "type":
		return `"` + r.s + `"`
	case "regex":
		return quoteJSON(r.s)
	case "additionalProperties":
		return r.s
	case "enum":
		return "[" + strings.Join(r.items, ", ") + "]"
	case "or":
		parts := make([]string, len(r.alts))
		for i, a := range r.alts {
			if a.rules == nil {
				parts[i] = `"` + a.name + `"`
			} else {
				parts[i] = "{" + rulesText(a.rules, false, ", ") + "}"
			}
		}
		return "[" + strings.Join(parts, ", ") + "]"
	}
	panic("rule " + r.name)
}

func rulesText(rs []rule, qn bool, sep string) string {
	parts := make([]string, len(rs))
	for i, r := range rs {
		nm := r.name
		if qn {
			nm = `"` + nm + `"`
		}
		parts[i] = nm + ": " + r.valText()
	}
	return strings.Join(parts, sep)
}

type printer struct {
	full  strings.Builder // text with annotations
	plain strings.Builder // the same text without the annotation segments
	file  int
}

func (p *printer) put(s string) { p.full.WriteString(s); p.plain.WriteString(s) }

func (p *printer) ann(n *node) {
	if len(n.rules) == 0 {
		return
	}
	if n.multi {
		p.full.WriteString(" /* {" + rulesText(n.rules, n.qn, ",\n      ") + "\n   } */")
	} else {
		p.full.WriteString(" // {" + rulesText(n.rules, n.qn, ", ") + "}")
	}
}

// value prints node n; `tail` (a comma or nothing) goes directly after the value
// and before the annotation for one-line values.
func (p *printer) value(n *node, indent string, tail string) {
	n.off = p.full.Len()
	n.file = p.file
	switch n.kind {
	case kObj, kArr:
		open, cl := "{", "}"
		if n.kind == kArr {
			open, cl = "[", "]"
		}
		if len(n.kids) == 0 {
			p.put(open + cl + tail)
			p.ann(n)
			return
		}
		p.put(open)
		p.ann(n)
		p.put("\n")
		for i, k := range n.kids {
			p.put(indent + "  ")
			if n.kind == kObj {
				p.put(`"` + n.keys[i] + `": `)
			}
			t := ","
			if i == len(n.kids)-1 {
				t = ""
			}
			p.value(k, indent+"  ", t)
			p.put("\n")
		}
		p.put(indent + cl + tail)
	default:
		p.put(n.lit + tail)
		p.ann(n)
	}
}

// render prints every file of the schema; returns full and plain texts.
func (s *schema) render() (full []string, plain []string) {
	full = make([]string, 1+len(s.types))
	plain = make([]string, 1+len(s.types))
	for i := 0; i <= len(s.types); i++ {
		p := &printer{file: i}
		p.put(s.lead[i])
		if i == 0 {
			p.value(s.root, "", "")
		} else {
			p.value(s.types[i-1].root, "", "")
		}
		full[i], plain[i] = p.full.String(), p.plain.String()
	}
	return
}

func (s *schema) inputText(full []string) string {
	var sb strings.Builder
	sb.WriteString("ROOT:\n" + full[0])
	for i, t := range s.types {
		sb.WriteString("\nTYPE " + t.name + " =\n" + full[i+1])
	}
	return sb.String()
}

// ---------------------------------------------------------------------------
// traversal / cloning
// ---------------------------------------------------------------------------

func (n *node) walk(f func(*node)) {
	f(n)
	for _, k := range n.kids {
		k.walk(f)
	}
}

func (s *schema) walk(f func(*node)) {
	s.root.walk(f)
	for _, t := range s.types {
		t.root.walk(f)
	}
}

func (s *schema) find(id int) *node {
	var out *node
	s.walk(func(n *node) {
		if n.id == id {
			out = n
		}
	})
	return out
}

func cloneRules(rs []rule) []rule {
	if rs == nil {
		return nil
	}
	out := make([]rule, len(rs))
	for i, r := range rs {
		out[i] = r
		out[i].items = append([]string(nil), r.items...)
		if r.alts != nil {
			out[i].alts = make([]alt, len(r.alts))
			for j, a := range r.alts {
				out[i].alts[j] = alt{name: a.name, match: a.match, rules: cloneRules(a.rules), adm: append([]int(nil), a.adm...)}
			}
		}
	}
	return out
}

func (n *node) clone() *node {
	c := *n
	c.keys = append([]string(nil), n.keys...)
	c.rules = cloneRules(n.rules)
	c.kids = make([]*node, len(n.kids))
	for i, k := range n.kids {
		c.kids[i] = k.clone()
	}
	return &c
}

func (s *schema) clone() *schema {
	c := *s
	c.root = s.root.clone()
	c.types = make([]*typ, len(s.types))
	for i, t := range s.types {
		c.types[i] = &typ{name: t.name, root: t.root.clone(), refs: append([]int(nil), t.refs...)}
	}
	c.lead = append([]string(nil), s.lead...)
	return &c
}

// ---------------------------------------------------------------------------
// generator
// ---------------------------------------------------------------------------

type gen struct {
	r         *rand.Rand
	s         *schema
	budget    int
	shortcuts bool    // allow `@t` value shortcuts to structured types (corruption stream only)
	refP      float64 // extra probability of a scalar ruled by a {type: "@t"} reference (history stream)
	chain     int     // nesting of scalarTypeFor: types created for the root rule list of other types
}

func (g *gen) p(x float64) bool { return g.r.Float64() < x }

func (g *gen) newNode(k kind) *node {
	g.s.nextID++
	return &node{id: g.s.nextID, kind: k, mode: "plain", multi: g.p(0.2), qn: g.p(0.08)}
}

var keyPool = []string{"a", "b", "c", "id", "name", "k1", "x y", "é", "Z_9", "list", "o", "v-1", "q.r", "0"}

// A property name of a plain-JSON example is an ARBITRARY JSON string. The names below are ordinary
// quoted keys whose content looks like another syntactic class of the schema language (or of JSON):
// it must make no difference to any rule of the value under / below such a key.
// All entries are RAW spellings (the text between the quotes).
var (
	// the content is (or starts like) a user type name: quoted, it is NOT a key shortcut
	keyTypeNameLike = []string{"@id", "@type", "@context", "@graph", "@index", "@a", "@A-b_9", "@t1", "@t2", "@t3", "@t4", "@0", "@", "@@a", "@a b", "@a.b", "@é", "@a|@b", "@-"}
	// comment / annotation openers and closers
	keyCommentLike = []string{"#x", "#", "###", "//", "/*", "*/", "/* x */", "// x", "a // b", "a#b", "/", "// {min: 1}", `/* {type: \"integer\"} */`, `#\n`}
	// the DECODED name begins and / or ends with a double quote
	keyQuoted = []string{`\"x\"`, `\"\"`, `\"`, `\"@id\"`, `\"a`, `a\"`, `a\"b`, `\"a b\"`, `\u0022x\u0022`, `\"\\\"`}
	// escape sequences (some decode to names of the other classes)
	keyEscapes = []string{`\\`, `a\\b`, `\\\\`, `\/`, `\/\/`, `\/*`, `\n`, `a\tb`, `\r\n`, `\b\f`, `\u0041`, `\u0040id`, `\u0040t1`, `\u00e9`, `\ud83d\ude00`, `\u0023x`, `a\u0020b`, `\\n`, `\\\"`, `\\u0041`}
	// rule names, type names, literals, numbers
	keyKeywords = []string{"or", "enum", "type", "min", "max", "optional", "nullable", "const", "regex", "allOf", "additionalProperties", "minItems", "exclusiveMinimum", "precision",
		"any", "mixed", "integer", "string", "object", "array", "email", "true", "false", "null", "1", "-1.5", "0e1", "1e5"}
	// structural characters and blanks
	keyStructural = []string{"", " ", "  ", "{", "}", "[", "]", "{}", "[]", ":", ",", "a:b", "a,b", "a: 1", "{a: 1}", "[1, 2]", "\\t", "|", "a | b", "'", "'a'", "`", "<", "&", "%s", "\u00a0"}
)

var specialKeyPools = [][]string{keyTypeNameLike, keyTypeNameLike, keyCommentLike, keyQuoted, keyQuoted, keyEscapes, keyKeywords, keyStructural, {""}}

var keyClassCache sync.Map // raw spelling -> class

// decodeKey: the property name a raw spelling denotes.
func decodeKey(raw string) string {
	var s string
	if err := json.Unmarshal([]byte(`"`+raw+`"`), &s); err != nil {
		panic("key spelling " + raw + ": " + err.Error())
	}
	return s
}

// keyClass: the syntactic class a property name (given by its raw spelling) looks like.
func keyClass(raw string) string {
	if c, ok := keyClassCache.Load(raw); ok {
		return c.(string)
	}
	c := keyClassOf(raw)
	keyClassCache.Store(raw, c)
	return c
}

func keyClassOf(raw string) string {
	d := decodeKey(raw)
	switch {
	case d == "":
		return "empty"
	case d[0] == '@':
		return "typename-like"
	case d[0] == '"' || d[len(d)-1] == '"':
		return "quote-wrapped"
	case d[0] == '#' || strings.Contains(d, "//") || strings.Contains(d, "/*") || strings.Contains(d, "*/"):
		return "comment-like"
	case strings.Contains(raw, `\`):
		return "escapes"
	case strings.TrimSpace(d) == "" || strings.ContainsAny(d, "{}[]:,|'`"):
		return "structural"
	}
	for _, k := range keyKeywords {
		if d == k {
			return "keyword"
		}
	}
	return "ordinary"
}

// key picks the raw spelling of a property name: an ordinary name, a name of one of the special
// classes, or a special name composed from a class marker and an ordinary name.
func (g *gen) key() string {
	if !g.p(0.4) {
		return keyPool[g.r.Intn(len(keyPool))]
	}
	if g.p(0.2) {
		pre := []string{"@", "@", "#", "//", "/*", `\"`, `\\`, "", ""}[g.r.Intn(9)]
		mid := []string{"a", "id", "name", "k1", "Z_9", "v-1", "type", "t1", "t2", "x y", "é"}[g.r.Intn(11)]
		suf := []string{"", "", "", `\"`, "*/", " ", `\n`, ":"}[g.r.Intn(8)]
		return pre + mid + suf
	}
	pool := specialKeyPools[g.r.Intn(len(specialKeyPools))]
	return pool[g.r.Intn(len(pool))]
}

var strAlphabet = []string{"a", "b", "c", "x", "y", "z", "A", "B", "0", "1", "9", " ", "_", "-", ".", "@", "é", "ж", "😀"}

func (g *gen) randStr() string {
	n := g.r.Intn(8)
	var sb strings.Builder
	for i := 0; i < n; i++ {
		j := g.r.Intn(len(strAlphabet))
		if j >= 16 && g.p(0.6) { // multi-byte letters are rarer
			j = g.r.Intn(16)
		}
		sb.WriteString(strAlphabet[j])
	}
	return sb.String()
}

func (g *gen) setNumber(n *node, k kind) {
	ip := int64(g.r.Intn(40))
	if g.p(0.2) {
		ip = int64(g.r.Intn(100000))
	}
	frac := 0
	v := ip * 1000
	if k == kFloat {
		frac = 1 + g.r.Intn(3)
		step := int64(1000)
		for i := 0; i < frac; i++ {
			step /= 10
		}
		f := int64(g.r.Intn(int(1000 / step)))
		if g.p(0.85) && f%10 == 0 { // mostly a non-zero last digit
			f++
		}
		v += f * step
	}
	if g.p(0.3) && v != 0 {
		v = -v
	}
	n.num, n.sig = v, sigDigits(v)
	n.lit = fmtScaled(v, frac)
}

func (g *gen) setString(n *node, s string) {
	n.str = s
	n.lit = quoteJSON(s)
}

var formatGood = map[string][]string{
	"email":    {"a@b.cc", "user.name@example.com", "x_1@mail.example.org"},
	"uri":      {"http://a.b/c", "https://example.com/x?y=1", "ftp://host.example/file.txt"},
	"uuid":     {"550e8400-e29b-41d4-a716-446655440000", "123e4567-e89b-12d3-a456-426614174000"},
	"date":     {"2021-01-31", "1999-12-01", "2024-02-29"},
	"datetime": {"2021-01-31T10:11:12+03:00", "2021-01-31T10:11:12Z", "1999-12-01T00:00:00-05:00"},
}

var formatBad = map[string][]string{
	"email":    {"ab.cc", "user@", "", "no at sign"},
	"uri":      {"a.b/c", "not a uri", ""},
	"uuid":     {"550e8400-e29b-41d4-a716-44665544000", "zzze8400-e29b-41d4-a716-446655440000", "550e8400e29b41d4a716", ""},
	"date":     {"2021-02-31", "2021-1-31", "31-01-2021", "2021-13-01", ""},
	"datetime": {"2021-01-31T10:11:12", "2021-01-31 10:11:12Z", "2021-01-31", ""},
}

var formatNames = []string{"email", "uri", "uuid", "date", "datetime"}

// scalar creates a scalar leaf with example and rules.
func (g *gen) scalar(inObj bool, depth int) *node {
	k := []kind{kInt, kInt, kFloat, kFloat, kStr, kStr, kStr, kBool, kNull}[g.r.Intn(9)]
	n := g.newNode(k)
	n.depth = depth
	g.setExample(n)
	x := g.r.Float64()
	if g.refP > 0 && g.p(g.refP) {
		x = 0.80 + 0.13*g.r.Float64() // a reference
	}
	if k == kStr && x >= 0.65 && x < 0.93 && g.p(0.3) {
		// a string that is a valid format example: the types it is ruled by may demand the format
		g.setFormatExample(n, formatNames[g.r.Intn(len(formatNames))])
	}
	switch {
	case x < 0.08:
		// bare example, no annotation
	case x < 0.55:
		n.rules = g.plainRules(k, []*node{n}, inObj, true)
	case x < 0.65:
		n.mode = "enum"
		n.rules = g.enumRules([]*node{n}, inObj)
	case x < 0.80:
		n.mode = "or"
		n.rules = g.orRules(n, inObj)
	case x < 0.85:
		n.mode = "any"
		n.rules = []rule{{name: "type", s: "any"}}
		if g.p(0.3) {
			n.rules = append(n.rules, rule{name: "const", b: false})
		}
		n.rules = g.companions(n.rules, inObj)
	case x < 0.93:
		n.mode = "ref"
		var t *typ
		if g.p(0.2) {
			t = g.reuseType(n)
		}
		if t == nil {
			t = g.scalarTypeFor([]*node{n}, nil)
		}
		n.rules = g.companions([]rule{{name: "type", s: t.name}}, inObj)
	default:
		if k == kStr {
			n.mode = "format"
			f := formatNames[g.r.Intn(len(formatNames))]
			g.setFormatExample(n, f)
			n.rules = []rule{{name: "type", s: f}}
			if g.p(0.3) {
				n.rules = append(n.rules, rule{name: "const", b: g.p(0.5)})
			}
			n.rules = g.companions(n.rules, inObj)
		} else {
			n.rules = g.plainRules(k, []*node{n}, inObj, true)
		}
	}
	g.shuffle(n.rules)
	return n
}

func (g *gen) setFormatExample(n *node, f string) {
	// one of a few everyday values, or (more often) a value built from the boundary parts of the format
	// that the oracle of the harness accepts (fmtstream.go: last days of months, February 29 of leap
	// years, hour 23 / second 59, the four uuid forms, odd but valid addresses and uris)
	v := formatGood[f][g.r.Intn(len(formatGood[f]))]
	if g.p(0.6) {
		v = goodOf(g.r, f)
	}
	g.setString(n, v)
	n.fmt = f
}

// reuseType: rule the fresh scalar n by an EXISTING scalar type: n takes over the value of the
// type's own example, so every rule that speaks about that example speaks about n as well.
func (g *gen) reuseType(n *node) *typ {
	var cands []*typ
	for _, t := range g.s.types {
		if t.root.kind != kObj && t.root.kind != kArr && t.root.kind != kRef {
			cands = append(cands, t)
		}
	}
	if len(cands) == 0 {
		return nil
	}
	t := cands[g.r.Intn(len(cands))]
	copyValue(n, t.root)
	g.s.addRefLike(n.id, t.root.id)
	return t
}

func copyValue(dst, src *node) {
	dst.kind, dst.lit, dst.num, dst.sig, dst.str, dst.fmt = src.kind, src.lit, src.num, src.sig, src.str, src.fmt
}

// addRefLike registers the value `id` as one more example of everything that speaks about the
// type root `like` (id names like's type in a rule and has the same value as like).
func (s *schema) addRefLike(id, like int) {
	for _, t := range s.types {
		if t.root.id == like || hasID(t.refs, like) {
			t.refs = append(t.refs, id)
		}
	}
	for _, t := range s.types { // like is a type root: only or sets at type roots speak about it
		n := t.root
		for i := range n.rules {
			for j := range n.rules[i].alts {
				if a := &n.rules[i].alts[j]; hasID(a.adm, like) {
					a.adm = append(a.adm, id)
				}
			}
		}
	}
}

func hasID(xs []int, x int) bool {
	for _, y := range xs {
		if x == y {
			return true
		}
	}
	return false
}

func (g *gen) setExample(n *node) {
	switch n.kind {
	case kInt, kFloat:
		g.setNumber(n, n.kind)
	case kStr:
		g.setString(n, g.randStr())
	case kBool:
		n.lit = []string{"true", "false"}[g.r.Intn(2)]
	case kNull:
		n.lit = "null"
	}
}

func (g *gen) shuffle(rs []rule) {
	g.r.Shuffle(len(rs), func(i, j int) { rs[i], rs[j] = rs[j], rs[i] })
}

// companions adds the rules that may accompany or / enum / any / type references.
func (g *gen) companions(rs []rule, inObj bool) []rule {
	if g.p(0.3) {
		rs = append(rs, rule{name: "nullable", b: g.p(0.6)})
	}
	if inObj && g.p(0.3) {
		rs = append(rs, rule{name: "optional", b: g.p(0.6)})
	}
	return rs
}

// plainRules: rules of the example's own kind that every example in exs obeys.
// top = the rule list annotates a node (not an or rule-set).
func (g *gen) plainRules(k kind, exs []*node, inObj bool, top bool) []rule {
	var rs []rule
	switch k {
	case kInt, kFloat:
		lo, hi := exs[0].num, exs[0].num
		sig := 0
		for _, e := range exs {
			if e.num < lo {
				lo = e.num
			}
			if e.num > hi {
				hi = e.num
			}
			if e.sig > sig {
				sig = e.sig
			}
		}
		dist := func() int64 {
			switch g.r.Intn(4) {
			case 0:
				return 0
			case 1:
				return int64(1 + g.r.Intn(9))
			case 2:
				return int64(1+g.r.Intn(20)) * 500
			}
			return int64(1+g.r.Intn(50)) * 1000
		}
		if g.p(0.5) {
			d := dist()
			ex := g.r.Intn(3) // 0 absent 1 false 2 true
			if ex == 2 && d == 0 {
				d = 1 + int64(g.r.Intn(3000))
			}
			rs = append(rs, rule{name: "min", num: lo - d})
			if ex > 0 {
				rs = append(rs, rule{name: "exclusiveMinimum", b: ex == 2})
			}
		}
		if g.p(0.5) {
			d := dist()
			ex := g.r.Intn(3)
			if ex == 2 && d == 0 {
				d = 1 + int64(g.r.Intn(3000))
			}
			rs = append(rs, rule{name: "max", num: hi + d})
			if ex > 0 {
				rs = append(rs, rule{name: "exclusiveMaximum", b: ex == 2})
			}
		}
		if k == kFloat && g.p(0.35) {
			pr := sig + g.r.Intn(3)
			if pr == 0 {
				pr = 1
			}
			rs = append(rs, rule{name: "precision", n: pr})
			if g.p(0.8) {
				rs = append(rs, rule{name: "type", s: "decimal"})
			}
		} else if g.p(0.35) {
			rs = append(rs, rule{name: "type", s: k.name()})
		}
	case kStr:
		minR, maxB := -1, 0
		for _, e := range exs {
			rc := utf8.RuneCountInString(e.str)
			if minR < 0 || rc < minR {
				minR = rc
			}
			if len(e.str) > maxB {
				maxB = len(e.str)
			}
		}
		if g.p(0.45) {
			rs = append(rs, rule{name: "minLength", n: g.r.Intn(minR + 1)})
		}
		if g.p(0.45) {
			rs = append(rs, rule{name: "maxLength", n: maxB + g.r.Intn(4)})
		}
		if g.p(0.4) {
			rs = append(rs, rule{name: "regex", s: g.goodRegex(exs)})
		}
		if g.p(0.35) {
			rs = append(rs, rule{name: "type", s: "string"})
		}
	case kBool, kNull:
		if g.p(0.5) {
			rs = append(rs, rule{name: "type", s: k.name()})
		}
	}
	if g.p(0.2) {
		c := g.p(0.5)
		if c && len(exs) > 1 {
			c = false // const:true pins the value of the annotated node; references carry other values
		}
		rs = append(rs, rule{name: "const", b: c})
	}
	if g.p(0.2) {
		rs = append(rs, rule{name: "nullable", b: g.p(0.5)})
	}
	if top && inObj && g.p(0.25) {
		rs = append(rs, rule{name: "optional", b: g.p(0.6)})
	}
	return rs
}

func matchAll(re string, exs []*node) bool {
	c, err := regexp.Compile(re)
	if err != nil {
		return false
	}
	for _, e := range exs {
		if !c.MatchString(e.str) {
			return false
		}
	}
	return true
}

func (g *gen) goodRegex(exs []*node) string {
	var cands []string
	cands = append(cands, ".*", "^.*$")
	if len(exs) == 1 {
		cands = append(cands, "^"+regexp.QuoteMeta(exs[0].str)+"$", regexp.QuoteMeta(exs[0].str))
		if len(exs[0].str) > 0 {
			_, w := utf8.DecodeRuneInString(exs[0].str)
			cands = append(cands, "^"+regexp.QuoteMeta(exs[0].str[:w]))
		}
	}
	lo, hi := 1<<30, 0
	for _, e := range exs {
		rc := utf8.RuneCountInString(e.str)
		if rc < lo {
			lo = rc
		}
		if rc > hi {
			hi = rc
		}
	}
	cands = append(cands, fmt.Sprintf("^.{%d,%d}$", lo, hi+g.r.Intn(3)), `^[a-zA-Z0-9 _.@-]*$`, `^[^#]*$`, `^(\w|\W)*$`)
	for tries := 0; tries < 8; tries++ {
		c := cands[g.r.Intn(len(cands))]
		if matchAll(c, exs) {
			return c
		}
	}
	return ".*"
}

// otherItem: an enum item text that differs (by kind or by value) from every example.
func (g *gen) otherItem(exs []*node) string {
	for {
		var it string
		switch g.r.Intn(6) {
		case 0:
			it = "true"
		case 1:
			it = "false"
		case 2:
			it = "null"
		case 3:
			it = quoteJSON(g.randStr())
		case 4:
			it = strconv.Itoa(g.r.Intn(2000) - 1000)
		default:
			it = fmtScaled(int64(g.r.Intn(200000)-100000), 1+g.r.Intn(3))
		}
		ok := true
		for _, e := range exs {
			if it == e.lit {
				ok = false
			}
			if e.kind == kInt || e.kind == kFloat {
				if f, err := strconv.ParseFloat(it, 64); err == nil && f == float64(e.num)/1000 {
					ok = false // numerically equal, textually different: ambiguous, avoid
				}
			}
		}
		if ok {
			return it
		}
	}
}

func (g *gen) enumItems(exs []*node) []string { return g.enumItemsAvoid(exs, nil) }

// enumItemsAvoid: the literals of exs plus random other items that equal none of exs / avoid.
func (g *gen) enumItemsAvoid(exs []*node, avoid []*node) []string {
	var items []string
	seen := map[string]bool{}
	for _, e := range exs {
		if !seen[e.lit] {
			seen[e.lit] = true
			items = append(items, e.lit)
		}
	}
	all := append(append([]*node(nil), exs...), avoid...)
	for i := g.r.Intn(5); i > 0; i-- {
		it := g.otherItem(all)
		if !seen[it] {
			seen[it] = true
			items = append(items, it)
		}
	}
	g.r.Shuffle(len(items), func(i, j int) { items[i], items[j] = items[j], items[i] })
	return items
}

func (g *gen) enumRules(exs []*node, inObj bool) []rule { return g.enumRulesAvoid(exs, nil, inObj) }

func (g *gen) enumRulesAvoid(exs []*node, avoid []*node, inObj bool) []rule {
	rs := []rule{{name: "enum", items: g.enumItemsAvoid(exs, avoid)}}
	if g.p(0.3) {
		rs = append(rs, rule{name: "type", s: "enum"})
	}
	if g.p(0.25) {
		c := g.p(0.5)
		if c && len(exs) > 1 {
			c = false
		}
		rs = append(rs, rule{name: "const", b: c})
	}
	return g.companions(rs, inObj)
}

func ids(ns []*node) []int {
	out := make([]int, len(ns))
	for i, n := range ns {
		out[i] = n.id
	}
	return out
}

func commonFmt(ns []*node) string {
	f := ns[0].fmt
	for _, n := range ns {
		if n.fmt != f {
			return ""
		}
	}
	return f
}

// scalarTypeFor adds a scalar user type `@tN` that admits its own example and the examples
// exs (scalars of one kind that name the type in a rule, directly or through other types).
// The root of the type carries rules of every kind a scalar can carry: bounds / lengths /
// regex / declared type, an inline enum, a format, type any, an or set (names, rule-sets,
// enum rule-sets, further user types — the type's own example may be of ANOTHER kind than
// exs and be admitted by another member), or a reference to a further type.
func hasNull(ns []*node) bool {
	for _, n := range ns {
		if n.kind == kNull {
			return true
		}
	}
	return false
}

// noNullable switches every nullable: true of rule list rs off.
func noNullable(rs []rule) []rule {
	for i := range rs {
		if rs[i].name == "nullable" {
			rs[i].b = false
		}
	}
	return rs
}

func kindsClash(a, b kind) bool {
	return a == b || ((a == kInt || a == kFloat) && (b == kInt || b == kFloat))
}

// (avoid: examples of other kinds that the new type must NOT admit — the type is going to be a
// member of an or set whose other members admit them.)
func (g *gen) scalarTypeFor(exs []*node, avoid []*node) *typ {
	g.chain++
	defer func() { g.chain-- }()
	k := exs[0].kind
	f := commonFmt(exs)
	canNest := g.chain <= 2 && len(g.s.types)+g.chain < 6
	x := g.r.Float64()
	if f != "" && g.p(0.5) {
		x = 0.40 // format
	}
	tn := g.newNode(k)
	fresh := func() {
		if g.p(0.25) {
			copyValue(tn, exs[g.r.Intn(len(exs))]) // same value as a reference
			return
		}
		g.setExample(tn)
		if k == kBool && g.p(0.5) {
			tn.lit = exs[0].lit
		}
		if f != "" {
			g.setFormatExample(tn, f)
		}
	}
	all := append([]*node{tn}, exs...)
	switch {
	case x < 0.20: // an or set at the root of the type
		tn.mode = "or"
		if g.p(0.55) {
			// own example of another kind, admitted by another member than exs
			// (a kind that no example the type must not admit has)
			var ks []kind
			for _, c := range scalarKinds {
				ok := !kindsClash(c, k)
				for _, a := range avoid {
					if kindsClash(c, a.kind) {
						ok = false
					}
				}
				if ok {
					ks = append(ks, c)
				}
			}
			if len(ks) > 0 {
				tn.kind = ks[g.r.Intn(len(ks))]
				g.setExample(tn)
				tn.rules = g.orRulesFor(tn, [][]*node{{tn}, exs}, avoid, false)
				break
			}
		}
		fresh()
		tn.rules = g.orRulesFor(tn, [][]*node{all}, avoid, false)
	case x < 0.30 && canNest: // a reference to a further type
		fresh()
		tn.mode = "ref"
		t2 := g.scalarTypeFor(all, avoid)
		tn.rules = []rule{{name: "type", s: t2.name}}
		if g.p(0.3) {
			tn.rules = append(tn.rules, rule{name: "nullable", b: g.p(0.6)})
		}
	case x < 0.35 && len(avoid) == 0:
		fresh()
		tn.mode = "any"
		tn.rules = []rule{{name: "type", s: "any"}}
		if g.p(0.3) {
			tn.rules = append(tn.rules, rule{name: "nullable", b: g.p(0.6)})
		}
	case x < 0.45 && f != "":
		fresh()
		tn.mode = "format"
		tn.rules = []rule{{name: "type", s: f}}
		if g.p(0.3) {
			tn.rules = append(tn.rules, rule{name: "const", b: false})
		}
		if g.p(0.3) {
			tn.rules = append(tn.rules, rule{name: "nullable", b: g.p(0.6)})
		}
	case x < 0.60:
		fresh()
		tn.mode = "enum"
		tn.rules = g.enumRulesAvoid(all, avoid, false)
	default:
		fresh()
		tn.rules = g.plainRules(k, all, false, true)
	}
	if hasNull(avoid) {
		tn.rules = noNullable(tn.rules) // nullable: true would admit the null the type must not admit
	}
	g.shuffle(tn.rules)
	return g.addType(tn, ids(exs))
}

func (g *gen) addType(root *node, refs []int) *typ {
	g.s.nextType++
	t := &typ{name: fmt.Sprintf("@t%d", g.s.nextType), root: root, refs: refs}
	g.s.types = append(g.s.types, t)
	g.s.lead = append(g.s.lead, []string{"", "", " ", "\n", "  \n ", "\n\n"}[g.r.Intn(6)])
	return t
}

var scalarKinds = []kind{kInt, kFloat, kStr, kBool, kNull}

// orRules builds an or set for node n (a scalar, or an empty object / array):
// exactly one member admits the example.
func (g *gen) orRules(n *node, inObj bool) []rule {
	return g.orRulesFor(n, [][]*node{{n}}, nil, inObj)
}

// orRulesFor builds an or set for node n whose rule list speaks about several examples:
// groups[0] holds n itself; every group (examples of one kind) is admitted by exactly one
// member, no other member admits any of them, and no member admits one of `foreign`.
func (g *gen) orRulesFor(n *node, groups [][]*node, foreign []*node, inObj bool) []rule {
	all := append([]*node(nil), foreign...)
	for _, gr := range groups {
		all = append(all, gr...)
	}
	nalts := len(groups) + 1 + g.r.Intn(2)
	pos := g.r.Perm(nalts)[:len(groups)]
	names := map[string]bool{}
	alts := make([]alt, nalts)
	filled := make([]bool, nalts)
	for gi, gr := range groups {
		avoid := append([]*node(nil), foreign...)
		for gj, o := range groups {
			if gj != gi {
				avoid = append(avoid, o...)
			}
		}
		var a alt
		if gi == 0 && (n.kind == kObj || n.kind == kArr) {
			a = g.matchingContainerAlt(n)
		} else {
			a = g.matchingAltFor(gr, avoid, gi == 0)
		}
		a.match = gi == 0
		a.adm = ids(gr)
		if a.rules == nil {
			names[a.name] = true
		}
		alts[pos[gi]], filled[pos[gi]] = a, true
	}
	for i := range alts {
		if filled[i] {
			continue
		}
		for {
			a := g.otherAltFor(all)
			if a.rules == nil {
				if names[a.name] {
					continue
				}
				names[a.name] = true
			}
			alts[i] = a
			break
		}
	}
	rs := []rule{{name: "or", alts: alts}}
	if g.p(0.15) {
		rs = append(rs, rule{name: "type", s: "mixed"})
	}
	return g.companions(rs, inObj)
}

func (g *gen) matchingContainerAlt(n *node) alt {
	if n.kind == kObj {
		if g.p(0.5) {
			return alt{name: "object"}
		}
		rs := []rule{{name: "type", s: "object"}}
		if g.p(0.4) {
			rs = append(rs, rule{name: "additionalProperties", s: []string{"true", "false", `"string"`, `"any"`}[g.r.Intn(4)]})
		}
		g.shuffle(rs)
		return alt{rules: rs}
	}
	if g.p(0.5) {
		return alt{name: "array"}
	}
	rs := []rule{{name: "type", s: "array"}}
	if g.p(0.4) {
		rs = append(rs, rule{name: "minItems", n: 0})
	}
	if g.p(0.4) {
		rs = append(rs, rule{name: "maxItems", n: g.r.Intn(3)})
	}
	g.shuffle(rs)
	return alt{rules: rs}
}

// matchingAltFor: a member that admits the scalars exs (one kind) and none of avoid (other
// kinds). own: exs contains the example of the node that carries the or set. The JSON kind
// of a rule-set WITHOUT a concrete `type` (and of `type: "enum"` / "decimal") is the kind of
// that node's example, and const: true pins that node's value — so a member for foreign
// examples only gets a concrete type and no const.
func (g *gen) matchingAltFor(exs []*node, avoid []*node, own bool) alt {
	k := exs[0].kind
	x := g.r.Float64()
	if !own && x >= 0.75 && x < 0.87 {
		x = 0.5 // no enum rule-set for foreign examples
	}
	switch {
	case x < 0.3:
		return alt{name: k.name()}
	case x < 0.75:
		rs := g.plainRules(k, exs, false, false)
		if hasNull(avoid) {
			rs = noNullable(rs)
		}
		if !own {
			keep := rs[:0]
			for _, r := range rs {
				if r.name != "const" && r.name != "type" && r.name != "precision" {
					keep = append(keep, r)
				}
			}
			rs = append(keep, rule{name: "type", s: k.name()})
			g.shuffle(rs)
			return alt{rules: rs}
		}
		hasType := false
		for _, r := range rs {
			if r.name == "type" {
				hasType = true
			}
		}
		if !hasType && (len(rs) == 0 || g.p(0.7)) {
			hasPrec := false
			for _, r := range rs {
				if r.name == "precision" {
					hasPrec = true
				}
			}
			if hasPrec {
				rs = append(rs, rule{name: "type", s: "decimal"})
			} else {
				rs = append(rs, rule{name: "type", s: k.name()})
			}
		}
		g.shuffle(rs)
		return alt{rules: rs}
	case x < 0.87:
		rs := []rule{{name: "enum", items: g.enumItemsAvoid(exs, avoid)}}
		if g.p(0.3) {
			rs = append(rs, rule{name: "type", s: "enum"})
		}
		g.shuffle(rs)
		return alt{rules: rs}
	default:
		if g.chain > 2 || len(g.s.types)+g.chain >= 7 {
			return alt{name: k.name()}
		}
		t := g.scalarTypeFor(exs, avoid)
		if g.p(0.5) {
			return alt{name: t.name}
		}
		return alt{rules: []rule{{name: "type", s: t.name}}}
	}
}

// otherAltFor: a member that admits NONE of the examples exs.
func (g *gen) otherAltFor(exs []*node) alt {
	clash := func(k kind) bool {
		for _, e := range exs {
			if k == e.kind {
				return true
			}
			if (k == kInt || k == kFloat) && (e.kind == kInt || e.kind == kFloat) {
				return true
			}
		}
		return false
	}
	hasStr, hasCont := false, false
	for _, e := range exs {
		if e.kind == kStr {
			hasStr = true
		}
		if e.kind == kObj || e.kind == kArr {
			hasCont = true
		}
	}
	for {
		switch g.r.Intn(5) {
		case 0, 1: // a type name of another kind
			k := []kind{kInt, kFloat, kStr, kBool, kNull, kObj, kArr}[g.r.Intn(7)]
			if clash(k) {
				continue
			}
			return alt{name: k.name()}
		case 2: // a rule-set of another kind
			k := scalarKinds[g.r.Intn(5)]
			if clash(k) {
				continue
			}
			d := &node{kind: k}
			g.setExample(d)
			rs := g.plainRules(k, []*node{d}, false, false)
			keep := rs[:0]
			for _, r := range rs {
				if r.name != "const" && r.name != "type" && r.name != "precision" && r.name != "nullable" {
					keep = append(keep, r)
				}
			}
			rs = append(keep, rule{name: "type", s: k.name()})
			g.shuffle(rs)
			return alt{rules: rs}
		case 3: // the kind of one of the examples, violated by every example of that kind
			e := exs[g.r.Intn(len(exs))]
			switch e.kind {
			case kInt, kFloat:
				lo, hi := e.num, e.num
				for _, o := range exs {
					if o.kind == kInt || o.kind == kFloat {
						if o.num < lo {
							lo = o.num
						}
						if o.num > hi {
							hi = o.num
						}
					}
				}
				if g.p(0.5) {
					return alt{rules: []rule{{name: "type", s: e.kind.name()}, {name: "min", num: hi + 1 + int64(g.r.Intn(5000))}}}
				}
				return alt{rules: []rule{{name: "max", num: lo - 1 - int64(g.r.Intn(5000))}, {name: "type", s: e.kind.name()}}}
			case kStr:
				ml := 0
				for _, o := range exs {
					if o.kind == kStr && len(o.str) > ml {
						ml = len(o.str)
					}
				}
				return alt{rules: []rule{{name: "type", s: "string"}, {name: "minLength", n: ml + 1 + g.r.Intn(3)}}}
			}
			continue
		default: // a format, for examples that are not strings
			if hasStr {
				continue
			}
			if hasCont && !g.p(0.08) {
				continue // rare: feeds the known finding K-C04-or-container
			}
			return alt{name: formatNames[g.r.Intn(5)]}
		}
	}
}

// container rules.
func (g *gen) containerRules(n *node, inObj bool) {
	cnt := len(n.kids)
	x := g.r.Float64()
	if cnt == 0 && x < 0.15 {
		n.mode = "or"
		n.rules = g.orRules(n, inObj)
		g.shuffle(n.rules)
		return
	}
	if cnt == 0 && x < 0.22 {
		n.mode = "any"
		n.rules = g.companions([]rule{{name: "type", s: "any"}}, inObj)
		g.shuffle(n.rules)
		return
	}
	if x > 0.75 {
		return // bare
	}
	var rs []rule
	if n.kind == kArr {
		if g.p(0.5) {
			if cnt == 0 {
				rs = append(rs, rule{name: "minItems", n: 0})
			} else {
				rs = append(rs, rule{name: "minItems", n: g.r.Intn(cnt + 1)})
			}
		}
		if g.p(0.5) {
			if cnt == 0 {
				rs = append(rs, rule{name: "maxItems", n: 0})
			} else {
				rs = append(rs, rule{name: "maxItems", n: cnt + g.r.Intn(3)})
			}
		}
		if g.p(0.3) {
			rs = append(rs, rule{name: "type", s: "array"})
		}
	} else {
		if g.p(0.5) {
			rs = append(rs, rule{name: "additionalProperties", s: []string{"true", "false", `"string"`, `"integer"`, `"any"`, `"null"`, `"array"`}[g.r.Intn(7)]})
		}
		if g.p(0.3) {
			rs = append(rs, rule{name: "type", s: "object"})
		}
	}
	if g.p(0.25) {
		rs = append(rs, rule{name: "nullable", b: g.p(0.5)})
	}
	if inObj && g.p(0.25) {
		rs = append(rs, rule{name: "optional", b: g.p(0.6)})
	}
	g.shuffle(rs)
	n.rules = rs
}

func (g *gen) value(depth, maxDepth int, inObj bool) *node {
	g.budget--
	if depth >= maxDepth || g.budget <= 0 || (depth > 0 && g.p(0.4)) {
		if g.shortcuts && depth > 0 && len(g.s.types) < 5 && g.p(0.25) {
			return g.shortcut(depth, inObj)
		}
		return g.scalar(inObj, depth)
	}
	k := kObj
	if g.p(0.5) {
		k = kArr
	}
	n := g.newNode(k)
	n.depth = depth
	w := g.r.Intn(5)
	if g.p(0.1) {
		w = 0
	}
	used := map[string]bool{}
	for i := 0; i < w; i++ {
		if k == kObj {
			key := g.key()
			if dk := decodeKey(key); used[dk] { // two spellings of one name are one key
				continue
			} else {
				used[dk] = true
			}
			n.keys = append(n.keys, key)
		}
		n.kids = append(n.kids, g.value(depth+1, maxDepth, k == kObj))
	}
	g.containerRules(n, inObj)
	return n
}

// shortcut: `@tN` in value position, the type being a generated structure.
func (g *gen) shortcut(depth int, inObj bool) *node {
	g.s.hasShortcut = true
	n := g.newNode(kRef)
	n.depth = depth
	n.mode = "shortcut"
	sub := &gen{r: g.r, s: g.s, budget: 6 + g.r.Intn(8), shortcuts: g.p(0.3) && len(g.s.types) < 4}
	root := sub.value(0, 1+g.r.Intn(2), false)
	t := g.addType(root, nil)
	n.lit = t.name
	n.rules = g.companions(nil, inObj)
	return n
}

// genSchema generates one schema. shortcuts=false: the root example and all
// types are plain JSON (C04 first sentence applies).
func genSchema(r *rand.Rand, shortcuts bool) *schema {
	s := &schema{}
	s.lead = []string{[]string{"", "", "", " ", "\n", "  \n  ", "\n\n\n"}[r.Intn(7)]}
	g := &gen{r: r, s: s, budget: 6 + r.Intn(30), shortcuts: shortcuts}
	maxDepth := r.Intn(5) // 0 = a root scalar
	s.root = g.value(0, maxDepth, false)
	return s
}
