package c04

// Histories: several root schemas that SHARE type objects.
//
// Whether the examples inside a user type obey their rules depends on the other types of the
// root schema the type is added to: a value ruled by {type: "@q"} / an or member "@q" inside a
// type object is judged against what `@q` is bound to IN THAT ROOT. C04 quantifies over all
// schemas, however they were assembled — so the verdict of Check for a root must not depend on
// which other roots the same type objects were added to, nor on which of them were checked
// before. A history is
//
//	a pool of type objects (each created once with jschema.New),
//	2–3 roots, each binding every type name to one object of the pool: the shared structure
//	  `@sh` (a generated example tree whose scalars name scalar types), the scalar types — for
//	  some roots in a variant with ONE corrupted rule that a value inside a shared object violates,
//	an order of the calls: New/AddType… per root, Check per root (roots built first and checked in
//	  any order, or built and checked one after the other; every order also reversed).
//
// Demanded: Check of a root with a corrupted binding fails at the offset of a violating value,
// exactly as it does when every object is fresh; Check of a root with good bindings succeeds
// (and, for a plain-JSON root, Validate of its example succeeds).

import (
	"fmt"
	"math/rand"
	"sort"
	"strings"
	"time"

	jdoc "github.com/jsightapi/jsight-schema-go-library/formats/json"
	js "github.com/jsightapi/jsight-schema-go-library/notations/jschema"

	"verifharness/vh"
)

type hobj struct{ name, text string }

type hroot struct {
	sch   *schema  // the schema as seen from this root (root text + types as bound here)
	full  []string // rendered files
	objs  []int    // pool index per type (parallel to sch.types)
	order []int    // AddType order (indices into sch.types)
	doc   string   // plain-JSON example of the root ("" = the root uses type shortcuts)
	bad   bool
	vio   []int // ids of the violating values (bad roots)
	desc  string
	where string
	fresh verdict // Check verdict with fresh objects
}

type hop struct {
	check bool // false: New + AddType…; true: Check (+ Validate)
	root  int
}

type hres struct {
	check, val verdict
	done       bool
}

// runHistory executes the calls on freshly created pool objects.
func runHistory(pool []hobj, roots []*hroot, ops []hop) (out []hres, timeout bool) {
	type res struct{ r []hres }
	ch := make(chan res, 1)
	go func() {
		rs := make([]hres, len(roots))
		defer func() { ch <- res{rs} }()
		objs := make([]*js.Schema, len(pool))
		built := make([]*js.Schema, len(roots))
		addErr := make([]error, len(roots))
		for _, op := range ops {
			ro := roots[op.root]
			func() {
				defer func() {
					if r := recover(); r != nil {
						rs[op.root] = hres{check: verdict{msg: fmt.Sprintf("PANIC %v", r)}, done: true}
					}
				}()
				if !op.check {
					s := js.New(fmt.Sprintf("root%d", op.root), ro.full[0])
					for _, ti := range ro.order {
						oi := ro.objs[ti]
						if objs[oi] == nil {
							objs[oi] = js.New(pool[oi].name, pool[oi].text)
						}
						if err := s.AddType(pool[oi].name, objs[oi]); err != nil && addErr[op.root] == nil {
							addErr[op.root] = err
						}
					}
					built[op.root] = s
					return
				}
				s := built[op.root]
				cerr := s.Check()
				r := hres{done: true}
				if addErr[op.root] != nil {
					r.check = toVerdict(addErr[op.root])
					if cerr == nil {
						r.check.msg += " [Check() returned nil after a failed AddType]"
					}
				} else {
					r.check = toVerdict(cerr)
					if cerr == nil && ro.doc != "" {
						r.val = toVerdict(s.Validate(jdoc.New("doc", ro.doc)))
					}
				}
				rs[op.root] = r
			}()
		}
	}()
	tm := time.NewTimer(30 * time.Second)
	defer tm.Stop()
	select {
	case r := <-ch:
		return r.r, false
	case <-tm.C:
		return nil, true
	}
}

func sameVerdict(a, b verdict) bool {
	return a.ok == b.ok && a.parsing == b.parsing && a.code == b.code && a.pos == b.pos
}

// chainTypes: does a type root of s name another type (its inner reference is then resolved
// per root although the type object may be shared)?
func chainTypes(s *schema) bool {
	for _, t := range s.types {
		found := false
		for _, r := range t.root.rules {
			if r.name == "type" && strings.HasPrefix(r.s, "@") {
				found = true
			}
			for _, a := range r.alts {
				if strings.HasPrefix(a.name, "@") || (len(a.rules) == 1 && strings.HasPrefix(a.rules[0].s, "@")) {
					found = true
				}
			}
		}
		if found {
			return true
		}
	}
	return false
}

// wrapper builds the root of one root schema around the shared structure `sh`: it places the
// shared type by shortcuts and may rule scalars of its own by the scalar types.
func wrapper(r *rand.Rand, L *schema, sh string) {
	g := &gen{r: r, s: L, budget: 4}
	ref := func() *node {
		n := g.newNode(kRef)
		n.mode, n.lit, n.multi = "shortcut", sh, false
		return n
	}
	ownScalar := func(inObj bool) *node { // a scalar of the root ruled by an existing scalar type
		n := g.newNode(kInt)
		n.mode = "ref"
		t := g.reuseType(n)
		if t == nil {
			return nil
		}
		n.rules = g.companions([]rule{{name: "type", s: t.name}}, inObj)
		return n
	}
	L.hasShortcut = true
	switch r.Intn(6) {
	case 0:
		L.root = ref()
	case 1:
		o := g.newNode(kObj)
		o.keys, o.kids = []string{"k"}, []*node{ref()}
		if n := ownScalar(true); n != nil && r.Intn(2) == 0 {
			o.keys, o.kids = append(o.keys, "n"), append(o.kids, n)
		}
		L.root = o
	case 2:
		a := g.newNode(kArr)
		a.kids = []*node{ref()}
		if r.Intn(2) == 0 {
			a.kids = append(a.kids, ref())
		}
		L.root = a
	case 3:
		o := g.newNode(kObj)
		if n := ownScalar(true); n != nil {
			o.keys, o.kids = []string{"total"}, []*node{n}
		}
		o.keys, o.kids = append(o.keys, "item"), append(o.kids, ref())
		L.root = o
	case 4: // the types are added but the root does not use the shared structure
		L.hasShortcut = false
		if n := ownScalar(false); n != nil && r.Intn(2) == 0 {
			L.root = n
		} else {
			L.root = g.scalar(false, 0)
		}
	default:
		a := g.newNode(kArr)
		if n := ownScalar(false); n != nil {
			a.kids = append(a.kids, n)
		}
		a.kids = append(a.kids, ref())
		L.root = a
	}
}

func oneHistory(i int) []outcome {
	r := caseRand(4, i)
	// the base: an example tree whose scalars name scalar types
	var s *schema
	for tries := 0; tries < 40; tries++ {
		c := &schema{}
		c.lead = []string{[]string{"", "", " ", "\n"}[r.Intn(4)]}
		g := &gen{r: r, s: c, budget: 4 + r.Intn(14), refP: 0.45}
		c.root = g.value(0, r.Intn(4), false)
		if len(c.types) >= 1 {
			s = c
			break
		}
	}
	if s == nil {
		return []outcome{{key: fmt.Sprintf("history %d", i), stats: []string{"h_no_types(skipped)"}}}
	}
	// lifted: the tree becomes the shared type `@sh`, every root places it by a shortcut;
	// unlifted (only when a type names a type): every root has the tree as its own root text.
	lifted := !chainTypes(s) || r.Intn(10) < 7
	shName := []string{"@sh", "@zz", "@a0"}[r.Intn(3)] // before / after the @tN in name order
	nroots := 2 + r.Intn(2)
	roots := make([]*hroot, nroots)
	var outs []outcome
	add := func(o *outcome, st string) { o.stats = append(o.stats, st) }
	ho := outcome{}
	for j := range roots {
		L := s.clone()
		if lifted {
			sh := &typ{name: shName, root: L.root}
			L.types = append([]*typ{sh}, L.types...)
			L.lead = append([]string{[]string{"", " ", "\n"}[r.Intn(3)]}, L.lead...)
			L.root = nil
			L.nextID += 1000 * (j + 1) // wrapper nodes of different roots get different ids
			wrapper(r, L, shName)
		}
		roots[j] = &hroot{sch: L}
	}
	// which roots get a corrupted binding: at least one good and (mostly) at least one bad
	nbad := 1
	if nroots == 3 && r.Intn(3) == 0 {
		nbad = 2
	}
	if r.Intn(12) == 0 {
		nbad = 0
	}
	perm := r.Perm(nroots)
	for _, j := range perm[:nbad] {
		ro := roots[j]
		// a corruption of a rule of a SCALAR TYPE (the per-root binding) that a value in
		// another object (the shared structure, another type, the root) violates
		type built struct {
			c   cand
			cs  *schema
			vio []int
		}
		var foreign, own []built // violated by a value outside the edited type object / only by its own example
		for _, c := range candidates(r, ro.sch) {
			isScalarTypeRoot := false
			for _, t := range ro.sch.types {
				if t.root.id == c.id && t.name != shName {
					isScalarTypeRoot = true
				}
			}
			if !isScalarTypeRoot {
				continue
			}
			cs, vio, ok := c.build()
			if !ok {
				continue
			}
			f := false
			for _, v := range vio {
				if v != c.id {
					f = true
				}
			}
			if f {
				foreign = append(foreign, built{c, cs, vio})
			} else {
				own = append(own, built{c, cs, vio})
			}
		}
		var pick *built
		switch {
		case len(foreign) > 0 && (len(own) == 0 || r.Intn(8) != 0):
			total := 0.0 // weighted as in the single-schema streams: declared-type edits are thinned out
			for _, b := range foreign {
				total += b.c.weight
			}
			x, k := r.Float64()*total, 0
			for k < len(foreign)-1 && x >= foreign[k].c.weight {
				x -= foreign[k].c.weight
				k++
			}
			pick = &foreign[k]
		case len(own) > 0:
			pick = &own[r.Intn(len(own))]
		}
		if pick == nil {
			continue // no corruption applies: the root stays good
		}
		ro.sch, ro.bad, ro.vio, ro.desc, ro.where = pick.cs, true, pick.vio, pick.c.desc, pick.c.where
	}
	// render, pool the objects (same name and same text = same object, unless unshared)
	var pool []hobj
	index := map[string]int{}
	for j, ro := range roots {
		var plain []string
		ro.full, plain = ro.sch.render()
		if !ro.sch.hasShortcut {
			ro.doc = plain[0]
		}
		for ti, t := range ro.sch.types {
			key := t.name + "\x00" + ro.full[ti+1]
			if t.name != shName && r.Intn(6) == 0 {
				key += fmt.Sprintf("\x00private to root %d", j)
			}
			oi, ok := index[key]
			if !ok {
				oi = len(pool)
				index[key] = oi
				pool = append(pool, hobj{t.name, ro.full[ti+1]})
			}
			ro.objs = append(ro.objs, oi)
		}
		ro.order = r.Perm(len(ro.sch.types))
	}
	// the verdicts with fresh objects
	nbadReal := 0
	for j, ro := range roots {
		if ro.bad {
			nbadReal++
			o := runCorruption(ro.sch, ro.vio, "type-rule", ro.desc, ro.where, "", -1)
			add(&o, "h_bad_root_fresh")
			outs = append(outs, o)
			if len(o.diffs) > 0 {
				return outs // already reported; the history would only repeat it
			}
		}
		names := ro.sch.names()
		ro.fresh, _ = runLib(ro.full, names, "")
		if ro.fresh.timeout {
			return append(outs, outcome{key: fmt.Sprintf("history %d root %d", i, j), fatal: true,
				diffs: []vh.Diff{{Component: "C04-shared-type-history", Input: ro.sch.inputText(ro.full), Impl: "TIMEOUT", Model: "Check terminates"}}})
		}
		if !ro.bad && !ro.fresh.ok {
			add(&ho, "h_good_root_rejected_fresh(skipped)")
			add(&ho, fmt.Sprintf("h_good_root_rejected_code_%d", ro.fresh.code))
			ho.key = fmt.Sprintf("history %d (skipped)", i)
			return append(outs, ho)
		}
	}
	// call orders
	var orders [][]hop
	checks := r.Perm(nroots)
	var a, b, c, d []hop
	for j := 0; j < nroots; j++ {
		a = append(a, hop{false, j})
		b = append(b, hop{false, j})
	}
	for k := range checks {
		a = append(a, hop{true, checks[k]})
		b = append(b, hop{true, checks[nroots-1-k]})
		c = append(c, hop{false, checks[k]}, hop{true, checks[k]})
		d = append(d, hop{false, checks[nroots-1-k]}, hop{true, checks[nroots-1-k]})
	}
	if r.Intn(2) == 0 {
		orders = [][]hop{a, b}
	} else {
		orders = [][]hop{c, d}
	}
	if r.Intn(4) == 0 { // build in check order, check later: AddType of a root after Check of another
		var e []hop
		e = append(e, hop{false, checks[0]}, hop{true, checks[0]})
		for _, j := range checks[1:] {
			e = append(e, hop{false, j})
		}
		for k := nroots - 1; k >= 1; k-- {
			e = append(e, hop{true, checks[k]})
		}
		orders = append(orders, e)
	}
	// the input text of the history
	var sb strings.Builder
	sb.WriteString("TYPE OBJECTS (each created ONCE with jschema.New(name, text); the same object is passed to AddType of every root that lists it):")
	for oi, o := range pool {
		fmt.Fprintf(&sb, "\n#%d %s =\n%s", oi+1, o.name, o.text)
	}
	shared := 0
	uses := make([]int, len(pool))
	for j, ro := range roots {
		fmt.Fprintf(&sb, "\nROOT %d =\n%s\n  AddType in this order:", j, ro.full[0])
		for _, ti := range ro.order {
			fmt.Fprintf(&sb, " %s=#%d", ro.sch.types[ti].name, ro.objs[ti]+1)
			uses[ro.objs[ti]]++
		}
	}
	for _, u := range uses {
		if u > 1 {
			shared++
		}
	}
	base := sb.String()
	key := base
	for _, ops := range orders {
		var cs []string
		for _, op := range ops {
			if op.check {
				cs = append(cs, fmt.Sprintf("Check(root %d)", op.root))
			} else {
				cs = append(cs, fmt.Sprintf("build(root %d)", op.root))
			}
		}
		calls := "\nCALLS: " + strings.Join(cs, "; ")
		key += calls
		res, timeout := runHistory(pool, roots, ops)
		if timeout {
			ho.diffs = append(ho.diffs, vh.Diff{Component: "C04-shared-type-history", Input: base + calls, Impl: "TIMEOUT", Model: "every call terminates"})
			ho.fatal = true
			break
		}
		goodBefore := false
		for _, op := range ops {
			if !op.check {
				continue
			}
			j := op.root
			ro, got := roots[j], res[j]
			switch {
			case ro.bad:
				want := expectPositions(ro.sch, ro.vio)
				sort.Ints(want)
				model := fmt.Sprintf("Check(root %d) fails with Position() in %v (offset of the violating value; %s at %s) — as it does when every type object is fresh: %s", j, want, ro.desc, ro.where, ro.fresh.String())
				if got.check.ok {
					ho.diffs = append(ho.diffs, vh.Diff{Component: "C04-shared-type-history", Input: base + calls, Impl: fmt.Sprintf("Check(root %d) = nil", j), Model: model})
				} else if !got.check.parsing || !contains(want, got.check.pos) {
					ho.diffs = append(ho.diffs, vh.Diff{Component: "C04-shared-type-history", Input: base + calls, Impl: fmt.Sprintf("Check(root %d) = %s", j, got.check.String()), Model: model})
				} else {
					add(&ho, "h_bad_root_rejected")
					if goodBefore {
						add(&ho, "h_bad_root_rejected_after_a_good_root_was_checked")
					}
				}
			default:
				if !sameVerdict(got.check, ro.fresh) {
					ho.diffs = append(ho.diffs, vh.Diff{Component: "C04-shared-type-history", Input: base + calls, Level: "correspondence",
						Impl:  fmt.Sprintf("Check(root %d) = %s", j, got.check.String()),
						Model: fmt.Sprintf("Check(root %d) = %s as with fresh type objects (every example obeys its rules in this root)", j, ro.fresh.String())})
				} else {
					add(&ho, "h_good_root_accepted")
					goodBefore = true
					if ro.doc != "" {
						if got.val.ok {
							add(&ho, "h_good_root_example_validates")
						} else {
							ho.diffs = append(ho.diffs, vh.Diff{Component: "C04-shared-type-history", Input: base + calls + "\nDOCUMENT for root " + fmt.Sprint(j) + ":\n" + ro.doc,
								Impl:  fmt.Sprintf("Check(root %d) = nil, Validate(example) = %s", j, got.val.String()),
								Model: "Check() = nil implies Validate(example) = nil"})
						}
					}
				}
			}
		}
	}
	ho.key = key
	ho.nontrivial = nbadReal >= 1 && nbadReal < nroots && shared >= 1
	add(&ho, "h_histories")
	add(&ho, fmt.Sprintf("h_roots_%d", nroots))
	add(&ho, fmt.Sprintf("h_bad_roots_%d", nbadReal))
	add(&ho, fmt.Sprintf("h_shared_objects_%d", imin(shared, 4)))
	if lifted {
		add(&ho, "h_shared_structure_placed_by_shortcut")
	} else {
		add(&ho, "h_roots_with_own_tree_sharing_scalar_types")
	}
	for _, ro := range roots {
		if ro.bad {
			add(&ho, "h_corruption_"+ro.desc)
			foreign := false
			for _, v := range ro.vio {
				if n := ro.sch.find(v); n != nil && n.file != 0 {
					for ti := range ro.sch.types {
						if n.file == ti+1 && uses[ro.objs[ti]] > 1 {
							foreign = true
						}
					}
				}
			}
			if foreign {
				add(&ho, "h_violating_value_inside_a_shared_object")
			}
		}
	}
	return append(outs, ho)
}
