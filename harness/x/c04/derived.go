package c04

// Generators DERIVED from the rule they probe.
//
// regex: the property quantifies over every expression RE2 accepts, so the expression is built from parts
// (literals with and without metacharacters, in four spellings; character classes; alternation groups;
// quantifiers; anchors ^ $ \A \z \b on one side, both sides or none, inside and outside a group; the flags i, m, s;
// the empty expression and a pool of degenerate ones) and the strings that match its body are built alongside
// it. The documents of such a node are derived from those strings: the string itself, with a prefix, a suffix,
// both, a line break after / before it, one character replaced / deleted / inserted, the case flipped, doubled,
// and the empty string. The verdict demanded is regexp.Match of the Go standard library on the decoded string
// (oracle bit 0), never the construction.
//
// formats: the same derivation on a valid value (prefix, suffix, both, line break, one character changed, case,
// empty) and values composed from boundary parts: dates year x month x day over leap / common / century years and
// the month lengths, uuids in the four forms with mixed case and one anomaly (length +-1, a character next to the
// hex ranges, hyphen moved, braces mismatched, prefix altered), datetimes date x time x fraction x zone, e-mail
// local x domain x wrapper, uri scheme x separator x authority x tail.

import (
	"fmt"
	"math/rand"
	"regexp"
	"strings"
	"time"
	"unicode"
	"unicode/utf8"
)

// ---------------------------------------------------------------------------------------------------------
// expressions

var rxLits = []string{"OK", "yes", "no", "ab", "a", "b", "s", "ss", "abc", "A", "Abc", "v1.2", "1.5", "a.b", "a-b", "a+b", "a/b", "a//b", "/", "/*",
	"#", `say "hi"`, `"`, `a\b`, `\`, "é", "aé", "日本", "😀", "ß", "1", "12", "2020-01", "true", "null", "$5", "(x)", "[1]", "a|b", "a b", " ", "x*", "a?",
	"{}", "{2}", "^", "^a$", "a\nb", "\n", "\t", "K", "k", "ſ", "Straße", "Ω", "i", "I"}

var rxMeta = `\.+*?()|[]{}^$`

// litSrc: an expression that matches exactly l.
func litSrc(r *rand.Rand, l string) string {
	switch r.Intn(8) {
	case 0:
		if l != "" && !strings.Contains(l, `\`) {
			return `\Q` + l + `\E`
		}
	case 1: // every rune as \x{..}
		var sb strings.Builder
		for _, c := range l {
			fmt.Fprintf(&sb, `\x{%X}`, c)
		}
		return sb.String()
	case 2: // metacharacters as one-character classes
		var sb strings.Builder
		for _, c := range l {
			switch {
			case c == '^' || c == '\\' || c == ']' || c == '[':
				sb.WriteString(`\` + string(c))
			case strings.ContainsRune(rxMeta, c):
				sb.WriteString("[" + string(c) + "]")
			default:
				sb.WriteRune(c)
			}
		}
		return sb.String()
	}
	return regexp.QuoteMeta(l)
}

type rxClass struct {
	src string
	yes []string
}

var rxClasses = []rxClass{
	{`[a-c]`, []string{"a", "b", "c"}}, {`[0-9]`, []string{"0", "5", "9"}}, {`\d`, []string{"0", "7"}}, {`\w`, []string{"a", "Z", "_", "0"}},
	{`[^x]`, []string{"a", "é", "\n"}}, {`.`, []string{"a", "é", "😀", " "}}, {`\s`, []string{" ", "\n", "\t"}}, {`\S`, []string{"a", "é"}},
	{`[[:alpha:]]`, []string{"a", "Q"}}, {`\pL`, []string{"é", "a", "日"}}, {`[é€]`, []string{"é", "€"}}, {`[^"\\]`, []string{"a", "/"}},
	{`[\x00-\x7f]`, []string{"a", "\x00", "\x7f"}}, {`[A-Z]`, []string{"A", "M", "Z"}}, {`[^a-z]`, []string{"A", "1", "é"}}, {`[/"]`, []string{"/", "\""}},
	{`\D`, []string{"a", " "}}, {`[.]`, []string{"."}}, {`[\^$]`, []string{"^", "$"}}, {`\x{1F600}`, []string{"😀"}}, {`[^\n]`, []string{"a", "\r"}},
	{`[[:^digit:]]`, []string{"a"}}, {`\PL`, []string{"1", " "}}, {`[a-cx-z]`, []string{"a", "z"}}, {`[-a]`, []string{"-", "a"}}, {`[\]a]`, []string{"]", "a"}},
}

type rxQuant struct {
	src    string
	counts []int
}

var rxQuants = []rxQuant{{"?", []int{0, 1}}, {"*", []int{0, 1, 3}}, {"+", []int{1, 2}}, {"{2}", []int{2}}, {"{1,2}", []int{1, 2}}, {"{2,}", []int{2, 4}},
	{"*?", []int{0, 2}}, {"+?", []int{1, 3}}, {"{0}", []int{0}}, {"{3}", []int{3}}, {"??", []int{0, 1}}, {"{0,1}", []int{0, 1}}}

type rxPart struct {
	src    string
	yes    []string
	counts []int
	kind   string
}

func rxOnePart(r *rand.Rand) rxPart {
	var p rxPart
	atomic := false // src is one atom: a quantifier binds to all of it
	switch k := r.Intn(8); {
	case k < 4:
		l := rxLits[r.Intn(len(rxLits))]
		p = rxPart{src: litSrc(r, l), yes: []string{l}, kind: "lit"}
	case k < 6:
		c := rxClasses[r.Intn(len(rxClasses))]
		p = rxPart{src: c.src, yes: c.yes, kind: "class"}
		atomic = true
	default:
		open := []string{"(", "(?:", "(?P<n>"}[r.Intn(3)]
		cnt := 2 + r.Intn(2)
		var srcs []string
		for i := 0; i < cnt; i++ {
			l := rxLits[r.Intn(len(rxLits))]
			if r.Intn(8) == 0 {
				l = "" // an empty alternative
			}
			srcs = append(srcs, litSrc(r, l))
			p.yes = append(p.yes, l)
		}
		p.src, p.kind = open+strings.Join(srcs, "|")+")", "alt"
		atomic = true
	}
	p.counts = []int{1}
	if r.Intn(5) < 2 {
		q := rxQuants[r.Intn(len(rxQuants))]
		if !atomic {
			p.src = []string{"(", "(?:"}[r.Intn(2)] + p.src + ")"
		}
		p.src += q.src
		p.counts = q.counts
		p.kind += "_quant"
	}
	return p
}

func (p rxPart) sample(r *rand.Rand) string {
	var sb strings.Builder
	for c := p.counts[r.Intn(len(p.counts))]; c > 0; c-- {
		sb.WriteString(p.yes[r.Intn(len(p.yes))])
	}
	return sb.String()
}

type rxAnchor struct{ pre, post, name string }

var rxAnchors = []rxAnchor{
	{"", "", "none"}, {"", "", "none"}, {"^", "", "left"}, {"", "$", "right"}, {`\A`, "", "left"}, {"", `\z`, "right"},
	{"^", "$", "both"}, {"^", "$", "both"}, {"^", "$", "both"}, {"^", `\z`, "both_z"}, {`\A`, "$", "both_A"}, {`\A`, `\z`, "both_Az"},
	{"^(", ")$", "both_group"}, {"^(?:", ")$", "both_group"}, {"(^", "$)", "both_in_group"}, {`\b`, `\b`, "word"},
	{"(?m)^", "$", "both_multiline"}, {"(?s)^", "$", "both_dotall"}, {"^.*", ".*$", "both_padded"}, {"^^", "$$", "both_doubled"},
}

// degenerate expressions: nothing but anchors / empty groups / everything
var rxSpecial = []string{``, `^$`, `^`, `$`, `\z`, `\A\z`, `()`, `^()$`, `.*`, `^.*$`, `(?s)^.*$`, `^.+$`, `\n`, `^[^\n]*$`, `^\s*$`, `(?m)^$`, `a^`, `$a`, `\b`, `\B`,
	`(?i)`, `^(?:)$`, `|`, `^(|a)$`, `x*`, `^x*$`, `[^\x00-\x{10FFFF}]`, `(?m)$`, `(?m)^a$`, `^\z`}

type rxGen struct {
	src     string
	samples []string
	shape   string
}

// genRegex draws an expression; old is the fixed pool of the first version of this command.
func genRegex(r *rand.Rand, old []string) rxGen {
	var g rxGen
	switch k := r.Intn(20); {
	case k < 2:
		g.src, g.shape = rxSpecial[r.Intn(len(rxSpecial))], "special"
		g.samples = []string{"", "a", "\n", "a\nb", "x", "xx"}
	case k < 4:
		g.src, g.shape = old[r.Intn(len(old))], "pool"
	case k < 6: // alternation at the top level: the anchors bind to one alternative only
		a, b := rxLits[r.Intn(len(rxLits))], rxLits[r.Intn(len(rxLits))]
		sa, sb := litSrc(r, a), litSrc(r, b)
		g.src = []string{"^" + sa + "|" + sb + "$", "^" + sa + "$|^" + sb + "$", sa + "|" + sb, "^" + sa + "|" + sb, sa + "|" + sb + "$", `\A` + sa + `\z|` + sb}[r.Intn(6)]
		g.samples, g.shape = []string{a, b}, "top_alternation"
	default:
		n := 1
		if k := r.Intn(10); k >= 9 {
			n = 3
		} else if k >= 6 {
			n = 2
		}
		var parts []rxPart
		var kinds []string
		for i := 0; i < n; i++ {
			p := rxOnePart(r)
			parts = append(parts, p)
			g.src += p.src
			kinds = append(kinds, p.kind)
		}
		body := kinds[0]
		if n > 1 {
			body = "concat"
		}
		for i := 0; i < 4; i++ {
			s := ""
			for _, p := range parts {
				s += p.sample(r)
			}
			g.samples = append(g.samples, s)
		}
		a := rxAnchors[r.Intn(len(rxAnchors))]
		g.src = a.pre + g.src + a.post
		g.shape = "anchors_" + a.name + "/body_" + body
		if r.Intn(6) == 0 {
			g.src = "(?i)" + g.src
			g.shape += "/flag_caseless"
		}
	}
	if _, err := regexp.Compile(g.src); err != nil { // cannot happen by construction; never hand the checker a broken one
		l := rxLits[r.Intn(len(rxLits))]
		g = rxGen{src: "^" + regexp.QuoteMeta(l) + "$", samples: []string{l}, shape: "anchors_both/body_lit"}
	}
	return g
}

// ---------------------------------------------------------------------------------------------------------
// probes derived from a string

var affixes = []string{"x", " ", "N", "AY", "0", "!", "é", "\t", "-", "<", ">", "{", "}", "/", ":", ".", "a", "s", "😀", "\r", "\x00"}

const nDerive = 12

func flipCase(c rune) rune {
	if unicode.IsUpper(c) {
		return unicode.ToLower(c)
	}
	return unicode.ToUpper(c)
}

// derive: a string that differs from s the way number k says (k < 0: any).
func derive(r *rand.Rand, s string, k int) (string, string) {
	if k < 0 {
		k = r.Intn(nDerive)
	}
	af := func() string {
		if s != "" && r.Intn(6) == 0 {
			rs := []rune(s)
			return string(rs[r.Intn(len(rs))])
		}
		return affixes[r.Intn(len(affixes))]
	}
	rs := []rune(s)
	pos := func() int { // the ends twice as often
		switch r.Intn(4) {
		case 0:
			return 0
		case 1:
			return len(rs) - 1
		}
		return r.Intn(len(rs))
	}
	switch k {
	case 0:
		return af() + s, "prefixed"
	case 1:
		return s + af(), "suffixed"
	case 2:
		return af() + s + af(), "prefixed_and_suffixed"
	case 3:
		return s + "\n", "line_break_after"
	case 4:
		return "\n" + s, "line_break_before"
	case 5:
		return s + []string{"\r\n", "\n\n", "\r", " \n"}[r.Intn(4)], "line_end_after"
	case 6:
		if len(rs) == 0 {
			return af(), "one_char_replaced"
		}
		i := pos()
		c := rs[i]
		switch r.Intn(5) {
		case 0:
			c++
		case 1:
			if c > 0 {
				c--
			}
		case 2:
			if f := flipCase(c); f != c {
				c = f
			} else {
				c++
			}
		case 3:
			c = []rune(af())[0]
		default:
			c = []rune{'x', '.', '0', 'g', ' '}[r.Intn(5)]
		}
		if !utf8.ValidRune(c) || c == rs[i] {
			c = 'x'
		}
		rs[i] = c
		return string(rs), "one_char_replaced"
	case 7:
		if len(rs) == 0 {
			return "", "empty"
		}
		i := pos()
		return string(rs[:i]) + string(rs[i+1:]), "one_char_deleted"
	case 8:
		if len(rs) == 0 {
			return af(), "one_char_inserted"
		}
		i := pos()
		ins := string(rs[i]) // usually a repeated character
		if r.Intn(3) == 0 {
			ins = string([]rune(af())[0])
		}
		return string(rs[:i]) + ins + string(rs[i:]), "one_char_inserted"
	case 9:
		var t string
		switch r.Intn(3) {
		case 0:
			t = strings.ToUpper(s)
		case 1:
			t = strings.ToLower(s)
		default:
			t = strings.Map(flipCase, s)
		}
		return t, "case_changed"
	case 10:
		return s + []string{"", "", "\n", " ", ",", "|"}[r.Intn(6)] + s, "doubled"
	}
	return "", "empty"
}

// ---------------------------------------------------------------------------------------------------------
// formats composed from parts

var dateYears = []int{0, 1, 4, 100, 400, 1000, 1600, 1700, 1800, 1900, 1904, 1996, 1999, 2000, 2001, 2019, 2020, 2021, 2023, 2024, 2100, 2200, 2300, 2400, 9996, 9999}
var dateDays = []int{0, 1, 9, 10, 27, 28, 29, 30, 31, 32}
var fullwidth = []string{"０", "１", "２", "３", "４", "５", "６", "７", "８", "９"}

func genYMD(r *rand.Rand) (y, m, d int) {
	y = dateYears[r.Intn(len(dateYears))]
	if r.Intn(4) == 0 {
		y = r.Intn(10000)
	}
	m = 1 + r.Intn(12)
	switch r.Intn(12) {
	case 0:
		m = []int{0, 13, 99, 20}[r.Intn(4)]
	case 1, 2, 3, 4:
		m = 2
	}
	d = dateDays[r.Intn(len(dateDays))]
	if r.Intn(8) == 0 {
		d = r.Intn(100)
	}
	return
}

func genDate(r *rand.Rand) (string, string) {
	y, m, d := genYMD(r)
	s := fmt.Sprintf("%04d-%02d-%02d", y, m, d)
	if r.Intn(5) != 0 {
		return s, "ymd"
	}
	switch r.Intn(14) {
	case 0:
		s = fmt.Sprintf("%d-%d-%d", y, m, d)
	case 1:
		s = fmt.Sprintf("%05d-%02d-%02d", y, m, d)
	case 2:
		s = fmt.Sprintf("%02d-%02d-%02d", y%100, m, d)
	case 3:
		sep := []string{"/", ".", "", " ", ":", "‐", "_"}[r.Intn(7)]
		s = strings.ReplaceAll(s, "-", sep)
	case 4:
		s = []string{" ", "\t", "\n", "+", "-", "0"}[r.Intn(6)] + s
	case 5:
		s += []string{" ", "\t", "\n", "Z", "T00:00:00Z", "+01:00", "0", "T", "-"}[r.Intn(9)]
	case 6:
		i := []int{0, 1, 2, 3, 5, 6, 8, 9}[r.Intn(8)]
		s = s[:i] + fullwidth[s[i]-'0'] + s[i+1:]
	case 7:
		s = fmt.Sprintf("%04d-%02d-%02d", y, d, m)
	case 8:
		s = fmt.Sprintf("%02d-%02d-%04d", d, m, y)
	case 9:
		s = fmt.Sprintf("%04d-%02d", y, m)
	case 10:
		s = fmt.Sprintf("%04d-%02d-%03d", y, m, d)
	case 11:
		s = fmt.Sprintf("%04d-%d-%02d", y, m, d)
	case 12:
		s = fmt.Sprintf("%04d-%02d-%d", y, m, d)
	default:
		s = fmt.Sprintf("%04d-%03d", y, 1+r.Intn(366)) // ordinal date
	}
	return s, "shape"
}

func pickS(r *rand.Rand, usual []string, rare []string) string {
	if r.Intn(6) == 0 {
		return rare[r.Intn(len(rare))]
	}
	return usual[r.Intn(len(usual))]
}

func genDatetime(r *rand.Rand) (string, string) {
	date, cls := genDate(r)
	s := date
	s += pickS(r, []string{"T"}, []string{"t", " ", "", "_", "TT"})
	s += pickS(r, []string{"00", "12", "23", "01"}, []string{"24", "25", "99", "1", "-1"}) + ":"
	s += pickS(r, []string{"00", "30", "59"}, []string{"60", "61", "5", "99"})
	s += pickS(r, []string{":00", ":59", ":07"}, []string{":60", ":61", "", ":5", ":99", ":"})
	s += pickS(r, []string{"", "", ".0", ".5", ".123", ".123456789", ".000000001"}, []string{".", ",5", ".1234567890", ".12345678901234567890", ".5.5", ". 5"})
	s += pickS(r, []string{"Z", "Z", "+00:00", "-00:00", "+01:00", "-08:00", "+05:30", "+14:00", "+23:59", "-23:59"},
		[]string{"z", "+24:00", "-24:00", "+01:60", "", "+0100", "+01", "+1:00", " +01:00", "Z ", "ZZ", "UTC", "+99:99", "−01:00", "Z\n", "+01:00:00", "+-1:00"})
	return s, cls
}

const hexDigits = "0123456789abcdefABCDEF"

func genUuid(r *rand.Rand, anomaly bool) (string, string) {
	digs := []string{"0123456789abcdef", "0123456789ABCDEF", hexDigits, "0123456789", "abcdef", "fF0"}[r.Intn(6)]
	b := make([]byte, 32)
	for i := range b {
		b[i] = digs[r.Intn(len(digs))]
	}
	plain := string(b)
	std := plain[:8] + "-" + plain[8:12] + "-" + plain[12:16] + "-" + plain[16:20] + "-" + plain[20:]
	urn := []string{"urn:uuid:", "URN:UUID:", "Urn:Uuid:", "uRN:uUID:"}[r.Intn(4)]
	form := r.Intn(4)
	s := [4]string{std, urn + std, "{" + std + "}", plain}[form]
	if !anomaly {
		return s, "wellformed"
	}
	switch r.Intn(12) {
	case 0: // length - 1
		i := r.Intn(len(s))
		return s[:i] + s[i+1:], "length_minus_1"
	case 1: // length + 1
		i := r.Intn(len(s) + 1)
		return s[:i] + string(hexDigits[r.Intn(len(hexDigits))]) + s[i:], "length_plus_1"
	case 2, 3: // a character next to the hex ranges, or an arbitrary one
		i := r.Intn(len(s))
		return s[:i] + string("gG@`/:zZ-x _{}\n"[r.Intn(15)]) + s[i+1:], "odd_char"
	case 4: // hyphen moved / replaced
		if j := strings.IndexByte(s, '-'); j >= 0 {
			hy := []int{}
			for i := range s {
				if s[i] == '-' {
					hy = append(hy, i)
				}
			}
			i := hy[r.Intn(len(hy))]
			bs := []byte(s)
			switch r.Intn(3) {
			case 0:
				bs[i], bs[i+1] = bs[i+1], bs[i]
			case 1:
				bs[i], bs[i-1] = bs[i-1], bs[i]
			default:
				bs[i] = "_ :0a."[r.Intn(6)]
			}
			return string(bs), "hyphen"
		}
		i := 1 + r.Intn(30)
		return plain[:i] + "-" + plain[i+1:], "hyphen"
	case 5:
		return []string{"{" + std + ")", "(" + std + "}", "{" + std, std + "}", "{" + plain + "}", "[" + std + "]", "(" + std + ")", "x" + std + "x", "{" + std + "x", "x" + std + "}", "}" + std + "{", "{{" + std + "}}", "{" + std + "} "}[r.Intn(13)], "braces"
	case 6:
		return []string{"urn:uuid-" + std, "urn:uuid:" + plain, "urn-uuid:" + std, "uuid:" + std, "urn:uuid:{" + std + "}", "{urn:uuid:" + std + "}", "urn:uuid: " + std[1:], "xxxxxxxxx" + std, "urn:uuie:" + std, "urn:uuid:" + std[:35], "urn:uuid:" + std + "0", "ürn:uuid" + std, "urn:guid:" + std}[r.Intn(13)], "prefix"
	case 7:
		return s + []string{"\n", " ", "\x00", "-", "}"}[r.Intn(5)], "suffixed"
	case 8:
		return []string{" ", "\n", "{", "-", "0"}[r.Intn(5)] + s, "prefixed"
	case 9: // groups of other lengths, same total
		return plain[:4] + "-" + plain[4:12] + "-" + plain[12:16] + "-" + plain[16:20] + "-" + plain[20:], "groups"
	case 10: // multi-byte character: byte length and character count differ
		i := r.Intn(len(s) - 1)
		return s[:i] + "é" + s[i+2:], "multibyte_same_byte_length"
	}
	i := r.Intn(len(s))
	return s[:i] + "é" + s[i+1:], "multibyte_same_char_count"
}

var mailLocals = []string{"a", "john.doe", "x+y", `"q"`, "a.b-c_d", "é", "1", "A", "a!#$%&'*+-/=?^_`{|}~b"}
var mailLocalsOdd = []string{".a", "a.", "a..b", "a b", "", `a\`, `"a b"`, `"a`, "a@b", "<a", "a>", "(c)a", "a,b", "a;b", "a:b"}
var mailDomains = []string{"b.c", "example.com", "b", "[127.0.0.1]", "é.fr", "sub.example.co.uk", "1.2", "b-c.d"}
var mailDomainsOdd = []string{"b..c", "", "[1.2.3.4", "b.c.", ".b.c", "b c", "b.c>", "b,c", "[::1]", "b_c.d", "-b.c"}
var mailWraps = []string{"%s", "%s", "%s", "%s", "%s", "%s", "<%s>", "N <%s>", `"N N" <%s>`, "%s (c)", "(c) %s", " %s", "%s ", "\t%s", "%s\t", "%s\n", "\n%s", "\r\n%s", "%s\r\n",
	"%s>", "<%s", "%s, %[1]s", "%s,", "%s;", "g: %s;", "<%s> ", " <%s>", "<%s>x", "=?utf-8?q?J?= <%s>", "N<%s>", "<%s>(c)", "%s (c", "<<%s>>", "N N <%s>", "\"N\" %s", "%s <%[1]s>", "mailto:%s", "\x00%s"}

func genEmail(r *rand.Rand) (string, string) {
	l, d := pickS(r, mailLocals, mailLocalsOdd), pickS(r, mailDomains, mailDomainsOdd)
	w := mailWraps[r.Intn(len(mailWraps))]
	cls := "bare"
	if w != "%s" {
		cls = "wrapped"
	}
	return fmt.Sprintf(w, l+"@"+d), cls
}

var uriSchemes = []string{"http", "https", "ftp", "x", "a+b.c-d", "HTTP", "mailto", "urn", "file", "h2"}
var uriSchemesOdd = []string{"1http", "", "h ttp", "+a", "é", "ht_tp", "http:", "-"}
var uriSeps = []string{"://", "://", "://", "://", "://", "://", ":", ":/", ":///", "//", "", ":////", "::", " ://", ":\\\\"}
var uriAuths = []string{"h", "a.b", "h:80", "u@h", "u:p@h", "[::1]", "[::1]:80", "1.2.3.4:80", "é.fr", "a_b.c", "xn--p1ai", "h:", "[fe80::1%25en0]", "H", "h.", "u:@h", "%41"}
var uriAuthsOdd = []string{":80", "u@:21", "u:p@", "@", "[]", "[]:80", "[::1", "::1]", "", "a b", "h:port", "h:80:80", "%zz", ":", "u@", "@:", "[::1]x", "h:-1", "h:65536", "u@@h", "[h]", " h", "h ", "<h>", "h\n", "\th", "h\\p"}
var uriTails = []string{"", "", "/", "/p", "/p?q#f", "?q", "#f", "/é", "/a/b/../c", "/%41", "//", "/p;v", "?", "#"}
var uriTailsOdd = []string{"/ p", "/%zz", "/p\n", " ", "/p q", "/\x7f", "/p#f#g", "?q p", "\n", "/\x00", "/%", "#%zz"}

func genUri(r *rand.Rand) (string, string) {
	s := pickS(r, uriSchemes, uriSchemesOdd) + uriSeps[r.Intn(len(uriSeps))] + pickS(r, uriAuths, uriAuthsOdd) + pickS(r, uriTails, uriTailsOdd)
	return s, "parts"
}

func genFmt(r *rand.Rand, f string) (string, string) {
	switch f {
	case "date":
		return genDate(r)
	case "datetime":
		return genDatetime(r)
	case "uuid":
		return genUuid(r, r.Intn(3) != 0)
	case "email":
		return genEmail(r)
	}
	return genUri(r)
}

// genFmtExample: a value of the format built by the generators, "" when none was found. Validity is decided
// by the standard library (date, datetime) or holds by construction (uuid without anomaly).
func genFmtExample(r *rand.Rand, f string) string {
	for i := 0; i < 6; i++ {
		switch f {
		case "date":
			if s, _ := genDate(r); len(s) == 10 {
				if _, err := time.Parse("2006-01-02", s); err == nil {
					return s
				}
			}
		case "datetime":
			if s, _ := genDatetime(r); true {
				if _, err := time.Parse(time.RFC3339, s); err == nil {
					return s
				}
			}
		case "uuid":
			s, _ := genUuid(r, false)
			return s
		default:
			return ""
		}
	}
	return ""
}
