package c04

// Stream (f): EXAMPLE values at the boundary of a format / of a regular expression.
//
// The property quantifies over every example value that violates "a format" / "a pattern" of its own
// rules. The corruptions of the main stream swap a good format example for one of a handful of obviously
// broken strings; here the example string is DERIVED from the boundary of the rule (derived.go, the
// generators of x/sem-rules-full for DOCUMENT values): dates year x month x day around the month lengths
// of leap / common / century years, month 0 / 13, unpadded fields, other separators; datetimes the same
// plus hour 24, minute / second 60, fractions and zone forms; uuids in the four forms with one anomaly
// (length -1 / +1, a character next to the hex ranges, hyphen moved, braces unbalanced, urn prefix
// altered); e-mail local x domain x wrapper; uri scheme x separator x authority x tail; for `regex` an
// expression built from parts together with strings that match its body, and strings derived from those
// (prefix, suffix, line break, one character replaced / deleted / inserted, case, doubled: strings that
// CONTAIN a match of an anchored expression without being one).
//
// The verdict demanded for a probe is decided by an oracle evaluated HERE, never by the construction and
// never by the library: FmtSat of lean/JSight/RulesFullSpec.lean — date: the calendar (cross-checked
// against time.Parse, a probe on which the two differ is dropped and counted), datetime: time.Parse RFC
// 3339, uuid: the four forms of lean/JSight/Formats.lean, email: net/mail and not wrapped in blanks /
// angle brackets, uri: net/url absolute with a host; regex: regexp.MatchString.
//
//	example the rule REJECTS  ==>  Check fails and Position() is the offset of that example
//	example the rule ACCEPTS  ==>  Check succeeds (and, for a plain-JSON schema, Validate(example) succeeds)
//
// The probe is placed at the root, as a property, as an array item (first / later), grafted anywhere
// into a generated schema (also inside a structured type placed by shortcut); its rule is `type: "F"`,
// an `or` list of format names / {type: "F"} rule-sets / a regex rule-set / type names of other kinds, or
// `regex`; the rule sits on the probe itself, or behind {type: "@T"} / an or member "@T" (one or two
// hops; the type's own example is a good one), or the probe is the EXAMPLE of an added type (referenced
// by a good value, by a value shortcut, or by nobody).

import (
	"fmt"
	"math/rand"
	"net/mail"
	"net/url"
	"regexp"
	"strings"
	"time"
	"unicode/utf8"

	"verifharness/vh"
)

// ---------------------------------------------------------------------------
// oracles
// ---------------------------------------------------------------------------

func isLeap(y int) bool { return y%4 == 0 && (y%100 != 0 || y%400 == 0) }

func daysIn(m, y int) int {
	switch m {
	case 2:
		if isLeap(y) {
			return 29
		}
		return 28
	case 4, 6, 9, 11:
		return 30
	}
	return 31
}

// dateSat: YYYY-MM-DD in ASCII digits naming a day of the proleptic Gregorian calendar.
func dateSat(s string) bool {
	if len(s) != 10 || s[4] != '-' || s[7] != '-' {
		return false
	}
	for _, i := range []int{0, 1, 2, 3, 5, 6, 8, 9} {
		if s[i] < '0' || s[i] > '9' {
			return false
		}
	}
	d2 := func(i int) int { return int(s[i]-'0')*10 + int(s[i+1]-'0') }
	y, m, d := d2(0)*100+d2(2), d2(5), d2(8)
	return 1 <= m && m <= 12 && 1 <= d && d <= daysIn(m, y)
}

func isHexByte(c byte) bool {
	return ('0' <= c && c <= '9') || ('a' <= c && c <= 'f') || ('A' <= c && c <= 'F')
}

func uuidStd(b string) bool {
	if len(b) != 36 {
		return false
	}
	for i := 0; i < 36; i++ {
		if i == 8 || i == 13 || i == 18 || i == 23 {
			if b[i] != '-' {
				return false
			}
		} else if !isHexByte(b[i]) {
			return false
		}
	}
	return true
}

func uuidSat(s string) bool {
	switch len(s) {
	case 36:
		return uuidStd(s)
	case 45:
		return strings.EqualFold(s[:9], "urn:uuid:") && isASCII(s[:9]) && uuidStd(s[9:])
	case 38:
		return s[0] == '{' && s[37] == '}' && uuidStd(s[1:37])
	case 32:
		for i := 0; i < 32; i++ {
			if !isHexByte(s[i]) {
				return false
			}
		}
		return true
	}
	return false
}

func isASCII(s string) bool {
	for i := 0; i < len(s); i++ {
		if s[i] >= 0x80 {
			return false
		}
	}
	return true
}

func emailSat(s string) bool {
	if s == "" {
		return false
	}
	if f, l := s[0], s[len(s)-1]; f == ' ' || f == '<' || l == ' ' || l == '>' {
		return false
	}
	_, err := mail.ParseAddress(s)
	return err == nil
}

func uriSat(s string) (ok bool) {
	defer func() {
		if recover() != nil {
			ok = false
		}
	}()
	u, err := url.ParseRequestURI(s)
	return err == nil && u.IsAbs() && u.Hostname() != ""
}

// fmtSat: does string s satisfy format f; sure=false: the oracles of the format disagree, no verdict.
func fmtSat(f, s string) (ok bool, sure bool) {
	switch f {
	case "date":
		_, err := time.Parse("2006-01-02", s)
		c := dateSat(s)
		return c, c == (err == nil)
	case "datetime":
		_, err := time.Parse(time.RFC3339, s)
		return err == nil, true
	case "uuid":
		return uuidSat(s), true
	case "email":
		return emailSat(s), true
	case "uri":
		return uriSat(s), true
	}
	panic("format " + f)
}

// ---------------------------------------------------------------------------
// probes
// ---------------------------------------------------------------------------

// the pools of x/sem-rules-full: starting points of the derivation, the verdict is always the oracle's
var fmtSeeds = map[string][2][]string{
	"email": {{"a@b.c", "john.doe@example.com", "x+y@host.org", "\"q\"@h.io", "a@b", "user@[127.0.0.1]", "é@x.y", "a@é.fr", "a.b-c_d@sub.example.co.uk", "1@2.3"},
		{"", " a@b.c", "a@b.c ", "<a@b.c>", "a@b.c>", "<a@b.c", "a", "@b.c", "a@", "a b@c.d", "a@b@c", "a@b.c, d@e.f", "(c) a@b.c", "a@b.c (c)", "A <a@b.c>", "\"John Doe\" <j@x.y>", "j@x.y (John)", "group: j@x.y;", "a@b.c\n", "a@b..c", ".a@b.c", "a.@b.c", "a@[1.2.3.4", "a\\@b.c"}},
	"uri": {{"http://a.b", "https://example.com/x?y=1#z", "ftp://h/p", "http://[::1]:80/", "x://h", "http://a.b/é", "HTTP://A.B", "http://u:p@h", "mailto://h", "http://h:8080/p", "http://[fe80::1%25en0]:8080/", "http://1.2.3.4:80", "a+b.c-d://h", "http://h:/", "http://h?q", "http://h#f", "http://a_b.c/"},
		{"", "a.b", "/x/y", "http://", "http:///p", "mailto:a@b.c", "//h/p", "http://a b", "h ttp://a", ":", "*", "http://%zz", "urn:x", "http:a.b", "1http://a.b", "http://:8080/p", "ftp://u@:21/", "http://u:p@/", "http://@", "x://", "x:///", "http://?q", "http://#f", "http://[::1", "http://[]/", "http://h:port/", "http://h:80:80/", "file:///etc/passwd", "http:/h/p", "http://h /p"}},
	"uuid": {{"550e8400-e29b-41d4-a716-446655440000", "550E8400-E29B-41D4-A716-446655440000", "urn:uuid:550e8400-e29b-41d4-a716-446655440000", "URN:UUID:550e8400-e29b-41d4-a716-446655440000", "{550e8400-e29b-41d4-a716-446655440000}", "550e8400e29b41d4a716446655440000"},
		{"", "550e8400-e29b-41d4-a716-44665544000", "550e8400-e29b-41d4-a716-4466554400000", "550e8400-e29b-41d4-a716-44665544000g", "550e8400_e29b-41d4-a716-446655440000", "{550e8400-e29b-41d4-a716-446655440000)", "550e8400e29b41d4a71644665544000g", "{550e8400e29b41d4a716446655440000}", "550e8400e29b-41d4-a716-4466-55440000"}},
	"date": {{"2020-02-29", "2021-12-31", "0001-01-01", "1999-04-30", "2000-02-29", "9999-12-31", "0000-01-01", "2020-06-30", "2400-02-29"},
		{"", "20200101", "2020-01-01T00:00:00Z", " 2020-01-01", "2020-01-01 ", "2020/01/01", "+020-01-01", "2020-01-0١", "0000-00-00", "2020-01-01Z"}},
	"datetime": {{"2020-02-29T12:00:00Z", "2021-12-31T23:59:59+01:00", "2000-01-01T00:00:00.123Z", "1999-04-30T01:02:03-08:00", "2020-01-01T00:00:00.000000001Z", "2020-01-01T00:00:00.5+05:30", "2020-01-01T00:00:00-00:00", "2020-12-31T23:59:59.999-23:59", "2020-01-01T00:00:00+14:00"},
		{"", "2020-02-29", "2020-02-29T12:00:00", "2020-01-01 00:00:00Z", "2020-01-01T00:00Z", "2020-01-01T00:00:00+0100", "2020-01-01T00:00:00Z ", "2020-01-01T00:00:00,5Z", "2020-01-01T00:00:00.Z", "2020-01-01T00:00:00+01", "2020-01-01T00:00:00Z+01:00", "2020-01-01T00:00:00UTC", "20200101T000000Z", "2020-01-01T00:00:00−01:00"}},
}

var rxOldPool = []string{`^a+$`, `^[a-z]*$`, `b`, `^.{2}$`, `^\d+$`, `é`, `^$`, `^s`, `\.`, `^(true|null|1)$`, `^[^"]*$`, `^\x{1F600}`, `s$`,
	`^\S+$`, `(?i)^ABC`, `^.$`, `^[\x00-\x7f]*$`, `\\`, `/`, `^\d{4}-\d{2}$`}

// genDateEdge: a well-formed date on / one day around the END OF A MONTH (and the first day), the year
// drawn from leap, common and century years: where the calendar decides and nothing else does.
func genDateEdge(r *rand.Rand) (string, string) {
	y := dateYears[r.Intn(len(dateYears))]
	if r.Intn(5) == 0 {
		y = r.Intn(10000)
	}
	m := 1 + r.Intn(12)
	if r.Intn(5) < 2 {
		m = 2
	}
	l := daysIn(m, y)
	d := l + []int{-1, 0, 0, 1, 1, 2}[r.Intn(6)]
	switch r.Intn(8) {
	case 0:
		d = []int{0, 1}[r.Intn(2)]
	case 1:
		d = 28 + r.Intn(5) // 28 .. 32 whatever the month
	}
	return fmt.Sprintf("%04d-%02d-%02d", y, m, d), fmt.Sprintf("month_end_%+d", d-l)
}

// genDatetimeEdge: a date at a month end with a well-formed time, or a good date with ONE time field at
// its bound (hour 23 / 24, minute and second 59 / 60, zone +23:59 / +24:00, fraction digits 9 / 10).
func genDatetimeEdge(r *rand.Rand) (string, string) {
	date, cls := genDateEdge(r)
	h, mi, se, fr, z := "12", "30", "07", "", "Z"
	if r.Intn(2) == 0 {
		for i := 0; i < 8 && !dateSat(date); i++ {
			date, _ = genDateEdge(r)
		}
		switch r.Intn(7) {
		case 0:
			h, cls = []string{"23", "24", "00"}[r.Intn(3)], "hour_bound"
		case 1:
			mi, cls = []string{"59", "60"}[r.Intn(2)], "minute_bound"
		case 2:
			se, cls = []string{"59", "60", "61"}[r.Intn(3)], "second_bound"
		case 3:
			z, cls = []string{"+23:59", "+24:00", "-23:59", "-24:00", "+00:59", "+00:60", "+14:00", "-00:00"}[r.Intn(8)], "zone_bound"
		case 4:
			fr, cls = []string{".123456789", ".1234567890", ".0", ".", ".000000000"}[r.Intn(5)], "fraction_bound"
		case 5:
			z, cls = []string{"z", "", "+0100", "+01", " Z", "Z ", "+01:00:00", "+1:00"}[r.Intn(8)], "zone_form"
		default:
			h, mi, se, cls = "23", "59", []string{"59", "60"}[r.Intn(2)], "last_second"
		}
	}
	t := "T"
	if r.Intn(12) == 0 {
		t = []string{"t", " ", ""}[r.Intn(3)]
	}
	return date + t + h + ":" + mi + ":" + se + fr + z, cls
}

// goodOf: a string format f accepts (decided by the oracle), boundary-built when possible.
func goodOf(r *rand.Rand, f string) string {
	for i := 0; i < 8; i++ {
		var s string
		switch {
		case i >= 6 || r.Intn(4) == 0:
			p := fmtSeeds[f][0]
			s = p[r.Intn(len(p))]
		case f == "date" && r.Intn(2) == 0:
			s, _ = genDateEdge(r)
		case f == "datetime" && r.Intn(2) == 0:
			s, _ = genDatetimeEdge(r)
		case f == "uuid":
			s, _ = genUuid(r, false)
		default:
			s, _ = genFmt(r, f)
		}
		if ok, sure := fmtSat(f, s); ok && sure && printable(s) {
			return s
		}
	}
	return formatGood[f][r.Intn(len(formatGood[f]))]
}

// printable: the string can be written as a schema example (valid UTF-8; control characters are escaped).
func printable(s string) bool { return utf8.ValidString(s) }

// fmtProbe: a string at the boundary of format f, with the name of its derivation.
func fmtProbe(r *rand.Rand, f string) (string, string) {
	switch k := r.Intn(20); {
	case k < 5 && f == "date":
		return genDateEdge(r)
	case k < 5 && f == "datetime":
		return genDatetimeEdge(r)
	case k < 9:
		s, c := genFmt(r, f)
		return s, "composed_" + c
	case k < 14:
		s, c := derive(r, goodOf(r, f), -1)
		return s, "derived_" + c
	case k < 16:
		return goodOf(r, f), "good"
	case k < 17:
		g := formatNames[r.Intn(len(formatNames))]
		return goodOf(r, g), "good_of_some_format"
	case k < 18:
		p := fmtSeeds[f][1]
		return p[r.Intn(len(p))], "pool_negative"
	case k < 19:
		p := fmtSeeds[f][1]
		s, c := derive(r, p[r.Intn(len(p))], -1)
		return s, "derived_from_negative_" + c
	}
	return formatBad[f][r.Intn(len(formatBad[f]))], "old_pool"
}

// derivedBad: a string format f rejects, of at most maxLen bytes, derived from the boundary of the format
// ("" when none was found). Used by the corruptions of the main stream.
func derivedBad(r *rand.Rand, f string, maxLen int) string {
	if _, ok := formatBad[f]; !ok {
		return "" // a type name that is no string format (other packages reuse the candidates with their own nodes)
	}
	for i := 0; i < 12; i++ {
		s, _ := fmtProbe(r, f)
		if len(s) > maxLen || !printable(s) {
			continue
		}
		if ok, sure := fmtSat(f, s); !ok && sure {
			return s
		}
	}
	return ""
}

// ---------------------------------------------------------------------------
// the rule of the probe
// ---------------------------------------------------------------------------

// ruleSpec: the rule list that speaks about the probe, a predicate for it and a good example.
type ruleSpec struct {
	rules []rule
	form  string // type | or | regex
	shape string // regex: anchors of the expression
	desc  string
	sat   func(s string) (ok, sure bool)
	good  func(r *rand.Rand) (string, bool)
}

func rxSpec(r *rand.Rand) (src string, re *regexp.Regexp, samples []string, shape string) {
	g := genRegex(r, rxOldPool)
	re = regexp.MustCompile(g.src)
	return g.src, re, g.samples, g.shape
}

func genRuleSpec(r *rand.Rand) (ruleSpec, string, string) {
	switch k := r.Intn(10); {
	case k < 4: // type: "F"
		f := formatNames[r.Intn(len(formatNames))]
		sp := ruleSpec{form: "type", desc: "format-example-" + f, rules: []rule{{name: "type", s: f}},
			sat:  func(s string) (bool, bool) { return fmtSat(f, s) },
			good: func(r *rand.Rand) (string, bool) { return goodOf(r, f), true }}
		if r.Intn(4) == 0 {
			sp.rules = append(sp.rules, rule{name: "const", b: r.Intn(2) == 0})
		}
		s, c := fmtProbe(r, f)
		return sp, s, f + "_" + c
	case k < 7: // an or list
		perm := r.Perm(len(formatNames))
		nf := 1 + r.Intn(3)
		var fs []string
		var alts []alt
		var res []*regexp.Regexp
		for _, i := range perm[:nf] {
			f := formatNames[i]
			fs = append(fs, f)
			if r.Intn(4) == 0 {
				alts = append(alts, alt{rules: []rule{{name: "type", s: f}}})
			} else {
				alts = append(alts, alt{name: f})
			}
		}
		var samples []string
		if r.Intn(4) == 0 { // a regex rule-set among the formats
			src, re, smp, _ := rxSpec(r)
			res, samples = append(res, re), smp
			rs := []rule{{name: "type", s: "string"}, {name: "regex", s: src}}
			if r.Intn(2) == 0 {
				rs[0], rs[1] = rs[1], rs[0]
			}
			alts = append(alts, alt{rules: rs})
		}
		if len(alts) < 2 || r.Intn(3) == 0 { // a member of another kind
			alts = append(alts, alt{name: []string{"integer", "float", "boolean", "null", "object", "array"}[r.Intn(6)]})
		}
		r.Shuffle(len(alts), func(i, j int) { alts[i], alts[j] = alts[j], alts[i] })
		sp := ruleSpec{form: "or", desc: fmt.Sprintf("or-format-example-%d-formats", len(fs)), rules: []rule{{name: "or", alts: alts}}}
		if len(res) > 0 {
			sp.desc += "+regex"
		}
		sp.sat = func(s string) (bool, bool) {
			acc, sure := false, true
			for _, f := range fs {
				o, su := fmtSat(f, s)
				acc, sure = acc || o, sure && su
			}
			for _, re := range res {
				acc = acc || re.MatchString(s)
			}
			return acc, sure
		}
		sp.good = func(r *rand.Rand) (string, bool) { return goodOf(r, fs[r.Intn(len(fs))]), true }
		// the probe: at the boundary of one of the member formats (or of the expression)
		if len(samples) > 0 && r.Intn(3) == 0 {
			s, c := derive(r, samples[r.Intn(len(samples))], -1)
			return sp, s, "regex_" + c
		}
		f := fs[r.Intn(len(fs))]
		s, c := fmtProbe(r, f)
		return sp, s, f + "_" + c
	default: // regex
		src, re, samples, shape := rxSpec(r)
		sp := ruleSpec{form: "regex", desc: "regex-example-derived", rules: []rule{{name: "regex", s: src}},
			sat: func(s string) (bool, bool) { return re.MatchString(s), true }}
		if r.Intn(3) == 0 {
			sp.rules = append(sp.rules, rule{name: "type", s: "string"})
		}
		pool := append([]string(nil), samples...)
		sp.good = func(r *rand.Rand) (string, bool) {
			for i := 0; i < 8; i++ {
				var s string
				if len(pool) > 0 && i < 5 {
					s = pool[r.Intn(len(pool))]
				} else {
					s = []string{"", "a", "abc", "s", "1", "2020-01", "é", "a b", "\\", "/"}[r.Intn(10)]
				}
				if re.MatchString(s) && printable(s) {
					return s, true
				}
			}
			return "", false
		}
		sp.shape = strings.SplitN(shape, "/", 2)[0]
		if len(samples) == 0 || r.Intn(8) == 0 {
			s := []string{"", "a", "\n", "a\nb", "x", "xx", "abc", " "}[r.Intn(8)]
			return sp, s, "regex_short_string"
		}
		smp := samples[r.Intn(len(samples))]
		if r.Intn(5) == 0 {
			return sp, smp, "regex_sample"
		}
		s, c := derive(r, smp, -1)
		return sp, s, "regex_" + c
	}
}

// ---------------------------------------------------------------------------
// building the case
// ---------------------------------------------------------------------------

func (g *gen) strNode(s string) *node {
	n := g.newNode(kStr)
	g.setString(n, s)
	return n
}

// clone2: a copy of scalar n under a fresh id.
func (n *node) clone2(g *gen) *node {
	c := n.clone()
	g.s.nextID++
	c.id = g.s.nextID
	return c
}

type fmtCase struct {
	s       *schema
	probe   *node
	indir   string
	place   string
	spec    ruleSpec
	cls     string
	skipped string
}

func buildFmtCase(r *rand.Rand) fmtCase {
	spec, str, cls := genRuleSpec(r)
	fc := fmtCase{spec: spec, cls: cls}
	if !printable(str) {
		fc.skipped = "f_skipped_unprintable_probe"
		return fc
	}
	placeKind := r.Intn(10)
	shortcuts := placeKind >= 8 && r.Intn(2) == 0
	var s *schema
	var g *gen
	// the host schema
	if placeKind >= 6 {
		s = genSchema(r, shortcuts)
		full, _ := s.render()
		if chk, _ := runLib(full, s.names(), ""); !chk.ok {
			s = nil
		}
	}
	if s == nil {
		s = &schema{lead: []string{[]string{"", "", " ", "\n", "  \n "}[r.Intn(5)]}}
		if placeKind >= 6 {
			placeKind = r.Intn(6)
		}
	}
	g = &gen{r: r, s: s, budget: 10}
	fc.s = s
	// ordinary siblings, drawn BEFORE the types of the probe exist: a later scalar could reuse such a
	// type and its example (gen.reuseType) and become one more violating value
	var fillers []*node
	if placeKind <= 5 {
		for i := 0; i < 3; i++ {
			fillers = append(fillers, g.scalar(placeKind == 1 || placeKind == 2, 1))
		}
	} else {
		fillers = append(fillers, g.scalar(false, 1))
	}
	filler := func() *node {
		n := fillers[len(fillers)-1]
		if len(fillers) > 1 {
			fillers = fillers[:len(fillers)-1]
			return n
		}
		return n.clone2(g)
	}
	// const: true pins the value of the annotated node: not under a rule other values refer to
	noConst := func(rs []rule) []rule {
		for i := range rs {
			if rs[i].name == "const" {
				rs[i].b = false
			}
		}
		return rs
	}

	probe := g.strNode(str)
	fc.probe = probe
	carrier := probe // the node that is placed into the host
	rules := cloneRules(spec.rules)
	refRule := func(name string) []rule {
		if r.Intn(4) == 0 {
			other := []string{"integer", "boolean", "null", "float"}[r.Intn(4)]
			alts := []alt{{name: name}, {name: other}}
			if r.Intn(2) == 0 {
				alts[0], alts[1] = alts[1], alts[0]
			}
			return []rule{{name: "or", alts: alts}}
		}
		return []rule{{name: "type", s: name}}
	}
	switch k := r.Intn(10); {
	case k < 4:
		fc.indir = "direct"
		probe.rules = rules
	case k < 7: // the rule sits behind a reference, the type's own example is a good one
		gs, ok := spec.good(r)
		if !ok {
			fc.indir = "direct"
			probe.rules = rules
			break
		}
		fc.indir = "behind_reference"
		tn := g.strNode(gs)
		tn.rules = noConst(rules)
		t := g.addType(tn, []int{probe.id})
		if gs2, ok2 := spec.good(r); ok2 && r.Intn(4) == 0 { // two hops
			mid := g.strNode(gs2)
			mid.rules = []rule{{name: "type", s: t.name}}
			t = g.addType(mid, []int{probe.id})
			fc.indir = "behind_two_references"
		}
		probe.rules = refRule(t.name)
	default: // the probe is the example of an added type
		probe.rules = rules
		t := g.addType(probe, nil)
		switch r.Intn(4) {
		case 0:
			fc.indir = "type_example_unreferenced"
			carrier = filler()
		case 1:
			fc.indir = "type_example_placed_by_shortcut"
			s.hasShortcut = true
			carrier = g.newNode(kRef)
			carrier.mode, carrier.lit = "shortcut", t.name
		default:
			gs, ok := spec.good(r)
			if !ok {
				fc.indir = "type_example_unreferenced"
				carrier = filler()
				break
			}
			fc.indir = "type_example_referenced"
			probe.rules = noConst(probe.rules)
			carrier = g.strNode(gs)
			carrier.rules = refRule(t.name)
		}
	}
	inObj := false
	if carrier.kind == kRef && placeKind == 0 {
		placeKind = 1 + r.Intn(5) // a value shortcut stands inside a container, as in the main stream
	}
	// placement of the carrier
	switch {
	case placeKind == 0:
		fc.place = "root"
		s.root = carrier
	case placeKind <= 2:
		fc.place = "property"
		inObj = true
		o := g.newNode(kObj)
		w := 1 + r.Intn(3)
		at := r.Intn(w)
		used := map[string]bool{}
		for i := 0; i < w; i++ {
			key := g.key()
			for used[decodeKey(key)] {
				key = g.key()
			}
			used[decodeKey(key)] = true
			o.keys = append(o.keys, key)
			if i == at {
				o.kids = append(o.kids, carrier)
			} else {
				o.kids = append(o.kids, filler())
			}
		}
		s.root = o
	case placeKind <= 5:
		a := g.newNode(kArr)
		w := 1 + r.Intn(3)
		at := r.Intn(w)
		fc.place = "array_item_first"
		if at > 0 {
			fc.place = "array_item_later"
		}
		for i := 0; i < w; i++ {
			if i == at {
				a.kids = append(a.kids, carrier)
			} else if r.Intn(2) == 0 && carrier == probe && fc.indir == "direct" {
				// a sibling item under the same rule with a good example
				if gs, ok := spec.good(r); ok {
					sib := g.strNode(gs)
					sib.rules = cloneRules(spec.rules)
					a.kids = append(a.kids, sib)
				} else {
					a.kids = append(a.kids, filler())
				}
			} else {
				a.kids = append(a.kids, filler())
			}
		}
		s.root = a
	default: // grafted into a generated schema
		var conts []*node
		s.walk(func(n *node) {
			if (n.kind == kObj || n.kind == kArr) && n.mode == "plain" && n != probe {
				conts = append(conts, n)
			}
		})
		if len(conts) == 0 {
			fc.place = "root"
			s.root = carrier
			break
		}
		c := conts[r.Intn(len(conts))]
		at := r.Intn(len(c.kids) + 1)
		if c.kind == kObj {
			inObj = true
			used := map[string]bool{}
			for _, k := range c.keys {
				used[decodeKey(k)] = true
			}
			key := g.key()
			for used[decodeKey(key)] {
				key = g.key() + "_" + fmt.Sprint(r.Intn(100))
			}
			c.keys = append(c.keys[:at], append([]string{key}, c.keys[at:]...)...)
		}
		c.kids = append(c.kids[:at], append([]*node{carrier}, c.kids[at:]...)...)
		keep := c.rules[:0]
		for _, ru := range c.rules { // the item-count rules of the host would now be wrong
			if ru.name != "minItems" && ru.name != "maxItems" {
				keep = append(keep, ru)
			}
		}
		c.rules = keep
		fc.place = "grafted"
		if c.file != 0 {
			fc.place = "grafted_into_structured_type"
		}
	}
	if !strings.HasSuffix(fc.indir, "_unreferenced") { // (an unreferenced type's carrier is a finished scalar)
		carrier.rules = g.companions(carrier.rules, inObj)
		g.shuffle(carrier.rules)
	}
	if carrier != probe {
		g.shuffle(probe.rules)
	}
	return fc
}

func oneFormat(i int) []outcome {
	r := caseRand(5, i)
	fc := buildFmtCase(r)
	if fc.skipped != "" {
		return []outcome{{key: fmt.Sprintf("skipped %d", i), stats: []string{fc.skipped}}}
	}
	s, probe := fc.s, fc.probe
	acc, sure := fc.spec.sat(probe.str)
	if !sure {
		full, _ := s.render()
		return []outcome{{key: s.inputText(full), stats: []string{"f_skipped_oracles_disagree"}}}
	}
	stats := []string{"f_cases", "f_place_" + fc.place, "f_indirection_" + fc.indir, "f_form_" + fc.spec.form}
	verd := "rejects"
	if acc {
		verd = "accepts"
	}
	stats = append(stats, "f_oracle_"+verd, "f_form_"+fc.spec.form+"_oracle_"+verd, "f_probe_"+fc.cls+"_oracle_"+verd)
	if fc.spec.shape != "" {
		stats = append(stats, "f_regex_"+fc.spec.shape+"_oracle_"+verd)
	}
	if strings.ContainsAny(probe.lit, `\`) {
		stats = append(stats, "f_probe_spelled_with_escapes")
	}
	if !acc {
		o := runCorruption(s, []int{probe.id}, "format-boundary", fc.spec.desc, s.where(probe.id), "", probe.id)
		for i := range o.diffs {
			o.diffs[i].Model += fmt.Sprintf(" [the example %s violates its rule: probe %s, %s, %s; oracle of the harness]", probe.lit, fc.cls, fc.place, fc.indir)
		}
		o.nontrivial = true
		o.stats = append(o.stats, stats...)
		return []outcome{o}
	}
	// the example satisfies its rule: Check must succeed, the example must validate
	full, plain := s.render()
	doc := plain[0]
	if s.hasShortcut {
		doc = ""
	}
	chk, val := runLib(full, s.names(), doc)
	input := s.inputText(full)
	o := outcome{key: input, nontrivial: true, stats: stats}
	model := fmt.Sprintf("Check() = nil: the example %s at offset %d satisfies its rule (%s, oracle of the harness) [%s, %s]", probe.lit, probe.off, fc.spec.desc, fc.place, fc.indir)
	switch {
	case chk.timeout:
		o.diffs = append(o.diffs, vh.Diff{Component: "C04-valid-example-refused", Input: input, Impl: "TIMEOUT", Model: model})
		o.fatal = true
	case !chk.ok:
		o.diffs = append(o.diffs, vh.Diff{Component: "C04-valid-example-refused", Input: input, Impl: chk.String(), Model: model})
	case doc != "" && !val.ok:
		o.diffs = append(o.diffs, vh.Diff{Component: "C04-example-valid", Input: input + "\nDOCUMENT (example without annotations):\n" + doc,
			Impl: "Check() = nil, Validate(example) = " + val.String(), Model: "Check() = nil implies Validate(example) = nil"})
	default:
		o.stats = append(o.stats, "f_accepted_ok")
		if doc != "" {
			o.stats = append(o.stats, "f_accepted_example_validates")
		}
	}
	return []outcome{o}
}
