package c04

// Exported view of this package's generator for the model tie `c04-model`
// (package x/c04model): the same schema trees, rule kinds and corruptions as
// `c04-check-example`, with SEVERAL corruptions applied on top of each other.

import (
	"fmt"
	"sort"
	"strings"
)

// ModelCase is one schema (root text + added types) for the model tie.
type ModelCase struct {
	Root  string   // text of the root schema
	Names []string // names of the added types, in AddType order
	Texts []string // their texts
	Label string   // "good" or the corruption labels joined by "+"
	Ncorr int      // how many corruptions were applied
	Stats []string // input-distribution counters
	Input string   // replayable description
	Known string   // known-finding class of one of the corruptions ("" = none)
	// Want: byte offsets (in their own files) of the values the LAST applied corruption makes violate
	Want []int
	// WantAt: the same values as "file:offset" (file 0 = root, i+1 = Texts[i]), sorted
	WantAt []string
}

func wantAt(s *schema, violators []int) []string {
	var out []string
	for _, id := range violators {
		if n := s.find(id); n != nil {
			out = append(out, fmt.Sprintf("%d:%d", n.file, n.off))
		}
	}
	sort.Strings(out)
	return out
}

func mkCase(s *schema, label string, n int, known string, want []int) ModelCase {
	full, _ := s.render()
	mc := ModelCase{Root: full[0], Names: s.names(), Texts: full[1:], Label: label, Ncorr: n, Known: known, Want: want}
	mc.Input = s.inputText(full)
	annotated, depth := countRules(s)
	mc.Stats = append(mc.Stats, fmt.Sprintf("depth_%d", depth), fmt.Sprintf("types_%d", imin(len(s.types), 4)),
		fmt.Sprintf("annotated_nodes_%d", imin(annotated, 8)))
	if s.hasShortcut {
		mc.Stats = append(mc.Stats, "with_value_shortcuts")
	}
	s.walk(func(nd *node) {
		if len(nd.rules) > 0 {
			mc.Stats = append(mc.Stats, "node_mode_"+nd.mode+"_"+nd.kind.name())
		}
		for _, ru := range nd.rules {
			mc.Stats = append(mc.Stats, "rule_"+ru.name)
		}
	})
	return mc
}

// ModelCases: schema number i of stream 1 (plain) / 2 (with `@t` value shortcuts) / 3 (the K-C04-or-minitems
// family): the good schema, then `chains` chains of up to `depth` corruptions applied ON TOP OF EACH OTHER (every
// prefix of a chain is a case: 1, 2, … simultaneous corruptions; later corruptions are chosen among the candidates
// of the already corrupted schema, so they may sit before or after the earlier ones in the text, in the root
// or in a type). `accept` decides whether a chain goes on from a corrupted schema (the tie continues only from
// schemas that still reach the checker: a schema the compiler already rejects hides every later corruption);
// a rejected candidate is still returned as a case and another candidate is tried.
func ModelCases(stream, i, chains, depth int, accept func(ModelCase) bool) []ModelCase {
	if stream == 3 {
		r := caseRand(3, i)
		s, id := knownOrMinItems(r, i)
		want := expectPositions(s, []int{id})
		mc := mkCase(s, "known-or-minitems", 1, "K-C04-or-minitems", want)
		mc.WantAt = wantAt(s, []int{id})
		return []ModelCase{mc}
	}
	r := caseRand(stream, i)
	s := genSchema(r, stream == 2)
	out := []ModelCase{mkCase(s, "good", 0, "", nil)}
	for c := 0; c < chains; c++ {
		cur := s
		var labels []string
		known := ""
		for d := 0; d < depth; d++ {
			cands := candidates(r, cur)
			var next *schema
			for tries := 0; tries < 8 && next == nil && len(cands) > 0; tries++ {
				total := 0.0
				for _, x := range cands {
					total += x.weight
				}
				x := r.Float64() * total
				k := 0
				for k < len(cands)-1 && x >= cands[k].weight {
					x -= cands[k].weight
					k++
				}
				cd := cands[k]
				cands = append(cands[:k], cands[k+1:]...)
				cs, vio, ok := cd.build()
				if !ok {
					continue
				}
				desc := cd.desc
				if desc == "" {
					desc = cd.label
				}
				ls := append(append([]string{}, labels...), desc)
				kn := known
				if cd.class != "" {
					kn = cd.class
				}
				mc := mkCase(cs, strings.Join(ls, "+"), len(ls), kn, expectPositions(cs, vio))
				mc.WantAt = wantAt(cs, vio)
				for _, l := range ls {
					mc.Stats = append(mc.Stats, "corruption_"+l)
				}
				if strings.HasPrefix(cd.where, "type:") {
					mc.Stats = append(mc.Stats, "last_corruption_inside_added_type")
				}
				out = append(out, mc)
				if accept == nil || accept(mc) {
					next, labels, known = cs, ls, kn
				}
			}
			if next == nil {
				break
			}
			cur = next
		}
	}
	return out
}
