// Package semkeys: harness command `sem-keys`.
//
// Semantic-layer differential: the IR of sem-addprops (scalars, any, arrays, objects with
// additionalProperties, references to four named types, nullable) plus key shortcuts `@k: value` in objects.
// JSight text -> real Check / Validate; the same IR (shortcut entries tagged K, in declaration order) as
// S-expressions -> Lean VK.validateT: an unknown document key takes the first unused shortcut, in declaration
// order, whose key type accepts it; no backtracking; then additionalProperties (driver word `semk`).
// Compared verdict: real Validate(document) == nil  ⇔  model reply ACC.
//
// Key types. VK.validateT is parametric in the predicate keyOK (key type, key); the driver instantiates it with
// four fixed predicates: k0 = length >= 2, k1 = length <= 1, k2 = the key "zz", k3 = length >= 3. One table in
// three uses exactly these as the real key types (@k0 = "ab" {minLength: 2}, @k1 = "a" {maxLength: 1}, @k2 = "zz"
// without rules, @k3 = "abc" {minLength: 3}). The other tables draw 1-3 STRING TYPES WITH ARBITRARY RULE SETS out of
// everything a string type can carry (no rule = equality with the example, enum with or without `type: "enum"`, any
// non-empty subset of regex / minLength / maxLength, a format type `type: "email" | "uri" | "uuid" | "date" |
// "datetime"`, optionally `type: "string"`, const / nullable true or false next to any of them, rules in random
// order) and, per type, probe keys that satisfy every rule and probe keys that violate EXACTLY ONE rule while
// satisfying the others (plus keys violating several; for a format type values around the format's accepted set,
// formats.go). Whether a string type accepts a key is computed in Go (regexp, byte length, enum membership,
// equality with the example for const, net/mail / net/url / time / the uuid forms for the formats) and CHECKED
// AGAINST THE LEAN RULE MODEL for every (type, key) pair in use (driver word `semcf`, RulesF.litOKFull, regex / mail
// / url / RFC 3339 as oracle bits: the protocol of sem-rules-full) AND AGAINST THE REAL LIBRARY validating the key
// as a value of the type alone; the same pair is put to the real library as a key under the one-entry root
// `{ @K: 1 }`: admitted there exactly when accepted as a value (the property's own wording, no model involved).
// The table is then expressed in the fixed vocabulary of `semk` by renaming: every
// real type takes one of the slots k0..k3 and every real key k is sent as a model key whose verdicts under the
// four fixed predicates equal the verdicts of k under the real types in the same slots (keys are only compared
// for equality otherwise, so an injective renaming preserves the model's meaning; named keys are renamed the
// same way). A key whose verdict vector no model key has (e.g. accepted by the types in k1 and k3 at once) is
// left out of that table's key pool; the slot assignment is chosen among those that keep most of the pool.
package semkeys

import (
	stderrors "errors"
	"fmt"
	"math/rand"
	"runtime"
	"strings"
	"sync"

	jlib "github.com/jsightapi/jsight-schema-go-library"
	jdoc "github.com/jsightapi/jsight-schema-go-library/formats/json"
	"github.com/jsightapi/jsight-schema-go-library/notations/jschema"

	"verifharness/vh"
)

const (
	command = "sem-keys"
	prefix  = "semk" // driver command word (Driver/SemK.lean)
	salt    = 3106
)

type Node struct {
	Kind     string // lit any arr obj ref
	Lit      string // i f s b n
	Nullable bool
	Items    []*Node
	Props    []*Prop
	Names    []string
	Add      string // additionalProperties: "", any, object, array, string, integer, float, boolean, null, @tN
}
type Prop struct {
	Short    bool // key shortcut: Key is the name of a key type (k0..k3)
	Key      string
	Required bool
	Val      *Node
}
type Doc struct {
	Kind  string // l a o
	Lit   string
	Tok   string // token of a string scalar, chosen when the document is printed
	Look  bool   // string scalar that must be drawn from the look-alike pool
	Items []*Doc
	Keys  []string
}

var typeNames = []string{"t0", "t1", "t2", "t3"}

// gen carries the PRNG of one type table (all random choices of the table and its documents).
type gen struct {
	r    *rand.Rand
	kc   *keyCtx
	near bool   // the document sampled last gives a shortcut a key that violates exactly one rule of its key type
	typd bool   // … gives a shortcut whose key type carries an explicit `type` rule a key that type accepts
	fmtd bool   // … and that rule names a format
	mut  string // kind of the last document mutation
	look bool   // the document printed last holds a look-alike string
}

func (g *gen) genNode(depth int, allowRef bool) *Node {
	r := g.r
	k := r.Intn(20)
	if depth <= 0 && k >= 8 && k <= 14 {
		k = 0
	}
	switch {
	case k <= 7:
		return &Node{Kind: "lit", Lit: []string{"i", "f", "s", "b", "n"}[r.Intn(5)], Nullable: r.Intn(4) == 0}
	case k <= 10:
		n := &Node{Kind: "arr"}
		for i := r.Intn(5); i > 0; i-- {
			n.Items = append(n.Items, g.genNode(depth-1, allowRef))
		}
		return n
	case k <= 14:
		n := &Node{Kind: "obj"}
		if r.Intn(2) == 0 {
			adds := []string{"any", "object", "array", "string", "integer", "float", "boolean", "null"}
			if allowRef {
				adds = append(adds, "@t0", "@t1", "@t2", "@t3")
			}
			n.Add = adds[r.Intn(len(adds))]
		}
		cnt := r.Intn(4)
		for i := 0; i < cnt && i < len(g.kc.named); i++ {
			n.Props = append(n.Props, &Prop{Key: g.kc.named[i], Required: r.Intn(3) != 0, Val: g.genNode(depth-1, allowRef)})
		}
		if allowRef && r.Intn(3) != 0 {
			slots := g.kc.slots()
			perm := r.Perm(len(slots))
			for i := r.Intn(3); i > 0; i-- {
				if i >= len(perm) {
					continue
				}
				p := &Prop{Short: true, Key: slots[perm[i]], Required: r.Intn(3) != 0, Val: g.genNode(depth-1, allowRef)}
				pos := r.Intn(len(n.Props) + 1)
				n.Props = append(n.Props[:pos], append([]*Prop{p}, n.Props[pos:]...)...)
			}
		}
		return n
	case k <= 18 && allowRef:
		n := &Node{Kind: "ref", Nullable: r.Intn(4) == 0}
		cnt := 1 + r.Intn(3)
		for i := 0; i < cnt; i++ {
			nm := typeNames[r.Intn(len(typeNames))]
			dup := false
			for _, x := range n.Names {
				dup = dup || x == nm
			}
			if !dup {
				n.Names = append(n.Names, nm)
			}
		}
		return n
	default:
		return &Node{Kind: "any"}
	}
}

// String tokens whose content looks like another JSON kind (the model says: a quoted token is a string, full stop),
// plain and with escapes. Document string scalars are drawn from this pool every second time; a case whose document
// holds one of them is validated 8 times by the real library and all repeats must agree (a type guess that depends
// on map iteration order differs from call to call).
var lookAlike = []string{`"a.b"`, `"1.5"`, `"1"`, `"-0"`, `"1e5"`, `"1.5e3"`, `"true"`, `"false"`, `"null"`, `"{"`, `"["`, `"{}"`, `"[]"`,
	`""`, `" "`, `"0.0"`, `"."`, `"e"`, `"E"`, `"v1.2"`, `"-1.5E+2"`, `"[1.5]"`, `"{\"a\": 1.5}"`,
	`"a\u002eb"`, `"1\u002e5"`, `"\u0031.5"`, `"tru\u0065"`, `"nul\u006c"`, `"\"1.5\""`, `"1.5\n"`, `"\u007b\u007d"`, `"\t1.0"`}

var litText = map[string]string{"i": "1", "f": "1.5", "s": `"s"`, "b": "true", "n": "null"}

func rules(n *Node, optional bool) string {
	var rs []string
	if n.Kind == "any" {
		rs = append(rs, `type: "any"`)
	}
	if optional {
		rs = append(rs, "optional: true")
	}
	if n.Nullable {
		rs = append(rs, "nullable: true")
	}
	if n.Kind == "obj" && n.Add != "" {
		rs = append(rs, `additionalProperties: "`+n.Add+`"`)
	}
	if len(rs) == 0 {
		return ""
	}
	return " // {" + strings.Join(rs, ", ") + "}"
}

// printNode returns the lines of the node; the first line gets `prefix`, a single-line node gets the comma
// before its annotation.
func printNode(n *Node, indent int, prefix, comma string, optional bool) []string {
	pad := strings.Repeat("  ", indent)
	switch n.Kind {
	case "lit":
		return []string{pad + prefix + litText[n.Lit] + comma + rules(n, optional)}
	case "any":
		return []string{pad + prefix + "1" + comma + rules(n, optional)}
	case "ref":
		var nm []string
		for _, x := range n.Names {
			nm = append(nm, "@"+x)
		}
		return []string{pad + prefix + strings.Join(nm, " | ") + comma + rules(n, optional)}
	case "arr":
		if len(n.Items) == 0 {
			return []string{pad + prefix + "[]" + comma + rules(n, optional)}
		}
		out := []string{pad + prefix + "[" + rules(n, optional)}
		for i, it := range n.Items {
			c := ","
			if i == len(n.Items)-1 {
				c = ""
			}
			out = append(out, printNode(it, indent+1, "", c, false)...)
		}
		return append(out, pad+"]"+comma)
	default:
		if len(n.Props) == 0 {
			return []string{pad + prefix + "{}" + comma + rules(n, optional)}
		}
		out := []string{pad + prefix + "{" + rules(n, optional)}
		for i, p := range n.Props {
			c := ","
			if i == len(n.Props)-1 {
				c = ""
			}
			pre := `"` + p.Key + `": `
			if p.Short {
				pre = "@" + p.Key + ": "
			}
			out = append(out, printNode(p.Val, indent+1, pre, c, !p.Required)...)
		}
		return append(out, pad+"}"+comma)
	}
}

func b01(v bool) string {
	if v {
		return "1"
	}
	return "0"
}

func sx(n *Node, phi map[string]string) string {
	switch n.Kind {
	case "lit":
		return "(lit " + n.Lit + " " + b01(n.Nullable) + ")"
	case "any":
		return "(any)"
	case "ref":
		return "(ref " + b01(n.Nullable) + " " + strings.Join(n.Names, " ") + ")"
	case "arr":
		s := "(arr"
		for _, it := range n.Items {
			s += " " + sx(it, phi)
		}
		return s + ")"
	default:
		s := "(obj " + addSx(n.Add)
		for _, p := range n.Props {
			tag := "P"
			if p.Short {
				tag = "K"
			}
			key := p.Key
			if !p.Short {
				key = phi[key]
			}
			s += " (" + tag + " " + key + " " + b01(p.Required) + " " + sx(p.Val, phi) + ")"
		}
		return s + ")"
	}
}

func addSx(a string) string {
	switch a {
	case "":
		return "(add none)"
	case "any":
		return "(add any)"
	case "object":
		return "(add obj)"
	case "array":
		return "(add arr)"
	case "string":
		return "(add lit s)"
	case "integer":
		return "(add lit i)"
	case "float":
		return "(add lit f)"
	case "boolean":
		return "(add lit b)"
	case "null":
		return "(add lit n)"
	}
	return "(add type " + a[1:] + ")"
}

func (g *gen) genDoc(depth int) *Doc {
	r := g.r
	k := r.Intn(8)
	if depth <= 0 && k >= 5 {
		k = 0
	}
	switch {
	case k <= 4:
		return &Doc{Kind: "l", Lit: []string{"i", "f", "s", "b", "n"}[r.Intn(5)]}
	case k == 5 || k == 6:
		d := &Doc{Kind: "a"}
		for i := r.Intn(4); i > 0; i-- {
			d.Items = append(d.Items, g.genDoc(depth-1))
		}
		return d
	default:
		d := &Doc{Kind: "o"}
		for i := r.Intn(4); i > 0; i-- {
			d.Keys = append(d.Keys, g.kc.pool[r.Intn(len(g.kc.pool))])
			d.Items = append(d.Items, g.genDoc(depth-1))
		}
		return d
	}
}

// sample draws a document that is likely to be accepted.
func (g *gen) sample(n *Node, types map[string]*Node, fuel int) *Doc {
	r := g.r
	if fuel <= 0 {
		return &Doc{Kind: "l", Lit: "n"}
	}
	if n.Nullable && r.Intn(4) == 0 {
		return &Doc{Kind: "l", Lit: "n"}
	}
	switch n.Kind {
	case "lit":
		if n.Lit == "f" && r.Intn(2) == 0 {
			return &Doc{Kind: "l", Lit: "i"}
		}
		return &Doc{Kind: "l", Lit: n.Lit}
	case "any":
		return g.genDoc(1)
	case "ref":
		return g.sample(types[n.Names[r.Intn(len(n.Names))]], types, fuel-1)
	case "arr":
		d := &Doc{Kind: "a"}
		if len(n.Items) == 0 {
			return d
		}
		cnt := r.Intn(len(n.Items) + 2)
		for i := 0; i < cnt; i++ {
			j := i
			if j >= len(n.Items) {
				j = len(n.Items) - 1
			}
			d.Items = append(d.Items, g.sample(n.Items[j], types, fuel-1))
		}
		return d
	default:
		d := &Doc{Kind: "o"}
		perm := r.Perm(len(n.Props))
		for _, i := range perm {
			p := n.Props[i]
			if p.Required || r.Intn(2) == 0 {
				k := p.Key
				if p.Short {
					// a key the key type accepts; 2 times in 5 a key that violates exactly one of its rules
					acc, near := g.kc.accepted[p.Key], g.kc.nearMiss[p.Key]
					switch {
					case len(near) > 0 && (len(acc) == 0 || r.Intn(5) < 2):
						k = near[r.Intn(len(near))]
						g.near = true
					case len(acc) > 0:
						k = acc[r.Intn(len(acc))]
						if t := g.kc.bySlot[p.Key]; t.typ != "" {
							g.typd = true
							g.fmtd = g.fmtd || t.format() != ""
						}
					default:
						continue
					}
				}
				d.Keys = append(d.Keys, k)
				d.Items = append(d.Items, g.sample(p.Val, types, fuel-1))
			}
		}
		if n.Add != "" && r.Intn(2) == 0 {
			var v *Doc
			switch n.Add {
			case "any":
				v = g.genDoc(1)
			case "object":
				v = &Doc{Kind: "o"}
			case "array":
				v = &Doc{Kind: "a", Items: []*Doc{g.genDoc(0)}}
			case "string":
				v = &Doc{Kind: "l", Lit: "s"}
			case "integer":
				v = &Doc{Kind: "l", Lit: "i"}
			case "float":
				v = &Doc{Kind: "l", Lit: []string{"f", "i"}[r.Intn(2)]}
			case "boolean":
				v = &Doc{Kind: "l", Lit: "b"}
			case "null":
				v = &Doc{Kind: "l", Lit: "n"}
			default:
				v = g.sample(types[n.Add[1:]], types, fuel-1)
			}
			if r.Intn(4) == 0 { // whatever the mode: a string value that looks like another kind
				v = &Doc{Kind: "l", Lit: "s", Look: true}
			}
			d.Keys = append(d.Keys, g.kc.additionalKey(r))
			d.Items = append(d.Items, v)
		}
		return d
	}
}

func (g *gen) mutateDoc(d *Doc) *Doc {
	r := g.r
	switch r.Intn(6) {
	case 0:
		g.mut = "regenerate"
		return g.genDoc(1)
	case 1:
		if d.Kind == "o" && len(d.Keys) > 0 { // drop a member
			g.mut = "drop_member"
			i := r.Intn(len(d.Keys))
			nd := &Doc{Kind: "o"}
			for j := range d.Keys {
				if j != i {
					nd.Keys = append(nd.Keys, d.Keys[j])
					nd.Items = append(nd.Items, d.Items[j])
				}
			}
			return nd
		}
	case 2:
		if d.Kind == "o" { // add / repeat a member
			g.mut = "add_member"
			nd := &Doc{Kind: "o", Keys: append([]string{}, d.Keys...), Items: append([]*Doc{}, d.Items...)}
			nd.Keys = append(nd.Keys, g.kc.pool[r.Intn(len(g.kc.pool))])
			nd.Items = append(nd.Items, g.genDoc(1))
			return nd
		}
	case 3:
		if d.Kind == "a" {
			g.mut = "append_item"
			nd := &Doc{Kind: "a", Items: append([]*Doc{}, d.Items...)}
			nd.Items = append(nd.Items, g.genDoc(1))
			return nd
		}
	}
	if len(d.Items) > 0 {
		i := r.Intn(len(d.Items))
		nd := &Doc{Kind: d.Kind, Keys: d.Keys, Items: append([]*Doc{}, d.Items...)}
		nd.Items[i] = g.mutateDoc(d.Items[i])
		return nd
	}
	g.mut = "none"
	return d
}

// docText prints the document; a string scalar gets its token on first printing. The model request says `(l s)`
// for every string whatever its content.
func (g *gen) docText(d *Doc) string {
	switch d.Kind {
	case "l":
		if d.Lit == "s" {
			if d.Tok == "" {
				d.Tok = litText["s"]
				if d.Look || g.r.Intn(2) == 0 {
					d.Tok = lookAlike[g.r.Intn(len(lookAlike))]
				}
			}
			if d.Tok != litText["s"] {
				g.look = true
			}
			return d.Tok
		}
		return litText[d.Lit]
	case "a":
		var xs []string
		for _, it := range d.Items {
			xs = append(xs, g.docText(it))
		}
		return "[" + strings.Join(xs, ", ") + "]"
	default:
		var xs []string
		for i, k := range d.Keys {
			xs = append(xs, `"`+k+`": `+g.docText(d.Items[i]))
		}
		return "{" + strings.Join(xs, ",") + "}"
	}
}

func docSx(d *Doc, phi map[string]string) string {
	switch d.Kind {
	case "l":
		return "(l " + d.Lit + ")"
	case "a":
		s := "(a"
		for _, it := range d.Items {
			s += " " + docSx(it, phi)
		}
		return s + ")"
	default:
		s := "(o"
		for i, k := range d.Keys {
			s += " (m " + phi[k] + " " + docSx(d.Items[i], phi) + ")"
		}
		return s + ")"
	}
}

func errCode(err error) string {
	var pe jlib.ParsingError
	if stderrors.As(err, &pe) {
		return fmt.Sprint(pe.ErrCode())
	}
	return "other"
}

// validate: a fresh schema object per call, as a user would write it; every library call under recover.
// Result: ACC | REJ | ADDERR <code> … | CHECKERR <code> … | PANIC …
func validate(kc *keyCtx, rootText string, typeTexts map[string]string, order []string, doc string) string {
	return vh.Recover(func() string {
		s := jschema.New("root", rootText)
		for _, nm := range order {
			if err := s.AddType("@"+nm, jschema.New("@"+nm, typeTexts[nm])); err != nil {
				return "ADDERR " + errCode(err) + " " + err.Error()
			}
		}
		for _, t := range kc.types {
			if err := s.AddType("@"+t.slot, jschema.New("@"+t.slot, t.text)); err != nil {
				return "ADDERR " + errCode(err) + " " + err.Error()
			}
		}
		if err := s.Check(); err != nil {
			return "CHECKERR " + errCode(err) + " " + err.Error()
		}
		if err := s.Validate(jdoc.New("doc", doc)); err != nil {
			return "REJ"
		}
		return "ACC"
	})
}

// keyVsValue: the real library on one (string type, key) pair: `{"<key>": 1}` against the root `{ @K: 1 }` (admitted under
// the shortcut or not: the root has no other way to take a key), and `"<key>"` against the type alone.
func keyVsValue(t *keyType, key string) (asKey, asValue string) {
	one := func(rootText string, withType bool, doc string) string {
		return vh.Recover(func() string {
			s := jschema.New("root", rootText)
			if withType {
				if err := s.AddType("@K", jschema.New("@K", t.text)); err != nil {
					return "ADDERR " + errCode(err) + " " + err.Error()
				}
			}
			if err := s.Check(); err != nil {
				return "CHECKERR " + errCode(err) + " " + err.Error()
			}
			if err := s.Validate(jdoc.New("doc", doc)); err != nil {
				return "REJ"
			}
			return "ACC"
		})
	}
	return one("{\n  @K: 1\n}", true, "{"+quote(key)+": 1}"), one(t.text, false, quote(key))
}

// features of the schema reachable from the root (through references).
type feat struct {
	refs, multiRef, nullable, nullableRef, recursive bool
	emptyRef                                         bool // a reference position without any alternative (see emptyAlts)
	nodes                                            int
	adds                                             map[string]bool // additionalProperties modes in use
	// an object with a key shortcut; with an optional one; with two; with shortcuts and additionalProperties
	short, shortOptional, shortTwo, shortAndAdd bool
}

func addMode(a string) string {
	if strings.HasPrefix(a, "@") {
		return "usertype"
	}
	return a
}

func (f *feat) visitType(nm string, types map[string]*Node, open map[string]bool, done map[string]bool) {
	if open[nm] {
		f.recursive = true
	}
	if done[nm] {
		return
	}
	done[nm] = true
	open[nm] = true
	f.walk(types[nm], types, open, done)
	open[nm] = false
}

func (f *feat) walk(n *Node, types map[string]*Node, open map[string]bool, done map[string]bool) {
	f.nodes++
	if n.Nullable {
		f.nullable = true
	}
	switch n.Kind {
	case "ref":
		f.refs = true
		if !n.Nullable && emptyAlts(types, n.Names) {
			f.emptyRef = true
		}
		if len(n.Names) > 1 {
			f.multiRef = true
		}
		if n.Nullable {
			f.nullableRef = true
		}
		for _, nm := range n.Names {
			f.visitType(nm, types, open, done)
		}
	case "arr":
		for _, it := range n.Items {
			f.walk(it, types, open, done)
		}
	case "obj":
		if n.Add != "" {
			f.adds[addMode(n.Add)] = true
			if strings.HasPrefix(n.Add, "@") {
				if emptyAlts(types, []string{n.Add[1:]}) {
					f.emptyRef = true
				}
				f.visitType(n.Add[1:], types, open, done)
			}
		}
		ns := 0
		for _, p := range n.Props {
			if p.Short {
				ns++
				f.short = true
				if !p.Required {
					f.shortOptional = true
				}
				if n.Add != "" {
					f.shortAndAdd = true
				}
			}
			f.walk(p.Val, types, open, done)
		}
		if ns > 1 {
			f.shortTwo = true
		}
	}
}

// emptyAlts reports whether the reference `@n1 | @n2 | …` expands to no alternative at all: following root-level
// references only, every name ends in a cycle of pure references (@a = @a; @a = @b, @b = @a). Nothing inhabits such a
// position, yet Check accepts the table when the position is an array item, additionalProperties or a property
// inside a named type (known finding K-C09-cycle). The validator then builds an empty validator list for the
// position and feeds the value's events to the parent validator, so a few documents are accepted that no reading of
// the schema admits; the model (least fixpoint: no alternative) rejects them. Differences on tables with such a
// position reachable from the root carry the class K-C09-cycle.
func emptyAlts(types map[string]*Node, names []string) bool {
	seen := map[string]bool{}
	todo := append([]string{}, names...)
	for len(todo) > 0 {
		nm := todo[len(todo)-1]
		todo = todo[:len(todo)-1]
		if seen[nm] {
			continue
		}
		seen[nm] = true
		switch t := types[nm]; t.Kind {
		case "ref":
			if t.Nullable {
				return false // the literal null is an alternative
			}
			todo = append(todo, t.Names...)
		default:
			return false
		}
	}
	return true
}

type oneCase struct {
	line, impl, input string
	key               string // key types and renaming (part of the identity of the case)
	nontrivial        bool
	class             string // known-finding class the table lies in, if the generator can tell
	stats             []string
}

// keyProbe: one (string type, key) pair of a table judged by the real library alone, the way the property words it: the
// key under `{@K: 1}` against the key as a VALUE of the type @K.
type keyProbe struct {
	id, input      string
	goOK           bool   // the verdict the table's renaming was built from
	ruleFree       bool   // the type without (surviving) rules: stands for its example
	asKey, asValue string // ACC | REJ | …
}

type tableResult struct {
	stats    []string
	cases    []oneCase
	probes   []keyProbe
	oracle   []string // semcf requests: does the key type accept the key …
	oracleGo []bool   // … and the verdict the renaming was built from
	oracleIn []string // the key types as text
}

func showInput(kc *keyCtx, rootText string, typeTexts map[string]string, doc string) string {
	var sb strings.Builder
	sb.WriteString("SCHEMA:\n" + rootText + "\nTYPES (AddType name = text):")
	for _, nm := range typeNames {
		sb.WriteString("\n@" + nm + " = " + typeTexts[nm])
	}
	for _, t := range kc.types {
		sb.WriteString("\n@" + t.slot + " = " + t.text)
	}
	sb.WriteString("\nDOCUMENT: " + doc)
	return sb.String()
}

// oneTable generates one type table + root, checks it, and evaluates 12 documents.
func oneTable(seed int64) tableResult {
	g := &gen{r: rand.New(rand.NewSource(seed))}
	var res tableResult
	g.kc = newKeyCtx(g.r)
	types := map[string]*Node{}
	typeTexts := map[string]string{}
	env := "(env"
	for _, nm := range typeNames {
		types[nm] = g.genNode(2, true)
		typeTexts[nm] = strings.Join(printNode(types[nm], 0, "", "", false), "\n")
		env += " (t " + nm + " " + sx(types[nm], g.kc.phi) + ")"
	}
	env += ")"
	root := g.genNode(3, true)
	rootText := strings.Join(printNode(root, 0, "", "", false), "\n")
	if v := validate(g.kc, rootText, typeTexts, typeNames, "1"); strings.HasPrefix(v, "CHECKERR") || strings.HasPrefix(v, "ADDERR") || strings.HasPrefix(v, "PANIC") {
		w := strings.SplitN(v, " ", 3)
		res.stats = append(res.stats, "check_failed")
		if w[0] == "PANIC" {
			res.stats = append(res.stats, "check_failed_PANIC")
		} else {
			res.stats = append(res.stats, "check_failed_"+w[0]+"_"+w[1])
		}
		return res
	}
	f := feat{adds: map[string]bool{}}
	f.walk(root, types, map[string]bool{}, map[string]bool{})
	class := ""
	if f.emptyRef {
		class = "K-C09-cycle"
		res.stats = append(res.stats, "table_uninhabited_alias_cycle_reachable")
	}
	res.stats = append(res.stats, "tables_checked", "root_"+root.Kind)
	res.stats = append(res.stats, g.kc.stats...)
	res.oracle, res.oracleGo = g.kc.oracle, g.kc.oracleGo
	for _, p := range g.kc.pairs {
		pr := keyProbe{id: p.t.text + "\x00" + p.key, goOK: p.ok, ruleFree: p.t.ruleFree(),
			input: "SCHEMA:\n{\n  @K: 1\n}\nTYPES (AddType name = text):\n@K = " + p.t.text + "\nDOCUMENT: {" + quote(p.key) + ": 1}\nKEY AS A VALUE: schema " + p.t.text + " , document " + quote(p.key)}
		pr.asKey, pr.asValue = keyVsValue(p.t, p.key)
		res.probes = append(res.probes, pr)
	}
	for _, t := range g.kc.types {
		res.oracleIn = append(res.oracleIn, "@"+t.slot+" = "+t.text)
	}
	ktText := g.kc.mapText()
	for _, t := range g.kc.types {
		ktText += " @" + t.slot + "=" + t.text
	}
	for _, fl := range []struct {
		on bool
		nm string
	}{{f.refs, "table_uses_ref"}, {f.multiRef, "table_uses_ref_alternatives"}, {f.nullable, "table_uses_nullable"},
		{f.nullableRef, "table_uses_nullable_ref"}, {f.recursive, "table_recursive_types"},
		{f.short, "table_uses_key_shortcut"}, {f.shortOptional, "table_uses_optional_key_shortcut"},
		{f.shortTwo, "table_uses_two_key_shortcuts_in_one_object"}, {f.shortAndAdd, "table_uses_key_shortcut_with_additionalProperties"}} {
		if fl.on {
			res.stats = append(res.stats, fl.nm)
		}
	}
	for m := range f.adds {
		res.stats = append(res.stats, "table_uses_additionalProperties_"+m)
	}
	if len(f.adds) > 0 {
		res.stats = append(res.stats, "table_uses_additionalProperties")
	}
	rootSx := sx(root, g.kc.phi)
	for j := 0; j < 12; j++ {
		var d *Doc
		var st []string
		switch {
		case j < 5:
			g.near, g.typd, g.fmtd = false, false, false
			d = g.sample(root, types, 6)
			st = append(st, "doc_sampled")
			if g.near {
				st = append(st, "doc_sampled_with_key_violating_exactly_one_rule_under_shortcut")
			}
			if g.typd {
				st = append(st, "doc_sampled_with_accepted_key_under_shortcut_of_explicitly_typed_string")
			}
			if g.fmtd {
				st = append(st, "doc_sampled_with_accepted_key_under_shortcut_of_format_type")
			}
		case j < 10:
			g.mut = "none"
			d = g.mutateDoc(g.sample(root, types, 6))
			st = append(st, "doc_mutated", "mutation_"+g.mut)
		default:
			d = g.genDoc(2)
			st = append(st, "doc_random")
		}
		g.look = false
		dt := g.docText(d)
		v := validate(g.kc, rootText, typeTexts, typeNames, dt)
		if g.look {
			st = append(st, "doc_with_lookalike_string")
			for k := 1; k < 8; k++ {
				if w := validate(g.kc, rootText, typeTexts, typeNames, dt); w != v {
					v = fmt.Sprintf("UNSTABLE: call 1 = %s, call %d = %s", v, k+1, w)
					break
				}
			}
		}
		switch {
		case v == "ACC":
			st = append(st, "accepted")
		case v == "REJ":
			st = append(st, "rejected")
		default:
			st = append(st, "impl_other")
		}
		st = append(st, "doc_root_"+d.Kind)
		res.cases = append(res.cases, oneCase{
			line:  prefix + " val " + env + " " + rootSx + " " + docSx(d, g.kc.phi),
			key:   ktText,
			impl:  v,
			input: showInput(g.kc, rootText, typeTexts, dt),
			// an object with a key shortcut is reachable from the root
			nontrivial: f.short,
			stats:      st,
			class:      class,
		})
	}
	return res
}

func Run(args []string) {
	rep := vh.NewReport(command, "random type tables as in sem-addprops (4 named types, root of depth<=3, recursive references, nullable, additionalProperties in every mode) where two objects in three get 0-2 key shortcuts @k0..@k3 (required or optional, inserted at random positions among the named properties). KEY TYPES: one table in three uses the four fixed key types whose accepted sets are the driver's predicates (minLength 2, maxLength 1, no rules = equality with the example, minLength 3: overlapping key sets; 11 document keys of length 1-4); two tables in three draw 1-3 string types with arbitrary rule sets out of everything a string type can carry: no rule, enum (1-4 items; every second time with type enum), any non-empty subset of regex (12 patterns) / minLength / maxLength (two or three rules 3 times in 4), a FORMAT type (type email / uri / uuid / date / datetime, 5 types in 20, the example a valid value from a pool or composed from parts), optionally type string, next to any of them const and nullable true or false (one type in three from the 3 x 3 grid absent / true / false), rules in random order; a type none of whose rules survives compilation (no rule; only type string / const false / nullable false) stands for its example; a format type gets as key probes 3 values the format accepts, 4 it refuses, 6 composed from boundary parts (dates over leap / common / century years x month x day 0..32 and layout variants, datetimes with out-of-range fields, fractions and zones, uuids in the four forms with one anomaly, e-mail local x domain x wrapper, uri scheme x separator x authority x tail: generators of sem-rules-full) and a value of another format, verdict by net/mail / net/url / time / an own reading of the uuid forms (keys are printable ASCII without quote and backslash); per type the key pool gets up to 2 keys satisfying every rule, up to 2 keys per rule violating EXACTLY that rule while satisfying the others (the example one character longer / shorter at either end, one character replaced by a letter of another class, repeated to maxLength+1, cut to minLength-1), a key violating several, plus common keys; names of properties are drawn from the same pool. The verdict (string type, key) is computed in Go and checked against the Lean rule model RulesF.litOKFull (driver semcf, regex as oracle bit) for every pair in use (component sem-keys/key-type-oracle); the table is sent to VK.validateT in the fixed vocabulary of driver semk by renaming: each real type takes one slot k0..k3 and each real key is sent as a model key with the same verdict vector under the four fixed predicates (injective; keys whose vector no model key has are left out of the pool; the slot assignment keeps most of the pool); a diff's note lists the renaming. JSight text -> real AddType/Check/Validate, same IR with shortcuts tagged K in declaration order -> Lean VK.validateT; 12 documents per table: 5 sampled from the schema (a shortcut gets a key its key type accepts, 2 times in 5 a key violating exactly one rule of it; the extra member under additionalProperties gets a key no key type accepts 3 times in 4), 5 sampled then mutated, 2 random; tables refused by Check are skipped and counted by error code; nontrivial = an object with a key shortcut is reachable from the root; document string scalars are drawn every second time from a pool of 32 strings whose content looks like another JSON kind (\"1.5\", \"a.b\", \"true\", \"null\", \"{}\", \"1e5\", \"\", \" \", the same with \\u escapes), also as the value of the extra member under every additionalProperties mode one time in four; a case whose document holds such a string is validated 8 times and every repeat must give the model verdict (UNSTABLE otherwise); besides the tables every distinct (generated string type, pool key) pair is put to the real library alone, as the property words it: {\"<key>\": 1} against the root { @K: 1 } must be accepted exactly when \"<key>\" is accepted by the type @K alone as a value (component sem-keys/key-admitted-iff-value-accepted; for a type standing for its example: exactly the example, component sem-keys/key-of-type-without-rules; both verdicts equal but different from the harness verdict: sem-keys/key-type-oracle-vs-library); a difference on a table where a non-nullable reference position whose names all end in a cycle of pure references (@a = @a: no alternative at all) is reachable from the root carries the class K-C09-cycle")
	r := vh.NewRand(salt)
	nTables := vh.Pick(4000, 100000)
	oracleSeen := map[string]struct{}{}
	probeSeen := map[string]struct{}{}
	const batch = 4000
	for done := 0; done < nTables; done += batch {
		n := batch
		if nTables-done < n {
			n = nTables - done
		}
		seeds := make([]int64, n)
		for i := range seeds {
			seeds[i] = r.Int63()
		}
		results := make([]tableResult, n)
		var wg sync.WaitGroup
		next := make(chan int, n)
		for i := 0; i < n; i++ {
			next <- i
		}
		close(next)
		for w := runtime.NumCPU(); w > 0; w-- {
			wg.Add(1)
			go func() {
				defer wg.Done()
				for i := range next {
					results[i] = oneTable(seeds[i])
				}
			}()
		}
		wg.Wait()
		var reqs, impl, inputs, classes, notes, oReqs, oGo, oIn []string
		for _, res := range results {
			rep.Stat("tables_generated")
			for _, s := range res.stats {
				rep.Stat(s)
			}
			for _, c := range res.cases {
				for _, s := range c.stats {
					rep.Stat(s)
				}
				rep.Case(c.line+c.key, c.nontrivial)
				reqs = append(reqs, c.line)
				impl = append(impl, c.impl)
				inputs = append(inputs, c.input)
				classes = append(classes, c.class)
				notes = append(notes, c.line+c.key)
			}
			// every (string type, key) pair of the table, real library alone: admitted under the shortcut <=> accepted as a value
			for _, p := range res.probes {
				if _, ok := probeSeen[p.id]; ok {
					continue
				}
				probeSeen[p.id] = struct{}{}
				rep.Stat("key_vs_value_pairs")
				want := map[bool]string{true: "ACC", false: "REJ"}[p.goOK]
				if p.ruleFree {
					// the type without rules stands for its example as a key type (as a value type it accepts every string)
					rep.Stat("key_vs_value_pairs_type_without_rules")
					if p.asKey != want {
						rep.AddDiff(vh.Diff{Component: command + "/key-of-type-without-rules", Input: p.input, Impl: "as a key: " + p.asKey,
							Model: "a string type none of whose rules decides (no rule; type string; const false; nullable false) admits the key that is its example, no other: " + want})
					}
					continue
				}
				rep.Stat("key_vs_value_" + p.asKey + "_" + p.asValue)
				if p.asKey != p.asValue {
					rep.AddDiff(vh.Diff{Component: command + "/key-admitted-iff-value-accepted", Input: p.input,
						Impl:  "as a key under @K: " + p.asKey + "; as a value of @K: " + p.asValue,
						Model: "@K: v admits under that entry exactly the keys the string type @K accepts (harness verdict for this pair: " + want + ")"})
				} else if p.asValue != want {
					rep.AddDiff(vh.Diff{Component: command + "/key-type-oracle-vs-library", Level: "correspondence", Input: p.input,
						Impl: "as a key and as a value: " + p.asValue, Model: "harness verdict " + want})
				}
			}
			// the verdicts of the key types the renaming was built from, against the Lean rule model
			for i, l := range res.oracle {
				if _, ok := oracleSeen[l]; !ok {
					oracleSeen[l] = struct{}{}
					rep.Stat("key_type_verdicts_checked_against_rule_model")
					oReqs = append(oReqs, l)
					oGo = append(oGo, map[bool]string{true: "ACC", false: "REJ"}[res.oracleGo[i]])
					oIn = append(oIn, strings.Join(res.oracleIn, "\n"))
				}
			}
		}
		for i, m := range vh.AskModelSharded(reqs, 16) {
			if impl[i] != m {
				rep.AddDiff(vh.Diff{Input: inputs[i], Impl: impl[i], Model: m, Class: classes[i], Note: notes[i]})
			}
		}
		for i, m := range vh.AskModelSharded(oReqs, 16) {
			if oGo[i] != m {
				rep.AddDiff(vh.Diff{Component: command + "/key-type-oracle", Level: "correspondence", Input: "KEY TYPES:\n" + oIn[i] + "\nREQUEST: " + oReqs[i], Impl: "harness verdict " + oGo[i], Model: m})
			}
		}
	}
	rep.Finish()
}
