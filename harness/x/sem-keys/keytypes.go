package semkeys

import (
	"encoding/hex"
	"math/rand"
	"regexp"
	"sort"
	"strconv"
	"strings"
)

// keyType is one string type used as a key type: an example and a rule set.
type keyType struct {
	slot string // k0..k3: the name of the type in the schema (@k0 …) and the model predicate standing for it
	ex   string
	pat  string
	re   *regexp.Regexp
	min  int // -1: absent
	max  int // -1: absent
	enum []string
	typ  string   // explicit `type` rule: "" = none | "string" | "enum" | "email" | "uri" | "uuid" | "date" | "datetime"
	cnst int      // const: 0 absent, 1 true, 2 false
	null int      // nullable: 0 absent, 1 true, 2 false
	text string   // schema text of the type
	wire []string // raw rules of the `semcf` request
	kind string   // none | enum | regex | minLength | regex+maxLength | type_email | enum+type_enum | … (const / nullable counted apart)
}

// format: the format the explicit `type` rule demands ("" = none: no type rule, "string", "enum").
func (t *keyType) format() string {
	switch t.typ {
	case "email", "uri", "uuid", "date", "datetime":
		return t.typ
	}
	return ""
}

// ruleFree: none of the type's rules survives compilation. `type: "string"` (the JSON kind of the example), `type:
// "enum"` (says that there is an enum rule), `const: false` and `nullable: false` say what the type without rules says,
// and the compiler drops them: such a type is the type WITHOUT RULES, which as a key type stands for its example (the
// reading of this command from the start: model predicate k2 = the key "zz"; the unchanged tree follows it for all of
// these spellings). Every other rule set — `nullable: true` included, which adds null to the values and no key —
// admits exactly the keys the type accepts as a value.
func (t *keyType) ruleFree() bool {
	return t.enum == nil && t.re == nil && t.min < 0 && t.max < 0 && t.format() == "" && t.cnst != 1 && t.null != 1
}

// violated lists the rules of the type the key does not satisfy (a type without rules is its example).
func (t *keyType) violated(k string) []string {
	var v []string
	switch {
	case t.enum != nil:
		in := false
		for _, e := range t.enum {
			in = in || e == k
		}
		if !in {
			v = append(v, "enum")
		}
	case t.ruleFree():
		if k != t.ex {
			v = append(v, "example")
		}
	default:
		if t.re != nil && !t.re.MatchString(k) {
			v = append(v, "regex")
		}
		if t.min >= 0 && len(k) < t.min {
			v = append(v, "minLength")
		}
		if t.max >= 0 && len(k) > t.max {
			v = append(v, "maxLength")
		}
		if f := t.format(); f != "" && !fmtOK(f, k) {
			v = append(v, "type_"+f)
		}
	}
	if t.cnst == 1 && k != t.ex {
		v = append(v, "const")
	}
	return v
}

func (t *keyType) accepts(k string) bool { return len(t.violated(k)) == 0 }

// nRules: how many rules decide (type "string" / "enum", nullable and const: false do not).
func (t *keyType) nRules() int {
	n := 0
	if t.format() != "" {
		n++
	}
	if t.cnst == 1 {
		n++
	}
	if t.re != nil {
		n++
	}
	if t.min >= 0 {
		n++
	}
	if t.max >= 0 {
		n++
	}
	if t.enum != nil {
		n++
	}
	return n
}

func hexs(s string) string { return hex.EncodeToString([]byte(s)) }

// keys are ASCII without quote, backslash and control characters: the JSON token is the key in quotes
func quote(s string) string { return `"` + s + `"` }

func (t *keyType) finish(r *rand.Rand) {
	var rs, ws, names []string
	if t.enum != nil {
		var it, wi []string
		for _, e := range t.enum {
			it = append(it, quote(e))
			wi = append(wi, hexs(quote(e)))
		}
		rs = append(rs, "enum: ["+strings.Join(it, ", ")+"]")
		ws = append(ws, "e:"+strings.Join(wi, ","))
		names = append(names, "enum")
	}
	if t.re != nil {
		rs = append(rs, "regex: "+quote(t.pat))
		ws = append(ws, "r:"+hexs(t.pat))
		names = append(names, "regex")
	}
	if t.min >= 0 {
		rs = append(rs, "minLength: "+strconv.Itoa(t.min))
		ws = append(ws, "l:"+strconv.Itoa(t.min))
		names = append(names, "minLength")
	}
	if t.max >= 0 {
		rs = append(rs, "maxLength: "+strconv.Itoa(t.max))
		ws = append(ws, "L:"+strconv.Itoa(t.max))
		names = append(names, "maxLength")
	}
	t.kind = strings.Join(names, "+")
	if t.kind == "" {
		t.kind = "none"
	}
	if t.typ != "" {
		rs = append(rs, `type: "`+t.typ+`"`)
		if f := t.format(); f != "" {
			ws = append(ws, "t:"+f)
		} else {
			ws = append(ws, "t:other")
		}
		if t.kind == "none" {
			t.kind = "type_" + t.typ
		} else {
			t.kind += "+type_" + t.typ
		}
	}
	if t.cnst != 0 {
		rs = append(rs, "const: "+strconv.FormatBool(t.cnst == 1))
		ws = append(ws, "C"+b01(t.cnst == 1))
	}
	if t.null != 0 {
		rs = append(rs, "nullable: "+strconv.FormatBool(t.null == 1))
		ws = append(ws, "N"+b01(t.null == 1))
	}
	if r != nil { // the order of the rules in the annotation is free
		r.Shuffle(len(rs), func(i, j int) { rs[i], rs[j] = rs[j], rs[i]; ws[i], ws[j] = ws[j], ws[i] })
	}
	t.text = quote(t.ex)
	if len(rs) > 0 {
		t.text += " // {" + strings.Join(rs, ", ") + "}"
	}
	t.wire = ws
}

// oracleLine: the `semcf` request "does the string type accept this string token" (regex verdict as oracle bit).
func (t *keyType) oracleLine(k string) string {
	// oracle bits: regexp match, net/mail, net/url, RFC 3339 — evaluated in Go on the key (protocol of sem-rules-full)
	bits := b01(t.re != nil && t.re.MatchString(k)) + b01(mailOK(k)) + b01(uriOK(k)) + b01(datetimeOK(k))
	dec := hexs(k)
	if k == "" {
		dec = "-"
	}
	return "semcf s " + hexs(quote(t.ex)) + " " + hexs(quote(k)) + " " + dec + " " + bits + " " + strings.Join(t.wire, " ")
}

// the four key types whose accepted sets ARE the driver's predicates
func fixedKeyTypes() []*keyType {
	ts := []*keyType{
		{slot: "k0", ex: "ab", min: 2, max: -1},
		{slot: "k1", ex: "a", min: -1, max: 1},
		{slot: "k2", ex: "zz", min: -1, max: -1},
		{slot: "k3", ex: "abc", min: 3, max: -1},
	}
	for _, t := range ts {
		t.finish(nil)
	}
	return ts
}

var fixedPool = []string{"a", "b", "c", "f", "e", "q", "zz", "ab", "xy", "abc", "wxyz"}

var keyWords = []string{"ab", "abc", "a", "key", "k1", "id7", "xyz", "zz", "abcd", "b2b", "x", "ba", "cab", "a1"}

// patterns without quote and backslash (printed verbatim inside a JSON string)
var keyPatterns = []string{"^[a-z]+$", "^[a-z]", "[0-9]$", "^a", "b", "^.{2,3}$", "^[a-z0-9]*$", "^(ab|xy|k)", "^[^0-9]*$", "c$", "^[a-c]+$", "[a-z][0-9]"}

var extraKeys = []string{"", "A", "AB", "a1", "abcd", "abcde", "zzz", "zzzz", "x", "k", "id", "a-b", "Abc", "ab1", "1", "12", "xyz", "B", "a b", "_", "e", "q"}

// genKeyType draws a string type from everything a string type can carry: no rule at all, an enum rule, any non-empty
// subset of regex / minLength / maxLength, a FORMAT type (`type: "email" | "uri" | "uuid" | "date" | "datetime"`, the
// example a valid value of the format), next to them the explicit `type` rule that names what the type is anyway
// (`type: "string"`, `type: "enum"` beside an enum rule) and const / nullable, true or false. Combinations the checker
// refuses (a format type with a length / regex / enum rule) are not string types and are not drawn.
func genKeyType(r *rand.Rand) *keyType {
	t := &keyType{ex: keyWords[r.Intn(len(keyWords))], min: -1, max: -1}
	switch k := r.Intn(20); {
	case k < 2: // no deciding rule
		if r.Intn(3) == 0 {
			t.typ = "string"
		}
	case k < 5: // enum
		t.enum = []string{t.ex}
		for i := r.Intn(4); i > 0; i-- {
			c := keyWords[r.Intn(len(keyWords))]
			if r.Intn(3) == 0 {
				c = extraKeys[r.Intn(len(extraKeys))]
			}
			dup := false
			for _, e := range t.enum {
				dup = dup || e == c
			}
			if !dup {
				t.enum = append(t.enum, c)
			}
		}
		r.Shuffle(len(t.enum), func(i, j int) { t.enum[i], t.enum[j] = t.enum[j], t.enum[i] })
		if r.Intn(2) == 0 {
			t.typ = "enum"
		}
	case k < 10: // a format type
		t.typ = fmtNames[r.Intn(len(fmtNames))]
		t.ex = fmtExample(r, t.typ)
	default:
		// a non-empty subset of {regex, minLength, maxLength}; two or three rules 3 times in 4
		var m int
		if r.Intn(4) == 0 {
			m = []int{1, 2, 4}[r.Intn(3)]
		} else {
			m = []int{3, 5, 6, 7}[r.Intn(4)]
		}
		if m&1 != 0 {
			off := r.Intn(len(keyPatterns))
			for i := range keyPatterns {
				p := keyPatterns[(off+i)%len(keyPatterns)]
				if re := regexp.MustCompile(p); re.MatchString(t.ex) {
					t.pat, t.re = p, re
					break
				}
			}
		}
		L := len(t.ex)
		if m&2 != 0 {
			t.min = L - r.Intn(3)
			if t.min < 0 {
				t.min = 0
			}
		}
		if m&4 != 0 {
			t.max = L + r.Intn(3)
		}
		if r.Intn(5) == 0 {
			t.typ = "string"
		}
	}
	// const / nullable: one type in three from the 3 x 3 grid absent / true / false, else rarely
	if r.Intn(3) == 0 {
		t.null, t.cnst = r.Intn(3), r.Intn(3)
	} else {
		if r.Intn(5) == 0 {
			t.null = 1 + r.Intn(2)
		}
		if r.Intn(6) == 0 {
			t.cnst = 1 + r.Intn(2)
		}
	}
	t.finish(r)
	return t
}

const mutChars = "aA1-_zb"

// candidates: strings around the type's accepted set: the example, the enum items, each of them one character
// longer / shorter (at either end), with one character replaced by a letter of another class, repeated up to one
// above maxLength, cut down to one below minLength.
func (t *keyType) candidates(r *rand.Rand) []string {
	base := append([]string{t.ex}, t.enum...)
	var out []string
	for _, b := range base {
		out = append(out, b)
		for _, c := range mutChars {
			out = append(out, b+string(c), string(c)+b)
		}
		if len(b) > 0 {
			out = append(out, b[1:], b[:len(b)-1])
			i := r.Intn(len(b))
			for _, c := range mutChars {
				out = append(out, b[:i]+string(c)+b[i+1:])
			}
			out = append(out, strings.ToUpper(b))
		}
		if t.max >= 0 && len(b) > 0 {
			x := b
			for len(x) <= t.max {
				x += b[len(b)-1:]
			}
			out = append(out, x)
		}
		if t.min >= 1 && len(b) >= t.min {
			out = append(out, b[:t.min-1], b[len(b)-t.min+1:])
		}
	}
	if f := t.format(); f != "" {
		out = append(out, fmtProbes(r, f)...)
	}
	var keep []string
	for _, k := range out {
		if keyOK(k) {
			keep = append(keep, k)
		}
	}
	return keep
}

// keyCtx: the key types of one table, its pool of document keys and the renaming into the model's vocabulary.
type keyCtx struct {
	fixed    bool
	types    []*keyType // in slot order
	bySlot   map[string]*keyType
	pool     []string            // document keys (real spelling)
	named    []string            // keys of named properties
	phi      map[string]string   // real key -> model key
	accepted map[string][]string // slot -> pool keys the type accepts
	nearMiss map[string][]string // slot -> pool keys violating exactly one rule of the type
	free     []string            // pool keys no key type of the table accepts
	extra    []string            // pool keys that are not names of properties
	dropped  int                 // candidate keys left out because no model key has their verdict vector
	oracle   []string            // semcf requests …
	oracleGo []bool              // … and the verdict computed in Go
	pairs    []keyPair           // every (generated type, pool key) with the verdict computed in Go
	stats    []string
}

type keyPair struct {
	t   *keyType
	key string
	ok  bool
}

var slotNames = []string{"k0", "k1", "k2", "k3"}

// the model's key classes: verdicts of a model key under (k0, k1, k2, k3)
var classVec = map[byte][4]bool{
	'A': {false, true, false, false}, // length <= 1
	'B': {true, false, true, false},  // "zz"
	'C': {true, false, false, false}, // length 2, not "zz"
	'D': {true, false, false, true},  // length >= 3
}

func modelClass(k string) byte {
	switch {
	case len(k) <= 1:
		return 'A'
	case k == "zz":
		return 'B'
	case len(k) == 2:
		return 'C'
	}
	return 'D'
}

// classesFor: the model classes whose verdicts agree with the key's verdicts on every slot in use.
func classesFor(k string, assign []int, types []*keyType) []byte {
	var out []byte
	for _, c := range []byte("ABCD") {
		ok := true
		for i, t := range types {
			ok = ok && classVec[c][assign[i]] == t.accepts(k)
		}
		if ok {
			out = append(out, c)
		}
	}
	return out
}

var atomRe = regexp.MustCompile(`^[A-Za-z0-9]+$`)
var plainKeyRe = regexp.MustCompile(`^[a-z][a-z0-9]*$`)

const classAChars = "abcdefghijklmnopqrstuvwxyzABCDEFGHIJKLMNOPQRSTUVWXYZ0123456789"

func newKeyCtx(r *rand.Rand) *keyCtx {
	kc := &keyCtx{bySlot: map[string]*keyType{}, phi: map[string]string{}, accepted: map[string][]string{}, nearMiss: map[string][]string{}}
	var cand []string
	var assign []int
	if r.Intn(3) == 0 {
		kc.fixed = true
		kc.types = fixedKeyTypes()
		assign = []int{0, 1, 2, 3}
		cand = append(cand, fixedPool...)
		kc.stats = append(kc.stats, "table_key_types_fixed")
	} else {
		n := []int{1, 1, 2, 2, 2, 3}[r.Intn(6)]
		for i := 0; i < n; i++ {
			kc.types = append(kc.types, genKeyType(r))
		}
		kc.stats = append(kc.stats, "table_key_types_generated", "table_key_types_generated_"+strconv.Itoa(n))
		// candidate keys: per type the probes around its accepted set, the common pool, short plain keys
		seen := map[string]bool{}
		add := func(k string) {
			if !seen[k] {
				seen[k] = true
				cand = append(cand, k)
			}
		}
		var all []string
		for _, t := range kc.types {
			all = append(all, t.candidates(r)...)
		}
		all = append(all, extraKeys...)
		all = append(all, keyWords...)
		// per type: up to 2 keys satisfying all rules, up to 2 per rule violating exactly that rule, 1 violating several
		for _, t := range kc.types {
			cnt := map[string]int{}
			for _, i := range r.Perm(len(all)) {
				k := all[i]
				v := t.violated(k)
				cl := "several"
				switch len(v) {
				case 0:
					cl = "ok"
				case 1:
					cl = v[0]
				}
				lim := 2
				if cl == "several" {
					lim = 1
				}
				if cnt[cl] < lim {
					cnt[cl]++
					add(k)
				}
			}
			add(t.ex)
		}
		for _, k := range []string{"a", "b", "c", "f", "e"} {
			add(k)
		}
		for i := 0; i < 3; i++ {
			add(all[r.Intn(len(all))])
		}
		// slot assignment: among all injective ones, one of those that keep most candidate keys
		type scored struct {
			a    []int
			kept int
		}
		var opts []scored
		var rec func(a []int)
		rec = func(a []int) {
			if len(a) == n {
				s := scored{a: append([]int{}, a...)}
				zz := 0
				for _, k := range cand {
					cs := classesFor(k, a, kc.types)
					if len(cs) == 1 && cs[0] == 'B' {
						zz++
						if zz > 1 {
							continue
						}
					}
					if len(cs) > 0 {
						s.kept++
					}
				}
				// every type keeps a key it accepts
				for _, t := range kc.types {
					has := false
					for _, k := range cand {
						if t.accepts(k) && len(classesFor(k, a, kc.types)) > 0 {
							has = true
						}
					}
					if !has {
						s.kept -= 100
					}
				}
				opts = append(opts, s)
				return
			}
			for s := 0; s < 4; s++ {
				used := false
				for _, x := range a {
					used = used || x == s
				}
				if !used {
					rec(append(a, s))
				}
			}
		}
		rec(nil)
		best := -1 << 30
		for _, o := range opts {
			if o.kept > best {
				best = o.kept
			}
		}
		var good []scored
		for _, o := range opts {
			if o.kept >= best-1 {
				good = append(good, o)
			}
		}
		assign = good[r.Intn(len(good))].a
	}
	for i, t := range kc.types {
		t.slot = slotNames[assign[i]]
		kc.bySlot[t.slot] = t
		kc.stats = append(kc.stats, "key_type_rules_"+t.kind, "key_type_rule_count_"+strconv.Itoa(t.nRules()))
		if t.typ != "" {
			kc.stats = append(kc.stats, "key_type_with_explicit_type_rule")
		}
		if f := t.format(); f != "" {
			kc.stats = append(kc.stats, "key_type_format")
		}
		if t.cnst != 0 {
			kc.stats = append(kc.stats, "key_type_const_"+strconv.FormatBool(t.cnst == 1))
		}
		if t.null != 0 {
			kc.stats = append(kc.stats, "key_type_nullable_"+strconv.FormatBool(t.null == 1))
		}
		if t.ruleFree() && (t.typ != "" || t.cnst != 0 || t.null != 0) {
			kc.stats = append(kc.stats, "key_type_whose_rules_all_say_what_no_rule_says")
		}
	}
	// the renaming: a key keeps its own spelling when that is a model key of a fitting class
	taken := map[string]bool{}
	fresh := func(c byte) string {
		switch c {
		case 'A':
			for _, ch := range classAChars {
				if !taken[string(ch)] {
					return string(ch)
				}
			}
		case 'B':
			if !taken["zz"] {
				return "zz"
			}
		case 'C':
			for i := 0; i < 100; i++ {
				if k := "y" + string(classAChars[i%len(classAChars)]); !taken[k] {
					return k
				}
			}
		case 'D':
			for i := 0; i < 1000; i++ {
				if k := "w" + strconv.Itoa(100+i); !taken[k] {
					return k
				}
			}
		}
		return ""
	}
	for _, k := range cand { // first the keys that can keep their spelling
		if atomRe.MatchString(k) && !taken[k] {
			for _, c := range classesFor(k, assign, kc.types) {
				if c == modelClass(k) {
					taken[k] = true
					kc.phi[k] = k
				}
			}
		}
	}
	for _, k := range cand {
		if _, ok := kc.phi[k]; !ok {
			cs := classesFor(k, assign, kc.types)
			m := ""
			if len(cs) > 0 {
				off := r.Intn(len(cs))
				for i := range cs {
					if m = fresh(cs[(off+i)%len(cs)]); m != "" {
						break
					}
				}
			}
			if m == "" {
				kc.dropped++
				continue
			}
			taken[m] = true
			kc.phi[k] = m
		}
		kc.pool = append(kc.pool, k)
	}
	// the roles of the pool keys
	for _, k := range kc.pool {
		any := false
		for _, t := range kc.types {
			v := t.violated(k)
			switch len(v) {
			case 0:
				any = true
				kc.accepted[t.slot] = append(kc.accepted[t.slot], k)
			case 1:
				kc.nearMiss[t.slot] = append(kc.nearMiss[t.slot], k)
			}
			if !kc.fixed {
				kc.pairs = append(kc.pairs, keyPair{t, k, len(v) == 0})
				if !t.ruleFree() { // the rule model speaks of VALUES: a type without rules accepts every string
					kc.oracle = append(kc.oracle, t.oracleLine(k))
					kc.oracleGo = append(kc.oracleGo, len(v) == 0)
				}
			}
		}
		if !any {
			kc.free = append(kc.free, k)
		}
	}
	// names of properties: a b c f as far as they are in the pool, then other plain keys
	if kc.fixed {
		kc.named = []string{"a", "b", "c", "f"}
	} else {
		var plain []string
		for _, k := range kc.pool {
			if plainKeyRe.MatchString(k) {
				plain = append(plain, k)
			}
		}
		r.Shuffle(len(plain), func(i, j int) { plain[i], plain[j] = plain[j], plain[i] })
		if len(plain) > 4 {
			plain = plain[:4]
		}
		sort.Strings(plain)
		kc.named = plain
	}
	isNamed := map[string]bool{}
	for _, k := range kc.named {
		isNamed[k] = true
	}
	for _, k := range kc.pool {
		if !isNamed[k] {
			kc.extra = append(kc.extra, k)
		}
	}
	if kc.dropped > 0 {
		kc.stats = append(kc.stats, "table_with_candidate_keys_left_out")
	}
	for _, t := range kc.types {
		if t.nRules() >= 2 && len(kc.nearMiss[t.slot]) > 0 {
			kc.stats = append(kc.stats, "key_type_multi_rule_with_exactly_one_rule_probe")
		}
	}
	return kc
}

func (kc *keyCtx) slots() []string {
	var s []string
	for _, t := range kc.types {
		s = append(s, t.slot)
	}
	sort.Strings(s)
	return s
}

// additionalKey: the key of the extra member a sampled object gets under additionalProperties: 3 times in 4 a key
// no key type of the table accepts (if the pool has one), else any pool key that is not the name of a property.
func (kc *keyCtx) additionalKey(r *rand.Rand) string {
	var free []string
	for _, k := range kc.free {
		named := false
		for _, n := range kc.named {
			named = named || n == k
		}
		if !named {
			free = append(free, k)
		}
	}
	if len(free) > 0 && r.Intn(4) != 0 {
		return free[r.Intn(len(free))]
	}
	if len(kc.extra) > 0 {
		return kc.extra[r.Intn(len(kc.extra))]
	}
	return kc.pool[r.Intn(len(kc.pool))]
}

func (kc *keyCtx) mapText() string {
	var xs []string
	for _, k := range kc.pool {
		if kc.phi[k] != k {
			xs = append(xs, quote(k)+"->"+kc.phi[k])
		}
	}
	if len(xs) == 0 {
		return ""
	}
	return " KEYS SENT AS: " + strings.Join(xs, " ")
}
