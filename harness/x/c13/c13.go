// Package c13: harness command `c13-metamorphic`.
//
// Property C13 — meaning is invariant under the surface syntax of schema and document.
//
// Schema side ("C13-schema"): an abstract schema (objects, arrays incl. nested arrays followed by annotated
// elements, scalars, `@t` shortcuts; rules on many nodes; notes) is printed once in a BASE spelling (LF,
// two-space indent, inline annotations, bare rule names, no user comments) and several times in VARIANT
// spellings, each a random composition of the meaning-preserving rewrites the property lists. All spellings
// of one schema must give the same Check verdict + error code, the same AST and the same Validate verdict on
// every document of a small document set.
//
// Document side ("C13-document"): for (schema, document) pairs the DOCUMENT is re-spelled without changing
// its JSON value (whitespace, member order at every level, escape sequences in keys and values, and — as an
// explicitly separate rewrite — trailing zeros of a fraction) and the validation verdict must not change.
// Besides one random composition per document there are two systematic sweeps with one rewrite at a time:
// every document-wide escape form (the two-character escapes \" \\ \/ \b \f \n \r \t for every character that has
// one; \uXXXX for every character with lower / upper / mixed-case hex digits and surrogate pairs; \uXXXX only
// where an escape is required), and the member order of single objects (all orders up to 3 members, otherwise
// reverse + rotation + random ones). Document objects under an `additionalProperties` rule (every mode: false,
// true / "any", each schema type, "@t" / "@u") carry 0-4 additional members of mixed conformity, so that an
// order-dependent verdict (state kept between the members of one object) shows. Schema objects also carry KEY
// SHORTCUTS (`@k1: value`, 1-4 per object, string key types of every rule kind) and documents keys drawn to match
// them: keys.go (generator, what is demanded, known-finding class K-C13-keyorder).
//
// Schema side, first variant of every schema: the COMBINATION line-end style (LF, CRLF, CR, four mixtures; by
// turns) x dense user comments (`#` at line ends and on own lines, incl. empty and one-character ones, ###
// blocks) x, at random, everything else; the other variants are free compositions.
//
// Schema side, RULE SETS AND RULE ORDER (ruleorder.go): redundant / no-op rules in every combination Check accepts, the
// rules of single nodes in every order, probe documents (null / another kind at the position of a rule-carrying node).
//
// Schema side, user comments BETWEEN TOKENS (slots.go): the rewrite "insert a user comment" is applied wherever the
// schema language accepts one, in every form (`# …` to the end of the line, `### … ###` on one line, a `###` block
// spanning line breaks; 1-3 in a row): inside empty brackets, directly behind an opening bracket, between a value
// and its comma, between a value / comma / opening bracket and the annotation of the node on the same line, before
// the first and behind the last token of a line and of the text, behind an annotation, between the tokens of a
// one-line subtree. Per schema 3 single insertions into the base spelling (or a carrier spelling: other line ends,
// multi-line annotations, quoted rule names) - the place by slot class, so that rare places (an annotated empty
// array) are met whenever the schema has them - and, as part of the "comments" rewrite of the composed variants,
// insertions at every slot with probability 0.08 / 0.25 / 0.6. A composed variant that differs is reduced slot by
// slot before it is reported. Places the unchanged tree refuses (between key and ':' and ':' and value, inside a
// `@t | @u` shortcut, inside an annotation, a line comment between a node and its annotation, a block spanning lines
// behind an inline annotation with a note) are probed and counted (stats `outside_language …`), never demanded;
// `vh c13-metamorphic slots` prints the whole map (slot class x form -> what the tree does).
//
// Reading notes (where the property text leaves a choice, the reading the unchanged tree satisfies):
//   - "extra spaces around ':' and ','" inside a rule object means the SPACE character: a TAB between a bare
//     rule name and ':' is refused by design (error 302), so tabs are only used where blanks are skipped.
//   - user comments are only demanded where the scanner accepts them (slots.go, legit): never inside an annotation,
//     never between a key and its ':' / between ':' and the value, never inside a `@t | @u` shortcut.
//   - the error CODE is compared for every variant; the generator plants at most one defect with a single
//     symptom per schema, so a rule shuffle cannot legitimately change which error is met first. Schemas
//     without a planted defect are valid by construction (stat generator_unplanned_invalid must stay 0).
//   - a `###` block is never empty and its text never starts with '#' (`####` / `##x` are errors); line breaks
//     inside a block are not line ends for the annotation binding: a block spanning lines may stand between a node
//     and its annotation; a `#` comment ends its line, so in the middle of a line it is a re-spelling only where a
//     line break is one; notes never start with '{' and never contain '#' or "*/".
//   - fraction zeros (`1.0` -> `1.00`) are applied to documents only when no schema of the case uses an `enum`
//     rule: enum items compare numbers as text (known finding K-C10-enumtext, recorded under C10); `const`
//     compares by value and is covered.
//   - one-line subtrees (several nodes on a line) never carry annotations: refused by design (304 / 804).
package c13

import (
	stdjson "encoding/json"
	stderrors "errors"
	"fmt"
	"math"
	"math/rand"
	"runtime"
	"sort"
	"strings"
	"sync"
	"time"
	"unicode/utf16"
	"unicode/utf8"

	jlib "github.com/jsightapi/jsight-schema-go-library"
	jdoc "github.com/jsightapi/jsight-schema-go-library/formats/json"
	"github.com/jsightapi/jsight-schema-go-library/notations/jschema"
	jenum "github.com/jsightapi/jsight-schema-go-library/rules/enum"

	"verifharness/vh"
)

const (
	command = "c13-metamorphic"
	salt    = 1301
)

// ---------------------------------------------------------------------------------------------------------
// Abstract schema

// rval is the value of a rule: a literal, an array (enum items / or alternatives) or a rule set (inside or).
type rval struct {
	kind byte // 'l' literal, 'a' array, 'o' rule set
	lit  string
	arr  []rval
	obj  []rule
}

type rule struct {
	name string
	v    rval
}

type node struct {
	kind  string // obj arr int flt str bool null ref
	lit   string // literal text as written in the schema (scalars, shortcuts)
	val   interface{}
	rules []rule
	note  string   // "" = no note
	keys  []string // schema key texts WITH quotes
	dkeys []string // decoded keys
	// short: key shortcuts (`@k1: value`), parallel to keys; nil = a literal key (the slice is nil when the object has none)
	short   []*keyType
	kids    []*node
	compact bool // the whole subtree is printed on one line (and has no annotations below the top)
	// helpers for document sampling
	optional, nullable bool
	enum               []string // literal texts of enum items
	orAlts             []string // "integer" "string" "@t" …
	orEnum             []string // literal texts of the enum members of an or rule
	addProps           string   // "", "true", "false", "any", "string", "integer", "@t"
	refs               []string // names without '@' for kind ref
	anyType            bool     // carries `type: "any"`
}

func lit(s string) rval { return rval{kind: 'l', lit: s} }

type strEx struct {
	text    string // schema spelling (with quotes)
	decoded string
	regex   []string // regex rule value texts (JSON strings) that match
}

var strPool = []strEx{
	{`"abc"`, "abc", []string{`"^[a-z]+$"`, `".*"`, `"^.{3}$"`}},
	{`"a/b"`, "a/b", []string{`"^a/b$"`, `"^[a-z/]*$"`}},
	{`"a\/b"`, "a/b", []string{`"^a/b$"`}},
	{`"é"`, "é", []string{`"^é$"`, `"^.$"`}},
	{`"été"`, "été", []string{`"^.t.$"`, `"^été$"`}},
	{`"😀x"`, "😀x", []string{`"^.x$"`, `"x$"`}},
	{`"😀"`, "😀", []string{`"^.$"`}},
	{`"q\"t"`, `q"t`, []string{`"^q.t$"`}},
	{`"AB"`, "AB", []string{`"^AB$"`, `"^[A-Z]{2}$"`}},
	{`""`, "", []string{`"^$"`}},
	{`"hello world"`, "hello world", []string{`"^hello"`, `"o w"`}},
	{`"t\tb"`, "t\tb", []string{`"^t\\sb$"`}},
	{`"b\\s"`, `b\s`, []string{`"^b.s$"`}},
	// wide pool (see gen.wide): every character that has a two-character escape in JSON (\" \\ \/ \b \f \n \r \t) and
	// \uXXXX spellings (lower / upper hex, a surrogate pair) occur in schema strings that are compared by const / enum /
	// regex / lengths
	{`"l\nf"`, "l\nf", []string{`"^l\\sf$"`, `"^l[^a]f$"`}},
	{`"c\rr"`, "c\rr", []string{`"^c.r$"`, `"^c\\sr$"`}},
	{`"b\bf\f"`, "b\bf\f", []string{`"^b.f.$"`, `"^.{4}$"`}},
	{`"\u00e9t\u00E9"`, "été", []string{`"^.t.$"`}},
	{`"\ud83d\uDE00!"`, "😀!", []string{`"^.!$"`}},
	{`"\\\"\/"`, `\"/`, []string{`"^.{3}$"`, `"/$"`}},
}

const nNarrowStr = 13

var keyPool = []struct{ text, decoded string }{
	{`"a"`, "a"}, {`"b"`, "b"}, {`"c"`, "c"}, {`"id"`, "id"}, {`"é"`, "é"}, {`"k/1"`, "k/1"}, {`"k\/2"`, "k/2"},
	{`"😀"`, "😀"}, {`"q\"t"`, `q"t`}, {`"kA"`, "kA"}, {`"name"`, "name"}, {`"x y"`, "x y"}, {`"éé"`, "éé"},
	// wide pool
	{`"l\nf"`, "l\nf"}, {`"t\tk"`, "t\tk"}, {`"b\\k"`, `b\k`}, {`"\u00e9k"`, "ék"}, {`"r\rb\bf\f"`, "r\rb\bf\f"},
}

const nNarrowKey = 13

// strs / keys: the pools this generator draws from. GenSchemaText (used by other commands) keeps the narrow pools.
func (g *gen) strs() []strEx {
	if g.wide {
		return strPool
	}
	return strPool[:nNarrowStr]
}

func (g *gen) nKeys() int {
	if g.wide {
		return len(keyPool)
	}
	return nNarrowKey
}

var notePool = []string{"a note", "note only", "identifier of the thing", "see docs/x.md", "1 - 2", "ключ", "(not a rule)", "it's"}

type gen struct {
	r        *rand.Rand
	defect   string // planted defect kind, "" = none
	refsOK   bool   // the schema being generated may mention @t / @u
	features map[string]bool
	// wide: the full input space of c13-metamorphic (all escape characters in schema strings and keys, every
	// additionalProperties mode, container-rooted added types more often, several additional members per document
	// object). GenSchemaText leaves it off: its consumers (c14-len, loaderdiff) keep their input space.
	wide     bool
	docStats []string
	// named enum rules (`{enum: @e1}`, the one rule value that is a shortcut): only while namedOK (root schema)
	namedOK bool
	// ktypes: the string types `@k1` … of this case that objects may use as key shortcuts (wide generator only)
	ktypes     []*keyType
	named      map[string]string // "@e1" -> text of the enum rule
	namedOrder []string
	// probe: sample() puts probeVal wherever it reaches schema node probeAt (ruleorder.go)
	probeAt  *node
	probeVal *dval
	probeHit bool
}

// enumRule: the enum rule of a node, either with its items in place or - wide generator, root schema - as a
// reference to a named enum rule that is added with AddRule.
func (g *gen) enumRule(items []string) rule {
	if !g.wide || !g.namedOK || len(g.namedOrder) >= 3 || !g.chance(0.4) {
		return rule{"enum", arrOf(items)}
	}
	name := fmt.Sprintf("@e%d", len(g.namedOrder)+1)
	var text string
	switch g.r.Intn(3) {
	case 0:
		text = "[" + strings.Join(items, ", ") + "]"
	case 1:
		text = "[\n  " + strings.Join(items, ",\n  ") + "\n]"
	default:
		text = "[ // the items\n  " + strings.Join(items, ", // an item\n  ") + " /* the last one */\n]"
	}
	if g.named == nil {
		g.named = map[string]string{}
	}
	g.named[name] = text
	g.namedOrder = append(g.namedOrder, name)
	g.feat("named-enum-rule")
	return rule{"enum", lit(name)}
}

func (g *gen) feat(s string) { g.features[s] = true }

func (g *gen) chance(p float64) bool { return g.r.Float64() < p }

func (g *gen) note(n *node) {
	if g.chance(0.3) {
		n.note = notePool[g.r.Intn(len(notePool))]
		g.feat("note")
	}
}

func fmtNum(f float64, dec int) string {
	return fmt.Sprintf("%.*f", dec, f)
}

// scalar generators -----------------------------------------------------------------------------------------

func (g *gen) intNode() *node {
	r := g.r
	v := r.Intn(41) - 10
	n := &node{kind: "int", lit: fmt.Sprint(v), val: v}
	switch k := r.Intn(10); {
	case k == 0:
		items := []string{fmt.Sprint(v)}
		for _, c := range []string{fmt.Sprint(v + 1), `"x"`, "null", "true", "2.50", fmt.Sprint(v + 7)} {
			if g.chance(0.4) {
				items = append(items, c)
			}
		}
		r.Shuffle(len(items), func(i, j int) { items[i], items[j] = items[j], items[i] })
		n.enum = items
		n.rules = append(n.rules, g.enumRule(items))
		g.feat("enum")
	case k == 1:
		n.rules = append(n.rules, rule{"const", lit("true")})
		n.enum = []string{n.lit}
		g.feat("const")
		if g.chance(0.5) {
			n.rules = append(n.rules, rule{"min", lit(fmt.Sprint(v - r.Intn(3)))})
		}
	case k == 2:
		g.orRule(n, "integer")
	case k <= 7:
		if g.chance(0.6) {
			d := r.Intn(3)
			n.rules = append(n.rules, rule{"min", lit(fmt.Sprint(v - d))})
			g.feat("min/max")
			if d > 0 && g.chance(0.4) {
				n.rules = append(n.rules, rule{"exclusiveMinimum", lit("true")})
			}
		}
		if g.chance(0.6) {
			d := r.Intn(3)
			n.rules = append(n.rules, rule{"max", lit(fmt.Sprint(v + d))})
			g.feat("min/max")
			if d > 0 && g.chance(0.4) {
				n.rules = append(n.rules, rule{"exclusiveMaximum", lit("true")})
			}
		}
		if g.chance(0.3) {
			n.rules = append(n.rules, rule{"type", lit(`"integer"`)})
			g.feat("type")
		}
	}
	return n
}

func (g *gen) fltNode() *node {
	r := g.r
	dec := 1 + r.Intn(2)
	f := float64(r.Intn(2000)-500) / 100
	if dec == 1 {
		f = float64(r.Intn(200)-50) / 10
	}
	n := &node{kind: "flt", lit: fmtNum(f, dec), val: f}
	switch k := r.Intn(10); {
	case k == 0:
		items := []string{n.lit}
		for _, c := range []string{"1.0", "2.50", "7", `"1.0"`} {
			if c != n.lit && g.chance(0.5) {
				items = append(items, c)
			}
		}
		r.Shuffle(len(items), func(i, j int) { items[i], items[j] = items[j], items[i] })
		n.enum = items
		n.rules = append(n.rules, g.enumRule(items))
		g.feat("enum")
	case k == 1:
		n.rules = append(n.rules, rule{"const", lit("true")})
		n.enum = []string{n.lit}
		g.feat("const")
	case k <= 7:
		if g.chance(0.6) {
			n.rules = append(n.rules, rule{"min", lit(fmtNum(math.Floor(f)-float64(r.Intn(3)), r.Intn(3)))})
			g.feat("min/max")
		}
		if g.chance(0.6) {
			n.rules = append(n.rules, rule{"max", lit(fmtNum(math.Ceil(f)+float64(r.Intn(3)), r.Intn(3)))})
			g.feat("min/max")
		}
		switch r.Intn(4) {
		case 0:
			n.rules = append(n.rules, rule{"type", lit(`"float"`)})
			g.feat("type")
		case 1:
			n.rules = append(n.rules, rule{"type", lit(`"decimal"`)}, rule{"precision", lit(fmt.Sprint(dec + r.Intn(2)))})
			g.feat("type")
		case 2:
			n.rules = append(n.rules, rule{"precision", lit(fmt.Sprint(dec + r.Intn(2)))})
		}
	}
	return n
}

func (g *gen) strNode() *node {
	r := g.r
	ex := g.strs()[r.Intn(len(g.strs()))]
	n := &node{kind: "str", lit: ex.text, val: ex.decoded}
	blen := len(ex.decoded)
	switch k := r.Intn(12); {
	case k <= 1:
		items := []string{ex.text}
		cands := []string{`"x"`, `"a\/b"`, `"é"`, `"😀"`, "5", "null"}
		if g.wide {
			cands = append(cands, `"l\nf"`, `"q\"t"`, `"\u00E9t\u00e9"`, `"b\\s"`)
		}
		for _, c := range cands {
			if g.chance(0.4) {
				dup := false
				for _, it := range items {
					dup = dup || unq(it) == unq(c)
				}
				if !dup {
					items = append(items, c)
				}
			}
		}
		r.Shuffle(len(items), func(i, j int) { items[i], items[j] = items[j], items[i] })
		n.enum = items
		n.rules = append(n.rules, g.enumRule(items))
		g.feat("enum")
	case k == 2:
		n.rules = append(n.rules, rule{"const", lit("true")})
		n.enum = []string{ex.text}
		g.feat("const")
	case k == 3:
		g.orRule(n, "string")
	case k == 4:
		sp := [][2]string{{`"a@b.cc"`, `"email"`}, {`"2020-01-02"`, `"date"`}, {`"550e8400-e29b-41d4-a716-446655440000"`, `"uuid"`}, {`"http://x.org/a"`, `"uri"`}}[r.Intn(4)]
		n.lit, n.val = sp[0], unq(sp[0])
		n.rules = append(n.rules, rule{"type", lit(sp[1])})
		g.feat("type")
	case k <= 10:
		// Lengths are counted by the library on the unquoted value in bytes; bounds sit next to the actual length so
		// that a count on the raw (escaped) text would flip a verdict.
		if g.chance(0.6) {
			n.rules = append(n.rules, rule{"minLength", lit(fmt.Sprint(max0(blen - r.Intn(2))))})
			g.feat("lengths")
		}
		if g.chance(0.6) {
			n.rules = append(n.rules, rule{"maxLength", lit(fmt.Sprint(blen + r.Intn(2)))})
			g.feat("lengths")
		}
		if g.chance(0.4) {
			n.rules = append(n.rules, rule{"regex", lit(ex.regex[r.Intn(len(ex.regex))])})
			g.feat("regex")
		}
		if g.chance(0.25) {
			n.rules = append(n.rules, rule{"type", lit(`"string"`)})
			g.feat("type")
		}
	}
	return n
}

func max0(x int) int {
	if x < 0 {
		return 0
	}
	return x
}

func unq(s string) string {
	var out string
	if err := stdjson.Unmarshal([]byte(s), &out); err != nil {
		return s
	}
	return out
}

func arrOf(items []string) rval {
	v := rval{kind: 'a'}
	for _, it := range items {
		v.arr = append(v.arr, lit(it))
	}
	return v
}

// orRule attaches an `or` rule whose first alternative fits the example of n.
func (g *gen) orRule(n *node, own string) {
	r := g.r
	g.feat("or")
	v := rval{kind: 'a'}
	set := func(rs ...rule) rval {
		if g.wide {
			rs = g.redundantMember(rs)
		}
		r.Shuffle(len(rs), func(i, j int) { rs[i], rs[j] = rs[j], rs[i] })
		return rval{kind: 'o', obj: rs}
	}
	// the alternative that fits the example of n: a typed rule set with every rule such a member may carry, a
	// rule set without `type`, or an `enum` member
	var first rval
	switch own {
	case "integer":
		x := n.val.(int)
		switch r.Intn(4) {
		case 0:
			items := []string{fmt.Sprint(x), fmt.Sprint(x + 3)}
			if g.chance(0.5) {
				items = append(items, `"x"`, "null")
			}
			first = set(rule{"enum", arrOf(items)})
			n.orEnum = append(n.orEnum, items...)
			g.feat("enum")
			g.feat("or-member-enum")
		case 1:
			first = set(rule{"min", lit(fmt.Sprint(x - 1))})
		default:
			rs := []rule{{"type", lit(`"integer"`)}}
			if g.chance(0.5) {
				rs = append(rs, rule{"min", lit(fmt.Sprint(x - 1))})
				if g.chance(0.4) {
					rs = append(rs, rule{"exclusiveMinimum", lit("true")})
				}
			}
			if g.chance(0.5) {
				rs = append(rs, rule{"max", lit(fmt.Sprint(x + 2))})
			}
			if g.chance(0.2) {
				rs = append(rs, rule{"nullable", lit("true")})
			}
			first = set(rs...)
		}
	default: // string
		str := n.val.(string)
		switch r.Intn(4) {
		case 0:
			items := []string{n.lit}
			for _, c := range []string{`"zz"`, "7", "null"} {
				if g.chance(0.5) {
					items = append(items, c)
				}
			}
			first = set(rule{"enum", arrOf(items)})
			n.orEnum = append(n.orEnum, items...)
			g.feat("enum")
			g.feat("or-member-enum")
		default:
			rs := []rule{{"type", lit(`"string"`)}}
			if g.chance(0.5) {
				rs = append(rs, rule{"maxLength", lit(fmt.Sprint(len(str) + 1))})
			}
			if g.chance(0.4) {
				rs = append(rs, rule{"minLength", lit(fmt.Sprint(max0(len(str) - 1)))})
			}
			if g.chance(0.3) {
				rs = append(rs, rule{"regex", lit(`".*"`)})
			}
			first = set(rs...)
		}
	}
	v.arr = append(v.arr, first)
	n.orAlts = []string{own}
	others := []string{"string", "integer", "boolean", "null", "float", "decimal", "email", "array", "object", "enum", "@t", "@u"}
	if !g.refsOK {
		others = others[:10]
	}
	cnt := 2 + r.Intn(3)
	for len(n.orAlts) < cnt {
		o := others[r.Intn(len(others))]
		dup := false
		for _, a := range n.orAlts {
			dup = dup || a == o
		}
		if dup {
			continue
		}
		n.orAlts = append(n.orAlts, o)
		ty := rule{"type", lit(`"` + o + `"`)}
		switch {
		case o[0] == '@' && g.chance(0.5):
			v.arr = append(v.arr, lit(`"`+o+`"`))
		case o == "string":
			rs := []rule{ty}
			if g.chance(0.5) {
				rs = append(rs, rule{"minLength", lit("2")})
			}
			if g.chance(0.3) {
				rs = append(rs, rule{"maxLength", lit("6")})
			}
			if g.chance(0.3) {
				rs = append(rs, rule{"regex", lit(`"^[a-zé/]+$"`)})
			}
			v.arr = append(v.arr, set(rs...))
		case o == "integer":
			rs := []rule{ty}
			if g.chance(0.5) {
				rs = append(rs, rule{"min", lit("0")})
			}
			if g.chance(0.3) {
				rs = append(rs, rule{"max", lit("100")})
			}
			v.arr = append(v.arr, set(rs...))
		case o == "float":
			rs := []rule{ty}
			if g.chance(0.5) {
				rs = append(rs, rule{"min", lit("0.5")})
			}
			v.arr = append(v.arr, set(rs...))
		case o == "decimal":
			v.arr = append(v.arr, set(ty, rule{"precision", lit("2")}))
		case o == "array":
			rs := []rule{ty}
			if g.chance(0.5) {
				rs = append(rs, rule{"minItems", lit("1")})
			}
			v.arr = append(v.arr, set(rs...))
		case o == "object":
			rs := []rule{ty}
			if g.chance(0.5) {
				rs = append(rs, rule{"additionalProperties", lit("true")})
			}
			v.arr = append(v.arr, set(rs...))
		case o == "enum":
			items := []string{`"a"`, `"b/c"`, "null", "2.50", "true", "42"}
			r.Shuffle(len(items), func(i, j int) { items[i], items[j] = items[j], items[i] })
			items = items[:1+r.Intn(4)]
			v.arr = append(v.arr, set(rule{"enum", arrOf(items)}))
			n.orEnum = append(n.orEnum, items...)
			g.feat("enum")
			g.feat("or-member-enum")
		default:
			v.arr = append(v.arr, set(ty))
		}
	}
	if g.chance(0.5) { // put the own alternative somewhere else
		i := r.Intn(len(v.arr))
		v.arr[0], v.arr[i] = v.arr[i], v.arr[0]
	}
	n.rules = append(n.rules, rule{"or", v})
}

func (g *gen) scalar() *node {
	switch k := g.r.Intn(20); {
	case k < 6:
		return g.intNode()
	case k < 9:
		return g.fltNode()
	case k < 17:
		return g.strNode()
	case k < 19:
		b := []string{"true", "false"}[g.r.Intn(2)]
		n := &node{kind: "bool", lit: b, val: b == "true"}
		switch g.r.Intn(4) {
		case 0:
			n.rules = append(n.rules, rule{"type", lit(`"boolean"`)})
		case 1:
			n.rules = append(n.rules, rule{"const", lit("true")})
			n.enum = []string{b}
		case 2:
			n.rules = append(n.rules, g.enumRule([]string{"true", "false"}))
			g.feat("enum")
			n.enum = []string{"true", "false"}
		}
		return n
	default:
		n := &node{kind: "null", lit: "null"}
		if g.chance(0.3) {
			n.rules = append(n.rules, rule{"type", lit(`"null"`)})
		}
		return n
	}
}

// compactText prints a rule-free subtree on one line.
func (g *gen) compactNode(depth int) *node {
	r := g.r
	var build func(d int) *node
	build = func(d int) *node {
		k := r.Intn(6)
		if d <= 0 && k < 2 {
			k = 3
		}
		switch k {
		case 0:
			n := &node{kind: "arr"}
			for i := r.Intn(4); i > 0; i-- {
				n.kids = append(n.kids, build(d-1))
			}
			return n
		case 1:
			n := &node{kind: "obj"}
			perm := r.Perm(g.nKeys())
			for i := r.Intn(3); i > 0; i-- {
				n.keys = append(n.keys, keyPool[perm[i]].text)
				n.dkeys = append(n.dkeys, keyPool[perm[i]].decoded)
				n.kids = append(n.kids, build(d-1))
			}
			if g.wide && len(g.ktypes) > 0 && g.chance(0.3) {
				kp := r.Perm(len(g.ktypes))
				for _, ki := range kp[:1+r.Intn(len(kp))] {
					g.addShortcut(n, r.Intn(len(n.kids)+1), g.ktypes[ki], build(d-1))
				}
			}
			return n
		case 2:
			ex := g.strs()[r.Intn(len(g.strs()))]
			return &node{kind: "str", lit: ex.text, val: ex.decoded}
		case 3:
			v := r.Intn(20)
			return &node{kind: "int", lit: fmt.Sprint(v), val: v}
		case 4:
			return &node{kind: "bool", lit: "true", val: true}
		default:
			return &node{kind: "flt", lit: "1.5", val: 1.5}
		}
	}
	n := build(depth)
	for n.kind != "arr" && n.kind != "obj" {
		n = build(depth)
	}
	n.compact = true
	g.feat("compact-subtree")
	return n
}

func (g *gen) genNode(depth int, inObj, allowRef bool) *node {
	r := g.r
	k := r.Intn(20)
	if depth <= 0 && k < 8 {
		k = 10 + r.Intn(8)
	}
	var n *node
	switch {
	case k < 4: // object
		n = &node{kind: "obj"}
		perm := r.Perm(g.nKeys())
		cnt := r.Intn(5)
		for i := 0; i < cnt; i++ {
			n.keys = append(n.keys, keyPool[perm[i]].text)
			n.dkeys = append(n.dkeys, keyPool[perm[i]].decoded)
			n.kids = append(n.kids, g.genNode(depth-1, true, allowRef))
		}
		if g.wide && len(g.ktypes) > 0 && g.chance(0.6) {
			// 1-4 key shortcuts `@k: value` (distinct key types) at random places among the literal keys
			kp := r.Perm(len(g.ktypes))
			for _, ki := range kp[:1+r.Intn(len(kp))] {
				g.addShortcut(n, r.Intn(len(n.kids)+1), g.ktypes[ki], g.genNode(depth-2, true, allowRef))
			}
		}
		if g.chance(0.4) {
			ap := []string{"true", "false", `"any"`, `"string"`, `"integer"`, `"@t"`}
			if !allowRef {
				ap = ap[:5]
			}
			if g.wide { // every mode of the rule: no / any / each schema type / a user type
				ap = append(ap, `"object"`, `"array"`, `"object"`, `"array"`, `"float"`, `"decimal"`, `"boolean"`, `"null"`, `"email"`, `"uri"`, `"uuid"`, `"date"`, `"datetime"`, `"enum"`, `"mixed"`)
				if allowRef {
					ap = append(ap, `"@t"`, `"@u"`, `"@t"`, `"@u"`)
				}
			}
			n.addProps = ap[r.Intn(len(ap))]
			n.rules = append(n.rules, rule{"additionalProperties", lit(n.addProps)})
			g.feat("additionalProperties")
		}
		if g.chance(0.15) {
			n.rules = append(n.rules, rule{"type", lit(`"object"`)})
		}
	case k < 7: // array
		n = &node{kind: "arr"}
		cnt := r.Intn(4)
		for i := 0; i < cnt; i++ {
			if i+1 < cnt || g.chance(0.5) {
				// a nested array followed by an annotated element is the interesting neighbourhood
				if g.chance(0.35) && depth > 0 {
					sub := &node{kind: "arr"}
					for j := r.Intn(3); j > 0; j-- {
						sub.kids = append(sub.kids, g.genNode(0, false, allowRef))
					}
					if g.chance(0.4) {
						sub.rules = append(sub.rules, rule{"minItems", lit("0")})
					}
					g.feat("nested-array")
					n.kids = append(n.kids, sub)
					continue
				}
			}
			n.kids = append(n.kids, g.genNode(depth-1, false, allowRef))
		}
		if g.chance(0.4) {
			n.rules = append(n.rules, rule{"minItems", lit(fmt.Sprint(max0(cnt - r.Intn(2))))})
			g.feat("minItems/maxItems")
		}
		if g.chance(0.3) {
			mx := cnt + 1 + r.Intn(3)
			if cnt == 0 { // an empty example array admits only maxItems 0
				mx = 0
			}
			n.rules = append(n.rules, rule{"maxItems", lit(fmt.Sprint(mx))})
			g.feat("minItems/maxItems")
		}
		if g.chance(0.15) {
			n.rules = append(n.rules, rule{"type", lit(`"array"`)})
		}
	case k == 7:
		n = g.compactNode(2)
	case k < 10 && allowRef:
		n = &node{kind: "ref"}
		if g.chance(0.5) {
			n.refs = []string{[]string{"t", "u"}[r.Intn(2)]}
			n.lit = "@" + n.refs[0]
		} else {
			n.refs = [][]string{{"t", "u"}, {"u", "t"}}[r.Intn(2)]
			n.lit = "@" + n.refs[0] + " | @" + n.refs[1]
		}
		g.feat("shortcut")
	default:
		n = g.scalar()
	}
	if !n.compact {
		if inObj && g.chance(0.25) {
			n.optional = true
			n.rules = append(n.rules, rule{"optional", lit("true")})
			g.feat("optional")
		}
		if g.chance(0.2) {
			n.nullable = true
			n.rules = append(n.rules, rule{"nullable", lit("true")})
			g.feat("nullable")
		}
		if g.wide {
			g.redundant(n, inObj)
		}
		// the generator's own rule order is random as well
		r.Shuffle(len(n.rules), func(i, j int) { n.rules[i], n.rules[j] = n.rules[j], n.rules[i] })
		g.note(n)
	}
	return n
}

// plant puts exactly one defect with a single symptom somewhere into the tree.
func (g *gen) plant(root *node) {
	var all []*node
	var walk func(n *node)
	walk = func(n *node) {
		if n.compact {
			return
		}
		all = append(all, n)
		for _, k := range n.kids {
			walk(k)
		}
	}
	walk(root)
	if len(all) == 0 {
		return
	}
	r := g.r
	for try := 0; try < 20; try++ {
		n := all[r.Intn(len(all))]
		has := func(name string) bool {
			for _, ru := range n.rules {
				if ru.name == name {
					return true
				}
			}
			return false
		}
		if has("enum") || has("or") || has("const") || n.anyType {
			continue
		}
		kind := []string{"unknown-rule", "wrong-type-rule", "example-violates", "duplicate-rule", "unknown-type", "two-nodes-one-line"}[r.Intn(6)]
		add := func(ru rule) {
			i := r.Intn(len(n.rules) + 1)
			n.rules = append(n.rules[:i], append([]rule{ru}, n.rules[i:]...)...)
		}
		switch kind {
		case "unknown-rule":
			add(rule{"foo", lit("1")})
		case "wrong-type-rule":
			switch n.kind {
			case "int", "flt", "bool", "null", "obj", "arr":
				if has("minLength") {
					continue
				}
				add(rule{"minLength", lit("1")})
			case "str":
				if has("min") {
					continue
				}
				add(rule{"min", lit("1")})
			default:
				continue
			}
		case "example-violates":
			if n.kind != "int" || has("min") {
				continue
			}
			add(rule{"min", lit(fmt.Sprint(n.val.(int) + 2))})
		case "duplicate-rule":
			if len(n.rules) == 0 || n.rules[0].v.kind != 'l' {
				continue
			}
			add(n.rules[0])
		case "unknown-type":
			if n.kind != "ref" {
				continue
			}
			n.lit = "@nope"
			n.refs = []string{"nope"}
		case "two-nodes-one-line":
			if n.kind != "arr" || len(n.kids) < 1 || len(n.rules) == 0 {
				continue
			}
			// a compact array that keeps its annotation: `[1, 2] // {…}` is refused (annotation not allowed here)
			sub := &node{kind: "arr", compact: true, kids: []*node{{kind: "int", lit: "1", val: 1}, {kind: "int", lit: "2", val: 2}}}
			sub.rules = n.rules
			*n = *sub
		}
		g.defect = kind
		return
	}
}

// ---------------------------------------------------------------------------------------------------------
// Spelling

type spell struct {
	r        *rand.Rand
	base     bool
	eols     []string // line ends to draw from
	indent   string   // none spaces tabs mixed
	cEnd     float64  // probability of a `# …` comment at a line end
	cLine    float64  // probability of a full-line `#` comment between lines
	cBlock   float64  // probability of a ### block between lines
	cEmpty   bool     // comments may be empty (`#` directly followed by the line end)
	multi    float64  // probability that an annotation is written /* … */
	brk      float64  // probability of a line break at a legal place inside a multi-line annotation
	quoted   float64  // probability that a rule name is quoted
	trailing float64  // probability of a trailing comma in a rule object
	spaces   float64  // probability of extra spaces around ':' and ','
	shuffle  bool     // rule order inside every rule object is shuffled
	notes    string   // keep drop change add
	applied  []string
	// tailClean: nothing follows the last token of the schema (no comment, no line end): C14 needs the exact end.
	tailClean bool
	lastAnn   string // form of the annotation printed last: "inline" / "multi"
	lastNote  bool   // the annotation printed last has a note
	// ins: user comments at the slots between tokens (slots.go); nil = none (base spelling, GenSchemaText)
	ins *inserter
	// perm: the rules of single nodes written in another order (ruleorder.go): perm[n][i] = index of the rule written i-th
	perm map[*node][]int
}

func baseSpell() *spell {
	return &spell{base: true, eols: []string{"\n"}, indent: "spaces", notes: "keep", r: rand.New(rand.NewSource(1))}
}

var eolStyles = [][]string{{"\n"}, {"\r\n"}, {"\r"}, {"\n", "\r\n", "\r"}, {"\r\n", "\n"}, {"\r", "\r\n"}, {"\n", "\r"}}

func variantSpell(r *rand.Rand) *spell { return variantSpellForced(r, -1) }

// variantSpellForced: layout >= 0 forces the COMBINATION line-end style x user comments (x, at random, the
// annotation form and everything else): line-end style number layout % 7 of eolStyles for the whole file (LF, CRLF,
// CR, the three mixed, ...), `#` comments at line ends and / or on lines of their own and / or ### blocks always
// present, empty and one-character comments included. The rewrites are not only varied one at a time.
func variantSpellForced(r *rand.Rand, layout int) *spell {
	sp := &spell{r: r, eols: []string{"\n"}, indent: "spaces", notes: "keep"}
	forced := map[string]bool{}
	if layout >= 0 {
		forced["comments"] = true
		forced["eol"] = layout%len(eolStyles) != 0
	}
	on := func(name string, p float64) bool {
		if f, ok := forced[name]; ok {
			r.Float64()
			if f {
				sp.applied = append(sp.applied, name)
			}
			return f
		}
		if r.Float64() < p {
			sp.applied = append(sp.applied, name)
			return true
		}
		return false
	}
	for len(sp.applied) == 0 {
		if on("eol", 0.5) {
			sp.eols = [][]string{{"\r\n"}, {"\r"}, {"\n", "\r\n", "\r"}, {"\r\n", "\n"}}[r.Intn(4)]
			if layout >= 0 {
				sp.eols = eolStyles[layout%len(eolStyles)]
			}
		}
		if on("indent", 0.5) {
			sp.indent = []string{"none", "tabs", "mixed", "spaces4"}[r.Intn(4)]
		}
		if on("comments", 0.5) {
			sp.cEnd, sp.cLine, sp.cBlock = []float64{0, 0.3, 0.8}[r.Intn(3)], []float64{0, 0.2, 0.6}[r.Intn(3)], []float64{0, 0.15, 0.5}[r.Intn(3)]
			if sp.cEnd+sp.cLine+sp.cBlock == 0 {
				sp.cEnd = 0.5
			}
			sp.cEmpty = r.Intn(2) == 0
			if layout >= 0 { // dense: a comment on (nearly) every line
				sp.cEnd = []float64{0.8, 1}[r.Intn(2)]
				sp.cEmpty = true
			}
		}
		if on("multiline", 0.45) {
			sp.multi = []float64{0.5, 1}[r.Intn(2)]
			sp.brk = []float64{0, 0.3, 0.8}[r.Intn(3)]
		}
		if on("quoted", 0.35) {
			sp.quoted = []float64{0.5, 1}[r.Intn(2)]
		}
		if on("trailing-comma", 0.3) {
			sp.trailing = []float64{0.5, 1}[r.Intn(2)]
		}
		if on("spaces", 0.35) {
			sp.spaces = []float64{0.3, 0.7}[r.Intn(2)]
		}
		if on("rule-order", 0.4) {
			sp.shuffle = true
		}
		if on("notes", 0.35) {
			sp.notes = []string{"drop", "change", "add"}[r.Intn(3)]
		}
	}
	return sp
}

func (sp *spell) has(name string) bool {
	for _, a := range sp.applied {
		if a == name {
			return true
		}
	}
	return false
}

func (sp *spell) chance(p float64) bool { return p > 0 && sp.r.Float64() < p }

func (sp *spell) eol() string { return sp.eols[sp.r.Intn(len(sp.eols))] }

func (sp *spell) ind(depth int) string {
	switch sp.indent {
	case "none":
		return ""
	case "tabs":
		return strings.Repeat("\t", depth)
	case "spaces4":
		return strings.Repeat("    ", depth)
	case "mixed":
		var sb strings.Builder
		for i := sp.r.Intn(2*depth + 3); i > 0; i-- {
			sb.WriteByte(" \t"[sp.r.Intn(2)])
		}
		return sb.String()
	}
	return strings.Repeat("  ", depth)
}

// sps returns optional extra spaces.
func (sp *spell) sps() string {
	if sp.chance(sp.spaces) {
		return strings.Repeat(" ", 1+sp.r.Intn(3))
	}
	return ""
}

var commentTexts = []string{" comment", "x", " {min: 1}", " // {min: 1}", " \"a\": 1,", " ]", " }", " /* x */", " # # #", "\t tab", " é😀", " [", " @t | @u", "-", " ", "xy", " a longer user comment, with \"quotes\", {braces} and // slashes"}

// endComment: `# …` up to the end of the line ("" = none). The text never contains a line break.
func (sp *spell) endComment() string {
	if !sp.chance(sp.cEnd) {
		return ""
	}
	return []string{"", " ", "  ", "\t"}[sp.r.Intn(4)] + sp.hash()
}

func (sp *spell) sps1() string {
	if sp.spaces == 0 {
		return " "
	}
	return []string{"", " ", "  ", "\t"}[sp.r.Intn(4)]
}

func (sp *spell) hash() string {
	if sp.cEmpty && sp.r.Intn(3) == 0 {
		return "#"
	}
	t := commentTexts[sp.r.Intn(len(commentTexts))]
	return "#" + t
}

// between returns full-line comments / blocks to be put before the next line (each entry is one "line").
func (sp *spell) between(depth int) []string {
	var out []string
	if sp.chance(sp.cLine) {
		for i := 1 + sp.r.Intn(2); i > 0; i-- {
			out = append(out, sp.ind(depth)+sp.hash())
		}
	}
	if sp.chance(sp.cBlock) {
		body := []string{" block ", " {\"a\": 1} // {min: 1} ", " line 1" + sp.eol() + "line 2 # not a comment start" + sp.eol(), sp.eol() + "  \"k\": [" + sp.eol(), " ## "}[sp.r.Intn(5)]
		out = append(out, sp.ind(depth)+"###"+body+"###"+sp.trail())
	}
	if sp.chance(sp.cLine / 2) {
		out = append(out, sp.ind(depth)+sp.hash())
	}
	return out
}

// trail: what may follow a closed ### block on the same line.
func (sp *spell) trail() string {
	switch sp.r.Intn(4) {
	case 0:
		return " "
	case 1:
		return " " + sp.hash()
	}
	return ""
}

func (sp *spell) name(n string) string {
	if sp.chance(sp.quoted) {
		return `"` + n + `"`
	}
	return n
}

// lineBreak returns "" or a line break + indentation, only inside multi-line annotations.
func (sp *spell) lineBreak(multi bool, depth int) string {
	if multi && sp.chance(sp.brk) {
		return sp.eol() + sp.ind(depth+1+sp.r.Intn(2))
	}
	return ""
}

func (sp *spell) ruleSet(rules []rule, multi bool, depth int) string {
	rs := rules
	if sp.shuffle && len(rs) > 1 {
		rs = append([]rule(nil), rules...)
		sp.r.Shuffle(len(rs), func(i, j int) { rs[i], rs[j] = rs[j], rs[i] })
	}
	var sb strings.Builder
	sb.WriteByte('{')
	sb.WriteString(sp.sps())
	sb.WriteString(sp.lineBreak(multi, depth))
	for i, ru := range rs {
		if i > 0 {
			sb.WriteString(sp.sps() + ",")
			if lb := sp.lineBreak(multi, depth); lb != "" {
				sb.WriteString(lb)
			} else if s := sp.sps(); s != "" {
				sb.WriteString(s)
			} else {
				sb.WriteByte(' ')
			}
		}
		sb.WriteString(sp.name(ru.name) + sp.sps() + ":")
		if lb := sp.lineBreak(multi, depth); lb != "" && sp.r.Intn(3) == 0 && breakAfterColon {
			sb.WriteString(lb)
		} else if s := sp.sps(); s != "" {
			sb.WriteString(s)
		} else {
			sb.WriteByte(' ')
		}
		sb.WriteString(sp.value(ru.v, multi, depth))
	}
	if len(rs) > 0 && sp.chance(sp.trailing) {
		sb.WriteString(sp.sps() + ",")
	}
	sb.WriteString(sp.sps())
	sb.WriteString(sp.lineBreak(multi, depth))
	sb.WriteByte('}')
	return sb.String()
}

func (sp *spell) value(v rval, multi bool, depth int) string {
	switch v.kind {
	case 'l':
		return v.lit
	case 'o':
		return sp.ruleSet(v.obj, multi, depth+1)
	}
	var sb strings.Builder
	sb.WriteByte('[')
	sb.WriteString(sp.lineBreak(multi, depth+1))
	for i, it := range v.arr {
		if i > 0 {
			sb.WriteString(sp.sps() + ",")
			if lb := sp.lineBreak(multi, depth+1); lb != "" {
				sb.WriteString(lb)
			} else {
				sb.WriteString(" " + sp.sps())
			}
		}
		sb.WriteString(sp.value(it, multi, depth+1))
	}
	sb.WriteString(sp.lineBreak(multi, depth+1))
	sb.WriteByte(']')
	return sb.String()
}

// breakAfterColon: a line break between `name:` and the value inside a multi-line annotation (was refused with
// "Loader error" 801 until the fix in embedded_loader_for_rule.go; a normal rewrite now).
var breakAfterColon = true

var changedNotes = []string{"another note", "x", "changed - text", "заметка", "42", "a {b} c"}

// annotation returns the text that follows the node on its line ("" = nothing), without leading blank.
func (sp *spell) annotation(n *node, depth int) string {
	note := n.note
	switch sp.notes {
	case "drop":
		note = ""
	case "change":
		if note != "" {
			note = changedNotes[sp.r.Intn(len(changedNotes))]
		}
	case "add":
		// (a one-line subtree with several nodes must stay without annotation: error 304 / 804 otherwise)
		if note == "" && !n.compact && sp.r.Intn(2) == 0 {
			note = changedNotes[sp.r.Intn(len(changedNotes))]
		}
	}
	if len(n.rules) == 0 && note == "" {
		return ""
	}
	multi := sp.chance(sp.multi)
	sp.lastNote = note != ""
	sp.lastAnn = "inline"
	if multi {
		sp.lastAnn = "multi"
	}
	var body string
	if len(n.rules) > 0 {
		rules := n.rules
		if ord, ok := sp.perm[n]; ok && len(ord) == len(rules) {
			rules = make([]rule, len(ord))
			for i, j := range ord {
				rules[i] = n.rules[j]
			}
		}
		body = sp.ruleSet(rules, multi, depth)
		body = body[:len(body)-1] + sp.slot(slotInfo{kind: "annotation:in-rules", tokBefore: true}, depth) + "}"
		if note != "" {
			body += sp.sps1() + "-" + sp.sps1() + note
		}
	} else {
		body = note
	}
	if multi {
		if note != "" && sp.notes == "change" && sp.chance(sp.brk) { // a multi-line note
			body += sp.eol() + sp.ind(depth+1) + "more"
		}
		open, cl := "/*"+sp.sps1(), sp.sps1()+"*/"
		if sp.chance(sp.brk / 2) {
			open = "/*" + sp.eol() + sp.ind(depth+1)
		}
		if sp.chance(sp.brk / 2) {
			cl = sp.eol() + sp.ind(depth) + "*/"
		}
		return open + sp.slot(slotInfo{kind: "annotation:opener|body", tokBefore: true}, depth) + body + sp.slot(slotInfo{kind: "annotation:body|closer", tokBefore: true}, depth) + cl
	}
	return "//" + sp.slot(slotInfo{kind: "annotation:opener|body", tokBefore: true}, depth) + sp.sps1() + body
}

// printer collects the lines of one schema text.
type printer struct {
	sp          *spell
	lines       []string
	lastComment string
	inlineAnn   bool // the line being emitted carries an inline annotation
	pending     string
	pendingAt   int
}

// compactText prints a rule-free subtree on one line (the same in every spelling apart from inserted user comments:
// S returns what is inserted at a slot between two tokens, "" without an inserter).
func compactText(n *node, S func(kind string) string) string {
	switch n.kind {
	case "arr":
		if len(n.kids) == 0 {
			return "[" + S("compact:empty") + "]"
		}
		var sb strings.Builder
		sb.WriteString("[" + S("compact:open|value"))
		for i, k := range n.kids {
			if i > 0 {
				sb.WriteString(S("compact:value|comma") + "," + S("compact:comma|value") + " ")
			}
			sb.WriteString(compactText(k, S))
		}
		sb.WriteString(S("compact:value|close") + "]")
		return sb.String()
	case "obj":
		if len(n.kids) == 0 {
			return "{" + S("compact:empty") + "}"
		}
		var sb strings.Builder
		sb.WriteString("{" + S("compact:open|key"))
		for i, k := range n.kids {
			if i > 0 {
				sb.WriteString(S("compact:value|comma") + "," + S("compact:comma|key") + " ")
			}
			sb.WriteString(n.keys[i] + S("compact:key|colon") + ":" + S("compact:colon|value") + " " + compactText(k, S))
		}
		sb.WriteString(S("compact:value|close") + "}")
		return sb.String()
	}
	return n.lit
}

// emit appends one line of the schema. annAfter: the content carries an annotation (what is put in front of the
// content must not end the line then, unless nothing of the node stands before it).
func (p *printer) emit(depth int, content string, annAfter bool) {
	sp := p.sp
	p.lines = append(p.lines, sp.between(depth)...)
	line := sp.ind(depth)
	if sp.chance(sp.cBlock / 2) { // a closed one-line block in front of the content of the line
		line += "###" + []string{" c ", "x", " \"a\": 1, ", " // {min: 1} ", " [ "}[sp.r.Intn(5)] + "###" + []string{"", " ", "\t"}[sp.r.Intn(3)]
	}
	line += p.slot(slotInfo{kind: "line-start", annAfter: annAfter}, depth)
	line += content
	lineOpen := sp.ins != nil && sp.ins.lineOpen
	if lineOpen {
		sp.ins.lineOpen = false
	}
	if !p.inlineAnn && !sp.tailClean && sp.chance(sp.cBlock/2) {
		// a block behind the content (not behind an inline annotation: the rest of that line belongs to it); it may
		// span lines, the line break that follows it is the one that ends the line for the annotation binding
		behind := []string{"", " ", "  "}[sp.r.Intn(3)] + "###" + []string{" 333 ", " 333" + sp.eol() + "   444" + sp.eol(), " some comment 1 ", sp.eol() + "\"z\": 0," + sp.eol()}[sp.r.Intn(4)] + "###"
		if !lineOpen { // (drawn in any case: the spelling does not depend on what the inserter wrote)
			line += behind
		}
	}
	p.inlineAnn = false
	p.lines = append(p.lines, line)
	p.lastComment = sp.endComment()
	if !sp.tailClean {
		p.lines[len(p.lines)-1] += p.lastComment
	} else if len(p.lines) > 1 && p.pending != "" {
		// tailClean: the comment of a line is attached once a later line exists, so the last line stays bare
		p.lines[p.pendingAt] += p.pending
	}
	p.pending, p.pendingAt = p.lastComment, len(p.lines)-1
}

// node prints n; key = the key text with its quotes or "" (array item / root), comma = "," or "".
//
// Every place between two tokens of the printed text is a SLOT (p.slot): with an inserter attached to the spelling
// (c13-metamorphic only) user comments are inserted there, see slots.go. Without one the text is what it always was
// (the order of the random draws included: GenSchemaText and its consumers are not affected).
func (p *printer) node(n *node, depth int, key, comma string) {
	sp := p.sp
	ksp, vsp := "", ""
	if key != "" && sp.spaces > 0 { // `"key" : value`
		ksp = sp.sps()
		vsp = sp.sps()
	}
	bc := comma
	if comma != "" {
		bc = sp.sps() + comma
	}
	a := sp.annotation(n, depth)
	lead, annForm := "", ""
	if a != "" {
		p.inlineAnn = strings.HasPrefix(a, "//")
		lead = " " + sp.sps()
		switch {
		case !p.inlineAnn:
			annForm = "multi"
		case sp.lastNote:
			annForm = "inline-note"
		default:
			annForm = "inline"
		}
	}
	// S: a slot of this node's first line; tokBefore: a token of the node stands before it on the line.
	S := func(kind string, tokBefore, eolNext bool) string {
		return p.slot(slotInfo{kind: kind, annAfter: a != "" && kind != "after-ann", tokBefore: tokBefore, eolNext: eolNext, annForm: annForm}, depth)
	}
	mid := func(kind string) string { return S(kind, true, false) }
	prefix := ""
	if key != "" {
		prefix = key + ksp + mid("key|colon") + ":" + mid("colon|value") + " " + vsp
	}
	// tail: what follows a complete value on its line
	tail := func() string {
		switch {
		case comma != "" && a != "":
			return mid("value|comma") + bc + mid("comma|annotation") + lead + a + S("after-ann", true, true)
		case comma != "":
			return mid("value|comma") + bc + S("line-end", true, true)
		case a != "":
			return mid("value|annotation") + lead + a + S("after-ann", true, true)
		}
		return S("line-end", true, true)
	}
	// open: what follows an opening bracket
	open := func() string {
		if a != "" {
			return mid("open|annotation") + lead + a + S("after-ann", true, true)
		}
		return S("open|line-end", true, true)
	}
	closing := func(br string) {
		q := func(kind string, eolNext bool) string {
			return p.slot(slotInfo{kind: kind, tokBefore: true, eolNext: eolNext}, depth)
		}
		if comma != "" {
			p.emit(depth, br+q("close|comma", false)+bc+q("line-end", true), false)
		} else {
			p.emit(depth, br+q("line-end", true), false)
		}
	}
	switch {
	case n.compact:
		p.emit(depth, prefix+compactText(n, mid)+tail(), a != "")
	case n.kind == "obj" && len(n.kids) == 0:
		p.emit(depth, prefix+"{"+mid("empty-brackets")+"}"+tail(), a != "")
	case n.kind == "arr" && len(n.kids) == 0:
		p.emit(depth, prefix+"["+mid("empty-brackets")+"]"+tail(), a != "")
	case n.kind == "obj":
		p.emit(depth, prefix+"{"+open(), a != "")
		for i, k := range n.kids {
			c := ","
			if i == len(n.kids)-1 {
				c = ""
			}
			p.node(k, depth+1, n.keys[i], c)
		}
		closing("}")
	case n.kind == "arr":
		p.emit(depth, prefix+"["+open(), a != "")
		for i, k := range n.kids {
			c := ","
			if i == len(n.kids)-1 {
				c = ""
			}
			p.node(k, depth+1, "", c)
		}
		closing("]")
	case n.kind == "ref" && strings.Contains(n.lit, " | "):
		parts := strings.SplitN(n.lit, " | ", 2)
		p.emit(depth, prefix+parts[0]+mid("shortcut:name|pipe")+" | "+mid("shortcut:pipe|name")+parts[1]+tail(), a != "")
	default:
		p.emit(depth, prefix+n.lit+tail(), a != "")
	}
}

func (sp *spell) print(root *node) string {
	p := &printer{sp: sp}
	p.node(root, 0, "", "")
	if !sp.tailClean {
		p.lines = append(p.lines, sp.between(0)...)
	}
	var sb strings.Builder
	for i, l := range p.lines {
		if i > 0 {
			sb.WriteString(sp.eol())
		}
		sb.WriteString(l)
	}
	if !sp.base && !sp.tailClean && sp.r.Intn(3) == 0 {
		sb.WriteString(sp.eol())
	}
	return sb.String()
}

// ---------------------------------------------------------------------------------------------------------
// Documents

type dval struct {
	kind byte // o a s n l
	s    string
	num  string
	lit  string
	keys []string
	kids []*dval
}

func dnull() *dval { return &dval{kind: 'l', lit: "null"} }

func litToDoc(text string) *dval {
	switch {
	case text == "true" || text == "false" || text == "null":
		return &dval{kind: 'l', lit: text}
	case text[0] == '"':
		return &dval{kind: 's', s: unq(text)}
	}
	return &dval{kind: 'n', num: text}
}

type typeTable map[string]*node

func (g *gen) sample(n *node, types typeTable, fuel int) *dval {
	r := g.r
	if g.probeAt == n && g.probeVal != nil { // ruleorder.go: a chosen value at the position of one schema node
		g.probeHit = true
		return g.probeVal
	}
	if n.nullable && r.Intn(5) == 0 {
		return dnull()
	}
	if len(n.enum) > 0 {
		return litToDoc(n.enum[r.Intn(len(n.enum))])
	}
	if len(n.orAlts) > 0 {
		switch a := n.orAlts[r.Intn(len(n.orAlts))]; a {
		case "integer":
			if n.kind == "int" {
				return &dval{kind: 'n', num: n.lit}
			}
			return &dval{kind: 'n', num: fmt.Sprint(r.Intn(9))}
		case "string":
			if n.kind == "str" && r.Intn(2) == 0 {
				return &dval{kind: 's', s: n.val.(string)}
			}
			return &dval{kind: 's', s: []string{"zz", "a/b", "é", "q"}[r.Intn(4)]}
		case "boolean":
			return &dval{kind: 'l', lit: "true"}
		case "null":
			return dnull()
		case "float", "decimal":
			return &dval{kind: 'n', num: []string{"2.5", "0.75", "1.0"}[r.Intn(3)]}
		case "email":
			return &dval{kind: 's', s: "a@b.cc"}
		case "array":
			d := &dval{kind: 'a'}
			if r.Intn(2) == 0 {
				d.kids = append(d.kids, &dval{kind: 's', s: "é/"})
			}
			return d
		case "object":
			d := &dval{kind: 'o'}
			if r.Intn(2) == 0 {
				d.keys, d.kids = []string{"k/é"}, []*dval{{kind: 'n', num: "1"}}
			}
			return d
		case "enum":
			if len(n.orEnum) > 0 {
				return litToDoc(n.orEnum[r.Intn(len(n.orEnum))])
			}
			return dnull()
		default:
			if t, ok := types[a[1:]]; ok && fuel > 0 {
				return g.sample(t, types, fuel-1)
			}
			return dnull()
		}
	}
	switch n.kind {
	case "ref":
		if t, ok := types[n.refs[r.Intn(len(n.refs))]]; ok && fuel > 0 {
			return g.sample(t, types, fuel-1)
		}
		return dnull()
	case "obj":
		d := &dval{kind: 'o'}
		for i, k := range n.kids {
			if k.optional && r.Intn(2) == 0 {
				continue
			}
			key := n.dkeys[i]
			if kt := n.shortAt(i); kt != nil {
				// a key shortcut: a key drawn to match its type (keys.go); 1 time in 12 a second member for the same shortcut
				// (one-slot semantics: such a document is ambiguous, observed but not demanded)
				var ok bool
				if key, ok = g.drawKey(n, kt, d.keys); !ok {
					continue
				}
				g.docStats = append(g.docStats, "doc_key_drawn_for_shortcut_"+kt.tpl.fam)
				if r.Intn(12) == 0 {
					if k2, ok := g.drawKey(n, kt, append(append([]string{}, d.keys...), key)); ok {
						d.keys = append(d.keys, k2)
						d.kids = append(d.kids, g.sample(k, types, fuel))
					}
				}
			}
			d.keys = append(d.keys, key)
			d.kids = append(d.kids, g.sample(k, types, fuel))
		}
		if g.wide && n.addProps != "" {
			// 0-4 additional members of mixed conformity under EVERY mode of the rule (also `false`: the verdict must
			// not depend on where the refused member stands)
			cnt := []int{0, 1, 2, 2, 3, 3, 4}[r.Intn(7)]
			perm := r.Perm(len(extraKeys))
			for i := 0; i < cnt; i++ {
				if len(n.short) > 0 && hasKey(d.keys, extraKeys[perm[i]]) {
					continue
				}
				d.keys = append(d.keys, extraKeys[perm[i]])
				d.kids = append(d.kids, g.apValue(n.addProps, types, fuel))
			}
			g.docStats = append(g.docStats, fmt.Sprintf("doc_additional_members_%d", cnt), "doc_additional_mode_"+strings.Trim(n.addProps, `"`))
			// the members the schema names and the additional ones are interleaved already in the base spelling
			if r.Intn(2) == 0 {
				r.Shuffle(len(d.keys), func(i, j int) {
					d.keys[i], d.keys[j] = d.keys[j], d.keys[i]
					d.kids[i], d.kids[j] = d.kids[j], d.kids[i]
				})
			}
			return d
		}
		if n.addProps != "" && n.addProps != "false" && r.Intn(2) == 0 {
			var v *dval
			switch n.addProps {
			case `"string"`:
				v = &dval{kind: 's', s: "extra/é"}
			case `"integer"`:
				v = &dval{kind: 'n', num: "7"}
			case `"@t"`:
				if t, ok := types["t"]; ok && fuel > 0 {
					v = g.sample(t, types, fuel-1)
				}
			}
			if v == nil {
				v = &dval{kind: 'n', num: "1.50"}
			}
			d.keys = append(d.keys, []string{"zz", "extra", "ü"}[r.Intn(3)])
			d.kids = append(d.kids, v)
		}
		return d
	case "arr":
		d := &dval{kind: 'a'}
		if len(n.kids) == 0 {
			return d
		}
		cnt := len(n.kids)
		if r.Intn(3) == 0 {
			cnt = r.Intn(len(n.kids) + 2)
		}
		for i := 0; i < cnt; i++ {
			d.kids = append(d.kids, g.sample(n.kids[i%len(n.kids)], types, fuel))
		}
		return d
	case "str":
		return &dval{kind: 's', s: n.val.(string)}
	case "int", "flt":
		return &dval{kind: 'n', num: n.lit}
	}
	return &dval{kind: 'l', lit: n.lit}
}

func hasKey(keys []string, k string) bool {
	for _, x := range keys {
		if x == k {
			return true
		}
	}
	return false
}

// extraKeys: keys of additional members (none of them is in keyPool); every escapable character occurs.
var extraKeys = []string{"zz", "extra", "ü", "p/q", "n\nl", "😀😀", `w\v`, `d"q`, "tab\t", "", "Z"}

// apValue returns the value of one additional member of an object whose additionalProperties rule is `mode`: in
// half of the cases a value meant to conform to the mode, otherwise any value (which conforms for some modes and
// violates others). Conformity is not computed: the oracle is the relation between spellings only.
func (g *gen) apValue(mode string, types typeTable, fuel int) *dval {
	r := g.r
	str := func(xs ...string) *dval { return &dval{kind: 's', s: xs[r.Intn(len(xs))]} }
	num := func(xs ...string) *dval { return &dval{kind: 'n', num: xs[r.Intn(len(xs))]} }
	object := func() *dval {
		d := &dval{kind: 'o'}
		perm := r.Perm(g.nKeys())
		for i := r.Intn(3); i > 0; i-- {
			d.keys = append(d.keys, keyPool[perm[i]].decoded)
			d.kids = append(d.kids, g.randDoc(0))
		}
		return d
	}
	array := func() *dval {
		d := &dval{kind: 'a'}
		for i := r.Intn(3); i > 0; i-- {
			d.kids = append(d.kids, g.randDoc(1))
		}
		return d
	}
	if r.Intn(2) == 0 {
		switch m := unq(mode); m {
		case "string":
			return str("extra/é", "l\nf", `q"t`, "")
		case "integer":
			return num("7", "-3", "0")
		case "float", "decimal":
			return num("1.5", "2.50", "-0.25")
		case "boolean":
			return &dval{kind: 'l', lit: []string{"true", "false"}[r.Intn(2)]}
		case "null":
			return dnull()
		case "object":
			return object()
		case "array":
			return array()
		case "email":
			return str("a@b.cc")
		case "uri":
			return str("http://x.org/a")
		case "uuid":
			return str("550e8400-e29b-41d4-a716-446655440000")
		case "date":
			return str("2020-01-02")
		case "datetime":
			return str("2020-01-02T03:04:05+00:00")
		default:
			if len(m) > 1 && m[0] == '@' {
				if t, ok := types[m[1:]]; ok && fuel > 0 {
					v := g.sample(t, types, fuel-1)
					if r.Intn(3) == 0 { // nearly conforming
						v = g.mutate(v)
					}
					return v
				}
			}
		}
	}
	switch r.Intn(9) {
	case 0:
		return str("s", "a/b", "é\t")
	case 1:
		return num("1", "42")
	case 2:
		return num("1.5")
	case 3:
		return &dval{kind: 'l', lit: []string{"true", "false"}[r.Intn(2)]}
	case 4:
		return dnull()
	case 5:
		return &dval{kind: 'o'}
	case 6:
		return object()
	case 7:
		return &dval{kind: 'a'}
	}
	return array()
}

func (g *gen) randDoc(depth int) *dval {
	r := g.r
	k := r.Intn(8)
	if depth <= 0 && k >= 6 {
		k = r.Intn(6)
	}
	switch k {
	case 0:
		return &dval{kind: 'n', num: fmt.Sprint(r.Intn(30) - 5)}
	case 1:
		return &dval{kind: 'n', num: []string{"1.0", "2.50", "0.5", "-3.25"}[r.Intn(4)]}
	case 2, 3:
		return &dval{kind: 's', s: g.strs()[r.Intn(len(g.strs()))].decoded}
	case 4:
		return &dval{kind: 'l', lit: []string{"true", "false"}[r.Intn(2)]}
	case 5:
		return dnull()
	case 6:
		d := &dval{kind: 'a'}
		for i := r.Intn(4); i > 0; i-- {
			d.kids = append(d.kids, g.randDoc(depth-1))
		}
		return d
	}
	d := &dval{kind: 'o'}
	perm := r.Perm(g.nKeys())
	for i := r.Intn(4); i > 0; i-- {
		d.keys = append(d.keys, keyPool[perm[i]].decoded)
		d.kids = append(d.kids, g.randDoc(depth-1))
	}
	return d
}

func (g *gen) mutate(d *dval) *dval {
	r := g.r
	if len(d.kids) > 0 && r.Intn(3) != 0 {
		i := r.Intn(len(d.kids))
		nd := *d
		nd.kids = append([]*dval(nil), d.kids...)
		nd.kids[i] = g.mutate(d.kids[i])
		return &nd
	}
	switch d.kind {
	case 'o':
		nd := *d
		nd.keys = append([]string(nil), d.keys...)
		nd.kids = append([]*dval(nil), d.kids...)
		if len(nd.keys) > 0 && r.Intn(2) == 0 {
			i := r.Intn(len(nd.keys))
			nd.keys = append(nd.keys[:i], nd.keys[i+1:]...)
			nd.kids = append(nd.kids[:i], nd.kids[i+1:]...)
		} else {
			k := []string{"new", "kA", "é", "k/1"}[r.Intn(4)]
			for _, x := range nd.keys {
				if x == k {
					return &nd
				}
			}
			nd.keys = append(nd.keys, k)
			nd.kids = append(nd.kids, g.randDoc(0))
		}
		return &nd
	case 'a':
		nd := *d
		nd.kids = append([]*dval(nil), d.kids...)
		if len(nd.kids) > 0 && r.Intn(2) == 0 {
			nd.kids = nd.kids[:len(nd.kids)-1]
		} else {
			nd.kids = append(nd.kids, g.randDoc(1))
		}
		return &nd
	case 's':
		switch r.Intn(4) {
		case 0:
			return &dval{kind: 's', s: d.s + "é"}
		case 1:
			return &dval{kind: 's', s: d.s + "x"}
		case 2:
			if len(d.s) > 0 {
				_, sz := utf8.DecodeRuneInString(d.s)
				return &dval{kind: 's', s: d.s[sz:]}
			}
		}
		return g.randDoc(0)
	case 'n':
		switch r.Intn(4) {
		case 0:
			if !strings.Contains(d.num, ".") {
				var v int
				fmt.Sscan(d.num, &v)
				return &dval{kind: 'n', num: fmt.Sprint(v + []int{-3, -1, 1, 3}[r.Intn(4)])}
			}
		case 1:
			if strings.Contains(d.num, ".") {
				return &dval{kind: 'n', num: d.num + "5"}
			}
			return &dval{kind: 'n', num: d.num + ".0"}
		case 2:
			return &dval{kind: 'n', num: "1.0"}
		}
		return g.randDoc(0)
	}
	return g.randDoc(0)
}

// docSpell: how a document value is written.
type docSpell struct {
	r       *rand.Rand
	base    bool
	ws      float64 // whitespace between tokens
	permute bool
	escapes float64 // probability per rune of an alternative escape form
	zeros   bool    // append zeros to an existing fraction
	applied []string
	// style: "" = every rune draws its own form (probability `escapes`); otherwise ONE escape form for the whole
	// document: "short" (the two-character escape of every character that has one, \/ included), "u-lower" / "u-upper"
	// (\uXXXX for every character, surrogate pairs above U+FFFF), "u-mixed" (hex digits in alternating case),
	// "u-must" (\uXXXX only for the characters that cannot stand for themselves)
	style string
	// order: member order of single objects (the others keep the base order)
	order map[*dval][]int
}

var escapeStyles = []string{"short", "u-lower", "u-upper", "u-mixed", "u-must"}

func u4mixed(x uint16) string {
	h := []byte(fmt.Sprintf("%04x", x))
	for i := range h {
		if i%2 == 0 && h[i] >= 'a' {
			h[i] -= 'a' - 'A'
		}
	}
	return `\u` + string(h)
}

// styled writes rune c in the document-wide escape form ds.style.
func (ds *docSpell) styled(sb *strings.Builder, c rune) {
	must := c == '"' || c == '\\' || c < 0x20
	u := func(x uint16) string {
		switch ds.style {
		case "u-upper":
			return u4(x, true)
		case "u-mixed":
			return u4mixed(x)
		}
		return u4(x, false)
	}
	switch {
	case ds.style == "short":
		if e, ok := shortEsc[c]; ok {
			sb.WriteString(e)
		} else if c == '/' {
			sb.WriteString(`\/`)
		} else if must {
			sb.WriteString(u4(uint16(c), false))
		} else {
			sb.WriteRune(c)
		}
	case ds.style == "u-must" && !must:
		sb.WriteRune(c)
	case c >= 0x10000:
		hi, lo := utf16.EncodeRune(c)
		sb.WriteString(u(uint16(hi)) + u(uint16(lo)))
	default:
		sb.WriteString(u(uint16(c)))
	}
}

// zerosOK = false: the schema set uses an `enum` rule. Enum items compare numbers as text (known finding
// K-C10-enumtext, recorded under C10), so the fraction-zeros rewrite is only applied to documents that are
// not validated against an enum; `const` compares by value and stays covered.
func variantDocSpell(r *rand.Rand, zerosOK bool) *docSpell {
	ds := &docSpell{r: r}
	for len(ds.applied) == 0 {
		if r.Intn(2) == 0 {
			ds.ws = []float64{0.3, 0.8}[r.Intn(2)]
			ds.applied = append(ds.applied, "whitespace")
		}
		if r.Intn(2) == 0 {
			ds.permute = true
			ds.applied = append(ds.applied, "member-order")
		}
		if r.Intn(2) == 0 {
			ds.escapes = []float64{0.3, 1}[r.Intn(2)]
			ds.applied = append(ds.applied, "escapes")
			if r.Intn(3) == 0 {
				ds.style = escapeStyles[r.Intn(len(escapeStyles))]
				ds.applied[len(ds.applied)-1] = "escapes:" + ds.style
			}
		}
		if r.Intn(4) == 0 && zerosOK {
			ds.zeros = true
			ds.applied = append(ds.applied, "fraction-zeros")
		}
	}
	return ds
}

func (ds *docSpell) w() string {
	if ds.base || ds.r.Float64() >= ds.ws {
		return ""
	}
	var sb strings.Builder
	for i := 1 + ds.r.Intn(3); i > 0; i-- {
		sb.WriteString([]string{" ", "\t", "\n", "\r\n", "\r", "  "}[ds.r.Intn(6)])
	}
	return sb.String()
}

var shortEsc = map[rune]string{'"': `\"`, '\\': `\\`, '\b': `\b`, '\f': `\f`, '\n': `\n`, '\r': `\r`, '\t': `\t`}

func u4(x uint16, upper bool) string {
	if upper {
		return fmt.Sprintf(`\u%04X`, x)
	}
	return fmt.Sprintf(`\u%04x`, x)
}

func (ds *docSpell) str(s string) string {
	var sb strings.Builder
	sb.WriteByte('"')
	for _, c := range s {
		if ds.style != "" {
			ds.styled(&sb, c)
			continue
		}
		must := c == '"' || c == '\\' || c < 0x20
		alt := !ds.base && ds.r.Float64() < ds.escapes
		switch {
		case must && (!alt || ds.r.Intn(2) == 0):
			if e, ok := shortEsc[c]; ok {
				sb.WriteString(e)
			} else {
				sb.WriteString(u4(uint16(c), false))
			}
		case must:
			sb.WriteString(u4(uint16(c), ds.r.Intn(2) == 0))
		case !alt:
			sb.WriteRune(c)
		case c == '/' && ds.r.Intn(2) == 0:
			sb.WriteString(`\/`)
		case c >= 0x10000:
			hi, lo := utf16.EncodeRune(c)
			up := ds.r.Intn(2) == 0
			sb.WriteString(u4(uint16(hi), up) + u4(uint16(lo), up))
		default:
			sb.WriteString(u4(uint16(c), ds.r.Intn(2) == 0))
		}
	}
	sb.WriteByte('"')
	return sb.String()
}

func (ds *docSpell) text(d *dval) string {
	switch d.kind {
	case 's':
		return ds.str(d.s)
	case 'n':
		if ds.zeros && strings.Contains(d.num, ".") {
			return d.num + strings.Repeat("0", 1+ds.r.Intn(2))
		}
		return d.num
	case 'l':
		return d.lit
	case 'a':
		var sb strings.Builder
		sb.WriteString("[" + ds.w())
		for i, k := range d.kids {
			if i > 0 {
				sb.WriteString("," + ds.w())
				if ds.base {
					sb.WriteByte(' ')
				}
			}
			sb.WriteString(ds.text(k) + ds.w())
		}
		sb.WriteString("]")
		return sb.String()
	}
	idx := make([]int, len(d.kids))
	for i := range idx {
		idx[i] = i
	}
	if o, ok := ds.order[d]; ok {
		idx = o
	} else if ds.permute {
		ds.r.Shuffle(len(idx), func(i, j int) { idx[i], idx[j] = idx[j], idx[i] })
	}
	var sb strings.Builder
	sb.WriteString("{" + ds.w())
	for n, i := range idx {
		if n > 0 {
			sb.WriteString("," + ds.w())
			if ds.base {
				sb.WriteByte(' ')
			}
		}
		sb.WriteString(ds.str(d.keys[i]) + ds.w() + ":" + ds.w())
		if ds.base {
			sb.WriteByte(' ')
		}
		sb.WriteString(ds.text(d.kids[i]) + ds.w())
	}
	sb.WriteString("}")
	return sb.String()
}

func docFeatures(d *dval) (strs, members, astral, needEsc, frac int) {
	switch d.kind {
	case 's':
		strs++
		for _, c := range d.s {
			if c >= 0x10000 {
				astral++
			}
			if c == '"' || c == '\\' || c < 0x20 || c == '/' || c > 0x7f {
				needEsc++
			}
		}
	case 'n':
		if strings.Contains(d.num, ".") {
			frac++
		}
	}
	if d.kind == 'o' && len(d.kids) > 1 {
		members += len(d.kids)
	}
	for i, k := range d.kids {
		if d.kind == 'o' {
			a, b, c, e, f := docFeatures(&dval{kind: 's', s: d.keys[i]})
			strs, members, astral, needEsc, frac = strs+a, members+b, astral+c, needEsc+e, frac+f
		}
		a, b, c, e, f := docFeatures(k)
		strs, members, astral, needEsc, frac = strs+a, members+b, astral+c, needEsc+e, frac+f
	}
	return
}

// ---------------------------------------------------------------------------------------------------------
// Observation

type texts struct {
	root  string
	types map[string]string // name without '@' -> text
	// named enum rules of the root schema (added with AddRule), in this order
	named      map[string]string
	namedOrder []string
}

var typeOrder = []string{"t", "u"}

func errCode(err error) string {
	var pe jlib.ParsingError
	if stderrors.As(err, &pe) {
		return fmt.Sprintf("ERR %d", pe.ErrCode())
	}
	var ve jlib.ValidationError
	if stderrors.As(err, &ve) {
		return fmt.Sprintf("ERR %d", ve.ErrCode())
	}
	return "ERR nocode"
}

func build(t texts) (*jschema.Schema, string) {
	s := jschema.New("root", t.root)
	for _, nm := range t.namedOrder {
		if err := s.AddRule(nm, jenum.New(nm, t.named[nm])); err != nil {
			return nil, "ADDRULE " + nm + " " + errCode(err)
		}
	}
	// AddType loads the root text first; load it explicitly so that an error of the root is not reported as an
	// error of the added type.
	if _, err := s.UsedUserTypes(); err != nil {
		return nil, errCode(err)
	}
	for _, nm := range allTypeOrder {
		if txt, ok := t.types[nm]; ok {
			if err := s.AddType("@"+nm, jschema.New("@"+nm, txt)); err != nil {
				return nil, "ADDTYPE @" + nm + " " + errCode(err)
			}
		}
	}
	return s, ""
}

func clearComments(n *jlib.ASTNode) {
	n.Comment = ""
	for i := range n.Children {
		clearComments(&n.Children[i])
	}
}

// astOf returns the AST as JSON. dropNotes: comment fields are blanked; sortRules: every JSON object is
// re-marshalled with sorted keys (struct fields have a fixed order anyway, so only rule order is affected).
func astOf(s *jschema.Schema, dropNotes, sortRules bool) string {
	ast, err := s.GetAST()
	if err != nil {
		return "AST-" + errCode(err)
	}
	if dropNotes {
		clearComments(&ast)
	}
	b, err := stdjson.Marshal(ast)
	if err != nil {
		return "AST-MARSHAL " + err.Error()
	}
	if sortRules {
		var x interface{}
		if err := stdjson.Unmarshal(b, &x); err != nil {
			return "AST-UNMARSHAL " + err.Error()
		}
		b, _ = stdjson.Marshal(x)
	}
	return string(b)
}

type obs struct {
	check string
	ast   []string // root, then types
	names []string // what ast[i] is the AST of: "root", "@t" …
	val   []string
}

func observe(t texts, docs []string, dropNotes, sortRules bool) obs {
	var o obs
	o.check = vh.Recover(func() string {
		s, e := build(t)
		if e != "" {
			return e
		}
		if err := s.Check(); err != nil {
			return errCode(err)
		}
		return "OK"
	})
	o.ast = append(o.ast, vh.Recover(func() string {
		s, e := build(t)
		if e != "" {
			return e
		}
		return astOf(s, dropNotes, sortRules)
	}))
	o.names = append(o.names, "root")
	for _, nm := range allTypeOrder {
		if txt, ok := t.types[nm]; ok {
			o.ast = append(o.ast, vh.Recover(func() string { return astOf(jschema.New("@"+nm, txt), dropNotes, sortRules) }))
			o.names = append(o.names, "@"+nm)
		}
	}
	for _, d := range docs {
		o.val = append(o.val, validate(t, d))
	}
	return o
}

// validate: fresh schema object per call. ACC | REJ <code> | PANIC …
func validate(t texts, doc string) string {
	return vh.Recover(func() string {
		s, e := build(t)
		if e != "" {
			return e
		}
		if err := s.Validate(jdoc.New("doc", doc)); err != nil {
			return "REJ"
		}
		return "ACC"
	})
}

// ---------------------------------------------------------------------------------------------------------
// One case = one abstract schema with its variants and documents

type caseResult struct {
	stats []string
	cases []struct {
		key string
		nt  bool
	}
	diffs   []vh.Diff
	timeout bool
}

func (c *caseResult) stat(s string) { c.stats = append(c.stats, s) }
func (c *caseResult) kase(key string, nt bool) {
	c.cases = append(c.cases, struct {
		key string
		nt  bool
	}{key, nt})
}

func showTexts(label string, t texts) string {
	var sb strings.Builder
	fmt.Fprintf(&sb, "%s schema = %q", label, t.root)
	for _, nm := range t.namedOrder {
		fmt.Fprintf(&sb, "\n%s AddRule %s = enum %q", label, nm, t.named[nm])
	}
	for _, nm := range allTypeOrder {
		if txt, ok := t.types[nm]; ok {
			fmt.Fprintf(&sb, "\n%s AddType @%s = %q", label, nm, txt)
		}
	}
	return sb.String()
}

func countAnnotated(n *node) (ann, nodes int) {
	nodes = 1
	if len(n.rules) > 0 || n.note != "" {
		ann = 1
	}
	if n.compact {
		return
	}
	for _, k := range n.kids {
		a, b := countAnnotated(k)
		ann, nodes = ann+a, nodes+b
	}
	return
}

func sizeBucket(n int) string {
	switch {
	case n <= 1:
		return "1"
	case n <= 4:
		return "2-4"
	case n <= 10:
		return "5-10"
	case n <= 25:
		return "11-25"
	}
	return "26+"
}

// nSweep / nProbe: single comment insertions per schema (commentSweep); explore: the slot map instead of the checks.
func oneCase(seed int64, nVariants, nDocVariants, nSweep, nProbe int, explore bool) (res caseResult) {
	g := &gen{r: rand.New(rand.NewSource(seed)), features: map[string]bool{}, wide: true}
	r := g.r
	types := typeTable{}
	if r.Intn(5) < 2 { // 2 cases in 5 have key types @k1 …: objects everywhere may use them as key shortcuts
		g.drawKeyTypes()
	}
	useTypes := r.Intn(4) != 0
	if useTypes {
		for _, nm := range typeOrder {
			types[nm] = g.genNode(r.Intn(3), false, false)
			if r.Intn(3) == 0 { // an object-rooted type (required / optional keys) in a third of the cases
				for try := 0; try < 8 && (types[nm].compact || types[nm].kind != "obj" || len(types[nm].kids) < 1); try++ {
					types[nm] = g.genNode(1+r.Intn(2), false, false)
				}
			}
		}
	}
	g.refsOK = useTypes
	g.namedOK = true
	root := g.genNode(1+r.Intn(3), false, useTypes)
	if r.Intn(10) < 7 { // most roots are containers: the line / annotation binding only matters below the root
		for try := 0; try < 8 && (root.compact || (root.kind != "obj" && root.kind != "arr") || len(root.kids) < 2); try++ {
			g.named, g.namedOrder = nil, nil
			root = g.genNode(2+r.Intn(2), false, useTypes)
		}
	}
	if r.Intn(6) == 0 {
		g.plant(root)
	}
	ann, nodes := countAnnotated(root)
	res.stat("schema_nodes_" + sizeBucket(nodes))
	res.stat("schema_annotations_" + sizeBucket(ann))
	res.stat("root_" + root.kind)
	for f := range g.features {
		res.stat("schema_uses_" + f)
	}
	if g.defect != "" {
		res.stat("planted_" + g.defect)
	}

	printAll := func(sp *spell) texts {
		t := texts{root: sp.print(root), types: map[string]string{}, named: g.named, namedOrder: g.namedOrder}
		for _, nm := range typeOrder {
			if n, ok := types[nm]; ok {
				t.types[nm] = sp.print(n)
			}
		}
		for _, kt := range g.ktypes {
			t.types[kt.name] = sp.print(kt.n)
		}
		return t
	}
	// schema objects with key shortcuts (root and added types): what the classification of the documents needs
	var sos []shortObj
	collectShortObjs(root, &sos)
	for _, nm := range typeOrder {
		collectShortObjs(types[nm], &sos)
	}
	// only the key types that some object uses are added to the schema
	var usedKT []*keyType
	for _, kt := range g.ktypes {
		for _, so := range sos {
			for _, x := range so.kts {
				if x == kt && (len(usedKT) == 0 || usedKT[len(usedKT)-1] != kt) {
					usedKT = append(usedKT, kt)
				}
			}
		}
	}
	g.ktypes = usedKT
	base := printAll(baseSpell())
	for _, kt := range g.ktypes {
		res.stat("key_type_" + kt.tpl.fam)
	}
	for _, so := range sos {
		dis := "pairwise_disjoint"
		for _, a := range so.kts {
			for _, b := range so.kts {
				if a != b && !disjointMemo[[2]*keyTemplate{a.tpl, b.tpl}] {
					dis = "overlapping"
				}
			}
		}
		if len(so.kts) < 2 {
			dis = "single"
		}
		res.stat(fmt.Sprintf("schema_object_key_shortcuts_%d_%s", len(so.kts), dis))
	}

	// documents
	var dvals []*dval
	var dkind []string
	for j := 0; j < 6; j++ {
		switch {
		case j < 2:
			dvals = append(dvals, g.sample(root, types, 3))
			dkind = append(dkind, "sampled")
		case j == 4:
			// null or a value of another kind at the position of one rule-carrying node of the schema
			d, hit := g.probeDoc(root, types)
			dvals = append(dvals, d)
			dkind = append(dkind, map[bool]string{true: "probed", false: "mutated"}[hit])
		case j < 5:
			dvals = append(dvals, g.mutate(g.sample(root, types, 3)))
			dkind = append(dkind, "mutated")
		default:
			dvals = append(dvals, g.randDoc(2))
			dkind = append(dkind, "unrelated")
		}
	}
	bds := &docSpell{base: true, r: r}
	var docs []string
	for _, d := range dvals {
		docs = append(docs, bds.text(d))
	}

	raw := observe(base, docs, false, false)
	res.stat("base_check_" + raw.check)
	if g.defect == "" && raw.check != "OK" {
		res.stat("generator_unplanned_invalid")
		dbgMu.Lock()
		if dbgCount[raw.check] < 5 {
			dbgCount[raw.check]++
			dbgInvalid = append(dbgInvalid, raw.check+"  "+checkMsg(base)+" :: "+strings.ReplaceAll(showTexts("", base), "\n", " ;; "))
		}
		dbgMu.Unlock()
	}
	if g.defect != "" && raw.check == "OK" {
		res.stat("planted_but_accepted_" + g.defect)
	}
	for j, v := range raw.val {
		if raw.check == "OK" {
			res.stat("doc_" + dkind[j] + "_" + strings.SplitN(v, " ", 2)[0])
		}
	}
	baseCache := map[[2]bool]obs{{false, false}: raw}

	// ---- schema side
	for k := 0; k < nVariants; k++ {
		layout := -1
		if k == 0 { // the first variant of every schema: line-end style (by turns) x user comments, see variantSpellForced
			layout = int(seed % 7)
		}
		sp := variantSpellForced(rand.New(rand.NewSource(seed*31+int64(k)+1)), layout)
		if layout >= 0 {
			res.stat(fmt.Sprintf("layout_comments_x_eol_%q", strings.Join(sp.eols, "|")))
		}
		// the "comments" rewrite also puts comments BETWEEN the tokens of a line (every form that is a re-spelling at
		// the slot, several in a row); own PRNG per slot: the rest of the spelling is what it is without them
		between := sp.has("comments") && (layout >= 0 || k%2 == 1)
		respell := func(only map[int]bool) (*spell, texts) {
			sp := variantSpellForced(rand.New(rand.NewSource(seed*31+int64(k)+1)), layout)
			if between {
				sp.ins = &inserter{mode: 'r', seed: seed*37 + int64(k) + 3, p: []float64{0.08, 0.25, 0.6}[(seed>>2+int64(k))%3], used: map[string]int{}, only: only}
			}
			return sp, printAll(sp)
		}
		sp, vt := respell(nil)
		if sp.ins != nil {
			res.stat("rewrite_comments_between_tokens")
			for u, c := range sp.ins.used {
				for ; c > 0; c-- {
					res.stat("comment_random " + u)
				}
			}
		}
		dropNotes, sortRules := sp.has("notes"), sp.has("rule-order")
		key := [2]bool{dropNotes, sortRules}
		bo, ok := baseCache[key]
		if !ok {
			bo = observe(base, docs, dropNotes, sortRules)
			baseCache[key] = bo
		}
		vo := observe(vt, docs, dropNotes, sortRules)
		for _, a := range sp.applied {
			res.stat("rewrite_" + a)
		}
		res.stat(fmt.Sprintf("rewrites_composed_%d", len(sp.applied)))
		changed := vt.root != base.root
		res.kase("S\x00"+base.root+"\x00"+vt.root+"\x00"+base.types["t"]+"\x00"+vt.types["t"], changed && ann > 0)
		var bad []string
		var implS, modelS []string
		if bo.check != vo.check {
			bad = append(bad, "check")
			implS = append(implS, "Check(variant)="+vo.check)
			modelS = append(modelS, "Check(base)="+bo.check)
		}
		for i := range bo.ast {
			if bo.ast[i] != vo.ast[i] {
				which := bo.names[i]
				bad = append(bad, "ast")
				implS = append(implS, "AST("+which+",variant)="+vo.ast[i])
				modelS = append(modelS, "AST("+which+",base)="+bo.ast[i])
			}
		}
		for i := range bo.val {
			if bo.val[i] != vo.val[i] {
				bad = append(bad, "validate")
				implS = append(implS, fmt.Sprintf("Validate(variant, %s)=%s", docs[i], vo.val[i]))
				modelS = append(modelS, fmt.Sprintf("Validate(base, %s)=%s", docs[i], bo.val[i]))
			}
		}
		reduced := ""
		if len(bad) > 0 && sp.ins != nil && len(sp.ins.hit) > 0 {
			// reduce: drop the comments between tokens slot by slot as long as the variant still differs from the base
			keep := map[int]bool{}
			for _, h := range sp.ins.hit {
				keep[h] = true
			}
			differs := func(only map[int]bool) (texts, bool) {
				_, t := respell(only)
				b, _, _ := compareObs(bo, observe(t, docs, dropNotes, sortRules), docs)
				return t, len(b) > 0
			}
			for _, h := range sp.ins.hit {
				delete(keep, h)
				if _, d := differs(keep); !d {
					keep[h] = true
				}
			}
			if t, d := differs(keep); d {
				reduced = fmt.Sprintf("\nreduced (comments between tokens only at %d of %d places, still differs): %s", len(keep), len(sp.ins.hit), showTexts("variant", t))
			}
		}
		if len(bad) > 0 {
			res.diffs = append(res.diffs, vh.Diff{
				Component: "C13-schema",
				Input:     fmt.Sprintf("%s\n%s\nrewrites=%v astNotesBlanked=%v astRuleOrderNormalised=%v seed=%d variant=%d%s", showTexts("base", base), showTexts("variant", vt), sp.applied, dropNotes, sortRules, seed, k, reduced),
				Impl:      strings.Join(implS, "\n"),
				Model:     "all spellings of one schema behave alike: " + strings.Join(modelS, "\n"),
				Note:      "differs in: " + strings.Join(bad, ","),
			})
		}
	}

	// ---- schema side: one user comment (or a run of them) at one place between two tokens
	if explore {
		commentSweep(seed, &res, base, raw, docs, printAll, 0, 0, true)
		return res
	}
	commentSweep(seed, &res, base, raw, docs, printAll, nSweep, nProbe, false)

	// ---- schema side: the rules of ONE node in every order (ruleorder.go)
	ruleOrderSweep(seed, g, &res, root, types, base, docs, printAll, nRuleOrder)

	// ---- document side (only meaningful when the schema is accepted)
	if raw.check == "OK" {
		// sweep: one rewrite at a time, systematically. verdictOf validates one re-spelling of document j and
		// reports a change of the verdict.
		// Documents with key-shortcut members (keys.go): the class of every object of document j; amb[j] = some object
		// of the document is in the structural class of the known finding K-C13-keyorder.
		oc := make([]map[*dval]objClass, len(dvals))
		amb := make([]string, len(dvals))
		for j, d := range dvals {
			oc[j] = docClass(root, types, d)
			mm := 0
			for _, c := range oc[j] {
				if c.ambiguous() {
					amb[j] = c.why()
				}
				if c.overlap && !c.reuse {
					res.stat("doc_keyshortcut_object_key_admitted_by_two_shortcuts_without_competitor")
				}
				if c.matched > mm {
					mm = c.matched
				}
			}
			if len(sos) > 0 {
				if amb[j] != "" {
					res.stat("doc_keyshortcut_class_ambiguous_" + dkind[j])
				} else {
					res.stat(fmt.Sprintf("doc_keyshortcut_class_unambiguous_matched_members_%d", mm))
				}
			}
		}
		// orderClass: the known-finding class of a verdict change under a change of the member order
		orderClass := func(why string) (class, note string) {
			if why == "" {
				return "", ""
			}
			res.stat("known_K-C13-keyorder_verdict_depends_on_member_order")
			return "K-C13-keyorder", "structural class K-C13-keyorder: " + why
		}
		verdictOf := func(j int, vtxt, rewrite, replay, why string) string {
			var x, y interface{}
			if e1, e2 := stdjson.Unmarshal([]byte(docs[j]), &x), stdjson.Unmarshal([]byte(vtxt), &y); e1 != nil || e2 != nil || fmt.Sprintf("%#v", x) != fmt.Sprintf("%#v", y) {
				res.diffs = append(res.diffs, vh.Diff{Component: "C13-document", Input: fmt.Sprintf("base=%q variant=%q", docs[j], vtxt), Impl: "GENERATOR BUG: re-spelling changed the JSON value", Model: ""})
				return ""
			}
			got := validate(base, vtxt)
			if got != raw.val[j] {
				class, note := orderClass(why)
				res.diffs = append(res.diffs, vh.Diff{
					Component: "C13-document",
					Input:     fmt.Sprintf("%s\nbase document = %q\nvariant document = %q\nrewrites=[%s] seed=%d doc=%d %s", showTexts("", base), docs[j], vtxt, rewrite, seed, j, replay),
					Impl:      "Validate(variant document)=" + got,
					Model:     "same verdict as the base spelling: " + raw.val[j],
					Class:     class,
					Note:      note,
				})
			}
			return got
		}
		for j, d := range dvals {
			strs, _, _, _, _ := docFeatures(d)
			pr := rand.New(rand.NewSource(seed*977 + int64(j)))
			// (a) every document-wide escape form on one sampled and one mutated document, one form (by turns) on the others
			if strs > 0 {
				styles := escapeStyles
				if j != 0 && j != 2 {
					styles = escapeStyles[j%len(escapeStyles):][:1]
				}
				for _, st := range styles {
					ds := &docSpell{r: pr, escapes: 1, style: st}
					vtxt := ds.text(d)
					res.kase("D\x00"+base.root+"\x00"+docs[j]+"\x00"+vtxt, vtxt != docs[j])
					if vtxt != docs[j] {
						res.stat("doc_sweep_escapes_" + st)
						verdictOf(j, vtxt, "escapes:"+st, "sweep", "")
					}
				}
			}
			// (b) member order: for up to 2 objects of the document (>= 2 members) every order of the members (<= 3
			// members) or the reverse order, a rotation and 6 random ones; the other objects keep the base order
			var objs []*dval
			var walk func(x *dval)
			walk = func(x *dval) {
				if x.kind == 'o' && len(x.kids) >= 2 {
					objs = append(objs, x)
				}
				for _, k := range x.kids {
					walk(k)
				}
			}
			walk(d)
			pr.Shuffle(len(objs), func(a, b int) { objs[a], objs[b] = objs[b], objs[a] })
			// objects with two or more members that go to key shortcuts first: their order is what a validator's
			// shortcut book-keeping can depend on
			sort.SliceStable(objs, func(a, b int) bool { return oc[j][objs[a]].matched >= 2 && oc[j][objs[b]].matched < 2 })
			if len(objs) > 2 {
				objs = objs[:2]
			}
			for _, o := range objs {
				orders := memberOrders(len(o.kids), pr)
				res.stat("doc_sweep_order_objects_members_" + sizeBucket(len(o.kids)))
				if c := oc[j][o]; c.matched >= 2 {
					cl := "unambiguous"
					if c.ambiguous() {
						cl = "ambiguous"
					}
					res.stat(fmt.Sprintf("doc_sweep_order_objects_with_%d_shortcut_members_%s", c.matched, cl))
				}
				verdicts := map[string]bool{}
				for _, ord := range orders {
					ds := &docSpell{base: true, r: pr, order: map[*dval][]int{o: ord}}
					vtxt := ds.text(d)
					res.kase("D\x00"+base.root+"\x00"+docs[j]+"\x00"+vtxt, true)
					res.stat("doc_sweep_order_spellings")
					verdicts[verdictOf(j, vtxt, "member-order", fmt.Sprintf("sweep order=%v", ord), oc[j][o].why())] = true
				}
				if len(verdicts) > 1 {
					res.stat("doc_sweep_order_verdict_depends_on_order")
				}
			}
		}
		for _, st := range g.docStats {
			res.stat(st)
		}
		for j, d := range dvals {
			strs, members, astral, needEsc, frac := docFeatures(d)
			for k := 0; k < nDocVariants; k++ {
				ds := variantDocSpell(rand.New(rand.NewSource(seed*131+int64(j)*17+int64(k)+7)), !g.features["enum"])
				vtxt := ds.text(d)
				for _, a := range ds.applied {
					res.stat("doc_rewrite_" + a)
				}
				nt := vtxt != docs[j] && (strs > 0 || members > 0)
				res.kase("D\x00"+base.root+"\x00"+docs[j]+"\x00"+vtxt, nt)
				if astral > 0 && ds.escapes > 0 {
					res.stat("doc_surrogate_pairs")
				}
				if needEsc > 0 && ds.escapes > 0 {
					res.stat("doc_reescaped_strings")
				}
				if members > 0 && ds.permute {
					res.stat("doc_permuted_objects")
				}
				if frac > 0 && ds.zeros {
					res.stat("doc_fraction_zeros_applied")
				}
				var x, y interface{}
				if e1, e2 := stdjson.Unmarshal([]byte(docs[j]), &x), stdjson.Unmarshal([]byte(vtxt), &y); e1 != nil || e2 != nil || fmt.Sprintf("%#v", x) != fmt.Sprintf("%#v", y) {
					res.diffs = append(res.diffs, vh.Diff{Component: "C13-document", Input: fmt.Sprintf("base=%q variant=%q", docs[j], vtxt), Impl: "GENERATOR BUG: re-spelling changed the JSON value", Model: ""})
					continue
				}
				got := validate(base, vtxt)
				res.stat("docside_verdict_" + got)
				if got != raw.val[j] {
					class, note := "", ""
					if ds.permute { // every object of the document may be written in another order
						class, note = orderClass(amb[j])
					}
					res.diffs = append(res.diffs, vh.Diff{
						Component: "C13-document",
						Input:     fmt.Sprintf("%s\nbase document = %q\nvariant document = %q\nrewrites=%v seed=%d doc=%d variant=%d", showTexts("", base), docs[j], vtxt, ds.applied, seed, j, k),
						Impl:      "Validate(variant document)=" + got,
						Model:     "same verdict as the base spelling: " + raw.val[j],
						Class:     class,
						Note:      note,
					})
				}
			}
		}
	}
	return res
}

// memberOrders: the orders in which n members are written: all n! - 1 non-identity orders for n <= 3, otherwise
// the reverse order (with the identity it shows every pair in both relative orders), the rotation by one and random
// ones up to 8.
func memberOrders(n int, r *rand.Rand) [][]int {
	var out [][]int
	if n <= 3 {
		var rec func(cur []int, used int)
		rec = func(cur []int, used int) {
			if len(cur) == n {
				ident := true
				for i, v := range cur {
					ident = ident && i == v
				}
				if !ident {
					out = append(out, append([]int(nil), cur...))
				}
				return
			}
			for i := 0; i < n; i++ {
				if used&(1<<i) == 0 {
					rec(append(cur, i), used|1<<i)
				}
			}
		}
		rec(nil, 0)
		return out
	}
	rev, rot := make([]int, n), make([]int, n)
	for i := range rev {
		rev[i], rot[i] = n-1-i, (i+1)%n
	}
	out = append(out, rev, rot)
	seen := map[string]bool{fmt.Sprint(rev): true, fmt.Sprint(rot): true}
	for len(out) < 8 {
		p := r.Perm(n)
		if k := fmt.Sprint(p); !seen[k] {
			seen[k] = true
			out = append(out, p)
		}
	}
	return out
}

func checkMsg(t texts) string {
	return vh.Recover(func() string {
		s, e := build(t)
		if e != "" {
			for _, nm := range allTypeOrder {
				if txt, ok := t.types[nm]; ok {
					if err := jschema.New("@"+nm, txt).Check(); err != nil {
						return "@" + nm + ": " + strings.SplitN(err.Error(), "\n", 2)[0]
					}
				}
			}
			return e
		}
		if err := s.Check(); err != nil {
			return strings.SplitN(err.Error(), "\n", 2)[0]
		}
		return "OK"
	})
}

var (
	dbgInvalid []string
	dbgCount   = map[string]int{}
	dbgMu      sync.Mutex
)

func Run(args []string) {
	rep := vh.NewReport(command, "abstract schemas (objects, arrays incl. nested arrays followed by annotated elements, scalars of 5 kinds, @t / @t | @u shortcuts to 2 generated added types; rules min/max/exclusive*/lengths/regex/enum/const/type/precision/optional/nullable/minItems/maxItems/additionalProperties/or; notes; 1 in 6 schemas carries one planted single-symptom defect) printed in a BASE spelling and in VARIANT spellings = random compositions of: line ends LF/CRLF/CR/mixed, indentation none/spaces/tabs/mixed, user comments (# at line end incl. empty, full-line #, ### blocks between lines; BETWEEN THE TOKENS of a line at every slot the language accepts: inside empty brackets, behind an opening bracket, value|comma, value / comma / bracket | annotation, before / behind the line, behind an annotation, inside one-line subtrees - forms `# …`+line break, `### … ###`, ### block spanning line breaks, 1-3 in a row), inline vs multi-line annotations (with line breaks inside the rule object), notes dropped/changed/added, quoted vs bare rule names, trailing comma, extra spaces around ':' ',', rule order. Compared per (base, variant): Check verdict+code, AST JSON of root and added types (comment fields blanked iff notes were rewritten, rule order normalised iff rules were shuffled), Validate verdict on 6 documents (2 sampled, 3 mutated, 1 unrelated). The first variant of every schema combines a line-end style (LF / CRLF / CR / 4 mixtures, by turns) with dense user comments. Comment sweep: per schema 3 single insertions (1-3 comments of one form at ONE slot of the base spelling or of a carrier spelling with other line ends / multi-line annotations / quoted names; slot class chosen uniformly among the classes present, stats comment_sweep <class> <form>) compared with the base spelling like a variant, and 1 probe at a place outside the language (stats outside_language …, never a diff). RULE SETS AND RULE ORDER (ruleorder.go): rule sets are drawn from all rules applicable to the node kind incl. the redundant ones (nullable: false, const: false - alone and both on one node -, optional: false, exclusiveMinimum / exclusiveMaximum: false next to the bound, type naming the example's own kind / enum / mixed, additionalProperties: true, type any on rule-free scalars; also inside or members; stats schema_uses_noop-…); per schema 1 (thorough 2) node with >= 2 rules is re-spelled with its rules in every other order (<= 3 rules) or reverse + rotation + 3 random orders, all else as in the base spelling, compared like a variant on the 2 sampled documents + probe documents with null, the bounds its rules name (min / max value, string of minLength / maxLength, array of minItems / maxItems) and values of other kinds at the position of that node (stats rule_order_…); one of the six documents of every case is a probe document (null 1 in 2 / a bound / a value of another kind at the position of a rule-carrying node, stat doc_probe_…) in place of the third mutated one. Named enum rules ({enum: @e1}, added with AddRule) are the rule values that are shortcuts. Document side: each document of an accepted schema re-spelled (one random composition of whitespace, member order at all levels, escapes in keys and values incl. surrogate pairs and \\/ , fraction zeros; plus sweeps with one rewrite at a time: 5 document-wide escape forms = all two-character escapes / \\u lower / upper / mixed-case hex / \\u only where required, and for up to 2 objects per document all member orders (<= 3 members) or reverse + rotation + 6 random orders) and validated; objects under additionalProperties (all modes: false, true, any, every schema type, @t, @u) get 0-4 additional members of mixed conformity. KEY SHORTCUTS (keys.go): 2 cases in 5 have 1-4 string key types @k1..@k4 (regex anchored / unanchored / with slash, minLength / maxLength, enum with escaped items, plain example with and without escapes, const, email / uuid / date / datetime / uri, rule combinations, a type admitting every key; pairwise disjoint in 2 of 3 such cases, else overlapping); objects anywhere (root, nested, added types, one-line subtrees) carry 1-4 key shortcuts `@k: value` at random places among their literal keys, with or without additionalProperties; sampled documents draw keys that match the shortcuts (mostly one key per shortcut that no other shortcut admits; sometimes any key of the type or two keys for one shortcut) and go through all document rewrites - the member-order sweep takes objects with >= 2 shortcut-matched members first. A verdict change under a member-order change carries Class K-C13-keyorder iff, by the generator's own key predicates (checked against the tree at start: stat keytable_pairs_checked, a disagreement is a correspondence-level diff C13-keytable), two distinct non-literal keys of a document object are admitted by the key type of ONE shortcut of a schema object it can be validated against; otherwise it is unclassified. nontrivial = variant text differs from base text and (schema side) the schema has >=1 annotation / (document side) the document has a string or an object with >=2 members")
	r := vh.NewRand(salt)
	nSchemas := vh.Pick(2100, 60000)
	nVar, nDocVar := 4, 1
	nSweep, nProbe := 3, 1
	nRuleOrder = vh.Pick(1, 2)
	debug := len(args) > 0 && args[0] == "debug"
	// `vh c13-metamorphic slots`: the slot map (every slot class x comment form once per schema: what the tree does)
	explore := len(args) > 0 && args[0] == "slots"
	// the generator's key predicates against the tree (keys.go); `vh c13-metamorphic keytable` prints the table only
	if len(args) > 0 && args[0] == "keytable" {
		reportKeyTable(rep, true)
		rep.Finish()
		return
	}
	reportKeyTable(rep, false)
	if explore {
		nSchemas = vh.Pick(1500, 20000)
	}

	seeds := make([]int64, nSchemas)
	for i := range seeds {
		seeds[i] = r.Int63() >> 8
	}
	results := make([]caseResult, nSchemas)
	next := make(chan int, nSchemas)
	for i := range seeds {
		next <- i
	}
	close(next)
	var wg sync.WaitGroup
	var timedOut sync.Map
	for w := runtime.NumCPU(); w > 0; w-- {
		wg.Add(1)
		go func() {
			defer wg.Done()
			for i := range next {
				done := make(chan caseResult, 1)
				go func(i int) { done <- oneCase(seeds[i], nVar, nDocVar, nSweep, nProbe, explore) }(i)
				select {
				case res := <-done:
					results[i] = res
				case <-time.After(60 * time.Second):
					results[i] = caseResult{timeout: true}
					timedOut.Store(i, true)
					return
				}
			}
		}()
	}
	wg.Wait()
	for i, res := range results {
		if res.timeout {
			rep.AddDiff(vh.Diff{Component: "C13-schema", Input: fmt.Sprintf("case seed=%d (replay: oneCase)", seeds[i]), Impl: "TIMEOUT", Model: "every call terminates"})
			continue
		}
		rep.Stat("schemas_generated")
		for _, s := range res.stats {
			rep.Stat(s)
		}
		for _, c := range res.cases {
			rep.Case(c.key, c.nt)
		}
		for _, d := range res.diffs {
			rep.AddDiff(d)
		}
	}
	if explore {
		printSlotMap()
	}
	if debug {
		sort.Strings(dbgInvalid)
		for _, s := range dbgInvalid {
			fmt.Println("UNPLANNED", s)
		}
	}
	rep.Finish()
}

// ---------------------------------------------------------------------------------------------------------
// Export for c14-len: generated schema texts with a known last token.

type SchemaText struct {
	Root  string
	Types map[string]string // name without '@' -> text
	// End: what the text ends with: "bracket" (closing } or ] of the root), "quote", "number", "word"
	// (true/false/null), "shortcut", "inline-annotation", "multiline-annotation".
	End      string
	Rewrites []string
	Nodes    int
}

// GenSchemaText returns a generated schema (valid by construction, no planted defect) in a random spelling;
// the text ends with its last token.
func GenSchemaText(seed int64) SchemaText {
	g := &gen{r: rand.New(rand.NewSource(seed)), features: map[string]bool{}}
	r := g.r
	types := typeTable{}
	useTypes := r.Intn(3) != 0
	if useTypes {
		for _, nm := range typeOrder {
			types[nm] = g.genNode(1, false, false)
		}
	}
	g.refsOK = useTypes
	root := g.genNode(r.Intn(3), false, useTypes)
	if r.Intn(2) == 0 {
		for try := 0; try < 8 && (root.compact || (root.kind != "obj" && root.kind != "arr") || len(root.kids) < 1); try++ {
			root = g.genNode(1+r.Intn(2), false, useTypes)
		}
	}
	sp := baseSpell()
	if r.Intn(4) != 0 {
		sp = variantSpell(rand.New(rand.NewSource(seed*31 + 5)))
	}
	sp.tailClean = true
	out := SchemaText{Types: map[string]string{}, Rewrites: sp.applied}
	_, out.Nodes = countAnnotated(root)
	for _, nm := range typeOrder {
		if n, ok := types[nm]; ok {
			out.Types[nm] = baseSpell().print(n)
		}
	}
	sp.lastAnn = ""
	out.Root = sp.print(root)
	switch {
	case !root.compact && (root.kind == "obj" || root.kind == "arr") && len(root.kids) > 0:
		out.End = "bracket"
	case sp.lastAnn == "inline":
		out.End = "inline-annotation"
	case sp.lastAnn == "multi":
		out.End = "multiline-annotation"
	case root.kind == "obj" || root.kind == "arr":
		out.End = "bracket"
	case root.kind == "str":
		out.End = "quote"
	case root.kind == "int" || root.kind == "flt":
		out.End = "number"
	case root.kind == "ref":
		out.End = "shortcut"
	default:
		out.End = "word"
	}
	return out
}
