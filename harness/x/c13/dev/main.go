package main

import (
	"os"

	c13 "verifharness/x/c13"
)

func main() { c13.Run(os.Args[1:]) }
