package c13

// Rule sets and rule order (property text: "... trailing comma inside a rule object, ORDER OF THE RULES - leaves Check's
// verdict, the AST and every validation verdict unchanged").
//
//   - redundant / redundantMember: the rule set of a node is drawn from ALL rules applicable to its kind, the redundant
//     ones included: `nullable: false`, `const: false` (alone and both on one node), `optional: false`,
//     `exclusiveMinimum: false` / `exclusiveMaximum: false` next to their bound, `type` naming the example's own kind
//     (`"enum"` next to an enum rule, `"mixed"` next to an or rule / on a `@t | @u` shortcut), `additionalProperties:
//     true`, `type: "any"` on a scalar without value rules; in every combination Check accepts (stat
//     generator_unplanned_invalid stays 0). Members of an or rule get the flags as well.
//   - ruleOrderSweep: per schema, for nRuleOrder nodes with >= 2 rules (root schema, added types, key types) the base
//     spelling with the rules of THAT node in another order: every order for <= 3 rules, otherwise reverse, rotation and
//     random ones. Compared with the base spelling like any variant (Check verdict + code, AST with the rule lists
//     normalised, validation verdicts) on the two sampled documents and on PROBE documents: a sampled document with
//     null / the values the node's rules name as bounds (min, max, a string of minLength / maxLength characters, an
//     array of minItems / maxItems elements) / values of other kinds at the position of the node (a rule that survives,
//     disappears or is folded into another one depending on the order shows as an accepted null, a verdict that changes
//     exactly at the bound, or a refused example).
//   - probeDoc: one of the six documents of every case has null, a bound or a value of another kind at the position of one
//     rule-carrying node, so that the composed variants (random shuffle of every rule set) are probed as well.
//
// `type` + `or` on a type reference (`@t // {type: "@t", or: […]}`) is order dependent on the unchanged tree (known
// finding K-C08-ref-type-or, recorded under C08): the generator never writes `type` on a single reference and never
// `or` on a reference, so that class cannot occur here.

import (
	"fmt"
	"math/rand"

	"verifharness/vh"
)

var nRuleOrder = 1

func hasRule(rs []rule, name string) bool {
	for _, ru := range rs {
		if ru.name == name {
			return true
		}
	}
	return false
}

var ownType = map[string]string{"int": `"integer"`, "str": `"string"`, "bool": `"boolean"`, "null": `"null"`, "obj": `"object"`, "arr": `"array"`}

// redundant adds rules that say what the node says without them.
func (g *gen) redundant(n *node, inObj bool) {
	has := func(name string) bool { return hasRule(n.rules, name) }
	add := func(name, v string) {
		n.rules = append(n.rules, rule{name, lit(v)})
		g.feat("noop-" + name + ":" + v)
	}
	scalar := n.kind != "obj" && n.kind != "arr" && n.kind != "ref"
	valueRules := false
	for _, ru := range n.rules {
		valueRules = valueRules || (ru.name != "optional" && ru.name != "nullable")
	}
	if scalar && !valueRules && g.chance(0.06) {
		// `type: "any"` shares its rule set with optional / nullable / const: false only
		add("type", `"any"`)
		n.anyType = true
	}
	// the two flags that are dropped when false: each alone, and both on one node
	both := g.chance(0.1)
	if !has("nullable") && (both || g.chance(0.12)) {
		add("nullable", "false")
	}
	if !has("const") && (both || g.chance(0.12)) {
		add("const", "false")
	}
	if inObj && !has("optional") && g.chance(0.12) {
		add("optional", "false")
	}
	if n.anyType {
		return
	}
	if has("min") && !has("exclusiveMinimum") && g.chance(0.25) {
		add("exclusiveMinimum", "false")
	}
	if has("max") && !has("exclusiveMaximum") && g.chance(0.25) {
		add("exclusiveMaximum", "false")
	}
	if !has("type") && g.chance(0.15) {
		switch {
		case has("or") || (n.kind == "ref" && len(n.refs) > 1):
			add("type", `"mixed"`)
		case has("enum"):
			add("type", `"enum"`)
		case n.kind == "flt" && has("precision"):
			add("type", `"decimal"`)
		case n.kind == "flt":
			add("type", `"float"`)
		case ownType[n.kind] != "":
			add("type", ownType[n.kind])
		}
	}
	if n.kind == "obj" && !has("additionalProperties") && g.chance(0.1) {
		add("additionalProperties", "true")
		n.addProps = "true"
	}
}

// redundantMember: the same for a member of an or rule (a typed rule set).
func (g *gen) redundantMember(rs []rule) []rule {
	if !hasRule(rs, "type") {
		return rs
	}
	both := g.chance(0.06)
	if !hasRule(rs, "nullable") && (both || g.chance(0.08)) {
		rs = append(rs, rule{"nullable", lit("false")})
		g.feat("noop-or-member-flag")
	}
	if !hasRule(rs, "const") && (both || g.chance(0.08)) {
		rs = append(rs, rule{"const", lit("false")})
		g.feat("noop-or-member-flag")
	}
	if hasRule(rs, "min") && !hasRule(rs, "exclusiveMinimum") && g.chance(0.2) {
		rs = append(rs, rule{"exclusiveMinimum", lit("false")})
		g.feat("noop-or-member-flag")
	}
	return rs
}

// ruleNodes: the nodes of a tree that carry rules (at least min of them).
func ruleNodes(n *node, min int, out *[]*node) {
	if n == nil || n.compact {
		return
	}
	if len(n.rules) >= min {
		*out = append(*out, n)
	}
	for _, k := range n.kids {
		ruleNodes(k, min, out)
	}
}

// probeValues: document values for the position of schema node n: null first, then the values the rules of the node
// name as bounds (min / max: a verdict exactly at the bound depends on the exclusive flags; a string / an array of
// exactly minLength / maxLength / minItems / maxItems), then values of the other kinds.
func probeValues(n *node, r *rand.Rand) []*dval {
	out := []*dval{dnull()}
	seen := map[string]bool{}
	for _, ru := range n.rules {
		if ru.v.kind != 'l' || seen[ru.name+ru.v.lit] {
			continue
		}
		seen[ru.name+ru.v.lit] = true
		var cnt int
		switch ru.name {
		case "min", "max":
			out = append(out, &dval{kind: 'n', num: ru.v.lit})
		case "minLength", "maxLength":
			if _, err := fmt.Sscan(ru.v.lit, &cnt); err == nil && cnt >= 0 && cnt < 40 {
				out = append(out, &dval{kind: 's', s: "abcdefghijklmnopqrstuvwxyzabcdefghijklmnopqrstuvwxyz"[:cnt]})
			}
		case "minItems", "maxItems":
			if _, err := fmt.Sscan(ru.v.lit, &cnt); err == nil && cnt >= 0 && cnt < 10 {
				d := &dval{kind: 'a'}
				for i := 0; i < cnt; i++ {
					d.kids = append(d.kids, &dval{kind: 'n', num: "1"})
				}
				out = append(out, d)
			}
		}
	}
	if len(out) > 3 {
		r.Shuffle(len(out)-1, func(i, j int) { out[i+1], out[j+1] = out[j+1], out[i+1] })
		out = out[:3]
	}
	return append(out, otherKinds(n.kind, r)[1:]...)
}

// otherKinds: document values for a position whose schema node has kind k: null first, then values of the other kinds.
func otherKinds(k string, r *rand.Rand) []*dval {
	all := []struct {
		kind string
		v    *dval
	}{
		{"int", &dval{kind: 'n', num: "7"}}, {"flt", &dval{kind: 'n', num: "2.5"}}, {"str", &dval{kind: 's', s: "zz"}},
		{"bool", &dval{kind: 'l', lit: "true"}}, {"obj", &dval{kind: 'o'}}, {"arr", &dval{kind: 'a'}},
	}
	out := []*dval{dnull()}
	for _, i := range r.Perm(len(all)) {
		if all[i].kind != k {
			out = append(out, all[i].v)
		}
	}
	return out
}

// sampleWith: a sampled document with v at the position of schema node at (ok = the position was reached).
func (g *gen) sampleWith(root *node, types typeTable, at *node, v *dval) (d *dval, ok bool) {
	g.probeAt, g.probeVal = at, v
	defer func() { g.probeAt, g.probeVal = nil, nil }()
	for try := 0; try < 4; try++ {
		g.probeHit = false
		d = g.sample(root, types, 3)
		if g.probeHit {
			return d, true
		}
	}
	return d, false
}

// probeDoc: a sampled document with null (2 in 3) or a value of another kind at the position of one rule-carrying node.
func (g *gen) probeDoc(root *node, types typeTable) (*dval, bool) {
	var cands []*node
	ruleNodes(root, 1, &cands)
	for _, nm := range typeOrder {
		ruleNodes(types[nm], 1, &cands)
	}
	if len(cands) == 0 {
		return g.mutate(g.sample(root, types, 3)), false
	}
	// nodes with several rules first: their rule order is what a verdict can depend on
	n := cands[g.r.Intn(len(cands))]
	for try := 0; try < 3 && len(n.rules) < 2; try++ {
		n = cands[g.r.Intn(len(cands))]
	}
	vals := probeValues(n, g.r)
	v := vals[0]
	if g.r.Intn(2) == 0 {
		v = vals[1+g.r.Intn(3)]
	}
	d, hit := g.sampleWith(root, types, n, v)
	if hit {
		g.docStats = append(g.docStats, "doc_probe_"+map[bool]string{true: "null", false: "bound_or_other_kind"}[v.kind == 'l' && v.lit == "null"])
		return d, true
	}
	return g.mutate(d), false
}

func ruleOrderSweep(seed int64, g *gen, res *caseResult, root *node, types typeTable, base texts, docs []string, printAll func(*spell) texts, nNodes int) {
	var cands []*node
	ruleNodes(root, 2, &cands)
	for _, nm := range typeOrder {
		ruleNodes(types[nm], 2, &cands)
	}
	for _, kt := range g.ktypes {
		ruleNodes(kt.n, 2, &cands)
	}
	if len(cands) == 0 {
		res.stat("rule_order_sweep_no_node_with_2_rules")
		return
	}
	pr := rand.New(rand.NewSource(seed*59 + 5))
	pr.Shuffle(len(cands), func(i, j int) { cands[i], cands[j] = cands[j], cands[i] })
	if len(cands) > nNodes {
		cands = cands[:nNodes]
	}
	saved := g.r
	g.r = pr
	defer func() { g.r = saved }()
	bds := &docSpell{base: true, r: pr}
	for _, n := range cands {
		orders := memberOrders(len(n.rules), pr)
		if len(orders) > 5 {
			orders = orders[:5]
		}
		res.stat("rule_order_sweep_node_rules_" + sizeBucket(len(n.rules)))
		noop := 0
		for _, ru := range n.rules {
			if ru.v.kind == 'l' && (ru.v.lit == "false" || (ru.name == "type" && ru.v.lit != `"any"`) || (ru.name == "additionalProperties" && ru.v.lit == "true")) {
				noop++
			}
		}
		res.stat(fmt.Sprintf("rule_order_sweep_node_redundant_rules_%d", noop))
		if hasRule(n.rules, "nullable") && hasRule(n.rules, "const") {
			res.stat("rule_order_sweep_node_has_nullable_and_const")
		}
		// documents: the two sampled ones + probes at the position of the node
		pdocs := append([]string(nil), docs[:2]...)
		for i, v := range probeValues(n, pr)[:4] {
			if d, ok := g.sampleWith(root, types, n, v); ok {
				pdocs = append(pdocs, bds.text(d))
				res.stat("rule_order_probe_" + map[bool]string{true: "null", false: "bound_or_other_kind"}[i == 0])
			}
		}
		bo := observe(base, pdocs, false, true)
		for i := 2; i < len(bo.val); i++ {
			if bo.check == "OK" {
				res.stat("rule_order_probe_verdict_" + bo.val[i])
			}
		}
		for _, ord := range orders {
			sp := baseSpell()
			sp.perm = map[*node][]int{n: ord}
			vt := printAll(sp)
			vo := observe(vt, pdocs, false, true)
			res.stat("rule_order_sweep_spellings")
			res.kase("S\x00"+base.root+"\x00"+vt.root+"\x00"+base.types["t"]+"\x00"+vt.types["t"]+"\x00"+vt.types["u"]+fmt.Sprint(ord), true)
			bad, implS, modelS := compareObs(bo, vo, pdocs)
			if len(bad) > 0 {
				res.diffs = append(res.diffs, vh.Diff{
					Component: "C13-schema",
					Input:     fmt.Sprintf("%s\n%s\nrewrites=[rule-order of one node: %v] astNotesBlanked=false astRuleOrderNormalised=true seed=%d", showTexts("base", base), showTexts("variant", vt), ord, seed),
					Impl:      joinLines(implS),
					Model:     "all spellings of one schema behave alike: " + joinLines(modelS),
					Note:      "differs in: " + joinLines(bad),
				})
				break // one diff per node
			}
		}
	}
}

func joinLines(xs []string) string {
	out := ""
	for i, x := range xs {
		if i > 0 {
			out += "\n"
		}
		out += x
	}
	return out
}
