import subprocess, shutil, os, sys, json
H='/verif/harness'; M=H+'/x/c13/scratch/repo-mut'
env=dict(os.environ, GOFLAGS='-mod=mod', GOPROXY='off', GOSUMDB='off', GOTOOLCHAIN='local', CGO_ENABLED='0')
def fresh():
    subprocess.run(f"rm -rf {M} && mkdir -p {M} && (cd /repo && tar --exclude=.git -cf - .) | (cd {M} && tar xf -)", shell=True, check=True)
def patch(path, old, new, count=1):
    p=M+'/'+path; s=open(p).read()
    assert old in s, (path, old)
    s=s.replace(old,new,count); open(p,'w').write(s)
muts={
 'M1-empty-comment': lambda: patch('notations/jschema/internal/scanner/scanner.go','''		if bytes.IsNewLine(c) {
			// Empty comment: the line break ends it.
			return stateInlineComment(s, c)
		}
''',''),
 'M2-break-after-colon': lambda: patch('notations/jschema/internal/loader/embedded_loader_for_rule.go','''	if lex.Type() == lexeme.NewLine {
		// A line break between "name:" and the value, as everywhere else in a rule object.
		return
	}
''',''),
 'M3-array-newline-annotation': lambda: patch('notations/jschema/internal/scanner/scanner.go','''	if bytes.IsNewLine(c) && s.annotation == annotationNone {
		// A new line after "," re-enables annotations, as it does for object properties.
		s.allowAnnotation = true
	}
''',''),
 'M4-comment-cr': lambda: patch('notations/jschema/internal/scanner/scanner.go','''func stateInlineComment(s *Scanner, c byte) state {
	if bytes.IsNewLine(c) {''','''func stateInlineComment(s *Scanner, c byte) state {
	if c == '\\n' {'''),
 'M5-key-no-unquote-required': lambda: patch('notations/jschema/internal/validator/v_object.go','delete(v.requiredKeys, v.lastFoundKeyLex.Value().Unquote().String())','delete(v.requiredKeys, string(v.lastFoundKeyLex.Value()[1:len(v.lastFoundKeyLex.Value())-1]))'),
 'M6-minlength-raw': lambda: patch('notations/jschema/internal/schema/constraint/c_min_length.go','length := uint(len(value.Unquote()))','length := uint(len(value) - 2)'),
 'M7-regex-raw': lambda: patch('notations/jschema/internal/schema/constraint/c_regexp.go','c.re.Match(value.Unquote())','c.re.Match(value[1:len(value)-1])'),
 'M8-rule-name-no-unquote': lambda: patch('notations/jschema/internal/loader/embedded_loader_for_rule.go','ruleName := rl.ruleNameLex.Value().TrimSpaces().Unquote().String()','ruleName := rl.ruleNameLex.Value().TrimSpaces().String()'),
 'M9-no-trailing-comma': lambda: patch('notations/jschema/internal/scanner/scanner.go','''		// ...OrEmpty because a comma before the closing parenthesis is allowed. Ex: {k:1,}
		r = stateBeginAnnotationObjectKeyOrEmpty(s, c)
	}
	return r
}

func stateFoundObjectKeyBeginAfterNewLine''','''		s.found(lexeme.ObjectKeyBegin)
		r = stateBeginAnnotationObjectKey(s, c)
	}
	return r
}

func stateFoundObjectKeyBeginAfterNewLine'''),
 'M10-enum-string-raw': lambda: patch('notations/jschema/internal/schema/constraint/c_enum.go','''	if i.jsonType == jjson.TypeString {
		b = b.Unquote()
	}
	i.value = b.String()''','''	i.value = b.String()'''),
 'M11-childkey-no-unquote': lambda: patch('notations/jschema/internal/schema/object_node.go','''	if !isShortcut {
		key = key.Unquote()
	}
	return n.Child(key.String(), isShortcut)''','''	if !isShortcut {
		key = key[1 : len(key)-1]
	}
	return n.Child(key.String(), isShortcut)'''),
 'M12-multiline-comment-close': lambda: patch('notations/jschema/internal/scanner/scanner.go','''			s.index++ // skip second #
			s.index++ // skip third #
			s.step = s.returnToStep.Pop()''','''			s.index++ // skip second #
			s.step = s.returnToStep.Pop()'''),
 'M13-note-hash-inside-inline': lambda: patch('notations/jschema/internal/scanner/scanner_annotations.go','''	case '#':
		if !s.isInsideMultiLineAnnotation() {''','''	case '#':
		if false {'''),
 'L1-schema-delayed-byte': lambda: patch('notations/jschema/internal/scanner/scanner.go','''			if s.hasTrailingCharacters {
				// The event was delayed by one byte.
				length--
			}''',''),
 'L2-json-endtop-plus1': lambda: patch('formats/json/scanner.go','''			length = uint(lex.End())
			break''','''			length = uint(lex.End()) + 1
			break'''),
 'L3-enum-endtop': lambda: patch('rules/enum/scanner.go','length = uint(lex.End()) - 1','length = uint(lex.End())'),
 'L4-regex-len': lambda: patch('notations/regex/regex.go','return uint(len(s.pattern)) + 2, nil','return uint(len(s.pattern)) + 1, nil'),
 'L5-schema-no-trim': lambda: patch('notations/jschema/internal/scanner/scanner.go','''	for ; length > 0; length-- {
		c := s.data[length-1]
		if !bytes.IsBlank(c) {
			break
		}
	}
	return length
}

func (s *Scanner) newDocumentError''','''	return length
}

func (s *Scanner) newDocumentError'''),
 'L6-schema-eof-unclosed-ok': lambda: patch('notations/jschema/internal/scanner/scanner.go','''		err := errors.NewDocumentError(s.file, errors.ErrUnexpectedEOF)
		err.SetIndex(s.dataSize - 1)
		panic(err)
	}

	return lexeme.LexEvent{}, false''','''		if !s.lengthComputing {
			err := errors.NewDocumentError(s.file, errors.ErrUnexpectedEOF)
			err.SetIndex(s.dataSize - 1)
			panic(err)
		}
	}

	return lexeme.LexEvent{}, false'''),
 'L7-regex-escape': lambda: patch('notations/regex/regex.go','''		case '\\\\':
			escaped = !escaped
''','''		case '\\\\':
			escaped = true
'''),
}
sel=sys.argv[1:] or list(muts)
for name in sel:
    fresh(); muts[name]()
    out=[]
    for cmd in ('c13','c14'):
        if name.startswith('L') and cmd=='c13': continue
        b=subprocess.run(f"cd {H} && go build -tags verif -modfile=x/c13/scratch/go.mut.mod -o bin/{cmd}mut ./x/{cmd}/dev", shell=True, env=env, capture_output=True, text=True)
        if b.returncode!=0:
            out.append(cmd+': BUILD FAIL '+b.stderr[:300]); continue
        r=subprocess.run(f"{H}/bin/{cmd}mut", shell=True, env=env, capture_output=True, text=True)
        last=r.stdout.strip().split('\n')[-1]
        try:
            j=json.loads(last[7:]); comps={}
            for d in j['diffs'] or []: comps[d['component']]=comps.get(d['component'],0)+1
            out.append(f"{cmd}: ndiffs={j['ndiffs']} {comps}")
        except Exception as e:
            out.append(cmd+': no report '+last[:200]+r.stderr[-300:])
    print(name, ' | '.join(out), flush=True)
