import sys,json
l=sys.stdin.read()
r=json.loads(l[7:])
print(r['evaluations'],r['distinct_nontrivial'],r['ndiffs'],r['wall_s'])
if len(sys.argv)>1 and sys.argv[1]=='stats':
    for k in sorted(r['stats']): print(k,r['stats'][k])
n=int(sys.argv[2]) if len(sys.argv)>2 else 6
for d in (r["diffs"] or [])[:n]:
    print('=====',d['component'],d.get('note'))
    print(d['input'][:2500]); print('IMPL',d['impl'][:700]); print('MODEL',d['model'][:700])
