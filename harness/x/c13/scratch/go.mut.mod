module verifharness

go 1.19

require github.com/jsightapi/jsight-schema-go-library v0.0.0

require github.com/lucasjones/reggen v0.0.0-20200904144131-37ba4fa293bb // indirect

replace github.com/jsightapi/jsight-schema-go-library => /verif/harness/x/c13/scratch/repo-mut
