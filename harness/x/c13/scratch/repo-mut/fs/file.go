package fs

import (
	"fmt"

	"github.com/jsightapi/jsight-schema-go-library/bytes"
)

// File represent a file.
type File struct {
	name    string
	content bytes.Bytes
}

// NewFile creates new File instance.
func NewFile[T FileContent](name string, content T) *File {
	return &File{
		name:    name,
		content: normalizeFileContent(content),
	}
}

// FileContent all allowed types for specifying File's content.
type FileContent interface {
	string | bytes.Bytes | []byte
}

// normalizeFileContent convert generic FileContent to bytes.Bytes 'cause we operate
// this type in the file.
func normalizeFileContent[T FileContent](content T) bytes.Bytes {
	switch c := any(content).(type) {
	case string:
		return bytes.Bytes(c)
	case []byte:
		return c
	case bytes.Bytes:
		return c
	}

	// This might happen only when we extend `FileContent` interface and forget
	// to add new case to the type switch above this point.
	panic(fmt.Sprintf("Unhandled content type %T", content))
}

// Name returns file name.
func (f File) Name() string {
	return f.name
}

// Content returns file content.
func (f File) Content() bytes.Bytes {
	return f.content
}
