package fs

import (
	"testing"

	"github.com/stretchr/testify/assert"

	"github.com/jsightapi/jsight-schema-go-library/bytes"
)

func TestNewFile(t *testing.T) {
	var expected = bytes.Bytes("content")

	t.Run("string", func(t *testing.T) {
		testNewFile(t, "content", expected)
	})

	t.Run("[]byte", func(t *testing.T) {
		testNewFile(t, []byte("content"), expected)
	})

	t.Run("bytes.Bytes", func(t *testing.T) {
		testNewFile(t, bytes.Bytes("content"), expected)
	})
}

func testNewFile[T FileContent](t *testing.T, given T, expected bytes.Bytes) {
	const name = "foo"

	f := NewFile(name, given)

	assert.Equal(t, name, f.name)
	assert.Equal(t, name, f.Name())
	assert.Equal(t, expected, f.content)
	assert.Equal(t, expected, f.Content())
}

func Test_normalizeFileContent(t *testing.T) {
	var expected = bytes.Bytes("content")

	t.Run("string", func(t *testing.T) {
		testNormalizeFileContent(t, "content", expected)
	})

	t.Run("[]byte", func(t *testing.T) {
		testNormalizeFileContent(t, []byte("content"), expected)
	})

	t.Run("bytes.Bytes", func(t *testing.T) {
		testNormalizeFileContent(t, bytes.Bytes("content"), expected)
	})

	t.Run("nil []byte", func(t *testing.T) {
		var b []byte
		testNormalizeFileContent(t, b, nil)
	})

	t.Run("nil bytes.Bytes", func(t *testing.T) {
		var b bytes.Bytes
		testNormalizeFileContent(t, b, nil)
	})
}

func testNormalizeFileContent[T FileContent](t *testing.T, given T, expected bytes.Bytes) {
	actual := normalizeFileContent(given)

	assert.Equal(t, expected, actual)
}
