{
  "str": "abc",
  "num": {}
}
