package jschema

import (
	"sync"

	"github.com/jsightapi/jsight-schema-go-library/internal/lexeme"
)

// Document represents a document.
// It's a concrete data. Data maybe a scalar type or complex type.
//
// Not a thead safe!
//
// Example of the valid documents:
// - "foo"
// - [1, 2, 3]
// - {"foo": "bar"}
type Document interface {
	// NextLexeme returns next lexeme from this document.
	// Might return ParsingError if document isn't valid.
	// Will return io.EOF when no more lexemes are available.
	NextLexeme() (lexeme.LexEvent, error)

	// Len returns length of document in bytes.
	// Might return ParsingError if document isn't valid.
	Len() (uint, error)

	// Check checks that this document is valid.
	// Can return ParsingError if document isn't valid.
	Check() error
}

// Schema represents a schema.
// Schema is a some description of expected structure of payload.
type Schema interface {
	// Len returns length of this schema in bytes.
	// Might return ParsingError if schema isn't valid.
	Len() (uint, error)

	// Example returns an example for this schema.
	// Might return ParsingError if schema isn't valid.
	Example() ([]byte, error)

	// AddType adds a new type to this schema.
	// Might return a ParsingError if add type isn't valid.
	AddType(name string, schema Schema) error

	// AddRule adds a new type to this schema.
	// Might return a ParsingError if add type isn't valid.
	AddRule(name string, schema Rule) error

	// Check checks that this schema is valid.
	// Can return ParsingError if schema isn't valid.
	Check() error

	// Validate validates specified document.
	// Might return a ParsingError if schema isn't valid.
	// Can return a ValidationError if specified document isn't valid for this
	// schema.
	Validate(Document) error

	// GetAST returns a root AST node for this schema.
	GetAST() (ASTNode, error)

	// UsedUserTypes return all used user types.
	UsedUserTypes() ([]string, error)
}

// ASTNode an AST node.
type ASTNode struct {
	// TokenType corresponding JSON type for this AST node's value.
	TokenType TokenType

	// SchemaType corresponding schema type for this AST node's value.
	SchemaType string

	// Key a node key (if this is the property of the object).
	Key string

	// Value a node value.
	// Make sense only for scalars and shortcuts.
	Value string

	// Comment a ast node comment.
	Comment string

	// Rules a map of attached rules.
	Rules *RuleASTNodes

	// Children contains all array items and object properties.
	// Make sense only for arrays and object.
	Children []ASTNode

	// IsKeyShortcut will be true if this property key is shortcut.
	// Make sense only for AST nodes which are represents object property.
	IsKeyShortcut bool
}

// ASTNodes an ordered map of AST nodes.
// gen:OrderedMap
type ASTNodes struct {
	data  map[string]ASTNode
	order []string
	mx    sync.RWMutex
}

type RuleASTNode struct {
	// TokenType corresponding JSON type for this AST node's value.
	TokenType TokenType

	// Value a node value.
	// Make sense only for scalars and shortcuts.
	Value string

	// Comment a ast node comment.
	Comment string

	// Properties contains all object properties.
	// Make sense only for objects.
	Properties *RuleASTNodes

	// Items contains all array items.
	// Make sense only for arrays.
	Items []RuleASTNode

	// Source a source of this rule.
	Source RuleASTNodeSource
}

func NewRuleASTNodes(data map[string]RuleASTNode, order []string) *RuleASTNodes {
	return &RuleASTNodes{
		data:  data,
		order: order,
	}
}

func MakeRuleASTNodes(capacity int) *RuleASTNodes {
	return &RuleASTNodes{
		data:  make(map[string]RuleASTNode, capacity),
		order: make([]string, 0, capacity),
	}
}

type RuleASTNodeSource int

const (
	RuleASTNodeSourceUnknown RuleASTNodeSource = iota

	// RuleASTNodeSourceManual indicates rule added manually by the user.
	RuleASTNodeSourceManual

	// RuleASTNodeSourceGenerated indicates rule generated inside the code.
	RuleASTNodeSourceGenerated
)

// RuleASTNodes an ordered map of rule AST nodes.
// gen:OrderedMap
type RuleASTNodes struct {
	data  map[string]RuleASTNode
	order []string
	mx    sync.RWMutex
}

// Rule represents a custom user-defined rule.
type Rule interface {
	// Len returns length of this rule in bytes.
	// Might return ParsingError if rule isn't valid.
	Len() (uint, error)

	// Check checks this rule is valid.
	// Can return ParsingError if rule isn't valid.
	Check() error

	// GetAST returns a root AST node for this schema.
	GetAST() (ASTNode, error)
}

// ParsingError indicates something bad was happened during parsing.
type ParsingError interface {
	error

	// Position returns position of buggy character.
	Position() uint

	// Message returns an error message.
	Message() string

	// ErrCode returns an error code.
	ErrCode() int
}

// ValidationError indicates that validation was failed.
type ValidationError interface {
	error

	// Message returns an error message.
	Message() string

	// ErrCode returns an error code.
	ErrCode() int
}
