package internal

import (
	jschema "github.com/jsightapi/jsight-schema-go-library"
	"github.com/jsightapi/jsight-schema-go-library/errors"
)

type ValidationError struct {
	message string
	code    errors.ErrorCode
}

var _ jschema.ValidationError = ValidationError{}

func NewValidatorError(c errors.ErrorCode, msg string) ValidationError {
	return ValidationError{
		message: msg,
		code:    c,
	}
}

func (v ValidationError) Error() string {
	return errors.Format(v.code).Error()
}

func (v ValidationError) Message() string {
	return v.message
}

func (v ValidationError) ErrCode() int {
	return int(v.code)
}
