package regex

import (
	"regexp"
	"testing"

	"github.com/stretchr/testify/assert"
	"github.com/stretchr/testify/require"

	jschema "github.com/jsightapi/jsight-schema-go-library"
	"github.com/jsightapi/jsight-schema-go-library/fs"
)

func TestNew(t *testing.T) {
	const (
		name    = "foo"
		content = "bar"
	)

	s := New(name, content, WithGeneratorSeed(42))

	assert.Equal(t, fs.NewFile(name, content), s.file)
	assert.Equal(t, int64(42), s.generatorSeed)
	assert.Equal(t, "", s.pattern)
}

func TestFromFile(t *testing.T) {
	file := fs.NewFile("foo", "bar")

	s := FromFile(file, WithGeneratorSeed(42))

	assert.Equal(t, file, s.file)
	assert.Equal(t, int64(42), s.generatorSeed)
	assert.Equal(t, "", s.pattern)
}

func TestSchema_Pattern(t *testing.T) {
	t.Run("positive", func(t *testing.T) {
		actual, err := New("", complexRegex).Pattern()
		require.NoError(t, err)
		assert.Equal(t, complexRegexPattern, actual)
	})

	t.Run("negative", func(t *testing.T) {
		_, err := New("", "invalid").Pattern()
		assert.EqualError(t, err, `ERROR (code 1500): Regex should starts with '/' character, but found 'i'
	in line 1 on file 
	> invalid
	--^`)
	})
}

func TestSchema_Len(t *testing.T) {
	t.Run("positive", func(t *testing.T) {
		actual, err := New("", complexRegex).Len()
		require.NoError(t, err)
		assert.Equal(t, 430, int(actual))
	})

	t.Run("negative", func(t *testing.T) {
		_, err := New("", "invalid").Len()
		assert.EqualError(t, err, `ERROR (code 1500): Regex should starts with '/' character, but found 'i'
	in line 1 on file 
	> invalid
	--^`)
	})
}

func TestSchema_Example(t *testing.T) {
	t.Run("positive", func(t *testing.T) {
		cc := map[string]string{
			"/foo/":          "foo",
			"/bar-\\d{0,2}/": "bar-",
			complexRegex:     "d@[228.255.2.a:\\`]",
		}

		for given, expected := range cc {
			t.Run(given, func(t *testing.T) {
				s := New("", given, WithGeneratorSeed(0))
				actual, err := s.Example()
				require.NoError(t, err)

				assert.Equal(t, expected, string(actual))
				assert.True(t, regexp.MustCompile(s.pattern).Match(actual))
			})
		}
	})

	t.Run("negative", func(t *testing.T) {
		_, err := New("", "invalid").Len()
		assert.EqualError(t, err, `ERROR (code 1500): Regex should starts with '/' character, but found 'i'
	in line 1 on file 
	> invalid
	--^`)
	})
}

func TestSchema_AddType(t *testing.T) {
	err := (&Schema{}).AddType("foo", nil)
	require.NoError(t, err)
}

func TestSchema_AddRule(t *testing.T) {
	err := (&Schema{}).AddRule("foo", nil)
	require.NoError(t, err)
}

func TestSchema_Check(t *testing.T) {
	t.Run("positive", func(t *testing.T) {
		err := New("", complexRegex, WithGeneratorSeed(0)).Check()
		require.NoError(t, err)
	})

	t.Run("negative", func(t *testing.T) {
		err := New("", "invalid").Check()
		assert.EqualError(t, err, `ERROR (code 1500): Regex should starts with '/' character, but found 'i'
	in line 1 on file 
	> invalid
	--^`)
	})
}

func TestSchema_Validate(t *testing.T) {
	err := (&Schema{}).Validate(nil)
	assert.EqualError(t, err, "unimplemented")
}

func TestSchema_GetAST(t *testing.T) {
	t.Run("positive", func(t *testing.T) {
		actual, err := New("", complexRegex, WithGeneratorSeed(0)).GetAST()
		require.NoError(t, err)
		assert.Equal(t, jschema.ASTNode{
			TokenType:  jschema.TokenTypeString,
			SchemaType: string(jschema.SchemaTypeString),
			Value:      "/" + complexRegexPattern + "/",
		}, actual)
	})

	t.Run("negative", func(t *testing.T) {
		_, err := New("", "invalid").GetAST()
		assert.EqualError(t, err, `ERROR (code 1500): Regex should starts with '/' character, but found 'i'
	in line 1 on file 
	> invalid
	--^`)
	})
}

func TestSchema_UsedUserTypes(t *testing.T) {
	actual, err := (&Schema{}).UsedUserTypes()
	require.NoError(t, err)
	assert.Nil(t, actual)
}

func TestSchema_doCompile(t *testing.T) {
	t.Run("positive", func(t *testing.T) {
		cc := map[string]string{
			"/foo/":      "foo",
			"/foo/    ":  "foo",
			"/fo\\/o/":   "fo\\/o",
			"/foo\\//":   "foo\\/",
			complexRegex: complexRegexPattern,
		}

		for given, expected := range cc {
			t.Run(given, func(t *testing.T) {
				s := New("", given)
				err := s.doCompile()
				require.NoError(t, err)
				assert.Equal(t, expected, s.pattern)
			})
		}
	})

	t.Run("negative", func(t *testing.T) {
		cc := map[string]string{
			"foo": `ERROR (code 1500): Regex should starts with '/' character, but found 'f'
	in line 1 on file 
	> foo
	--^`,
			"/foo": `ERROR (code 1501): Regex should ends with '/' character, but found 'o'
	in line 1 on file 
	> /foo
	-----^`,
			"/[-1}/": `ERROR (code 1502): Invalid regex /[-1}/
	in line 1 on file 
	> /[-1}/
	--^`,
		}

		for given, expected := range cc {
			t.Run(given, func(t *testing.T) {
				err := New("", given).doCompile()
				assert.EqualError(t, err, expected)
			})
		}
	})
}

const (
	complexRegex        = "/(?:[a-z0-9!#$%&'*+\\/=?^_`{|}~-]+(?:\\.[a-z0-9!#$%&'*+\\/=?^_`{|}~-]+)*|\"(?:[\\x01-\\x08\\x0b\\x0c\\x0e-\\x1f\\x21\\x23-\\x5b\\x5d-\\x7f]|\\\\[\\x01-\\x09\\x0b\\x0c\\x0e-\\x7f])*\")@(?:(?:[a-z0-9](?:[a-z0-9-]*[a-z0-9])?\\.)+[a-z0-9](?:[a-z0-9-]*[a-z0-9])?|\\[(?:(?:25[0-5]|2[0-4][0-9]|[01]?[0-9][0-9]?)\\.){3}(?:25[0-5]|2[0-4][0-9]|[01]?[0-9][0-9]?|[a-z0-9-]*[a-z0-9]:(?:[\\x01-\\x08\\x0b\\x0c\\x0e-\\x1f\\x21-\\x5a\\x53-\\x7f]|\\\\[\\x01-\\x09\\x0b\\x0c\\x0e-\\x7f])+)\\])/"
	complexRegexPattern = "(?:[a-z0-9!#$%&'*+\\/=?^_`{|}~-]+(?:\\.[a-z0-9!#$%&'*+\\/=?^_`{|}~-]+)*|\"(?:[\\x01-\\x08\\x0b\\x0c\\x0e-\\x1f\\x21\\x23-\\x5b\\x5d-\\x7f]|\\\\[\\x01-\\x09\\x0b\\x0c\\x0e-\\x7f])*\")@(?:(?:[a-z0-9](?:[a-z0-9-]*[a-z0-9])?\\.)+[a-z0-9](?:[a-z0-9-]*[a-z0-9])?|\\[(?:(?:25[0-5]|2[0-4][0-9]|[01]?[0-9][0-9]?)\\.){3}(?:25[0-5]|2[0-4][0-9]|[01]?[0-9][0-9]?|[a-z0-9-]*[a-z0-9]:(?:[\\x01-\\x08\\x0b\\x0c\\x0e-\\x1f\\x21-\\x5a\\x53-\\x7f]|\\\\[\\x01-\\x09\\x0b\\x0c\\x0e-\\x7f])+)\\])"
)
