package regex

import (
	stdErrors "errors"
	"regexp"

	"github.com/lucasjones/reggen"

	jschema "github.com/jsightapi/jsight-schema-go-library"
	"github.com/jsightapi/jsight-schema-go-library/bytes"
	"github.com/jsightapi/jsight-schema-go-library/errors"
	"github.com/jsightapi/jsight-schema-go-library/fs"
	"github.com/jsightapi/jsight-schema-go-library/internal/sync"
)

type Schema struct {
	file *fs.File

	pattern       string
	compileOnce   sync.ErrOnce
	generatorSeed int64
}

var _ jschema.Schema = &Schema{}

type Option func(*Schema)

// WithGeneratorSeed pass specific seed to regex example generator.
// Necessary for test.
func WithGeneratorSeed(seed int64) Option {
	return func(s *Schema) {
		s.generatorSeed = seed
	}
}

// New creates a Regex schema with specified name and content.
func New[T fs.FileContent](name string, content T, oo ...Option) *Schema {
	return FromFile(fs.NewFile(name, content), oo...)
}

// FromFile creates a Regex schema from file.
func FromFile(f *fs.File, oo ...Option) *Schema {
	s := &Schema{
		file: f,
	}

	for _, o := range oo {
		o(s)
	}

	return s
}

func (s *Schema) Pattern() (string, error) {
	if err := s.compile(); err != nil {
		return "", err
	}
	return s.pattern, nil
}

func (s *Schema) Len() (uint, error) {
	if err := s.compile(); err != nil {
		return 0, err
	}
	// Add 2 for beginning and ending '/' character.
	return uint(len(s.pattern)) + 2, nil
}

func (s *Schema) Example() ([]byte, error) {
	if err := s.compile(); err != nil {
		return nil, err
	}

	return s.generateExample()
}

func (s *Schema) generateExample() ([]byte, error) {
	// A fresh generator per call: the example must not depend on how often it
	// was requested before, and the generator is not safe for concurrent use.
	g, err := reggen.NewGenerator(s.pattern)
	if err != nil {
		return nil, err
	}
	g.SetSeed(s.generatorSeed)

	return []byte(g.Generate(1)), nil
}

func (*Schema) AddType(string, jschema.Schema) error {
	// Regex doesn't use any user types at all.
	return nil
}

func (*Schema) AddRule(string, jschema.Rule) error {
	// Regex doesn't use any rules at all.
	return nil
}

func (s *Schema) Check() error {
	return s.compile()
}

func (*Schema) Validate(jschema.Document) error {
	return stdErrors.New("unimplemented")
}

func (s *Schema) GetAST() (jschema.ASTNode, error) {
	if err := s.compile(); err != nil {
		return jschema.ASTNode{}, err
	}
	return jschema.ASTNode{
		IsKeyShortcut: false,
		TokenType:     jschema.TokenTypeString,
		SchemaType:    string(jschema.SchemaTypeString),
		Rules:         nil,
		Value:         "/" + s.pattern + "/",
	}, nil
}

func (*Schema) UsedUserTypes() ([]string, error) {
	// Regex doesn't use any user types at all.
	return nil, nil
}

func (s *Schema) compile() error {
	return s.compileOnce.Do(func() error {
		return s.doCompile()
	})
}

func (s *Schema) doCompile() error {
	content := s.file.Content()

	if len(content) == 0 {
		return errors.NewDocumentError(s.file, errors.Format(errors.ErrRegexUnexpectedStart, "end of file"))
	}

	if content[0] != '/' {
		return s.newDocumentError(errors.ErrRegexUnexpectedStart, 0, content[0])
	}

	var escaped bool

loop:
	for i, c := range content[1:] {
		switch c {
		case '\\':
			escaped = !escaped

		case '/':
			if !escaped {
				s.pattern = string(content[1 : i+1])
				break loop
			}
			escaped = false

		default:
			escaped = false
		}
	}

	if s.pattern == "" {
		idx := uint(len(content) - 1)
		return s.newDocumentError(errors.ErrRegexUnexpectedEnd, idx, content[idx])
	}

	if _, err := regexp.Compile(s.pattern); err != nil {
		e := errors.Format(errors.ErrRegexInvalid, content)
		err := errors.NewDocumentError(s.file, e)
		err.SetIndex(bytes.Index(0))
		return err
	}
	return nil
}

func (s *Schema) newDocumentError(code errors.ErrorCode, idx uint, c byte) errors.DocumentError {
	e := errors.Format(code, bytes.QuoteChar(c))
	err := errors.NewDocumentError(s.file, e)
	err.SetIndex(bytes.Index(idx))
	return err
}
