//go:build verif

package jschema

import (
	"fmt"
	"strconv"
	"strings"

	root "github.com/jsightapi/jsight-schema-go-library"
	"github.com/jsightapi/jsight-schema-go-library/bytes"
	"github.com/jsightapi/jsight-schema-go-library/errors"
	"github.com/jsightapi/jsight-schema-go-library/fs"
	"github.com/jsightapi/jsight-schema-go-library/internal/json"
	"github.com/jsightapi/jsight-schema-go-library/notations/jschema/internal/scanner"
	"github.com/jsightapi/jsight-schema-go-library/notations/jschema/internal/schema"
	"github.com/jsightapi/jsight-schema-go-library/notations/jschema/internal/schema/constraint"
)

// Verification hooks (build tag verif): re-export internal behaviour in a
// canonical textual form for the correspondence checks of /verif.

func verifRecovered(r interface{}) string {
	if de, ok := r.(errors.DocumentError); ok {
		return fmt.Sprintf("ERR %d %d", de.ErrCode(), de.Position())
	}
	return fmt.Sprintf("CRASH %v", r)
}

// VerifSchemaEvents returns the lexical events of the schema scanner.
func VerifSchemaEvents(content []byte) (out string) {
	defer func() {
		if r := recover(); r != nil {
			out = verifRecovered(r)
		}
	}()
	s := scanner.New(fs.NewFile("x", content))
	var sb []string
	for {
		lex, ok := s.Next()
		if !ok {
			break
		}
		sb = append(sb, fmt.Sprintf("%s[%d:%d]", lex.Type().String(), lex.Begin(), lex.End()))
	}
	return strings.Join(sb, " ")
}

// VerifSchemaLen returns the result of the schema scanner's length mode.
func VerifSchemaLen(content []byte) (out string) {
	defer func() {
		if r := recover(); r != nil {
			out = verifRecovered(r)
		}
	}()
	s := scanner.New(fs.NewFile("x", content), scanner.ComputeLength)
	return fmt.Sprintf("LEN %d", s.Length())
}

func verifOK(f func()) (r bool) {
	defer func() {
		if x := recover(); x != nil {
			r = false
		}
	}()
	f()
	return true
}

// VerifFormat runs one format constraint ("uuid", "date", "datetime", "email",
// "uri") on a quoted JSON string token.
func VerifFormat(kind string, token []byte) bool {
	q := bytes.Bytes(token)
	switch kind {
	case "uuid":
		return verifOK(func() { constraint.NewUuid().Validate(q) })
	case "date":
		return verifOK(func() { constraint.NewDate().Validate(q) })
	case "datetime":
		return verifOK(func() { constraint.NewDateTime().Validate(q) })
	case "email":
		return verifOK(func() { constraint.NewEmail().Validate(q) })
	case "uri":
		return verifOK(func() { constraint.NewUri().Validate(q) })
	}
	panic("unknown format kind " + kind)
}

// VerifCompatTable lists IsJsonTypeCompatible for every constraint type that
// can be built without context and every JSON type: "name:jsontype:0|1".
func VerifCompatTable() []string {
	one := bytes.Bytes("1")
	tru := bytes.Bytes("true")
	cs := []constraint.Constraint{
		constraint.NewMinLength(one), constraint.NewMaxLength(one),
		constraint.NewMin(one), constraint.NewMax(one),
		constraint.NewExclusiveMinimum(tru), constraint.NewExclusiveMaximum(tru),
		constraint.NewPrecision(one),
		constraint.NewType(bytes.Bytes(`"string"`), root.RuleASTNodeSourceManual),
		constraint.NewTypesList(root.RuleASTNodeSourceManual),
		constraint.NewOptional(tru), constraint.NewOr(root.RuleASTNodeSourceManual),
		constraint.NewRequiredKeys(), constraint.NewEmail(),
		constraint.NewMinItems(one), constraint.NewMaxItems(one),
		constraint.NewEnum(), constraint.NewAdditionalProperties(tru),
		constraint.NewAllOf(), constraint.NewAny(), constraint.NewNullable(tru),
		constraint.NewRegex(bytes.Bytes(`"a"`)), constraint.NewUri(), constraint.NewDate(),
		constraint.NewDateTime(), constraint.NewUuid(), constraint.NewConst(tru, one),
	}
	var out []string
	for _, c := range cs {
		for _, t := range []json.Type{json.TypeUndefined, json.TypeObject, json.TypeArray, json.TypeString,
			json.TypeInteger, json.TypeFloat, json.TypeBoolean, json.TypeNull, json.TypeMixed} {
			b := 0
			if c.IsJsonTypeCompatible(t) {
				b = 1
			}
			out = append(out, fmt.Sprintf("%s:%s:%d", c.Type().String(), t.String(), b))
		}
	}
	return out
}

// VerifConstraintsOps drives a schema.Constraints ordered map with a sequence
// of operations (same textual protocol as the harness uses for the public
// ordered maps) and returns one observation per operation plus the final state.
// Keys are constraint types 0..n, values are minLength constraints carrying a
// number.
func VerifConstraintsOps(ops []string) (out []string) {
	defer func() {
		if r := recover(); r != nil {
			out = append(out, fmt.Sprintf("CRASH %v", r))
		}
	}()
	m := &schema.Constraints{}
	val := func(c constraint.Constraint) int {
		if c == nil {
			return -1
		}
		return int(c.(*constraint.MinLength).Value())
	}
	mk := func(v int) constraint.Constraint { return constraint.NewMinLength(bytes.Bytes(strconv.Itoa(v))) }
	pred := func(p int, k constraint.Type, c constraint.Constraint) bool {
		switch p {
		case 0:
			return int(k) != 0
		case 1:
			return val(c)%2 == 0
		case 2:
			return false
		default:
			return true
		}
	}
	for _, op := range ops {
		f := strings.Fields(op)
		arg := func(i int) int { n, _ := strconv.Atoi(f[i]); return n }
		switch f[0] {
		case "S":
			m.Set(constraint.Type(arg(1)), mk(arg(2)))
			out = append(out, "-")
		case "U":
			m.Update(constraint.Type(arg(1)), func(c constraint.Constraint) constraint.Constraint { return mk(val(c) + 10) })
			out = append(out, "-")
		case "D":
			m.Delete(constraint.Type(arg(1)))
			out = append(out, "-")
		case "F":
			var tr []string
			p := arg(1)
			m.Filter(func(k constraint.Type, c constraint.Constraint) bool {
				tr = append(tr, fmt.Sprintf("%d=%d", int(k), val(c)))
				return pred(p, k, c)
			})
			out = append(out, "visit "+strings.Join(tr, ","))
		case "M":
			var tr []string
			_ = m.Map(func(k constraint.Type, c constraint.Constraint) (constraint.Constraint, error) {
				tr = append(tr, fmt.Sprintf("%d=%d", int(k), val(c)))
				return mk(val(c) + 1), nil
			})
			out = append(out, "visit "+strings.Join(tr, ","))
		case "Q":
			p := arg(1)
			it, ok := m.Find(func(k constraint.Type, c constraint.Constraint) bool { return pred(p, k, c) })
			if ok {
				out = append(out, fmt.Sprintf("found %d=%d", int(it.Key), val(it.Value)))
			} else {
				out = append(out, "none")
			}
		case "G":
			c, ok := m.Get(constraint.Type(arg(1)))
			if ok {
				out = append(out, fmt.Sprintf("some %d", val(c)))
			} else {
				out = append(out, "none")
			}
		case "V":
			out = append(out, fmt.Sprintf("val %d", val(m.GetValue(constraint.Type(arg(1))))))
		case "H":
			out = append(out, fmt.Sprintf("has %v", m.Has(constraint.Type(arg(1)))))
		case "L":
			out = append(out, fmt.Sprintf("len %d", m.Len()))
		case "E":
			var tr []string
			_ = m.Each(func(k constraint.Type, c constraint.Constraint) error {
				tr = append(tr, fmt.Sprintf("%d=%d", int(k), val(c)))
				return nil
			})
			out = append(out, "each "+strings.Join(tr, ","))
		case "A":
			var tr []string
			m.EachSafe(func(k constraint.Type, c constraint.Constraint) {
				tr = append(tr, fmt.Sprintf("%d=%d", int(k), val(c)))
			})
			out = append(out, "each "+strings.Join(tr, ","))
		default:
			out = append(out, "bad-op")
		}
	}
	var tr []string
	m.EachSafe(func(k constraint.Type, c constraint.Constraint) {
		tr = append(tr, fmt.Sprintf("%d=%d", int(k), val(c)))
	})
	out = append(out, fmt.Sprintf("final %s|%d", strings.Join(tr, ","), m.Len()))
	return out
}
