package jschema

import (
	"testing"

	"github.com/stretchr/testify/require"
)

func Benchmark_buildExample(b *testing.B) {
	s := New("", `{
	"foo": "bar",
	"fizz": [
		1,
		2,
		3
	],
	"buzz": {
		"foo": [
			{"bar": 1},
			{"bar": 2}
		],
		"bar": {
			"fizz": 42,
			"buzz": [1, 2, 3]
		},
		"fizz": 1, // {or: ["string", "integer"]}
		"buzz": 2
	}
}`)
	require.NoError(b, s.compile())

	node := s.inner.RootNode()

	b.ReportAllocs()
	b.ResetTimer()

	for i := 0; i < b.N; i++ {
		_, _ = buildExample(node, nil)
	}
}
