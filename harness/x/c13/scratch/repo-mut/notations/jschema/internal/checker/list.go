package checker

import (
	"github.com/jsightapi/jsight-schema-go-library/notations/jschema/internal/schema"
	"github.com/jsightapi/jsight-schema-go-library/notations/jschema/internal/schema/constraint"
)

type nodeCheckerListConstructor struct {
	// types the map of used types.
	types map[string]schema.Type

	// addedTypeNames a set of already added types. Exists for excluding
	// recursive addition of type to the list.
	addedTypeNames map[string]struct{}

	// A rootSchema from which it is possible to receive type by their name.
	rootSchema *schema.Schema

	// A list of checkers for the node.
	list []nodeChecker
}

func (l *nodeCheckerListConstructor) buildList(node schema.Node) {
	constr := node.Constraint(constraint.TypesListConstraintType)
	if constr != nil {
		names := constr.(*constraint.TypesList).Names()
		l.appendTypeValidators(names)
	} else {
		l.appendNodeValidators(node)
	}
}

func (l *nodeCheckerListConstructor) appendTypeValidators(names []string) {
	if l.list == nil {
		l.addedTypeNames = make(map[string]struct{}, len(names)) // optimizing memory allocation
		l.list = make([]nodeChecker, 0, len(names))              // optimizing memory allocation
	}
	for _, name := range names {
		if _, ok := l.addedTypeNames[name]; !ok {
			l.addedTypeNames[name] = struct{}{}
			l.buildList(getType(name, l.rootSchema, l.types).RootNode()) // can panic
		}
	}
}

func (l *nodeCheckerListConstructor) appendNodeValidators(node schema.Node) {
	if l.list == nil {
		l.list = make([]nodeChecker, 0, 1) // optimizing memory allocation
	}

	c, err := newNodeChecker(node)
	if err != nil {
		panic(err)
	}

	l.list = append(l.list, c)
}
