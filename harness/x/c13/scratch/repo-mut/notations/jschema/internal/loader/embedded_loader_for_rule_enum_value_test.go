package loader

import (
	"testing"

	"github.com/stretchr/testify/assert"

	jschema "github.com/jsightapi/jsight-schema-go-library"
	"github.com/jsightapi/jsight-schema-go-library/bytes"
	"github.com/jsightapi/jsight-schema-go-library/errors"
	"github.com/jsightapi/jsight-schema-go-library/fs"
	"github.com/jsightapi/jsight-schema-go-library/internal/lexeme"
	"github.com/jsightapi/jsight-schema-go-library/internal/mocks"
	"github.com/jsightapi/jsight-schema-go-library/notations/jschema/internal/schema/constraint"
	"github.com/jsightapi/jsight-schema-go-library/rules/enum"
)

func Test_newEnumValueLoader(t *testing.T) {
	c := &constraint.Enum{}
	rr := map[string]jschema.Rule{
		"foo": mocks.NewRule(t),
	}
	l := newEnumValueLoader(c, rr)

	assert.Same(t, c, l.enumConstraint)
	assert.Equal(t, rr, l.rules)
	assert.NotNil(t, l.stateFunc)
	assert.True(t, l.inProgress)
}

func TestEnumValueLoader_load(t *testing.T) {
	t.Run("positive", func(t *testing.T) {
		expected := newFakeLexEvent(lexeme.LiteralBegin)

		l := &enumValueLoader{
			stateFunc: func(lex lexeme.LexEvent) {
				assert.Equal(t, expected, lex)
			},
			inProgress: true,
		}

		ret := l.Load(expected)
		assert.True(t, ret)
	})

	t.Run("negative", func(t *testing.T) {
		assert.Panics(t, func() {
			expected := newFakeLexEvent(lexeme.LiteralBegin)

			l := &enumValueLoader{
				stateFunc: func(lex lexeme.LexEvent) {
					panic("foo")
				},
				inProgress: true,
			}

			ret := l.Load(expected)
			assert.False(t, ret)
		})
	})
}

func TestEnumValueLoader_begin(t *testing.T) {
	cc := map[lexeme.LexEventType]bool{
		lexeme.LiteralBegin:                 true,
		lexeme.LiteralEnd:                   true,
		lexeme.ObjectBegin:                  true,
		lexeme.ObjectEnd:                    true,
		lexeme.ObjectKeyBegin:               true,
		lexeme.ObjectKeyEnd:                 true,
		lexeme.ObjectValueBegin:             true,
		lexeme.ObjectValueEnd:               true,
		lexeme.ArrayBegin:                   false,
		lexeme.ArrayEnd:                     true,
		lexeme.ArrayItemBegin:               true,
		lexeme.ArrayItemEnd:                 true,
		lexeme.InlineAnnotationBegin:        true,
		lexeme.InlineAnnotationEnd:          true,
		lexeme.InlineAnnotationTextBegin:    true,
		lexeme.InlineAnnotationTextEnd:      true,
		lexeme.MultiLineAnnotationBegin:     true,
		lexeme.MultiLineAnnotationEnd:       true,
		lexeme.MultiLineAnnotationTextBegin: true,
		lexeme.MultiLineAnnotationTextEnd:   true,
		lexeme.NewLine:                      true,
		lexeme.TypesShortcutBegin:           true,
		lexeme.TypesShortcutEnd:             true,
		lexeme.KeyShortcutBegin:             true,
		lexeme.KeyShortcutEnd:               true,
		lexeme.MixedValueBegin:              false,
		lexeme.MixedValueEnd:                true,
		lexeme.EndTop:                       true,
	}

	for typ, shouldPanic := range cc {
		t.Run(typ.String(), func(t *testing.T) {
			l := &enumValueLoader{}

			if shouldPanic {
				assert.PanicsWithValue(t, errors.ErrInvalidValueInEnumRule, func() {
					l.begin(newFakeLexEvent(typ))
				})
			} else {
				l.begin(newFakeLexEvent(typ))
				assert.NotNil(t, l.stateFunc)
			}
		})
	}
}

func TestEnumValueLoader_arrayItemBeginOrArrayEnd(t *testing.T) {
	cc := map[lexeme.LexEventType]struct {
		shouldPanic bool
		inProgress  bool
	}{
		lexeme.LiteralBegin: {
			shouldPanic: true,
		},
		lexeme.LiteralEnd: {
			shouldPanic: true,
		},
		lexeme.ObjectBegin: {
			shouldPanic: true,
		},
		lexeme.ObjectEnd: {
			shouldPanic: true,
		},
		lexeme.ObjectKeyBegin: {
			shouldPanic: true,
		},
		lexeme.ObjectKeyEnd: {
			shouldPanic: true,
		},
		lexeme.ObjectValueBegin: {
			shouldPanic: true,
		},
		lexeme.ObjectValueEnd: {
			shouldPanic: true,
		},
		lexeme.ArrayBegin: {
			shouldPanic: true,
		},
		lexeme.ArrayEnd: {
			shouldPanic: false,
			inProgress:  false,
		},
		lexeme.ArrayItemBegin: {
			shouldPanic: false,
			inProgress:  true,
		},
		lexeme.ArrayItemEnd: {
			shouldPanic: true,
		},
		lexeme.InlineAnnotationBegin: {
			shouldPanic: false,
			inProgress:  true,
		},
		lexeme.InlineAnnotationEnd: {
			shouldPanic: true,
		},
		lexeme.InlineAnnotationTextBegin: {
			shouldPanic: true,
		},
		lexeme.InlineAnnotationTextEnd: {
			shouldPanic: true,
		},
		lexeme.MultiLineAnnotationBegin: {
			shouldPanic: true,
		},
		lexeme.MultiLineAnnotationEnd: {
			shouldPanic: true,
		},
		lexeme.MultiLineAnnotationTextBegin: {
			shouldPanic: true,
		},
		lexeme.MultiLineAnnotationTextEnd: {
			shouldPanic: true,
		},
		lexeme.NewLine: {
			shouldPanic: true,
		},
		lexeme.TypesShortcutBegin: {
			shouldPanic: true,
		},
		lexeme.TypesShortcutEnd: {
			shouldPanic: true,
		},
		lexeme.KeyShortcutBegin: {
			shouldPanic: true,
		},
		lexeme.KeyShortcutEnd: {
			shouldPanic: true,
		},
		lexeme.MixedValueBegin: {
			shouldPanic: true,
		},
		lexeme.MixedValueEnd: {
			shouldPanic: true,
		},
		lexeme.EndTop: {
			shouldPanic: true,
		},
	}

	for typ, c := range cc {
		t.Run(typ.String(), func(t *testing.T) {
			l := &enumValueLoader{
				inProgress: true,
			}

			if c.shouldPanic {
				assert.PanicsWithValue(t, errors.ErrLoader, func() {
					l.arrayItemBeginOrArrayEnd(newFakeLexEvent(typ))
				})
			} else {
				l.arrayItemBeginOrArrayEnd(newFakeLexEvent(typ))
				assert.NotNil(t, l.stateFunc)
				assert.Equal(t, c.inProgress, l.inProgress)
			}
		})
	}
}

func TestEnumValueLoader_commentStart(t *testing.T) {
	cc := map[lexeme.LexEventType]bool{
		lexeme.LiteralBegin:                 true,
		lexeme.LiteralEnd:                   true,
		lexeme.ObjectBegin:                  true,
		lexeme.ObjectEnd:                    true,
		lexeme.ObjectKeyBegin:               true,
		lexeme.ObjectKeyEnd:                 true,
		lexeme.ObjectValueBegin:             true,
		lexeme.ObjectValueEnd:               true,
		lexeme.ArrayBegin:                   true,
		lexeme.ArrayEnd:                     true,
		lexeme.ArrayItemBegin:               true,
		lexeme.ArrayItemEnd:                 true,
		lexeme.InlineAnnotationBegin:        true,
		lexeme.InlineAnnotationEnd:          true,
		lexeme.InlineAnnotationTextBegin:    false,
		lexeme.InlineAnnotationTextEnd:      true,
		lexeme.MultiLineAnnotationBegin:     true,
		lexeme.MultiLineAnnotationEnd:       true,
		lexeme.MultiLineAnnotationTextBegin: true,
		lexeme.MultiLineAnnotationTextEnd:   true,
		lexeme.NewLine:                      true,
		lexeme.TypesShortcutBegin:           true,
		lexeme.TypesShortcutEnd:             true,
		lexeme.KeyShortcutBegin:             true,
		lexeme.KeyShortcutEnd:               true,
		lexeme.MixedValueBegin:              true,
		lexeme.MixedValueEnd:                true,
		lexeme.EndTop:                       true,
	}

	for typ, shouldPanic := range cc {
		t.Run(typ.String(), func(t *testing.T) {
			l := &enumValueLoader{}

			if shouldPanic {
				assert.PanicsWithValue(t, errors.ErrLoader, func() {
					l.commentStart(newFakeLexEvent(typ))
				})
			} else {
				l.commentStart(newFakeLexEvent(typ))
				assert.NotNil(t, l.stateFunc)
			}
		})
	}
}

func TestEnumValueLoader_commentEnd(t *testing.T) {
	cc := map[lexeme.LexEventType]bool{
		lexeme.LiteralBegin:                 true,
		lexeme.LiteralEnd:                   true,
		lexeme.ObjectBegin:                  true,
		lexeme.ObjectEnd:                    true,
		lexeme.ObjectKeyBegin:               true,
		lexeme.ObjectKeyEnd:                 true,
		lexeme.ObjectValueBegin:             true,
		lexeme.ObjectValueEnd:               true,
		lexeme.ArrayBegin:                   true,
		lexeme.ArrayEnd:                     true,
		lexeme.ArrayItemBegin:               true,
		lexeme.ArrayItemEnd:                 true,
		lexeme.InlineAnnotationBegin:        true,
		lexeme.InlineAnnotationEnd:          true,
		lexeme.InlineAnnotationTextBegin:    true,
		lexeme.InlineAnnotationTextEnd:      false,
		lexeme.MultiLineAnnotationBegin:     true,
		lexeme.MultiLineAnnotationEnd:       true,
		lexeme.MultiLineAnnotationTextBegin: true,
		lexeme.MultiLineAnnotationTextEnd:   true,
		lexeme.NewLine:                      true,
		lexeme.TypesShortcutBegin:           true,
		lexeme.TypesShortcutEnd:             true,
		lexeme.KeyShortcutBegin:             true,
		lexeme.KeyShortcutEnd:               true,
		lexeme.MixedValueBegin:              true,
		lexeme.MixedValueEnd:                true,
		lexeme.EndTop:                       true,
	}

	for typ, shouldPanic := range cc {
		t.Run(typ.String(), func(t *testing.T) {
			c := constraint.NewEnum()
			c.Append(constraint.NewEnumItem([]byte("42"), ""))

			l := newEnumValueLoader(c, nil)

			if shouldPanic {
				assert.PanicsWithValue(t, errors.ErrLoader, func() {
					l.commentEnd(newFakeLexEvent(typ))
				})
			} else {
				l.commentEnd(newFakeLexEventWithValue(typ, "comment"))

				assert.NotNil(t, l.stateFunc)
				assert.Equal(t, jschema.RuleASTNode{
					TokenType:  jschema.TokenTypeArray,
					Properties: &jschema.RuleASTNodes{},
					Items: []jschema.RuleASTNode{
						{
							TokenType:  jschema.TokenTypeNumber,
							Value:      "42",
							Comment:    "comment",
							Properties: &jschema.RuleASTNodes{},
							Source:     jschema.RuleASTNodeSourceManual,
						},
					},
					Source: jschema.RuleASTNodeSourceManual,
				}, c.ASTNode())
			}
		})
	}
}

func TestEnumValueLoader_annotationEnd(t *testing.T) {
	cc := map[lexeme.LexEventType]bool{
		lexeme.LiteralBegin:                 true,
		lexeme.LiteralEnd:                   true,
		lexeme.ObjectBegin:                  true,
		lexeme.ObjectEnd:                    true,
		lexeme.ObjectKeyBegin:               true,
		lexeme.ObjectKeyEnd:                 true,
		lexeme.ObjectValueBegin:             true,
		lexeme.ObjectValueEnd:               true,
		lexeme.ArrayBegin:                   true,
		lexeme.ArrayEnd:                     true,
		lexeme.ArrayItemBegin:               true,
		lexeme.ArrayItemEnd:                 true,
		lexeme.InlineAnnotationBegin:        true,
		lexeme.InlineAnnotationEnd:          false,
		lexeme.InlineAnnotationTextBegin:    true,
		lexeme.InlineAnnotationTextEnd:      true,
		lexeme.MultiLineAnnotationBegin:     true,
		lexeme.MultiLineAnnotationEnd:       true,
		lexeme.MultiLineAnnotationTextBegin: true,
		lexeme.MultiLineAnnotationTextEnd:   true,
		lexeme.NewLine:                      true,
		lexeme.TypesShortcutBegin:           true,
		lexeme.TypesShortcutEnd:             true,
		lexeme.KeyShortcutBegin:             true,
		lexeme.KeyShortcutEnd:               true,
		lexeme.MixedValueBegin:              true,
		lexeme.MixedValueEnd:                true,
		lexeme.EndTop:                       true,
	}

	for typ, shouldPanic := range cc {
		t.Run(typ.String(), func(t *testing.T) {
			l := &enumValueLoader{}

			if shouldPanic {
				assert.PanicsWithValue(t, errors.ErrLoader, func() {
					l.annotationEnd(newFakeLexEvent(typ))
				})
			} else {
				l.annotationEnd(newFakeLexEvent(typ))
				assert.NotNil(t, l.stateFunc)
			}
		})
	}
}

func TestEnumValueLoader_literal(t *testing.T) {
	shouldPanics := []lexeme.LexEventType{
		lexeme.ObjectBegin,
		lexeme.ObjectEnd,
		lexeme.ObjectKeyBegin,
		lexeme.ObjectKeyEnd,
		lexeme.ObjectValueBegin,
		lexeme.ObjectValueEnd,
		lexeme.ArrayBegin,
		lexeme.ArrayEnd,
		lexeme.ArrayItemBegin,
		lexeme.ArrayItemEnd,
		lexeme.InlineAnnotationBegin,
		lexeme.InlineAnnotationEnd,
		lexeme.InlineAnnotationTextBegin,
		lexeme.InlineAnnotationTextEnd,
		lexeme.MultiLineAnnotationBegin,
		lexeme.MultiLineAnnotationEnd,
		lexeme.MultiLineAnnotationTextBegin,
		lexeme.MultiLineAnnotationTextEnd,
		lexeme.NewLine,
		lexeme.TypesShortcutBegin,
		lexeme.TypesShortcutEnd,
		lexeme.KeyShortcutBegin,
		lexeme.KeyShortcutEnd,
		lexeme.MixedValueBegin,
		lexeme.MixedValueEnd,
		lexeme.EndTop,
	}

	for _, typ := range shouldPanics {
		t.Run(typ.String(), func(t *testing.T) {
			assert.PanicsWithValue(t, errors.ErrIncorrectArrayItemTypeInEnumRule, func() {
				(&enumValueLoader{}).literal(newFakeLexEvent(typ))
			})
		})
	}

	t.Run(lexeme.LiteralBegin.String(), func(t *testing.T) {
		l := &enumValueLoader{}
		l.literal(newFakeLexEvent(lexeme.LiteralBegin))
		assert.Nil(t, l.stateFunc)
	})

	t.Run(lexeme.LiteralEnd.String(), func(t *testing.T) {
		c := constraint.NewEnum()
		l := newEnumValueLoader(c, nil)
		l.lastIdx = -1

		l.literal(newFakeLexEventWithValue(lexeme.LiteralEnd, "42"))
		assert.EqualValues(t, 0, l.lastIdx)
		assert.NotNil(t, l.stateFunc)
		assert.Equal(t, jschema.RuleASTNode{
			TokenType:  jschema.TokenTypeArray,
			Properties: &jschema.RuleASTNodes{},
			Items: []jschema.RuleASTNode{
				{
					TokenType:  jschema.TokenTypeNumber,
					Value:      "42",
					Properties: &jschema.RuleASTNodes{},
					Source:     jschema.RuleASTNodeSourceManual,
				},
			},
			Source: jschema.RuleASTNodeSourceManual,
		}, c.ASTNode())
	})
}

func TestEnumValueLoader_arrayItemEnd(t *testing.T) {
	cc := map[lexeme.LexEventType]bool{
		lexeme.LiteralBegin:                 true,
		lexeme.LiteralEnd:                   true,
		lexeme.ObjectBegin:                  true,
		lexeme.ObjectEnd:                    true,
		lexeme.ObjectKeyBegin:               true,
		lexeme.ObjectKeyEnd:                 true,
		lexeme.ObjectValueBegin:             true,
		lexeme.ObjectValueEnd:               true,
		lexeme.ArrayBegin:                   true,
		lexeme.ArrayEnd:                     true,
		lexeme.ArrayItemBegin:               true,
		lexeme.ArrayItemEnd:                 false,
		lexeme.InlineAnnotationBegin:        true,
		lexeme.InlineAnnotationEnd:          true,
		lexeme.InlineAnnotationTextBegin:    true,
		lexeme.InlineAnnotationTextEnd:      true,
		lexeme.MultiLineAnnotationBegin:     true,
		lexeme.MultiLineAnnotationEnd:       true,
		lexeme.MultiLineAnnotationTextBegin: true,
		lexeme.MultiLineAnnotationTextEnd:   true,
		lexeme.NewLine:                      true,
		lexeme.TypesShortcutBegin:           true,
		lexeme.TypesShortcutEnd:             true,
		lexeme.KeyShortcutBegin:             true,
		lexeme.KeyShortcutEnd:               true,
		lexeme.MixedValueBegin:              true,
		lexeme.MixedValueEnd:                true,
		lexeme.EndTop:                       true,
	}

	for typ, shouldPanic := range cc {
		t.Run(typ.String(), func(t *testing.T) {
			l := &enumValueLoader{}

			if shouldPanic {
				assert.PanicsWithValue(t, errors.ErrLoader, func() {
					l.arrayItemEnd(newFakeLexEvent(typ))
				})
			} else {
				l.arrayItemEnd(newFakeLexEvent(typ))
				assert.NotNil(t, l.stateFunc)
			}
		})
	}
}

func TestEnumValueLoader_ruleNameBegin(t *testing.T) {
	cc := map[lexeme.LexEventType]bool{
		lexeme.LiteralBegin:                 true,
		lexeme.LiteralEnd:                   true,
		lexeme.ObjectBegin:                  true,
		lexeme.ObjectEnd:                    true,
		lexeme.ObjectKeyBegin:               true,
		lexeme.ObjectKeyEnd:                 true,
		lexeme.ObjectValueBegin:             true,
		lexeme.ObjectValueEnd:               true,
		lexeme.ArrayBegin:                   true,
		lexeme.ArrayEnd:                     true,
		lexeme.ArrayItemBegin:               true,
		lexeme.ArrayItemEnd:                 true,
		lexeme.InlineAnnotationBegin:        true,
		lexeme.InlineAnnotationEnd:          true,
		lexeme.InlineAnnotationTextBegin:    true,
		lexeme.InlineAnnotationTextEnd:      true,
		lexeme.MultiLineAnnotationBegin:     true,
		lexeme.MultiLineAnnotationEnd:       true,
		lexeme.MultiLineAnnotationTextBegin: true,
		lexeme.MultiLineAnnotationTextEnd:   true,
		lexeme.NewLine:                      true,
		lexeme.TypesShortcutBegin:           false,
		lexeme.TypesShortcutEnd:             true,
		lexeme.KeyShortcutBegin:             true,
		lexeme.KeyShortcutEnd:               true,
		lexeme.MixedValueBegin:              true,
		lexeme.MixedValueEnd:                true,
		lexeme.EndTop:                       true,
	}

	for typ, shouldPanic := range cc {
		t.Run(typ.String(), func(t *testing.T) {
			l := &enumValueLoader{}

			if shouldPanic {
				assert.PanicsWithValue(t, errors.ErrLoader, func() {
					l.ruleNameBegin(newFakeLexEvent(typ))
				})
			} else {
				l.ruleNameBegin(newFakeLexEvent(typ))
				assert.NotNil(t, l.stateFunc)
			}
		})
	}
}

func TestEnumValueLoader_ruleName(t *testing.T) {
	t.Run("positive", func(t *testing.T) {
		ec := constraint.NewEnum()
		el := newEnumValueLoader(ec, map[string]jschema.Rule{
			"foo": enum.New("foo", `[42, 3.14, "foo", false, true, null]`),
		})
		el.stateFunc = nil
		el.ruleName(newFakeLexEventWithValue(lexeme.TypesShortcutEnd, " \nfoo\t \r"))

		assert.NotNil(t, el.stateFunc)
		assert.False(t, el.inProgress)
		assert.Equal(t, "foo", ec.RuleName())
		assert.Equal(t, `enum: [42, 3.14, "foo", false, true, null]`, ec.String())
	})

	t.Run("negative", func(t *testing.T) {
		types := []lexeme.LexEventType{
			lexeme.LiteralBegin,
			lexeme.LiteralEnd,
			lexeme.ObjectBegin,
			lexeme.ObjectEnd,
			lexeme.ObjectKeyBegin,
			lexeme.ObjectKeyEnd,
			lexeme.ObjectValueBegin,
			lexeme.ObjectValueEnd,
			lexeme.ArrayBegin,
			lexeme.ArrayEnd,
			lexeme.ArrayItemBegin,
			lexeme.ArrayItemEnd,
			lexeme.InlineAnnotationBegin,
			lexeme.InlineAnnotationEnd,
			lexeme.InlineAnnotationTextBegin,
			lexeme.InlineAnnotationTextEnd,
			lexeme.MultiLineAnnotationBegin,
			lexeme.MultiLineAnnotationEnd,
			lexeme.MultiLineAnnotationTextBegin,
			lexeme.MultiLineAnnotationTextEnd,
			lexeme.NewLine,
			lexeme.TypesShortcutBegin,
			lexeme.KeyShortcutBegin,
			lexeme.KeyShortcutEnd,
			lexeme.MixedValueBegin,
			lexeme.MixedValueEnd,
			lexeme.EndTop,
		}

		for _, typ := range types {
			t.Run(typ.String(), func(t *testing.T) {
				assert.PanicsWithValue(t, errors.ErrLoader, func() {
					(&enumValueLoader{}).ruleName(newFakeLexEvent(typ))
				})
			})
		}

		cc := map[string]map[string]jschema.Rule{
			`Enum rule "ruleName" not found`: {},
			`Rule "ruleName" not an Enum`: {
				"ruleName": mocks.NewRule(t),
			},
			`Invalid enum "ruleName": An array was expected as a value for the "enum"`: {
				"ruleName": enum.New("ruleName", "invalid"),
			},
		}

		for expected, rr := range cc {
			t.Run(expected, func(t *testing.T) {
				assert.PanicsWithError(t, expected, func() {
					(&enumValueLoader{rules: rr}).ruleName(newFakeLexEventWithValue(
						lexeme.TypesShortcutEnd,
						"ruleName",
					))
				})
			})
		}
	})
}

func TestEnumValueLoader_endOfLoading(t *testing.T) {
	types := []lexeme.LexEventType{
		lexeme.LiteralBegin,
		lexeme.LiteralEnd,
		lexeme.ObjectBegin,
		lexeme.ObjectEnd,
		lexeme.ObjectKeyBegin,
		lexeme.ObjectKeyEnd,
		lexeme.ObjectValueBegin,
		lexeme.ObjectValueEnd,
		lexeme.ArrayBegin,
		lexeme.ArrayEnd,
		lexeme.ArrayItemBegin,
		lexeme.ArrayItemEnd,
		lexeme.InlineAnnotationBegin,
		lexeme.InlineAnnotationEnd,
		lexeme.InlineAnnotationTextBegin,
		lexeme.InlineAnnotationTextEnd,
		lexeme.MultiLineAnnotationBegin,
		lexeme.MultiLineAnnotationEnd,
		lexeme.MultiLineAnnotationTextBegin,
		lexeme.MultiLineAnnotationTextEnd,
		lexeme.NewLine,
		lexeme.TypesShortcutBegin,
		lexeme.TypesShortcutEnd,
		lexeme.KeyShortcutBegin,
		lexeme.KeyShortcutEnd,
		lexeme.MixedValueBegin,
		lexeme.MixedValueEnd,
		lexeme.EndTop,
	}

	for _, typ := range types {
		t.Run(typ.String(), func(t *testing.T) {
			assert.PanicsWithValue(t, errors.ErrLoader, func() {
				(&enumValueLoader{}).endOfLoading(newFakeLexEvent(typ))
			})
		})
	}
}

func newFakeLexEvent(t lexeme.LexEventType) lexeme.LexEvent {
	return lexeme.NewLexEvent(t, 0, 0, nil)
}

func newFakeLexEventWithValue(t lexeme.LexEventType, s string) lexeme.LexEvent {
	f := fs.NewFile("", s)
	return lexeme.NewLexEvent(t, 0, bytes.Index(len(s)-1), f)
}
