package constraint

import (
	jschema "github.com/jsightapi/jsight-schema-go-library"
	"github.com/jsightapi/jsight-schema-go-library/bytes"
	"github.com/jsightapi/jsight-schema-go-library/errors"
	"github.com/jsightapi/jsight-schema-go-library/internal/json"
	"github.com/jsightapi/jsight-schema-go-library/internal/lexeme"
)

type Constraint interface {
	// Type returns the type of constraint.
	Type() Type

	// IsJsonTypeCompatible checks the compatibility of the constraint and json
	// types.
	IsJsonTypeCompatible(json.Type) bool

	// String returns a textual description of the constraint.
	String() string

	// ASTNode returns an AST node for this constraint.
	ASTNode() jschema.RuleASTNode
}

type LiteralValidator interface {
	Validate(bytes.Bytes) // Checks the parameter value against the constraint. Panic on an error.
}

type ArrayValidator interface {
	ValidateTheArray(numberOfChildren uint)
	Value() uint
}

type BytesKeeper interface {
	Bytes() bytes.Bytes
}

type BoolKeeper interface {
	Bool() bool
}

// NewConstraintFromRule creates a Constraint from the rule.
// Might return nil.
func NewConstraintFromRule( //nolint:gocyclo // For now it's okay.
	ruleNameLex lexeme.LexEvent,
	ruleValue bytes.Bytes,
	nodeValue bytes.Bytes,
) Constraint {
	str := ruleNameLex.Value().TrimSpaces().Unquote().String()
	switch str {
	case "minLength":
		return NewMinLength(ruleValue)
	case "maxLength":
		return NewMaxLength(ruleValue)
	case "min":
		return NewMin(ruleValue)
	case "max":
		return NewMax(ruleValue)
	case "exclusiveMinimum":
		return NewExclusiveMinimum(ruleValue)
	case "exclusiveMaximum":
		return NewExclusiveMaximum(ruleValue)
	case "type":
		return NewType(ruleValue, jschema.RuleASTNodeSourceManual)
	case "precision":
		return NewPrecision(ruleValue)
	case "optional":
		return NewOptional(ruleValue)
	case "minItems":
		return NewMinItems(ruleValue)
	case "maxItems":
		return NewMaxItems(ruleValue)
	case "additionalProperties":
		return NewAdditionalProperties(ruleValue)
	case "nullable":
		return NewNullable(ruleValue)
	case "regex":
		return NewRegex(ruleValue)
	case "const":
		return NewConst(ruleValue, nodeValue)
	}
	panic(lexeme.NewLexEventError(ruleNameLex, errors.Format(errors.ErrUnknownRule, str)))
}
