package schema

import (
	"fmt"
	"testing"

	"github.com/stretchr/testify/assert"

	"github.com/jsightapi/jsight-schema-go-library/internal/lexeme"
	"github.com/jsightapi/jsight-schema-go-library/notations/jschema/internal/schema/constraint"
)

func TestNewNode(t *testing.T) {
	t.Run("positive", func(t *testing.T) {
		cc := map[lexeme.LexEventType]Node{
			lexeme.LiteralBegin:    &LiteralNode{},
			lexeme.ObjectBegin:     &ObjectNode{},
			lexeme.ArrayBegin:      &ArrayNode{},
			lexeme.MixedValueBegin: &MixedValueNode{},
		}

		for lexType, expected := range cc {
			t.Run(lexType.String(), func(t *testing.T) {
				actual := NewNode(lexeme.NewLexEvent(lexType, 0, 0, nil))
				assert.IsType(t, expected, actual)
			})
		}
	})

	t.Run("negative", func(t *testing.T) {
		const lexType = lexeme.NewLine
		assert.PanicsWithValue(t, fmt.Sprintf("Can not create node from the lexical event %q", lexType), func() {
			NewNode(lexeme.NewLexEvent(lexeme.NewLine, 0, 0, nil))
		})
	})
}

func TestIsOptionalNode(t *testing.T) {
	t.Run("positive", func(t *testing.T) {
		cc := map[string]struct {
			given    func(*testing.T) Node
			expected bool
		}{
			"node without optional constraints": {
				func(t *testing.T) Node {
					n := NewMockNode(t)
					n.
						On("Constraint", constraint.OptionalConstraintType).
						Return(nil)
					return n
				},
				false,
			},
			"not a bool keeper": {
				func(t *testing.T) Node {
					n := NewMockNode(t)
					n.
						On("Constraint", constraint.OptionalConstraintType).
						Return(constraint.Max{})
					return n
				},
				false,
			},
			"false": {
				func(t *testing.T) Node {
					n := NewMockNode(t)
					n.
						On("Constraint", constraint.OptionalConstraintType).
						Return(constraint.NewOptional([]byte("false")))
					return n
				},
				false,
			},
			"true": {
				func(t *testing.T) Node {
					n := NewMockNode(t)
					n.
						On("Constraint", constraint.OptionalConstraintType).
						Return(constraint.NewOptional([]byte("true")))
					return n
				},
				true,
			},
		}

		for n, c := range cc {
			t.Run(n, func(t *testing.T) {
				actual := IsOptionalNode(c.given(t))
				assert.Equal(t, c.expected, actual)
			})
		}
	})

	t.Run("negative", func(t *testing.T) {
		assert.Panics(t, func() {
			IsOptionalNode(nil)
		})
	})
}
