package loader

import (
	jschema "github.com/jsightapi/jsight-schema-go-library"
	"github.com/jsightapi/jsight-schema-go-library/bytes"
	"github.com/jsightapi/jsight-schema-go-library/errors"
	"github.com/jsightapi/jsight-schema-go-library/internal/json"
	"github.com/jsightapi/jsight-schema-go-library/internal/lexeme"
	"github.com/jsightapi/jsight-schema-go-library/notations/jschema/internal/schema"
	"github.com/jsightapi/jsight-schema-go-library/notations/jschema/internal/schema/constraint"
)

// schemaCompiler works with each node's constraints. This process adjust constraints
// so that they were in peace with each other. For example, if node has "precision"
// constraint, we have to add to this node "decimal" constraint, because only
// decimal can have precision. Another interesting example: if key-value node doesn't
// have an "optional" constraint, we have to add to parent object "required key"
// constraint, because this node's key is required in the object.
type schemaCompiler struct {
	rootSchema               *schema.Schema
	areKeysOptionalByDefault bool
}

func CompileBasic(rootSchema *schema.Schema, areKeysOptionalByDefault bool) {
	// The root node can be empty, if you specify only ATTRIBUTES without EXAMPLE.
	if rootSchema.RootNode() == nil {
		return
	}

	compile := schemaCompiler{
		rootSchema:               rootSchema,
		areKeysOptionalByDefault: areKeysOptionalByDefault,
	}
	compile.compileNode(rootSchema.RootNode(), 0)
}

func (compile schemaCompiler) compileNode(node schema.Node, indexOfNode int) {
	lex := node.BasisLexEventOfSchemaForNode()
	defer lexeme.CatchLexEventError(lex)

	compile.falseConstraints(node)    // can panic
	compile.orConstraint(node)        // can panic. Must be called before compile.typeConstraint()
	compile.enumConstraint(node)      // can panic. Must be called before compile.typeConstraint()
	compile.precisionConstraint(node) // can panic. Must be called before compile.typeConstraint()
	compile.typeConstraint(node)      // can panic
	if err := compile.allowedConstraintCheck(node); err != nil {
		panic(err)
	}
	compile.anyConstraint(node) // can panic
	if err := compile.checkPairConstraints(node); err != nil {
		panic(err)
	}
	compile.exclusiveMinimumConstraint(node)       // can panic
	compile.exclusiveMaximumConstraint(node)       // can panic
	compile.optionalConstraints(node, indexOfNode) // can panic

	if branchingNode, ok := node.(schema.BranchNode); ok {
		compile.emptyArray(node) // can panic
		for i, child := range branchingNode.Children() {
			compile.compileNode(child, i) // can panic
		}
	}
}

func (schemaCompiler) falseConstraints(node schema.Node) {
	node.ConstraintMap().Filter(func(k constraint.Type, c constraint.Constraint) bool {
		if k == constraint.NullableConstraintType || k == constraint.ConstConstraintType {
			if b, ok := c.(constraint.BoolKeeper); ok && !b.Bool() {
				return false
			}
		}
		return true
	})
}

func (schemaCompiler) orConstraint(node schema.Node) {
	if node.Constraint(constraint.OrConstraintType) == nil {
		return
	}

	if node.Constraint(constraint.TypesListConstraintType) == nil {
		panic(errors.ErrLoader) // Links to the schema not found
	}

	// check for a permissible constraints
	n := node.NumberOfConstraints()
	n-- // if node.Constraint(constraint.TypesListConstraintType) != nil - checked above
	if node.Constraint(constraint.OrConstraintType) != nil {
		n--
	}
	if node.Constraint(constraint.OptionalConstraintType) != nil {
		n--
	}
	if node.Constraint(constraint.NullableConstraintType) != nil {
		n--
	}
	if typeConstraint := node.Constraint(constraint.TypeConstraintType); typeConstraint != nil {
		n--
		if t := typeConstraint.(*constraint.TypeConstraint).Bytes().String(); t != `"mixed"` {
			panic(errors.Format(errors.ErrInvalidValueInTheTypeRule, t))
		}
	}
	if n != 0 {
		panic(errors.ErrShouldBeNoOtherRulesInSetWithOr)
	}

	ensureCanUseORConstraint(node)
	node.DeleteConstraint(constraint.OrConstraintType)
}

func ensureCanUseORConstraint(node schema.Node) {
	if branchNode, ok := node.(schema.BranchNode); ok {
		// Since "req.jschema.rules.type.reference 0.2" we didn't allow
		// empty object and arrays as well for the type constraint.
		checkBranchNodeWithOrConstraint(node, branchNode)
	}

	if _, ok := node.(*schema.MixedValueNode); !ok {
		return
	}

	or := node.Constraint(constraint.OrConstraintType).(*constraint.Or) //nolint:errcheck // We are sure about that.
	if or.IsGenerated() {
		return
	}

	ssl := node.Constraint(constraint.TypesListConstraintType).(*constraint.TypesList) //nolint:errcheck // We are sure about that.
	if ssl.HasUserTypes() {
		panic(errors.ErrInvalidChildNodeTogetherWithOrRule)
	}
}

func checkBranchNodeWithOrConstraint(schemaNode schema.Node, jsonNode schema.BranchNode) {
	if jsonNode.Len() != 0 {
		panic(errors.ErrInvalidChildNodeTogetherWithOrRule)
	}

	// Since "req.jschema.rules.or" we didn't allow empty object and arrays for
	// or with at least one user type.
	hasUserTypeInOr := false

	c, ok := schemaNode.Constraint(constraint.TypesListConstraintType).(*constraint.TypesList)
	if !ok {
		return
	}

	for _, n := range c.Names() {
		if n[0] == '@' {
			hasUserTypeInOr = true
			break
		}
	}

	if hasUserTypeInOr {
		panic(errors.ErrInvalidChildNodeTogetherWithOrRule)
	}
}

func (schemaCompiler) enumConstraint(node schema.Node) {
	if node.Constraint(constraint.EnumConstraintType) == nil {
		return
	}

	// check for a permissible constraints
	n := node.NumberOfConstraints()
	n-- // if node.Constraint(constraint.EnumConstraintType) != nil - checked above
	if node.Constraint(constraint.OptionalConstraintType) != nil {
		n--
	}
	if node.Constraint(constraint.ConstConstraintType) != nil {
		n--
	}
	if node.Constraint(constraint.NullableConstraintType) != nil {
		n--
	}
	if typeConstraint := node.Constraint(constraint.TypeConstraintType); typeConstraint != nil {
		n--
		if t := typeConstraint.(*constraint.TypeConstraint).Bytes().String(); t != `"enum"` {
			panic(errors.Format(errors.ErrInvalidValueInTheTypeRule, t))
		}
	}
	if n != 0 {
		panic(errors.ErrShouldBeNoOtherRulesInSetWithEnum)
	}
}

func (compile schemaCompiler) typeConstraint(node schema.Node) {
	c := node.Constraint(constraint.TypeConstraintType)
	if c == nil {
		return
	}

	typeConstraint := c.(*constraint.TypeConstraint) //nolint:errcheck // We sure about that.
	val := typeConstraint.Bytes().Unquote()

	if val.IsUserTypeName() {
		compile.typeConstraintForUserType(node, typeConstraint, val.String())
	} else {
		compile.typeConstraintForJSONTypes(node, val)
	}

	node.DeleteConstraint(constraint.TypeConstraintType)
}

func (schemaCompiler) typeConstraintForUserType(
	node schema.Node,
	typeConstraint *constraint.TypeConstraint,
	val string,
) {
	n := node.NumberOfConstraints()
	if node.Constraint(constraint.OptionalConstraintType) != nil {
		n--
	}
	if node.Constraint(constraint.NullableConstraintType) != nil {
		n--
	}
	if n != 1 {
		panic(errors.ErrCannotSpecifyOtherRulesWithTypeReference)
	}

	if _, ok := node.(schema.BranchNode); ok {
		// Since "req.jschema.rules.type.reference 0.2" we didn't allow
		// empty object and arrays as well for the type constraint.
		panic(errors.ErrInvalidChildNodeTogetherWithTypeReference)
	}

	if _, ok := node.(*schema.MixedValueNode); ok && !typeConstraint.IsGenerated() {
		panic(errors.ErrInvalidChildNodeTogetherWithTypeReference)
	}

	c := constraint.NewTypesList(jschema.RuleASTNodeSourceManual)
	c.AddName(val, val, jschema.RuleASTNodeSourceManual)

	node.AddConstraint(c) // can panic: Unable to add constraint
}

func (schemaCompiler) typeConstraintForJSONTypes(node schema.Node, val bytes.Bytes) {
	valStr := val.String()

	h, ok := jsonTypesHandler[valStr]
	if ok {
		h(node)
	} else {
		t := json.NewJsonType(val)                         // can panic
		if mixedNode, ok := node.(*schema.MixedNode); ok { // defined json type for mixed node
			mixedNode.SetJsonType(t)
		} else if t != node.Type() { // check json type for non-mixed node
			panic(errors.Format(errors.ErrIncompatibleTypes, t.String()))
		}
	}
	if !node.SetRealType(valStr) {
		panic(errors.Format(errors.ErrIncompatibleTypes, valStr))
	}
}

var jsonTypesHandler = map[string]func(node schema.Node){
	"mixed": func(node schema.Node) {
		typesListConstraint := node.Constraint(constraint.TypesListConstraintType)
		if typesListConstraint == nil {
			panic(errors.ErrNotFoundRuleOr)
		}

		if typesListConstraint.(*constraint.TypesList).Len() < 2 {
			panic(errors.ErrNotFoundRuleOr)
		}
	},

	constraint.EnumConstraintType.String(): func(node schema.Node) {
		if node.Constraint(constraint.EnumConstraintType) == nil {
			panic(errors.ErrNotFoundRuleEnum)
		}
	},

	"any": func(node schema.Node) {
		node.AddConstraint(constraint.NewAny())
	},

	"decimal": func(node schema.Node) {
		if node.Constraint(constraint.PrecisionConstraintType) == nil {
			panic(errors.ErrNotFoundRulePrecision)
		}
	},

	"email": func(node schema.Node) {
		node.AddConstraint(constraint.NewEmail()) // can panic: Unable to add constraint
	},

	"uri": func(node schema.Node) {
		node.AddConstraint(constraint.NewUri())
	},

	"uuid": func(node schema.Node) {
		node.AddConstraint(constraint.NewUuid())
	},

	"date": func(node schema.Node) {
		node.AddConstraint(constraint.NewDate())
	},

	"datetime": func(node schema.Node) {
		node.AddConstraint(constraint.NewDateTime())
	},
}

func (schemaCompiler) allowedConstraintCheck(node schema.Node) (err error) {
	bannedConstraints := map[constraint.Type][]constraint.Type{
		constraint.EmailConstraintType: {
			constraint.MinLengthConstraintType,
			constraint.MaxLengthConstraintType,
			constraint.RegexConstraintType,
		},

		constraint.UriConstraintType: {
			constraint.MinLengthConstraintType,
			constraint.MaxLengthConstraintType,
			constraint.RegexConstraintType,
		},

		constraint.DateConstraintType: {
			constraint.MinLengthConstraintType,
			constraint.MaxLengthConstraintType,
			constraint.RegexConstraintType,
		},

		constraint.DateTimeConstraintType: {
			constraint.MinLengthConstraintType,
			constraint.MaxLengthConstraintType,
			constraint.RegexConstraintType,
		},

		constraint.UuidConstraintType: {
			constraint.MinLengthConstraintType,
			constraint.MaxLengthConstraintType,
			constraint.RegexConstraintType,
			constraint.RegexConstraintType,
		},

		constraint.AnyConstraintType: {
			constraint.ConstConstraintType,
		},
	}

	for t, tt := range bannedConstraints {
		if node.Constraint(t) != nil {
			for _, bt := range tt {
				if node.Constraint(bt) != nil {
					return errors.Format(errors.ErrUnexpectedConstraint, bt.String(), t.String())
				}
			}
		}
	}
	return nil
}

func (schemaCompiler) anyConstraint(node schema.Node) {
	if node.Constraint(constraint.AnyConstraintType) == nil {
		return
	}

	// check for a permissible constraints
	n := node.NumberOfConstraints()
	n-- // AnyConstraintType - checked above
	if node.Constraint(constraint.OptionalConstraintType) != nil {
		n--
	}
	if node.Constraint(constraint.NullableConstraintType) != nil {
		n--
	}
	if node.Constraint(constraint.ConstConstraintType) != nil {
		n--
	}
	if n != 0 {
		panic(errors.ErrShouldBeNoOtherRulesInSetWithAny)
	}

	if branchNode, ok := node.(schema.BranchNode); ok {
		if branchNode.Len() != 0 {
			panic(errors.ErrInvalidNestedElementsFoundForTypeAny)
		}
	}
}

// checkPairConstraints checks some constraints which has pairs such as `min` and `max`,
// `minLength` and `maxLength`, etc.
func (compile schemaCompiler) checkPairConstraints(node schema.Node) error {
	checkers := []func(schema.Node) error{
		compile.checkMinAndMax,
		compile.checkMinLengthAndMaxLength,
		compile.checkMinItemsAndMaxItems,
	}

	for _, fn := range checkers {
		if err := fn(node); err != nil {
			return err
		}
	}
	return nil
}

func (schemaCompiler) checkMinAndMax(node schema.Node) error {
	minRaw := node.Constraint(constraint.MinConstraintType)
	maxRaw := node.Constraint(constraint.MaxConstraintType)

	if minRaw == nil || maxRaw == nil {
		return nil
	}

	min := minRaw.(*constraint.Min) //nolint:errcheck // We're sure about this type.
	max := maxRaw.(*constraint.Max) //nolint:errcheck // We're sure about this type.

	if min.Exclusive() || max.Exclusive() {
		if min.Value().GreaterThanOrEqual(max.Value()) {
			return errors.Format(
				errors.ErrValueOfOneConstraintGreaterOrEqualToAnother,
				"min",
				"max",
			)
		}
	} else {
		if min.Value().GreaterThan(max.Value()) {
			return errors.Format(
				errors.ErrValueOfOneConstraintGreaterThanAnother,
				"min",
				"max",
			)
		}
	}
	return nil
}

func (schemaCompiler) checkMinLengthAndMaxLength(node schema.Node) error {
	minLengthRaw := node.Constraint(constraint.MinLengthConstraintType)
	maxLengthRaw := node.Constraint(constraint.MaxLengthConstraintType)

	if minLengthRaw == nil || maxLengthRaw == nil {
		return nil
	}

	minLength := minLengthRaw.(*constraint.MinLength) //nolint:errcheck // We're sure about this type.
	maxLength := maxLengthRaw.(*constraint.MaxLength) //nolint:errcheck // We're sure about this type.

	if minLength.Value() > maxLength.Value() {
		return errors.Format(
			errors.ErrValueOfOneConstraintGreaterThanAnother,
			"minLength",
			"maxLength",
		)
	}
	return nil
}

func (schemaCompiler) checkMinItemsAndMaxItems(node schema.Node) error {
	minItemsRaw := node.Constraint(constraint.MinItemsConstraintType)
	maxItemsRaw := node.Constraint(constraint.MaxItemsConstraintType)

	if minItemsRaw == nil || maxItemsRaw == nil {
		return nil
	}

	minItems := minItemsRaw.(*constraint.MinItems) //nolint:errcheck // We're sure about this type.
	maxItems := maxItemsRaw.(*constraint.MaxItems) //nolint:errcheck // We're sure about this type.

	if minItems.Value() > maxItems.Value() {
		return errors.Format(
			errors.ErrValueOfOneConstraintGreaterThanAnother,
			"minItems",
			"maxItems",
		)
	}
	return nil
}

func (schemaCompiler) exclusiveMinimumConstraint(node schema.Node) {
	exclusiveMin := node.Constraint(constraint.ExclusiveMinimumConstraintType)
	if exclusiveMin != nil {
		min := node.Constraint(constraint.MinConstraintType)
		if min == nil {
			panic(errors.ErrConstraintMinNotFound)
		}
		if exclusiveMin.(*constraint.ExclusiveMinimum).IsExclusive() {
			min.(*constraint.Min).SetExclusive(true)
		}
		node.DeleteConstraint(constraint.ExclusiveMinimumConstraintType)
	}
}

func (schemaCompiler) exclusiveMaximumConstraint(node schema.Node) {
	exclusiveMax := node.Constraint(constraint.ExclusiveMaximumConstraintType)
	if exclusiveMax != nil {
		max := node.Constraint(constraint.MaxConstraintType)
		if max == nil {
			panic(errors.ErrConstraintMaxNotFound)
		}
		if exclusiveMax.(*constraint.ExclusiveMaximum).IsExclusive() {
			max.(*constraint.Max).SetExclusive(true)
		}
		node.DeleteConstraint(constraint.ExclusiveMaximumConstraintType)
	}
}

func (compile schemaCompiler) optionalConstraints(node schema.Node, indexOfNode int) {
	optional := node.Constraint(constraint.OptionalConstraintType)
	parentNode := node.Parent()
	objectNode, ok := parentNode.(*schema.ObjectNode)

	if optional == nil {
		if ok && !compile.areKeysOptionalByDefault {
			addRequiredKey(objectNode, objectNode.Key(indexOfNode).Key)
		}
	} else {
		if !ok {
			panic(errors.ErrRuleOptionalAppliesOnlyToObjectProperties)
		}

		if !optional.(constraint.BoolKeeper).Bool() {
			addRequiredKey(objectNode, objectNode.Key(indexOfNode).Key)
		}
	}
}

func (schemaCompiler) precisionConstraint(node schema.Node) {
	if node.Constraint(constraint.PrecisionConstraintType) == nil {
		return
	}

	c := node.Constraint(constraint.TypeConstraintType)
	if c == nil {
		return
	}

	t := c.(*constraint.TypeConstraint).Bytes().Unquote().String()
	if t != "decimal" {
		panic(errors.Format(errors.ErrUnexpectedConstraint, constraint.PrecisionConstraintType, t))
	}
}

func (schemaCompiler) emptyArray(node schema.Node) {
	arrayNode, ok := node.(*schema.ArrayNode)

	if !ok || arrayNode.Len() != 0 {
		return
	}

	if min := node.Constraint(constraint.MinItemsConstraintType); min != nil {
		if min.(constraint.ArrayValidator).Value() != 0 {
			panic(errors.ErrIncorrectConstraintValueForEmptyArray)
		}
	}
	if max := node.Constraint(constraint.MaxItemsConstraintType); max != nil {
		if max.(constraint.ArrayValidator).Value() != 0 {
			panic(errors.ErrIncorrectConstraintValueForEmptyArray)
		}
	}
}
