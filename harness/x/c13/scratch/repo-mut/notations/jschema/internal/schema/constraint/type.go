package constraint

// Type available constraint types.
// gen:Stringer t Unknown constraint type
type Type int

const (
	MinLengthConstraintType            Type = iota // minLength
	MaxLengthConstraintType                        // maxLength
	MinConstraintType                              // min
	MaxConstraintType                              // max
	ExclusiveMinimumConstraintType                 // exclusiveMinimum
	ExclusiveMaximumConstraintType                 // exclusiveMaximum
	PrecisionConstraintType                        // precision
	TypeConstraintType                             // type
	TypesListConstraintType                        // types
	OptionalConstraintType                         // optional
	OrConstraintType                               // or
	RequiredKeysConstraintType                     // required-keys
	EmailConstraintType                            // email
	MinItemsConstraintType                         // minItems
	MaxItemsConstraintType                         // maxItems
	EnumConstraintType                             // enum
	AdditionalPropertiesConstraintType             // additionalProperties
	AllOfConstraintType                            // allOf
	AnyConstraintType                              // any
	NullableConstraintType                         // nullable
	RegexConstraintType                            // regex
	UriConstraintType                              // uri
	DateConstraintType                             // date
	DateTimeConstraintType                         // datetime
	UuidConstraintType                             // uuid
	ConstConstraintType                            // const
)
