package checker

import (
	"testing"

	"github.com/stretchr/testify/assert"
	"github.com/stretchr/testify/require"

	"github.com/jsightapi/jsight-schema-go-library/errors"
	"github.com/jsightapi/jsight-schema-go-library/fs"
	"github.com/jsightapi/jsight-schema-go-library/notations/jschema/internal/loader"
	"github.com/jsightapi/jsight-schema-go-library/notations/jschema/internal/scanner"
)

func TestCheckRootSchema(t *testing.T) {
	type typ struct {
		name   string
		schema string
	}

	check := func(schema string, types []typ) {
		schemaFile := fs.NewFile("schema", schema)

		rootSchema := loader.LoadSchema(scanner.New(schemaFile), nil)

		for _, datum := range types {
			f := fs.NewFile(datum.name, datum.schema)
			typ := loader.LoadSchema(scanner.New(f), rootSchema)
			rootSchema.AddNamedType(datum.name, typ, f, 0)
		}

		loader.CompileAllOf(rootSchema)
		loader.AddUnnamedTypes(rootSchema)
		CheckRootSchema(rootSchema)
	}

	t.Run("positive", func(t *testing.T) {
		var tests = []struct {
			schema string
			types  []typ
		}{
			{
				`{}`,
				[]typ{},
			},
			{
				`[1,2,3]`,
				[]typ{},
			},
			{
				`123`,
				[]typ{},
			},
			{
				`"qwerty"`,
				[]typ{},
			},
			{
				`{} // note`,
				[]typ{},
			},
			{
				`123 // note`,
				[]typ{},
			},
			{
				`"qwerty" // note`,
				[]typ{},
			},
			{
				"5 // {min: 1}", // the rule without quotes
				[]typ{},
			},
			{
				`5 // {"min": 1}`, // the rule with quotes
				[]typ{},
			},
			{
				`5 // {min: 1, max: 5}`, // a few rules
				[]typ{},
			},
			{
				"5 // {}", // without rules
				[]typ{},
			},
			{
				"5 // {min: 1} - some comment", // text after rule
				[]typ{},
			},
			{
				"5 // some comment", // text without rules
				[]typ{},
			},
			{
				"5 // - some comment", // text without rules
				[]typ{},
			},
			{
				"5 // [ some comment ]", // text without rules
				[]typ{},
			},

			// typeConstraint: explicit type definition
			{
				`{} // {type: "object"}`,
				[]typ{},
			},
			{
				`true // {type: "boolean"}`,
				[]typ{},
			},
			{
				`"abc" // {type: "string"}`,
				[]typ{},
			},
			{
				`null // {type: "null"}`,
				[]typ{},
			},
			{
				`[ // {type: "array"}
					1
				]`,
				[]typ{},
			},

			// precisionConstraint: decimal type
			{
				`1.1 // {precision: 1}`,
				[]typ{},
			},

			{
				`1.0 // {precision: 1}`,
				[]typ{},
			},
			{
				`1.00 // {precision: 2}`,
				[]typ{},
			},

			{
				`0.12 // {precision: 2}`,
				[]typ{},
			},

			{
				`0.120 // {precision: 2}`,
				[]typ{},
			},
			{
				`0.1200 // {precision: 2}`,
				[]typ{},
			},

			{
				`123.45 // {type: "decimal", precision: 2}`,
				[]typ{},
			},

			// min
			{
				`123 // {min: 1}`,
				[]typ{},
			},
			{
				`123 // {"min": 1}`,
				[]typ{},
			},
			{
				`-1 // {"min": -2}`,
				[]typ{},
			},
			{
				` 0 // {"min": -2}`,
				[]typ{},
			},
			{
				` 1 // {"min": -2}`,
				[]typ{},
			},

			// max
			{
				`123 // {max: 999}`,
				[]typ{},
			},
			{
				`123 // {"max": 999}`,
				[]typ{},
			},
			{
				`-1 // {"max": 1}`,
				[]typ{},
			},
			{
				` 0 // {"max": 1}`,
				[]typ{},
			},
			{
				` 1 // {"max": 1}`,
				[]typ{},
			},

			// exclusiveMinimumConstraint
			{
				`111 // {min: 1, exclusiveMinimum: true}`,
				[]typ{},
			},
			{
				`111 // {min: 1, exclusiveMinimum: false}`,
				[]typ{},
			},

			// exclusiveMaximumConstraint
			{
				`222 // {max: 333, exclusiveMaximum: true}`,
				[]typ{},
			},
			{
				`222 // {max: 333, exclusiveMaximum: false}`,
				[]typ{},
			},

			// optionalConstraints
			{
				`{
				"key": 1 // {optional: true}
			}`,
				[]typ{},
			},

			// rule "or"
			{
				`5 // {or: [ {type: "integer"}, {type: "string"} ]}`, // "or" with two simple rule-set
				[]typ{},
			},
			{
				`5 // {or: [ {min: 0}, {type: "string"} ]}`, // "or" with two simple rule-set (the first rule-set without type specifying)
				[]typ{},
			},
			{
				`5 // {or: [ {type: "@int"}, {type: "@str"} ]}`, // "or" with type names
				[]typ{
					{`@int`, `123`},
					{`@str`, `"abc"`},
				},
			},
			{
				`5 // {or: [ "@int", "@str" ]}`, // "or" with short format type names
				[]typ{
					{`@int`, `123`},
					{`@str`, `"abc"`},
				},
			},
			{
				"@int | @str", // "or" shortcut
				[]typ{
					{`@int`, `123`},
					{`@str`, `"abc"`},
				},
			},
			{
				`5 // {or: [ {type: "@int"}, "@str", {min: 0}, {type: "string"} ]}`, // "or" with different format or rule-sets
				[]typ{
					{`@int`, `123`},
					{`@str`, `"abc"`},
				},
			},

			// `{
			// 	"key": [ // {optional: true, minItems: 1}
			// 		123
			// 	]
			// }`,

			// `// text-1
			// // text-2
			//
			// { // text-3
			// 	// text-4
			// 	"aaa": 111, // {min: 1}
			// 	"bbb": 222, // {min: 2, max: 999}
			// 	"ccc": { // text-5
			// 		"ddd": 333, // {min: 3, optional: true}
			// 		"error": [] // {optional: true, minItems: 0}
			// 		// text-6
			// 	}, // text-7
			// 	"eee": 444 // {min: 4}
			// } // text-8
			//
			// // text-9
			// // text-10`,

			// some type (string)
			{
				`"abc" // {type: "@schema"}`,
				[]typ{
					{`@schema`, `"qwerty"`},
				},
			},
			{
				"@schema",
				[]typ{
					{`@schema`, `"qwerty"`},
				},
			},
			// some type (integer)
			{
				`222 // {type: "@schema"}`,
				[]typ{
					{`@schema`, `111`},
				},
			},
			{
				"@schema",
				[]typ{
					{`@schema`, `111`},
				},
			},
			// some type (float)
			{
				`3.4 // {type: "@schema"}`,
				[]typ{
					{`@schema`, `1.2`},
				},
			},
			{
				"@schema",
				[]typ{
					{`@schema`, `1.2`},
				},
			},

			// some type (boolean)
			{
				`false // {type: "@schema"}`,
				[]typ{
					{`@schema`, `true`},
				},
			},
			{
				"@schema",
				[]typ{
					{`@schema`, `true`},
				},
			},

			// some type (object)
			{
				"@schema",
				[]typ{
					{`@schema`, `{
					"key": "val"
				}`},
				},
			},

			// some type (array)
			{
				"@schema",
				[]typ{
					{`@schema`, `[1,2,3]`},
				},
			},

			// email and string
			{
				`"aaa@bbb.cc" // {type: "@email"}`,
				[]typ{
					{`@email`, `"ddd@eee.ff" // {type: "email"}`},
				},
			},
			{
				"@email",
				[]typ{
					{`@email`, `"ddd@eee.ff" // {type: "email"}`},
				},
			},

			// decimal and float
			{
				`3.4 // {type: "@schema"}`,
				[]typ{
					{`@schema`, `1.2 // {precision: 1}`},
				},
			},
			{
				"@schema",
				[]typ{
					{`@schema`, `1.2 // {precision: 1}`},
				},
			},

			// or
			{
				`222 // {or: ["@int","@str"]}`,
				[]typ{
					{`@int`, `111`},
					{`@str`, `"abc"`},
				},
			},
			{
				`"str" // {or: ["@int","@str"]}`,
				[]typ{
					{`@int`, `111`},
					{`@str`, `"abc"`},
				},
			},
			{
				`222 // {or: [ {type:"@int"}, {type:"@str"} ]}`,
				[]typ{
					{`@int`, `111`},
					{`@str`, `"abc"`},
				},
			},
			{
				`"str" // {or: [ {type:"@int"}, {type:"@str"} ]}`,
				[]typ{
					{`@int`, `111`},
					{`@str`, `"abc"`},
				},
			},

			{
				`  222 // {or: [ {type:"integer"}, {type:"string"} ]}`,
				[]typ{},
			},
			{
				`"str" // {or: [ {type:"integer"}, {type:"string"} ]}`,
				[]typ{},
			},

			{
				`1 // {or: ["@int_or_str", "@obj"]}`,
				[]typ{
					{`@int_or_str`, `"abc" // {or: ["@int", "@str"]}`},
					{`@str`, `"abc"`},
					{`@int`, `123`},
					{`@obj`, `{}`},
				},
			},

			{
				`{
				"id": 1,
				"children": [
					@node
				]
			}`,
				[]typ{
					{"@node", `{
					"id": 1,
					"children": [
						@node
					]
				}`},
				},
			},

			{
				`1 // {type: "@type1"}`,
				[]typ{
					{`@type1`, `1 // {or: [ {type:"integer"}, {type:"string"} ]}`},
				},
			},

			// allowed recursions
			{
				"@type1",
				[]typ{
					{"@type1", "@type2"},
					{"@type2", "{}"},
				},
			},

			{
				"@user",
				[]typ{
					{`@user`, `{
					"name": "John",
					"best_friend": @user
				}`},
				},
			},

			// array and its required element
			{
				`[1]`,
				[]typ{},
			},
			{
				`[1,2]`,
				[]typ{},
			},
			{
				"@arr",
				[]typ{
					{`@arr`, `[1,2,3]`},
				},
			},
			{
				"@arr-1",
				[]typ{
					{"@arr-1", "@arr-2"},
					{"@arr-2", "[1,2,3]"},
				},
			},

			// Allow incorrect links-type for unused types
			{
				`1 // {type: "@used"}`,
				[]typ{
					{`@used`, `111`},
					{`@unused-1`, `222 // {type: "@unused-2"}`},
					{`@unused-2`, `333`},
				},
			},

			{
				`"abc" // {type: "enum", enum: [123, "abc"]}`,
				[]typ{},
			},
			{
				`"abc" // {type: "mixed", or: [{type:"integer"}, {type:"string"}]}`,
				[]typ{},
			},

			{
				`{
				"key": "abc" // {type: "mixed", or: [{type:"string"}, {type:"integer"}], optional: true}
			}`,
				[]typ{},
			},
			{
				`{
				"key": "abc" // {type: "enum", enum: [123, "abc"], optional: true}
			}`,
				[]typ{},
			},
			{
				`123   // {type: "any"}`,
				[]typ{},
			},
			{
				`12.3  // {type: "any"}`,
				[]typ{},
			},
			{
				`"str" // {type: "any"}`,
				[]typ{},
			},
			{
				`true  // {type: "any"}`,
				[]typ{},
			},
			{
				`false // {type: "any"}`,
				[]typ{},
			},
			{
				`null  // {type: "any"}`,
				[]typ{},
			},
			{
				`{}    // {type: "any"}`,
				[]typ{},
			},
			{
				`[]    // {type: "any"}`,
				[]typ{},
			},
			{
				`{
				"aaa": 1 // {type: "any", optional: true}
			}`,
				[]typ{},
			},

			{
				`[ // {minItems: 2}
				1,2
			]`,
				[]typ{},
			},
			{
				`[ // {maxItems: 3}
				1,2,3
			]`,
				[]typ{},
			},
			{
				`[]`,
				[]typ{},
			},
			{
				`[] // {minItems: 0}`,
				[]typ{},
			},
			{
				`[] // {maxItems: 0}`,
				[]typ{},
			},
			{
				`[] // {minItems: 0, maxItems: 0}`,
				[]typ{},
			},
			{
				`[] // {type: "array"}`,
				[]typ{},
			},
			{
				"@arr",
				[]typ{
					{"@arr", "[]"},
				},
			},

			{
				"@sub",
				[]typ{
					{"@sub", `{"_id": 123}`},
				},
			},

			{
				"@sub9",
				[]typ{
					{"@sub1", `{"_id\"": 123}`},
					{"@sub2", `{"_id\\": 123}`},
					{"@sub3", `{"_id\/": 123}`},
					{"@sub4", `{"_id\b": 123}`},
					{"@sub5", `{"_id\f": 123}`},
					{"@sub6", `{"_id\n": 123}`},
					{"@sub7", `{"_id\r": 123}`},
					{"@sub8", `{"_id\t": 123}`},
					{"@sub9", `{"_id\uAAAA": 123}`},
				},
			},
		}

		for _, tt := range tests {
			t.Run(tt.schema, func(t *testing.T) {
				check(tt.schema, tt.types)
			})
		}
	})

	t.Run("negative", func(t *testing.T) {
		tests := []struct {
			schema string
			types  []typ
			err    errors.ErrorCode
		}{
			// min
			{`-1 // {"min": 2}`, []typ{}, errors.ErrConstraintValidation},
			{` 0 // {"min": 2}`, []typ{}, errors.ErrConstraintValidation},
			{` 1 // {"min": 2}`, []typ{}, errors.ErrConstraintValidation},
			{`-3 // {"min": -2}`, []typ{}, errors.ErrConstraintValidation},
			{`-4 // {"min": -2}`, []typ{}, errors.ErrConstraintValidation},

			{` 3 // {"max": 2}`, []typ{}, errors.ErrConstraintValidation},
			{` 4 // {"max": 2}`, []typ{}, errors.ErrConstraintValidation},
			{`-1 // {"max": -2}`, []typ{}, errors.ErrConstraintValidation},
			{` 0 // {"max": -2}`, []typ{}, errors.ErrConstraintValidation},
			{` 1 // {"max": -2}`, []typ{}, errors.ErrConstraintValidation},

			{"2 // {unknown: 123}", []typ{}, errors.ErrUnknownRule},
			{`2 // {type: "unknown"}`, []typ{}, errors.ErrUnknownType},

			{"2 // {min: [1,2]}", []typ{}, errors.ErrIncorrectRuleValueType},
			{"2 // {min: {}}", []typ{}, errors.ErrIncorrectRuleValueType},

			{`222 // {min: 1, min: 1}`, []typ{}, errors.ErrDuplicateRule}, // duplicate, with the same values
			{`333 // {min: 1, min: 2}`, []typ{}, errors.ErrDuplicateRule}, // duplicate, with different values

			{`{key: 1}`, []typ{}, errors.ErrInvalidCharacter},            // incorrect json example (no quotes)
			{`{"k":1, "k":2}`, []typ{}, errors.ErrDuplicateKeysInSchema}, // duplicate keys on JSON

			{`{"key": "value"} // {min: 1}`, []typ{}, errors.ErrIncorrectRuleForSeveralNode},
			{`[
			1,2 // {min: 1}
		]`, []typ{}, errors.ErrIncorrectRuleForSeveralNode},
			{`{"key": {"bbb": // {min: 1}
			2
		}}`, []typ{}, errors.ErrIncorrectRuleForSeveralNode},
			{`[
			1
		] // {min: 1}`, []typ{}, errors.ErrAnnotationNotAllowed},

			{`{
		} // {min: 1}`, []typ{}, errors.ErrIncorrectRuleWithoutExample},

			// error on constraint validation
			{`3 // {min: 4}`, []typ{}, errors.ErrConstraintValidation},
			{`3 // {max: 2}`, []typ{}, errors.ErrConstraintValidation},
			{`"str" // {minLength: 4}`, []typ{}, errors.ErrConstraintStringLengthValidation},
			{`"str" // {maxLength: 2}`, []typ{}, errors.ErrConstraintStringLengthValidation},

			// Incompatible JSON-type
			{`[ // {min: 1}
			1
		]`, []typ{}, errors.ErrUnexpectedConstraint},
			{`1 // {minLength: 1}`, []typ{}, errors.ErrUnexpectedConstraint},
			{`"str" // {min: 1}`, []typ{}, errors.ErrUnexpectedConstraint},

			// Unable to add constraint "email" to the node "Integer"
			{`123 // {type: "email"}`, []typ{}, errors.ErrIncompatibleTypes},

			// email
			{`"" // {type: "email"}`, []typ{}, errors.ErrEmptyEmail},
			{`"no email" // {type: "email"}`, []typ{}, errors.ErrInvalidEmail},

			// Invalid value of constraint
			{`1 // {min: 99, exclusiveMinimum: 1}`, []typ{}, errors.ErrInvalidValueOfConstraint},
			{`1 // {max: 99, exclusiveMaximum: 1}`, []typ{}, errors.ErrInvalidValueOfConstraint},
			{`1.1 // {precision: true}`, []typ{}, errors.ErrInvalidValueOfConstraint},
			{`{
					"k": 1 // {optional: 1}
		}`, []typ{}, errors.ErrInvalidValueOfConstraint},

			// typeConstraint: incorrect type conversion
			{`"abc" // {type: "integer"}`, []typ{}, errors.ErrIncompatibleTypes},
			{`12.34 // {type: "integer"}`, []typ{}, errors.ErrIncompatibleTypes},
			{`123 // {type: "string"}`, []typ{}, errors.ErrIncompatibleTypes},
			{`true // {type: "string"}`, []typ{}, errors.ErrIncompatibleTypes},
			{`null // {type: "string"}`, []typ{}, errors.ErrIncompatibleTypes},
			{`{} // {type: "string"}`, []typ{}, errors.ErrIncompatibleTypes},
			{`[] // {type: "string"}`, []typ{}, errors.ErrIncompatibleTypes},
			{`123 // {type: "float"}`, []typ{}, errors.ErrIncompatibleTypes},

			// precisionConstraint
			{`123.45 // {type: "decimal"}`, []typ{}, errors.ErrNotFoundRulePrecision},          // decimal without precision
			{`123 // {precision: 1}`, []typ{}, errors.ErrUnexpectedConstraint},                 // incorrect integer node type
			{`"str" // {precision: 2}`, []typ{}, errors.ErrUnexpectedConstraint},               // incorrect string node type
			{`true // {precision: 2}`, []typ{}, errors.ErrUnexpectedConstraint},                // incorrect bool node type
			{`null // {precision: 2}`, []typ{}, errors.ErrUnexpectedConstraint},                // incorrect null node type
			{`"str" // {minLength: 0, precision: 1}`, []typ{}, errors.ErrUnexpectedConstraint}, // incompatibility node type with constraint
			{`1.0 // {precision: 0}`, []typ{}, errors.ErrZeroPrecision},                        // zero precision
			{`0.12 // {precision: -2}`, []typ{}, errors.ErrInvalidValueOfConstraint},           // negative precision
			{`0.12 // {precision: 2.3}`, []typ{}, errors.ErrInvalidValueOfConstraint},          // fractional precision

			// exclusiveMinimumConstraint
			{`111 // {exclusiveMinimum: true}`, []typ{}, errors.ErrConstraintMinNotFound},
			{`111 // {min: 2, exclusiveMinimum: 1}`, []typ{}, errors.ErrInvalidValueOfConstraint}, // not bool in exclusive

			// exclusiveMaximumConstraint
			{`222 // {exclusiveMaximum: true}`, []typ{}, errors.ErrConstraintMaxNotFound},
			{`222 // {max: 2, exclusiveMaximum: "str"}`, []typ{}, errors.ErrInvalidValueOfConstraint}, // not bool in exclusive

			// optionalConstraints: Incorrect rule "optional" location. The rule "optional" applies only to object properties.
			{`"str" // {optional: true}`, []typ{}, errors.ErrRuleOptionalAppliesOnlyToObjectProperties},
			{`12 // {optional: true}`, []typ{}, errors.ErrRuleOptionalAppliesOnlyToObjectProperties},
			{`1.2 // {optional: true}`, []typ{}, errors.ErrRuleOptionalAppliesOnlyToObjectProperties},
			{`true // {optional: true}`, []typ{}, errors.ErrRuleOptionalAppliesOnlyToObjectProperties},
			{`null // {optional: true}`, []typ{}, errors.ErrRuleOptionalAppliesOnlyToObjectProperties},
			{`{} // {optional: true}`, []typ{}, errors.ErrRuleOptionalAppliesOnlyToObjectProperties},
			{`[] // {optional: true}`, []typ{}, errors.ErrRuleOptionalAppliesOnlyToObjectProperties},
			{`[
				1 // {optional: true}
			]`, []typ{}, errors.ErrRuleOptionalAppliesOnlyToObjectProperties},
			{`{ // {optional: true}
            }`, []typ{}, errors.ErrRuleOptionalAppliesOnlyToObjectProperties},

			// You cannot specify children node if you use a type reference.
			{`{ // {type: "@schema"}
			"key": 123
		}`, []typ{}, errors.ErrInvalidChildNodeTogetherWithTypeReference},

			// You cannot specify other rules if you use a type reference.
			{`333 // {type: "@type", min: 1}`, []typ{}, errors.ErrCannotSpecifyOtherRulesWithTypeReference},
			{`333 // {type: "@type", min: 1}`, []typ{}, errors.ErrCannotSpecifyOtherRulesWithTypeReference},
			{`333 // {type: "@type1", type: "@type2"}`, []typ{}, errors.ErrDuplicateRule},

			// rule "or"
			{`2 // {or: 123}`, []typ{}, errors.ErrArrayWasExpectedInOrRule},
			{`2 // {or: "some_string"}`, []typ{}, errors.ErrArrayWasExpectedInOrRule},
			{`2 // {or: "@some_string"}`, []typ{}, errors.ErrArrayWasExpectedInOrRule},
			{`2 // {or: true}`, []typ{}, errors.ErrArrayWasExpectedInOrRule},
			{`2 // {or: null}`, []typ{}, errors.ErrArrayWasExpectedInOrRule},
			{`2 // {or: {}`, []typ{}, errors.ErrArrayWasExpectedInOrRule},
			{`2 // {or: {or: {"@type-1","@type-2"}`, []typ{}, errors.ErrArrayWasExpectedInOrRule},

			{`2 // {or: [ 1,2,3 ]}`, []typ{}, errors.ErrIncorrectArrayItemTypeInOrRule},
			{`2 // {or: [ [],[] ]}`, []typ{}, errors.ErrIncorrectArrayItemTypeInOrRule},

			{`2 // {or: [ {type: false}, {type: "string"} ]}`, []typ{}, errors.ErrUnknownType},
			{`2 // {or: [ {type: "unknown_json_type"}, {type: "string"} ]}`, []typ{}, errors.ErrUnknownType},

			{`2 // {or: [ {type: "@type", min: 0}, {type: "string"} ]}`, []typ{}, errors.ErrCannotSpecifyOtherRulesWithTypeReference},
			{`2 // {or: [ {min: 0, type: "@type"}, {type: "string"} ]}`, []typ{}, errors.ErrCannotSpecifyOtherRulesWithTypeReference},

			{`2 // {or: [ {}, {} ]}`, []typ{}, errors.ErrEmptyRuleSet},
			{`2 // {or: []}`, []typ{}, errors.ErrEmptyArrayInOrRule},

			{`2 // {or: [ {type: "integer", min: 0} ]}`, []typ{}, errors.ErrOneElementInArrayInOrRule},
			{`2 // {or: [ {min: 0} ]}`, []typ{}, errors.ErrOneElementInArrayInOrRule},
			{`2 // {or: [ {type: "@type"} ]}`, []typ{}, errors.ErrOneElementInArrayInOrRule},
			{`2 // {or: [ "@type" ]}`, []typ{}, errors.ErrOneElementInArrayInOrRule},

			// {`2 // {or: [ {type: "integer"}, {minLength:1} ]}`, []typ{}, errors.ErrIncompatibleJsonType},
			// {`2 // {or: [ {type: "integer"}, {min:1, minLength:1} ]}`, []typ{}, errors.ErrIncompatibleJsonType},

			{`2 // {or: [ "some_string" ]}`, []typ{}, errors.ErrUnknownType},
			{`2 // {or: [ {type: "integer", min: 0, min: 0}, {type: "string"} ]}`, []typ{}, errors.ErrDuplicateRule},
			{`2 // {or: [ {min: []}, {type: "string"} ]}`, []typ{}, errors.ErrLiteralValueExpected},

			{`2 // {min: 1, or: [ {type: "integer"}, {type: "string"} ]}`, []typ{}, errors.ErrShouldBeNoOtherRulesInSetWithOr},
			{
				`{ // {or: [ {type: "object"}, {type: "string"} ]}
				"key": 1
			}`,
				[]typ{},
				errors.ErrInvalidChildNodeTogetherWithOrRule,
			},
			{
				`[ // {or: [ {type: "array"}, {type: "string"} ]}
				1,2,3
			]`,
				[]typ{},
				errors.ErrInvalidChildNodeTogetherWithOrRule,
			},

			{
				``,
				[]typ{
					{`abc`, `{}`},
				},
				errors.ErrInvalidSchemaName,
			},

			{`-5 // {or: [ {min: 0}, {type: "string"} ]}`, []typ{}, errors.ErrOrRuleSetValidation},

			// duplicate type names
			{
				``,
				[]typ{
					{`@sub1`, `"some string 1"`},
					{`@sub1`, `{}`},
				},
				errors.ErrDuplicationOfNameOfTypes,
			},

			// invalid place for comment
			{
				``,
				[]typ{
					{`@sub`, `3.4
					// {precision: 1}`},
				},
				errors.ErrIncorrectRuleWithoutExample,
			},

			// schema and example type mismatch
			{
				`[] // {or: [ {type:"string"}, {type:"@arr"} ]}`,
				[]typ{
					{`@arr`, `[1,2,3]`},
				},
				errors.ErrInvalidChildNodeTogetherWithOrRule,
			},
			{
				`[] // {type: "@schema"}`,
				[]typ{
					{`@schema`, `{}`},
				},
				errors.ErrInvalidChildNodeTogetherWithTypeReference,
			},
			{
				`{} // {type: "@schema"}`,
				[]typ{
					{`@schema`, `[1]`},
				},
				errors.ErrInvalidChildNodeTogetherWithTypeReference,
			},
			{
				`"" // {type: "@schema"}`,
				[]typ{
					{`@schema`, `[1]`},
				},
				errors.ErrIncorrectUserType,
			},
			{
				`11 // {type: "@schema"}`,
				[]typ{
					{`@schema`, `[1]`},
				},
				errors.ErrIncorrectUserType,
			},
			{
				`1.2 // {type: "@schema"}`,
				[]typ{
					{`@schema`, `[1]`},
				},
				errors.ErrIncorrectUserType,
			},
			{
				`true // {type: "@schema"}`,
				[]typ{
					{`@schema`, `[1]`},
				},
				errors.ErrIncorrectUserType,
			},
			{
				`null // {type: "@schema"}`,
				[]typ{
					{`@schema`, `[1]`},
				},
				errors.ErrIncorrectUserType,
			},
			{
				`111 // {type: "@schema"}`,
				[]typ{
					{`@schema`, `1.2`},
				},
				errors.ErrIncorrectUserType,
			},
			{ // decimal and integer
				`3 // {type: "@schema"}`,
				[]typ{
					{`@schema`, `1.2 // {precision: 1}`},
				},
				errors.ErrIncorrectUserType,
			},

			// or
			{
				`1.2  // {or: ["@int","@str"]}`,
				[]typ{
					{`@int`, `111`},
					{`@str`, `"abc"`},
				},
				errors.ErrIncorrectUserType,
			},
			{
				`true // {or: ["@int","@str"]}`,
				[]typ{
					{`@int`, `111`},
					{`@str`, `"abc"`},
				},
				errors.ErrIncorrectUserType},
			{
				`null // {or: ["@int","@str"]}`,
				[]typ{
					{`@int`, `111`},
					{`@str`, `"abc"`},
				},
				errors.ErrIncorrectUserType,
			},
			{
				`{}   // {or: ["@int","@str"]}`,
				[]typ{
					{`@int`, `111`},
					{`@str`, `"abc"`},
				},
				errors.ErrInvalidChildNodeTogetherWithOrRule,
			},
			{
				`[]   // {or: ["@int","@str"]}`,
				[]typ{
					{`@int`, `111`},
					{`@str`, `"abc"`},
				},
				errors.ErrInvalidChildNodeTogetherWithOrRule,
			},

			{
				`1.2  // {or: [ {type:"@int"}, {type:"@str"} ]}`,
				[]typ{
					{`@int`, `111`},
					{`@str`, `"abc"`},
				},
				errors.ErrIncorrectUserType},
			{
				`true // {or: [ {type:"@int"}, {type:"@str"} ]}`,
				[]typ{
					{`@int`, `111`},
					{`@str`, `"abc"`},
				},
				errors.ErrIncorrectUserType},
			{
				`null // {or: [ {type:"@int"}, {type:"@str"} ]}`,
				[]typ{
					{`@int`, `111`},
					{`@str`, `"abc"`},
				},
				errors.ErrIncorrectUserType},
			{
				`{}   // {or: [ {type:"@int"}, {type:"@str"} ]}`,
				[]typ{
					{`@int`, `111`},
					{`@str`, `"abc"`},
				},
				errors.ErrInvalidChildNodeTogetherWithOrRule,
			},
			{
				`[]   // {or: [ {type:"@int"}, {type:"@str"} ]}`,
				[]typ{
					{`@int`, `111`},
					{`@str`, `"abc"`},
				},
				errors.ErrInvalidChildNodeTogetherWithOrRule,
			},

			{`1.2  // {or: [ {type:"integer"}, {type:"string"} ]}`, []typ{}, errors.ErrIncorrectUserType},
			{`true // {or: [ {type:"integer"}, {type:"string"} ]}`, []typ{}, errors.ErrIncorrectUserType},
			{`null // {or: [ {type:"integer"}, {type:"string"} ]}`, []typ{}, errors.ErrIncorrectUserType},
			{`{}   // {or: [ {type:"integer"}, {type:"string"} ]}`, []typ{}, errors.ErrIncorrectUserType},
			{`[]   // {or: [ {type:"integer"}, {type:"string"} ]}`, []typ{}, errors.ErrIncorrectUserType},

			{
				`false // {or: ["@int_or_str", "@obj"]}`,
				[]typ{
					{`@int_or_str`, `"abc" // {or: ["@int", "@str"]}`},
					{`@str`, `"abc"`},
					{`@int`, `123`},
					{`@obj`, `{}`},
				},
				errors.ErrIncorrectUserType},

			{
				`1 // {type: "@type1"}`,
				[]typ{
					{`@type1`, `1 // {type: "@type1"}`},
				},
				errors.ErrImpossibleToDetermineTheJsonTypeDueToRecursion},

			{
				`1 // {type: "@type1"}`,
				[]typ{
					{`@type1`, `1 // {type: "@type2"}`},
					{`@type2`, `2 // {type: "@type1"}`},
				},
				errors.ErrImpossibleToDetermineTheJsonTypeDueToRecursion},

			{
				`1 // {type: "@type1"}`,
				[]typ{
					{`@type1`, `1 // {type: "@type2"}`},
					{`@type2`, `2 // {type: "@type3"}`},
					{`@type3`, `3 // {type: "@type1"}`},
				},
				errors.ErrImpossibleToDetermineTheJsonTypeDueToRecursion},

			{
				`1 // {type: "@type1"}`,
				[]typ{
					{`@type1`, `1 // {or: [ {type:"integer"}, "@type2" ]}`},
					{`@type2`, `2 // {or: [ {type:"integer"}, "@type1" ]}`},
				},
				errors.ErrImpossibleToDetermineTheJsonTypeDueToRecursion},

			{
				`1 // {type: "@recurring"}`,
				[]typ{
					{`@recurring`, `"abc" // {or: ["@int", "@recurring"]}`},
					{`@int`, `123`},
				},
				errors.ErrImpossibleToDetermineTheJsonTypeDueToRecursion},

			{`"abc" // {type: "enum"}`, []typ{}, errors.ErrNotFoundRuleEnum},
			{`"abc" // {type: "enum", minLength: 1}`, []typ{}, errors.ErrNotFoundRuleEnum},

			{`"abc" // {type: "mixed"}`, []typ{}, errors.ErrNotFoundRuleOr},
			{`"abc" // {type: "mixed", minLength: 1}`, []typ{}, errors.ErrNotFoundRuleOr},

			{`2.0 // {enum: [2]}`, []typ{}, errors.ErrDoesNotMatchAnyOfTheEnumValues},
			{`2 // {enum: [2.0]}`, []typ{}, errors.ErrDoesNotMatchAnyOfTheEnumValues},

			{`"abc" // {type: "string", enum: [123, "abc"]}`, []typ{}, errors.ErrInvalidValueInTheTypeRule},
			{`"abc" // {type: "integer", enum: [123, "abc"]}`, []typ{}, errors.ErrInvalidValueInTheTypeRule},
			{`"abc" // {type: "boolean", enum: [123, "abc"]}`, []typ{}, errors.ErrInvalidValueInTheTypeRule},
			{`"abc" // {type: "string", or: [{type:"integer"}, {type:"string"}]}`, []typ{}, errors.ErrInvalidValueInTheTypeRule},

			{`2 // {type: "integer", or: [ {type: "integer"}, {type: "string"} ]}`, []typ{}, errors.ErrInvalidValueInTheTypeRule},
			{`2 // {type: "@type", or: [ {type: "integer"}, {type: "string"} ]}`, []typ{}, errors.ErrInvalidValueInTheTypeRule},

			{`"abc" // {enum: [123, "abc"], minLength: 1}`, []typ{}, errors.ErrShouldBeNoOtherRulesInSetWithEnum},
			{`"abc" // {type: "enum", enum: [123, "abc"], min: 1}`, []typ{}, errors.ErrShouldBeNoOtherRulesInSetWithEnum},

			{`123 // {type: "any", min: 1}`, []typ{}, errors.ErrShouldBeNoOtherRulesInSetWithAny},
			{`123 // {min: 1, type: "any"}`, []typ{}, errors.ErrShouldBeNoOtherRulesInSetWithAny},
			{`{ // {type: "any"}
			"aaa": 1,
			"bbb": 2
		}`, []typ{}, errors.ErrInvalidNestedElementsFoundForTypeAny},
			{`[ // {type: "any"}
			1,2,3
		]`, []typ{}, errors.ErrInvalidNestedElementsFoundForTypeAny},

			{`1 // {type: "@int"}`,
				[]typ{
					{`@int`, `1 // {type: "@str"}`},
					{`@str`, `"abc"`},
				},
				errors.ErrIncorrectUserType},
			{`1 // {type: "@int"}`,
				[]typ{
					{`@int`, `"abc" // {type: "@str"}`},
					{`@str`, `"abc"`},
				},
				errors.ErrIncorrectUserType},

			{`"abc"`,
				[]typ{
					{`@unused`, `-1 // {min: 0}`},
				},
				errors.ErrConstraintValidation},

			{`-5 // {or: [ {min: 0}, {type: "string"}, "@used" ]}`,
				[]typ{
					{`@used`, `0 // {min: -10}`},
					{`@unused`, `-1 // {min: 0} - incorrect EXAMPLE value`},
				},
				errors.ErrConstraintValidation},

			{`-1 // {type: "@int"}`,
				[]typ{
					{`@int`, `0 // {min: 0}`},
				},
				errors.ErrConstraintValidation},

			{`-1 // {type: "@int"}`,
				[]typ{
					{`@int`, `0 // {type: "@uint"}`},
					{`@uint`, `0  // {min: 0}`},
				},
				errors.ErrConstraintValidation},

			{`-1 // {type: "@int"}`,
				[]typ{
					{`@int`, `-1 // {type: "@uint"}`},
					{`@uint`, `0  // {min: 0}`},
				},
				errors.ErrConstraintValidation},

			{`{} // {additionalProperties: "wrong"}`, []typ{}, errors.ErrUnknownJSchemaType},

			{`"abc" // {additionalProperties: "string"}`, []typ{}, errors.ErrUnexpectedConstraint},
			{`123 // {additionalProperties: "string"}`, []typ{}, errors.ErrUnexpectedConstraint},
			{`123.45 // {additionalProperties: "string"}`, []typ{}, errors.ErrUnexpectedConstraint},
			{`true // {additionalProperties: "string"}`, []typ{}, errors.ErrUnexpectedConstraint},
			{`false // {additionalProperties: "string"}`, []typ{}, errors.ErrUnexpectedConstraint},
			{`null // {additionalProperties: "string"}`, []typ{}, errors.ErrUnexpectedConstraint},
			{`[ // {additionalProperties: "string"}
			123
		]`, []typ{}, errors.ErrUnexpectedConstraint},

			{`{} // {allOf: 123}`, []typ{}, errors.ErrUnacceptableValueInAllOfRule},
			{`{} // {allOf: true}`, []typ{}, errors.ErrUnacceptableValueInAllOfRule},
			{`{} // {allOf: false}`, []typ{}, errors.ErrUnacceptableValueInAllOfRule},
			{`{} // {allOf: null}`, []typ{}, errors.ErrUnacceptableValueInAllOfRule},
			{`{} // {allOf: {}}`, []typ{}, errors.ErrUnacceptableValueInAllOfRule},
			{`{} // {allOf: []}`, []typ{}, errors.ErrTypeNameNotFoundInAllOfRule},
			{`{} // {allOf: "not a schema name"}`, []typ{}, errors.ErrInvalidSchemaNameInAllOfRule},
			{`{} // {allOf: ["not a schema name"]}`, []typ{}, errors.ErrInvalidSchemaNameInAllOfRule},
			{
				`{ // {allOf: "@basicError"}
				"message": "Some message text"
			}`,
				[]typ{
					{`@basicError`, `{"message": "Some message text"}`},
				},
				errors.ErrDuplicateKeysInSchema,
			},
			{
				``,
				[]typ{
					{`@aaa`, `{ // {allOf: "@bbb"}
						"aaa": "aaa"
					}`},
					{`@bbb`, `{ // {allOf: "@aaa"}
						"bbb": "bbb"
					}`},
				},
				errors.ErrUnacceptableRecursionInAllOfRule,
			},
			{
				`{} // {allOf: "@aaa"}`,
				[]typ{
					{`@aaa`, `{ // {allOf: "@bbb"}
						"aaa": "aaa"
					}`},
					{`@bbb`, `{ // {allOf: "@aaa"}
						"bbb": "bbb"
					}`},
				},
				errors.ErrUnacceptableRecursionInAllOfRule,
			},
			{
				``,
				[]typ{
					{`@aaa`, `{ // {allOf: "@bbb"}
						"aaa": "aaa"
					}`},
				},
				errors.ErrTypeNotFound,
			},
			{
				`{} // {allOf: "@aaa"}`,
				[]typ{},
				errors.ErrTypeNotFound,
			},
			{
				`{} // {allOf: "@aaa"}`,
				[]typ{
					{`@aaa`, `[]`},
				},
				errors.ErrUnacceptableUserTypeInAllOfRule,
			},
			{
				`{} // {allOf: "@aaa"}`,
				[]typ{
					{`@aaa`, `"string"`},
				},
				errors.ErrUnacceptableUserTypeInAllOfRule,
			},
			{
				`{} // {allOf: "@aaa"}`,
				[]typ{
					{`@aaa`, `123`},
				},
				errors.ErrUnacceptableUserTypeInAllOfRule,
			},
			{
				`{} // {allOf: "@aaa"}`,
				[]typ{
					{`@aaa`, `123.45`},
				},
				errors.ErrUnacceptableUserTypeInAllOfRule,
			},
			{
				`{} // {allOf: "@aaa"}`,
				[]typ{
					{`@aaa`, `true`},
				},
				errors.ErrUnacceptableUserTypeInAllOfRule,
			},
			{
				`{} // {allOf: "@aaa"}`,
				[]typ{
					{`@aaa`, `null`},
				},
				errors.ErrUnacceptableUserTypeInAllOfRule,
			},
			{
				`{ // {allOf: "@aaa", additionalProperties: "integer"}
				"bbb": 222
			}`,
				[]typ{
					{`@aaa`, `{ // {additionalProperties: "string"}
						"aaa": 111
					}`},
				},
				errors.ErrConflictAdditionalProperties,
			},
			{
				`{ // {allOf: "@aaa", additionalProperties: "@int"}
				"bbb": 222
			}`,
				[]typ{
					{`@aaa`, `{ // {additionalProperties: "@str"}
						"aaa": 111
					}`},
					{`@str`, `"abc"`},
					{`@int`, `123`},
				},
				errors.ErrConflictAdditionalProperties,
			},
			{
				`[] // {minItems: 1}`,
				[]typ{},
				errors.ErrIncorrectConstraintValueForEmptyArray,
			},
			{
				`[] // {maxItems: 1}`,
				[]typ{},
				errors.ErrIncorrectConstraintValueForEmptyArray,
			},
			{
				`[] // {minItems: 1, maxItems: 1}`,
				[]typ{},
				errors.ErrIncorrectConstraintValueForEmptyArray,
			},
			{
				`{} // {type: "@sub"}`,
				[]typ{
					{`@sub`, `{
					id\n: 123
				}`},
				},
				errors.ErrInvalidChildNodeTogetherWithTypeReference,
			},
			{
				`{} // {type: "@sub"}`,
				[]typ{
					{`@sub`, `{
					id": 123
				}`},
				},
				errors.ErrInvalidChildNodeTogetherWithTypeReference,
			},
		}

		for _, tt := range tests {
			t.Run(tt.schema, func(t *testing.T) {
				defer func() {
					r := recover()
					require.NotNil(t, r, "Panic expected")

					err, ok := r.(errors.Err)
					require.Truef(t, ok, "Unexpected error type %#v", r)

					assert.Equal(t, tt.err, err.Code())
				}()
				check(tt.schema, tt.types)
			})
		}
	})
}
