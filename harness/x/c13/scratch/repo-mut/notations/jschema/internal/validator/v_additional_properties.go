package validator

import (
	jschema "github.com/jsightapi/jsight-schema-go-library"
	"github.com/jsightapi/jsight-schema-go-library/errors"
	"github.com/jsightapi/jsight-schema-go-library/internal/lexeme"
	"github.com/jsightapi/jsight-schema-go-library/notations/jschema/internal/schema"
	"github.com/jsightapi/jsight-schema-go-library/notations/jschema/internal/schema/constraint"
)

// validator to process additional properties.

type additionalPropertiesValidator struct {
	node_           schema.Node                               // always schema.ObjectNode
	parentValidator validator                                 // always objectValidator
	feedFunc        func(lexeme.LexEvent) ([]validator, bool) // can panic
	schemaType      jschema.SchemaType
	depth           uint
}

// The constructor can return multiple validators because a type can contain an
// "OR" rule.

func newAdditionalPropertiesValidator(
	node schema.Node,
	parentValidator validator,
	c *constraint.AdditionalProperties,
) []validator {
	v := additionalPropertiesValidator{
		node_:           node,            // always schema.ObjectNode
		parentValidator: parentValidator, // always objectValidator
	}

	switch c.Mode() {
	case constraint.AdditionalPropertiesCanBeAny:
		v.feedFunc = v.feedAny

	case constraint.AdditionalPropertiesMustBeSchemaType:
		v.schemaType = c.SchemaType()
		switch v.schemaType {
		case jschema.SchemaTypeObject:
			v.feedFunc = v.feedObject

		case jschema.SchemaTypeArray:
			v.feedFunc = v.feedArray

		default:
			v.feedFunc = v.feedLiteral
		}

	case constraint.AdditionalPropertiesMustBeUserType:
		schem := parentValidator.(*objectValidator).rootSchema
		return NodeValidatorList(
			schem.MustType(c.TypeName().String()).RootNode(), // can panic
			schem,
			parentValidator,
		)

	case constraint.AdditionalPropertiesNotAllowed:
		v.feedFunc = v.feedNotAllowed

	default:
		panic(errors.ErrValidator)
	}

	list := make([]validator, 1)
	list[0] = &v
	return list
}

func (v additionalPropertiesValidator) node() schema.Node {
	return v.node_
}

func (v additionalPropertiesValidator) parent() validator {
	return v.parentValidator
}

func (v *additionalPropertiesValidator) setParent(parent validator) {
	v.parentValidator = parent
}

func (v *additionalPropertiesValidator) feed(jsonLexeme lexeme.LexEvent) ([]validator, bool) {
	defer lexeme.CatchLexEventError(jsonLexeme)
	return v.feedFunc(jsonLexeme)
}

func (v *additionalPropertiesValidator) feedAny(jsonLexeme lexeme.LexEvent) ([]validator, bool) {
	if jsonLexeme.Type().IsOpening() {
		v.depth++
	} else {
		v.depth--
	}

	if v.depth == 0 {
		return nil, true
	}

	return nil, false
}

func (v *additionalPropertiesValidator) feedObject(jsonLexeme lexeme.LexEvent) ([]validator, bool) {
	if jsonLexeme.Type() != lexeme.ObjectBegin {
		panic(errors.ErrUnexpectedLexInObjectValidator)
	}
	v.feedFunc = v.feedAny
	_, b := v.feedFunc(jsonLexeme)
	return nil, b
}

func (v *additionalPropertiesValidator) feedArray(jsonLexeme lexeme.LexEvent) ([]validator, bool) {
	if jsonLexeme.Type() != lexeme.ArrayBegin {
		panic(errors.ErrUnexpectedLexInArrayValidator)
	}
	v.feedFunc = v.feedAny
	_, b := v.feedFunc(jsonLexeme)
	return nil, b
}

func (v *additionalPropertiesValidator) feedLiteral(jsonLexeme lexeme.LexEvent) ([]validator, bool) {
	switch jsonLexeme.Type() { //nolint:exhaustive // We will throw a panic in over cases.
	case lexeme.LiteralBegin:
		return nil, false
	case lexeme.LiteralEnd:
		actualType, err := jschema.GuessSchemaType(jsonLexeme.Value())
		if err != nil {
			panic(err)
		}
		if !v.schemaType.IsEqualSoft(actualType) {
			panic(errors.Format(errors.ErrInvalidValueType, actualType, v.schemaType))
		}
		return nil, true
	}
	panic(errors.ErrUnexpectedLexInLiteralValidator)
}

func (*additionalPropertiesValidator) feedNotAllowed(lex lexeme.LexEvent) ([]validator, bool) {
	panic(lexeme.NewLexEventError(
		lex,
		errors.Format(errors.ErrSchemaDoesNotSupportKey, lex.Value().Unquote().String())),
	)
}
