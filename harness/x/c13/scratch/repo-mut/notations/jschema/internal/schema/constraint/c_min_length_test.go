package constraint

import (
	"testing"

	"github.com/stretchr/testify/assert"

	jschema "github.com/jsightapi/jsight-schema-go-library"
	"github.com/jsightapi/jsight-schema-go-library/bytes"
	"github.com/jsightapi/jsight-schema-go-library/internal/json"
)

func TestNewMinLength(t *testing.T) {
	t.Run("positive", func(t *testing.T) {
		cnstr := NewMinLength([]byte("10"))

		assert.EqualValues(t, 10, cnstr.value)
	})

	t.Run("negative", func(t *testing.T) {
		ss := []string{
			"not a number",
			"3.14",
			"-12",
		}

		for _, s := range ss {
			t.Run(s, func(t *testing.T) {
				assert.PanicsWithError(t, `Invalid value of "minLength" constraint`, func() {
					NewMinLength([]byte(s))
				})
			})
		}
	})
}

func TestMinLength_IsJsonTypeCompatible(t *testing.T) {
	testIsJsonTypeCompatible(t, MinLength{}, json.TypeString)
}

func TestMinLength_Type(t *testing.T) {
	assert.Equal(t, MinLengthConstraintType, NewMinLength(bytes.Bytes("1")).Type())
}

func TestMinLength_String(t *testing.T) {
	assert.Equal(t, "minLength: 1", NewMinLength([]byte("1")).String())
}

func TestMinLength_Validate(t *testing.T) {
	t.Run("positive", func(t *testing.T) {
		cc := []string{
			"0123456789",
			"0123456789A",
			"0123456789AB",
		}

		for _, given := range cc {
			t.Run(given, func(t *testing.T) {
				assert.NotPanics(t, func() {
					NewMinLength([]byte("10")).Validate([]byte(given))
				})
			})
		}
	})

	t.Run("negative", func(t *testing.T) {
		assert.PanicsWithError(t, `Invalid string length for "minLength" = "10" constraint`, func() {
			NewMinLength([]byte("10")).Validate([]byte("012345678"))
		})
	})
}

func TestMinLength_ASTNode(t *testing.T) {
	assert.Equal(t, jschema.RuleASTNode{
		TokenType:  jschema.TokenTypeNumber,
		Value:      "1",
		Properties: &jschema.RuleASTNodes{},
		Source:     jschema.RuleASTNodeSourceManual,
	}, NewMinLength(bytes.Bytes("1")).ASTNode())
}

func TestMinLength_Value(t *testing.T) {
	assert.Equal(t, uint(1), NewMinLength([]byte("1")).Value())
}
