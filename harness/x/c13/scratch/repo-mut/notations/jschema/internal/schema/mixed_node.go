package schema

import (
	jschema "github.com/jsightapi/jsight-schema-go-library"
	"github.com/jsightapi/jsight-schema-go-library/errors"
	"github.com/jsightapi/jsight-schema-go-library/internal/json"
	"github.com/jsightapi/jsight-schema-go-library/internal/lexeme"
)

type MixedNode struct {
	baseNode
}

var _ Node = &MixedNode{}

func NewMixedNode(lex lexeme.LexEvent) *MixedNode {
	n := MixedNode{
		baseNode: newBaseNode(lex),
	}
	n.setJsonType(json.Guess(lex.Value()).JsonType())
	return &n
}

func (*MixedNode) SetRealType(string) bool {
	// Mixed value node is always have mixed type.
	return true
}

// SetJsonType for mixed node n.baseNode.jsonType is an EXAMPLE type
func (n *MixedNode) SetJsonType(t json.Type) {
	n.setJsonType(t)
}

func (*MixedNode) Grow(lexeme.LexEvent) (Node, bool) {
	panic(errors.ErrNodeGrow)
}

func (n MixedNode) ASTNode() (jschema.ASTNode, error) {
	an := newASTNode()

	an.SchemaType = n.Type().String()
	an.Value = n.Value().Unquote().String()
	an.Rules = collectASTRules(n.constraints)
	an.Comment = n.comment

	return an, nil
}
