package constraint

import (
	jschema "github.com/jsightapi/jsight-schema-go-library"
	"github.com/jsightapi/jsight-schema-go-library/internal/json"
)

type AnyConstraint struct{}

var (
	_ Constraint = AnyConstraint{}
	_ Constraint = (*AnyConstraint)(nil)
)

func NewAny() *AnyConstraint {
	return &AnyConstraint{}
}

func (AnyConstraint) IsJsonTypeCompatible(json.Type) bool {
	return true
}

func (AnyConstraint) Type() Type {
	return AnyConstraintType
}

func (AnyConstraint) String() string {
	return AnyConstraintType.String()
}

func (AnyConstraint) ASTNode() jschema.RuleASTNode {
	return newEmptyRuleASTNode()
}
