package schema

//go:generate mockery --name Node --inpackage --testonly
