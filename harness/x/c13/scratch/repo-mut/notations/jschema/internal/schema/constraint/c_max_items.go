package constraint

import (
	"strconv"

	jschema "github.com/jsightapi/jsight-schema-go-library"
	"github.com/jsightapi/jsight-schema-go-library/bytes"
	"github.com/jsightapi/jsight-schema-go-library/errors"
	"github.com/jsightapi/jsight-schema-go-library/internal/json"
)

type MaxItems struct {
	value uint
}

var (
	_ Constraint     = MaxItems{}
	_ Constraint     = (*MaxItems)(nil)
	_ ArrayValidator = MaxItems{}
	_ ArrayValidator = (*MaxItems)(nil)
)

func NewMaxItems(ruleValue bytes.Bytes) *MaxItems {
	return &MaxItems{
		value: parseUint(ruleValue, MaxItemsConstraintType),
	}
}

func (MaxItems) IsJsonTypeCompatible(t json.Type) bool {
	return t == json.TypeArray
}

func (MaxItems) Type() Type {
	return MaxItemsConstraintType
}

func (c MaxItems) String() string {
	return MaxItemsConstraintType.String() + ": " + strconv.FormatUint(uint64(c.value), 10)
}

func (c MaxItems) ValidateTheArray(numberOfChildren uint) {
	if numberOfChildren > c.value {
		panic(errors.ErrConstraintMaxItemsValidation)
	}
}

func (c MaxItems) Value() uint {
	return c.value
}

func (c MaxItems) ASTNode() jschema.RuleASTNode {
	return newRuleASTNode(
		jschema.TokenTypeNumber,
		strconv.FormatUint(uint64(c.value), 10),
		jschema.RuleASTNodeSourceManual,
	)
}
