package constraint

import (
	"strings"

	jschema "github.com/jsightapi/jsight-schema-go-library"
	"github.com/jsightapi/jsight-schema-go-library/bytes"
	"github.com/jsightapi/jsight-schema-go-library/errors"
	"github.com/jsightapi/jsight-schema-go-library/internal/json"
)

type AdditionalPropertiesMode int

const (
	AdditionalPropertiesCanBeAny AdditionalPropertiesMode = iota
	AdditionalPropertiesMustBeSchemaType
	AdditionalPropertiesMustBeUserType
	AdditionalPropertiesNotAllowed
)

type AdditionalProperties struct {
	schemaType jschema.SchemaType // only for AdditionalPropertiesMustBeSchemaType
	typeName   bytes.Bytes        // only for AdditionalPropertiesMustBeUserType
	astNode    jschema.RuleASTNode
	mode       AdditionalPropertiesMode
}

var (
	_ Constraint = AdditionalProperties{}
	_ Constraint = (*AdditionalProperties)(nil)
)

// NewAdditionalProperties create an additional properties constraint.
// Depends on `ruleValue` value, might return nil.
// Might panic if got unknown JSON type.
//
// Handle next cases:
//
//	{additionalProperties: "any"}
//	{additionalProperties: true}
//	{additionalProperties: false} - in that case this function will return nil.
//	{additionalProperties: "@Foo"}
//	{additionalProperties: "string"}
func NewAdditionalProperties(ruleValue bytes.Bytes) *AdditionalProperties {
	c := &AdditionalProperties{}

	c.astNode = newEmptyRuleASTNode()
	c.astNode.Source = jschema.RuleASTNodeSourceManual

	txt := ruleValue.Unquote()
	txtStr := txt.String()
	switch {
	case txt.OneOf("any", "true"):
		if txt.String() == "true" {
			c.astNode.TokenType = jschema.TokenTypeBoolean
			c.astNode.Value = "true"
		} else {
			c.astNode.TokenType = jschema.TokenTypeString
			c.astNode.Value = txtStr
		}
		c.mode = AdditionalPropertiesCanBeAny

	case txt.String() == "false":
		c.astNode.TokenType = jschema.TokenTypeBoolean
		c.astNode.Value = "false"
		c.mode = AdditionalPropertiesNotAllowed

	case txt.IsUserTypeName():
		c.astNode.TokenType = jschema.TokenTypeString
		c.astNode.Value = txtStr
		c.mode = AdditionalPropertiesMustBeUserType
		c.typeName = txt

	case jschema.IsValidType(txtStr):
		c.astNode.TokenType = jschema.TokenTypeString
		c.astNode.Value = txtStr
		c.mode = AdditionalPropertiesMustBeSchemaType
		c.schemaType = jschema.SchemaType(txtStr)

	default:
		panic(errors.Format(errors.ErrUnknownJSchemaType, txtStr))
	}
	return c
}

func (AdditionalProperties) IsJsonTypeCompatible(t json.Type) bool {
	return t == json.TypeObject
}

func (AdditionalProperties) Type() Type {
	return AdditionalPropertiesConstraintType
}

func (c AdditionalProperties) String() string {
	buf := strings.Builder{}
	buf.WriteString(AdditionalPropertiesConstraintType.String() + ": ")

	switch c.mode {
	case AdditionalPropertiesCanBeAny:
		buf.WriteString("any")

	case AdditionalPropertiesMustBeSchemaType:
		buf.WriteString(string(c.schemaType))

	case AdditionalPropertiesMustBeUserType:
		buf.WriteString(c.typeName.String())

	case AdditionalPropertiesNotAllowed:
		buf.WriteString("false")

	default:
		panic(errors.Format(errors.ErrGeneric, "Constraint error"))
	}

	return buf.String()
}

func (c AdditionalProperties) Mode() AdditionalPropertiesMode {
	return c.mode
}

func (c AdditionalProperties) SchemaType() jschema.SchemaType {
	return c.schemaType
}

func (c AdditionalProperties) TypeName() bytes.Bytes {
	return c.typeName
}

func (c AdditionalProperties) IsEqual(c2 AdditionalProperties) bool {
	return c.schemaType == c2.schemaType && c.typeName.String() == c2.typeName.String()
}

func (c AdditionalProperties) ASTNode() jschema.RuleASTNode {
	return c.astNode
}
