package schema

import (
	"fmt"
	"testing"

	"github.com/stretchr/testify/assert"

	"github.com/jsightapi/jsight-schema-go-library/internal/json"
)

func TestBaseNode_SetRealType(t *testing.T) {
	cc := []struct {
		jsonType    json.Type
		given       string
		expectedRet bool
	}{
		{json.TypeObject, "mixed", true},
		{json.TypeArray, "mixed", true},
		{json.TypeString, "mixed", true},
		{json.TypeInteger, "mixed", true},
		{json.TypeFloat, "mixed", true},
		{json.TypeBoolean, "mixed", true},
		{json.TypeNull, "mixed", true},
		{json.TypeMixed, "mixed", true},

		{json.TypeObject, "enum", false},
		{json.TypeArray, "enum", false},
		{json.TypeString, "enum", true},
		{json.TypeInteger, "enum", true},
		{json.TypeFloat, "enum", true},
		{json.TypeBoolean, "enum", true},
		{json.TypeNull, "enum", true},
		{json.TypeMixed, "enum", false},

		{json.TypeObject, "any", true},
		{json.TypeArray, "any", true},
		{json.TypeString, "any", true},
		{json.TypeInteger, "any", true},
		{json.TypeFloat, "any", true},
		{json.TypeBoolean, "any", true},
		{json.TypeNull, "any", true},
		{json.TypeMixed, "any", true},

		{json.TypeObject, "decimal", false},
		{json.TypeArray, "decimal", false},
		{json.TypeString, "decimal", false},
		{json.TypeInteger, "decimal", false},
		{json.TypeFloat, "decimal", true},
		{json.TypeBoolean, "decimal", false},
		{json.TypeNull, "decimal", false},
		{json.TypeMixed, "decimal", false},

		{json.TypeObject, "email", false},
		{json.TypeArray, "email", false},
		{json.TypeString, "email", true},
		{json.TypeInteger, "email", false},
		{json.TypeFloat, "email", false},
		{json.TypeBoolean, "email", false},
		{json.TypeNull, "email", false},
		{json.TypeMixed, "email", false},

		{json.TypeObject, "uri", false},
		{json.TypeArray, "uri", false},
		{json.TypeString, "uri", true},
		{json.TypeInteger, "uri", false},
		{json.TypeFloat, "uri", false},
		{json.TypeBoolean, "uri", false},
		{json.TypeNull, "uri", false},
		{json.TypeMixed, "uri", false},

		{json.TypeObject, "uuid", false},
		{json.TypeArray, "uuid", false},
		{json.TypeString, "uuid", true},
		{json.TypeInteger, "uuid", false},
		{json.TypeFloat, "uuid", false},
		{json.TypeBoolean, "uuid", false},
		{json.TypeNull, "uuid", false},
		{json.TypeMixed, "uuid", false},

		{json.TypeObject, "date", false},
		{json.TypeArray, "date", false},
		{json.TypeString, "date", true},
		{json.TypeInteger, "date", false},
		{json.TypeFloat, "date", false},
		{json.TypeBoolean, "date", false},
		{json.TypeNull, "date", false},
		{json.TypeMixed, "date", false},

		{json.TypeObject, "datetime", false},
		{json.TypeArray, "datetime", false},
		{json.TypeString, "datetime", true},
		{json.TypeInteger, "datetime", false},
		{json.TypeFloat, "datetime", false},
		{json.TypeBoolean, "datetime", false},
		{json.TypeNull, "datetime", false},
		{json.TypeMixed, "datetime", false},

		{json.TypeObject, "object", true},
		{json.TypeArray, "object", false},
		{json.TypeString, "object", false},
		{json.TypeInteger, "object", false},
		{json.TypeFloat, "object", false},
		{json.TypeBoolean, "object", false},
		{json.TypeNull, "object", false},
		{json.TypeMixed, "object", false},

		{json.TypeObject, "array", false},
		{json.TypeArray, "array", true},
		{json.TypeString, "array", false},
		{json.TypeInteger, "array", false},
		{json.TypeFloat, "array", false},
		{json.TypeBoolean, "array", false},
		{json.TypeNull, "array", false},
		{json.TypeMixed, "array", false},

		{json.TypeObject, "string", false},
		{json.TypeArray, "string", false},
		{json.TypeString, "string", true},
		{json.TypeInteger, "string", false},
		{json.TypeFloat, "string", false},
		{json.TypeBoolean, "string", false},
		{json.TypeNull, "string", false},
		{json.TypeMixed, "string", false},

		{json.TypeObject, "integer", false},
		{json.TypeArray, "integer", false},
		{json.TypeString, "integer", false},
		{json.TypeInteger, "integer", true},
		{json.TypeFloat, "integer", false},
		{json.TypeBoolean, "integer", false},
		{json.TypeNull, "integer", false},
		{json.TypeMixed, "integer", false},

		{json.TypeObject, "float", false},
		{json.TypeArray, "float", false},
		{json.TypeString, "float", false},
		{json.TypeInteger, "float", false},
		{json.TypeFloat, "float", true},
		{json.TypeBoolean, "float", false},
		{json.TypeNull, "float", false},
		{json.TypeMixed, "float", false},

		{json.TypeObject, "boolean", false},
		{json.TypeArray, "boolean", false},
		{json.TypeString, "boolean", false},
		{json.TypeInteger, "boolean", false},
		{json.TypeFloat, "boolean", false},
		{json.TypeBoolean, "boolean", true},
		{json.TypeNull, "boolean", false},
		{json.TypeMixed, "boolean", false},

		{json.TypeObject, "null", false},
		{json.TypeArray, "null", false},
		{json.TypeString, "null", false},
		{json.TypeInteger, "null", false},
		{json.TypeFloat, "null", false},
		{json.TypeBoolean, "null", false},
		{json.TypeNull, "null", true},
		{json.TypeMixed, "null", false},
	}

	for _, c := range cc {
		t.Run(fmt.Sprintf("%s - %s", c.jsonType, c.given), func(t *testing.T) {
			n := &baseNode{
				jsonType: c.jsonType,
			}

			ret := n.SetRealType(c.given)
			if c.expectedRet {
				assert.True(t, ret)
				assert.Equal(t, c.given, n.realType)
			} else {
				assert.False(t, ret)
			}
		})
	}
}

func TestBaseNode_RealType(t *testing.T) {
	n := &baseNode{
		realType: "foo",
	}

	assert.Equal(t, "foo", n.RealType())
}
