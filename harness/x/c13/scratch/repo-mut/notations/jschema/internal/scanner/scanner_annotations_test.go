package scanner

import (
	"testing"

	"github.com/stretchr/testify/assert"
)

func TestScanner_isAnnotationStart(t *testing.T) {
	cc := map[byte]bool{
		'/': true,
	}
	for i := 0; i <= 255; i++ {
		if i != '/' {
			cc[byte(i)] = false
		}
	}

	s := &Scanner{}
	for c, expected := range cc {
		t.Run(string(c), func(t *testing.T) {
			assert.Equal(t, expected, s.isAnnotationStart(c))
		})
	}
}
