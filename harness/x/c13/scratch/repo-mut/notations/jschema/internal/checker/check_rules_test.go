package checker

import (
	"testing"

	"github.com/stretchr/testify/assert"
	"github.com/stretchr/testify/require"

	"github.com/jsightapi/jsight-schema-go-library/errors"
	"github.com/jsightapi/jsight-schema-go-library/fs"
	"github.com/jsightapi/jsight-schema-go-library/notations/jschema/internal/loader"
	"github.com/jsightapi/jsight-schema-go-library/notations/jschema/internal/scanner"
)

func TestCheckRules(t *testing.T) {
	type typ struct {
		name   string
		schema string
	}

	cat := typ{
		"@cat",
		`{
			"catId": @catId,
			"catName": "Tom"
		}`,
	}

	catID := typ{
		"@catId",
		`12 // {min: 1}`,
	}

	check := func(schema string, types []typ) {
		schemaFile := fs.NewFile("schema", schema)

		rootSchema := loader.LoadSchema(scanner.New(schemaFile), nil)

		for _, typ := range types {
			f := fs.NewFile(typ.name, typ.schema)
			ty := loader.LoadSchema(scanner.New(f), rootSchema)
			rootSchema.AddNamedType(typ.name, ty, f, 0)
		}

		loader.CompileAllOf(rootSchema)
		loader.AddUnnamedTypes(rootSchema)
		CheckRootSchema(rootSchema)
	}

	t.Run("negative", func(t *testing.T) {
		tests := []struct {
			schema string
			types  []typ
			err    errors.ErrorCode
		}{
			{
				`{
					"object": {} /* {type: "object",
							enum: ["white", "black"]
					}*/
				}`,
				[]typ{},
				errors.ErrInvalidValueInTheTypeRule,
			},
			{
				`{
					"object": {} /* {type: "object",
							maxItems: 10,
					}*/
				}`,
				[]typ{},
				errors.ErrUnexpectedConstraint,
			},
			{
				`{
					"object": {} /* {type: "object",
							minItems: 0,
					}*/
				}`,
				[]typ{},
				errors.ErrUnexpectedConstraint,
			},
			{
				`{
					"object": {} /* {type: "object",
							regex: "^[A-Za-z]+$",
					}*/
				}`,
				[]typ{},
				errors.ErrUnexpectedConstraint,
			},
			{
				`{
					"object": {} /* {type: "object",
							maxLength: 100
					}*/
				}`,
				[]typ{},
				errors.ErrUnexpectedConstraint,
			},
			{
				`{
					"object": {} /* {type: "object",
							minLength: 0,
					}*/
				}`,
				[]typ{},
				errors.ErrUnexpectedConstraint,
			},
			{
				`{
					"object": {} /* {type: "object",
							precision: 2,
					}*/
				}`,
				[]typ{},
				errors.ErrUnexpectedConstraint,
			},
			{
				`{
					"object": {} /* {type: "object",
							max: 1,
					}*/
				}`,
				[]typ{},
				errors.ErrUnexpectedConstraint,
			},
			{
				`{
					"object": {} /* {type: "object",
							min: 0,
					}*/
				}`,
				[]typ{},
				errors.ErrUnexpectedConstraint,
			},
			{
				`{
					"object": {} /* {type: "object",
							or: [{type: "string"}, {type: "integer"}],
					}*/
				}`,
				[]typ{},
				errors.ErrInvalidValueInTheTypeRule,
			},
			{
				`{
					"object": {} /* {type: "object",
							const: true
					}*/
				}`,
				[]typ{},
				errors.ErrUnexpectedConstraint,
			},
			{
				`{
					"array" : [   /* {type: "array",
								const: true,
						}*/
						"item"
					]
				}`,
				[]typ{},
				errors.ErrUnexpectedConstraint,
			},
			{
				`{
					"array" : [   /* {type: "array",
								min: 0,
						}*/
						"item"
					]
				}`,
				[]typ{},
				errors.ErrUnexpectedConstraint,
			},
			{
				`{
					"array" : [   /* {type: "array",
								max: 1,
						}*/
						"item"
					]
				}`,
				[]typ{},
				errors.ErrUnexpectedConstraint,
			},
			{
				`{
					"array" : [   /* {type: "array",
								exclusiveMinimum: true,
						}*/
						"item"
					]
				}`,
				[]typ{},
				errors.ErrConstraintMinNotFound,
			},
			{
				`{
					"array" : [   /* {type: "array",
								exclusiveMaximum: true,
						}*/
						"item"
					]
				}`,
				[]typ{},
				errors.ErrConstraintMaxNotFound,
			},
			{
				`{
					"array" : [   /* {type: "array",
								precision: 2,
						}*/
						"item"
					]
				}`,
				[]typ{},
				errors.ErrUnexpectedConstraint,
			},
			{
				`{
					"array" : [   /* {type: "array",
								minLength: 0,
						}*/
						"item"
					]
				}`,
				[]typ{},
				errors.ErrUnexpectedConstraint,
			},
			{
				`{
					"array" : [   /* {type: "array",
								maxLength: 100,
						}*/
						"item"
					]
				}`,
				[]typ{},
				errors.ErrUnexpectedConstraint,
			},
			{
				`{
					"array" : [   /* {type: "array",
								regex: "^[A-Za-z]+$",
						}*/
						"item"
					]
				}`,
				[]typ{},
				errors.ErrUnexpectedConstraint,
			},
			{
				`{
					"array" : [   /* {type: "array",
								or: [{type: "string"}, {type: "integer"}],
						}*/
						"item"
					]
				}`,
				[]typ{},
				errors.ErrInvalidValueInTheTypeRule,
			},
			{
				`{
					"array" : [   /* {type: "array",
								additionalProperties: true,
						}*/
						"item"
					]
				}`,
				[]typ{},
				errors.ErrUnexpectedConstraint,
			},
			{
				`{
					"array" : [   // {allOf: "@cat"}
						"item"
					]
				}`,
				[]typ{cat, catID},
				errors.ErrUnexpectedConstraint,
			},
			{
				`{
					"array" : [   /* {type: "array",
								allOf: "@cat",
						}*/
						"item"
					]
				}`,
				[]typ{cat, catID},
				errors.ErrUnexpectedConstraint,
			},
			{
				`{
					"array" : [   /* {type: "array",
								enum: ["white", "black"]
						}*/
						"item"
					]
				}`,
				[]typ{},
				errors.ErrInvalidValueInTheTypeRule,
			},
			{
				`{
					"integer": 1 /* {type: "integer",
							precision: 2,
					}*/
				}`,
				[]typ{},
				errors.ErrUnexpectedConstraint,
			},
			{
				`{
					"integer": 1 /* {type: "integer",
							minLength: 0,
					}*/
				}`,
				[]typ{},
				errors.ErrUnexpectedConstraint,
			},
			{
				`{
					"integer": 1 /* {type: "integer",
							maxLength: 100,
					}*/
				}`,
				[]typ{},
				errors.ErrUnexpectedConstraint,
			},
			{
				`{
					"integer": 1 /* {type: "integer",
							regex: "^[A-Za-z]+$",
					}*/
				}`,
				[]typ{},
				errors.ErrUnexpectedConstraint,
			},
			{
				`{
					"integer": 1 /* {type: "integer",
							minItems: 0,
					}*/
				}`,
				[]typ{},
				errors.ErrUnexpectedConstraint,
			},
			{
				`{
					"integer": 1 /* {type: "integer",
							maxItems: 10,
					}*/
				}`,
				[]typ{},
				errors.ErrUnexpectedConstraint,
			},
			{
				`{
					"integer": 1 /* {type: "integer",
							or: [{type: "string"}, {type: "integer"}],
					}*/
				}`,
				[]typ{},
				errors.ErrInvalidValueInTheTypeRule,
			},
			{
				`{
					"integer": 1 /* {type: "integer",
							additionalProperties: true,
					}*/
				}`,
				[]typ{},
				errors.ErrUnexpectedConstraint,
			},
			{
				`{
					"integer": 1 /* {type: "integer",
							allOf: "@cat",
					}*/
				}`,
				[]typ{cat, catID},
				errors.ErrUnexpectedConstraint,
			},
			{
				`{
					"integer": 1 /* {type: "integer",
							enum: ["white", "black"]
					}*/
				}`,
				[]typ{},
				errors.ErrInvalidValueInTheTypeRule,
			},
			{
				`{
					"float": 1.2 /* {type: "float",
						  precision: 1
					}*/
				}`,
				[]typ{},
				errors.ErrUnexpectedConstraint,
			},
			{
				`{
					"float": 1.2 /* {type: "float",
						  minLength: 0
					}*/
				}`,
				[]typ{},
				errors.ErrUnexpectedConstraint,
			},
			{
				`{
					"float": 1.2 /* {type: "float",
						  maxLength: 100
					}*/
				}`,
				[]typ{},
				errors.ErrUnexpectedConstraint,
			},
			{
				`{
					"float": 1.2 /* {type: "float",
						  regex: "^[A-Za-z]+$"
					}*/
				}`,
				[]typ{},
				errors.ErrUnexpectedConstraint,
			},
			{
				`{
					"float": 1.2 /* {type: "float",
						  minItems: 0
					}*/
				}`,
				[]typ{},
				errors.ErrUnexpectedConstraint,
			},
			{
				`{
					"float": 1.2 /* {type: "float",
						  maxItems: 10
					}*/
				}`,
				[]typ{},
				errors.ErrUnexpectedConstraint,
			},
			{
				`{
					"float": 1.2 /* {type: "float",
						  or: [{type: "string"}, {type: "float"}]
					}*/
				}`,
				[]typ{},
				errors.ErrInvalidValueInTheTypeRule,
			},
			{
				`{
					"float": 1.2 /* {type: "float",
						  additionalProperties: true
					}*/
				}`,
				[]typ{},
				errors.ErrUnexpectedConstraint,
			},
			{
				`{
					"float": 1.2 /* {type: "float",
						  allOf: "@cat"
					}*/
				}`,
				[]typ{cat, catID},
				errors.ErrUnexpectedConstraint,
			},
			{
				`{
					"float": 1.2 /* {type: "float",
						  enum: [1.2, 1.3]
					}*/
				}`,
				[]typ{},
				errors.ErrInvalidValueInTheTypeRule,
			},
			{
				`{
					"decimal": 1.23 /* {type: "decimal", precision: 2,
							minLength: 0,
					}*/
				}`,
				[]typ{},
				errors.ErrUnexpectedConstraint,
			},
			{
				`{
					"decimal": 1.23 /* {type: "decimal", precision: 2,
							maxLength: 100,
					}*/
				}`,
				[]typ{},
				errors.ErrUnexpectedConstraint,
			},
			{
				`{
					"decimal": 1.23 /* {type: "decimal", precision: 2,
							regex: "^[A-Za-z]+$",
					}*/
				}`,
				[]typ{},
				errors.ErrUnexpectedConstraint,
			},
			{
				`{
					"decimal": 1.23 /* {type: "decimal", precision: 2,
							minItems: 0,
					}*/
				}`,
				[]typ{},
				errors.ErrUnexpectedConstraint,
			},
			{
				`{
					"decimal": 1.23 /* {type: "decimal", precision: 2,
							maxItems: 10,
					}*/
				}`,
				[]typ{},
				errors.ErrUnexpectedConstraint,
			},
			{
				`{
					"decimal": 1.23 /* {type: "decimal", precision: 2,
							or: [{type: "string"}, {type: "integer"}],
					}*/
				}`,
				[]typ{},
				errors.ErrInvalidValueInTheTypeRule,
			},
			{
				`{
					"decimal": 1.23 /* {type: "decimal", precision: 2,
							additionalProperties: true,
					}*/
				}`,
				[]typ{},
				errors.ErrUnexpectedConstraint,
			},
			{
				`{
					"decimal": 1.23 /* {type: "decimal", precision: 2,
							allOf: "@cat",
					}*/
				}`,
				[]typ{cat, catID},
				errors.ErrUnexpectedConstraint,
			},
			{
				`{
					"decimal": 1.23 /* {type: "decimal", precision: 2,
							enum: ["white", "black"]
					}*/
				}`,
				[]typ{},
				errors.ErrInvalidValueInTheTypeRule,
			},
			{
				`{
					"boolean": true /* {type: "boolean",
							min: 0,
					}*/
				}`,
				[]typ{},
				errors.ErrUnexpectedConstraint,
			},
			{
				`{
					"boolean": true /* {type: "boolean",
							max: 1,
					}*/
				}`,
				[]typ{},
				errors.ErrUnexpectedConstraint,
			},
			{
				`{
					"boolean": true /* {type: "boolean",
							exclusiveMinimum: true,
					}*/
				}`,
				[]typ{},
				errors.ErrConstraintMinNotFound,
			},
			{
				`{
					"boolean": true /* {type: "boolean",
							exclusiveMaximum: true,
					}*/
				}`,
				[]typ{},
				errors.ErrConstraintMaxNotFound,
			},
			{
				`{
					"boolean": true /* {type: "boolean",
							precision: 2,
					}*/
				}`,
				[]typ{},
				errors.ErrUnexpectedConstraint,
			},
			{
				`{
					"boolean": true /* {type: "boolean",
							minLength: 0,
					}*/
				}`,
				[]typ{},
				errors.ErrUnexpectedConstraint,
			},
			{
				`{
					"boolean": true /* {type: "boolean",
							maxLength: 100,
					}*/
				}`,
				[]typ{},
				errors.ErrUnexpectedConstraint,
			},
			{
				`{
					"boolean": true /* {type: "boolean",
							regex: "^[A-Za-z]+$",
					}*/
				}`,
				[]typ{},
				errors.ErrUnexpectedConstraint,
			},
			{
				`{
					"boolean": true /* {type: "boolean",
							minItems: 0,
					}*/
				}`,
				[]typ{},
				errors.ErrUnexpectedConstraint,
			},
			{
				`{
					"boolean": true /* {type: "boolean",
							maxItems: 10,
					}*/
				}`,
				[]typ{},
				errors.ErrUnexpectedConstraint,
			},
			{
				`{
					"boolean": true /* {type: "boolean",
							or: [{type: "string"}, {type: "integer"}],
					}*/
				}`,
				[]typ{},
				errors.ErrInvalidValueInTheTypeRule,
			},
			{
				`{
					"boolean": true /* {type: "boolean",
							additionalProperties: true,
					}*/
				}`,
				[]typ{},
				errors.ErrUnexpectedConstraint,
			},
			{
				`{
					"boolean": true /* {type: "boolean",
							allOf: "@cat",
					}*/
				}`,
				[]typ{cat, catID},
				errors.ErrUnexpectedConstraint,
			},
			{
				`{
					"boolean": true /* {type: "boolean",
							enum: ["white", "black"]
					}*/
				}`,
				[]typ{},
				errors.ErrInvalidValueInTheTypeRule,
			},
			{
				`{
					"string": "value" /* {type: "string",
							min: 0,
					}*/
				}`,
				[]typ{},
				errors.ErrUnexpectedConstraint,
			},
			{
				`{
					"string": "value" /* {type: "string",
							max: 1,
					}*/
				}`,
				[]typ{},
				errors.ErrUnexpectedConstraint,
			},
			{
				`{
					"string": "value" /* {type: "string",
							exclusiveMinimum: true,
					}*/
				}`,
				[]typ{},
				errors.ErrConstraintMinNotFound,
			},
			{
				`{
					"string": "value" /* {type: "string",
							exclusiveMaximum: true,
					}*/
				}`,
				[]typ{},
				errors.ErrConstraintMaxNotFound,
			},
			{
				`{
					"string": "value" /* {type: "string",
							precision: 2,
					}*/
				}`,
				[]typ{},
				errors.ErrUnexpectedConstraint,
			},
			{
				`{
					"string": "value" /* {type: "string",
							minItems: 0,
					}*/
				}`,
				[]typ{},
				errors.ErrUnexpectedConstraint,
			},
			{
				`{
					"string": "value" /* {type: "string",
							maxItems: 10,
					}*/
				}`,
				[]typ{},
				errors.ErrUnexpectedConstraint,
			},
			{
				`{
					"string": "value" /* {type: "string",
							or: [{type: "string"}, {type: "integer"}],
					}*/
				}`,
				[]typ{},
				errors.ErrInvalidValueInTheTypeRule,
			},
			{
				`{
					"string": "value" /* {type: "string",
							additionalProperties: true,
					}*/
				}`,
				[]typ{},
				errors.ErrUnexpectedConstraint,
			},
			{
				`{
					"string": "value" /* {type: "string",
							allOf: "@cat",
					}*/
				}`,
				[]typ{cat, catID},
				errors.ErrUnexpectedConstraint,
			},
			{
				`{
					"string": "value" /* {type: "string",
							enum: ["white", "black"]
					}*/
				}`,
				[]typ{},
				errors.ErrInvalidValueInTheTypeRule,
			},
			{
				`{
					"email": "t@t.com" /* {type: "email",
							min: 0,
					}*/
				}`,
				[]typ{},
				errors.ErrUnexpectedConstraint,
			},
			{
				`{
					"email": "t@t.com" /* {type: "email",
							max: 1,
					}*/
				}`,
				[]typ{},
				errors.ErrUnexpectedConstraint,
			},
			{
				`{
					"email": "t@t.com" /* {type: "email",
							exclusiveMinimum: true,
					}*/
				}`,
				[]typ{},
				errors.ErrConstraintMinNotFound,
			},
			{
				`{
					"email": "t@t.com" /* {type: "email",
							exclusiveMaximum: true,
					}*/
				}`,
				[]typ{},
				errors.ErrConstraintMaxNotFound,
			},
			{
				`{
					"email": "t@t.com" /* {type: "email",
							precision: 2,
					}*/
				}`,
				[]typ{},
				errors.ErrUnexpectedConstraint,
			},
			{
				`{
					"email": "t@t.com" /* {type: "email",
							minLength: 0,
					}*/
				}`,
				[]typ{},
				errors.ErrUnexpectedConstraint,
			},
			{
				`{
					"email": "t@t.com" /* {type: "email",
							maxLength: 100,
					}*/
				}`,
				[]typ{},
				errors.ErrUnexpectedConstraint,
			},
			{
				`{
					"email": "t@t.com" /* {type: "email",
							regex: ".*",
					}*/
				}`,
				[]typ{},
				errors.ErrUnexpectedConstraint,
			},
			{
				`{
					"email": "t@t.com" /* {type: "email",
							minItems: 0,
					}*/
				}`,
				[]typ{},
				errors.ErrUnexpectedConstraint,
			},
			{
				`{
					"email": "t@t.com" /* {type: "email",
							maxItems: 10,
					}*/
				}`,
				[]typ{},
				errors.ErrUnexpectedConstraint,
			},
			{
				`{
					"uri": "https://t.com" /* {type: "uri",
							min: 0,
					}*/
				}`,
				[]typ{},
				errors.ErrUnexpectedConstraint,
			},
			{
				`{
					"uri": "https://t.com" /* {type: "uri",
							max: 1,
					}*/
				}`,
				[]typ{},
				errors.ErrUnexpectedConstraint,
			},
			{
				`{
					"uri": "https://t.com" /* {type: "uri",
							exclusiveMinimum: true,
					}*/
				}`,
				[]typ{},
				errors.ErrConstraintMinNotFound,
			},
			{
				`{
					"uri": "https://t.com" /* {type: "uri",
							exclusiveMaximum: true,
					}*/
				}`,
				[]typ{},
				errors.ErrConstraintMaxNotFound,
			},
			{
				`{
					"uri": "https://t.com" /* {type: "uri",
							precision: 2,
					}*/
				}`,
				[]typ{},
				errors.ErrUnexpectedConstraint,
			},
			{
				`{
					"uri": "https://t.com" /* {type: "uri",
							minLength: 0,
					}*/
				}`,
				[]typ{},
				errors.ErrUnexpectedConstraint,
			},
			{
				`{
					"uri": "https://t.com" /* {type: "uri",
							maxLength: 100,
					}*/
				}`,
				[]typ{},
				errors.ErrUnexpectedConstraint,
			},
			{
				`{
					"uri": "https://t.com" /* {type: "uri",
							regex: ".*",
					}*/
				}`,
				[]typ{},
				errors.ErrUnexpectedConstraint,
			},
			{
				`{
					"uri": "https://t.com" /* {type: "uri",
							minItems: 0,
					}*/
				}`,
				[]typ{},
				errors.ErrUnexpectedConstraint,
			},
			{
				`{
					"uri": "https://t.com" /* {type: "uri",
							maxItems: 10,
					}*/
				}`,
				[]typ{},
				errors.ErrUnexpectedConstraint,
			},
			{
				`{
					"uri": "https://t.com" /* {type: "uri",
							or: [{type: "string"}, {type: "integer"}],
					}*/
				}`,
				[]typ{},
				errors.ErrInvalidValueInTheTypeRule,
			},
			{
				`{
					"uri": "https://t.com" /* {type: "uri",
							additionalProperties: true,
					}*/
				}`,
				[]typ{},
				errors.ErrUnexpectedConstraint,
			},
			{
				`{
					"uri": "https://t.com" /* {type: "uri",
							allOf: "@cat",
					}*/
				}`,
				[]typ{cat, catID},
				errors.ErrUnexpectedConstraint,
			},
			{
				`{
					"uri": "https://t.com" /* {type: "uri",
							enum: ["white", "black"]
					}*/
				}`,
				[]typ{},
				errors.ErrInvalidValueInTheTypeRule,
			},
			{
				`{
					"date": "2021-12-16" /* {type: "date",
							min: 0,
					}*/
				}`,
				[]typ{},
				errors.ErrUnexpectedConstraint,
			},
			{
				`{
					"date": "2021-12-16" /* {type: "date",
							max: 1,
					}*/
				}`,
				[]typ{},
				errors.ErrUnexpectedConstraint,
			},
			{
				`{
					"date": "2021-12-16" /* {type: "date",
							exclusiveMinimum: true,
					}*/
				}`,
				[]typ{},
				errors.ErrConstraintMinNotFound,
			},
			{
				`{
					"date": "2021-12-16" /* {type: "date",
							exclusiveMaximum: true,
					}*/
				}`,
				[]typ{},
				errors.ErrConstraintMaxNotFound,
			},
			{
				`{
					"date": "2021-12-16" /* {type: "date",
							precision: 2,
					}*/
				}`,
				[]typ{},
				errors.ErrUnexpectedConstraint,
			},
			{
				`{
					"date": "2021-12-16" /* {type: "date",
							minLength: 0,
					}*/
				}`,
				[]typ{},
				errors.ErrUnexpectedConstraint,
			},
			{
				`{
					"date": "2021-12-16" /* {type: "date",
							maxLength: 100,
					}*/
				}`,
				[]typ{},
				errors.ErrUnexpectedConstraint,
			},
			{
				`{
					"date": "2021-12-16" /* {type: "date",
							regex: ".*",
					}*/
				}`,
				[]typ{},
				errors.ErrUnexpectedConstraint,
			},
			{
				`{
					"date": "2021-12-16" /* {type: "date",
							minItems: 0,
					}*/
				}`,
				[]typ{},
				errors.ErrUnexpectedConstraint,
			},
			{
				`{
					"date": "2021-12-16" /* {type: "date",
							maxItems: 10,
					}*/
				}`,
				[]typ{},
				errors.ErrUnexpectedConstraint,
			},
			{
				`{
					"date": "2021-12-16" /* {type: "date",
							or: [{type: "string"}, {type: "integer"}],
					}*/
				}`,
				[]typ{},
				errors.ErrInvalidValueInTheTypeRule,
			},
			{
				`{
					"date": "2021-12-16" /* {type: "date",
							additionalProperties: true,
					}*/
				}`,
				[]typ{},
				errors.ErrUnexpectedConstraint,
			},
			{
				`{
					"date": "2021-12-16" /* {type: "date",
							allOf: "@cat",
					}*/
				}`,
				[]typ{cat, catID},
				errors.ErrUnexpectedConstraint,
			},
			{
				`{
					"date": "2021-12-16" /* {type: "date",
							enum: ["white", "black"]
					}*/
				}`,
				[]typ{},
				errors.ErrInvalidValueInTheTypeRule,
			},
			{
				`{
					"datetime": "2006-01-02T15:04:05+07:00" /* {type: "datetime",
					   min: 0,
						 }*/
				}`,
				[]typ{},
				errors.ErrUnexpectedConstraint,
			},
			{
				`{
					"datetime": "2006-01-02T15:04:05+07:00" /* {type: "datetime",
					   max: 1,
						 }*/
				}`,
				[]typ{},
				errors.ErrUnexpectedConstraint,
			},
			{
				`{
					"datetime": "2006-01-02T15:04:05+07:00" /* {type: "datetime",
					   exclusiveMinimum: true,
						 }*/
				}`,
				[]typ{},
				errors.ErrConstraintMinNotFound,
			},
			{
				`{
					"datetime": "2006-01-02T15:04:05+07:00" /* {type: "datetime",
					   exclusiveMaximum: true,
						 }*/
				}`,
				[]typ{},
				errors.ErrConstraintMaxNotFound,
			},
			{
				`{
					"datetime": "2006-01-02T15:04:05+07:00" /* {type: "datetime",
					   precision: 2,
						 }*/
				}`,
				[]typ{},
				errors.ErrUnexpectedConstraint,
			},
			{
				`{
					"datetime": "2006-01-02T15:04:05+07:00" /* {type: "datetime",
					   minLength: 0,
						 }*/
				}`,
				[]typ{},
				errors.ErrUnexpectedConstraint,
			},
			{
				`{
					"datetime": "2006-01-02T15:04:05+07:00" /* {type: "datetime",
					   maxLength: 100,
						 }*/
				}`,
				[]typ{},
				errors.ErrUnexpectedConstraint,
			},
			{
				`{
					"datetime": "2006-01-02T15:04:05+07:00" /* {type: "datetime",
					   regex: ".*",
						 }*/
				}`,
				[]typ{},
				errors.ErrUnexpectedConstraint,
			},
			{
				`{
					"datetime": "2006-01-02T15:04:05+07:00" /* {type: "datetime",
					   minItems: 0,
						 }*/
				}`,
				[]typ{},
				errors.ErrUnexpectedConstraint,
			},
			{
				`{
					"datetime": "2006-01-02T15:04:05+07:00" /* {type: "datetime",
					   maxItems: 10,
						 }*/
				}`,
				[]typ{},
				errors.ErrUnexpectedConstraint,
			},
			{
				`{
					"datetime": "2006-01-02T15:04:05+07:00" /* {type: "datetime",
					   or: [{type: "string"}, {type: "integer"}],
						 }*/
				}`,
				[]typ{},
				errors.ErrInvalidValueInTheTypeRule,
			},
			{
				`{
					"datetime": "2006-01-02T15:04:05+07:00" /* {type: "datetime",
					   additionalProperties: true,
						 }*/
				}`,
				[]typ{},
				errors.ErrUnexpectedConstraint,
			},
			{
				`{
					"datetime": "2006-01-02T15:04:05+07:00" /* {type: "datetime",
					   allOf: "@cat",
						 }*/
				}`,
				[]typ{cat, catID},
				errors.ErrUnexpectedConstraint,
			},
			{
				`{
					"datetime": "2006-01-02T15:04:05+07:00" /* {type: "datetime",
					   enum: ["white", "black"]
						 }*/
				}`,
				[]typ{},
				errors.ErrInvalidValueInTheTypeRule,
			},
			{
				`{
					"uuid": "550e8400-e29b-41d4-a716-446655440000" /* {type: "uuid",
					   min: 0,
						 }*/
				}`,
				[]typ{},
				errors.ErrUnexpectedConstraint,
			},
			{
				`{
					"uuid": "550e8400-e29b-41d4-a716-446655440000" /* {type: "uuid",
					   max: 1,
						 }*/
				}`,
				[]typ{},
				errors.ErrUnexpectedConstraint,
			},
			{
				`{
					"uuid": "550e8400-e29b-41d4-a716-446655440000" /* {type: "uuid",
					   exclusiveMinimum: true,
						 }*/
				}`,
				[]typ{},
				errors.ErrConstraintMinNotFound,
			},
			{
				`{
					"uuid": "550e8400-e29b-41d4-a716-446655440000" /* {type: "uuid",
					   exclusiveMaximum: true,
						 }*/
				}`,
				[]typ{},
				errors.ErrConstraintMaxNotFound,
			},
			{
				`{
					"uuid": "550e8400-e29b-41d4-a716-446655440000" /* {type: "uuid",
					   precision: 2,
						 }*/
				}`,
				[]typ{},
				errors.ErrUnexpectedConstraint,
			},
			{
				`{
					"uuid": "550e8400-e29b-41d4-a716-446655440000" /* {type: "uuid",
					   minLength: 0,
						 }*/
				}`,
				[]typ{},
				errors.ErrUnexpectedConstraint,
			},
			{
				`{
					"uuid": "550e8400-e29b-41d4-a716-446655440000" /* {type: "uuid",
					   maxLength: 100,
						 }*/
				}`,
				[]typ{},
				errors.ErrUnexpectedConstraint,
			},
			{
				`{
					"uuid": "550e8400-e29b-41d4-a716-446655440000" /* {type: "uuid",
					   regex: ".*",
						 }*/
				}`,
				[]typ{},
				errors.ErrUnexpectedConstraint,
			},
			{
				`{
					"uuid": "550e8400-e29b-41d4-a716-446655440000" /* {type: "uuid",
					   minItems: 0,
						 }*/
				}`,
				[]typ{},
				errors.ErrUnexpectedConstraint,
			},
			{
				`{
					"uuid": "550e8400-e29b-41d4-a716-446655440000" /* {type: "uuid",
					   maxItems: 10,
						 }*/
				}`,
				[]typ{},
				errors.ErrUnexpectedConstraint,
			},
			{
				`{
					"uuid": "550e8400-e29b-41d4-a716-446655440000" /* {type: "uuid",
					   or: [{type: "string"}, {type: "integer"}],
						 }*/
				}`,
				[]typ{},
				errors.ErrInvalidValueInTheTypeRule,
			},
			{
				`{
					"uuid": "550e8400-e29b-41d4-a716-446655440000" /* {type: "uuid",
					   additionalProperties: true,
						 }*/
				}`,
				[]typ{},
				errors.ErrUnexpectedConstraint,
			},
			{
				`{
					"uuid": "550e8400-e29b-41d4-a716-446655440000" /* {type: "uuid",
					   allOf: "@cat",
						 }*/
				}`,
				[]typ{cat, catID},
				errors.ErrUnexpectedConstraint,
			},
			{
				`{
					"uuid": "550e8400-e29b-41d4-a716-446655440000" /* {type: "uuid",
					   enum: ["white", "black"]
						 }*/
				}`,
				[]typ{},
				errors.ErrInvalidValueInTheTypeRule,
			},
			{
				`{
					"enum": "white" /* {enum: ["white", "black"],
							min: 0,
					}*/
				}`,
				[]typ{},
				errors.ErrShouldBeNoOtherRulesInSetWithEnum,
			},
			{
				`{
					"enum": "white" /* {enum: ["white", "black"],
							max: 1,
					}*/
				}`,
				[]typ{},
				errors.ErrShouldBeNoOtherRulesInSetWithEnum,
			},
			{
				`{
					"enum": "white" /* {enum: ["white", "black"],
							exclusiveMinimum: true,
					}*/
				}`,
				[]typ{},
				errors.ErrShouldBeNoOtherRulesInSetWithEnum,
			},
			{
				`{
					"enum": "white" /* {enum: ["white", "black"],
							exclusiveMaximum: true,
					}*/
				}`,
				[]typ{},
				errors.ErrShouldBeNoOtherRulesInSetWithEnum,
			},
			{
				`{
					"enum": "white" /* {enum: ["white", "black"],
							precision: 2,
					}*/
				}`,
				[]typ{},
				errors.ErrShouldBeNoOtherRulesInSetWithEnum,
			},
			{
				`{
					"enum": "white" /* {enum: ["white", "black"],
							minLength: 0,
					}*/
				}`,
				[]typ{},
				errors.ErrShouldBeNoOtherRulesInSetWithEnum,
			},
			{
				`{
					"enum": "white" /* {enum: ["white", "black"],
							maxLength: 100,
					}*/
				}`,
				[]typ{},
				errors.ErrShouldBeNoOtherRulesInSetWithEnum,
			},
			{
				`{
					"enum": "white" /* {enum: ["white", "black"],
							regex: ".*",
					}*/
				}`,
				[]typ{},
				errors.ErrShouldBeNoOtherRulesInSetWithEnum,
			},
			{
				`{
					"enum": "white" /* {enum: ["white", "black"],
							minItems: 0,
					}*/
				}`,
				[]typ{},
				errors.ErrShouldBeNoOtherRulesInSetWithEnum,
			},
			{
				`{
					"enum": "white" /* {enum: ["white", "black"],
							maxItems: 10,
					}*/
				}`,
				[]typ{},
				errors.ErrShouldBeNoOtherRulesInSetWithEnum,
			},
			{
				`{
					"enum": "white" /* {enum: ["white", "black"],
							or: [{type: "string"}, {type: "integer"}],
					}*/
				}`,
				[]typ{},
				errors.ErrShouldBeNoOtherRulesInSetWithOr,
			},
			{
				`{
					"enum": "white" /* {enum: ["white", "black"],
							additionalProperties: true,
					}*/
				}`,
				[]typ{},
				errors.ErrShouldBeNoOtherRulesInSetWithEnum,
			},
			{
				`{
					"enum": "white" /* {enum: ["white", "black"],
							allOf: "@cat",
					}*/
				}`,
				[]typ{cat, catID},
				errors.ErrShouldBeNoOtherRulesInSetWithEnum,
			},
			{
				`{
					"mixed": "abc" /* {or: [{type: "string"}, {type: "integer"}],
							const: true,
					}*/
				}`,
				[]typ{},
				errors.ErrShouldBeNoOtherRulesInSetWithOr,
			},
			{
				`{
					"mixed": "abc" /* {or: [{type: "string"}, {type: "integer"}],
							min: 0,
					}*/
				}`,
				[]typ{},
				errors.ErrShouldBeNoOtherRulesInSetWithOr,
			},
			{
				`{
					"mixed": "abc" /* {or: [{type: "string"}, {type: "integer"}],
							max: 1,
					}*/
				}`,
				[]typ{},
				errors.ErrShouldBeNoOtherRulesInSetWithOr,
			},
			{
				`{
					"mixed": "abc" /* {or: [{type: "string"}, {type: "integer"}],
							exclusiveMinimum: true,
					}*/
				}`,
				[]typ{},
				errors.ErrShouldBeNoOtherRulesInSetWithOr,
			},
			{
				`{
					"mixed": "abc" /* {or: [{type: "string"}, {type: "integer"}],
							exclusiveMaximum: true,
					}*/
				}`,
				[]typ{},
				errors.ErrShouldBeNoOtherRulesInSetWithOr,
			},
			{
				`{
					"mixed": "abc" /* {or: [{type: "string"}, {type: "integer"}],
							precision: 2,
					}*/
				}`,
				[]typ{},
				errors.ErrShouldBeNoOtherRulesInSetWithOr,
			},
			{
				`{
					"mixed": "abc" /* {or: [{type: "string"}, {type: "integer"}],
							minLength: 0,
					}*/
				}`,
				[]typ{},
				errors.ErrShouldBeNoOtherRulesInSetWithOr,
			},
			{
				`{
					"mixed": "abc" /* {or: [{type: "string"}, {type: "integer"}],
							maxLength: 100,
					}*/
				}`,
				[]typ{},
				errors.ErrShouldBeNoOtherRulesInSetWithOr,
			},
			{
				`{
					"mixed": "abc" /* {or: [{type: "string"}, {type: "integer"}],
							regex: ".*",
					}*/
				}`,
				[]typ{},
				errors.ErrShouldBeNoOtherRulesInSetWithOr,
			},
			{
				`{
					"mixed": "abc" /* {or: [{type: "string"}, {type: "integer"}],
							minItems: 0,
					}*/
				}`,
				[]typ{},
				errors.ErrShouldBeNoOtherRulesInSetWithOr,
			},
			{
				`{
					"mixed": "abc" /* {or: [{type: "string"}, {type: "integer"}],
							maxItems: 10,
					}*/
				}`,
				[]typ{},
				errors.ErrShouldBeNoOtherRulesInSetWithOr,
			},
			{
				`{
					"mixed": "abc" /* {or: [{type: "string"}, {type: "integer"}],
							additionalProperties: true,
					}*/
				}`,
				[]typ{},
				errors.ErrShouldBeNoOtherRulesInSetWithOr,
			},
			{
				`{
					"mixed": "abc" /* {or: [{type: "string"}, {type: "integer"}],
							allOf: "@cat",
					}*/
				}`,
				[]typ{cat, catID},
				errors.ErrShouldBeNoOtherRulesInSetWithOr,
			},
			{
				`{
					"mixed": "abc" /* {or: [{type: "string"}, {type: "integer"}],
							enum: ["white", "black"]
					}*/
				}`,
				[]typ{},
				errors.ErrShouldBeNoOtherRulesInSetWithOr,
			},
			{
				`{
					"any": 456 /* {type: "any",
							min: 0,
					}*/
				}`,
				[]typ{},
				errors.ErrShouldBeNoOtherRulesInSetWithAny,
			},
			{
				`{
					"any": 456 /* {type: "any",
							max: 1,
					}*/
				}`,
				[]typ{},
				errors.ErrShouldBeNoOtherRulesInSetWithAny,
			},
			{
				`{
					"any": 456 /* {type: "any",
							exclusiveMinimum: true,
					}*/
				}`,
				[]typ{},
				errors.ErrShouldBeNoOtherRulesInSetWithAny,
			},
			{
				`{
					"any": 456 /* {type: "any",
							exclusiveMaximum: true,
					}*/
				}`,
				[]typ{},
				errors.ErrShouldBeNoOtherRulesInSetWithAny,
			},
			{
				`{
					"any": 456 /* {type: "any",
							precision: 2,
					}*/
				}`,
				[]typ{},
				errors.ErrUnexpectedConstraint,
			},
			{
				`{
					"any": 456 /* {type: "any",
							minLength: 0,
					}*/
				}`,
				[]typ{},
				errors.ErrShouldBeNoOtherRulesInSetWithAny,
			},
			{
				`{
					"any": 456 /* {type: "any",
							maxLength: 100,
					}*/
				}`,
				[]typ{},
				errors.ErrShouldBeNoOtherRulesInSetWithAny,
			},
			{
				`{
					"any": 456 /* {type: "any",
							regex: ".*",
					}*/
				}`,
				[]typ{},
				errors.ErrShouldBeNoOtherRulesInSetWithAny,
			},
			{
				`{
					"any": 456 /* {type: "any",
							minItems: 0,
					}*/
				}`,
				[]typ{},
				errors.ErrShouldBeNoOtherRulesInSetWithAny,
			},
			{
				`{
					"any": 456 /* {type: "any",
							maxItems: 10,
					}*/
				}`,
				[]typ{},
				errors.ErrShouldBeNoOtherRulesInSetWithAny,
			},
			{
				`{
					"any": 456 /* {type: "any",
							or: [{type: "string"}, {type: "integer"}],
					}*/
				}`,
				[]typ{},
				errors.ErrInvalidValueInTheTypeRule,
			},
			{
				`{
					"any": 456 /* {type: "any",
							additionalProperties: true,
					}*/
				}`,
				[]typ{},
				errors.ErrShouldBeNoOtherRulesInSetWithAny,
			},
			{
				`{
					"any": 456 /* {type: "any",
							allOf: "@cat",
					}*/
				}`,
				[]typ{cat, catID},
				errors.ErrShouldBeNoOtherRulesInSetWithAny,
			},
			{
				`{
					"any": 456 /* {type: "any",
							enum: ["white", "black"]
					}*/
				}`,
				[]typ{},
				errors.ErrInvalidValueInTheTypeRule,
			},
			{
				`{
					"null": null /* {type: "null",
							  min: 0,
					}*/
				}`,
				[]typ{},
				errors.ErrUnexpectedConstraint,
			},
			{
				`{
					"null": null /* {type: "null",
							  max: 1,
					}*/
				}`,
				[]typ{},
				errors.ErrUnexpectedConstraint,
			},
			{
				`{
					"null": null /* {type: "null",
							  exclusiveMinimum: true,
					}*/
				}`,
				[]typ{},
				errors.ErrConstraintMinNotFound,
			},
			{
				`{
					"null": null /* {type: "null",
							  exclusiveMaximum: true,
					}*/
				}`,
				[]typ{},
				errors.ErrConstraintMaxNotFound,
			},
			{
				`{
					"null": null /* {type: "null",
							  precision: 2,
					}*/
				}`,
				[]typ{},
				errors.ErrUnexpectedConstraint,
			},
			{
				`{
					"null": null /* {type: "null",
							  minLength: 0,
					}*/
				}`,
				[]typ{},
				errors.ErrUnexpectedConstraint,
			},
			{
				`{
					"null": null /* {type: "null",
							  maxLength: 100,
					}*/
				}`,
				[]typ{},
				errors.ErrUnexpectedConstraint,
			},
			{
				`{
					"null": null /* {type: "null",
							  regex: ".*",
					}*/
				}`,
				[]typ{},
				errors.ErrUnexpectedConstraint,
			},
			{
				`{
					"null": null /* {type: "null",
							  minItems: 0,
					}*/
				}`,
				[]typ{},
				errors.ErrUnexpectedConstraint,
			},
			{
				`{
					"null": null /* {type: "null",
							  maxItems: 10,
					}*/
				}`,
				[]typ{},
				errors.ErrUnexpectedConstraint,
			},
			{
				`{
					"null": null /* {type: "null",
							  or: [{type: "string"}, {type: "integer"}],
					}*/
				}`,
				[]typ{},
				errors.ErrInvalidValueInTheTypeRule,
			},
			{
				`{
					"null": null /* {type: "null",
							  additionalProperties: true,
					}*/
				}`,
				[]typ{},
				errors.ErrUnexpectedConstraint,
			},
			{
				`{
					"null": null /* {type: "null",
							  allOf: "@cat",
					}*/
				}`,
				[]typ{cat, catID},
				errors.ErrUnexpectedConstraint,
			},
			{
				`{
					"null": null /* {type: "null",
							  enum: ["white", "black"]
					}*/
				}`,
				[]typ{},
				errors.ErrInvalidValueInTheTypeRule,
			},
			{
				`{
					"userType1": @cat  /* {
							type: "@cat",
					}*/
				}`,
				[]typ{cat, catID},
				errors.ErrInvalidChildNodeTogetherWithTypeReference,
			},
			{
				`{
					"userType1": @cat  /* {
							min: 0,
					}*/
				}`,
				[]typ{},
				errors.ErrCannotSpecifyOtherRulesWithTypeReference,
			},
			{
				`{
					"userType1": @cat  /* {
							max: 1,
					}*/
				}`,
				[]typ{},
				errors.ErrCannotSpecifyOtherRulesWithTypeReference,
			},
			{
				`{
					"userType1": @cat  /* {
							exclusiveMinimum: true,
					}*/
				}`,
				[]typ{},
				errors.ErrCannotSpecifyOtherRulesWithTypeReference,
			},
			{
				`{
					"userType1": @cat  /* {
							exclusiveMaximum: true,
					}*/
				}`,
				[]typ{},
				errors.ErrCannotSpecifyOtherRulesWithTypeReference,
			},
			{
				`{
					"userType1": @cat  /* {
							precision: 2,
					}*/
				}`,
				[]typ{},
				errors.ErrUnexpectedConstraint,
			},
			{
				`{
					"userType1": @cat  /* {
							minLength: 0,
					}*/
				}`,
				[]typ{},
				errors.ErrCannotSpecifyOtherRulesWithTypeReference,
			},
			{
				`{
					"userType1": @cat  /* {
							maxLength: 100,
					}*/
				}`,
				[]typ{},
				errors.ErrCannotSpecifyOtherRulesWithTypeReference,
			},
			{
				`{
					"userType1": @cat  /* {
							regex: ".*",
					}*/
				}`,
				[]typ{},
				errors.ErrCannotSpecifyOtherRulesWithTypeReference,
			},
			{
				`{
					"userType1": @cat  /* {
							minItems: 0,
					}*/
				}`,
				[]typ{},
				errors.ErrCannotSpecifyOtherRulesWithTypeReference,
			},
			{
				`{
					"userType1": @cat  /* {
							maxItems: 10,
					}*/
				}`,
				[]typ{},
				errors.ErrCannotSpecifyOtherRulesWithTypeReference,
			},
			{
				`{
					"userType1": @cat  /* {
							or: [{type: "string"}, {type: "integer"}],
					}*/
				}`,
				[]typ{},
				errors.ErrCannotSpecifyOtherRulesWithTypeReference,
			},
			{
				`{
					"userType1": @cat  /* {
							additionalProperties: true,
					}*/
				}`,
				[]typ{},
				errors.ErrCannotSpecifyOtherRulesWithTypeReference,
			},
			{
				`{
					"userType1": @cat  /* {
							allOf: "@cat",
					}*/
				}`,
				[]typ{cat, catID},
				errors.ErrCannotSpecifyOtherRulesWithTypeReference,
			},
			{
				`{
					"userType1": @cat  /* {
							enum: ["white", "black"]
					}*/
				}`,
				[]typ{},
				errors.ErrInvalidValueInTheTypeRule,
			},
			{
				`{
					"userType2": 12 /* {type: "@catId",
							const: true,
					}*/
				}`,
				[]typ{catID},
				errors.ErrCannotSpecifyOtherRulesWithTypeReference,
			},
			{
				`{
					"userType2": 12 /* {type: "@catId",
							min: 0,
					}*/
				}`,
				[]typ{catID},
				errors.ErrCannotSpecifyOtherRulesWithTypeReference,
			},
			{
				`{
					"userType2": 12 /* {type: "@catId",
							max: 1,
					}*/
				}`,
				[]typ{catID},
				errors.ErrCannotSpecifyOtherRulesWithTypeReference,
			},
			{
				`{
					"userType2": 12 /* {type: "@catId",
							exclusiveMinimum: true,
					}*/
				}`,
				[]typ{catID},
				errors.ErrCannotSpecifyOtherRulesWithTypeReference,
			},
			{
				`{
					"userType2": 12 /* {type: "@catId",
							exclusiveMaximum: true,
					}*/
				}`,
				[]typ{catID},
				errors.ErrCannotSpecifyOtherRulesWithTypeReference,
			},
			{
				`{
					"userType2": 12 /* {type: "@catId",
							precision: 2,
					}*/
				}`,
				[]typ{catID},
				errors.ErrUnexpectedConstraint,
			},
			{
				`{
					"userType2": 12 /* {type: "@catId",
							minLength: 0,
					}*/
				}`,
				[]typ{catID},
				errors.ErrCannotSpecifyOtherRulesWithTypeReference,
			},
			{
				`{
					"userType2": 12 /* {type: "@catId",
							maxLength: 100,
					}*/
				}`,
				[]typ{catID},
				errors.ErrCannotSpecifyOtherRulesWithTypeReference,
			},
			{
				`{
					"userType2": 12 /* {type: "@catId",
							regex: ".*",
					}*/
				}`,
				[]typ{catID},
				errors.ErrCannotSpecifyOtherRulesWithTypeReference,
			},
			{
				`{
					"userType2": 12 /* {type: "@catId",
							minItems: 0,
					}*/
				}`,
				[]typ{catID},
				errors.ErrCannotSpecifyOtherRulesWithTypeReference,
			},
			{
				`{
					"userType2": 12 /* {type: "@catId",
							maxItems: 10,
					}*/
				}`,
				[]typ{catID},
				errors.ErrCannotSpecifyOtherRulesWithTypeReference,
			},
			{
				`{
					"userType2": 12 /* {type: "@catId",
							or: [{type: "string"}, {type: "integer"}],
					}*/
				}`,
				[]typ{catID},
				errors.ErrInvalidValueInTheTypeRule,
			},
			{
				`{
					"userType2": 12 /* {type: "@catId",
							additionalProperties: true,
					}*/
				}`,
				[]typ{catID},
				errors.ErrCannotSpecifyOtherRulesWithTypeReference,
			},
			{
				`{
					"userType2": 12 /* {type: "@catId",
							allOf: "@cat",
					}*/
				}`,
				[]typ{cat, catID},
				errors.ErrCannotSpecifyOtherRulesWithTypeReference,
			},
			{
				`{
					"userType2": 12 /* {type: "@catId",
							enum: ["white", "black"]
					}*/
				}`,
				[]typ{catID},
				errors.ErrInvalidValueInTheTypeRule,
			},
		}

		for _, tt := range tests {
			t.Run(tt.schema, func(t *testing.T) {
				defer func() {
					r := recover()
					require.NotNil(t, r, "Panic expected")

					err, ok := r.(errors.Err)
					require.Truef(t, ok, "Unexpected error type %#v", r)

					assert.Equal(t, tt.err, err.Code())
				}()
				check(tt.schema, tt.types)
			})
		}
	})
}
