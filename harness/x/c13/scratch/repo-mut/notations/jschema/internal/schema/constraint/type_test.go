package constraint

import (
	"testing"

	"github.com/stretchr/testify/assert"
)

func TestType_String(t *testing.T) {
	t.Run("positive", func(t *testing.T) {
		cc := map[Type]string{
			MinLengthConstraintType:            "minLength",
			MaxLengthConstraintType:            "maxLength",
			MinConstraintType:                  "min",
			MaxConstraintType:                  "max",
			ExclusiveMinimumConstraintType:     "exclusiveMinimum",
			ExclusiveMaximumConstraintType:     "exclusiveMaximum",
			PrecisionConstraintType:            "precision",
			TypeConstraintType:                 "type",
			TypesListConstraintType:            "types",
			OptionalConstraintType:             "optional",
			OrConstraintType:                   "or",
			RequiredKeysConstraintType:         "required-keys",
			EmailConstraintType:                "email",
			MinItemsConstraintType:             "minItems",
			MaxItemsConstraintType:             "maxItems",
			EnumConstraintType:                 "enum",
			AdditionalPropertiesConstraintType: "additionalProperties",
			AllOfConstraintType:                "allOf",
			AnyConstraintType:                  "any",
			NullableConstraintType:             "nullable",
			RegexConstraintType:                "regex",
			UriConstraintType:                  "uri",
			DateConstraintType:                 "date",
			DateTimeConstraintType:             "datetime",
			UuidConstraintType:                 "uuid",
			ConstConstraintType:                "const",
		}

		for typ, expected := range cc {
			t.Run(expected, func(t *testing.T) {
				assert.Equal(t, expected, typ.String())
			})
		}
	})

	t.Run("negative", func(t *testing.T) {
		assert.PanicsWithValue(t, "Unknown constraint type", func() {
			_ = Type(-1).String()
		})
	})
}
