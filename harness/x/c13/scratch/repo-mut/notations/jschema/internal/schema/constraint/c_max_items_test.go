package constraint

import (
	"fmt"
	"testing"

	"github.com/stretchr/testify/assert"

	jschema "github.com/jsightapi/jsight-schema-go-library"
	"github.com/jsightapi/jsight-schema-go-library/bytes"
	"github.com/jsightapi/jsight-schema-go-library/internal/json"
)

func TestNewMaxItems(t *testing.T) {
	t.Run("positive", func(t *testing.T) {
		cnstr := NewMaxItems([]byte("10"))

		assert.EqualValues(t, 10, cnstr.value)
	})

	t.Run("negative", func(t *testing.T) {
		ss := []string{
			"not a number",
			"3.14",
			"-12",
		}

		for _, s := range ss {
			t.Run(s, func(t *testing.T) {
				assert.PanicsWithError(t, `Invalid value of "maxItems" constraint`, func() {
					NewMaxItems([]byte(s))
				})
			})
		}
	})
}

func TestMaxItems_IsJsonTypeCompatible(t *testing.T) {
	testIsJsonTypeCompatible(t, MaxItems{}, json.TypeArray)
}

func TestMaxItems_Type(t *testing.T) {
	assert.Equal(t, MaxItemsConstraintType, NewMaxItems(bytes.Bytes("1")).Type())
}

func TestMaxItems_String(t *testing.T) {
	assert.Equal(t, "maxItems: 1", NewMaxItems([]byte("1")).String())
}

func TestMaxItems_ValidateTheArray(t *testing.T) {
	t.Run("positive", func(t *testing.T) {
		cc := []uint{
			1,
			2,
		}

		for _, numberOfChildren := range cc {
			t.Run(fmt.Sprintf("%d", numberOfChildren), func(t *testing.T) {
				assert.NotPanics(t, func() {
					NewMaxItems([]byte("2")).ValidateTheArray(numberOfChildren)
				})
			})
		}
	})

	t.Run("negative", func(t *testing.T) {
		assert.PanicsWithError(t, `The number of array elements does not match the "maxItems" rule`, func() {
			NewMaxItems([]byte("2")).ValidateTheArray(3)
		})
	})
}

func TestMaxItems_Value(t *testing.T) {
	assert.EqualValues(t, 2, NewMaxItems([]byte("2")).Value())
}

func TestMaxItems_ASTNode(t *testing.T) {
	assert.Equal(t, jschema.RuleASTNode{
		TokenType:  jschema.TokenTypeNumber,
		Value:      "1",
		Properties: &jschema.RuleASTNodes{},
		Source:     jschema.RuleASTNodeSourceManual,
	}, NewMaxItems(bytes.Bytes("1")).ASTNode())
}
