package constraint

import (
	"fmt"
	"strconv"
	"testing"

	"github.com/stretchr/testify/assert"

	jschema "github.com/jsightapi/jsight-schema-go-library"
	"github.com/jsightapi/jsight-schema-go-library/bytes"
	"github.com/jsightapi/jsight-schema-go-library/internal/json"
)

func TestNewExclusiveMaximum(t *testing.T) {
	t.Run("positive", func(t *testing.T) {
		cc := map[string]bool{
			"false": false,
			"true":  true,
		}

		for given, expected := range cc {
			t.Run(given, func(t *testing.T) {
				cnstr := NewExclusiveMaximum([]byte(given))
				assert.Equal(t, expected, cnstr.exclusive)
			})
		}
	})

	t.Run("negative", func(t *testing.T) {
		assert.PanicsWithError(t, `Invalid value of "exclusiveMaximum" constraint`, func() {
			NewExclusiveMaximum([]byte("42"))
		})
	})
}

func TestExclusiveMaximum_IsJsonTypeCompatible(t *testing.T) {
	testIsJsonTypeCompatible(t, ExclusiveMaximum{}, json.TypeInteger, json.TypeFloat)
}

func TestExclusiveMaximum_Type(t *testing.T) {
	assert.Equal(t, ExclusiveMaximumConstraintType, NewExclusiveMaximum(bytes.Bytes("true")).Type())
}

func TestExclusiveMaximum_String(t *testing.T) {
	cc := map[bool]string{
		false: "[ UNVERIFIABLE CONSTRAINT ] exclusiveMaximum: false",
		true:  "[ UNVERIFIABLE CONSTRAINT ] exclusiveMaximum: true",
	}

	for given, expected := range cc {
		t.Run(expected, func(t *testing.T) {
			actual := ExclusiveMaximum{
				exclusive: given,
			}.
				String()

			assert.Equal(t, expected, actual)
		})
	}
}

func TestExclusiveMaximum_IsExclusive(t *testing.T) {
	cc := []bool{false, true}

	for _, expected := range cc {
		t.Run(fmt.Sprintf("%t", expected), func(t *testing.T) {
			actual := ExclusiveMaximum{
				exclusive: expected,
			}.
				IsExclusive()

			assert.Equal(t, expected, actual)
		})
	}
}

func TestExclusiveMaximum_ASTNode(t *testing.T) {
	cc := []bool{true, false}

	for _, c := range cc {
		t.Run(strconv.FormatBool(c), func(t *testing.T) {
			assert.Equal(t, jschema.RuleASTNode{
				TokenType:  jschema.TokenTypeBoolean,
				Value:      strconv.FormatBool(c),
				Properties: &jschema.RuleASTNodes{},
				Source:     jschema.RuleASTNodeSourceManual,
			}, ExclusiveMaximum{exclusive: c}.ASTNode())
		})
	}
}
