package loader

import (
	"github.com/jsightapi/jsight-schema-go-library/errors"
	"github.com/jsightapi/jsight-schema-go-library/internal/lexeme"
	"github.com/jsightapi/jsight-schema-go-library/notations/jschema/internal/schema/constraint"
)

// allOfValueLoader loader for "allOf" rule value (string or array).
// example: "@name"
// example: ["@name1", "@name2"]
type allOfValueLoader struct {
	allOfConstraint *constraint.AllOf

	// stateFunc a function for running a state machine (the current state of the
	// state machine).
	stateFunc func(lexeme.LexEvent)

	// inProgress indicates loading finished.
	inProgress bool
}

var _ embeddedLoader = (*allOfValueLoader)(nil)

func newAllOfValueLoader(allOfConstraint *constraint.AllOf) *allOfValueLoader {
	l := &allOfValueLoader{
		allOfConstraint: allOfConstraint,
		inProgress:      true,
	}
	l.stateFunc = l.begin
	return l
}

func (l *allOfValueLoader) Load(lex lexeme.LexEvent) bool {
	defer lexeme.CatchLexEventError(lex)
	l.stateFunc(lex)
	return l.inProgress
}

// begin of array "[" or scalar '"'.
func (l *allOfValueLoader) begin(lex lexeme.LexEvent) {
	switch lex.Type() {
	case lexeme.ArrayBegin:
		l.stateFunc = l.arrayItemBeginOrArrayEnd
	case lexeme.LiteralBegin:
		l.stateFunc = l.scalarValue
	default:
		panic(errors.ErrUnacceptableValueInAllOfRule)
	}
}

// arrayItemBeginOrArrayEnd begin of array item or array end.
func (l *allOfValueLoader) arrayItemBeginOrArrayEnd(lex lexeme.LexEvent) {
	switch lex.Type() {
	case lexeme.ArrayItemBegin:
		l.stateFunc = l.arrayItemValue
	case lexeme.ArrayEnd:
		l.stateFunc = l.endOfLoading
		l.inProgress = false
	default:
		panic(errors.ErrLoader)
	}
}

func (l *allOfValueLoader) arrayItemValue(lex lexeme.LexEvent) {
	switch lex.Type() {
	case lexeme.LiteralBegin:
		return
	case lexeme.LiteralEnd:
		l.allOfConstraint.Append(lex.Value())
		l.stateFunc = l.arrayItemEnd
	default:
		panic(errors.ErrUnacceptableValueInAllOfRule)
	}
}

func (l *allOfValueLoader) arrayItemEnd(lex lexeme.LexEvent) {
	if lex.Type() != lexeme.ArrayItemEnd {
		panic(errors.ErrLoader)
	}
	l.stateFunc = l.arrayItemBeginOrArrayEnd
}

func (l *allOfValueLoader) scalarValue(lex lexeme.LexEvent) {
	if lex.Type() != lexeme.LiteralEnd {
		panic(errors.ErrUnacceptableValueInAllOfRule)
	}
	l.allOfConstraint.Append(lex.Value())
	l.stateFunc = l.endOfLoading
	l.inProgress = false
}

// endOfLoading the method should not be called during normal operation. Ensures
// that the loader will not continue to work after the load is complete.
func (*allOfValueLoader) endOfLoading(lexeme.LexEvent) {
	panic(errors.ErrLoader)
}
