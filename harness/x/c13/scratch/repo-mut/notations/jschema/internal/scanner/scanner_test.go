package scanner

import (
	"testing"

	"github.com/stretchr/testify/assert"

	"github.com/jsightapi/jsight-schema-go-library/fs"
	"github.com/jsightapi/jsight-schema-go-library/internal/lexeme"
)

func Test_newScanner(t *testing.T) {
	const content = "bar"
	contentLen := len(content)

	f := fs.NewFile("foo", content)

	s := New(f)

	assert.NotNil(t, s.step)
	assert.Equal(t, f, s.file)
	assert.Equal(t, content, string(s.data))
	assert.Equal(t, contentLen, int(s.dataSize))
	assert.NotNil(t, s.returnToStep)
	assert.NotNil(t, s.stack)
	assert.NotNil(t, s.finds)
	assert.Equal(t, context{Type: contextTypeInitial}, s.context)
}

func BenchmarkScanner_Length(b *testing.B) {
	file := fs.NewFile("", `
/*
{}
*/

{
	"k": 123
}

/*
{}
*/

some text
`)

	b.ReportAllocs()
	b.ResetTimer()

	for i := 0; i < b.N; i++ {
		New(file, ComputeLength).Length()
	}
}

func TestScanner_Length(t *testing.T) {
	tests := map[string]uint{
		"1 // {}":                             7,
		"1 // {}\n":                           7,
		"1 // {}\n\n":                         7,
		"1 // {} \n\n text":                   7,
		"/* {} */ 123 /* {} */ text":          21,
		"/* {} */ 123 /* {} */ /* {} */ text": 30,
	}

	for given, expected := range tests {
		t.Run(given, func(t *testing.T) {
			assert.NotPanics(t, func() {
				actual := New(fs.NewFile("", given), ComputeLength).
					Length()
				assert.Equal(t, expected, actual)
			})
		})
	}
}

func TestScanner_Next(t *testing.T) {
	t.Run("positive", func(t *testing.T) {
		cc := []validResults{
			{`12.34`, []lexeme.LexEventType{lexeme.LiteralBegin, lexeme.LiteralEnd}},
			{` 12.34 `, []lexeme.LexEventType{lexeme.LiteralBegin, lexeme.LiteralEnd}},
			{"12.34\n", []lexeme.LexEventType{lexeme.LiteralBegin, lexeme.LiteralEnd, lexeme.NewLine}},
			{"12.34\r\n", []lexeme.LexEventType{lexeme.LiteralBegin, lexeme.LiteralEnd, lexeme.NewLine, lexeme.NewLine}},
			{"12.34\r\n", []lexeme.LexEventType{lexeme.LiteralBegin, lexeme.LiteralEnd, lexeme.NewLine, lexeme.NewLine}},
			{"12.34 ", []lexeme.LexEventType{lexeme.LiteralBegin, lexeme.LiteralEnd}},
			{"12.34 \r\n", []lexeme.LexEventType{lexeme.LiteralBegin, lexeme.LiteralEnd, lexeme.NewLine, lexeme.NewLine}},
			{`"str"`, []lexeme.LexEventType{lexeme.LiteralBegin, lexeme.LiteralEnd}},
			{`"str" `, []lexeme.LexEventType{lexeme.LiteralBegin, lexeme.LiteralEnd}},
			{`"\u0000"`, []lexeme.LexEventType{lexeme.LiteralBegin, lexeme.LiteralEnd}},
			{`"\\" `, []lexeme.LexEventType{lexeme.LiteralBegin, lexeme.LiteralEnd}},
			{`true`, []lexeme.LexEventType{lexeme.LiteralBegin, lexeme.LiteralEnd}},
			{`false`, []lexeme.LexEventType{lexeme.LiteralBegin, lexeme.LiteralEnd}},
			{`null`, []lexeme.LexEventType{lexeme.LiteralBegin, lexeme.LiteralEnd}},
			{`-1`, []lexeme.LexEventType{lexeme.LiteralBegin, lexeme.LiteralEnd}},
			{`0.123`, []lexeme.LexEventType{lexeme.LiteralBegin, lexeme.LiteralEnd}},
			{`-0.123`, []lexeme.LexEventType{lexeme.LiteralBegin, lexeme.LiteralEnd}},
			{`[]`, []lexeme.LexEventType{lexeme.ArrayBegin, lexeme.ArrayEnd}},
			{`[ ]`, []lexeme.LexEventType{lexeme.ArrayBegin, lexeme.ArrayEnd}},
			{`[1 ]`, []lexeme.LexEventType{lexeme.ArrayBegin, lexeme.ArrayItemBegin, lexeme.LiteralBegin, lexeme.LiteralEnd, lexeme.ArrayItemEnd, lexeme.ArrayEnd}},
			{`[{}]`, []lexeme.LexEventType{lexeme.ArrayBegin, lexeme.ArrayItemBegin, lexeme.ObjectBegin, lexeme.ObjectEnd, lexeme.ArrayItemEnd, lexeme.ArrayEnd}},
			{`[[]]`, []lexeme.LexEventType{lexeme.ArrayBegin, lexeme.ArrayItemBegin, lexeme.ArrayBegin, lexeme.ArrayEnd, lexeme.ArrayItemEnd, lexeme.ArrayEnd}},
			{`{}`, []lexeme.LexEventType{lexeme.ObjectBegin, lexeme.ObjectEnd}},
			{`{} `, []lexeme.LexEventType{lexeme.ObjectBegin, lexeme.ObjectEnd}},
			{` {} `, []lexeme.LexEventType{lexeme.ObjectBegin, lexeme.ObjectEnd}},
			{`{"foo":"bar"}`, []lexeme.LexEventType{lexeme.ObjectBegin, lexeme.ObjectKeyBegin, lexeme.ObjectKeyEnd, lexeme.ObjectValueBegin, lexeme.LiteralBegin, lexeme.LiteralEnd, lexeme.ObjectValueEnd, lexeme.ObjectEnd}},
			{` { "foo" : "bar" } `, []lexeme.LexEventType{lexeme.ObjectBegin, lexeme.ObjectKeyBegin, lexeme.ObjectKeyEnd, lexeme.ObjectValueBegin, lexeme.LiteralBegin, lexeme.LiteralEnd, lexeme.ObjectValueEnd, lexeme.ObjectEnd}},
			{
				`["",[]]`,
				[]lexeme.LexEventType{
					lexeme.ArrayBegin,
					lexeme.ArrayItemBegin, lexeme.LiteralBegin, lexeme.LiteralEnd, lexeme.ArrayItemEnd,
					lexeme.ArrayItemBegin, lexeme.ArrayBegin, lexeme.ArrayEnd, lexeme.ArrayItemEnd,
					lexeme.ArrayEnd,
				},
			},
			{
				`{"foo": "bar", "key": 1}`,
				[]lexeme.LexEventType{
					lexeme.ObjectBegin,
					lexeme.ObjectKeyBegin, lexeme.ObjectKeyEnd, lexeme.ObjectValueBegin, lexeme.LiteralBegin, lexeme.LiteralEnd, lexeme.ObjectValueEnd,
					lexeme.ObjectKeyBegin, lexeme.ObjectKeyEnd, lexeme.ObjectValueBegin, lexeme.LiteralBegin, lexeme.LiteralEnd, lexeme.ObjectValueEnd,
					lexeme.ObjectEnd,
				},
			},
			{
				`[1,"str",false]`,
				[]lexeme.LexEventType{
					lexeme.ArrayBegin,
					lexeme.ArrayItemBegin, lexeme.LiteralBegin, lexeme.LiteralEnd, lexeme.ArrayItemEnd,
					lexeme.ArrayItemBegin, lexeme.LiteralBegin, lexeme.LiteralEnd, lexeme.ArrayItemEnd,
					lexeme.ArrayItemBegin, lexeme.LiteralBegin, lexeme.LiteralEnd, lexeme.ArrayItemEnd,
					lexeme.ArrayEnd,
				},
			},
			{
				`{"foo": [1,"str",false]}`,
				[]lexeme.LexEventType{
					lexeme.ObjectBegin,
					lexeme.ObjectKeyBegin, lexeme.ObjectKeyEnd,
					lexeme.ObjectValueBegin,
					lexeme.ArrayBegin,
					lexeme.ArrayItemBegin, lexeme.LiteralBegin, lexeme.LiteralEnd, lexeme.ArrayItemEnd,
					lexeme.ArrayItemBegin, lexeme.LiteralBegin, lexeme.LiteralEnd, lexeme.ArrayItemEnd,
					lexeme.ArrayItemBegin, lexeme.LiteralBegin, lexeme.LiteralEnd, lexeme.ArrayItemEnd,
					lexeme.ArrayEnd,
					lexeme.ObjectValueEnd,
					lexeme.ObjectEnd,
				},
			},
			{`{
	
		"foo"
	
		:
	
		123
	
		}`,
				[]lexeme.LexEventType{
					lexeme.ObjectBegin,
					lexeme.NewLine,
					lexeme.NewLine,
					lexeme.ObjectKeyBegin,
					lexeme.ObjectKeyEnd,
					lexeme.NewLine,
					lexeme.NewLine,
					lexeme.NewLine,
					lexeme.NewLine,
					lexeme.ObjectValueBegin,
					lexeme.LiteralBegin,
					lexeme.LiteralEnd,
					lexeme.ObjectValueEnd,
					lexeme.NewLine,
					lexeme.NewLine,
					lexeme.ObjectEnd},
			},
			{`
		{
			"a": 1,
			"b": [2,3,4],
			"c": 5
		}`,
				[]lexeme.LexEventType{
					lexeme.NewLine,
					lexeme.ObjectBegin,
					lexeme.NewLine,
					lexeme.ObjectKeyBegin,
					lexeme.ObjectKeyEnd,
					lexeme.ObjectValueBegin,
					lexeme.LiteralBegin,
					lexeme.LiteralEnd,
					lexeme.ObjectValueEnd,
					lexeme.NewLine,
					lexeme.ObjectKeyBegin,
					lexeme.ObjectKeyEnd,
					lexeme.ObjectValueBegin,
					lexeme.ArrayBegin,
					lexeme.ArrayItemBegin,
					lexeme.LiteralBegin,
					lexeme.LiteralEnd,
					lexeme.ArrayItemEnd,
					lexeme.ArrayItemBegin,
					lexeme.LiteralBegin,
					lexeme.LiteralEnd,
					lexeme.ArrayItemEnd,
					lexeme.ArrayItemBegin,
					lexeme.LiteralBegin,
					lexeme.LiteralEnd,
					lexeme.ArrayItemEnd,
					lexeme.ArrayEnd,
					lexeme.ObjectValueEnd,
					lexeme.NewLine,
					lexeme.ObjectKeyBegin,
					lexeme.ObjectKeyEnd,
					lexeme.ObjectValueBegin,
					lexeme.LiteralBegin,
					lexeme.LiteralEnd,
					lexeme.ObjectValueEnd,
					lexeme.NewLine,
					lexeme.ObjectEnd,
				},
			},
			{`
		[
			1,
			{"k": 2},
			3
		]`,
				[]lexeme.LexEventType{
					lexeme.NewLine,
					lexeme.ArrayBegin,
					lexeme.NewLine,
					lexeme.ArrayItemBegin,
					lexeme.LiteralBegin,
					lexeme.LiteralEnd,
					lexeme.ArrayItemEnd,
					lexeme.NewLine,
					lexeme.ArrayItemBegin,
					lexeme.ObjectBegin,
					lexeme.ObjectKeyBegin,
					lexeme.ObjectKeyEnd,
					lexeme.ObjectValueBegin,
					lexeme.LiteralBegin,
					lexeme.LiteralEnd,
					lexeme.ObjectValueEnd,
					lexeme.ObjectEnd,
					lexeme.ArrayItemEnd,
					lexeme.NewLine,
					lexeme.ArrayItemBegin,
					lexeme.LiteralBegin,
					lexeme.LiteralEnd,
					lexeme.ArrayItemEnd,
					lexeme.NewLine,
					lexeme.ArrayEnd,
				},
			},
			{`"str" // comment`, []lexeme.LexEventType{
				lexeme.LiteralBegin,
				lexeme.LiteralEnd,
				lexeme.InlineAnnotationBegin,
				lexeme.InlineAnnotationTextBegin,
				lexeme.InlineAnnotationTextEnd,
				lexeme.InlineAnnotationEnd,
			}},
			{
				`12.34`,
				[]lexeme.LexEventType{lexeme.LiteralBegin, lexeme.LiteralEnd},
			},
			{
				`12.34 // comment`,
				[]lexeme.LexEventType{
					lexeme.LiteralBegin, lexeme.LiteralEnd,
					lexeme.InlineAnnotationBegin, lexeme.InlineAnnotationTextBegin, lexeme.InlineAnnotationTextEnd, lexeme.InlineAnnotationEnd,
				},
			},
			{
				`"str" // comment`,
				[]lexeme.LexEventType{
					lexeme.LiteralBegin, lexeme.LiteralEnd,
					lexeme.InlineAnnotationBegin, lexeme.InlineAnnotationTextBegin, lexeme.InlineAnnotationTextEnd, lexeme.InlineAnnotationEnd,
				},
			},
			{
				`123// comment`,
				[]lexeme.LexEventType{
					lexeme.LiteralBegin, lexeme.LiteralEnd,
					lexeme.InlineAnnotationBegin, lexeme.InlineAnnotationTextBegin, lexeme.InlineAnnotationTextEnd, lexeme.InlineAnnotationEnd,
				},
			},
			{
				"12.34 // comment\n",
				[]lexeme.LexEventType{
					lexeme.LiteralBegin, lexeme.LiteralEnd,

					lexeme.InlineAnnotationBegin, lexeme.InlineAnnotationTextBegin, lexeme.InlineAnnotationTextEnd, lexeme.InlineAnnotationEnd,
					lexeme.NewLine,
				},
			},
			{
				`"str" // comment` + "\n",
				[]lexeme.LexEventType{
					lexeme.LiteralBegin, lexeme.LiteralEnd,

					lexeme.InlineAnnotationBegin, lexeme.InlineAnnotationTextBegin, lexeme.InlineAnnotationTextEnd, lexeme.InlineAnnotationEnd,
					lexeme.NewLine,
				},
			},
			{
				"12.34 // comment\n\n",
				[]lexeme.LexEventType{
					lexeme.LiteralBegin, lexeme.LiteralEnd,

					lexeme.InlineAnnotationBegin, lexeme.InlineAnnotationTextBegin, lexeme.InlineAnnotationTextEnd, lexeme.InlineAnnotationEnd,
					lexeme.NewLine,
					lexeme.NewLine,
				},
			},
			{
				"12.34 // comment\r\n",
				[]lexeme.LexEventType{
					lexeme.LiteralBegin, lexeme.LiteralEnd,

					lexeme.InlineAnnotationBegin, lexeme.InlineAnnotationTextBegin, lexeme.InlineAnnotationTextEnd, lexeme.InlineAnnotationEnd,
					lexeme.NewLine,
					lexeme.NewLine,
				},
			},
			{
				"12.34\n// comment",
				[]lexeme.LexEventType{
					lexeme.LiteralBegin, lexeme.LiteralEnd,
					lexeme.NewLine,

					lexeme.InlineAnnotationBegin, lexeme.InlineAnnotationTextBegin, lexeme.InlineAnnotationTextEnd, lexeme.InlineAnnotationEnd,
				},
			},
			{
				"[1,2,3]",
				[]lexeme.LexEventType{
					lexeme.ArrayBegin,
					lexeme.ArrayItemBegin, lexeme.LiteralBegin, lexeme.LiteralEnd, lexeme.ArrayItemEnd,
					lexeme.ArrayItemBegin, lexeme.LiteralBegin, lexeme.LiteralEnd, lexeme.ArrayItemEnd,
					lexeme.ArrayItemBegin, lexeme.LiteralBegin, lexeme.LiteralEnd, lexeme.ArrayItemEnd,
					lexeme.ArrayEnd,
				},
			},
			{
				`{
			"q": 1, // comment
			"w": 2
		}`,
				[]lexeme.LexEventType{
					lexeme.ObjectBegin,
					lexeme.NewLine,

					lexeme.ObjectKeyBegin, lexeme.ObjectKeyEnd, lexeme.ObjectValueBegin, lexeme.LiteralBegin, lexeme.LiteralEnd, lexeme.ObjectValueEnd,
					lexeme.InlineAnnotationBegin, lexeme.InlineAnnotationTextBegin, lexeme.InlineAnnotationTextEnd, lexeme.InlineAnnotationEnd,
					lexeme.NewLine,

					lexeme.ObjectKeyBegin, lexeme.ObjectKeyEnd, lexeme.ObjectValueBegin, lexeme.LiteralBegin, lexeme.LiteralEnd, lexeme.ObjectValueEnd,
					lexeme.NewLine,

					lexeme.ObjectEnd,
				},
			},
			{`[
			1, // comment
			2
		]`,
				[]lexeme.LexEventType{
					lexeme.ArrayBegin,
					lexeme.NewLine,

					lexeme.ArrayItemBegin, lexeme.LiteralBegin, lexeme.LiteralEnd, lexeme.ArrayItemEnd,
					lexeme.InlineAnnotationBegin, lexeme.InlineAnnotationTextBegin, lexeme.InlineAnnotationTextEnd, lexeme.InlineAnnotationEnd,
					lexeme.NewLine,

					lexeme.ArrayItemBegin, lexeme.LiteralBegin, lexeme.LiteralEnd, lexeme.ArrayItemEnd,
					lexeme.NewLine,

					lexeme.ArrayEnd,
				},
			},
			{`// AAA some comment

		[ // the beginning of the array
			1, // comment
			2 // comment
		]
`,
				[]lexeme.LexEventType{
					lexeme.InlineAnnotationBegin, lexeme.InlineAnnotationTextBegin, lexeme.InlineAnnotationTextEnd, lexeme.InlineAnnotationEnd,
					lexeme.NewLine,
					lexeme.NewLine,

					lexeme.ArrayBegin,
					lexeme.InlineAnnotationBegin, lexeme.InlineAnnotationTextBegin, lexeme.InlineAnnotationTextEnd, lexeme.InlineAnnotationEnd,
					lexeme.NewLine,

					lexeme.ArrayItemBegin, lexeme.LiteralBegin, lexeme.LiteralEnd, lexeme.ArrayItemEnd,
					lexeme.InlineAnnotationBegin, lexeme.InlineAnnotationTextBegin, lexeme.InlineAnnotationTextEnd, lexeme.InlineAnnotationEnd,
					lexeme.NewLine,

					lexeme.ArrayItemBegin, lexeme.LiteralBegin, lexeme.LiteralEnd, lexeme.ArrayItemEnd,
					lexeme.InlineAnnotationBegin, lexeme.InlineAnnotationTextBegin, lexeme.InlineAnnotationTextEnd, lexeme.InlineAnnotationEnd,
					lexeme.NewLine,

					lexeme.ArrayEnd,
					lexeme.NewLine,
				},
			},
			{`// BBB some comment
	
		[// the beginning of the array
			1,// comment
			2 // comment
		]

		`,
				[]lexeme.LexEventType{
					lexeme.InlineAnnotationBegin, lexeme.InlineAnnotationTextBegin, lexeme.InlineAnnotationTextEnd, lexeme.InlineAnnotationEnd,
					lexeme.NewLine,
					lexeme.NewLine,

					lexeme.ArrayBegin,
					lexeme.InlineAnnotationBegin, lexeme.InlineAnnotationTextBegin, lexeme.InlineAnnotationTextEnd, lexeme.InlineAnnotationEnd,
					lexeme.NewLine,

					lexeme.ArrayItemBegin, lexeme.LiteralBegin, lexeme.LiteralEnd, lexeme.ArrayItemEnd,
					lexeme.InlineAnnotationBegin, lexeme.InlineAnnotationTextBegin, lexeme.InlineAnnotationTextEnd, lexeme.InlineAnnotationEnd,
					lexeme.NewLine,

					lexeme.ArrayItemBegin, lexeme.LiteralBegin, lexeme.LiteralEnd, lexeme.ArrayItemEnd,
					lexeme.InlineAnnotationBegin, lexeme.InlineAnnotationTextBegin, lexeme.InlineAnnotationTextEnd, lexeme.InlineAnnotationEnd,
					lexeme.NewLine,

					lexeme.ArrayEnd,
					lexeme.NewLine,
					lexeme.NewLine,
				},
			},
			{`	// 111
	
{ // 222
	"k" // 444
	: // 555
	[ // 666
		"val" // 777
	]
}
		`,
				[]lexeme.LexEventType{
					lexeme.InlineAnnotationBegin, lexeme.InlineAnnotationTextBegin, lexeme.InlineAnnotationTextEnd, lexeme.InlineAnnotationEnd,
					lexeme.NewLine,
					lexeme.NewLine,

					lexeme.ObjectBegin,

					lexeme.InlineAnnotationBegin, lexeme.InlineAnnotationTextBegin, lexeme.InlineAnnotationTextEnd, lexeme.InlineAnnotationEnd,
					lexeme.NewLine,

					lexeme.ObjectKeyBegin, lexeme.ObjectKeyEnd,

					lexeme.InlineAnnotationBegin, lexeme.InlineAnnotationTextBegin, lexeme.InlineAnnotationTextEnd, lexeme.InlineAnnotationEnd,
					lexeme.NewLine,
					lexeme.InlineAnnotationBegin, lexeme.InlineAnnotationTextBegin, lexeme.InlineAnnotationTextEnd, lexeme.InlineAnnotationEnd,
					lexeme.NewLine,

					lexeme.ObjectValueBegin,
					lexeme.ArrayBegin,

					lexeme.InlineAnnotationBegin, lexeme.InlineAnnotationTextBegin, lexeme.InlineAnnotationTextEnd, lexeme.InlineAnnotationEnd,
					lexeme.NewLine,

					lexeme.ArrayItemBegin, lexeme.LiteralBegin, lexeme.LiteralEnd, lexeme.ArrayItemEnd,
					lexeme.InlineAnnotationBegin, lexeme.InlineAnnotationTextBegin, lexeme.InlineAnnotationTextEnd, lexeme.InlineAnnotationEnd,
					lexeme.NewLine,

					lexeme.ArrayEnd,
					lexeme.ObjectValueEnd,

					lexeme.NewLine,

					lexeme.ObjectEnd,

					lexeme.NewLine,
				},
			},
			{
				`123 // {"min": 1}`,
				[]lexeme.LexEventType{
					lexeme.LiteralBegin, lexeme.LiteralEnd,

					lexeme.InlineAnnotationBegin,
					lexeme.ObjectBegin, lexeme.ObjectKeyBegin, lexeme.ObjectKeyEnd, lexeme.ObjectValueBegin, lexeme.LiteralBegin, lexeme.LiteralEnd, lexeme.ObjectValueEnd, lexeme.ObjectEnd,
					lexeme.InlineAnnotationEnd,
				},
			},
			{
				`123 // {min: 1}`,
				[]lexeme.LexEventType{
					lexeme.LiteralBegin, lexeme.LiteralEnd,

					lexeme.InlineAnnotationBegin,
					lexeme.ObjectBegin, lexeme.ObjectKeyBegin, lexeme.ObjectKeyEnd, lexeme.ObjectValueBegin, lexeme.LiteralBegin, lexeme.LiteralEnd, lexeme.ObjectValueEnd, lexeme.ObjectEnd,
					lexeme.InlineAnnotationEnd,
				},
			},
			{
				`123 // {min: 1,}`,
				[]lexeme.LexEventType{
					lexeme.LiteralBegin, lexeme.LiteralEnd,

					lexeme.InlineAnnotationBegin,
					lexeme.ObjectBegin, lexeme.ObjectKeyBegin, lexeme.ObjectKeyEnd, lexeme.ObjectValueBegin, lexeme.LiteralBegin, lexeme.LiteralEnd, lexeme.ObjectValueEnd, lexeme.ObjectEnd,
					lexeme.InlineAnnotationEnd,
				},
			},
			{
				"123 // {min: 1,} \n",
				[]lexeme.LexEventType{
					lexeme.LiteralBegin, lexeme.LiteralEnd,

					lexeme.InlineAnnotationBegin,
					lexeme.ObjectBegin, lexeme.ObjectKeyBegin, lexeme.ObjectKeyEnd, lexeme.ObjectValueBegin, lexeme.LiteralBegin, lexeme.LiteralEnd, lexeme.ObjectValueEnd, lexeme.ObjectEnd,
					lexeme.InlineAnnotationEnd,
					lexeme.NewLine,
				},
			},
			{
				`123 // {min: 1} - text`,
				[]lexeme.LexEventType{
					lexeme.LiteralBegin, lexeme.LiteralEnd,

					lexeme.InlineAnnotationBegin,
					lexeme.ObjectBegin, lexeme.ObjectKeyBegin, lexeme.ObjectKeyEnd, lexeme.ObjectValueBegin, lexeme.LiteralBegin, lexeme.LiteralEnd, lexeme.ObjectValueEnd, lexeme.ObjectEnd,
					lexeme.InlineAnnotationTextBegin, lexeme.InlineAnnotationTextEnd,
					lexeme.InlineAnnotationEnd,
				},
			},
			{
				`123 // {min: 1}-text`,
				[]lexeme.LexEventType{
					lexeme.LiteralBegin, lexeme.LiteralEnd,

					lexeme.InlineAnnotationBegin,
					lexeme.ObjectBegin, lexeme.ObjectKeyBegin, lexeme.ObjectKeyEnd, lexeme.ObjectValueBegin, lexeme.LiteralBegin, lexeme.LiteralEnd, lexeme.ObjectValueEnd, lexeme.ObjectEnd,
					lexeme.InlineAnnotationTextBegin, lexeme.InlineAnnotationTextEnd,
					lexeme.InlineAnnotationEnd,
				},
			},
			{
				`123 // {"min": 1, max: 999,} - text`,
				[]lexeme.LexEventType{
					lexeme.LiteralBegin, lexeme.LiteralEnd,

					lexeme.InlineAnnotationBegin,
					lexeme.ObjectBegin,
					lexeme.ObjectKeyBegin, lexeme.ObjectKeyEnd, lexeme.ObjectValueBegin, lexeme.LiteralBegin, lexeme.LiteralEnd, lexeme.ObjectValueEnd,
					lexeme.ObjectKeyBegin, lexeme.ObjectKeyEnd, lexeme.ObjectValueBegin, lexeme.LiteralBegin, lexeme.LiteralEnd, lexeme.ObjectValueEnd,
					lexeme.ObjectEnd,
					lexeme.InlineAnnotationTextBegin, lexeme.InlineAnnotationTextEnd,
					lexeme.InlineAnnotationEnd,
				},
			},
			{
				`/*
{
  k: 2
}
*/

"a few multi-line comments in the schema"

/* {} */`,
				[]lexeme.LexEventType{
					lexeme.MultiLineAnnotationBegin, lexeme.NewLine,
					lexeme.ObjectBegin, lexeme.NewLine,
					lexeme.ObjectKeyBegin, lexeme.ObjectKeyEnd, lexeme.ObjectValueBegin, lexeme.LiteralBegin, lexeme.LiteralEnd, lexeme.ObjectValueEnd, lexeme.NewLine,
					lexeme.ObjectEnd, lexeme.NewLine,
					lexeme.MultiLineAnnotationEnd,

					lexeme.NewLine,
					lexeme.NewLine,

					lexeme.LiteralBegin, lexeme.LiteralEnd,

					lexeme.NewLine,
					lexeme.NewLine,

					lexeme.MultiLineAnnotationBegin,
					lexeme.ObjectBegin,
					lexeme.ObjectEnd,
					lexeme.MultiLineAnnotationEnd,
				},
			},
			{
				`111 // {mixed: [{type: "string"}, {type: "integer"}]}`,
				[]lexeme.LexEventType{
					lexeme.LiteralBegin, lexeme.LiteralEnd,

					lexeme.InlineAnnotationBegin,
					lexeme.ObjectBegin,

					lexeme.ObjectKeyBegin, lexeme.ObjectKeyEnd,

					lexeme.ObjectValueBegin,
					lexeme.ArrayBegin,
					lexeme.ArrayItemBegin,
					lexeme.ObjectBegin, lexeme.ObjectKeyBegin, lexeme.ObjectKeyEnd, lexeme.ObjectValueBegin, lexeme.LiteralBegin, lexeme.LiteralEnd, lexeme.ObjectValueEnd, lexeme.ObjectEnd,
					lexeme.ArrayItemEnd,
					lexeme.ArrayItemBegin,
					lexeme.ObjectBegin, lexeme.ObjectKeyBegin, lexeme.ObjectKeyEnd, lexeme.ObjectValueBegin, lexeme.LiteralBegin, lexeme.LiteralEnd, lexeme.ObjectValueEnd, lexeme.ObjectEnd,
					lexeme.ArrayItemEnd,
					lexeme.ArrayEnd,
					lexeme.ObjectValueEnd,

					lexeme.ObjectEnd,
					lexeme.InlineAnnotationEnd,
				},
			},
			{
				`111 // {mixed: [{type: "string"}, {type: "integer"}],}`,
				[]lexeme.LexEventType{
					lexeme.LiteralBegin, lexeme.LiteralEnd,

					lexeme.InlineAnnotationBegin,
					lexeme.ObjectBegin,

					lexeme.ObjectKeyBegin, lexeme.ObjectKeyEnd,

					lexeme.ObjectValueBegin,
					lexeme.ArrayBegin,
					lexeme.ArrayItemBegin,
					lexeme.ObjectBegin, lexeme.ObjectKeyBegin, lexeme.ObjectKeyEnd, lexeme.ObjectValueBegin, lexeme.LiteralBegin, lexeme.LiteralEnd, lexeme.ObjectValueEnd, lexeme.ObjectEnd,
					lexeme.ArrayItemEnd,
					lexeme.ArrayItemBegin,
					lexeme.ObjectBegin, lexeme.ObjectKeyBegin, lexeme.ObjectKeyEnd, lexeme.ObjectValueBegin, lexeme.LiteralBegin, lexeme.LiteralEnd, lexeme.ObjectValueEnd, lexeme.ObjectEnd,
					lexeme.ArrayItemEnd,
					lexeme.ArrayEnd,
					lexeme.ObjectValueEnd,

					lexeme.ObjectEnd,
					lexeme.InlineAnnotationEnd,
				},
			},
			{
				`/*
{
	k1:1 // {k2:2} - txt
}
*/

"inline comment within a multi-line comment"`,
				[]lexeme.LexEventType{
					lexeme.MultiLineAnnotationBegin, lexeme.NewLine,
					lexeme.ObjectBegin, lexeme.NewLine,

					lexeme.ObjectKeyBegin, lexeme.ObjectKeyEnd, lexeme.ObjectValueBegin, lexeme.LiteralBegin, lexeme.LiteralEnd, lexeme.ObjectValueEnd,

					lexeme.InlineAnnotationBegin,
					lexeme.ObjectBegin, lexeme.ObjectKeyBegin, lexeme.ObjectKeyEnd, lexeme.ObjectValueBegin, lexeme.LiteralBegin, lexeme.LiteralEnd, lexeme.ObjectValueEnd, lexeme.ObjectEnd,
					lexeme.InlineAnnotationTextBegin, lexeme.InlineAnnotationTextEnd,
					lexeme.InlineAnnotationEnd,

					lexeme.NewLine,

					lexeme.ObjectEnd, lexeme.NewLine,
					lexeme.MultiLineAnnotationEnd,

					lexeme.NewLine,
					lexeme.NewLine,

					lexeme.LiteralBegin, lexeme.LiteralEnd,
				},
			},
			{
				`"multi-line comments in a single string after the literal" /* {} */`,
				[]lexeme.LexEventType{
					lexeme.LiteralBegin, lexeme.LiteralEnd,
					lexeme.MultiLineAnnotationBegin, lexeme.ObjectBegin, lexeme.ObjectEnd, lexeme.MultiLineAnnotationEnd,
				},
			},
			{
				`/* {} */ "multi-line comments in a single string before the literal"`,
				[]lexeme.LexEventType{
					lexeme.MultiLineAnnotationBegin, lexeme.ObjectBegin, lexeme.ObjectEnd, lexeme.MultiLineAnnotationEnd,
					lexeme.LiteralBegin, lexeme.LiteralEnd,
				},
			},
			{
				`/* {} */ "a few multi-line comments in a single string" /* {} */`,
				[]lexeme.LexEventType{
					lexeme.MultiLineAnnotationBegin, lexeme.ObjectBegin, lexeme.ObjectEnd, lexeme.MultiLineAnnotationEnd,
					lexeme.LiteralBegin, lexeme.LiteralEnd,
					lexeme.MultiLineAnnotationBegin, lexeme.ObjectBegin, lexeme.ObjectEnd, lexeme.MultiLineAnnotationEnd,
				},
			},
		}

		for _, tst := range cc {
			t.Run(tst.content, func(t *testing.T) {
				file := fs.NewFile("", tst.content)
				s := New(file)
				processingValid(t, s, tst)
			})
		}
	})

	t.Run("negative", func(t *testing.T) {
		cc := []string{
			`+1`,
			`zzz`,
			`tRue`,
			`trUe`,
			`truE`,
			`tru`,
			`fAlse`,
			`faLse`,
			`falSe`,
			`falsE`,
			`fal`,
			`nUll`,
			`nuLl`,
			`nulL`,
			`nul`,
			`"	"`,
			`"\x"`,
			`"\uZ"`,
			`"\u1Z"`,
			`"\u22Z"`,
			`"\u33Z"`,
			`"\u444Z"`,
			`-z`,
			`5.1.2`,
			`2"`,
			`2'`,
			`0.z`,
			`1.23e+Z`,
			`[}`,
			`[1,]`,
			`[1:]`,
			`{}x`,
			`{"key"}`,
			`{"key":1:}`,
			`{"key": 1,:`,
			`{`,
			`[`,
			`"string without closing quotation mark`,
			`string without opening quotation mark"`,
			"123\n2",
			"{}-",
			`"str" / comment`,
			`123 // {min: 1} text`,
			`123 // {min: 1} {}`,
			`123 // {`,
			`1 // {key: "aaa
bbb"}`,
			`1 // {
		key: 123
	}`,
			`/* /* {} */ */ 123`,
		}

		for _, content := range cc {
			t.Run(content, func(t *testing.T) {
				assert.Panics(t, func() {
					s := New(fs.NewFile("", content))
					for {
						if _, ok := s.Next(); ok == false {
							break
						}
					}
				})
			})
		}
	})
}

func Test_stateFoundRootValue(t *testing.T) {
	cc := map[byte]struct {
		expectedState state
		expectedFinds []lexeme.LexEventType
	}{
		'/': {scanContinue, []lexeme.LexEventType{}},
		'#': {scanContinue, []lexeme.LexEventType{}},
		'{': {scanBeginObject, []lexeme.LexEventType{lexeme.ObjectBegin}},
		'[': {scanBeginArray, []lexeme.LexEventType{lexeme.ArrayBegin}},
		'@': {scanBeginTypesShortcut, []lexeme.LexEventType{
			lexeme.MixedValueBegin,
			lexeme.TypesShortcutBegin,
		}},
	}

	for b, c := range cc {
		t.Run(string(b), func(t *testing.T) {
			f := &fs.File{}
			s := New(f)

			st := stateFoundRootValue(s, b)

			assert.Equal(t, c.expectedState, st)
			assert.Equal(t, c.expectedFinds, s.finds)
		})
	}
}

func Test_stateFoundObjectValueBegin(t *testing.T) {
	cc := map[string]struct {
		char              byte
		expectedState     state
		expectedLexEvents []lexeme.LexEventType
	}{
		"literal": {
			char:              '1',
			expectedState:     scanBeginLiteral,
			expectedLexEvents: []lexeme.LexEventType{lexeme.ObjectValueBegin, lexeme.LiteralBegin},
		},
		"object": {
			char:              '{',
			expectedState:     scanBeginObject,
			expectedLexEvents: []lexeme.LexEventType{lexeme.ObjectValueBegin, lexeme.ObjectBegin},
		},
		"array": {
			char:              '[',
			expectedState:     scanBeginArray,
			expectedLexEvents: []lexeme.LexEventType{lexeme.ObjectValueBegin, lexeme.ArrayBegin},
		},
		"types shortcut": {
			char:          '@',
			expectedState: scanBeginTypesShortcut,
			expectedLexEvents: []lexeme.LexEventType{
				lexeme.ObjectValueBegin,
				lexeme.MixedValueBegin,
				lexeme.TypesShortcutBegin,
			},
		},
	}

	for n, c := range cc {
		t.Run(n, func(t *testing.T) {
			s := New(&fs.File{})
			st := stateFoundObjectValueBegin(s, c.char)
			assert.Equal(t, c.expectedState, st)
			assert.Len(t, s.finds, len(c.expectedLexEvents))
			assert.Equal(t, c.expectedLexEvents, s.finds)
		})
	}
}

func Test_stateFoundArrayItemBeginOrEmpty(t *testing.T) {
	cc := map[string]struct {
		char              byte
		expectedState     state
		expectedLexEvents []lexeme.LexEventType
	}{
		"literal": {
			char:              '1',
			expectedState:     scanBeginLiteral,
			expectedLexEvents: []lexeme.LexEventType{lexeme.ArrayItemBegin, lexeme.LiteralBegin},
		},
		"object": {
			char:              '{',
			expectedState:     scanBeginObject,
			expectedLexEvents: []lexeme.LexEventType{lexeme.ArrayItemBegin, lexeme.ObjectBegin},
		},
		"array": {
			char:              '[',
			expectedState:     scanBeginArray,
			expectedLexEvents: []lexeme.LexEventType{lexeme.ArrayItemBegin, lexeme.ArrayBegin},
		},
		"types shortcut": {
			char:          '@',
			expectedState: scanBeginTypesShortcut,
			expectedLexEvents: []lexeme.LexEventType{
				lexeme.ArrayItemBegin,
				lexeme.MixedValueBegin,
				lexeme.TypesShortcutBegin,
			},
		},
	}

	for n, c := range cc {
		t.Run(n, func(t *testing.T) {
			s := New(&fs.File{})
			st := stateFoundArrayItemBeginOrEmpty(s, c.char)
			assert.Equal(t, c.expectedState, st)
			assert.Len(t, s.finds, len(c.expectedLexEvents))
			assert.Equal(t, c.expectedLexEvents, s.finds)
		})
	}
}

func Test_isCommentStart(t *testing.T) {
	cc := map[string]struct {
		annotation annotation
		c          byte
		expected   bool
	}{
		"none, comment sign":          {annotationNone, '#', true},
		"none, non-comment sign":      {annotationNone, '1', false},
		"inline, comment sign":        {annotationInline, '#', true},
		"inline, non-comment sign":    {annotationInline, '1', false},
		"multiline, comment sign":     {annotationMultiLine, '#', false},
		"multiline, non-comment sign": {annotationMultiLine, '1', false},
	}

	for n, c := range cc {
		t.Run(n, func(t *testing.T) {
			actual := (&Scanner{annotation: c.annotation}).isCommentStart(c.c)
			assert.Equal(t, c.expected, actual)
		})
	}
}

type validResults struct {
	content string
	results []lexeme.LexEventType
}

func processingValid(t *testing.T, s *Scanner, tst validResults) {
	var results []lexeme.LexEventType

	for {
		if lex, ok := s.Next(); ok {
			results = append(results, lex.Type())
		} else {
			break
		}
	}

	assert.Equal(
		t,
		lexSliceToStringSlice(tst.results),
		lexSliceToStringSlice(results),
	)
}

func lexSliceToStringSlice(ll []lexeme.LexEventType) []string {
	ss := make([]string, 0, len(ll))
	for _, l := range ll {
		ss = append(ss, l.String())
	}
	return ss
}
