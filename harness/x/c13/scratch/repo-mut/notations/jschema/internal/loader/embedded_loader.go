package loader

import (
	"github.com/jsightapi/jsight-schema-go-library/internal/lexeme"
)

type embeddedLoader interface {
	Load(lex lexeme.LexEvent) bool
}
