package constraint

import (
	"strconv"
	"testing"

	"github.com/stretchr/testify/assert"

	jschema "github.com/jsightapi/jsight-schema-go-library"
	"github.com/jsightapi/jsight-schema-go-library/bytes"
)

func TestNewNullable(t *testing.T) {
	t.Run("positive", func(t *testing.T) {
		cc := map[string]bool{
			"true":  true,
			"false": false,
		}

		for given, expected := range cc {
			t.Run(given, func(t *testing.T) {
				c := NewNullable([]byte(given))
				assert.Equal(t, expected, c.value)
			})
		}
	})

	t.Run("negative", func(t *testing.T) {
		assert.PanicsWithError(t, `Invalid value of "nullable" constraint`, func() {
			NewNullable([]byte("foo"))
		})
	})
}

func TestNullable_IsJsonTypeCompatible(t *testing.T) {
	testIsJsonTypeCompatible(t, Nullable{}, allJSONTypes...)
}

func TestNullable_Type(t *testing.T) {
	assert.Equal(t, NullableConstraintType, NewNullable(bytes.Bytes("true")).Type())
}

func TestNullable_String(t *testing.T) {
	cc := map[string]string{
		"false": "nullable: false",
		"true":  "nullable: true",
	}

	for given, expected := range cc {
		t.Run(given, func(t *testing.T) {
			assert.Equal(t, expected, NewNullable([]byte(given)).String())
		})
	}
}

func TestNullable_Bool(t *testing.T) {
	cc := map[string]bool{
		"false": false,
		"true":  true,
	}

	for given, expected := range cc {
		t.Run(given, func(t *testing.T) {
			assert.Equal(t, expected, NewNullable([]byte(given)).Bool())
		})
	}
}

func TestNullable_ASTNode(t *testing.T) {
	cc := []bool{true, false}

	for _, c := range cc {
		t.Run(strconv.FormatBool(c), func(t *testing.T) {
			assert.Equal(t, jschema.RuleASTNode{
				TokenType:  jschema.TokenTypeBoolean,
				Value:      strconv.FormatBool(c),
				Properties: &jschema.RuleASTNodes{},
				Source:     jschema.RuleASTNodeSourceManual,
			}, Nullable{value: c}.ASTNode())
		})
	}
}
