package constraint

import (
	"fmt"
	"testing"

	"github.com/stretchr/testify/assert"

	jschema "github.com/jsightapi/jsight-schema-go-library"
	"github.com/jsightapi/jsight-schema-go-library/bytes"
	"github.com/jsightapi/jsight-schema-go-library/internal/json"
)

func TestNewMinItems(t *testing.T) {
	t.Run("positive", func(t *testing.T) {
		cnstr := NewMinItems([]byte("10"))

		assert.EqualValues(t, 10, cnstr.value)
	})

	t.Run("negative", func(t *testing.T) {
		ss := []string{
			"not a number",
			"3.14",
			"-12",
		}

		for _, s := range ss {
			t.Run(s, func(t *testing.T) {
				assert.PanicsWithError(t, `Invalid value of "minItems" constraint`, func() {
					NewMinItems([]byte(s))
				})
			})
		}
	})
}

func TestMinItems_IsJsonTypeCompatible(t *testing.T) {
	testIsJsonTypeCompatible(t, MinItems{}, json.TypeArray)
}

func TestMinItems_Type(t *testing.T) {
	assert.Equal(t, MinItemsConstraintType, NewMinItems(bytes.Bytes("1")).Type())
}

func TestMinItems_String(t *testing.T) {
	assert.Equal(t, "minItems: 1", NewMinItems([]byte("1")).String())
}

func TestMinItems_ValidateTheArray(t *testing.T) {
	t.Run("positive", func(t *testing.T) {
		cc := []uint{
			2,
			3,
		}

		for _, numberOfChildren := range cc {
			t.Run(fmt.Sprintf("%d", numberOfChildren), func(t *testing.T) {
				assert.NotPanics(t, func() {
					NewMinItems([]byte("2")).ValidateTheArray(numberOfChildren)
				})
			})
		}
	})

	t.Run("negative", func(t *testing.T) {
		assert.PanicsWithError(t, `The number of array elements does not match the "minItems" rule`, func() {
			NewMinItems([]byte("2")).ValidateTheArray(1)
		})
	})
}

func TestMinItems_Value(t *testing.T) {
	assert.EqualValues(t, 2, NewMinItems([]byte("2")).Value())
}

func TestMinItems_ASTNode(t *testing.T) {
	assert.Equal(t, jschema.RuleASTNode{
		TokenType:  jschema.TokenTypeNumber,
		Value:      "1",
		Properties: &jschema.RuleASTNodes{},
		Source:     jschema.RuleASTNodeSourceManual,
	}, NewMinItems(bytes.Bytes("1")).ASTNode())
}
