package constraint

import (
	"github.com/jsightapi/jsight-schema-go-library/bytes"
	"github.com/jsightapi/jsight-schema-go-library/errors"
)

func parseUint(v bytes.Bytes, c Type) uint {
	u, err := v.ParseUint()
	if err != nil {
		panic(errors.Format(errors.ErrInvalidValueOfConstraint, c.String()))
	}
	return u
}
