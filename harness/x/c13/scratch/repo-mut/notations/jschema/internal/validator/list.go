package validator

import (
	"github.com/jsightapi/jsight-schema-go-library/internal/json"
	"github.com/jsightapi/jsight-schema-go-library/notations/jschema/internal/schema"
	"github.com/jsightapi/jsight-schema-go-library/notations/jschema/internal/schema/constraint"
)

// Constructor for validator list for a single node. A single node can have multiple validators if, for example, the schema had an "OR" rule.

type validatorListConstructor struct {
	// rootSchema a scheme from which it is possible to receive type by their name.
	rootSchema schema.Schema

	// The parent validator for the newly created validators.
	parent validator

	// addedTypeNames used for excluding recursive addition of type to the list.
	addedTypeNames map[string]struct{}

	// The list of validators for the node.
	list []validator
}

func NodeValidatorList(node schema.Node, rootSchema schema.Schema, parent validator) []validator {
	c := validatorListConstructor{
		rootSchema:     rootSchema,
		parent:         parent,
		addedTypeNames: nil, // optimizing memory allocation
		list:           nil, // optimizing memory allocation
	}
	c.buildList(node)
	return c.list
}

func (c *validatorListConstructor) buildList(node schema.Node) {
	if constr := node.Constraint(constraint.TypesListConstraintType); constr != nil {
		names := constr.(*constraint.TypesList).Names()
		c.appendTypeValidators(names)

		if constr := node.Constraint(constraint.NullableConstraintType); constr != nil {
			c.list = append(c.list, newLiteralValidator(node, c.parent))
		}
	} else {
		c.appendNodeValidators(node)

		// A nullable object or array also admits the literal null.
		if t := node.Type(); t == json.TypeObject || t == json.TypeArray {
			if constr, ok := node.Constraint(constraint.NullableConstraintType).(constraint.BoolKeeper); ok && constr.Bool() {
				c.list = append(c.list, newLiteralValidator(node, c.parent))
			}
		}
	}
}

func (c *validatorListConstructor) appendTypeValidators(names []string) {
	if c.list == nil {
		c.addedTypeNames = make(map[string]struct{}, len(names)) // optimizing memory allocation
		c.list = make([]validator, 0, len(names))                // optimizing memory allocation
	}
	for _, name := range names {
		if _, ok := c.addedTypeNames[name]; !ok {
			c.addedTypeNames[name] = struct{}{}
			c.buildList(c.rootSchema.MustType(name).RootNode()) // can panic
		}
	}
}

func (c *validatorListConstructor) appendNodeValidators(node schema.Node) {
	if c.list == nil {
		c.list = make([]validator, 0, 1) // optimizing memory allocation
	}

	var v validator

	if node.Constraint(constraint.AnyConstraintType) != nil && node.Constraint(constraint.ConstConstraintType) == nil {
		v = newAnyNestedStructureValidator(node, c.parent)
	} else {
		switch node.Type() {
		case json.TypeArray:
			v = newArrayValidator(node, c.parent, c.rootSchema)
		case json.TypeObject:
			v = newObjectValidator(node, c.parent, c.rootSchema)
		default:
			v = newLiteralValidator(node, c.parent)
		}
	}

	c.list = append(c.list, v)
}
