package checker

import (
	"sort"

	"github.com/jsightapi/jsight-schema-go-library/errors"
	"github.com/jsightapi/jsight-schema-go-library/internal/json"
	"github.com/jsightapi/jsight-schema-go-library/internal/lexeme"
	"github.com/jsightapi/jsight-schema-go-library/notations/jschema/internal/schema"
	"github.com/jsightapi/jsight-schema-go-library/notations/jschema/internal/schema/constraint"
)

// Checks the SAMPLE SCHEMA and all TYPES for compliance with all RULES.

type checkSchema struct {
	rootSchema *schema.Schema

	// foundTypeNames the names of the type encountered during checking. Are used
	// to control recursion.
	foundTypeNames map[string]struct{}

	// allowedJsonTypes the list of available json-types from types.
	allowedJsonTypes map[json.Type]struct{}
}

func CheckRootSchema(rootSchema *schema.Schema) {
	c := checkSchema{
		rootSchema:       rootSchema,
		foundTypeNames:   make(map[string]struct{}, 10),
		allowedJsonTypes: make(map[json.Type]struct{}, 10),
	}

	if rootSchema.RootNode() != nil { // the root schema may contain no nodes
		c.checkNode(rootSchema.RootNode(), rootSchema.TypesList())
	}

	// Iterate in a fixed order: which error is reported must not depend on map order.
	names := make([]string, 0, len(rootSchema.TypesList()))
	for name := range rootSchema.TypesList() {
		names = append(names, name)
	}
	sort.Strings(names)
	for _, name := range names {
		c.checkType(name, rootSchema.TypesList()[name], rootSchema.TypesList())
	}
}

func (c *checkSchema) checkType(name string, typ schema.Type, ss map[string]schema.Type) {
	defer func() {
		r := recover()
		if r == nil {
			return
		}

		// Return an error with the full set of bytes of the root schema.
		if documentError, ok := r.(errors.DocumentError); ok {
			documentError.SetFile(typ.RootFile())
			documentError.SetIndex(documentError.Index() + typ.Begin())
			documentError.SetIncorrectUserType(name)
			panic(documentError)
		}

		panic(r)
	}()

	c.checkNode(typ.Schema().RootNode(), ss)
}

func (c *checkSchema) checkerList(node schema.Node, ss map[string]schema.Type) []nodeChecker {
	l := nodeCheckerListConstructor{
		rootSchema: c.rootSchema,
		types:      ss,
	}
	l.buildList(node)
	return l.list
}

func (c checkSchema) checkNode(node schema.Node, ss map[string]schema.Type) {
	defer lexeme.CatchLexEventError(node.BasisLexEventOfSchemaForNode())
	switch node := node.(type) {
	case *schema.LiteralNode:
		c.checkCompatibilityOfConstraints(node)
		c.checkLinksOfNode(node, ss) // can panic
		c.checkLiteralNode(node, ss)
	case *schema.ArrayNode:
		c.checkCompatibilityOfConstraints(node)
		c.checkLinksOfNode(node, ss) // can panic
		c.checkArrayItems(node)
		c.checkArrayNode(node)
	case *schema.ObjectNode:
		c.checkCompatibilityOfConstraints(node)
		c.checkLinksOfNode(node, ss) // can panic
		if err := c.ensureShortcutKeysAreValid(node); err != nil {
			panic(err)
		}
		c.checkAdditionalPropertiesConstraint(node, ss)
	case *schema.MixedNode:
		c.checkCompatibilityOfConstraints(node)
		c.checkLinksOfNode(node, ss) // can panic
	case *schema.MixedValueNode:
		c.checkCompatibilityOfConstraints(node)
		c.checkLinksOfNode(node, ss) // can panic
	default:
		panic(errors.ErrImpossible)
	}

	if branchingNode, ok := node.(schema.BranchNode); ok {
		for _, child := range branchingNode.Children() {
			c.checkNode(child, ss) // can panic
		}
	}
}

func (c checkSchema) checkLiteralNode(node schema.Node, ss map[string]schema.Type) {
	checkerList := c.checkerList(node, ss)
	errorsCount := 0
	var err errors.Error

	for _, checker := range checkerList {
		err = checker.Check(node.BasisLexEventOfSchemaForNode())
		if err != nil {
			errorsCount++
		}
	}

	if errorsCount == len(checkerList) {
		if len(checkerList) == 1 {
			panic(err)
		} else {
			panic(lexeme.NewLexEventError(node.BasisLexEventOfSchemaForNode(), errors.ErrOrRuleSetValidation))
		}
	}
}

// Checks for array elements. Including recursively for types. Or if the array
// type is "any".
func (c checkSchema) checkArrayItems(node schema.Node) {
	arrayNode := node.(*schema.ArrayNode) //nolint:errcheck // We're sure about this type.

	if arrayNode.Len() != 0 {
		return
	}

	if arrayNode.Constraint(constraint.AnyConstraintType) != nil {
		return
	}

	if typesList := arrayNode.Constraint(constraint.TypesListConstraintType); typesList != nil {
		for _, name := range typesList.(*constraint.TypesList).Names() {
			typeRootNode := c.rootSchema.MustType(name).RootNode() // can panic

			if arrayNode, ok := typeRootNode.(*schema.ArrayNode); ok {
				c.checkArrayItems(arrayNode)
			}
		}
	}
}

func (checkSchema) checkArrayNode(node schema.Node) {
	arrayNode := node.(*schema.ArrayNode) //nolint:errcheck // We're sure about this type.

	length := uint(arrayNode.Len())

	if cnstr := arrayNode.Constraint(constraint.MinItemsConstraintType); cnstr != nil {
		cnstr.(*constraint.MinItems).ValidateTheArray(length)
	}

	if cnstr := arrayNode.Constraint(constraint.MaxItemsConstraintType); cnstr != nil {
		cnstr.(*constraint.MaxItems).ValidateTheArray(length)
	}
}

// check all constraints for compatibility with the json-type of the node
func (checkSchema) checkCompatibilityOfConstraints(node schema.Node) {
	_, isMixed := node.(*schema.MixedNode)
	_, isMixedValue := node.(*schema.MixedValueNode)

	err := node.ConstraintMap().Each(func(k constraint.Type, v constraint.Constraint) error {
		if !v.IsJsonTypeCompatible(node.Type()) && !isMixed && !isMixedValue {
			return errors.Format(errors.ErrUnexpectedConstraint, v.Type().String(), node.RealType())
		}
		return nil
	})
	if err != nil {
		panic(err)
	}
}

func (c *checkSchema) checkLinksOfNode(node schema.Node, ss map[string]schema.Type) {
	if node.Constraint(constraint.TypesListConstraintType) == nil {
		return // to optimize memory allocation
	}

	for k := range c.foundTypeNames {
		delete(c.foundTypeNames, k)
	}
	for k := range c.allowedJsonTypes {
		delete(c.allowedJsonTypes, k)
	}

	c.collectAllowedJsonTypes(node, ss)
	if _, ok := c.allowedJsonTypes[node.Type()]; !ok {
		panic(errors.ErrIncorrectUserType)
	}
}

func (c *checkSchema) ensureShortcutKeysAreValid(node *schema.ObjectNode) error {
	for _, v := range node.Keys().Data {
		if !v.IsShortcut {
			continue
		}

		s, err := c.rootSchema.Type(v.Key)
		if err != nil {
			return lexeme.NewLexEventError(v.Lex, err)
		}
		actualType := actualRootType(s, c.rootSchema)

		if actualType != json.TypeString {
			return lexeme.NewLexEventError(
				v.Lex,
				errors.Format(errors.ErrInvalidKeyShortcutType, v.Key, actualType),
			)
		}
	}
	return nil
}

func actualRootType(s, root *schema.Schema) json.Type {
	return actualRootTypeVisiting(s, root, map[string]struct{}{})
}

// actualRootTypeVisiting resolves the root type through type references; visiting
// holds the type names on the current path, so an alias cycle ends as "mixed".
func actualRootTypeVisiting(s, root *schema.Schema, visiting map[string]struct{}) json.Type {
	t := s.RootNode().Type()
	if t != json.TypeMixed {
		return t
	}

	// mixed type for example: @aaa | @bbb
	if n, ok := s.RootNode().(*schema.MixedValueNode); ok {
		types := make(map[json.Type]struct{}, 2)
		var tt json.Type
		for _, tn := range n.GetTypes() {
			if _, ok := visiting[tn]; ok {
				return json.TypeMixed
			}
			ss, err := root.Type(tn)
			if err != nil {
				return json.TypeMixed
			}
			visiting[tn] = struct{}{}
			tt = actualRootTypeVisiting(ss, root, visiting)
			delete(visiting, tn)
			types[tt] = struct{}{}
		}
		if len(types) == 1 { // all USER TYPES (example: @aaa | @bbb) have the same type (example: string)
			return tt
		}
	}

	return json.TypeMixed
}

func (c *checkSchema) collectAllowedJsonTypes(node schema.Node, ss map[string]schema.Type) {
	if _, ok := node.(*schema.MixedValueNode); ok {
		// This node can be anything.
		for _, t := range json.AllTypes {
			c.allowedJsonTypes[t] = struct{}{}
		}

		// Check all user types are defined.
		if typesConstraint := node.Constraint(constraint.TypesListConstraintType); typesConstraint != nil {
			for _, typeName := range typesConstraint.(*constraint.TypesList).Names() {
				c.rootSchema.MustType(typeName) // can panic
			}
		}
		return
	}

	typesConstraint := node.Constraint(constraint.TypesListConstraintType)

	if typesConstraint == nil {
		c.allowedJsonTypes[node.Type()] = struct{}{}
		return
	}

	for _, typeName := range typesConstraint.(*constraint.TypesList).Names() {
		if _, ok := c.foundTypeNames[typeName]; ok {
			panic(errors.Format(errors.ErrImpossibleToDetermineTheJsonTypeDueToRecursion, typeName))
		}
		c.foundTypeNames[typeName] = struct{}{}
		c.collectAllowedJsonTypes(getType(typeName, c.rootSchema, ss).RootNode(), ss) // can panic
		delete(c.foundTypeNames, typeName)
	}
}

func (c *checkSchema) checkAdditionalPropertiesConstraint(node schema.Node, ss map[string]schema.Type) {
	cnstr := node.Constraint(constraint.AdditionalPropertiesConstraintType)
	if c == nil {
		return
	}

	ap, ok := cnstr.(*constraint.AdditionalProperties)
	if !ok {
		return
	}

	if ap.Mode() == constraint.AdditionalPropertiesMustBeUserType {
		getType(ap.TypeName().String(), c.rootSchema, ss)
	}
}

func getType(n string, rootSchema *schema.Schema, ss map[string]schema.Type) (ret *schema.Schema) {
	getFromRoot := func() *schema.Schema {
		return rootSchema.MustType(n)
	}

	getFromMap := func() *schema.Schema {
		s, ok := ss[n]
		if !ok {
			panic(errors.Format(errors.ErrTypeNotFound, n))
		}
		return s.Schema()
	}

	main := getFromRoot
	alternative := getFromMap
	if len(n) > 0 && n[0] == '#' {
		main = getFromMap
		alternative = getFromRoot
	}

	defer func() {
		if r := recover(); r == nil {
			return
		}

		ret = alternative()
	}()
	return main()
}
