package loader

import (
	"testing"

	"github.com/stretchr/testify/assert"

	"github.com/jsightapi/jsight-schema-go-library/fs"
	"github.com/jsightapi/jsight-schema-go-library/notations/jschema/internal/scanner"
)

func TestLoadSchemaWithoutCompile(t *testing.T) {
	t.Run("positive", func(t *testing.T) {
		ss := []string{
			`{"key": 1}`,
			"{}",
			"[]",
			`"str"`,
			"123",
			"1.23",
			"true",
			"null",
			"1.2 // {precision: 1}",
		}

		for _, s := range ss {
			t.Run(s, func(t *testing.T) {
				assert.NotPanics(t, func() {
					scan := scanner.New(fs.NewFile("", s))
					LoadSchemaWithoutCompile(scan, nil, nil)
				})
			})
		}
	})

	t.Run("negative", func(t *testing.T) {
		ss := map[string]string{
			`ERROR (code 301): Invalid character "k" looking for beginning of string
	in line 1 on file 
	> {key: 1}
	---^`: "{key: 1}",
			`ERROR (code 301): Invalid character "," non-space byte after top-level value
	in line 1 on file 
	> 1.2, // {precision: 1}
	-----^`: "1.2, // {precision: 1}",
		}

		for expected, s := range ss {
			t.Run(s, func(t *testing.T) {
				assert.PanicsWithError(t, expected, func() {
					scan := scanner.New(fs.NewFile("", s))
					LoadSchemaWithoutCompile(scan, nil, nil)
				})
			})
		}
	})
}

func BenchmarkLoadSchemaWithoutCompile(b *testing.B) {
	file := fs.NewFile("", `{
	"foo": "bar"
}`)
	scan := scanner.New(file)

	b.ReportAllocs()
	b.ResetTimer()

	for i := 0; i < b.N; i++ {
		LoadSchemaWithoutCompile(scan, nil, nil)
	}
}
