package validator

import (
	"github.com/jsightapi/jsight-schema-go-library/internal/lexeme"
	"github.com/jsightapi/jsight-schema-go-library/notations/jschema/internal/schema"
)

// validator to process any nested structures.

type anyNestedStructure struct {
	node_   schema.Node
	parent_ validator
	depth   uint
}

func newAnyNestedStructureValidator(node schema.Node, parent validator) *anyNestedStructure {
	v := anyNestedStructure{
		node_:   node,
		parent_: parent,
	}
	return &v
}

func (v anyNestedStructure) node() schema.Node {
	return v.node_
}

func (v anyNestedStructure) parent() validator {
	return v.parent_
}

func (v *anyNestedStructure) setParent(parent validator) {
	v.parent_ = parent
}

// return nil (empty list pointers to validators) and bool (true if validator is done)
func (v *anyNestedStructure) feed(jsonLexeme lexeme.LexEvent) ([]validator, bool) {
	if jsonLexeme.Type().IsOpening() {
		v.depth++
	} else {
		v.depth--
	}

	if v.depth == 0 {
		return nil, true
	}

	return nil, false
}
