package loader

import "github.com/jsightapi/jsight-schema-go-library/notations/jschema/internal/schema"

func AddUnnamedTypes(rootSchema *schema.Schema) {
	for _, typ := range rootSchema.TypesList() {
		for unnamed, unnamedTyp := range typ.Schema().TypesList() {
			rootSchema.AddType(unnamed, unnamedTyp)
		}
	}
}
