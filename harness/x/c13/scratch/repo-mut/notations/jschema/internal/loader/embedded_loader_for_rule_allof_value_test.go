package loader

import (
	"testing"

	"github.com/stretchr/testify/assert"

	"github.com/jsightapi/jsight-schema-go-library/notations/jschema/internal/schema/constraint"
)

func Test_newAllOfValueLoader(t *testing.T) {
	expectedConstraint := &constraint.AllOf{}

	l := newAllOfValueLoader(expectedConstraint)

	assert.Same(t, expectedConstraint, l.allOfConstraint)
	assert.NotNil(t, l.stateFunc)
	assert.True(t, l.inProgress)
}
