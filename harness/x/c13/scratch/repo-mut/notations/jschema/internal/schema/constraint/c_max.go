package constraint

import (
	jschema "github.com/jsightapi/jsight-schema-go-library"
	"github.com/jsightapi/jsight-schema-go-library/bytes"
	"github.com/jsightapi/jsight-schema-go-library/errors"
	"github.com/jsightapi/jsight-schema-go-library/internal/json"
)

type Max struct {
	max       *json.Number
	rawValue  bytes.Bytes
	exclusive bool
}

var (
	_ Constraint       = Max{}
	_ Constraint       = (*Max)(nil)
	_ LiteralValidator = Max{}
	_ LiteralValidator = (*Max)(nil)
)

func NewMax(ruleValue bytes.Bytes) *Max {
	number, err := json.NewNumber(ruleValue)
	if err != nil {
		panic(err)
	}

	return &Max{
		rawValue: ruleValue,
		max:      number,
	}
}

func (Max) IsJsonTypeCompatible(t json.Type) bool {
	return t == json.TypeInteger || t == json.TypeFloat
}

func (Max) Type() Type {
	return MaxConstraintType
}

func (c Max) String() string {
	str := MaxConstraintType.String() + ": " + c.max.String()
	if c.exclusive {
		return str + " (exclusive: true)"
	}
	return str
}

func (c *Max) SetExclusive(exclusive bool) {
	c.exclusive = exclusive
}

func (c *Max) Exclusive() bool {
	return c.exclusive
}

func (c Max) Validate(value bytes.Bytes) {
	jsonNumber, err := json.NewNumber(value)
	if err != nil {
		panic(err)
	}
	if c.exclusive {
		if c.max.LessThanOrEqual(jsonNumber) {
			panic(errors.Format(errors.ErrConstraintValidation, MaxConstraintType.String(), c.max.String(), "(exclusive)")) //nolint:lll
		}
	} else {
		if c.max.LessThan(jsonNumber) {
			panic(errors.Format(errors.ErrConstraintValidation, MaxConstraintType.String(), c.max.String(), ""))
		}
	}
}

func (c Max) ASTNode() jschema.RuleASTNode {
	return newRuleASTNode(jschema.TokenTypeNumber, c.rawValue.String(), jschema.RuleASTNodeSourceManual)
}

func (c *Max) Value() *json.Number {
	return c.max
}
