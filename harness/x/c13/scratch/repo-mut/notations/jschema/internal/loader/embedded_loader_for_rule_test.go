package loader

import (
	"testing"

	"github.com/stretchr/testify/assert"

	jschema "github.com/jsightapi/jsight-schema-go-library"
	"github.com/jsightapi/jsight-schema-go-library/internal/mocks"
	jschemaMocks "github.com/jsightapi/jsight-schema-go-library/notations/jschema/internal/mocks"
	"github.com/jsightapi/jsight-schema-go-library/notations/jschema/internal/schema"
)

func Test_newRuleLoader(t *testing.T) {
	n := jschemaMocks.NewNode(t)
	s := &schema.Schema{}
	rules := map[string]jschema.Rule{
		"foo": mocks.NewRule(t),
	}

	l := newRuleLoader(n, 1, s, rules)

	assert.Same(t, n, l.node)
	assert.Same(t, s, l.rootSchema)
	assert.Equal(t, rules, l.rules)
	assert.EqualValues(t, 1, l.nodesPerCurrentLineCount)
	assert.NotNil(t, l.stateFunc)
}
