package validator

import (
	"github.com/jsightapi/jsight-schema-go-library/internal/lexeme"
	"github.com/jsightapi/jsight-schema-go-library/notations/jschema/internal/schema"
)

type validator interface {
	parent() validator
	setParent(validator)

	// feed returns array (pointers to validators, or nil if not found), bool
	// (true if validator of node is completed), panic on error.
	feed(jsonLexeme lexeme.LexEvent) ([]validator, bool)

	// node returns this validator node.
	// For debug/log only.
	node() schema.Node
}
