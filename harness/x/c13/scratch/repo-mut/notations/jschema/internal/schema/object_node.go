package schema

import (
	"fmt"

	jschema "github.com/jsightapi/jsight-schema-go-library"
	"github.com/jsightapi/jsight-schema-go-library/bytes"
	"github.com/jsightapi/jsight-schema-go-library/internal/json"
	"github.com/jsightapi/jsight-schema-go-library/internal/lexeme"
)

type ObjectNode struct {
	// children node list.
	children []Node

	// keys stores the index of the node on the map for quick search.
	keys *ObjectNodeKeys

	baseNode

	// waitingForChild indicates that the Grow method will create a child node by
	// getting the next lexeme.
	waitingForChild bool
}

var _ Node = &ObjectNode{}

func newObjectNode(lex lexeme.LexEvent) *ObjectNode {
	n := ObjectNode{
		baseNode: newBaseNode(lex),
		children: make([]Node, 0, 10),
		keys:     newObjectNodeKeys(),
	}
	n.setJsonType(json.TypeObject)
	return &n
}

func (ObjectNode) Type() json.Type {
	return json.TypeObject
}

func (n *ObjectNode) Grow(lex lexeme.LexEvent) (Node, bool) {
	if n.waitingForChild {
		n.waitingForChild = false
		child := NewNode(lex)
		n.addChild(child)
		return child, true
	}

	switch lex.Type() {
	case lexeme.ObjectBegin, lexeme.ObjectKeyBegin, lexeme.ObjectValueEnd:

	case lexeme.KeyShortcutEnd:
		key := lex.Value().Unquote().String()
		n.addKey(key, lex.Value().IsUserTypeName(), lex) // can panic

	case lexeme.ObjectKeyEnd:
		key := lex.Value().Unquote().String()
		n.addKey(key, lex.Value().IsUserTypeName(), lex) // can panic

	case lexeme.ObjectValueBegin:
		n.waitingForChild = true

	case lexeme.ObjectEnd:
		return n.parent, false

	default:
		panic(`Unexpected lexical event "` + lex.Type().String() + `" in object node`)
	}

	return n, false
}

func (n ObjectNode) Children() []Node {
	return n.children
}

func (n ObjectNode) Len() int {
	return len(n.children)
}

// ChildByRawKey returns child by raw key as is present in schema.
// For instance: "foo" or @foo (shortcut).
func (n ObjectNode) ChildByRawKey(rawKey bytes.Bytes) (Node, bool) {
	key := rawKey
	isShortcut := rawKey.IsUserTypeName()
	if !isShortcut {
		key = key.Unquote()
	}
	return n.Child(key.String(), isShortcut)
}

// Child returns child bye specified key.
func (n ObjectNode) Child(key string, isShortcut bool) (Node, bool) {
	i, ok := n.keys.Get(key, isShortcut)
	if ok {
		return n.children[i.Index], true
	}
	return nil, false
}

func (n *ObjectNode) addKey(key string, isShortcut bool, lex lexeme.LexEvent) {
	// Save child node index into map for faster search.
	n.keys.Set(ObjectNodeKey{
		Key:        key,
		Index:      len(n.children),
		IsShortcut: isShortcut,
		Lex:        lex,
	})
}

func (n *ObjectNode) addChild(child Node) {
	child.SetParent(n)
	n.children = append(n.children, child)
}

func (n *ObjectNode) AddChild(key ObjectNodeKey, child Node) {
	n.addKey(key.Key, key.IsShortcut, key.Lex) // can panic
	n.addChild(child)
}

func (n ObjectNode) Key(index int) ObjectNodeKey {
	if kv, ok := n.keys.Find(index); ok {
		return kv
	}
	panic(fmt.Sprintf(`Schema key not found in index %d`, index))
}

func (n ObjectNode) Keys() *ObjectNodeKeys {
	return n.keys
}

func (n *ObjectNode) ASTNode() (jschema.ASTNode, error) {
	an := astNodeFromNode(n)

	var err error
	an.Children, err = n.collectASTProperties()
	if err != nil {
		return jschema.ASTNode{}, err
	}

	return an, nil
}

func (n *ObjectNode) collectASTProperties() ([]jschema.ASTNode, error) {
	if len(n.keys.Data) == 0 {
		return nil, nil
	}

	pp := make([]jschema.ASTNode, 0, len(n.keys.Data))

	for _, v := range n.keys.Data {
		c := n.children[v.Index]
		cn, err := c.ASTNode()
		if err != nil {
			return pp, err
		}

		cn.IsKeyShortcut = v.IsShortcut
		cn.Key = v.Key

		pp = append(pp, cn)
	}

	return pp, nil
}
