package checker

import (
	"github.com/jsightapi/jsight-schema-go-library/errors"
	"github.com/jsightapi/jsight-schema-go-library/internal/lexeme"
)

type arrayChecker struct{}

var _ nodeChecker = arrayChecker{}

func newArrayChecker() arrayChecker {
	return arrayChecker{}
}

func (arrayChecker) Check(nodeLex lexeme.LexEvent) errors.Error {
	if nodeLex.Type() != lexeme.ArrayEnd {
		return lexeme.NewLexEventError(nodeLex, errors.ErrChecker)
	}

	return nil
}
