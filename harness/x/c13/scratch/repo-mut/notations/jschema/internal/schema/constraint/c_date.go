package constraint

import (
	"time"

	jschema "github.com/jsightapi/jsight-schema-go-library"
	"github.com/jsightapi/jsight-schema-go-library/bytes"
	"github.com/jsightapi/jsight-schema-go-library/errors"
	"github.com/jsightapi/jsight-schema-go-library/internal/json"
)

type Date struct{}

var (
	_ Constraint       = Date{}
	_ Constraint       = (*Date)(nil)
	_ LiteralValidator = Date{}
	_ LiteralValidator = (*Date)(nil)
)

func NewDate() *Date {
	return &Date{}
}

func (Date) IsJsonTypeCompatible(t json.Type) bool {
	return t == json.TypeString
}

func (Date) Type() Type {
	return DateConstraintType
}

func (Date) String() string {
	return DateConstraintType.String()
}

func (Date) Validate(value bytes.Bytes) {
	str := value.Unquote().String()
	_, err := time.Parse("2006-01-02", str)
	if err != nil {
		panic(errors.Format(errors.ErrInvalidDate, err))
	}
}

func (Date) ASTNode() jschema.RuleASTNode {
	return newEmptyRuleASTNode()
}
