package loader

import (
	"fmt"
	"testing"

	jschema "github.com/jsightapi/jsight-schema-go-library"
	"github.com/jsightapi/jsight-schema-go-library/errors"
	"github.com/jsightapi/jsight-schema-go-library/internal/lexeme"
	"github.com/jsightapi/jsight-schema-go-library/notations/jschema/internal/mocks"
	"github.com/jsightapi/jsight-schema-go-library/notations/jschema/internal/schema"
	"github.com/jsightapi/jsight-schema-go-library/notations/jschema/internal/schema/constraint"

	"github.com/stretchr/testify/assert"
)

func TestSchemaCompiler_checkMinAndMax(t *testing.T) {
	cc := map[string]struct {
		node        func(*testing.T) schema.Node
		expectedErr string
	}{
		"nil min, nil max": {
			node: func(t *testing.T) schema.Node {
				m := mocks.NewNode(t)
				m.On("Constraint", constraint.MinConstraintType).Return(nil)
				m.On("Constraint", constraint.MaxConstraintType).Return(nil)
				return m
			},
		},
		"nil min, not nil max": {
			node: func(t *testing.T) schema.Node {
				m := mocks.NewNode(t)
				m.On("Constraint", constraint.MinConstraintType).Return(nil)
				m.On("Constraint", constraint.MaxConstraintType).Return(constraint.NewMax([]byte("42")))
				return m
			},
		},
		"nil min, not nil max (exclusive)": {
			node: func(t *testing.T) schema.Node {
				m := mocks.NewNode(t)
				max := constraint.NewMax([]byte("42"))
				max.SetExclusive(true)
				m.On("Constraint", constraint.MinConstraintType).Return(nil)
				m.On("Constraint", constraint.MaxConstraintType).Return(max)
				return m
			},
		},
		"not nil min, nil max": {
			node: func(t *testing.T) schema.Node {
				m := mocks.NewNode(t)
				m.On("Constraint", constraint.MinConstraintType).Return(constraint.NewMin([]byte("42")))
				m.On("Constraint", constraint.MaxConstraintType).Return(nil)
				return m
			},
		},
		"not nil min (exclusive), nil max": {
			node: func(t *testing.T) schema.Node {
				m := mocks.NewNode(t)
				min := constraint.NewMin([]byte("42"))
				min.SetExclusive(true)
				m.On("Constraint", constraint.MinConstraintType).Return(min)
				m.On("Constraint", constraint.MaxConstraintType).Return(nil)
				return m
			},
		},
		"min < max": {
			node: func(t *testing.T) schema.Node {
				m := mocks.NewNode(t)
				m.On("Constraint", constraint.MinConstraintType).Return(constraint.NewMin([]byte("1")))
				m.On("Constraint", constraint.MaxConstraintType).Return(constraint.NewMax([]byte("2")))
				return m
			},
		},
		"min (exclusive) < max": {
			node: func(t *testing.T) schema.Node {
				m := mocks.NewNode(t)
				min := constraint.NewMin([]byte("1"))
				min.SetExclusive(true)
				m.On("Constraint", constraint.MinConstraintType).Return(min)
				m.On("Constraint", constraint.MaxConstraintType).Return(constraint.NewMax([]byte("2")))
				return m
			},
		},
		"min < max (exclusive)": {
			node: func(t *testing.T) schema.Node {
				m := mocks.NewNode(t)
				max := constraint.NewMax([]byte("2"))
				max.SetExclusive(true)
				m.On("Constraint", constraint.MinConstraintType).Return(constraint.NewMin([]byte("1")))
				m.On("Constraint", constraint.MaxConstraintType).Return(max)
				return m
			},
		},
		"min (exclusive) < max (exclusive)": {
			node: func(t *testing.T) schema.Node {
				m := mocks.NewNode(t)
				min := constraint.NewMin([]byte("1"))
				min.SetExclusive(true)
				max := constraint.NewMax([]byte("2"))
				max.SetExclusive(true)
				m.On("Constraint", constraint.MinConstraintType).Return(min)
				m.On("Constraint", constraint.MaxConstraintType).Return(max)
				return m
			},
		},
		"min = max": {
			node: func(t *testing.T) schema.Node {
				m := mocks.NewNode(t)
				m.On("Constraint", constraint.MinConstraintType).Return(constraint.NewMin([]byte("1")))
				m.On("Constraint", constraint.MaxConstraintType).Return(constraint.NewMax([]byte("1")))
				return m
			},
		},
		"min (exclusive) = max": {
			node: func(t *testing.T) schema.Node {
				m := mocks.NewNode(t)
				min := constraint.NewMin([]byte("1"))
				min.SetExclusive(true)
				m.On("Constraint", constraint.MinConstraintType).Return(min)
				m.On("Constraint", constraint.MaxConstraintType).Return(constraint.NewMax([]byte("1")))
				return m
			},
			expectedErr: `Value of constraint "min" should be less than value of "max" constraint`,
		},
		"min = max (exclusive)": {
			node: func(t *testing.T) schema.Node {
				m := mocks.NewNode(t)
				max := constraint.NewMax([]byte("1"))
				max.SetExclusive(true)
				m.On("Constraint", constraint.MinConstraintType).Return(constraint.NewMin([]byte("1")))
				m.On("Constraint", constraint.MaxConstraintType).Return(max)
				return m
			},
			expectedErr: `Value of constraint "min" should be less than value of "max" constraint`,
		},
		"min (exclusive) = max (exclusive)": {
			node: func(t *testing.T) schema.Node {
				m := mocks.NewNode(t)
				min := constraint.NewMin([]byte("1"))
				min.SetExclusive(true)
				max := constraint.NewMax([]byte("1"))
				max.SetExclusive(true)
				m.On("Constraint", constraint.MinConstraintType).Return(min)
				m.On("Constraint", constraint.MaxConstraintType).Return(max)
				return m
			},
			expectedErr: `Value of constraint "min" should be less than value of "max" constraint`,
		},
		"min > max": {
			node: func(t *testing.T) schema.Node {
				m := mocks.NewNode(t)
				m.On("Constraint", constraint.MinConstraintType).Return(constraint.NewMin([]byte("2")))
				m.On("Constraint", constraint.MaxConstraintType).Return(constraint.NewMax([]byte("1")))
				return m
			},
			expectedErr: `Value of constraint "min" should be less or equal to value of "max" constraint`,
		},
		"min (exclusive) > max": {
			node: func(t *testing.T) schema.Node {
				m := mocks.NewNode(t)
				min := constraint.NewMin([]byte("2"))
				min.SetExclusive(true)
				m.On("Constraint", constraint.MinConstraintType).Return(min)
				m.On("Constraint", constraint.MaxConstraintType).Return(constraint.NewMax([]byte("1")))
				return m
			},
			expectedErr: `Value of constraint "min" should be less than value of "max" constraint`,
		},
		"min > max (exclusive)": {
			node: func(t *testing.T) schema.Node {
				m := mocks.NewNode(t)
				max := constraint.NewMax([]byte("1"))
				max.SetExclusive(true)
				m.On("Constraint", constraint.MinConstraintType).Return(constraint.NewMin([]byte("2")))
				m.On("Constraint", constraint.MaxConstraintType).Return(max)
				return m
			},
			expectedErr: `Value of constraint "min" should be less than value of "max" constraint`,
		},
		"min (exclusive) > max (exclusive)": {
			node: func(t *testing.T) schema.Node {
				m := mocks.NewNode(t)
				min := constraint.NewMin([]byte("2"))
				min.SetExclusive(true)
				max := constraint.NewMax([]byte("1"))
				max.SetExclusive(true)
				m.On("Constraint", constraint.MinConstraintType).Return(min)
				m.On("Constraint", constraint.MaxConstraintType).Return(max)
				return m
			},
			expectedErr: `Value of constraint "min" should be less than value of "max" constraint`,
		},
	}

	for n, c := range cc {
		t.Run(n, func(t *testing.T) {
			err := schemaCompiler{}.checkMinAndMax(c.node(t))
			if c.expectedErr != "" {
				assert.EqualError(t, err, c.expectedErr)
			} else {
				assert.NoError(t, err)
			}
		})
	}
}

func TestSchemaCompiler_checkMinLengthAndMaxLength(t *testing.T) {
	cc := map[string]struct {
		node        func(*testing.T) schema.Node
		expectedErr string
	}{
		"nil minLength, nil maxLength": {
			node: func(t *testing.T) schema.Node {
				m := mocks.NewNode(t)
				m.On("Constraint", constraint.MinLengthConstraintType).Return(nil)
				m.On("Constraint", constraint.MaxLengthConstraintType).Return(nil)
				return m
			},
		},
		"nil minLength, not nil maxLength": {
			node: func(t *testing.T) schema.Node {
				m := mocks.NewNode(t)
				m.On("Constraint", constraint.MinLengthConstraintType).Return(nil)
				m.On("Constraint", constraint.MaxLengthConstraintType).Return(constraint.NewMaxLength([]byte("42")))
				return m
			},
		},
		"not nil minLength, nil maxLength": {
			node: func(t *testing.T) schema.Node {
				m := mocks.NewNode(t)
				m.On("Constraint", constraint.MinLengthConstraintType).Return(constraint.NewMinLength([]byte("42")))
				m.On("Constraint", constraint.MaxLengthConstraintType).Return(nil)
				return m
			},
		},
		"minLength < maxLength": {
			node: func(t *testing.T) schema.Node {
				m := mocks.NewNode(t)
				m.On("Constraint", constraint.MinLengthConstraintType).Return(constraint.NewMinLength([]byte("1")))
				m.On("Constraint", constraint.MaxLengthConstraintType).Return(constraint.NewMaxLength([]byte("2")))
				return m
			},
		},
		"minLength = maxLength": {
			node: func(t *testing.T) schema.Node {
				m := mocks.NewNode(t)
				m.On("Constraint", constraint.MinLengthConstraintType).Return(constraint.NewMinLength([]byte("2")))
				m.On("Constraint", constraint.MaxLengthConstraintType).Return(constraint.NewMaxLength([]byte("2")))
				return m
			},
		},
		"minLength > maxLength": {
			node: func(t *testing.T) schema.Node {
				m := mocks.NewNode(t)
				m.On("Constraint", constraint.MinLengthConstraintType).Return(constraint.NewMinLength([]byte("2")))
				m.On("Constraint", constraint.MaxLengthConstraintType).Return(constraint.NewMaxLength([]byte("1")))
				return m
			},
			expectedErr: `Value of constraint "minLength" should be less or equal to value of "maxLength" constraint`,
		},
	}

	for n, c := range cc {
		t.Run(n, func(t *testing.T) {
			err := schemaCompiler{}.checkMinLengthAndMaxLength(c.node(t))
			if c.expectedErr != "" {
				assert.EqualError(t, err, c.expectedErr)
			} else {
				assert.NoError(t, err)
			}
		})
	}
}

func TestSchemaCompiler_checkMinItemsAndMaxItems(t *testing.T) {
	cc := map[string]struct {
		node        func(*testing.T) schema.Node
		expectedErr string
	}{
		"nil minItems, nil maxItems": {
			node: func(t *testing.T) schema.Node {
				m := mocks.NewNode(t)
				m.On("Constraint", constraint.MinItemsConstraintType).Return(nil)
				m.On("Constraint", constraint.MaxItemsConstraintType).Return(nil)
				return m
			},
		},
		"nil minItems, not nil maxItems": {
			node: func(t *testing.T) schema.Node {
				m := mocks.NewNode(t)
				m.On("Constraint", constraint.MinItemsConstraintType).Return(nil)
				m.On("Constraint", constraint.MaxItemsConstraintType).Return(constraint.NewMaxItems([]byte("42")))
				return m
			},
		},
		"not nil minItems, nil maxItems": {
			node: func(t *testing.T) schema.Node {
				m := mocks.NewNode(t)
				m.On("Constraint", constraint.MinItemsConstraintType).Return(constraint.NewMinItems([]byte("42")))
				m.On("Constraint", constraint.MaxItemsConstraintType).Return(nil)
				return m
			},
		},
		"minItems < maxItems": {
			node: func(t *testing.T) schema.Node {
				m := mocks.NewNode(t)
				m.On("Constraint", constraint.MinItemsConstraintType).Return(constraint.NewMinItems([]byte("1")))
				m.On("Constraint", constraint.MaxItemsConstraintType).Return(constraint.NewMaxItems([]byte("2")))
				return m
			},
		},
		"minItems = maxItems": {
			node: func(t *testing.T) schema.Node {
				m := mocks.NewNode(t)
				m.On("Constraint", constraint.MinItemsConstraintType).Return(constraint.NewMinItems([]byte("2")))
				m.On("Constraint", constraint.MaxItemsConstraintType).Return(constraint.NewMaxItems([]byte("2")))
				return m
			},
		},
		"minItems > maxItems": {
			node: func(t *testing.T) schema.Node {
				m := mocks.NewNode(t)
				m.On("Constraint", constraint.MinItemsConstraintType).Return(constraint.NewMinItems([]byte("2")))
				m.On("Constraint", constraint.MaxItemsConstraintType).Return(constraint.NewMaxItems([]byte("1")))
				return m
			},
			expectedErr: `Value of constraint "minItems" should be less or equal to value of "maxItems" constraint`,
		},
	}

	for n, c := range cc {
		t.Run(n, func(t *testing.T) {
			err := schemaCompiler{}.checkMinItemsAndMaxItems(c.node(t))
			if c.expectedErr != "" {
				assert.EqualError(t, err, c.expectedErr)
			} else {
				assert.NoError(t, err)
			}
		})
	}
}

func TestSchemaCompiler_precisionConstraint(t *testing.T) {
	t.Run("positive", func(t *testing.T) {
		cc := map[string]func(*mocks.Node){
			"without constraints": func(n *mocks.Node) {
				n.On("Constraint", constraint.PrecisionConstraintType).Return(nil)
			},
			"with only precision constraint": func(n *mocks.Node) {
				n.On("Constraint", constraint.PrecisionConstraintType).Return(constraint.Precision{})
				n.On("Constraint", constraint.TypeConstraintType).Return(nil)
			},
			"type is decimal": func(n *mocks.Node) {
				n.On("Constraint", constraint.PrecisionConstraintType).Return(constraint.Precision{})
				n.On("Constraint", constraint.TypeConstraintType).Return(constraint.NewType(
					[]byte("decimal"),
					jschema.RuleASTNodeSourceManual,
				))
			},
		}

		for name, fn := range cc {
			t.Run(name, func(t *testing.T) {
				n := mocks.NewNode(t)
				fn(n)
				schemaCompiler{}.precisionConstraint(n)
			})
		}
	})

	t.Run("negative", func(t *testing.T) {
		assert.PanicsWithError(t, `The "precision" constraint can't be used for the "foo" type`, func() {
			n := mocks.NewNode(t)
			n.On("Constraint", constraint.PrecisionConstraintType).Return(constraint.Precision{})
			n.On("Constraint", constraint.TypeConstraintType).Return(constraint.NewType(
				[]byte("foo"),
				jschema.RuleASTNodeSourceManual,
			))
			schemaCompiler{}.precisionConstraint(n)
		})
	})
}

func TestSchemaCompiler_emptyArray(t *testing.T) {
	t.Run("positive", func(t *testing.T) {
		cc := []schema.Node{
			nil,
			&schema.ObjectNode{},
			func() *schema.ArrayNode {
				n := &schema.ArrayNode{}
				n.Grow(newFakeLexEvent(lexeme.ArrayItemBegin))
				n.Grow(newFakeLexEventWithValue(lexeme.LiteralBegin, "foo"))
				return n
			}(),
			&schema.ArrayNode{},
			func() schema.Node {
				n := schema.NewNode(newFakeLexEvent(lexeme.ArrayBegin))
				n.AddConstraint(constraint.NewMinItems([]byte("0")))
				n.AddConstraint(constraint.NewMaxItems([]byte("0")))
				return n
			}(),
		}

		for i, given := range cc {
			t.Run(fmt.Sprintf("case %d", i), func(t *testing.T) {
				assert.NotPanics(t, func() {
					schemaCompiler{}.emptyArray(given)
				})
			})
		}
	})

	t.Run("negative", func(t *testing.T) {
		cc := map[string]schema.Node{
			"min": func() schema.Node {
				n := schema.NewNode(newFakeLexEvent(lexeme.ArrayBegin))
				n.AddConstraint(constraint.NewMinItems([]byte("1")))
				return n
			}(),
			"max": func() schema.Node {
				n := schema.NewNode(newFakeLexEvent(lexeme.ArrayBegin))
				n.AddConstraint(constraint.NewMaxItems([]byte("1")))
				return n
			}(),
		}

		for n, given := range cc {
			t.Run(n, func(t *testing.T) {
				assert.PanicsWithValue(t, errors.ErrIncorrectConstraintValueForEmptyArray, func() {
					schemaCompiler{}.emptyArray(given)
				})
			})
		}
	})
}

func BenchmarkSchemaCompiler_emptyArray(b *testing.B) {
	n := schema.NewNode(newFakeLexEvent(lexeme.ArrayBegin))
	n.AddConstraint(constraint.NewMinItems([]byte("0")))
	n.AddConstraint(constraint.NewMaxItems([]byte("0")))

	b.ReportAllocs()

	for i := 0; i < b.N; i++ {
		schemaCompiler{}.emptyArray(n)
	}
}
