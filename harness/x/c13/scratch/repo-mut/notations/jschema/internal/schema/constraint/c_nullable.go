package constraint

import (
	"strconv"

	jschema "github.com/jsightapi/jsight-schema-go-library"
	"github.com/jsightapi/jsight-schema-go-library/bytes"
	"github.com/jsightapi/jsight-schema-go-library/errors"
	"github.com/jsightapi/jsight-schema-go-library/internal/json"
)

type Nullable struct {
	value bool
}

var (
	_ Constraint = Nullable{}
	_ Constraint = (*Nullable)(nil)
	_ BoolKeeper = Nullable{}
	_ BoolKeeper = (*Nullable)(nil)
)

func NewNullable(ruleValue bytes.Bytes) *Nullable {
	c := Nullable{}

	var err error
	if c.value, err = ruleValue.ParseBool(); err != nil {
		panic(errors.Format(errors.ErrInvalidValueOfConstraint, NullableConstraintType.String()))
	}
	return &c
}

func (Nullable) IsJsonTypeCompatible(json.Type) bool {
	return true
}

func (Nullable) Type() Type {
	return NullableConstraintType
}

func (c Nullable) String() string {
	if c.value {
		return NullableConstraintType.String() + ": true"
	}
	return NullableConstraintType.String() + ": false"
}

func (c Nullable) Bool() bool {
	return c.value
}

func (c Nullable) ASTNode() jschema.RuleASTNode {
	return newRuleASTNode(jschema.TokenTypeBoolean, strconv.FormatBool(c.value), jschema.RuleASTNodeSourceManual)
}
