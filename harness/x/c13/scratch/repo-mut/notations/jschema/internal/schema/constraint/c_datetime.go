package constraint

import (
	"time"

	jschema "github.com/jsightapi/jsight-schema-go-library"
	"github.com/jsightapi/jsight-schema-go-library/bytes"
	"github.com/jsightapi/jsight-schema-go-library/errors"
	"github.com/jsightapi/jsight-schema-go-library/internal/json"
)

type DateTime struct{}

var (
	_ Constraint       = DateTime{}
	_ Constraint       = (*DateTime)(nil)
	_ LiteralValidator = DateTime{}
	_ LiteralValidator = (*DateTime)(nil)
)

func NewDateTime() *DateTime {
	return &DateTime{}
}

func (DateTime) IsJsonTypeCompatible(t json.Type) bool {
	return t == json.TypeString
}

func (DateTime) Type() Type {
	return DateTimeConstraintType
}

func (DateTime) String() string {
	return DateTimeConstraintType.String()
}

func (DateTime) Validate(value bytes.Bytes) {
	str := value.Unquote().String()
	_, err := time.Parse(time.RFC3339, str)
	if err != nil {
		panic(errors.ErrInvalidDateTime)
	}
}

func (DateTime) ASTNode() jschema.RuleASTNode {
	return newEmptyRuleASTNode()
}
