package constraint

import (
	"strconv"

	jschema "github.com/jsightapi/jsight-schema-go-library"
	"github.com/jsightapi/jsight-schema-go-library/bytes"
	"github.com/jsightapi/jsight-schema-go-library/errors"
	"github.com/jsightapi/jsight-schema-go-library/internal/json"
)

type MinLength struct {
	value uint
}

var (
	_ Constraint       = MinLength{}
	_ Constraint       = (*MinLength)(nil)
	_ LiteralValidator = MinLength{}
	_ LiteralValidator = (*MinLength)(nil)
)

func NewMinLength(ruleValue bytes.Bytes) *MinLength {
	return &MinLength{
		value: parseUint(ruleValue, MinLengthConstraintType),
	}
}

func (MinLength) IsJsonTypeCompatible(t json.Type) bool {
	return t == json.TypeString
}

func (MinLength) Type() Type {
	return MinLengthConstraintType
}

func (c MinLength) String() string {
	return MinLengthConstraintType.String() + ": " + strconv.FormatUint(uint64(c.value), 10)
}

func (c MinLength) Validate(value bytes.Bytes) {
	length := uint(len(value.Unquote()))
	if length < c.value {
		panic(errors.Format(
			errors.ErrConstraintStringLengthValidation,
			MinLengthConstraintType.String(),
			strconv.FormatUint(uint64(c.value), 10),
		))
	}
}

func (c MinLength) ASTNode() jschema.RuleASTNode {
	return newRuleASTNode(
		jschema.TokenTypeNumber,
		strconv.FormatUint(uint64(c.value), 10),
		jschema.RuleASTNodeSourceManual,
	)
}

func (c MinLength) Value() uint {
	return c.value
}
