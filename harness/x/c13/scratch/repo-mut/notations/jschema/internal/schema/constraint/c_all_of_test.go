package constraint

import (
	"fmt"
	"testing"

	"github.com/stretchr/testify/assert"

	jschema "github.com/jsightapi/jsight-schema-go-library"
	"github.com/jsightapi/jsight-schema-go-library/bytes"
	"github.com/jsightapi/jsight-schema-go-library/errors"
	"github.com/jsightapi/jsight-schema-go-library/internal/json"
)

func Test_NewAllOf(t *testing.T) {
	c := NewAllOf()
	assert.NotNil(t, c.schemaName)
}

func TestAllOf_IsJsonTypeCompatible(t *testing.T) {
	testIsJsonTypeCompatible(t, AllOf{}, json.TypeObject)
}

func TestAllOf_Type(t *testing.T) {
	assert.Equal(t, AllOfConstraintType, NewAllOf().Type())
}

func TestAllOf_String(t *testing.T) {
	c := NewAllOf()
	c.Append(bytes.Bytes(`"@foo"`))
	c.Append(bytes.Bytes(`"@bar"`))
	c.Append(bytes.Bytes(`"@fizz"`))
	c.Append(bytes.Bytes(`"@buzz"`))

	assert.Equal(t, fmt.Sprintf("%s: @foo, @bar, @fizz, @buzz", AllOfConstraintType), c.String())
}

func TestAllOf_Append(t *testing.T) {
	t.Run("positive", func(t *testing.T) {
		c := NewAllOf()
		assert.Equal(t, []string{}, c.schemaName)

		c.Append(bytes.Bytes(`"@foo"`))
		assert.Equal(t, []string{"@foo"}, c.schemaName)

		c.Append(bytes.Bytes(`"@bar"`))
		assert.Equal(t, []string{"@foo", "@bar"}, c.schemaName)
	})

	t.Run("negative", func(t *testing.T) {
		t.Run("not a string", func(t *testing.T) {
			assert.PanicsWithValue(t, errors.ErrUnacceptableValueInAllOfRule, func() {
				NewAllOf().Append(bytes.Bytes("@foo"))
			})
		})

		t.Run("not a type", func(t *testing.T) {
			assert.PanicsWithError(t, `Invalid schema name (foo) in "allOf" rule`, func() {
				NewAllOf().Append(bytes.Bytes(`"foo"`))
			})
		})
	})
}

func TestAllOf_SchemaNames(t *testing.T) {
	c := NewAllOf()
	c.Append(bytes.Bytes(`"@foo"`))
	c.Append(bytes.Bytes(`"@bar"`))
	c.Append(bytes.Bytes(`"@fizz"`))
	c.Append(bytes.Bytes(`"@buzz"`))

	assert.Equal(t, []string{"@foo", "@bar", "@fizz", "@buzz"}, c.SchemaNames())
}

func TestAllOf_ASTNode(t *testing.T) {
	cc := map[string]struct {
		setup    func() *AllOf
		expected jschema.RuleASTNode
	}{
		"none": {
			setup: func() *AllOf {
				return NewAllOf()
			},

			expected: jschema.RuleASTNode{
				TokenType:  jschema.TokenTypeArray,
				Properties: &jschema.RuleASTNodes{},
				Items:      []jschema.RuleASTNode{},
				Source:     jschema.RuleASTNodeSourceManual,
			},
		},

		"single": {
			setup: func() *AllOf {
				c := NewAllOf()
				c.Append(bytes.Bytes(`"@foo"`))
				return c
			},

			expected: jschema.RuleASTNode{
				TokenType:  jschema.TokenTypeShortcut,
				Properties: &jschema.RuleASTNodes{},
				Value:      "@foo",
				Source:     jschema.RuleASTNodeSourceManual,
			},
		},

		"multiple": {
			setup: func() *AllOf {
				c := NewAllOf()
				c.Append(bytes.Bytes(`"@foo"`))
				c.Append(bytes.Bytes(`"@bar"`))
				c.Append(bytes.Bytes(`"@fizz"`))
				c.Append(bytes.Bytes(`"@buzz"`))
				return c
			},

			expected: jschema.RuleASTNode{
				TokenType:  jschema.TokenTypeArray,
				Properties: &jschema.RuleASTNodes{},
				Items: []jschema.RuleASTNode{
					{
						TokenType:  jschema.TokenTypeShortcut,
						Value:      "@foo",
						Properties: &jschema.RuleASTNodes{},
						Source:     jschema.RuleASTNodeSourceManual,
					},
					{
						TokenType:  jschema.TokenTypeShortcut,
						Value:      "@bar",
						Properties: &jschema.RuleASTNodes{},
						Source:     jschema.RuleASTNodeSourceManual,
					},
					{
						TokenType:  jschema.TokenTypeShortcut,
						Value:      "@fizz",
						Properties: &jschema.RuleASTNodes{},
						Source:     jschema.RuleASTNodeSourceManual,
					},
					{
						TokenType:  jschema.TokenTypeShortcut,
						Value:      "@buzz",
						Properties: &jschema.RuleASTNodes{},
						Source:     jschema.RuleASTNodeSourceManual,
					},
				},
				Source: jschema.RuleASTNodeSourceManual,
			},
		},
	}

	for n, c := range cc {
		t.Run(n, func(t *testing.T) {
			assert.Equal(t, c.expected, c.setup().ASTNode())
		})
	}
}
