package constraint

import (
	"net/mail"

	jschema "github.com/jsightapi/jsight-schema-go-library"
	"github.com/jsightapi/jsight-schema-go-library/bytes"
	"github.com/jsightapi/jsight-schema-go-library/errors"
	"github.com/jsightapi/jsight-schema-go-library/internal/json"
)

type Email struct{}

var (
	_ Constraint       = Email{}
	_ Constraint       = (*Email)(nil)
	_ LiteralValidator = Email{}
	_ LiteralValidator = (*Email)(nil)
)

func NewEmail() *Email {
	return &Email{}
}

func (Email) IsJsonTypeCompatible(t json.Type) bool {
	return t == json.TypeString
}

func (Email) Type() Type {
	return EmailConstraintType
}

func (Email) String() string {
	return EmailConstraintType.String()
}

func (Email) Validate(email bytes.Bytes) {
	email = email.Unquote()

	if len(email) == 0 {
		panic(errors.ErrEmptyEmail)
	}

	char := email[0] // first char
	if char == ' ' || char == '<' {
		panic(errors.Format(errors.ErrInvalidEmail, email.String()))
	}

	char = email[len(email)-1] // last char
	if char == ' ' || char == '>' {
		panic(errors.Format(errors.ErrInvalidEmail, email.String()))
	}

	emailStr := email.String()

	_, err := mail.ParseAddress(emailStr)
	if err != nil {
		panic(errors.Format(errors.ErrInvalidEmail, emailStr))
	}
}

func (Email) ASTNode() jschema.RuleASTNode {
	return newEmptyRuleASTNode()
}
