package constraint

import (
	"testing"

	"github.com/stretchr/testify/assert"

	"github.com/jsightapi/jsight-schema-go-library/internal/json"
)

func testIsJsonTypeCompatible(t *testing.T, cnstr Constraint, compatible ...json.Type) {
	t.Helper()

	cc := map[json.Type]bool{
		json.TypeUndefined: false,
		json.TypeObject:    false,
		json.TypeArray:     false,
		json.TypeString:    false,
		json.TypeInteger:   false,
		json.TypeFloat:     false,
		json.TypeBoolean:   false,
		json.TypeNull:      false,
		json.TypeMixed:     false,
	}

	for _, jsonType := range compatible {
		cc[jsonType] = true
	}

	toString := func(t json.Type) string {
		if t == json.TypeUndefined {
			return "undefined"
		}
		return t.String()
	}

	for jsonType, expected := range cc {
		t.Run(toString(jsonType), func(t *testing.T) {
			actual := cnstr.IsJsonTypeCompatible(jsonType)
			assert.Equal(t, expected, actual)
		})
	}
}

var allJSONTypes = []json.Type{
	json.TypeUndefined,
	json.TypeObject,
	json.TypeArray,
	json.TypeString,
	json.TypeInteger,
	json.TypeFloat,
	json.TypeBoolean,
	json.TypeNull,
	json.TypeMixed,
}
