package loader

import (
	jschema "github.com/jsightapi/jsight-schema-go-library"
	"github.com/jsightapi/jsight-schema-go-library/errors"
	"github.com/jsightapi/jsight-schema-go-library/internal/json"
	"github.com/jsightapi/jsight-schema-go-library/internal/lexeme"
	"github.com/jsightapi/jsight-schema-go-library/notations/jschema/internal/schema"
	"github.com/jsightapi/jsight-schema-go-library/notations/jschema/internal/schema/constraint"
)

type orValueLoader struct {
	// A node to add type constraint.
	node schema.Node

	// A rootSchema into which types can be added from the "or" rule.
	rootSchema *schema.Schema

	// rules all available rules.
	rules map[string]jschema.Rule

	// stateFunc a function for running a state machine (the current state of the
	// state machine).
	stateFunc func(lexeme.LexEvent)

	// ruleSetLoader a loader for rule-set value. Ex: {type: "integer", min: 0}.
	ruleSetLoader *orRuleSetLoader

	// inProgress indicates are we already done or not.
	inProgress bool
}

var _ embeddedLoader = (*orValueLoader)(nil)

// newOrValueLoader creates loader for "or" rule value (array of rule-sets).
// Ex: [{type: "@typeName-1"}, "@typeName-2", {type: "integer", min: 0}]
func newOrValueLoader(
	node schema.Node,
	rootSchema *schema.Schema,
	rules map[string]jschema.Rule,
) *orValueLoader {
	a := &orValueLoader{
		node:       node,
		rootSchema: rootSchema,
		rules:      rules,
		inProgress: true,
	}
	a.stateFunc = a.begin
	return a
}

func (a *orValueLoader) Load(lex lexeme.LexEvent) bool {
	defer lexeme.CatchLexEventError(lex)
	if a.ruleSetLoader != nil {
		if !a.ruleSetLoader.Load(lex) {
			a.ruleSetLoader = nil
		}
	} else {
		a.stateFunc(lex)
	}
	return a.inProgress
}

// nodeTypesListConstraint returns TypesList constraint for node.
func (a *orValueLoader) nodeTypesListConstraint() *constraint.TypesList {
	c := a.node.Constraint(constraint.TypesListConstraintType)
	if c == nil {
		panic(errors.ErrLoader) // constraint not found
	}
	return c.(*constraint.TypesList)
}

// begin of array "["
func (a *orValueLoader) begin(lex lexeme.LexEvent) {
	if lex.Type() != lexeme.ArrayBegin {
		panic(errors.ErrArrayWasExpectedInOrRule)
	}
	a.stateFunc = a.itemBeginOrArrayEnd
}

// itemBeginOrArrayEnd begin of array item or array end
// ex: [{ <--
// ex: [" <--
// ex: ] <--
func (a *orValueLoader) itemBeginOrArrayEnd(lex lexeme.LexEvent) {
	switch lex.Type() {
	case lexeme.ArrayItemBegin:
		a.stateFunc = a.itemInner
	case lexeme.ArrayEnd:
		switch a.nodeTypesListConstraint().Len() {
		case 0:
			panic(errors.ErrEmptyArrayInOrRule)
		case 1:
			panic(errors.ErrOneElementInArrayInOrRule)
		}
		a.stateFunc = a.endOfLoading
		a.inProgress = false
	default:
		panic(errors.ErrLoader)
	}
}

// itemInner array item value (literal begin or object begin)
// ex: [{ <--
// ex: [" <--
func (a *orValueLoader) itemInner(lex lexeme.LexEvent) {
	switch lex.Type() {
	case lexeme.LiteralBegin:
		a.stateFunc = a.literal
	case lexeme.ObjectBegin:
		a.ruleSetLoader = newOrRuleSetLoader(a.node, a.rootSchema, a.rules)
		a.ruleSetLoader.Load(lex)
		a.stateFunc = a.itemEnd
	default:
		panic(errors.ErrIncorrectArrayItemTypeInOrRule) // ex: array
	}
}

// literal parse name of user or JSON type.
// ex: ["@type" <--
// ex: ["string" <--
func (a *orValueLoader) literal(lex lexeme.LexEvent) {
	if lex.Type() != lexeme.LiteralEnd {
		panic(errors.ErrLoader)
	}

	if json.Guess(lex.Value()).LiteralJsonType() != json.TypeString {
		panic(errors.ErrIncorrectArrayItemTypeInOrRule)
	}

	val := lex.Value().Unquote()
	valStr := val.String()

	c := a.nodeTypesListConstraint()
	if val.IsUserTypeName() {
		c.AddNameWithASTNode(valStr, valStr, jschema.RuleASTNode{
			TokenType:  jschema.TokenTypeShortcut,
			Value:      valStr,
			Properties: &jschema.RuleASTNodes{},
			Source:     jschema.RuleASTNodeSourceManual,
		})
	} else {
		root := schema.NewMixedNode(a.node.BasisLexEventOfSchemaForNode())
		root.AddConstraint(constraint.NewType(val, jschema.RuleASTNodeSourceManual))

		typ := schema.New()
		typ.SetRootNode(root)

		CompileBasic(&typ, false)

		lex := a.node.BasisLexEventOfSchemaForNode()
		name := a.rootSchema.AddUnnamedType(&typ, lex.File(), 0)

		a.
			nodeTypesListConstraint().
			AddName(name, string(root.SchemaType()), jschema.RuleASTNodeSourceManual)
	}

	a.stateFunc = a.itemEnd
}

// itemEnd array item end
// ex: ["@type" <--
// ex: [{...} <--
func (a *orValueLoader) itemEnd(lex lexeme.LexEvent) {
	if lex.Type() != lexeme.ArrayItemEnd {
		panic(errors.ErrLoader)
	}
	a.stateFunc = a.itemBeginOrArrayEnd
}

// endOfLoading the method should not be called during normal operation. Ensures
// that the loader will not continue to work after the load is complete.
func (*orValueLoader) endOfLoading(lexeme.LexEvent) {
	panic(errors.ErrLoader)
}
