package constraint

import (
	"strconv"

	jschema "github.com/jsightapi/jsight-schema-go-library"
	"github.com/jsightapi/jsight-schema-go-library/bytes"
	"github.com/jsightapi/jsight-schema-go-library/errors"
	"github.com/jsightapi/jsight-schema-go-library/internal/json"
)

type Const struct {
	nodeValue bytes.Bytes
	apply     bool
}

var (
	_ Constraint       = Const{}
	_ Constraint       = (*Const)(nil)
	_ BoolKeeper       = Const{}
	_ BoolKeeper       = (*Const)(nil)
	_ LiteralValidator = Const{}
	_ LiteralValidator = (*Const)(nil)
)

func NewConst(value, nodeValue bytes.Bytes) *Const {
	c := Const{
		nodeValue: nodeValue,
	}

	var err error
	if c.apply, err = value.ParseBool(); err != nil {
		panic(errors.Format(errors.ErrInvalidValueOfConstraint, ConstConstraintType.String()))
	}
	return &c
}

func (Const) IsJsonTypeCompatible(t json.Type) bool {
	return t != json.TypeObject && t != json.TypeArray
}

func (Const) Type() Type {
	return ConstConstraintType
}

func (c Const) String() string {
	if c.apply {
		return ConstConstraintType.String() + ": true"
	}
	return ConstConstraintType.String() + ": false"
}

func (c Const) Bool() bool {
	return c.apply
}

func (c Const) Validate(v bytes.Bytes) {
	if !c.apply {
		return
	}

	if !sameJSONValue(v, c.nodeValue) {
		panic(errors.Format(errors.ErrInvalidConst, c.nodeValue.String()))
	}
}

// sameJSONValue compares two scalar JSON tokens by value: strings after unquoting,
// numbers as exact decimals, everything else textually.
func sameJSONValue(a, b bytes.Bytes) bool {
	if a.InQuotes() && b.InQuotes() {
		return a.Unquote().Equals(b.Unquote())
	}
	if na, err := json.NewNumber(a); err == nil {
		if nb, err := json.NewNumber(b); err == nil {
			return na.Equal(nb)
		}
	}
	return a.String() == b.String()
}

func (c Const) ASTNode() jschema.RuleASTNode {
	return newRuleASTNode(jschema.TokenTypeBoolean, strconv.FormatBool(c.apply), jschema.RuleASTNodeSourceManual)
}
