package scanner

import (
	"testing"

	"github.com/stretchr/testify/assert"

	"github.com/jsightapi/jsight-schema-go-library/fs"
)

func TestScanner(t *testing.T) {
	cc := map[string][]operation{
		`  {  "key"  :  234  }  `: {
			assertLexVal("{"),
			assertLexVal(`"`), // opening quote
			assertLexVal(`"key"`),
			next(), // object value begin

			assertLexVal("2"), // first character of literal
			assertLexVal("234"),

			next(), // object value end

			assertLexVal(`{  "key"  :  234  }`),
		},

		`["str",false]`: {
			assertLexVal("["),

			next(), // array item begin

			assertLexVal(`"`), // opening quote
			assertLexVal(`"str"`),

			next(), // array item end
			next(), // array item begin

			assertLexVal("f"), // first character of the array item
			assertLexVal("false"),

			next(), // array item end

			assertLexVal(`["str",false]`),
		},

		"/* {} */": {
			assertLexVal("/*"),

			next(), // objBegin
			next(), // objEnd

			assertLexVal("/* {} */"),
		},

		"123 // { } - some comment\r\n": {
			assertLexVal("1"),
			assertLexVal("123"),
			assertLexVal("//"),
			assertLexVal("{"),
			assertLexVal("{ }"),
			assertLexVal("s"),
			assertLexVal("some comment"),
			assertLexVal("// { } - some comment"),
			assertLexVal("\r"),
			assertLexVal("\n"),
		},
	}

	for given, checkers := range cc {
		t.Run(given, func(t *testing.T) {
			file := fs.NewFile("", given)
			s := New(file)

			for _, c := range checkers {
				c.Check(t, s)
			}
		})
	}
}

type operation interface {
	Check(t *testing.T, s *Scanner)
}

type nextOperation struct{}

func next() nextOperation {
	return nextOperation{}
}

func (nextOperation) Check(t *testing.T, s *Scanner) {
	t.Helper()

	s.Next()
}

type assertLexValOperation struct {
	expected string
}

func assertLexVal(s string) assertLexValOperation {
	return assertLexValOperation{s}
}

func (c assertLexValOperation) Check(t *testing.T, s *Scanner) {
	t.Helper()

	lex, _ := s.Next()
	assert.Equal(t, c.expected, lex.Value().String())
}
