package constraint

import (
	jschema "github.com/jsightapi/jsight-schema-go-library"
	"github.com/jsightapi/jsight-schema-go-library/internal/json"
)

// Or constraint.
// Used for compile-time checking.
type Or struct {
	source jschema.RuleASTNodeSource
}

var (
	_ Constraint = Or{}
	_ Constraint = (*Or)(nil)
)

func NewOr(s jschema.RuleASTNodeSource) *Or {
	return &Or{
		source: s,
	}
}

func (c Or) IsGenerated() bool {
	return c.source == jschema.RuleASTNodeSourceGenerated
}

func (Or) IsJsonTypeCompatible(json.Type) bool {
	return true
}

func (Or) Type() Type {
	return OrConstraintType
}

func (Or) String() string {
	return "[ UNVERIFIABLE CONSTRAINT ] " + OrConstraintType.String()
}

func (Or) ASTNode() jschema.RuleASTNode {
	// Check `collectASTRules` function for the actual logic.
	return newEmptyRuleASTNode()
}
