package schema

import (
	"testing"

	"github.com/stretchr/testify/assert"
	"github.com/stretchr/testify/require"

	jschema "github.com/jsightapi/jsight-schema-go-library"
	"github.com/jsightapi/jsight-schema-go-library/fs"
	"github.com/jsightapi/jsight-schema-go-library/internal/json"
	"github.com/jsightapi/jsight-schema-go-library/internal/lexeme"
	"github.com/jsightapi/jsight-schema-go-library/notations/jschema/internal/schema/constraint"
)

func TestNewMixedValueNode(t *testing.T) {
	e := lexeme.NewLexEvent(lexeme.MixedValueBegin, 0, 0, nil)
	n := NewMixedValueNode(e)

	assert.Nil(t, n.parent)
	assert.Equal(t, json.TypeMixed, n.jsonType)
	assert.Equal(t, e, n.schemaLexEvent)
	assert.Equal(t, &Constraints{}, n.constraints)
}

func TestMixedValueNode_AddConstraint(t *testing.T) {
	t.Run("Type constraint", func(t *testing.T) {
		n := createFakeMixedValueNode()
		n.AddConstraint(createFakeTypeConstraint("@foo"))

		assert.Equal(t, []string{"@foo"}, n.types)
	})

	t.Run("Or constraint", func(t *testing.T) {
		n := createFakeMixedValueNode()
		n.AddConstraint(constraint.NewOr(jschema.RuleASTNodeSourceManual))

		assert.Equal(t, []string(nil), n.types)
	})

	t.Run("TypeList constraint", func(t *testing.T) {
		c := constraint.NewTypesList(jschema.RuleASTNodeSourceManual)
		c.AddName("@foo", "@foo", jschema.RuleASTNodeSourceManual)
		c.AddName("@bar", "@bar", jschema.RuleASTNodeSourceManual)

		n := createFakeMixedValueNode()
		n.AddConstraint(c)

		assert.Equal(t, []string{"@foo", "@bar"}, n.types)
	})
}

func TestMixedValueNode_addTypeConstraint(t *testing.T) {
	t.Run("not exists", func(t *testing.T) {
		const name = "@foo"
		n := createFakeMixedValueNode()
		n.addTypeConstraint(createFakeTypeConstraint(name))

		c, ok := n.baseNode.constraints.Get(constraint.TypeConstraintType)
		require.True(t, ok)
		require.IsType(t, &constraint.TypeConstraint{}, c)

		assert.Equal(t, name, c.(*constraint.TypeConstraint).Bytes().String())
	})

	t.Run("exists", func(t *testing.T) {
		cc := map[string]struct {
			exists             *constraint.TypeConstraint
			new                *constraint.TypeConstraint
			expected           *constraint.TypeConstraint
			expectedSchemaType string
		}{
			"equal, not mixed": {
				createFakeTypeConstraint("@foo"),
				createFakeTypeConstraint("@foo"),
				createFakeTypeConstraint("@foo"),
				"@foo",
			},
			"equal, mixed": {
				createFakeTypeConstraint("mixed"),
				createFakeTypeConstraint("mixed"),
				createFakeTypeConstraint("mixed"),
				"mixed",
			},
			"not equal, new is mixed": {
				createFakeTypeConstraint("@foo"),
				createFakeTypeConstraint("mixed"),
				createFakeTypeConstraint("mixed"),
				"mixed",
			},
		}

		for n, c := range cc {
			t.Run(n, func(t *testing.T) {
				n := createFakeMixedValueNode()
				n.schemaType = "should be changed"
				n.baseNode.AddConstraint(c.exists)

				n.addTypeConstraint(c.new)

				actual := n.baseNode.constraints.GetValue(constraint.TypeConstraintType)
				assert.Equal(t, c.expected, actual)
			})
		}

		t.Run("not equal, new isn't mixed", func(t *testing.T) {
			assert.PanicsWithError(t, `Duplicate "type" rule`, func() {
				n := createFakeMixedValueNode()
				n.schemaType = "should be changed"
				n.baseNode.AddConstraint(createFakeTypeConstraint("@foo"))

				n.addTypeConstraint(createFakeTypeConstraint("@bar"))
			})
		})
	})
}

func Test_addOrConstraint(t *testing.T) {
	t.Run("without type constraint", func(t *testing.T) {
		expected := constraint.NewOr(jschema.RuleASTNodeSourceManual)

		n := createFakeMixedValueNode()
		n.addOrConstraint(expected)

		actual := n.baseNode.constraints.GetValue(constraint.OrConstraintType)
		assert.Equal(t, expected, actual)
	})

	t.Run("with type constraint", func(t *testing.T) {
		expected := constraint.NewOr(jschema.RuleASTNodeSourceManual)

		n := createFakeMixedValueNode()
		n.baseNode.AddConstraint(createFakeTypeConstraint("@foo"))

		n.addOrConstraint(expected)

		actual := n.baseNode.constraints.GetValue(constraint.OrConstraintType)
		assert.Equal(t, expected, actual)

		actual = n.baseNode.constraints.GetValue(constraint.TypeConstraintType)
		assert.Equal(t, createFakeTypeConstraint(`"mixed"`), actual)
	})
}

func TestMixedValueNode_Grow(t *testing.T) {
	t.Run("positive", func(t *testing.T) {
		n := createFakeMixedValueNode()
		n.parent = newObjectNode(lexeme.NewLexEvent(lexeme.ObjectBegin, 0, 0, nil))

		cc := map[lexeme.LexEventType]Node{
			lexeme.MixedValueBegin: n,
			lexeme.MixedValueEnd:   n.parent,
		}

		for lexType, expected := range cc {
			t.Run(lexType.String(), func(t *testing.T) {
				actual, ok := n.Grow(lexeme.NewLexEvent(lexType, 0, 0, fs.NewFile("", "foo")))
				assert.Equal(t, expected, actual)
				assert.False(t, ok)
			})
		}
	})

	t.Run("negative", func(t *testing.T) {
		assert.PanicsWithValue(t,
			`Unexpected lexical event "`+lexeme.ObjectBegin.String()+`" in mixed value node`,
			func() {
				createFakeMixedValueNode().
					Grow(lexeme.NewLexEvent(lexeme.ObjectBegin, 0, 0, nil))
			},
		)
	})
}

func createFakeMixedValueNode() *MixedValueNode {
	return NewMixedValueNode(lexeme.NewLexEvent(lexeme.MixedValueBegin, 0, 0, nil))
}

func createFakeTypeConstraint(name string) *constraint.TypeConstraint {
	return constraint.NewType([]byte(name), jschema.RuleASTNodeSourceManual)
}
