package validator

import (
	"bytes"
	"reflect"
	"strings"

	jbytes "github.com/jsightapi/jsight-schema-go-library/bytes"
	"github.com/jsightapi/jsight-schema-go-library/errors"
	"github.com/jsightapi/jsight-schema-go-library/internal/lexeme"
	"github.com/jsightapi/jsight-schema-go-library/notations/jschema/internal/schema"
	"github.com/jsightapi/jsight-schema-go-library/notations/jschema/internal/schema/constraint"
)

// Validates json according to jSchema's ObjectNode.

type objectValidator struct {
	requiredKeys map[string]int

	// usedShortcuts key shortcuts already matched by a document key.
	usedShortcuts map[string]struct{}

	// node_ an object or mixed.
	node_   schema.Node
	parent_ validator

	// rootSchema the scheme from which it is possible to receive type by their
	// name.
	rootSchema      schema.Schema
	lastFoundKeyLex lexeme.LexEvent
}

func newObjectValidator(node schema.Node, parent validator, rootSchema schema.Schema) *objectValidator {
	switch node.(type) {
	case *schema.ObjectNode, *schema.MixedNode, *schema.MixedValueNode:
		v := objectValidator{
			node_:        node,
			parent_:      parent,
			rootSchema:   rootSchema,
			requiredKeys: make(map[string]int, 5),
		}
		v.initRequiredKeys()
		return &v
	default:
		panic(errors.ErrValidator)
	}
}

func (v *objectValidator) initRequiredKeys() {
	requiredKeysConstraint := v.node_.Constraint(constraint.RequiredKeysConstraintType)
	if requiredKeysConstraint != nil {
		for i, k := range requiredKeysConstraint.(*constraint.RequiredKeys).Keys() {
			v.requiredKeys[k] = i
		}
	}
}

func (v objectValidator) node() schema.Node {
	return v.node_
}

func (v objectValidator) parent() validator {
	return v.parent_
}

func (v *objectValidator) setParent(parent validator) {
	v.parent_ = parent
}

// feed returns array (pointers to validators, or nil if not found) and bool (true
// if validator is done).
func (v *objectValidator) feed(jsonLexeme lexeme.LexEvent) ([]validator, bool) {
	defer lexeme.CatchLexEventError(jsonLexeme)

	switch jsonLexeme.Type() { //nolint:exhaustive // We will throw a panic in over cases.
	case lexeme.ObjectBegin, lexeme.ObjectKeyBegin, lexeme.ObjectValueEnd:
		return nil, false

	case lexeme.ObjectKeyEnd:
		v.feedObjectKeyEnd(jsonLexeme)
		return nil, false

	case lexeme.ObjectValueBegin:
		return v.feedObjectValueBegin()

	case lexeme.ObjectEnd:
		if len(v.requiredKeys) != 0 {
			panic(errors.Format(errors.ErrRequiredKeyNotFound, v.requiredKeysString()))
		}
		return nil, true
	}

	panic(errors.ErrUnexpectedLexInObjectValidator)
}

func (v *objectValidator) feedObjectKeyEnd(jsonLexeme lexeme.LexEvent) {
	v.lastFoundKeyLex = jsonLexeme
	if _, ok := v.node_.(*schema.ObjectNode); !ok { // mixed node
		panic(lexeme.NewLexEventError(
			v.lastFoundKeyLex,
			errors.Format(errors.ErrSchemaDoesNotSupportKey, v.lastFoundKeyLex.Value().Unquote().String())),
		)
	}
	delete(v.requiredKeys, v.lastFoundKeyLex.Value().Unquote().String())
}

func (v *objectValidator) feedObjectValueBegin() ([]validator, bool) {
	objectNode, ok := v.node_.(*schema.ObjectNode)
	if !ok {
		panic(errors.ErrImpossible)
	}

	childNode, ok := objectNode.ChildByRawKey(v.lastFoundKeyLex.Value())
	if ok {
		return NodeValidatorList(childNode, v.rootSchema, v), false
	}

	// child node not found on schema object
	if key, ok := v.validateTypeRules(objectNode, v.lastFoundKeyLex.Value()); ok {
		child, ok := objectNode.ChildByRawKey([]byte(key))
		if ok {
			if v.usedShortcuts == nil {
				v.usedShortcuts = make(map[string]struct{}, 1)
			}
			v.usedShortcuts[key] = struct{}{}
			delete(v.requiredKeys, key)
			return NodeValidatorList(child, v.rootSchema, v), false
		}
	}
	if c := v.node_.Constraint(constraint.AdditionalPropertiesConstraintType); c != nil {
		return newAdditionalPropertiesValidator(v.node_, v, c.(*constraint.AdditionalProperties)), false
	}

	panic(lexeme.NewLexEventError(
		v.lastFoundKeyLex,
		errors.Format(errors.ErrSchemaDoesNotSupportKey, v.lastFoundKeyLex.Value().Unquote().String())),
	)
}

func (v objectValidator) requiredKeysString() string {
	keys := make([]string, 0, 5)
	for k := range v.requiredKeys {
		keys = append(keys, k)
	}
	return strings.Join(keys, ", ")
}

// validate with rules
func (v objectValidator) validateTypeRules(objectNode *schema.ObjectNode, value jbytes.Bytes) (string, bool) {
	// Key shortcuts are tried in declaration order; each admits one document key.
	for _, k := range objectNode.Keys().Data {
		if !k.IsShortcut {
			continue
		}
		key := k.Key
		if _, used := v.usedShortcuts[key]; used {
			continue
		}
		typ, ok := v.rootSchema.TypesList()[key]
		if !ok {
			continue
		}
		node := typ.Schema().RootNode()
		if node.Type().String() != "string" {
			panic(errors.Format(errors.ErrInvalidKeyType, v.requiredKeysString()))
		}

		flag := false
		inside := false
		i := 0

		node.ConstraintMap().EachSafe(func(_ constraint.Type, v constraint.Constraint) {
			inside = true
			if i == 0 {
				flag = true
			}
			flag = flag && checkConstraint(v, value)
			i++
		})

		if !inside {
			if bytes.Equal(node.Value(), value) {
				flag = true
			}
		}
		if flag {
			// all rules ok for a node
			return key, true
		}
	}
	return "", false
}

func checkConstraint(constr constraint.Constraint, value jbytes.Bytes) (b bool) {
	defer func() {
		if r := recover(); r != nil {
			b = false
		}
	}()

	switch ct := constr.(type) {
	case *constraint.MinLength:
		ct.Validate(value)
		return true
	case *constraint.MaxLength:
		ct.Validate(value)
		return true
	case *constraint.Regex:
		ct.Validate(value)
		return true
	case *constraint.Enum:
		ct.Validate(value)
		return true
	default:
		panic(errors.Format(errors.ErrUnknownRule, reflect.TypeOf(constr)))
	}
}
