package checker

import (
	"github.com/jsightapi/jsight-schema-go-library/errors"
	"github.com/jsightapi/jsight-schema-go-library/internal/lexeme"
)

type objectChecker struct{}

func newObjectChecker() objectChecker {
	return objectChecker{}
}

func (objectChecker) Check(nodeLex lexeme.LexEvent) errors.Error {
	if nodeLex.Type() != lexeme.ObjectEnd {
		return lexeme.NewLexEventError(nodeLex, errors.ErrChecker)
	}

	return nil
}
