package loader

import (
	jschema "github.com/jsightapi/jsight-schema-go-library"
	"github.com/jsightapi/jsight-schema-go-library/errors"
	"github.com/jsightapi/jsight-schema-go-library/internal/lexeme"
	"github.com/jsightapi/jsight-schema-go-library/notations/jschema/internal/schema"
	"github.com/jsightapi/jsight-schema-go-library/notations/jschema/internal/schema/constraint"
)

// ruleLoader responsible for creating constraints for SCHEMA internal representation
// nodes from the RULES described in the SCHEMA file.
type ruleLoader struct {
	// A node to add constraint.
	node schema.Node

	// rootSchema a scheme into which types can be added from the "or" rule.
	rootSchema *schema.Schema

	// rules all available rules.
	rules map[string]jschema.Rule

	// stateFunc a function for running a state machine (the current state of the
	// state machine) to parse RULE that occur in the schema.
	stateFunc func(lexeme.LexEvent)

	// embeddedValueLoader a loader for "or" and "enum" value.
	embeddedValueLoader embeddedLoader

	// ruleNameLex the last found object key.
	ruleNameLex lexeme.LexEvent

	// nodesPerCurrentLineCount the number of nodes in a line. To check because
	// the rule cannot be added if there is more than one node suitable for this
	// in the row.
	nodesPerCurrentLineCount uint
}

func newRuleLoader(
	node schema.Node,
	nodesPerCurrentLineCount uint,
	rootSchema *schema.Schema,
	rules map[string]jschema.Rule,
) *ruleLoader {
	rl := &ruleLoader{
		node:                     node,
		rootSchema:               rootSchema,
		nodesPerCurrentLineCount: nodesPerCurrentLineCount,
		rules:                    rules,
	}
	rl.stateFunc = rl.begin
	return rl
}

func (rl *ruleLoader) load(lex lexeme.LexEvent) {
	defer lexeme.CatchLexEventError(lex)
	rl.stateFunc(lex)
}

func (rl *ruleLoader) begin(lex lexeme.LexEvent) {
	switch lex.Type() {
	case lexeme.NewLine:
		// Do nothing

	case lexeme.InlineAnnotationTextBegin, lexeme.MultiLineAnnotationTextBegin:
		rl.stateFunc = rl.commentTextEnd

	case lexeme.ObjectBegin:
		rl.stateFunc = rl.ruleKeyOrObjectEnd

	default:
		panic(errors.ErrLoader)
	}
}

func (rl *ruleLoader) commentTextBegin(lex lexeme.LexEvent) {
	switch lex.Type() {
	case lexeme.NewLine:
		// Do nothing keep waiting for annotation start.

	case lexeme.InlineAnnotationTextBegin, lexeme.MultiLineAnnotationTextBegin:
		rl.stateFunc = rl.commentTextEnd
	default:
		panic(errors.ErrLoader)
	}
}

func (rl *ruleLoader) commentTextEnd(lex lexeme.LexEvent) {
	switch lex.Type() {
	case lexeme.InlineAnnotationTextEnd, lexeme.MultiLineAnnotationTextEnd:
		if rl.node != nil {
			rl.node.SetComment(lex.Value().TrimSpaces().String())
		}
		rl.stateFunc = rl.endOfLoading
	default:
		panic(errors.ErrLoader)
	}
}

func (rl *ruleLoader) ruleKeyOrObjectEnd(lex lexeme.LexEvent) {
	switch lex.Type() {
	case lexeme.ObjectKeyBegin, lexeme.NewLine:
	case lexeme.ObjectKeyEnd:
		rl.ruleNameLex = lex
		rl.stateFunc = rl.ruleValueBegin
	case lexeme.ObjectEnd:
		rl.stateFunc = rl.commentTextBegin
	default:
		panic(errors.ErrLoader)
	}
}

func (rl *ruleLoader) objectEndAfterRuleName(lex lexeme.LexEvent) {
	switch lex.Type() {
	case lexeme.ObjectKeyBegin, lexeme.ObjectValueEnd, lexeme.NewLine:
	case lexeme.ObjectKeyEnd:
		rl.ruleNameLex = lex
		rl.stateFunc = rl.ruleValueBegin
	case lexeme.ObjectEnd:
		rl.stateFunc = rl.commentTextBegin
	default:
		panic(errors.ErrLoader)
	}
}

func (rl *ruleLoader) ruleValueBegin(lex lexeme.LexEvent) {
	if lex.Type() == lexeme.NewLine {
		// A line break between "name:" and the value, as everywhere else in a rule object.
		return
	}
	if lex.Type() != lexeme.ObjectValueBegin {
		panic(errors.ErrLoader)
	}
	rl.stateFunc = rl.ruleValue
}

func (rl *ruleLoader) ruleValue(lex lexeme.LexEvent) {
	if rl.nodesPerCurrentLineCount == 0 {
		panic(errors.ErrIncorrectRuleWithoutExample)
	} else if rl.nodesPerCurrentLineCount != 1 {
		panic(errors.ErrIncorrectRuleForSeveralNode)
	}

	ruleName := rl.ruleNameLex.Value().TrimSpaces().Unquote().String()

	switch ruleName {
	case "or":
		rl.node.AddConstraint(constraint.NewTypesList(jschema.RuleASTNodeSourceManual))
		rl.node.AddConstraint(constraint.NewOr(jschema.RuleASTNodeSourceManual)) // Used for compile-time checking.
		rl.embeddedValueLoader = newOrValueLoader(rl.node, rl.rootSchema, rl.rules)
		rl.stateFunc = rl.loadEmbeddedValue
		rl.stateFunc(lex)

	case "enum":
		enumConstraint := constraint.NewEnum()
		rl.node.AddConstraint(enumConstraint)
		rl.embeddedValueLoader = newEnumValueLoader(enumConstraint, rl.rules)
		rl.stateFunc = rl.loadEmbeddedValue
		rl.stateFunc(lex)

	case "allOf":
		allOfConstraint := constraint.NewAllOf()
		rl.node.AddConstraint(allOfConstraint)
		rl.embeddedValueLoader = newAllOfValueLoader(allOfConstraint)
		rl.stateFunc = rl.loadEmbeddedValue
		rl.stateFunc(lex)

	default:
		if lex.Type() != lexeme.LiteralBegin {
			panic(errors.ErrIncorrectRuleValueType)
		}

		rl.stateFunc = rl.ruleValueLiteral
	}
}

func (rl *ruleLoader) ruleValueLiteral(ruleValue lexeme.LexEvent) {
	if ruleValue.Type() != lexeme.LiteralEnd {
		panic(errors.ErrLoader)
	}
	c := constraint.NewConstraintFromRule(rl.ruleNameLex, ruleValue.Value(), rl.node.Value()) // can panic
	rl.node.AddConstraint(c)

	rl.stateFunc = rl.ruleValueEnd
}

func (rl *ruleLoader) loadEmbeddedValue(lex lexeme.LexEvent) {
	if lex.Type() == lexeme.NewLine {
		return
	}
	if !rl.embeddedValueLoader.Load(lex) {
		rl.embeddedValueLoader = nil
		rl.stateFunc = rl.ruleValueEnd
	}
}

func (rl *ruleLoader) ruleValueEnd(lex lexeme.LexEvent) {
	switch lex.Type() {
	case lexeme.ObjectValueEnd:
		rl.stateFunc = rl.ruleKeyOrObjectEnd
	case lexeme.MixedValueEnd:
		rl.stateFunc = rl.objectEndAfterRuleName
	default:
		panic(errors.ErrLoader)
	}
}

// The method should not be called during normal operation. Ensures that the loader will not continue to work after the load is complete.
func (*ruleLoader) endOfLoading(lexeme.LexEvent) {
	panic(errors.ErrLoader)
}
