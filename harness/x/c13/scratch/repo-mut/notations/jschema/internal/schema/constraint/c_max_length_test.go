package constraint

import (
	"testing"

	"github.com/stretchr/testify/assert"

	jschema "github.com/jsightapi/jsight-schema-go-library"
	"github.com/jsightapi/jsight-schema-go-library/bytes"
	"github.com/jsightapi/jsight-schema-go-library/internal/json"
)

func TestNewMaxLength(t *testing.T) {
	t.Run("positive", func(t *testing.T) {
		cnstr := NewMaxLength([]byte("10"))

		assert.EqualValues(t, 10, cnstr.value)
	})

	t.Run("negative", func(t *testing.T) {
		ss := []string{
			"not a number",
			"3.14",
			"-12",
		}

		for _, s := range ss {
			t.Run(s, func(t *testing.T) {
				assert.PanicsWithError(t, `Invalid value of "maxLength" constraint`, func() {
					NewMaxLength([]byte(s))
				})
			})
		}
	})
}

func TestMaxLength_IsJsonTypeCompatible(t *testing.T) {
	testIsJsonTypeCompatible(t, MaxLength{}, json.TypeString)
}

func TestMaxLength_Type(t *testing.T) {
	assert.Equal(t, MaxLengthConstraintType, NewMaxLength(bytes.Bytes("1")).Type())
}

func TestMaxLength_String(t *testing.T) {
	assert.Equal(t, "maxLength: 1", NewMaxLength([]byte("1")).String())
}

func TestMaxLength_Validate(t *testing.T) {
	t.Run("positive", func(t *testing.T) {
		cc := []string{
			"",
			"foo",
			"0123456789",
		}

		for _, given := range cc {
			t.Run(given, func(t *testing.T) {
				assert.NotPanics(t, func() {
					NewMaxLength([]byte("10")).Validate([]byte(given))
				})
			})
		}
	})

	t.Run("negative", func(t *testing.T) {
		assert.PanicsWithError(t, `Invalid string length for "maxLength" = "10" constraint`, func() {
			NewMaxLength([]byte("10")).Validate([]byte("0123456789A"))
		})
	})
}

func TestMaxLength_ASTNode(t *testing.T) {
	assert.Equal(t, jschema.RuleASTNode{
		TokenType:  jschema.TokenTypeNumber,
		Value:      "1",
		Properties: &jschema.RuleASTNodes{},
		Source:     jschema.RuleASTNodeSourceManual,
	}, NewMaxLength(bytes.Bytes("1")).ASTNode())
}

func TestMaxLength_Value(t *testing.T) {
	assert.Equal(t, uint(1), NewMaxLength([]byte("1")).Value())
}
