package constraint

import (
	"fmt"
	"testing"

	"github.com/stretchr/testify/assert"

	jschema "github.com/jsightapi/jsight-schema-go-library"
)

func TestNewTypesList(t *testing.T) {
	c := NewTypesList(jschema.RuleASTNodeSourceGenerated)

	assert.NotNil(t, c.innerTypeNames)
	assert.Equal(t, jschema.RuleASTNodeSourceGenerated, c.source)
}

func TestTypesList_HasUserTypes(t *testing.T) {
	cc := []bool{
		false,
		true,
	}

	for _, given := range cc {
		t.Run(fmt.Sprintf("%t", given), func(t *testing.T) {
			assert.Equal(t, given, TypesList{hasUserTypes: given}.HasUserTypes())
		})
	}
}

func TestTypesList_IsJsonTypeCompatible(t *testing.T) {
	testIsJsonTypeCompatible(t, TypesList{}, allJSONTypes...)
}

func TestTypesList_Type(t *testing.T) {
	assert.Equal(t, TypesListConstraintType, NewTypesList(jschema.RuleASTNodeSourceManual).Type())
}

func TestTypesList_String(t *testing.T) {
	c := NewTypesList(jschema.RuleASTNodeSourceManual)
	c.innerTypeNames = []string{"foo", "bar"}

	assert.Equal(t, "types: foo, bar", c.String())
}

func TestTypesList_AddName(t *testing.T) {
	c := NewTypesList(jschema.RuleASTNodeSourceManual)
	c.AddName("@foo", "bar", jschema.RuleASTNodeSourceGenerated)

	assert.Equal(t, []string{"@foo"}, c.innerTypeNames)
	assert.Equal(t, []string{"bar"}, c.typeNames)
	assert.Equal(t, []jschema.RuleASTNode{
		{
			TokenType:  jschema.TokenTypeString,
			Value:      "bar",
			Properties: &jschema.RuleASTNodes{},
			Source:     jschema.RuleASTNodeSourceGenerated,
		},
	}, c.elementASTNodes)
	assert.True(t, c.hasUserTypes)
}

func TestTypesList_AddNameWithASTNode(t *testing.T) {
	an := jschema.RuleASTNode{
		TokenType: jschema.TokenTypeString,
	}

	c := NewTypesList(jschema.RuleASTNodeSourceManual)
	c.AddNameWithASTNode("@foo", "bar", an)

	assert.Equal(t, []string{"@foo"}, c.innerTypeNames)
	assert.Equal(t, []string{"bar"}, c.typeNames)
	assert.Equal(t, []jschema.RuleASTNode{an}, c.elementASTNodes)
	assert.True(t, c.hasUserTypes)
}

func TestTypesList_Names(t *testing.T) {
	c := NewTypesList(jschema.RuleASTNodeSourceManual)
	c.innerTypeNames = []string{"foo", "bar"}

	assert.Equal(t, []string{"foo", "bar"}, c.Names())
}

func TestTypesList_Len(t *testing.T) {
	c := NewTypesList(jschema.RuleASTNodeSourceManual)
	c.innerTypeNames = []string{"foo", "bar"}

	assert.Equal(t, 2, c.Len())
}

func TestTypesList_ASTNode(t *testing.T) {
	l := NewTypesList(jschema.RuleASTNodeSourceManual)

	an := jschema.RuleASTNode{
		TokenType: jschema.TokenTypeObject,
		Properties: jschema.NewRuleASTNodes(
			map[string]jschema.RuleASTNode{
				"type": newRuleASTNode(jschema.TokenTypeString, "foo", jschema.RuleASTNodeSourceManual),
			},
			[]string{"type"},
		),
	}

	l.AddNameWithASTNode("foo", "foo", an)
	l.AddName("bar", "bar", jschema.RuleASTNodeSourceManual)

	assert.Equal(t, jschema.RuleASTNode{
		TokenType:  jschema.TokenTypeArray,
		Properties: &jschema.RuleASTNodes{},
		Items: []jschema.RuleASTNode{
			an,
			{
				TokenType:  jschema.TokenTypeString,
				Value:      "bar",
				Properties: &jschema.RuleASTNodes{},
				Source:     jschema.RuleASTNodeSourceManual,
			},
		},
		Source: jschema.RuleASTNodeSourceManual,
	}, l.ASTNode())
}

func TestTypesList_Source(t *testing.T) {
	assert.Equal(t, jschema.RuleASTNodeSourceManual, NewTypesList(jschema.RuleASTNodeSourceManual).Source())
}
