package constraint

import (
	jschema "github.com/jsightapi/jsight-schema-go-library"
	"github.com/jsightapi/jsight-schema-go-library/bytes"
	"github.com/jsightapi/jsight-schema-go-library/errors"
	"github.com/jsightapi/jsight-schema-go-library/internal/json"
)

type Min struct {
	min       *json.Number
	rawValue  bytes.Bytes
	exclusive bool
}

var (
	_ Constraint       = Min{}
	_ Constraint       = (*Min)(nil)
	_ LiteralValidator = Min{}
	_ LiteralValidator = (*Min)(nil)
)

func NewMin(ruleValue bytes.Bytes) *Min {
	number, err := json.NewNumber(ruleValue)
	if err != nil {
		panic(err)
	}

	return &Min{
		rawValue: ruleValue,
		min:      number,
	}
}

func (Min) IsJsonTypeCompatible(t json.Type) bool {
	return t == json.TypeInteger || t == json.TypeFloat
}

func (Min) Type() Type {
	return MinConstraintType
}

func (c Min) String() string {
	str := MinConstraintType.String() + ": " + c.min.String()
	if c.exclusive {
		return str + " (exclusive: true)"
	}
	return str
}

func (c *Min) SetExclusive(exclusive bool) {
	c.exclusive = exclusive
}

func (c *Min) Exclusive() bool {
	return c.exclusive
}

func (c Min) Validate(value bytes.Bytes) {
	jsonNumber, err := json.NewNumber(value)
	if err != nil {
		panic(err)
	}
	if c.exclusive {
		if c.min.GreaterThanOrEqual(jsonNumber) {
			panic(errors.Format(
				errors.ErrConstraintValidation,
				MinConstraintType.String(),
				c.min.String(),
				"(exclusive)",
			))
		}
	} else {
		if c.min.GreaterThan(jsonNumber) {
			panic(errors.Format(errors.ErrConstraintValidation, MinConstraintType.String(), c.min.String(), ""))
		}
	}
}

func (c Min) ASTNode() jschema.RuleASTNode {
	return newRuleASTNode(jschema.TokenTypeNumber, c.rawValue.String(), jschema.RuleASTNodeSourceManual)
}

func (c *Min) Value() *json.Number {
	return c.min
}
