package constraint

import (
	"strconv"

	jschema "github.com/jsightapi/jsight-schema-go-library"
	"github.com/jsightapi/jsight-schema-go-library/bytes"
	"github.com/jsightapi/jsight-schema-go-library/errors"
	"github.com/jsightapi/jsight-schema-go-library/internal/json"
)

type Optional struct {
	value bool
}

var (
	_ Constraint = Optional{}
	_ Constraint = (*Optional)(nil)
	_ BoolKeeper = Optional{}
	_ BoolKeeper = (*Optional)(nil)
)

func NewOptional(ruleValue bytes.Bytes) *Optional {
	c := Optional{}

	var err error
	if c.value, err = ruleValue.ParseBool(); err != nil {
		panic(errors.Format(errors.ErrInvalidValueOfConstraint, OptionalConstraintType.String()))
	}
	return &c
}

func (Optional) IsJsonTypeCompatible(json.Type) bool {
	return true
}

func (Optional) Type() Type {
	return OptionalConstraintType
}

func (c Optional) String() string {
	str := "[ UNVERIFIABLE CONSTRAINT ] " + OptionalConstraintType.String()
	if c.value {
		str += ": true"
	} else {
		str += ": false"
	}
	return str
}

func (c Optional) Bool() bool {
	return c.value
}

func (c Optional) ASTNode() jschema.RuleASTNode {
	return newRuleASTNode(jschema.TokenTypeBoolean, strconv.FormatBool(c.value), jschema.RuleASTNodeSourceManual)
}
