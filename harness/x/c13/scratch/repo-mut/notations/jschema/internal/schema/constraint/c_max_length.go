package constraint

import (
	"strconv"

	jschema "github.com/jsightapi/jsight-schema-go-library"
	"github.com/jsightapi/jsight-schema-go-library/bytes"
	"github.com/jsightapi/jsight-schema-go-library/errors"
	"github.com/jsightapi/jsight-schema-go-library/internal/json"
)

type MaxLength struct {
	value uint
}

var (
	_ Constraint       = MaxLength{}
	_ Constraint       = (*MaxLength)(nil)
	_ LiteralValidator = MaxLength{}
	_ LiteralValidator = (*MaxLength)(nil)
)

func NewMaxLength(ruleValue bytes.Bytes) *MaxLength {
	return &MaxLength{
		value: parseUint(ruleValue, MaxLengthConstraintType),
	}
}

func (MaxLength) IsJsonTypeCompatible(t json.Type) bool {
	return t == json.TypeString
}

func (MaxLength) Type() Type {
	return MaxLengthConstraintType
}

func (c MaxLength) String() string {
	return MaxLengthConstraintType.String() + ": " + strconv.FormatUint(uint64(c.value), 10)
}

func (c MaxLength) Validate(value bytes.Bytes) {
	length := uint(len(value.Unquote()))
	if length > c.value {
		panic(errors.Format(
			errors.ErrConstraintStringLengthValidation,
			MaxLengthConstraintType.String(),
			strconv.FormatUint(uint64(c.value), 10),
		))
	}
}

func (c MaxLength) ASTNode() jschema.RuleASTNode {
	return newRuleASTNode(
		jschema.TokenTypeNumber,
		strconv.FormatUint(uint64(c.value), 10),
		jschema.RuleASTNodeSourceManual,
	)
}

func (c MaxLength) Value() uint {
	return c.value
}
