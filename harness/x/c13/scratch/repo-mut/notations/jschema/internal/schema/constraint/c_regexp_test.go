package constraint

import (
	"testing"

	"github.com/stretchr/testify/assert"

	jschema "github.com/jsightapi/jsight-schema-go-library"
	"github.com/jsightapi/jsight-schema-go-library/bytes"
	"github.com/jsightapi/jsight-schema-go-library/errors"
	"github.com/jsightapi/jsight-schema-go-library/internal/json"
)

func TestNewRegex(t *testing.T) {
	t.Run("positive", func(t *testing.T) {
		c := NewRegex([]byte(`"."`))

		assert.Equal(t, ".", c.expression)
		assert.NotNil(t, c.re)
	})

	t.Run("negative", func(t *testing.T) {
		t.Run("invalid JSON", func(t *testing.T) {
			assert.PanicsWithError(t, "invalid character 'i' looking for beginning of value", func() {
				NewRegex([]byte("invalid"))
			})
		})

		t.Run("invalid expression", func(t *testing.T) {
			assert.PanicsWithValue(t, "regexp: Compile(`\\l`): error parsing regexp: invalid escape sequence: `\\l`", func() {
				NewRegex([]byte(`"\\l"`))
			})
		})
	})
}

func TestRegex_IsJsonTypeCompatible(t *testing.T) {
	testIsJsonTypeCompatible(t, Regex{}, json.TypeString)
}

func TestRegexp_Type(t *testing.T) {
	assert.Equal(t, RegexConstraintType, NewRegex(bytes.Bytes(`"."`)).Type())
}

func TestRegex_String(t *testing.T) {
	assert.Equal(t, `regex: .`, NewRegex([]byte(`"."`)).String())
}

func TestRegex_Validate(t *testing.T) {
	cnstr := NewRegex([]byte(`"foo-\\d"`))

	t.Run("valid", func(t *testing.T) {
		assert.NotPanics(t, func() {
			cnstr.Validate([]byte("foo-9"))
		})
	})

	t.Run("not valid", func(t *testing.T) {
		assert.PanicsWithValue(t, errors.ErrDoesNotMatchRegularExpression, func() {
			cnstr.Validate([]byte("foo-"))
		})
	})
}

func TestRegexp_ASTNode(t *testing.T) {
	assert.Equal(t, jschema.RuleASTNode{
		TokenType:  jschema.TokenTypeString,
		Value:      "foo",
		Properties: &jschema.RuleASTNodes{},
		Source:     jschema.RuleASTNodeSourceManual,
	}, Regex{expression: "foo"}.ASTNode())
}
