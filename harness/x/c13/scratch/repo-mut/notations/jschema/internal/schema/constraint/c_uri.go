package constraint

import (
	"net/url"

	jschema "github.com/jsightapi/jsight-schema-go-library"
	"github.com/jsightapi/jsight-schema-go-library/bytes"
	"github.com/jsightapi/jsight-schema-go-library/errors"
	"github.com/jsightapi/jsight-schema-go-library/internal/json"
)

type Uri struct{}

var (
	_ Constraint       = Uri{}
	_ Constraint       = (*Uri)(nil)
	_ LiteralValidator = Uri{}
	_ LiteralValidator = (*Uri)(nil)
)

func NewUri() *Uri {
	return &Uri{}
}

func (Uri) IsJsonTypeCompatible(t json.Type) bool {
	return t == json.TypeString
}

func (Uri) Type() Type {
	return UriConstraintType
}

func (Uri) String() string {
	return UriConstraintType.String()
}

func (Uri) Validate(value bytes.Bytes) {
	val := value.Unquote().String()
	u, err := url.ParseRequestURI(val)
	if err != nil || !u.IsAbs() || u.Hostname() == "" {
		panic(errors.Format(errors.ErrInvalidUri, val))
	}
}

func (Uri) ASTNode() jschema.RuleASTNode {
	return newEmptyRuleASTNode()
}
