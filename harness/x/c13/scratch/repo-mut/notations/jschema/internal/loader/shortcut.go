package loader

import (
	"strings"

	jschema "github.com/jsightapi/jsight-schema-go-library"
	"github.com/jsightapi/jsight-schema-go-library/bytes"
	"github.com/jsightapi/jsight-schema-go-library/errors"
	"github.com/jsightapi/jsight-schema-go-library/internal/lexeme"
	"github.com/jsightapi/jsight-schema-go-library/notations/jschema/internal/schema"
	"github.com/jsightapi/jsight-schema-go-library/notations/jschema/internal/schema/constraint"
)

func addShortcutConstraint(node schema.Node, rootSchema *schema.Schema, lex lexeme.LexEvent) error {
	if lex.Type() != lexeme.TypesShortcutEnd {
		return errors.ErrLoader
	}

	// At this point lexeme value is valid, and we can safely use it.
	// Lexeme value examples:
	// - @foo
	// - @foo | @bar

	// Determines which constraint should be used.
	val := lex.Value().String()

	if strings.ContainsRune(val, '|') {
		addORShortcut(node, rootSchema, val)
	} else {
		addTypeShortcut(node, val)
	}
	return nil
}

func addORShortcut(node schema.Node, rootSchema *schema.Schema, val string) {
	// At this point lexeme value is valid, and we can safely use it.
	// Lexeme value example: "@foo | @bar"

	ss := constraint.NewTypesList(jschema.RuleASTNodeSourceGenerated)
	for _, s := range strings.Split(val, "|") {
		typ := schema.New()
		typ.SetRootNode(node)

		CompileBasic(&typ, true)

		lex := node.BasisLexEventOfSchemaForNode()
		rootSchema.AddUnnamedType(&typ, lex.File(), 0)

		s = strings.TrimSpace(s)
		ss.AddName(s, s, jschema.RuleASTNodeSourceGenerated)
	}

	node.AddConstraint(ss)
	node.AddConstraint(constraint.NewOr(jschema.RuleASTNodeSourceGenerated))
}

func addTypeShortcut(node schema.Node, val string) {
	node.AddConstraint(constraint.NewType(
		bytes.Bytes(strings.TrimSpace(val)),
		jschema.RuleASTNodeSourceGenerated,
	))
}
