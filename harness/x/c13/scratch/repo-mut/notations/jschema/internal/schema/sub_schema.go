package schema

import (
	"github.com/jsightapi/jsight-schema-go-library/bytes"
	"github.com/jsightapi/jsight-schema-go-library/fs"
)

type Type struct {
	schema   *Schema
	rootFile *fs.File
	begin    bytes.Index
}

func (s *Type) Schema() *Schema {
	return s.schema
}

func (s *Type) RootFile() *fs.File {
	return s.rootFile
}

func (s *Type) Begin() bytes.Index {
	return s.begin
}
