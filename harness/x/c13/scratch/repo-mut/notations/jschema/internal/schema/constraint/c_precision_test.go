package constraint

import (
	"testing"

	"github.com/stretchr/testify/assert"

	jschema "github.com/jsightapi/jsight-schema-go-library"
	"github.com/jsightapi/jsight-schema-go-library/bytes"
	"github.com/jsightapi/jsight-schema-go-library/internal/json"
)

func TestNewPrecision(t *testing.T) {
	t.Run("positive", func(t *testing.T) {
		c := NewPrecision([]byte("10"))
		assert.Equal(t, uint(10), c.value)
	})

	t.Run("negative", func(t *testing.T) {
		cc := map[string]string{
			"-10":  `Invalid value of "precision" constraint`,
			"0":    "Precision can't be zero",
			"3.14": `Invalid value of "precision" constraint`,
		}

		for given, expected := range cc {
			t.Run(given, func(t *testing.T) {
				assert.PanicsWithError(t, expected, func() {
					NewPrecision([]byte(given))
				})
			})
		}
	})
}

func TestPrecision_IsJsonTypeCompatible(t *testing.T) {
	testIsJsonTypeCompatible(t, Precision{}, json.TypeFloat)
}

func TestPrecision_Type(t *testing.T) {
	assert.Equal(t, PrecisionConstraintType, NewPrecision(bytes.Bytes("1")).Type())
}

func TestPrecision_String(t *testing.T) {
	assert.Equal(t, "precision: 1", NewPrecision([]byte("1")).String())
}

func TestPrecision_Validate(t *testing.T) {
	t.Run("positive", func(t *testing.T) {
		cc := map[string]string{
			"3.14":  "",
			"3.1":   "",
			"3":     "",
			"3.142": `Invalid value for "precision" = 2 constraint (exclusive)`,
		}

		for given, expectedError := range cc {
			t.Run(given, func(t *testing.T) {
				cnstr := NewPrecision([]byte("2"))
				if expectedError != "" {
					assert.PanicsWithError(t, expectedError, func() {
						cnstr.Validate([]byte(given))
					})
				} else {
					assert.NotPanics(t, func() {
						cnstr.Validate([]byte(given))
					})
				}
			})
		}
	})

	t.Run("negative", func(t *testing.T) {
		assert.PanicsWithError(t, `Incorrect number value "not a number"`, func() {
			NewPrecision([]byte("2")).Validate([]byte("not a number"))
		})
	})
}

func TestPrecision_ASTNode(t *testing.T) {
	assert.Equal(t, jschema.RuleASTNode{
		TokenType:  jschema.TokenTypeNumber,
		Value:      "1",
		Properties: &jschema.RuleASTNodes{},
		Source:     jschema.RuleASTNodeSourceManual,
	}, NewPrecision(bytes.Bytes("1")).ASTNode())
}
