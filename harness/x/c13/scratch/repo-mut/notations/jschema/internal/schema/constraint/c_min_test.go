package constraint

import (
	"testing"

	"github.com/stretchr/testify/assert"
	"github.com/stretchr/testify/require"

	jschema "github.com/jsightapi/jsight-schema-go-library"
	"github.com/jsightapi/jsight-schema-go-library/bytes"
	"github.com/jsightapi/jsight-schema-go-library/internal/json"
)

func TestNewMin(t *testing.T) {
	t.Run("positive", func(t *testing.T) {
		ruleValue := bytes.Bytes("3.14")
		cnstr := NewMin(ruleValue)

		expectedNumber, err := json.NewNumber(ruleValue)
		require.NoError(t, err)

		assert.Equal(t, ruleValue, cnstr.rawValue)
		assert.Equal(t, expectedNumber, cnstr.min)
		assert.False(t, cnstr.exclusive)
	})

	t.Run("negative", func(t *testing.T) {
		assert.PanicsWithError(t, `Incorrect number value "not a number"`, func() {
			NewMin([]byte("not a number"))
		})
	})
}

func TestMin_IsJsonTypeCompatible(t *testing.T) {
	testIsJsonTypeCompatible(t, Min{}, json.TypeInteger, json.TypeFloat)
}

func TestMin_Type(t *testing.T) {
	assert.Equal(t, MinConstraintType, NewMin(bytes.Bytes("1")).Type())
}

func TestMin_String(t *testing.T) {
	cc := map[bool]string{
		false: "min: 3.14",
		true:  "min: 3.14 (exclusive: true)",
	}

	for exclusive, expected := range cc {
		t.Run(expected, func(t *testing.T) {
			cnstr := NewMin([]byte("3.14"))
			cnstr.SetExclusive(exclusive)

			actual := cnstr.String()
			assert.Equal(t, expected, actual)
		})
	}
}

func TestMin_SetExclusive(t *testing.T) {
	cnstr := Min{}

	cnstr.SetExclusive(true)
	assert.True(t, cnstr.exclusive)

	cnstr.SetExclusive(false)
	assert.False(t, cnstr.exclusive)
}

func TestMin_Exclusive(t *testing.T) {
	cnstr := Min{}

	cnstr.exclusive = true
	assert.True(t, cnstr.Exclusive())

	cnstr.exclusive = false
	assert.False(t, cnstr.Exclusive())
}

func TestMin_Validate(t *testing.T) {
	t.Run("positive", func(t *testing.T) {
		newMin := func(max string, exclusive bool) *Min {
			cnstr := NewMin([]byte(max))
			cnstr.SetExclusive(exclusive)
			return cnstr
		}

		cc := map[string]struct {
			cnstr *Min
			value string
			error string
		}{
			"3.14 >= 3.14": {
				cnstr: newMin("3.14", true),
				value: "3.14",
				error: `Invalid value for "min" = 3.14 constraint (exclusive)`,
			},
			"3.14 >= 2": {
				cnstr: newMin("3.14", true),
				value: "2",
				error: `Invalid value for "min" = 3.14 constraint (exclusive)`,
			},
			"3.14 > 3.14": {
				cnstr: newMin("3.14", false),
				value: "3.14",
			},
			"3.14 > 2": {
				cnstr: newMin("3.14", false),
				value: "2",
				error: `Invalid value for "min" = 3.14 constraint `,
			},
			"3.14 >= 4": {
				cnstr: newMin("3.14", true),
				value: "4",
			},
			"3.14 > 4": {
				cnstr: newMin("3.14", false),
				value: "4",
			},
		}

		for name, c := range cc {
			t.Run(name, func(t *testing.T) {
				if c.error != "" {
					assert.PanicsWithError(t, c.error, func() {
						c.cnstr.Validate([]byte(c.value))
					})
				} else {
					assert.NotPanics(t, func() {
						c.cnstr.Validate([]byte(c.value))
					})
				}
			})
		}
	})

	t.Run("negative", func(t *testing.T) {
		assert.PanicsWithError(t, `Incorrect number value "not a number"`, func() {
			NewMin([]byte("3")).Validate([]byte("not a number"))
		})
	})
}

func TestMin_ASTNode(t *testing.T) {
	assert.Equal(t, jschema.RuleASTNode{
		TokenType:  jschema.TokenTypeNumber,
		Value:      "1",
		Properties: &jschema.RuleASTNodes{},
		Source:     jschema.RuleASTNodeSourceManual,
	}, NewMin(bytes.Bytes("1")).ASTNode())
}

func TestMin_Value(t *testing.T) {
	num, err := json.NewNumber([]byte("42"))
	require.NoError(t, err)

	cnstr := Min{
		min: num,
	}
	assert.Equal(t, num, cnstr.Value())
}
