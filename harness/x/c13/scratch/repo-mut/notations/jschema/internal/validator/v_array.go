package validator

import (
	"github.com/jsightapi/jsight-schema-go-library/errors"
	"github.com/jsightapi/jsight-schema-go-library/internal/lexeme"
	"github.com/jsightapi/jsight-schema-go-library/notations/jschema/internal/schema"
	"github.com/jsightapi/jsight-schema-go-library/notations/jschema/internal/schema/constraint"
)

// Validates json according to jSchema's ArrayNode.

type arrayValidator struct {
	// node_ an array or mixed node.
	node_   schema.Node
	parent_ validator

	// rootSchema the scheme from which it is possible to receive type by their
	// name.
	rootSchema   schema.Schema
	itemsCounter uint
}

func newArrayValidator(node schema.Node, parent validator, rootSchema schema.Schema) *arrayValidator {
	switch node.(type) {
	case *schema.ArrayNode, *schema.MixedNode, *schema.MixedValueNode:
		v := arrayValidator{
			node_:      node,
			parent_:    parent,
			rootSchema: rootSchema,
		}
		return &v
	default:
		panic(errors.ErrValidator)
	}
}

func (v arrayValidator) node() schema.Node {
	return v.node_
}

func (v arrayValidator) parent() validator {
	return v.parent_
}

func (v *arrayValidator) setParent(parent validator) {
	v.parent_ = parent
}

// return array (pointers to validators, or nil if not found) and bool (true if validator is done)
func (v *arrayValidator) feed(jsonLexeme lexeme.LexEvent) ([]validator, bool) {
	defer lexeme.CatchLexEventError(jsonLexeme)

	switch jsonLexeme.Type() { //nolint:exhaustive // We will throw a panic in over cases.
	case lexeme.ArrayBegin, lexeme.ArrayItemEnd:
		return nil, false

	case lexeme.ArrayItemBegin:
		if arrayNode, ok := v.node_.(*schema.ArrayNode); ok {
			childNode := arrayNode.Child(v.itemsCounter) // can panic
			v.itemsCounter++
			return NodeValidatorList(childNode, v.rootSchema, v), false
		} else { // mixed node
			panic(errors.ErrElementNotFoundInArray)
		}

	case lexeme.ArrayEnd:
		if arrayNode, ok := v.node_.(*schema.ArrayNode); ok {
			arrayNode.ConstraintMap().EachSafe(func(_ constraint.Type, av constraint.Constraint) {
				if arrayValidator, ok := av.(constraint.ArrayValidator); ok {
					arrayValidator.ValidateTheArray(v.itemsCounter)
				}
			})
		}
		return nil, true
	}

	panic(errors.ErrUnexpectedLexInArrayValidator)
}
