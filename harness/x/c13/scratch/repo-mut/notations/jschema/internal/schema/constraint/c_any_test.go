package constraint

import (
	"testing"

	"github.com/stretchr/testify/assert"
)

func TestNewAny(t *testing.T) {
	assert.NotNil(t, NewAny())
}

func TestAnyConstraint_IsJsonTypeCompatible(t *testing.T) {
	testIsJsonTypeCompatible(t, NewAny(), allJSONTypes...)
}

func TestAnyConstraint_Type(t *testing.T) {
	assert.Equal(t, AnyConstraintType, NewAny().Type())
}

func TestAnyConstraint_String(t *testing.T) {
	assert.Equal(t, AnyConstraintType.String(), NewAny().String())
}

func TestAnyConstraint_ASTNode(t *testing.T) {
	assert.Equal(t, newEmptyRuleASTNode(), NewAny().ASTNode())
}
