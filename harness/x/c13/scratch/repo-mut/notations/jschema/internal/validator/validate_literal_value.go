package validator

import (
	"sort"

	"github.com/jsightapi/jsight-schema-go-library/bytes"
	"github.com/jsightapi/jsight-schema-go-library/errors"
	"github.com/jsightapi/jsight-schema-go-library/internal/json"
	"github.com/jsightapi/jsight-schema-go-library/notations/jschema/internal/schema"
	"github.com/jsightapi/jsight-schema-go-library/notations/jschema/internal/schema/constraint"
)

func ValidateLiteralValue(node schema.Node, jsonValue bytes.Bytes) {
	checkNotAnEnum(node, jsonValue)

	// sorting to make it easier to debug the scheme if there are several errors in it
	m := node.ConstraintMap()
	l := m.Len()
	keys := make([]int, 0, l)

	m.EachSafe(func(k constraint.Type, _ constraint.Constraint) {
		keys = append(keys, int(k))
	})

	sort.Ints(keys)

	var isNullable bool
	if c, ok := m.Get(constraint.NullableConstraintType); ok {
		isNullable = c.(constraint.BoolKeeper).Bool()
	}

	if isNullable && jsonValue.String() == "null" {
		// A null admitted by `nullable: true` is valid whatever other rules say.
		return
	}

	for _, k := range keys {
		t := constraint.Type(k)
		c := m.GetValue(t)

		if v, ok := c.(constraint.LiteralValidator); ok {
			v.Validate(jsonValue)
		}
	}
}

func checkNotAnEnum(node schema.Node, value bytes.Bytes) {
	if node.Constraint(constraint.EnumConstraintType) != nil {
		return
	}

	jsonType := json.Guess(value).LiteralJsonType() // can panic
	schemaType := node.Type()
	if !(jsonType == schemaType ||
		(jsonType == json.TypeInteger && schemaType == json.TypeFloat) ||
		(jsonType == json.TypeNull && node.Constraint(constraint.NullableConstraintType) != nil)) {
		panic(errors.Format(errors.ErrInvalidValueType, jsonType.String(), schemaType.String()))
	}
}
