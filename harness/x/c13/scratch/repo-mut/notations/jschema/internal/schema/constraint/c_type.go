package constraint

import (
	jschema "github.com/jsightapi/jsight-schema-go-library"
	"github.com/jsightapi/jsight-schema-go-library/bytes"
	"github.com/jsightapi/jsight-schema-go-library/internal/json"
)

type TypeConstraint struct {
	value  bytes.Bytes
	source jschema.RuleASTNodeSource
}

var (
	_ Constraint  = TypeConstraint{}
	_ Constraint  = (*TypeConstraint)(nil)
	_ BytesKeeper = TypeConstraint{}
	_ BytesKeeper = (*TypeConstraint)(nil)
)

func NewType(ruleValue bytes.Bytes, source jschema.RuleASTNodeSource) *TypeConstraint {
	return &TypeConstraint{
		value:  ruleValue,
		source: source,
	}
}

func (c TypeConstraint) IsGenerated() bool {
	return c.source == jschema.RuleASTNodeSourceGenerated
}

func (TypeConstraint) IsJsonTypeCompatible(json.Type) bool {
	return true
}

func (TypeConstraint) Type() Type {
	return TypeConstraintType
}

func (c TypeConstraint) String() string {
	return TypeConstraintType.String() + ": " + c.value.String()
}

func (c TypeConstraint) Bytes() bytes.Bytes {
	return c.value
}

func (c TypeConstraint) ASTNode() jschema.RuleASTNode {
	t := jschema.TokenTypeString
	if c.value.Unquote().IsUserTypeName() {
		t = jschema.TokenTypeShortcut
	}
	return newRuleASTNode(t, c.value.Unquote().String(), c.source)
}

func (c TypeConstraint) Source() jschema.RuleASTNodeSource { return c.source }
