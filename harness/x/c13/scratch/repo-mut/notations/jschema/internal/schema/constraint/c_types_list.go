package constraint

import (
	"strings"

	jschema "github.com/jsightapi/jsight-schema-go-library"
	"github.com/jsightapi/jsight-schema-go-library/internal/json"
)

type TypesList struct {
	innerTypeNames []string

	// typeNames collection of real type names, used only for building AST nodes.
	typeNames []string

	// elementASTNodes contains an AST node for all items in this constraint
	// This property was added only for build AST node, so it won't affect current
	// logic at all.
	elementASTNodes []jschema.RuleASTNode

	source jschema.RuleASTNodeSource

	hasUserTypes bool
}

var (
	_ Constraint = TypesList{}
	_ Constraint = (*TypesList)(nil)
)

func NewTypesList(s jschema.RuleASTNodeSource) *TypesList {
	return &TypesList{
		innerTypeNames: make([]string, 0, 5),
		source:         s,
	}
}

func (c TypesList) HasUserTypes() bool {
	return c.hasUserTypes
}

func (TypesList) IsJsonTypeCompatible(json.Type) bool {
	return true
}

func (TypesList) Type() Type {
	return TypesListConstraintType
}

func (c TypesList) String() string {
	return TypesListConstraintType.String() + ": " + strings.Join(c.innerTypeNames, ", ")
}

func (c *TypesList) AddName(name, typ string, s jschema.RuleASTNodeSource) {
	c.AddNameWithASTNode(name, typ, newRuleASTNode(jschema.TokenTypeString, typ, s))
}

func (c *TypesList) AddNameWithASTNode(name, typ string, an jschema.RuleASTNode) {
	c.innerTypeNames = append(c.innerTypeNames, name)
	c.typeNames = append(c.typeNames, typ)
	c.elementASTNodes = append(c.elementASTNodes, an)
	c.hasUserTypes = c.hasUserTypes || name[0] == '@'
}

func (c TypesList) Names() []string {
	return c.innerTypeNames
}

func (c TypesList) Len() int {
	return len(c.innerTypeNames)
}

func (c TypesList) ASTNode() jschema.RuleASTNode {
	n := newRuleASTNode(jschema.TokenTypeArray, "", c.source)
	n.Items = c.elementASTNodes
	return n
}

func (c TypesList) Source() jschema.RuleASTNodeSource { return c.source }
