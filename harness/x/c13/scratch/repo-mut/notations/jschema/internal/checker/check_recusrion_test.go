package checker

import (
	"testing"

	"github.com/stretchr/testify/assert"
)

// CheckRecursion was tested in jschema.

func TestRecursionChecker_visit(t *testing.T) {
	rc := &recursionChecker{
		visited: map[string]struct{}{},
	}

	assert.True(t, rc.visit("foo"))

	assert.Len(t, rc.visited, 1)
	assert.Contains(t, rc.visited, "foo")
	assert.Equal(t, []string{"foo"}, rc.path)

	assert.True(t, rc.visit("bar"))

	assert.Len(t, rc.visited, 2)
	assert.Contains(t, rc.visited, "foo")
	assert.Contains(t, rc.visited, "bar")
	assert.Equal(t, []string{"foo", "bar"}, rc.path)

	assert.False(t, rc.visit("foo"))

	assert.Len(t, rc.visited, 2)
	assert.Contains(t, rc.visited, "foo")
	assert.Contains(t, rc.visited, "bar")
	assert.Equal(t, []string{"foo", "bar", "foo"}, rc.path)
}

func TestRecursionChecker_leave(t *testing.T) {
	rc := &recursionChecker{
		visited: map[string]struct{}{
			"foo": {},
			"bar": {},
		},
		path: []string{"foo", "bar"},
	}

	rc.leave("bar")

	assert.Len(t, rc.visited, 1)
	assert.Contains(t, rc.visited, "foo")
	assert.Equal(t, []string{"foo"}, rc.path)

	assert.True(t, rc.visit("bar"))

	assert.Len(t, rc.visited, 2)
	assert.Contains(t, rc.visited, "foo")
	assert.Contains(t, rc.visited, "bar")
	assert.Equal(t, []string{"foo", "bar"}, rc.path)

	assert.False(t, rc.visit("foo"))

	assert.Len(t, rc.visited, 2)
	assert.Contains(t, rc.visited, "foo")
	assert.Contains(t, rc.visited, "bar")
	assert.Equal(t, []string{"foo", "bar", "foo"}, rc.path)
}

func TestRecursionChecker_createError(t *testing.T) {
	err := (&recursionChecker{
		path: []string{"@foo", "@bar", "@fizz", "@buzz", "@foo"},
	}).
		createError()

	assert.EqualError(t, err, "Infinity recursion detected @foo -> @bar -> @fizz -> @buzz -> @foo")
}
