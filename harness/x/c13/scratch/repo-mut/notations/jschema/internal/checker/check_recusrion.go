package checker

import (
	"strings"

	"github.com/jsightapi/jsight-schema-go-library/errors"
	"github.com/jsightapi/jsight-schema-go-library/notations/jschema/internal/schema"
)

// CheckRecursion checks that given schema doesn't have invalid recursions.
//
// Examples of invalid recursions:
//
//	TYPE @foo
//	{
//	  "foo": @foo
//	}
//
// Examples of valid recursions:
//
//	TYPE @foo
//	{
//	  "foo": @foo // {optional: true}
//	}
//
//	TYPE @foo
//	{
//	  "foo": [@foo]
//	}
func CheckRecursion(rootTypeName string, rootSchema *schema.Schema) error {
	if rootSchema.RootNode() == nil {
		return nil
	}

	rc := &recursionChecker{
		visited: map[string]struct{}{
			// Obviously, root type was visited.
			rootTypeName: {},
		},
		path: []string{rootTypeName},
	}

	return rc.check(rootSchema.RootNode(), rootSchema.TypesList())
}

type recursionChecker struct {
	// visited a set of visited types.
	visited map[string]struct{}

	// path a path to current type.
	// Necessary for building an error message 'cause user should understand where
	// recursion was found.
	path []string
}

func (c *recursionChecker) check(node schema.Node, types map[string]schema.Type) error {
	// We can represent checked type and all dependent types as a graph. Root node
	// is a checked type. This is a directed graph with two types of edges: required
	// and optional.
	//
	// Edge between two types will be required if first type requires second type,
	// for instance when we have something like this:
	// {
	//   "foo": @bar
	// }
	// Here main type require `@bar` type.
	//
	// Edge between two types will be optional if first type doesn't require second
	// type, for instance:
	// {
	//   "foo": @bar // {optional: true}
	// }
	// Here main type doesn't require `@bar` type.
	//
	// So, we will visit all required types and skip optional and mark all passed
	// types until we pass all types. Or we try to mark already marked type. In
	// that case we have infinity recursion.
	//
	// Example:
	//
	// TYPE @foo
	// {
	//   "foo1": [@foo],
	//   "foo2": @bar
	// }
	//
	// TYPE @bar
	// {
	//   "bar1": @fizz
	//   "bar2": @bar // {optional: true}
	// }
	//
	// TYPE @fizz
	// {
	//   "fizz1": @foo
	// }
	//
	// Here we check `@foo` type. We can omit all optional dependencies, and we
	// will get next situation:
	//
	// @foo -> @bar -> @fizz -> @foo -> @bar -> @fizz -> @foo ...
	//
	// Obviously, this is an infinity recursion. And no mater which type we will
	// take to check we will get an infinity recursion here.

	// Ignore optional node.
	if schema.IsOptionalNode(node) {
		return nil
	}

	switch node := node.(type) {
	// Array might contain no items, so it's optional and should be skipped.
	// Literal nodes should be skipped 'cause it doesn't contain any fields or
	// type names.
	// Mixed node doesn't contain user type.
	case *schema.ArrayNode, *schema.LiteralNode, *schema.MixedNode:
		return nil

	// Special logic for mixed value 'cause it can contain a link to another type.
	case *schema.MixedValueNode:
		return c.checkMixedValueNode(node, types)

	// We should check all fields in the object 'cause some of them can be required.
	case *schema.ObjectNode:
		for _, n := range node.Children() {
			if err := c.check(n, types); err != nil {
				return err
			}
		}

	default:
		return errors.ErrImpossible
	}

	return nil
}

func (c *recursionChecker) checkMixedValueNode(
	node *schema.MixedValueNode,
	types map[string]schema.Type,
) error {
	tt := node.GetTypes()

	// We should check all types and return an error only if all paths leads
	// to infinity recursion.
	errs := make([]error, 0, len(tt))
	for _, t := range tt {
		if err := c.checkType(t, types); err != nil {
			errs = append(errs, err)
		}
	}

	if len(errs) > 0 && len(errs) == len(tt) {
		// Just return first found error.
		return errs[0]
	}
	return nil
}

func (c *recursionChecker) checkType(typeName string, types map[string]schema.Type) error {
	if !c.visit(typeName) {
		return c.createError()
	}
	defer c.leave(typeName)

	t := types[typeName]
	if t.Schema() == nil {
		// This might happen if we didn't know anything about this type.
		// Normally we shouldn't get this situation.
		return nil
	}

	return c.check(t.Schema().RootNode(), t.Schema().TypesList())
}

func (c *recursionChecker) visit(typeName string) bool {
	c.path = append(c.path, typeName)
	if _, ok := c.visited[typeName]; ok {
		return false
	}
	c.visited[typeName] = struct{}{}
	return true
}

func (c *recursionChecker) leave(typeName string) {
	if len(c.path) > 0 {
		c.path = c.path[:len(c.path)-1]
	}
	delete(c.visited, typeName)
}

func (c *recursionChecker) createError() error {
	return errors.Format(errors.ErrInfinityRecursionDetected, strings.Join(c.path, " -> "))
}
