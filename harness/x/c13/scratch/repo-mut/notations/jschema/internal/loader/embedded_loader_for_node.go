package loader

import (
	"github.com/jsightapi/jsight-schema-go-library/internal/lexeme"
	"github.com/jsightapi/jsight-schema-go-library/notations/jschema/internal/schema"
)

// nodeLoader is responsible for loading the JSON elements in the nodes of the
// internal representation of the SCHEMA.
type nodeLoader struct {
	// The schema.
	// Parameter from the main loader.
	schema *schema.Schema

	// nodesPerCurrentLineCount counts the number of nodes in a line. To check
	// because the rule cannot be added if there is more than one node suitable
	// for this in the row.
	// Parameter from the main loader.
	nodesPerCurrentLineCount *uint

	// leaf a schema node which is processed at the moment. A schema is a tree of
	// nodes. Starting from the root node, we fill the nodes with lexeme events.
	// If necessary, new nodes are added. Thus, the complete scheme tree is constructed.
	leaf schema.Node
}

func newNodeLoader(
	schem *schema.Schema,
	nodesPerCurrentLineCount *uint,
) *nodeLoader {
	return &nodeLoader{
		schema:                   schem,
		nodesPerCurrentLineCount: nodesPerCurrentLineCount,
	}
}

// Load returns the newly added node or nil.
func (nl *nodeLoader) Load(lex lexeme.LexEvent) schema.Node {
	defer lexeme.CatchLexEventError(lex)

	switch lex.Type() {
	case lexeme.NewLine:
		*(nl.nodesPerCurrentLineCount) = 0
		return nil
	case lexeme.EndTop:
		return nil
	}

	if nl.leaf == nil {
		node := schema.NewNode(lex)
		nl.schema.SetRootNode(node)
		nl.leaf = node
		*(nl.nodesPerCurrentLineCount)++
		return node
	}

	var isNewChildNode bool
	nl.leaf, isNewChildNode = nl.leaf.Grow(lex)
	if isNewChildNode {
		*(nl.nodesPerCurrentLineCount)++
		return nl.leaf
	}

	return nil
}
