package constraint

import (
	"encoding/json"
	"strings"

	jschema "github.com/jsightapi/jsight-schema-go-library"
	jbytes "github.com/jsightapi/jsight-schema-go-library/bytes"
	"github.com/jsightapi/jsight-schema-go-library/errors"
	jjson "github.com/jsightapi/jsight-schema-go-library/internal/json"
)

type Enum struct {
	uniqueIdx map[enumItemValue]struct{}
	ruleName  string
	items     []EnumItem
}

type EnumItem struct {
	src     jbytes.Bytes
	comment string
	enumItemValue
}

type enumItemValue struct {
	value    string
	jsonType jjson.Type
}

func (v enumItemValue) String() string {
	if v.jsonType == jjson.TypeString {
		b, err := json.Marshal(v.value)
		if err != nil {
			panic(errors.ErrImpossible)
		}
		return string(b)
	} else {
		return v.value
	}
}

func NewEnumItem(b jbytes.Bytes, c string) EnumItem {
	i := EnumItem{src: b, comment: c}
	b = b.TrimSpaces()
	i.jsonType = jjson.Guess(b).JsonType()
	if i.jsonType == jjson.TypeString {
		b = b.Unquote()
	}
	i.value = b.String()
	return i
}

var (
	_ Constraint       = Enum{}
	_ Constraint       = (*Enum)(nil)
	_ LiteralValidator = Enum{}
	_ LiteralValidator = (*Enum)(nil)
)

func NewEnum() *Enum {
	return &Enum{
		uniqueIdx: make(map[enumItemValue]struct{}),
		items:     make([]EnumItem, 0, 5),
	}
}

func (Enum) IsJsonTypeCompatible(t jjson.Type) bool {
	return t.IsLiteralType()
}

func (Enum) Type() Type {
	return EnumConstraintType
}

func (c Enum) String() string {
	var str strings.Builder
	str.WriteString(EnumConstraintType.String())
	str.WriteString(": [")
	for i, v := range c.items {
		str.WriteString(v.enumItemValue.String())
		if len(c.items)-1 != i {
			str.WriteString(", ")
		}
	}
	str.WriteString("]")
	return str.String()
}

func (c *Enum) Append(i EnumItem) int {
	if _, ok := c.uniqueIdx[i.enumItemValue]; ok {
		panic(errors.Format(errors.ErrDuplicationInEnumRule, i.src.String()))
	}
	idx := len(c.items)
	c.items = append(c.items, i)
	c.uniqueIdx[i.enumItemValue] = struct{}{}
	return idx
}

func (c *Enum) SetComment(idx int, comment string) {
	c.items[idx].comment = comment
}

func (c *Enum) SetRuleName(s string) {
	c.ruleName = s
}

func (c *Enum) RuleName() string {
	return c.ruleName
}

func (c Enum) Validate(a jbytes.Bytes) {
	aa := NewEnumItem(a, "")
	for _, b := range c.items {
		if aa.enumItemValue == b.enumItemValue {
			return
		}
	}
	panic(errors.ErrDoesNotMatchAnyOfTheEnumValues)
}

func (c Enum) ASTNode() jschema.RuleASTNode {
	const source = jschema.RuleASTNodeSourceManual

	if c.ruleName != "" {
		return newRuleASTNode(jschema.TokenTypeShortcut, c.ruleName, source)
	}

	n := newRuleASTNode(jschema.TokenTypeArray, "", source)
	n.Items = make([]jschema.RuleASTNode, 0, len(c.items))

	for _, b := range c.items {
		an := newRuleASTNode(
			b.jsonType.ToTokenType(),
			b.value,
			source,
		)
		an.Comment = b.comment

		n.Items = append(n.Items, an)
	}

	return n
}
