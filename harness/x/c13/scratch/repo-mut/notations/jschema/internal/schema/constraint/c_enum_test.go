package constraint

import (
	"testing"

	"github.com/stretchr/testify/assert"

	jschema "github.com/jsightapi/jsight-schema-go-library"
	"github.com/jsightapi/jsight-schema-go-library/bytes"
	"github.com/jsightapi/jsight-schema-go-library/errors"
	"github.com/jsightapi/jsight-schema-go-library/internal/json"
)

func TestNewEnum(t *testing.T) {
	c := NewEnum()
	assert.NotNil(t, c.items)
}

func TestEnum_IsJsonTypeCompatible(t *testing.T) {
	testIsJsonTypeCompatible(
		t,
		Enum{},
		json.TypeString,
		json.TypeBoolean,
		json.TypeInteger,
		json.TypeFloat,
		json.TypeNull,
		json.TypeMixed,
	)
}

func TestEnum_Type(t *testing.T) {
	assert.Equal(t, EnumConstraintType, NewEnum().Type())
}

func TestEnum_String(t *testing.T) {
	actual := Enum{items: []EnumItem{
		NewEnumItem(bytes.Bytes(`"foo"`), ""),
		NewEnumItem(bytes.Bytes(`"bar"`), ""),
		NewEnumItem(bytes.Bytes(`"fizz"`), ""),
		NewEnumItem(bytes.Bytes(`"buzz"`), ""),
		NewEnumItem(bytes.Bytes(`123`), ""),
		NewEnumItem(bytes.Bytes(`45.67`), ""),
		NewEnumItem(bytes.Bytes(`true`), ""),
		NewEnumItem(bytes.Bytes(`false`), ""),
		NewEnumItem(bytes.Bytes(`null`), ""),
		NewEnumItem(bytes.Bytes(`"\""`), ""),
		NewEnumItem(bytes.Bytes(`"\\"`), ""),
		NewEnumItem(bytes.Bytes(`"\/"`), ""),
		NewEnumItem(bytes.Bytes(`"\b"`), ""),
		NewEnumItem(bytes.Bytes(`"\f"`), ""),
		NewEnumItem(bytes.Bytes(`"\n"`), ""),
		NewEnumItem(bytes.Bytes(`"\r"`), ""),
		NewEnumItem(bytes.Bytes(`"\t"`), ""),
		NewEnumItem(bytes.Bytes(`"\u0001"`), ""),
		NewEnumItem(bytes.Bytes(`"\u000A"`), ""),
		NewEnumItem(bytes.Bytes(`"\u20AC"`), ""),
		NewEnumItem(bytes.Bytes(`"\uD83C\uDFC6"`), ""),
	}}.
		String()

	assert.Equal(t, `enum: ["foo", "bar", "fizz", "buzz", 123, 45.67, true, false, null, "\"", "\\", "/", "\u0008", "\u000c", "\n", "\r", "\t", "\u0001", "\n", "€", "🏆"]`, actual)
}

func TestEnum_Append(t *testing.T) {
	t.Run("positive", func(t *testing.T) {
		c := NewEnum()
		assert.Equal(t, []EnumItem{}, c.items)

		c.Append(NewEnumItem(bytes.Bytes(`"foo"`), ""))
		assert.Equal(t, []EnumItem{
			NewEnumItem(bytes.Bytes(`"foo"`), ""),
		}, c.items)

		c.Append(NewEnumItem(bytes.Bytes(`"bar"`), ""))
		assert.Equal(t, []EnumItem{
			NewEnumItem(bytes.Bytes(`"foo"`), ""),
			NewEnumItem(bytes.Bytes(`"bar"`), ""),
		}, c.items)

		c.Append(NewEnumItem(bytes.Bytes(`"FoO"`), ""))
		assert.Equal(t, []EnumItem{
			NewEnumItem(bytes.Bytes(`"foo"`), ""),
			NewEnumItem(bytes.Bytes(`"bar"`), ""),
			NewEnumItem(bytes.Bytes(`"FoO"`), ""),
		}, c.items)
	})

	t.Run("negative", func(t *testing.T) {
		cc := map[string]string{
			`"foo" value duplicates in "enum"`:  `"foo"`,
			` "foo" value duplicates in "enum"`: ` "foo"`,
			`"foo"  value duplicates in "enum"`: `"foo" `,
		}

		for expected, given := range cc {
			t.Run(expected, func(t *testing.T) {
				assert.PanicsWithError(t, expected, func() {
					c := NewEnum()
					c.Append(NewEnumItem(bytes.Bytes(`"foo"`), ""))
					c.Append(NewEnumItem(bytes.Bytes(given), ""))
				})
			})
		}
	})
}

func TestEnum_SetComment(t *testing.T) {
	t.Run("positive", func(t *testing.T) {
		e := &Enum{
			items: []EnumItem{
				NewEnumItem(bytes.Bytes(`"foo"`), ""),
				NewEnumItem(bytes.Bytes(`"bar"`), "old bar comment"),
			},
		}

		e.SetComment(0, "foo comment")
		e.SetComment(1, "new bar comment")

		assert.Equal(t, []EnumItem{
			NewEnumItem(bytes.Bytes(`"foo"`), "foo comment"),
			NewEnumItem(bytes.Bytes(`"bar"`), "new bar comment"),
		}, e.items)
	})

	t.Run("negative", func(t *testing.T) {
		assert.Panics(t, func() {
			(&Enum{}).SetComment(10, "panic")
		})
	})
}

func TestEnum_SetRuleName(t *testing.T) {
	t.Run("positive", func(t *testing.T) {
		e := &Enum{}

		e.SetRuleName("foo")

		assert.Equal(t, "foo", e.ruleName)
		assert.Equal(t, "foo", e.RuleName())
	})

	t.Run("negative", func(t *testing.T) {
		assert.Panics(t, func() {
			var e *Enum
			e.SetRuleName("panic")
		})
	})
}

func TestEnum_Validate(t *testing.T) {
	t.Run("positive", func(t *testing.T) {
		Enum{
			items: []EnumItem{
				NewEnumItem(bytes.Bytes(`"foo"`), ""),
				NewEnumItem(bytes.Bytes(`"bar"`), ""),
			},
		}.
			Validate(bytes.Bytes(`"bar"`))
	})

	t.Run("negative", func(t *testing.T) {
		assert.PanicsWithValue(t, errors.ErrDoesNotMatchAnyOfTheEnumValues, func() {
			Enum{
				items: []EnumItem{
					NewEnumItem(bytes.Bytes(`"foo"`), ""),
					NewEnumItem(bytes.Bytes(`"bar"`), ""),
				},
			}.
				Validate(bytes.Bytes(`"fizz"`))
		})
	})
}

func TestEnum_ASTNode(t *testing.T) {
	t.Run("with rule name", func(t *testing.T) {
		e := Enum{
			ruleName: "@foo",
		}

		assert.Equal(t, jschema.RuleASTNode{
			TokenType:  jschema.TokenTypeShortcut,
			Value:      "@foo",
			Properties: &jschema.RuleASTNodes{},
			Source:     jschema.RuleASTNodeSourceManual,
		}, e.ASTNode())
	})

	t.Run("without rule name", func(t *testing.T) {
		e := Enum{
			items: []EnumItem{
				NewEnumItem(bytes.Bytes(`"foo"`), ""),
				NewEnumItem(bytes.Bytes(`42`), "foo"),
				NewEnumItem(bytes.Bytes(`3.14`), ""),
				NewEnumItem(bytes.Bytes(`true`), ""),
				NewEnumItem(bytes.Bytes(`null`), "bar"),
				NewEnumItem(bytes.Bytes(`@foo`), ""),
			},
		}
		assert.Equal(t, jschema.RuleASTNode{
			TokenType:  jschema.TokenTypeArray,
			Properties: &jschema.RuleASTNodes{},
			Items: []jschema.RuleASTNode{
				{
					TokenType:  jschema.TokenTypeString,
					Value:      "foo",
					Properties: &jschema.RuleASTNodes{},
					Source:     jschema.RuleASTNodeSourceManual,
				},
				{
					TokenType:  jschema.TokenTypeNumber,
					Value:      "42",
					Properties: &jschema.RuleASTNodes{},
					Source:     jschema.RuleASTNodeSourceManual,
					Comment:    "foo",
				},
				{
					TokenType:  jschema.TokenTypeNumber,
					Value:      "3.14",
					Properties: &jschema.RuleASTNodes{},
					Source:     jschema.RuleASTNodeSourceManual,
				},
				{
					TokenType:  jschema.TokenTypeBoolean,
					Value:      "true",
					Properties: &jschema.RuleASTNodes{},
					Source:     jschema.RuleASTNodeSourceManual,
				},
				{
					TokenType:  jschema.TokenTypeNull,
					Value:      "null",
					Properties: &jschema.RuleASTNodes{},
					Source:     jschema.RuleASTNodeSourceManual,
					Comment:    "bar",
				},
				{
					TokenType:  jschema.TokenTypeShortcut,
					Value:      "@foo",
					Properties: &jschema.RuleASTNodes{},
					Source:     jschema.RuleASTNodeSourceManual,
				},
			},
			Source: jschema.RuleASTNodeSourceManual,
		}, e.ASTNode())
	})
}
