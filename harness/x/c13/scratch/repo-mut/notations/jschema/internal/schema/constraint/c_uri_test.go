package constraint

import (
	"testing"

	"github.com/stretchr/testify/assert"

	"github.com/jsightapi/jsight-schema-go-library/bytes"
	"github.com/jsightapi/jsight-schema-go-library/internal/json"
)

func TestUri_IsJsonTypeCompatible(t *testing.T) {
	testIsJsonTypeCompatible(t, Uri{}, json.TypeString)
}

func TestUri_Type(t *testing.T) {
	assert.Equal(t, UriConstraintType, NewUri().Type())
}

func TestUri_String(t *testing.T) {
	assert.Equal(t, "uri", NewUri().String())
}

//goland:noinspection ALL
func TestUri_Validate(t *testing.T) {
	t.Run("positive", func(t *testing.T) {
		var tests = []string{
			`scheme://userinfo@host/path?query#fragment`,
			`"https://example.org"`, // json string (with quotes). Will be trimmed before validation.
			`http://example.org`,
			`https://example.org`,
			`ftp://example.org`,
			`ssh://example.org`,
			`http://example.org/path/file.ext?q=1&w=2#zzz`,
			`http://localhost/`,
			`http://localhost:80/`,
			`http://127.0.0.1/`,
			`https://[2001:0db8:85a3:0000:0000:8a2e:0370:7334]:17000`, // IPv6
		}

		for _, uri := range tests {
			t.Run(uri, func(t *testing.T) {
				NewUri().Validate(bytes.Bytes(uri))
			})
		}
	})

	t.Run("negative", func(t *testing.T) {
		var cc = map[string]string{
			"":                                "Invalid URI ()",
			"12":                              "Invalid URI (12)",
			"1.2":                             "Invalid URI (1.2)",
			"true":                            "Invalid URI (true)",
			"false":                           "Invalid URI (false)",
			"null":                            "Invalid URI (null)",
			`"ABC"`:                           "Invalid URI (ABC)",
			"example.org":                     "Invalid URI (example.org)",
			" https://example.org":            "Invalid URI ( https://example.org)",
			"/path/to/file.ext":               "Invalid URI (/path/to/file.ext)",
			"path/to/file.ext":                "Invalid URI (path/to/file.ext)",
			"//example.org/path/to/file.ext":  "Invalid URI (//example.org/path/to/file.ext)",
			"://example.org/path/to/file.ext": "Invalid URI (://example.org/path/to/file.ext)",
			"?q=1":                            "Invalid URI (?q=1)",
			"http":                            "Invalid URI (http)",
			"http:":                           "Invalid URI (http:)",
			"http:/":                          "Invalid URI (http:/)",
			"http://":                         "Invalid URI (http://)",
			"http://?q=1":                     "Invalid URI (http://?q=1)",
		}

		for uri, expected := range cc {
			t.Run(uri, func(t *testing.T) {
				assert.PanicsWithError(t, expected, func() {
					NewUri().Validate(bytes.Bytes(uri))
				})
			})
		}
	})
}

func TestUri_ASTNode(t *testing.T) {
	assert.Equal(t, newEmptyRuleASTNode(), Uri{}.ASTNode())
}
