package schema

import (
	jschema "github.com/jsightapi/jsight-schema-go-library"
	"github.com/jsightapi/jsight-schema-go-library/bytes"
	"github.com/jsightapi/jsight-schema-go-library/errors"
	"github.com/jsightapi/jsight-schema-go-library/internal/json"
	"github.com/jsightapi/jsight-schema-go-library/internal/lexeme"
	"github.com/jsightapi/jsight-schema-go-library/notations/jschema/internal/schema/constraint"
)

type baseNode struct {
	// parent a parent node.
	parent Node

	realType string

	// comment a node comment.
	comment string

	// constraints a list of this node constraints.
	constraints *Constraints

	// schemaLexEvent used to check and display an error if the node value does
	// not match the constraints.
	schemaLexEvent lexeme.LexEvent

	// jsonType a JSON type for this node.
	jsonType json.Type
}

func newBaseNode(lex lexeme.LexEvent) baseNode {
	return baseNode{
		parent:         nil,
		jsonType:       json.TypeUndefined,
		schemaLexEvent: lex,
		constraints:    &Constraints{},
	}
}

func (n baseNode) Type() json.Type {
	return n.jsonType
}

func (n baseNode) SchemaType() jschema.SchemaType {
	for k, v := range constraintToSchemaTypeMap {
		if n.constraints.Has(k) {
			return v
		}
	}
	return jschema.SchemaType(n.jsonType.String())
}

var constraintToSchemaTypeMap = map[constraint.Type]jschema.SchemaType{
	constraint.AnyConstraintType:      jschema.SchemaTypeAny,
	constraint.DateConstraintType:     jschema.SchemaTypeDate,
	constraint.DateTimeConstraintType: jschema.SchemaTypeDateTime,
	constraint.UuidConstraintType:     jschema.SchemaTypeUUID,
	constraint.UriConstraintType:      jschema.SchemaTypeURI,
	constraint.EmailConstraintType:    jschema.SchemaTypeEmail,
}

func (n *baseNode) SetRealType(s string) bool {
	// Make sure current real type is compatible with node type.
	avail, ok := compatibleTypes[s]
	if !ok {
		return false
	}

	if _, ok := avail[n.jsonType]; !ok {
		return false
	}

	n.realType = s
	return true
}

var compatibleTypes = map[string]map[json.Type]struct{}{
	"mixed": availableJSONTypes(
		json.TypeObject,
		json.TypeArray,
		json.TypeString,
		json.TypeInteger,
		json.TypeFloat,
		json.TypeBoolean,
		json.TypeNull,
		json.TypeMixed,
	),
	"enum": availableJSONTypes(
		json.TypeString,
		json.TypeInteger,
		json.TypeFloat,
		json.TypeBoolean,
		json.TypeNull,
	),
	"any": availableJSONTypes(
		json.TypeObject,
		json.TypeArray,
		json.TypeString,
		json.TypeInteger,
		json.TypeFloat,
		json.TypeBoolean,
		json.TypeNull,
		json.TypeMixed,
	),
	"decimal":  availableJSONTypes(json.TypeFloat),
	"email":    availableJSONTypes(json.TypeString),
	"uri":      availableJSONTypes(json.TypeString),
	"uuid":     availableJSONTypes(json.TypeString),
	"date":     availableJSONTypes(json.TypeString),
	"datetime": availableJSONTypes(json.TypeString),
	"object":   availableJSONTypes(json.TypeObject),
	"array":    availableJSONTypes(json.TypeArray),
	"string":   availableJSONTypes(json.TypeString),
	"integer":  availableJSONTypes(json.TypeInteger),
	"float":    availableJSONTypes(json.TypeFloat),
	"boolean":  availableJSONTypes(json.TypeBoolean),
	"null":     availableJSONTypes(json.TypeNull),
}

func availableJSONTypes(tt ...json.Type) map[json.Type]struct{} {
	res := map[json.Type]struct{}{}
	for _, t := range tt {
		res[t] = struct{}{}
	}
	return res
}

func (n *baseNode) RealType() string {
	if n.realType == "" {
		return n.jsonType.String()
	}
	return n.realType
}

func (n *baseNode) setJsonType(t json.Type) {
	n.jsonType = t
}

func (n baseNode) Parent() Node {
	return n.parent
}

func (n *baseNode) SetParent(parent Node) {
	n.parent = parent
}

func (n baseNode) BasisLexEventOfSchemaForNode() lexeme.LexEvent {
	return n.schemaLexEvent
}

// Constraint returns requested Constraint if found.
func (n baseNode) Constraint(t constraint.Type) constraint.Constraint {
	if n.constraints == nil {
		return nil
	}
	c, ok := n.constraints.Get(t)
	if ok {
		return c
	}
	return nil
}

// AddConstraint adds new constraint to this node.
// Won't add if c is nil.
func (n *baseNode) AddConstraint(c constraint.Constraint) {
	if c == nil {
		return
	}

	if n.constraints.Has(c.Type()) { // find an existing constraint
		panic(errors.Format(errors.ErrDuplicateRule, c.Type().String()))
	}

	n.constraints.Set(c.Type(), c)
}

func (n *baseNode) DeleteConstraint(t constraint.Type) {
	n.constraints.Delete(t)
}

// ConstraintMap returns all constraints.
func (n baseNode) ConstraintMap() *Constraints {
	return n.constraints
}

func (n baseNode) NumberOfConstraints() int {
	return n.constraints.Len()
}

func (n baseNode) Value() bytes.Bytes {
	return n.schemaLexEvent.Value()
}

func (n *baseNode) SetComment(s string) {
	n.comment = s
}

func (n *baseNode) Comment() string {
	return n.comment
}
