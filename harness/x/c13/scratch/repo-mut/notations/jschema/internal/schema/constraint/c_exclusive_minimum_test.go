package constraint

import (
	"fmt"
	"strconv"
	"testing"

	"github.com/stretchr/testify/assert"

	jschema "github.com/jsightapi/jsight-schema-go-library"
	"github.com/jsightapi/jsight-schema-go-library/bytes"
	"github.com/jsightapi/jsight-schema-go-library/internal/json"
)

func TestNewExclusiveMinimum(t *testing.T) {
	t.Run("positive", func(t *testing.T) {
		cc := map[string]bool{
			"false": false,
			"true":  true,
		}

		for given, expected := range cc {
			t.Run(given, func(t *testing.T) {
				cnstr := NewExclusiveMinimum([]byte(given))
				assert.Equal(t, expected, cnstr.exclusive)
			})
		}
	})

	t.Run("negative", func(t *testing.T) {
		assert.PanicsWithError(t, `Invalid value of "exclusiveMinimum" constraint`, func() {
			NewExclusiveMinimum([]byte("42"))
		})
	})
}

func TestExclusiveMinimum_IsJsonTypeCompatible(t *testing.T) {
	testIsJsonTypeCompatible(t, ExclusiveMinimum{}, json.TypeInteger, json.TypeFloat)
}

func TestExclusiveMinimum_Type(t *testing.T) {
	assert.Equal(t, ExclusiveMinimumConstraintType, NewExclusiveMinimum(bytes.Bytes("true")).Type())
}

func TestExclusiveMinimum_String(t *testing.T) {
	cc := map[bool]string{
		false: "[ UNVERIFIABLE CONSTRAINT ] exclusiveMinimum: false",
		true:  "[ UNVERIFIABLE CONSTRAINT ] exclusiveMinimum: true",
	}

	for given, expected := range cc {
		t.Run(expected, func(t *testing.T) {
			actual := ExclusiveMinimum{
				exclusive: given,
			}.
				String()

			assert.Equal(t, expected, actual)
		})
	}
}

func TestExclusiveMinimum_IsExclusive(t *testing.T) {
	cc := []bool{false, true}

	for _, expected := range cc {
		t.Run(fmt.Sprintf("%t", expected), func(t *testing.T) {
			actual := ExclusiveMinimum{
				exclusive: expected,
			}.
				IsExclusive()

			assert.Equal(t, expected, actual)
		})
	}
}

func TestExclusiveMinimum_ASTNode(t *testing.T) {
	cc := []bool{true, false}

	for _, c := range cc {
		t.Run(strconv.FormatBool(c), func(t *testing.T) {
			assert.Equal(t, jschema.RuleASTNode{
				TokenType:  jschema.TokenTypeBoolean,
				Value:      strconv.FormatBool(c),
				Properties: &jschema.RuleASTNodes{},
				Source:     jschema.RuleASTNodeSourceManual,
			}, ExclusiveMinimum{exclusive: c}.ASTNode())
		})
	}
}
