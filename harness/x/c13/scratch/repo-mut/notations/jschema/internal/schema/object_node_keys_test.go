package schema

import (
	"testing"

	"github.com/stretchr/testify/assert"
)

func TestObjectNodeKeys_Set(t *testing.T) {
	cc := map[string]struct {
		keys         *ObjectNodeKeys
		given        ObjectNodeKey
		expectedErr  string
		expectedData []ObjectNodeKey
	}{
		"new isn't shortcut, without duplication": {
			keys: fakeObjectNodeKeys(
				ObjectNodeKey{Key: "bar"},
				ObjectNodeKey{Key: "fizz", IsShortcut: true},
			),
			given: ObjectNodeKey{Key: "foo", IsShortcut: false},
			expectedData: []ObjectNodeKey{
				{Key: "bar"},
				{Key: "fizz", IsShortcut: true},
				{Key: "foo"},
			},
		},
		"new is shortcut, without duplication": {
			keys: fakeObjectNodeKeys(
				ObjectNodeKey{Key: "bar"},
				ObjectNodeKey{Key: "fizz", IsShortcut: true},
			),
			given: ObjectNodeKey{Key: "foo", IsShortcut: true},
			expectedData: []ObjectNodeKey{
				{Key: "bar"},
				{Key: "fizz", IsShortcut: true},
				{Key: "foo", IsShortcut: true},
			},
		},

		"new isn't shortcut, exists isn't shortcut": {
			keys:        fakeObjectNodeKeys(ObjectNodeKey{Key: "foo"}),
			given:       ObjectNodeKey{Key: "foo"},
			expectedErr: "Duplicate keys (foo) in the schema",
		},

		"new isn't shortcut, exists is shortcut": {
			keys:  fakeObjectNodeKeys(ObjectNodeKey{Key: "foo", IsShortcut: true}),
			given: ObjectNodeKey{Key: "foo"},
			expectedData: []ObjectNodeKey{
				{Key: "foo", IsShortcut: true},
				{Key: "foo"},
			},
		},

		"new is shortcut, exists isn't shortcut": {
			keys:  fakeObjectNodeKeys(ObjectNodeKey{Key: "foo"}),
			given: ObjectNodeKey{Key: "foo", IsShortcut: true},
			expectedData: []ObjectNodeKey{
				{Key: "foo"},
				{Key: "foo", IsShortcut: true},
			},
		},

		"new is shortcut, exists is shortcut": {
			keys:        fakeObjectNodeKeys(ObjectNodeKey{Key: "foo", IsShortcut: true}),
			given:       ObjectNodeKey{Key: "foo", IsShortcut: true},
			expectedErr: "Duplicate keys (foo) in the schema",
		},
	}

	for n, c := range cc {
		t.Run(n, func(t *testing.T) {
			if c.expectedErr != "" {
				assert.PanicsWithError(t, c.expectedErr, func() {
					c.keys.Set(c.given)
				})
			} else {
				c.keys.Set(c.given)

				assert.Equal(t, c.keys.Data, c.expectedData)
			}
		})
	}
}

func fakeObjectNodeKeys(kk ...ObjectNodeKey) *ObjectNodeKeys {
	keys := newObjectNodeKeys()
	for _, k := range kk {
		keys.Set(k)
	}
	return keys
}
