package constraint

import (
	"testing"

	"github.com/stretchr/testify/assert"
	"github.com/stretchr/testify/require"

	jschema "github.com/jsightapi/jsight-schema-go-library"
	"github.com/jsightapi/jsight-schema-go-library/bytes"
	"github.com/jsightapi/jsight-schema-go-library/internal/json"
)

func TestNewMax(t *testing.T) {
	t.Run("positive", func(t *testing.T) {
		ruleValue := bytes.Bytes("3.14")
		cnstr := NewMax(ruleValue)

		expectedNumber, err := json.NewNumber(ruleValue)
		require.NoError(t, err)

		assert.Equal(t, ruleValue, cnstr.rawValue)
		assert.Equal(t, expectedNumber, cnstr.max)
		assert.False(t, cnstr.exclusive)
	})

	t.Run("negative", func(t *testing.T) {
		assert.PanicsWithError(t, `Incorrect number value "not a number"`, func() {
			NewMax([]byte("not a number"))
		})
	})
}

func TestMax_IsJsonTypeCompatible(t *testing.T) {
	testIsJsonTypeCompatible(t, Max{}, json.TypeInteger, json.TypeFloat)
}

func TestMax_Type(t *testing.T) {
	assert.Equal(t, MaxConstraintType, NewMax(bytes.Bytes("1")).Type())
}

func TestMax_String(t *testing.T) {
	cc := map[bool]string{
		false: "max: 3.14",
		true:  "max: 3.14 (exclusive: true)",
	}

	for exclusive, expected := range cc {
		t.Run(expected, func(t *testing.T) {
			cnstr := NewMax([]byte("3.14"))
			cnstr.SetExclusive(exclusive)

			actual := cnstr.String()
			assert.Equal(t, expected, actual)
		})
	}
}

func TestMax_SetExclusive(t *testing.T) {
	cnstr := Max{}

	cnstr.SetExclusive(true)
	assert.True(t, cnstr.exclusive)

	cnstr.SetExclusive(false)
	assert.False(t, cnstr.exclusive)
}

func TestMax_Exclusive(t *testing.T) {
	cnstr := Max{}

	cnstr.exclusive = true
	assert.True(t, cnstr.Exclusive())

	cnstr.exclusive = false
	assert.False(t, cnstr.Exclusive())
}

func TestMax_Validate(t *testing.T) {
	t.Run("positive", func(t *testing.T) {
		newMax := func(max string, exclusive bool) *Max {
			cnstr := NewMax([]byte(max))
			cnstr.SetExclusive(exclusive)
			return cnstr
		}

		cc := map[string]struct {
			cnstr *Max
			value string
			error string
		}{
			"3.14 <= 3.14": {
				cnstr: newMax("3.14", true),
				value: "3.14",
				error: `Invalid value for "max" = 3.14 constraint (exclusive)`,
			},
			"3.14 <= 2": {
				cnstr: newMax("3.14", true),
				value: "2",
			},
			"3.14 < 3.14": {
				cnstr: newMax("3.14", false),
				value: "3.14",
			},
			"3.14 < 2": {
				cnstr: newMax("3.14", false),
				value: "2",
			},
			"3.14 <= 4": {
				cnstr: newMax("3.14", true),
				value: "4",
				error: `Invalid value for "max" = 3.14 constraint (exclusive)`,
			},
			"3.14 < 4": {
				cnstr: newMax("3.14", false),
				value: "4",
				error: `Invalid value for "max" = 3.14 constraint `,
			},
		}

		for name, c := range cc {
			t.Run(name, func(t *testing.T) {
				if c.error != "" {
					assert.PanicsWithError(t, c.error, func() {
						c.cnstr.Validate([]byte(c.value))
					})
				} else {
					assert.NotPanics(t, func() {
						c.cnstr.Validate([]byte(c.value))
					})
				}
			})
		}
	})

	t.Run("negative", func(t *testing.T) {
		assert.PanicsWithError(t, `Incorrect number value "not a number"`, func() {
			NewMax([]byte("3")).Validate([]byte("not a number"))
		})
	})
}

func TestMax_ASTNode(t *testing.T) {
	assert.Equal(t, jschema.RuleASTNode{
		TokenType:  jschema.TokenTypeNumber,
		Value:      "1",
		Properties: &jschema.RuleASTNodes{},
		Source:     jschema.RuleASTNodeSourceManual,
	}, NewMax(bytes.Bytes("1")).ASTNode())
}

func TestMax_Value(t *testing.T) {
	num, err := json.NewNumber([]byte("42"))
	require.NoError(t, err)

	cnstr := Max{
		max: num,
	}
	assert.Equal(t, num, cnstr.Value())
}
