package checker

import (
	"fmt"
	"testing"

	"github.com/stretchr/testify/assert"
	"github.com/stretchr/testify/require"

	"github.com/jsightapi/jsight-schema-go-library/errors"
	"github.com/jsightapi/jsight-schema-go-library/notations/jschema/internal/mocks"
	"github.com/jsightapi/jsight-schema-go-library/notations/jschema/internal/schema"
)

func Test_newNodeChecker(t *testing.T) {
	t.Run("positive", func(t *testing.T) {
		cc := map[schema.Node]nodeChecker{
			&schema.LiteralNode{}: literalChecker{},
			&schema.ObjectNode{}:  objectChecker{},
			&schema.ArrayNode{}:   arrayChecker{},
			&schema.MixedNode{}:   mixedChecker{},
		}

		for node, expected := range cc {
			t.Run(fmt.Sprintf("%T", node), func(t *testing.T) {
				actual, err := newNodeChecker(node)
				require.NoError(t, err)

				assert.IsType(t, expected, actual)
			})
		}
	})

	t.Run("negative", func(t *testing.T) {
		cc := map[string]schema.Node{
			"nil":          nil,
			"not expected": &mocks.Node{},
		}

		for n, c := range cc {
			t.Run(n, func(t *testing.T) {
				_, err := newNodeChecker(c)
				assert.ErrorIs(t, err, errors.ErrImpossible)
			})
		}
	})
}
