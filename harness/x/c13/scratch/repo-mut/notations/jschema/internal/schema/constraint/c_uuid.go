package constraint

import (
	"bytes"
	stdErrors "errors"
	"fmt"

	jschema "github.com/jsightapi/jsight-schema-go-library"
	jbytes "github.com/jsightapi/jsight-schema-go-library/bytes"
	"github.com/jsightapi/jsight-schema-go-library/errors"
	"github.com/jsightapi/jsight-schema-go-library/internal/json"
)

type UUID struct{}

var (
	_ Constraint       = UUID{}
	_ Constraint       = (*UUID)(nil)
	_ LiteralValidator = UUID{}
	_ LiteralValidator = (*UUID)(nil)
)

func NewUuid() *UUID {
	return &UUID{}
}

func (UUID) IsJsonTypeCompatible(t json.Type) bool {
	return t == json.TypeString
}

func (UUID) Type() Type {
	return UuidConstraintType
}

func (UUID) String() string {
	return UuidConstraintType.String()
}

func (UUID) Validate(value jbytes.Bytes) {
	err := parseBytes(value.Unquote())
	if err != nil {
		panic(errors.Format(errors.ErrInvalidUuid, err))
	}
}

func (UUID) ASTNode() jschema.RuleASTNode {
	return newEmptyRuleASTNode()
}

// parseBytes parse UUID bytes.
// All the following on the basis of github.com/google/uuid.
func parseBytes(b []byte) error { //nolint:gocyclo // For now it's okay.
	switch len(b) {
	case 36: // xxxxxxxx-xxxx-xxxx-xxxx-xxxxxxxxxxxx
	case 36 + 9: // urn:uuid:xxxxxxxx-xxxx-xxxx-xxxx-xxxxxxxxxxxx
		if !bytes.Equal(bytes.ToLower(b[:9]), []byte("urn:uuid:")) {
			return fmt.Errorf("invalid urn prefix: %q", b[:9])
		}
		b = b[9:]
	case 36 + 2: // {xxxxxxxx-xxxx-xxxx-xxxx-xxxxxxxxxxxx}
		if b[0] != '{' || b[37] != '}' {
			return stdErrors.New("invalid prefix: braces expected")
		}
		b = b[1:]
	case 32: // xxxxxxxxxxxxxxxxxxxxxxxxxxxxxxxx
		for i := 0; i < 32; i += 2 {
			if !xtob(b[i], b[i+1]) {
				return stdErrors.New("invalid UUID format")
			}
		}
		return nil
	default:
		return fmt.Errorf("invalid UUID length: %d", len(b))
	}

	// it must be of the form  xxxxxxxx-xxxx-xxxx-xxxx-xxxxxxxxxxxx
	if b[8] != '-' || b[13] != '-' || b[18] != '-' || b[23] != '-' {
		return stdErrors.New("invalid UUID format")
	}
	for _, x := range [16]int{
		0, 2, 4, 6,
		9, 11,
		14, 16,
		19, 21,
		24, 26, 28, 30, 32, 34} {
		if !xtob(b[x], b[x+1]) {
			return stdErrors.New("invalid UUID format")
		}
	}
	return nil
}

func xtob(x1, x2 byte) bool {
	b1 := xvalues[x1]
	b2 := xvalues[x2]
	return b1 != 255 && b2 != 255
}

var xvalues = [256]byte{
	255, 255, 255, 255, 255, 255, 255, 255, 255, 255, 255, 255, 255, 255, 255, 255,
	255, 255, 255, 255, 255, 255, 255, 255, 255, 255, 255, 255, 255, 255, 255, 255,
	255, 255, 255, 255, 255, 255, 255, 255, 255, 255, 255, 255, 255, 255, 255, 255,
	0, 1, 2, 3, 4, 5, 6, 7, 8, 9, 255, 255, 255, 255, 255, 255,
	255, 10, 11, 12, 13, 14, 15, 255, 255, 255, 255, 255, 255, 255, 255, 255,
	255, 255, 255, 255, 255, 255, 255, 255, 255, 255, 255, 255, 255, 255, 255, 255,
	255, 10, 11, 12, 13, 14, 15, 255, 255, 255, 255, 255, 255, 255, 255, 255,
	255, 255, 255, 255, 255, 255, 255, 255, 255, 255, 255, 255, 255, 255, 255, 255,
	255, 255, 255, 255, 255, 255, 255, 255, 255, 255, 255, 255, 255, 255, 255, 255,
	255, 255, 255, 255, 255, 255, 255, 255, 255, 255, 255, 255, 255, 255, 255, 255,
	255, 255, 255, 255, 255, 255, 255, 255, 255, 255, 255, 255, 255, 255, 255, 255,
	255, 255, 255, 255, 255, 255, 255, 255, 255, 255, 255, 255, 255, 255, 255, 255,
	255, 255, 255, 255, 255, 255, 255, 255, 255, 255, 255, 255, 255, 255, 255, 255,
	255, 255, 255, 255, 255, 255, 255, 255, 255, 255, 255, 255, 255, 255, 255, 255,
	255, 255, 255, 255, 255, 255, 255, 255, 255, 255, 255, 255, 255, 255, 255, 255,
	255, 255, 255, 255, 255, 255, 255, 255, 255, 255, 255, 255, 255, 255, 255, 255,
}
