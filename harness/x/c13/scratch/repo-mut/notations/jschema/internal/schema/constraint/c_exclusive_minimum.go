package constraint //nolint:dupl // Duplicates exclusive minimum with small differences.

import (
	"strconv"

	jschema "github.com/jsightapi/jsight-schema-go-library"
	"github.com/jsightapi/jsight-schema-go-library/bytes"
	"github.com/jsightapi/jsight-schema-go-library/errors"
	"github.com/jsightapi/jsight-schema-go-library/internal/json"
)

type ExclusiveMinimum struct {
	exclusive bool
}

var (
	_ Constraint = ExclusiveMinimum{}
	_ Constraint = (*ExclusiveMinimum)(nil)
)

func NewExclusiveMinimum(ruleValue bytes.Bytes) *ExclusiveMinimum {
	c := ExclusiveMinimum{}

	var err error
	if c.exclusive, err = ruleValue.ParseBool(); err != nil {
		panic(errors.Format(errors.ErrInvalidValueOfConstraint, ExclusiveMinimumConstraintType.String()))
	}
	return &c
}

func (ExclusiveMinimum) IsJsonTypeCompatible(t json.Type) bool {
	return t == json.TypeInteger || t == json.TypeFloat
}

func (ExclusiveMinimum) Type() Type {
	return ExclusiveMinimumConstraintType
}

func (c ExclusiveMinimum) String() string {
	str := "[ UNVERIFIABLE CONSTRAINT ] " + ExclusiveMinimumConstraintType.String()
	if c.exclusive {
		str += ": true"
	} else {
		str += ": false"
	}
	return str
}

func (c ExclusiveMinimum) IsExclusive() bool {
	return c.exclusive
}

func (c ExclusiveMinimum) ASTNode() jschema.RuleASTNode {
	return newRuleASTNode(jschema.TokenTypeBoolean, strconv.FormatBool(c.exclusive), jschema.RuleASTNodeSourceManual)
}
