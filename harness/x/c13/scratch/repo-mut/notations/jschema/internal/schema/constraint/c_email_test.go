package constraint

import (
	"testing"

	"github.com/stretchr/testify/assert"

	"github.com/jsightapi/jsight-schema-go-library/bytes"
	"github.com/jsightapi/jsight-schema-go-library/internal/json"
)

func TestEmail_IsJsonTypeCompatible(t *testing.T) {
	testIsJsonTypeCompatible(t, NewEmail(), json.TypeString)
}

func TestEmail_Type(t *testing.T) {
	assert.Equal(t, EmailConstraintType, NewEmail().Type())
}

func TestEmail_String(t *testing.T) {
	assert.Equal(t, "email", NewEmail().String())
}

func TestEmail_Validate(t *testing.T) {
	t.Run("positive", func(t *testing.T) {
		var tests = []string{
			`prettyandsimple@example.com`,
			`very.common@example.com`,
			`disposable.style.email.with+symbol@example.com`,
			`other.email-with-dash@example.com`,
			`x@example.com`,
			`"John..Doe"@example.com`,
			`"much.more unusual"@example.com`,
			`"very.unusual.@.unusual.com"@example.com`,
			`"very.(),:;<>[]\".VERY.\"very@\ \"very\".unusual"@strange.example.com`,
			`example-indeed@strange-example.com`,
			`admin@mailserver1`,
			"#!$%&'*+-/=?^_`{}|~@example.org",
			`" "@example.org`,
			`example@localhost`,
			`example@s.solutions`,
			`user@com`,
			`user@localserver`,
			`ç$€§/az@gmail.com`,
		}

		for _, email := range tests {
			t.Run(email, func(t *testing.T) {
				NewEmail().Validate(bytes.Bytes(email))
			})
		}
	})

	t.Run("negative", func(t *testing.T) {
		var tests = map[string]string{
			"":   "Empty email",
			`""`: "Empty email",
			// no @ character
			"Abc.example.com": "Invalid email (Abc.example.com)",
			// only one @ is allowed outside quotation marks
			"A@b@c@example.com": "Invalid email (A@b@c@example.com)",
			// none of the special characters in this local part are allowed outside quotation marks
			`a"b(c)d,e:f;gi[j\k]l@example.com`: `Invalid email (a"b(c)d,e:f;gi[j\k]l@example.com)`,
			// quoted strings must be dot separated or the only element making up the local part
			`just"not"right@example.com`: `Invalid email (just"not"right@example.com)`,
			// spaces, quotes, and backslashes may only exist when within quoted strings and preceded by a backslash
			`this is"not\allowed@example.com`: `Invalid email (this is"not\allowed@example.com)`,
			// even if escaped (preceded by a backslash), spaces, quotes, and backslashes must still be contained by quotes
			`this\ still\"not\allowed@example.com`: `Invalid email (this\ still\"not\allowed@example.com)`,
			// double dot before @; (with caveat: Gmail lets this through)
			"john..doe@example.com": `Invalid email (john..doe@example.com)`,
			// double dot after @
			"john.doe@example..com": `Invalid email (john.doe@example..com)`,

			// a valid address with name
			"Barry Gibbs <bg@example.com>": "Invalid email (Barry Gibbs <bg@example.com>)",
			// a valid address with a leading space
			" aaa@bbb.cc": "Invalid email ( aaa@bbb.cc)",
			// a valid address with a trailing space
			"aaa@bbb.cc ":      "Invalid email (aaa@bbb.cc )",
			"bg@example.com>":  "Invalid email (bg@example.com>)",
			"<bg@example.com":  "Invalid email (<bg@example.com)",
			"<bg@example.com>": "Invalid email (<bg@example.com>)",
		}

		for email, expected := range tests {
			t.Run(email, func(t *testing.T) {
				assert.PanicsWithError(t, expected, func() {
					NewEmail().Validate(bytes.Bytes(email))
				})
			})
		}
	})
}

func TestEmail_ASTNode(t *testing.T) {
	assert.Equal(t, newEmptyRuleASTNode(), Email{}.ASTNode())
}
