package loader

import (
	"testing"

	"github.com/stretchr/testify/assert"
	"github.com/stretchr/testify/require"

	"github.com/jsightapi/jsight-schema-go-library/bytes"
	"github.com/jsightapi/jsight-schema-go-library/errors"
	"github.com/jsightapi/jsight-schema-go-library/fs"
	"github.com/jsightapi/jsight-schema-go-library/internal/lexeme"
	"github.com/jsightapi/jsight-schema-go-library/notations/jschema/internal/schema"
	"github.com/jsightapi/jsight-schema-go-library/notations/jschema/internal/schema/constraint"
)

func Test_addShortcutConstraint(t *testing.T) {
	t.Run("positive", func(t *testing.T) {
		t.Run("or", func(t *testing.T) {
			const content = "@foo|@bar"

			n := schema.NewNode(lexeme.NewLexEvent(lexeme.ObjectBegin, 0, 0, nil))
			sc := schema.New()
			f := fs.NewFile("", content)
			lex := lexeme.NewLexEvent(lexeme.TypesShortcutEnd, 0, bytes.Index(len(content)-1), f)

			err := addShortcutConstraint(n, &sc, lex)
			require.NoError(t, err)

			c := n.Constraint(constraint.TypesListConstraintType)
			require.NotNil(t, c)
			require.IsType(t, &constraint.TypesList{}, c)
			assert.Equal(t, []string{"@foo", "@bar"}, c.(*constraint.TypesList).Names())

			c = n.Constraint(constraint.OrConstraintType)
			require.NotNil(t, c)
			require.IsType(t, &constraint.Or{}, c)
		})

		t.Run("types", func(t *testing.T) {
			const content = "@foo"

			n := schema.NewNode(lexeme.NewLexEvent(lexeme.ObjectBegin, 0, 0, nil))
			sc := schema.New()
			f := fs.NewFile("", content)
			lex := lexeme.NewLexEvent(lexeme.TypesShortcutEnd, 0, bytes.Index(len(content)-1), f)

			err := addShortcutConstraint(n, &sc, lex)
			require.NoError(t, err)

			c := n.Constraint(constraint.TypeConstraintType)
			require.NotNil(t, c)
			require.IsType(t, &constraint.TypeConstraint{}, c)

			assert.Equal(t, bytes.Bytes("@foo"), c.(*constraint.TypeConstraint).Bytes())
		})
	})

	t.Run("negative", func(t *testing.T) {
		cc := []lexeme.LexEventType{
			lexeme.LiteralBegin,
			lexeme.LiteralEnd,
			lexeme.ObjectBegin,
			lexeme.ObjectEnd,
			lexeme.ObjectKeyBegin,
			lexeme.ObjectKeyEnd,
			lexeme.ObjectValueBegin,
			lexeme.ObjectValueEnd,
			lexeme.ArrayBegin,
			lexeme.ArrayEnd,
			lexeme.ArrayItemBegin,
			lexeme.ArrayItemEnd,
			lexeme.InlineAnnotationBegin,
			lexeme.InlineAnnotationEnd,
			lexeme.InlineAnnotationTextBegin,
			lexeme.InlineAnnotationTextEnd,
			lexeme.MultiLineAnnotationBegin,
			lexeme.MultiLineAnnotationEnd,
			lexeme.MultiLineAnnotationTextBegin,
			lexeme.MultiLineAnnotationTextEnd,
			lexeme.NewLine,
			lexeme.TypesShortcutBegin,
			lexeme.EndTop,
		}

		for _, c := range cc {
			t.Run(c.String(), func(t *testing.T) {
				err := addShortcutConstraint(nil, nil, lexeme.NewLexEvent(c, 0, 0, nil))
				assert.Equal(t, errors.ErrLoader, err)
			})
		}
	})
}

func Test_addORShortcut(t *testing.T) {
	cc := map[string][]string{
		"@foo":              {"@foo"},
		"\t@foo  \t ":       {"@foo"},
		"@foo | @bar":       {"@foo", "@bar"},
		"\t@foo \t |@bar  ": {"@foo", "@bar"},
	}

	for content, expected := range cc {
		t.Run(content, func(t *testing.T) {
			n := schema.NewNode(lexeme.NewLexEvent(lexeme.ObjectBegin, 0, 0, nil))
			sc := schema.New()

			addORShortcut(n, &sc, content)
			c := n.Constraint(constraint.TypesListConstraintType)
			require.NotNil(t, c)
			require.IsType(t, &constraint.TypesList{}, c)
			assert.Equal(t, expected, c.(*constraint.TypesList).Names())

			c = n.Constraint(constraint.OrConstraintType)
			require.NotNil(t, c)
			require.IsType(t, &constraint.Or{}, c)

			assert.Len(t, sc.TypesList(), len(expected))
		})
	}
}

func Test_addTypeShortcut(t *testing.T) {
	cc := map[string]string{
		"@foo":        "@foo",
		"\t@foo  \t ": "@foo",
	}

	for content, expected := range cc {
		t.Run(content, func(t *testing.T) {
			n := schema.NewNode(lexeme.NewLexEvent(lexeme.ObjectBegin, 0, 0, nil))

			addTypeShortcut(n, content)
			c := n.Constraint(constraint.TypeConstraintType)
			require.NotNil(t, c)
			require.IsType(t, &constraint.TypeConstraint{}, c)

			assert.Equal(t, bytes.Bytes(expected), c.(*constraint.TypeConstraint).Bytes())
		})
	}
}
