package constraint

import (
	"strings"

	jschema "github.com/jsightapi/jsight-schema-go-library"
	"github.com/jsightapi/jsight-schema-go-library/bytes"
	"github.com/jsightapi/jsight-schema-go-library/errors"
	"github.com/jsightapi/jsight-schema-go-library/internal/json"
)

type AllOf struct {
	schemaName []string
}

var (
	_ Constraint = AllOf{}
	_ Constraint = (*AllOf)(nil)
)

func NewAllOf() *AllOf {
	return &AllOf{
		schemaName: make([]string, 0, 3),
	}
}

func (AllOf) IsJsonTypeCompatible(t json.Type) bool {
	return t == json.TypeObject
}

func (AllOf) Type() Type {
	return AllOfConstraintType
}

func (c AllOf) String() string {
	return AllOfConstraintType.String() + ": " + strings.Join(c.schemaName, ", ")
}

func (c *AllOf) Append(scalar bytes.Bytes) {
	if !json.Guess(scalar).IsString() {
		panic(errors.ErrUnacceptableValueInAllOfRule)
	}

	s := scalar.Unquote()

	if !s.IsUserTypeName() {
		panic(errors.Format(errors.ErrInvalidSchemaNameInAllOfRule, s))
	}
	c.schemaName = append(c.schemaName, s.String())
}

func (c AllOf) SchemaNames() []string {
	return c.schemaName
}

func (c AllOf) ASTNode() jschema.RuleASTNode {
	const source = jschema.RuleASTNodeSourceManual

	if len(c.schemaName) == 1 {
		return newRuleASTNode(jschema.TokenTypeShortcut, c.schemaName[0], source)
	}

	n := newRuleASTNode(jschema.TokenTypeArray, "", source)
	n.Items = make([]jschema.RuleASTNode, 0, len(c.schemaName))

	for _, sn := range c.schemaName {
		n.Items = append(n.Items, newRuleASTNode(jschema.TokenTypeShortcut, sn, source))
	}

	return n
}
