package loader

import (
	"github.com/jsightapi/jsight-schema-go-library/notations/jschema/internal/schema"
	"github.com/jsightapi/jsight-schema-go-library/notations/jschema/internal/schema/constraint"
)

func addRequiredKey(node *schema.ObjectNode, key string) {
	requiredKeys := node.Constraint(constraint.RequiredKeysConstraintType)
	if requiredKeys == nil {
		requiredKeys := constraint.NewRequiredKeys()
		requiredKeys.AddKey(key)
		node.AddConstraint(requiredKeys)
	} else {
		requiredKeys.(*constraint.RequiredKeys).AddKey(key)
	}
}
