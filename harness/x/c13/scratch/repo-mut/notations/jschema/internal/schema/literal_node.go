package schema

import (
	jschema "github.com/jsightapi/jsight-schema-go-library"
	"github.com/jsightapi/jsight-schema-go-library/internal/json"
	"github.com/jsightapi/jsight-schema-go-library/internal/lexeme"
)

type LiteralNode struct {
	baseNode
}

var _ Node = &LiteralNode{}

func newLiteralNode(lex lexeme.LexEvent) *LiteralNode {
	n := LiteralNode{
		baseNode: newBaseNode(lex),
	}
	return &n
}

func (n *LiteralNode) Grow(lex lexeme.LexEvent) (Node, bool) {
	switch lex.Type() {
	case lexeme.LiteralBegin:

	case lexeme.LiteralEnd:
		n.schemaLexEvent = lex
		t := json.Guess(lex.Value()).LiteralJsonType()
		n.setJsonType(t)
		return n.parent, false

	default:
		panic(`Unexpected lexical event "` + lex.Type().String() + `" in literal node`)
	}

	return n, false
}

func (n *LiteralNode) ASTNode() (jschema.ASTNode, error) {
	an := astNodeFromNode(n)
	an.Value = n.Value().Unquote().String()
	return an, nil
}
