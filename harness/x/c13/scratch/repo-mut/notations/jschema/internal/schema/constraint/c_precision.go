package constraint

import (
	"strconv"

	jschema "github.com/jsightapi/jsight-schema-go-library"
	"github.com/jsightapi/jsight-schema-go-library/bytes"
	"github.com/jsightapi/jsight-schema-go-library/errors"
	"github.com/jsightapi/jsight-schema-go-library/internal/json"
)

type Precision struct {
	value uint
}

var (
	_ Constraint       = Precision{}
	_ Constraint       = (*Precision)(nil)
	_ LiteralValidator = Precision{}
	_ LiteralValidator = (*Precision)(nil)
)

func NewPrecision(ruleValue bytes.Bytes) *Precision {
	u := parseUint(ruleValue, PrecisionConstraintType)

	if u == 0 {
		panic(errors.ErrZeroPrecision)
	}

	return &Precision{
		value: u,
	}
}

func (Precision) IsJsonTypeCompatible(t json.Type) bool {
	return t == json.TypeFloat
}

func (Precision) Type() Type {
	return PrecisionConstraintType
}

func (c Precision) String() string {
	return PrecisionConstraintType.String() + ": " + strconv.Itoa(int(c.value))
}

func (c Precision) Validate(value bytes.Bytes) {
	n, err := json.NewNumber(value)
	if err != nil {
		panic(err)
	}
	if c.value < n.LengthOfFractionalPart() {
		panic(errors.Format(
			errors.ErrConstraintValidation,
			PrecisionConstraintType.String(),
			strconv.Itoa(int(c.value)),
			"(exclusive)",
		))
	}
}

func (c Precision) ASTNode() jschema.RuleASTNode {
	return newRuleASTNode(
		jschema.TokenTypeNumber,
		strconv.FormatUint(uint64(c.value), 10),
		jschema.RuleASTNodeSourceManual,
	)
}
