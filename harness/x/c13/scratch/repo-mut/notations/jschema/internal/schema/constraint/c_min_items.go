package constraint

import (
	"strconv"

	jschema "github.com/jsightapi/jsight-schema-go-library"
	"github.com/jsightapi/jsight-schema-go-library/bytes"
	"github.com/jsightapi/jsight-schema-go-library/errors"
	"github.com/jsightapi/jsight-schema-go-library/internal/json"
)

type MinItems struct {
	value uint
}

var (
	_ Constraint     = MinItems{}
	_ Constraint     = (*MinItems)(nil)
	_ ArrayValidator = MinItems{}
	_ ArrayValidator = (*MinItems)(nil)
)

func NewMinItems(ruleValue bytes.Bytes) *MinItems {
	return &MinItems{
		value: parseUint(ruleValue, MinItemsConstraintType),
	}
}

func (MinItems) IsJsonTypeCompatible(t json.Type) bool {
	return t == json.TypeArray
}

func (MinItems) Type() Type {
	return MinItemsConstraintType
}

func (c MinItems) String() string {
	return MinItemsConstraintType.String() + ": " + strconv.FormatUint(uint64(c.value), 10)
}

func (c MinItems) ValidateTheArray(numberOfChildren uint) {
	if numberOfChildren < c.value {
		panic(errors.ErrConstraintMinItemsValidation)
	}
}

func (c MinItems) Value() uint {
	return c.value
}

func (c MinItems) ASTNode() jschema.RuleASTNode {
	return newRuleASTNode(
		jschema.TokenTypeNumber,
		strconv.FormatUint(uint64(c.value), 10),
		jschema.RuleASTNodeSourceManual,
	)
}
